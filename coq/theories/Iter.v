(* Iter.v - abstract (byte-free) version of the indexed message iterator of Reader.v
   (Reader.i_next / Reader.indexed_all, i.e. go/mcap/indexed_message_iterator.go) and the
   unbounded proofs behind properties C03, C04 and C20.

   Contents
     1. direction-parametrised stable insertion sort (generalises en_sort_asc / en_sort_desc)
     2. abstract chunks, messages, state, a_step / a_next / a_run (mirror i_next / indexed_all)
     3. chunk-list sort (mirror of ci_sort): sortedness, permutation, insensitivity to input order
     4. run soundness: permutation, sortedness, stability          (C03, C04)
     5. fuel sufficiency
     6. slot bound                                                 (C20)
     7. read options                                               (C04)
     8. refinement Reader.i_next -> a_next under an explicit loader hypothesis (loader_ok)
     8b. the same for the log times of the returned messages (load_chunk_i, walk, yield opened)
     9. examples, packaged statements for properties/C03.v C04.v C20.v, end-to-end corollaries *)
From Coq Require Import List NArith ZArith Bool Lia ZifyN ZifyNat ZifyBool Permutation Sorted PeanoNat.
From Coq.Strings Require Import Byte.
From RecordUpdate Require Import RecordSet.
From Mcap Require Import Bytes GoSem Crc32 Records Lexer Reader.
Import ListNotations.
Open Scope N_scope.

(* ====================================================================================== *)
(* 1. direction-parametrised stable insertion sort                                        *)
(* ====================================================================================== *)

(* d = true: ascending (LogTimeOrder); d = false: descending (ReverseLogTimeOrder) *)
Definition ltd (d : bool) (a b : N) : bool := if d then a <? b else b <? a.
Definition led (d : bool) (a b : N) : Prop := if d then a <= b else b <= a.

Lemma ltd_true d a b : ltd d a b = true -> led d a b /\ ~ led d b a.
Proof. destruct d; unfold ltd, led; intro H; lia. Qed.
Lemma ltd_false d a b : ltd d a b = false -> led d b a.
Proof. destruct d; unfold ltd, led; intro H; lia. Qed.
Lemma led_refl d a : led d a a.
Proof. destruct d; unfold led; lia. Qed.
Lemma led_trans d a b c : led d a b -> led d b c -> led d a c.
Proof. destruct d; unfold led; lia. Qed.
Lemma led_antisym d a b : led d a b -> led d b a -> a = b.
Proof. destruct d; unfold led; lia. Qed.

Section StableSort.
Context {A : Type}.
Variable key : A -> N.
Variable d : bool.

Fixpoint ins (x : A) (l : list A) : list A :=
  match l with
  | [] => [x]
  | y :: r => if ltd d (key x) (key y) then x :: l else y :: ins x r
  end.
(* later elements are inserted after equal earlier ones *)
Definition sortd (l : list A) : list A := fold_left (fun acc x => ins x acc) l [].

Definition kle (a b : A) : Prop := led d (key a) (key b).
Definition ksorted : list A -> Prop := StronglySorted kle.
Definition keq (t : N) (a : A) : bool := key a =? t.

Lemma ins_perm x l : Permutation (ins x l) (x :: l).
Proof.
  induction l as [|y r IH]; cbn [ins]; auto.
  destruct (ltd d (key x) (key y)); auto.
  rewrite IH. apply perm_swap.
Qed.

Lemma fold_ins_perm l : forall acc, Permutation (fold_left (fun acc x => ins x acc) l acc) (acc ++ l).
Proof.
  induction l as [|x l IH]; intro acc; cbn [fold_left].
  - rewrite app_nil_r. reflexivity.
  - rewrite IH, ins_perm. change (x :: acc) with ([x] ++ acc).
    rewrite (Permutation_app_comm [x] acc), <- app_assoc. reflexivity.
Qed.
Lemma sortd_perm l : Permutation (sortd l) l.
Proof. unfold sortd. rewrite fold_ins_perm. reflexivity. Qed.

Lemma ins_sorted x l : ksorted l -> ksorted (ins x l).
Proof.
  induction 1 as [|y r Hr IH Hy]; cbn [ins].
  - constructor; constructor.
  - destruct (ltd d (key x) (key y)) eqn:E.
    + apply ltd_true in E. destruct E as [E _].
      constructor. { constructor; assumption. }
      constructor; [exact E|]. eapply Forall_impl; [|exact Hy].
      intros z Hz. unfold kle in *. eapply led_trans; eassumption.
    + apply ltd_false in E.
      constructor; [exact IH|].
      eapply Permutation_Forall; [symmetry; apply ins_perm|].
      constructor; [exact E|exact Hy].
Qed.
Lemma fold_ins_sorted l : forall acc, ksorted acc -> ksorted (fold_left (fun acc x => ins x acc) l acc).
Proof. induction l as [|x l IH]; intros acc H; cbn [fold_left]; auto. apply IH, ins_sorted, H. Qed.
Lemma sortd_sorted l : ksorted (sortd l).
Proof. apply fold_ins_sorted. constructor. Qed.

Lemma filter_none (p : A -> bool) l : Forall (fun z => p z = false) l -> filter p l = [].
Proof. induction 1 as [|z l Hz _ IH]; cbn [filter]; auto. rewrite Hz. exact IH. Qed.

Lemma filter_cons1 (p : A -> bool) x l : filter p (x :: l) = if p x then x :: filter p l else filter p l.
Proof. reflexivity. Qed.

(* stability: inserting x into a sorted list puts it behind every element of equal key *)
Lemma ins_filter t x l : ksorted l -> filter (keq t) (ins x l) = filter (keq t) (l ++ [x]).
Proof.
  induction 1 as [|y r Hr IH Hy]; cbn [ins]; [reflexivity|].
  destruct (ltd d (key x) (key y)) eqn:E.
  - apply ltd_true in E. destruct E as [E1 E2].
    rewrite filter_app, (filter_cons1 _ x (y :: r)), (filter_cons1 _ x []).
    destruct (keq t x) eqn:Kx; [|cbn [filter]; rewrite app_nil_r; reflexivity].
    unfold keq in Kx. apply N.eqb_eq in Kx.
    assert (Hn : filter (keq t) (y :: r) = []).
    { apply filter_none. constructor.
      - unfold keq. apply N.eqb_neq. intro Hy'. apply E2. rewrite Kx, Hy'. apply led_refl.
      - eapply Forall_impl; [|exact Hy]. intros z Hz. unfold keq. apply N.eqb_neq. intro Hz'.
        apply E2. unfold kle in Hz. rewrite Kx, <- Hz'. exact Hz. }
    rewrite Hn. reflexivity.
  - change ((y :: r) ++ [x]) with (y :: r ++ [x]). rewrite !(filter_cons1 _ y), IH. reflexivity.
Qed.
Lemma fold_ins_filter t l : forall acc, ksorted acc ->
  filter (keq t) (fold_left (fun acc x => ins x acc) l acc) = filter (keq t) (acc ++ l).
Proof.
  induction l as [|x l IH]; intros acc H; cbn [fold_left].
  - rewrite app_nil_r. reflexivity.
  - rewrite IH by (apply ins_sorted, H).
    rewrite filter_app, ins_filter by exact H. rewrite <- filter_app, <- app_assoc. reflexivity.
Qed.
Lemma sortd_filter t l : filter (keq t) (sortd l) = filter (keq t) l.
Proof. unfold sortd. rewrite fold_ins_filter by constructor. reflexivity. Qed.

Lemma keq_self a : keq (key a) a = true.
Proof. unfold keq. apply N.eqb_refl. Qed.

(* a key-sorted list is determined by its key classes *)
Lemma ksorted_classes_eq : forall l1 l2, ksorted l1 -> ksorted l2 ->
  (forall t, filter (keq t) l1 = filter (keq t) l2) -> l1 = l2.
Proof.
  induction l1 as [|a l1 IH]; intros l2 H1 H2 H.
  - destruct l2 as [|b l2]; [reflexivity|].
    specialize (H (key b)). rewrite filter_cons1, keq_self in H. discriminate.
  - destruct l2 as [|b l2].
    + specialize (H (key a)). rewrite filter_cons1, keq_self in H. discriminate.
    + inversion H1 as [|? ? H1' Ha]; subst. inversion H2 as [|? ? H2' Hb]; subst.
      assert (Hab : kle a b).
      { assert (In b (filter (keq (key b)) (a :: l1))) as Hin.
        { rewrite H. apply filter_In. split; [left; reflexivity|apply keq_self]. }
        apply filter_In in Hin. destruct Hin as [[->|Hin] _]; [apply led_refl|].
        rewrite Forall_forall in Ha. apply Ha, Hin. }
      assert (Hba : kle b a).
      { assert (In a (filter (keq (key a)) (b :: l2))) as Hin.
        { rewrite <- H. apply filter_In. split; [left; reflexivity|apply keq_self]. }
        apply filter_In in Hin. destruct Hin as [[->|Hin] _]; [apply led_refl|].
        rewrite Forall_forall in Hb. apply Hb, Hin. }
      pose proof (led_antisym _ _ _ Hab Hba) as Hk.
      pose proof (H (key a)) as Ha'. rewrite !filter_cons1, keq_self in Ha'.
      rewrite Hk, keq_self in Ha'. inversion Ha' as [[Heq Htl]]. subst b.
      f_equal. apply IH; auto.
      intro t. specialize (H t). rewrite !filter_cons1 in H. destruct (keq t a); [inversion H|]; auto.
Qed.

End StableSort.

(* insertion commutes with any key-preserving relation between element types *)
Lemma ins_Forall2 {A B} (ka : A -> N) (kb : B -> N) (R : A -> B -> Prop) d :
  (forall a b, R a b -> ka a = kb b) ->
  forall x y l l', R x y -> Forall2 R l l' -> Forall2 R (ins ka d x l) (ins kb d y l').
Proof.
  intros HR x y l l' Hxy H. induction H as [|a b l l' Hab H IH]; cbn [ins].
  - constructor; [exact Hxy|constructor].
  - rewrite (HR _ _ Hxy), (HR _ _ Hab). destruct (ltd d (kb y) (kb b)).
    + constructor; [exact Hxy|]. constructor; assumption.
    + constructor; assumption.
Qed.
Lemma sortd_Forall2 {A B} (ka : A -> N) (kb : B -> N) (R : A -> B -> Prop) d :
  (forall a b, R a b -> ka a = kb b) ->
  forall l l', Forall2 R l l' -> Forall2 R (sortd ka d l) (sortd kb d l').
Proof.
  intros HR l l' H. unfold sortd.
  assert (G : forall acc acc', Forall2 R acc acc' ->
    Forall2 R (fold_left (fun acc x => ins ka d x acc) l acc) (fold_left (fun acc x => ins kb d x acc) l' acc')).
  { induction H as [|a b l l' Hab H IH]; intros acc acc' Hacc; cbn [fold_left]; auto.
    apply IH. apply ins_Forall2; assumption. }
  apply G. constructor.
Qed.

(* the sorts of Reader.v are instances *)
Lemma en_insert_asc_ins x l : en_insert_asc x l = ins en_ts true x l.
Proof. induction l as [|y r IH]; cbn [en_insert_asc ins ltd]; [reflexivity|]. rewrite IH. reflexivity. Qed.
Lemma en_insert_desc_ins x l : en_insert_desc x l = ins en_ts false x l.
Proof. induction l as [|y r IH]; cbn [en_insert_desc ins ltd]; [reflexivity|]. rewrite IH. reflexivity. Qed.
Lemma en_sort_asc_sortd l : en_sort_asc l = sortd en_ts true l.
Proof.
  unfold en_sort_asc, sortd. generalize (@nil entry) as acc.
  induction l as [|x l IH]; intro acc; cbn [fold_left]; [reflexivity|]. rewrite en_insert_asc_ins. apply IH.
Qed.
Lemma en_sort_desc_sortd l : en_sort_desc l = sortd en_ts false l.
Proof.
  unfold en_sort_desc, sortd. generalize (@nil entry) as acc.
  induction l as [|x l IH]; intro acc; cbn [fold_left]; [reflexivity|]. rewrite en_insert_desc_ins. apply IH.
Qed.

(* ====================================================================================== *)
(* 2. the abstract iterator                                                               *)
(* ====================================================================================== *)

Record amsg := { am_ts : N; am_chan : N; am_uid : nat }.
Record achunk := { ac_start : N; ac_end : N; ac_off : N; ac_msgs : list amsg }.

(* a queue entry: the message and the slot holding its chunk *)
Definition aentry := (amsg * nat)%type.
Definition ae_ts (e : aentry) : N := am_ts (fst e).

Record astate := {
  a_cks : list achunk;        (* chunks not yet loaded, in load order *)
  a_queue : list aentry;      (* unread messages, in yield order *)
  a_slots : list N            (* per slot: unread count *)
}.

Definition a_merge (o : rorder) (unread new : list aentry) : list aentry :=
  match o with
  | FileOrder => unread ++ new
  | LogTimeOrder => sortd ae_ts true (unread ++ new)
  | ReverseLogTimeOrder => sortd ae_ts false (unread ++ rev new)
  end.

Fixpoint a_find_free (l : list N) (i : nat) : option nat :=
  match l with
  | [] => None
  | x :: r => if x =? 0 then Some i else a_find_free r (S i)
  end.
Fixpoint a_slot_set (l : list N) (i : nat) (v : N) : list N :=
  match l, i with
  | [], _ => [v]
  | _ :: r, O => v :: r
  | x :: r, S j => x :: a_slot_set r j v
  end.
Definition a_slot_dec (l : list N) (i : nat) : list N :=
  match nth_error l i with
  | Some n => a_slot_set l i (n - 1)
  | None => l
  end.
Definition slot_of (l : list N) : nat :=
  match a_find_free l 0 with Some i => i | None => length l end.

Definition a_load_first (o : rorder) (c : achunk) (e : aentry) : bool :=
  match o with
  | LogTimeOrder => ac_start c <? ae_ts e
  | ReverseLogTimeOrder => ae_ts e <? ac_end c
  | FileOrder => false
  end.

Inductive astep :=
| SDone
| SLoad (s' : astate)
| SYield (e : aentry) (s' : astate).

Inductive ares := AMsg (m : amsg) | AEnd.

Section Abstract.
Variable sel : amsg -> bool.
Variable o : rorder.

Definition a_load (c : achunk) (rest : list achunk) (s : astate) : astate :=
  let new := filter sel (ac_msgs c) in
  let slot := slot_of (a_slots s) in
  {| a_cks := rest;
     a_queue := a_merge o (a_queue s) (map (fun m => (m, slot)) new);
     a_slots := a_slot_set (a_slots s) slot (N.of_nat (length new)) |}.

Definition a_yield (e : aentry) (s : astate) : astate :=
  {| a_cks := a_cks s; a_queue := tl (a_queue s); a_slots := a_slot_dec (a_slots s) (snd e) |}.

(* one decision of i_next *)
Definition a_step (s : astate) : astep :=
  match a_queue s with
  | [] =>
    match a_cks s with
    | [] => SDone
    | c :: rest => SLoad (a_load c rest s)
    end
  | e :: _ =>
    match a_cks s with
    | c :: rest => if a_load_first o c e then SLoad (a_load c rest s) else SYield e (a_yield e s)
    | [] => SYield e (a_yield e s)
    end
  end.

(* mirror of Reader.i_next: one unit of fuel per loaded chunk *)
Fixpoint a_next (fuel : nat) (s : astate) : option (ares * astate) :=
  match fuel with
  | O => None
  | S fu =>
    match a_step s with
    | SDone => Some (AEnd, s)
    | SLoad s' => a_next fu s'
    | SYield e s' => Some (AMsg (fst e), s')
    end
  end.

Definition a_slot_stats (s : astate) : nat * nat :=
  (length (a_slots s), length (filter (fun x => negb (x =? 0)) (a_slots s))).

(* mirror of Reader.indexed_all *)
Fixpoint a_run (fuel n : nat) (s : astate) (acc : list amsg) (st : nat * nat)
  : option (list amsg * (nat * nat)) :=
  match n with
  | O => None
  | S n' =>
    match a_next fuel s with
    | Some (AMsg m, s') => a_run fuel n' s' (acc ++ [m]) (max2 st (a_slot_stats s'))
    | Some (AEnd, s') => Some (acc, max2 st (a_slot_stats s'))
    | None => None
    end
  end.

(* relational presentation used by the proofs: the messages yielded between two states *)
Inductive arun : astate -> list aentry -> astate -> Prop :=
| ar_nil s : arun s [] s
| ar_load s s' out s'' : a_step s = SLoad s' -> arun s' out s'' -> arun s out s''
| ar_yield s e s' out s'' : a_step s = SYield e s' -> arun s' out s'' -> arun s (e :: out) s''.

Lemma arun_trans s1 o1 s2 o2 s3 : arun s1 o1 s2 -> arun s2 o2 s3 -> arun s1 (o1 ++ o2) s3.
Proof.
  induction 1; intro H2; cbn [app]; auto.
  - eapply ar_load; eauto.
  - eapply ar_yield; eauto.
Qed.

Lemma a_next_arun fuel : forall s r s', a_next fuel s = Some (r, s') ->
  match r with
  | AEnd => arun s [] s' /\ a_step s' = SDone
  | AMsg m => exists e, fst e = m /\ arun s [e] s'
  end.
Proof.
  induction fuel as [|fu IH]; intros s r s' H; [discriminate|].
  cbn [a_next] in H. destruct (a_step s) as [|s1|e s1] eqn:E.
  - inversion H; subst. split; [constructor|exact E].
  - specialize (IH _ _ _ H). destruct r.
    + destruct IH as (e & He & Hr). exists e. split; auto. eapply ar_load; eauto.
    + destruct IH as [Hr Hd]. split; auto. eapply ar_load; eauto.
  - inversion H; subst. exists e. split; auto. eapply ar_yield; eauto. constructor.
Qed.

(* a complete run of a_run is an arun ending in a state where nothing is left *)
Lemma a_run_arun fuel n : forall s acc st out st', a_run fuel n s acc st = Some (out, st') ->
  exists es s', out = acc ++ map fst es /\ arun s es s' /\ a_step s' = SDone.
Proof.
  induction n as [|n IH]; intros s acc st out st' H; [discriminate|].
  cbn [a_run] in H. destruct (a_next fuel s) as [[[m|] s1]|] eqn:E; [| |discriminate].
  - apply a_next_arun in E. destruct E as (e & He & Hr).
    apply IH in H. destruct H as (es & s' & Ho & Hr' & Hd).
    exists (e :: es), s'. split; [|split; auto].
    + rewrite Ho, <- app_assoc. cbn [map app]. rewrite He. reflexivity.
    + apply (arun_trans _ _ _ _ _ Hr Hr').
  - apply a_next_arun in E. destruct E as [Hr Hd]. inversion H; subst.
    exists [], s1. rewrite app_nil_r. auto.
Qed.

End Abstract.

Definition a_init (cks : list achunk) : astate := {| a_cks := cks; a_queue := []; a_slots := [] |}.

(* ====================================================================================== *)
(* 3. the load order of chunks (mirror of ci_before / ci_insert / ci_sort)                *)
(* ====================================================================================== *)

Section GenSort.
Context {A : Type}.
Variable before : A -> A -> bool.

Fixpoint gins (x : A) (l : list A) : list A :=
  match l with
  | [] => [x]
  | y :: r => if before x y then x :: l else y :: gins x r
  end.
Definition gsort (l : list A) : list A := fold_right gins [] l.

(* "a may stand before b" *)
Definition gle (a b : A) : Prop := before b a = false.

Lemma gins_perm x l : Permutation (gins x l) (x :: l).
Proof.
  induction l as [|y r IH]; cbn [gins]; auto.
  destruct (before x y); auto. rewrite IH. apply perm_swap.
Qed.
Lemma gsort_perm l : Permutation (gsort l) l.
Proof. induction l as [|a l IH]; cbn [gsort fold_right]; auto. rewrite gins_perm. constructor. exact IH. Qed.

Hypothesis before_asym : forall a b, before a b = true -> before b a = false.
Hypothesis gle_trans : forall a b c, gle a b -> gle b c -> gle a c.

Lemma gins_sorted x l : StronglySorted gle l -> StronglySorted gle (gins x l).
Proof.
  induction 1 as [|y r Hr IH Hy]; cbn [gins].
  - constructor; constructor.
  - destruct (before x y) eqn:E.
    + constructor. { constructor; assumption. }
      constructor; [apply before_asym, E|].
      eapply Forall_impl; [|exact Hy]. intros z Hz. eapply gle_trans; [|exact Hz]. apply before_asym, E.
    + constructor; [exact IH|].
      eapply Permutation_Forall; [symmetry; apply gins_perm|].
      constructor; [exact E|exact Hy].
Qed.
Lemma gsort_sorted l : StronglySorted gle (gsort l).
Proof. induction l; cbn [gsort fold_right]; [constructor|apply gins_sorted; assumption]. Qed.

End GenSort.

(* two sorted permutations of one another are equal when the order is antisymmetric on them *)
Lemma sorted_perm_unique {A} (R : A -> A -> Prop) : forall l l',
  (forall a b, In a l -> In b l -> R a b -> R b a -> a = b) ->
  StronglySorted R l -> StronglySorted R l' -> Permutation l l' -> l = l'.
Proof.
  induction l as [|a l IH]; intros l' Hanti H1 H2 HP.
  - apply Permutation_nil in HP. auto.
  - destruct l' as [|a' l']. { symmetry in HP. apply Permutation_nil in HP. discriminate. }
    inversion H1 as [|? ? H1' Ha]; subst. inversion H2 as [|? ? H2' Ha']; subst.
    assert (a = a') as ->.
    { assert (In a (a' :: l')) as I1 by (eapply Permutation_in; [exact HP|left; reflexivity]).
      assert (In a' (a :: l)) as I2 by (eapply Permutation_in; [symmetry; exact HP|left; reflexivity]).
      destruct I1 as [I1|I1]; [auto|]. destruct I2 as [I2|I2]; [auto|].
      rewrite Forall_forall in Ha, Ha'.
      apply Hanti; [left; reflexivity|right; exact I2|apply Ha, I2|apply Ha', I1]. }
    f_equal. apply IH; auto.
    + intros x y Hx Hy. apply Hanti; right; assumption.
    + eapply Permutation_cons_inv; exact HP.
Qed.

Lemma NoDup_map_inj_in {A B} (f : A -> B) : forall l a b,
  NoDup (map f l) -> In a l -> In b l -> f a = f b -> a = b.
Proof.
  induction l as [|x l IH]; intros a b Hnd Ha Hb Hf; [contradiction|].
  cbn [map] in Hnd. inversion Hnd as [|? ? Hx Hnd']; subst.
  destruct Ha as [->|Ha], Hb as [->|Hb]; auto.
  - exfalso. apply Hx. rewrite Hf. apply in_map, Hb.
  - exfalso. apply Hx. rewrite <- Hf. apply in_map, Ha.
Qed.

Lemma StronglySorted_weaken {A} (R R' : A -> A -> Prop) l :
  (forall a b, R a b -> R' a b) -> StronglySorted R l -> StronglySorted R' l.
Proof.
  intros HR. induction 1 as [|a l H IH Ha]; constructor; auto.
  eapply Forall_impl; [|exact Ha]. intros; auto.
Qed.

Lemma StronglySorted_app_inv {A} (R : A -> A -> Prop) : forall l1 l2,
  StronglySorted R (l1 ++ l2) ->
  StronglySorted R l1 /\ StronglySorted R l2 /\ (forall a b, In a l1 -> In b l2 -> R a b).
Proof.
  induction l1 as [|x l1 IH]; intros l2 H; cbn [app] in H.
  - repeat split; auto. constructor. intros a b [].
  - inversion H as [|? ? H' Hx]; subst. destruct (IH _ H') as (S1 & S2 & S3).
    rewrite Forall_forall in Hx. repeat split; auto.
    + constructor; auto. apply Forall_forall. intros z Hz. apply Hx, in_or_app. left. exact Hz.
    + intros a b [->|Ha] Hb; [apply Hx, in_or_app; right; exact Hb|apply S3; assumption].
Qed.

Definition ac_before (o : rorder) (a b : achunk) : bool :=
  match o with
  | FileOrder => ac_off a <? ac_off b
  | LogTimeOrder => if ac_start a =? ac_start b then ac_off a <? ac_off b else ac_start a <? ac_start b
  | ReverseLogTimeOrder => if ac_end a =? ac_end b then ac_off b <? ac_off a else ac_end b <? ac_end a
  end.
Definition ac_sort (o : rorder) (l : list achunk) : list achunk := gsort (ac_before o) l.
Definition ac_le (o : rorder) : achunk -> achunk -> Prop := gle (ac_before o).

Lemma ci_sort_gsort o l : ci_sort o l = gsort (ci_before o) l.
Proof.
  unfold ci_sort, gsort. induction l as [|x l IH]; cbn [fold_right]; [reflexivity|]. rewrite IH.
  generalize (fold_right (gins (ci_before o)) [] l) as r. clear.
  induction r as [|y r IH]; cbn [ci_insert gins]; [reflexivity|]. rewrite IH. reflexivity.
Qed.

Lemma ac_before_asym o a b : ac_before o a b = true -> ac_before o b a = false.
Proof.
  destruct o; unfold ac_before.
  - lia.
  - destruct (N.eqb_spec (ac_start a) (ac_start b)), (N.eqb_spec (ac_start b) (ac_start a)); lia.
  - destruct (N.eqb_spec (ac_end a) (ac_end b)), (N.eqb_spec (ac_end b) (ac_end a)); lia.
Qed.
Lemma ac_le_trans o a b c : ac_le o a b -> ac_le o b c -> ac_le o a c.
Proof.
  destruct o; unfold ac_le, gle, ac_before.
  - lia.
  - destruct (N.eqb_spec (ac_start b) (ac_start a)), (N.eqb_spec (ac_start c) (ac_start b)),
      (N.eqb_spec (ac_start c) (ac_start a)); lia.
  - destruct (N.eqb_spec (ac_end b) (ac_end a)), (N.eqb_spec (ac_end c) (ac_end b)),
      (N.eqb_spec (ac_end c) (ac_end a)); lia.
Qed.
Lemma ac_le_antisym_off o a b : ac_le o a b -> ac_le o b a -> ac_off a = ac_off b.
Proof.
  destruct o; unfold ac_le, gle, ac_before.
  - lia.
  - destruct (N.eqb_spec (ac_start b) (ac_start a)), (N.eqb_spec (ac_start a) (ac_start b)); lia.
  - destruct (N.eqb_spec (ac_end b) (ac_end a)), (N.eqb_spec (ac_end a) (ac_end b)); lia.
Qed.

Lemma ac_sort_perm o l : Permutation (ac_sort o l) l.
Proof. apply gsort_perm. Qed.
Lemma ac_sort_sorted o l : StronglySorted (ac_le o) (ac_sort o l).
Proof. apply gsort_sorted; [apply ac_before_asym|apply ac_le_trans]. Qed.

(* the load order does not depend on the order of the chunk indexes in the summary *)
Lemma ac_sort_deterministic o cks cks' :
  Permutation cks cks' -> NoDup (map ac_off cks) -> ac_sort o cks = ac_sort o cks'.
Proof.
  intros HP Hnd. apply (sorted_perm_unique (ac_le o)).
  - intros a b Ha Hb H1 H2. apply (NoDup_map_inj_in ac_off cks).
    + exact Hnd.
    + eapply Permutation_in; [apply ac_sort_perm|exact Ha].
    + eapply Permutation_in; [apply ac_sort_perm|exact Hb].
    + eapply ac_le_antisym_off; eassumption.
  - apply ac_sort_sorted.
  - apply ac_sort_sorted.
  - rewrite !ac_sort_perm. exact HP.
Qed.

(* direction view of the two time orders *)
Definition order_of (d : bool) : rorder := if d then LogTimeOrder else ReverseLogTimeOrder.
Definition bkey (d : bool) (c : achunk) : N := if d then ac_start c else ac_end c.
Definition cle (d : bool) (a b : achunk) : Prop := led d (bkey d a) (bkey d b).

Lemma ac_le_cle d a b : ac_le (order_of d) a b -> cle d a b.
Proof.
  destruct d; unfold ac_le, gle, cle, led, bkey, order_of, ac_before.
  - destruct (N.eqb_spec (ac_start b) (ac_start a)); lia.
  - destruct (N.eqb_spec (ac_end b) (ac_end a)); lia.
Qed.
Lemma ac_sort_csorted d l : StronglySorted (cle d) (ac_sort (order_of d) l).
Proof. eapply StronglySorted_weaken; [apply ac_le_cle|apply ac_sort_sorted]. Qed.

Lemma ac_sort_logtime_sorted l :
  StronglySorted (fun a b => ac_start a <= ac_start b) (ac_sort LogTimeOrder l).
Proof. exact (ac_sort_csorted true l). Qed.
Lemma ac_sort_reverse_sorted l :
  StronglySorted (fun a b => ac_end b <= ac_end a) (ac_sort ReverseLogTimeOrder l).
Proof. exact (ac_sort_csorted false l). Qed.
Lemma ac_sort_file_sorted l :
  StronglySorted (fun a b => ac_off a <= ac_off b) (ac_sort FileOrder l).
Proof.
  eapply StronglySorted_weaken; [|apply (ac_sort_sorted FileOrder)].
  intros a b. unfold ac_le, gle, ac_before. lia.
Qed.

(* ====================================================================================== *)
(* 4. soundness of the run                                                                *)
(* ====================================================================================== *)

(* what the writer guarantees (C05): the chunk index time range covers the chunk's messages *)
Definition chunk_wf (c : achunk) : Prop :=
  Forall (fun m => ac_start c <= am_ts m /\ am_ts m <= ac_end c) (ac_msgs c).
Definition chunks_wf (cks : list achunk) : Prop := Forall chunk_wf cks.

(* an occurrence of a precedes an occurrence of b *)
Inductive before {A} (a b : A) : list A -> Prop :=
| bf_here l : In b l -> before a b (a :: l)
| bf_later x l : before a b l -> before a b (x :: l).

Lemma before_split {A} (a b : A) l :
  before a b l <-> exists l1 l2 l3, l = l1 ++ a :: l2 ++ b :: l3.
Proof.
  split.
  - induction 1 as [l Hb|x l H IH].
    + apply in_split in Hb. destruct Hb as (l2 & l3 & ->). exists [], l2, l3. reflexivity.
    + destruct IH as (l1 & l2 & l3 & ->). exists (x :: l1), l2, l3. reflexivity.
  - intros (l1 & l2 & l3 & ->). induction l1 as [|x l1 IH]; cbn [app].
    + constructor. apply in_or_app. right. left. reflexivity.
    + apply bf_later, IH.
Qed.
Lemma before_in {A} (a b : A) l : before a b l -> In a l /\ In b l.
Proof.
  induction 1 as [l Hb|x l H IH].
  - split; [left; reflexivity|right; exact Hb].
  - destruct IH. split; right; assumption.
Qed.
Lemma before_filter_intro {A} (p : A -> bool) a b l :
  before a b l -> p a = true -> p b = true -> before a b (filter p l).
Proof.
  intros H Ha Hb. induction H as [l Hin|x l H IH]; cbn [filter].
  - rewrite Ha. constructor. apply filter_In. auto.
  - destruct (p x); [apply bf_later|]; exact IH.
Qed.
Lemma before_filter_elim {A} (p : A -> bool) a b : forall l, before a b (filter p l) -> before a b l.
Proof.
  induction l as [|x l IH]; cbn [filter]; intro H; [inversion H|].
  destruct (p x).
  - inversion H as [l' Hin|x' l' H']; subst.
    + constructor. apply filter_In in Hin. apply Hin.
    + apply bf_later, IH, H'.
  - apply bf_later, IH, H.
Qed.
Lemma before_app_l {A} (a b : A) l r : before a b l -> before a b (l ++ r).
Proof.
  induction 1 as [l Hin|x l H IH]; cbn [app].
  - constructor. apply in_or_app. left. exact Hin.
  - apply bf_later, IH.
Qed.
Lemma before_app_r {A} (a b : A) l r : before a b r -> before a b (l ++ r).
Proof. intro H. induction l as [|x l IH]; cbn [app]; [exact H|apply bf_later, IH]. Qed.
Lemma before_concat {A B} (f : B -> list A) a b c : forall cks,
  In c cks -> before a b (f c) -> before a b (concat (map f cks)).
Proof.
  induction cks as [|x cks IH]; intros Hin H; [contradiction|]. cbn [map concat].
  destruct Hin as [->|Hin]; [apply before_app_l, H|apply before_app_r, IH; assumption].
Qed.
Lemma before_snoc {A} (a b : A) l : In b l -> before b a (l ++ [a]).
Proof.
  induction l as [|x l IH]; intros Hin; [contradiction|]. cbn [app].
  destruct Hin as [->|Hin].
  - constructor. apply in_or_app. right. left. reflexivity.
  - apply bf_later, IH, Hin.
Qed.
Lemma before_rev {A} (a b : A) l : before a b l -> before b a (rev l).
Proof.
  induction 1 as [l Hin|x l H IH]; cbn [rev].
  - apply before_snoc. apply in_rev in Hin. exact Hin.
  - apply before_app_l, IH.
Qed.
(* with unique identities "before" is a strict order on the positions *)
Lemma before_asym_nodup {A} (a b : A) l : NoDup l -> before a b l -> before b a l -> False.
Proof.
  intros Hnd H1. induction H1 as [l Hin|x l H IH]; intro H2; inversion Hnd as [|? ? Hx Hnd']; subst.
  - inversion H2 as [l' Hin'|x' l' H']; subst; [contradiction|].
    apply before_in in H'. destruct H' as [_ H']. contradiction.
  - inversion H2 as [l' Hin'|x' l' H']; subst.
    + apply before_in in H. destruct H as [_ H]. contradiction.
    + apply IH; assumption.
Qed.

Lemma filter_map_comm {A B} (f : A -> B) (p : B -> bool) l :
  filter p (map f l) = map f (filter (fun x => p (f x)) l).
Proof. induction l as [|x l IH]; cbn [map filter]; [reflexivity|]. rewrite IH. destruct (p (f x)); reflexivity. Qed.

Section Sound.
Variable sel : amsg -> bool.

Definition selmsgs (c : achunk) : list amsg := filter sel (ac_msgs c).
Definition selall (cks : list achunk) : list amsg := concat (map selmsgs cks).

Lemma selall_filter cks : selall cks = filter sel (concat (map ac_msgs cks)).
Proof.
  unfold selall. induction cks as [|c cks IH]; cbn [map concat]; [reflexivity|].
  rewrite filter_app, IH. reflexivity.
Qed.

(* ---- shape of a step ---- *)
Lemma a_step_done o s : a_step sel o s = SDone -> a_queue s = [] /\ a_cks s = [].
Proof.
  unfold a_step. destruct (a_queue s) as [|e q], (a_cks s) as [|c rest]; try discriminate; auto.
  destruct (a_load_first o c e); discriminate.
Qed.
Lemma a_step_load o s s' : a_step sel o s = SLoad s' ->
  exists c rest, a_cks s = c :: rest /\ s' = a_load sel o c rest s /\
    (a_queue s = [] \/ exists e q, a_queue s = e :: q /\ a_load_first o c e = true).
Proof.
  unfold a_step. destruct (a_queue s) as [|e q] eqn:Q, (a_cks s) as [|c rest] eqn:C; try discriminate.
  - intro H. inversion H. exists c, rest. auto.
  - destruct (a_load_first o c e) eqn:L; [|discriminate].
    intro H. inversion H. exists c, rest. split; [reflexivity|]. split; [reflexivity|]. right. exists e, q. auto.
Qed.
Lemma a_step_yield o s e s' : a_step sel o s = SYield e s' ->
  exists q, a_queue s = e :: q /\ s' = a_yield e s /\
    (a_cks s = [] \/ exists c rest, a_cks s = c :: rest /\ a_load_first o c e = false).
Proof.
  unfold a_step. destruct (a_queue s) as [|e0 q] eqn:Q, (a_cks s) as [|c rest] eqn:C; try discriminate.
  - intro H. inversion H; subst. exists q. auto.
  - destruct (a_load_first o c e0) eqn:L; [discriminate|].
    intro H. inversion H; subst. exists q. split; [reflexivity|]. split; [reflexivity|]. right. exists c, rest. auto.
Qed.

Lemma a_merge_perm o q new : Permutation (a_merge o q new) (q ++ new).
Proof.
  destruct o; cbn [a_merge].
  - reflexivity.
  - apply sortd_perm.
  - rewrite sortd_perm. apply Permutation_app_head. symmetry. apply Permutation_rev.
Qed.

Lemma map_fst_tag (slot : nat) (l : list amsg) : map fst (map (fun m => (m, slot)) l) = l.
Proof. rewrite map_map. cbn [fst]. apply map_id. Qed.

(* ---- every selected message exactly once, in any read order, with no side condition ---- *)
Lemma arun_perm o s out s' : arun sel o s out s' -> a_step sel o s' = SDone ->
  Permutation (map fst out) (map fst (a_queue s) ++ selall (a_cks s)).
Proof.
  induction 1 as [s|s s1 out s2 Hs Hr IH|s e s1 out s2 Hs Hr IH]; intro Hd.
  - apply a_step_done in Hd. destruct Hd as [-> ->]. constructor.
  - specialize (IH Hd). apply a_step_load in Hs. destruct Hs as (c & rest & Hc & -> & _).
    rewrite IH, Hc. cbn [a_load a_queue a_cks]. unfold selall. cbn [map concat].
    rewrite app_assoc. apply Permutation_app_tail.
    rewrite (Permutation_map fst (a_merge_perm o _ _)), map_app, map_fst_tag. reflexivity.
  - specialize (IH Hd). apply a_step_yield in Hs. destruct Hs as (q & Hq & -> & _).
    rewrite Hq. cbn [map app]. constructor. rewrite IH. cbn [a_yield a_queue a_cks]. rewrite Hq. reflexivity.
Qed.

(* ---- file order: exactly the selected messages in chunk order ---- *)
Lemma arun_file s out s' : arun sel FileOrder s out s' -> a_step sel FileOrder s' = SDone ->
  map fst out = map fst (a_queue s) ++ selall (a_cks s).
Proof.
  induction 1 as [s|s s1 out s2 Hs Hr IH|s e s1 out s2 Hs Hr IH]; intro Hd.
  - apply a_step_done in Hd. destruct Hd as [-> ->]. reflexivity.
  - specialize (IH Hd). apply a_step_load in Hs. destruct Hs as (c & rest & Hc & -> & _).
    rewrite IH, Hc. cbn [a_load a_queue a_cks a_merge]. unfold selall. cbn [map concat].
    rewrite map_app, map_fst_tag, app_assoc. reflexivity.
  - specialize (IH Hd). apply a_step_yield in Hs. destruct Hs as (q & Hq & -> & _).
    rewrite Hq. cbn [map app]. f_equal. rewrite IH. cbn [a_yield a_queue a_cks]. rewrite Hq. reflexivity.
Qed.

(* ---- the two time orders ---- *)
Definition dnew {A} (d : bool) (l : list A) : list A := if d then l else rev l.
Definition newm (d : bool) (c : achunk) : list amsg := dnew d (selmsgs c).

Lemma a_merge_dir d q new : a_merge (order_of d) q new = sortd ae_ts d (q ++ dnew d new).
Proof. destruct d; reflexivity. Qed.
Lemma a_load_first_dir d c e : a_load_first (order_of d) c e = ltd d (bkey d c) (ae_ts e).
Proof. destruct d; reflexivity. Qed.

Lemma map_fst_keq t (l : list aentry) :
  map fst (filter (keq ae_ts t) l) = filter (keq am_ts t) (map fst l).
Proof. rewrite filter_map_comm. reflexivity. Qed.

(* stability: per timestamp, the output is the queue followed by the pending chunks' messages in
   load order (file order inside a chunk, reversed when reading in reverse) *)
Lemma arun_classes d s out s' : arun sel (order_of d) s out s' -> a_step sel (order_of d) s' = SDone ->
  forall t, filter (keq am_ts t) (map fst out)
            = filter (keq am_ts t) (map fst (a_queue s) ++ concat (map (newm d) (a_cks s))).
Proof.
  induction 1 as [s|s s1 out s2 Hs Hr IH|s e s1 out s2 Hs Hr IH]; intros Hd t.
  - apply a_step_done in Hd. destruct Hd as [-> ->]. reflexivity.
  - rewrite (IH Hd t). apply a_step_load in Hs. destruct Hs as (c & rest & Hc & -> & _).
    rewrite Hc. cbn [a_load a_queue a_cks map concat].
    rewrite a_merge_dir, !filter_app, <- map_fst_keq, sortd_filter, map_fst_keq, map_app, filter_app.
    rewrite <- app_assoc. f_equal. f_equal. f_equal.
    unfold newm, dnew, selmsgs. destruct d; [apply map_fst_tag|].
    rewrite <- map_rev. apply map_fst_tag.
  - apply a_step_yield in Hs. destruct Hs as (q & Hq & -> & _).
    rewrite Hq. cbn [map app]. rewrite !(filter_cons1 _ (fst e)), (IH Hd t).
    cbn [a_yield a_queue a_cks]. rewrite Hq. reflexivity.
Qed.

(* invariant for sortedness: everything still to come is at or after x (in direction d) *)
Definition Inv (d : bool) (x : N) (s : astate) : Prop :=
  ksorted ae_ts d (a_queue s) /\ StronglySorted (cle d) (a_cks s) /\ chunks_wf (a_cks s) /\
  Forall (fun c => led d x (bkey d c)) (a_cks s) /\ Forall (fun e => led d x (ae_ts e)) (a_queue s).

Lemma chunk_wf_bound d x c m : chunk_wf c -> led d x (bkey d c) -> In m (ac_msgs c) -> led d x (am_ts m).
Proof.
  intros Hw Hx Hm. unfold chunk_wf in Hw. rewrite Forall_forall in Hw. specialize (Hw m Hm).
  destruct d; unfold led, bkey in *; lia.
Qed.

Lemma inv_load d x s c rest : Inv d x s -> a_cks s = c :: rest -> Inv d x (a_load sel (order_of d) c rest s).
Proof.
  intros (Hq & Hs & Hw & Hbc & Hbq) Hc. rewrite Hc in *.
  inversion Hs as [|? ? Hs' _]; subst. inversion Hw as [|? ? Hwc Hw']; subst.
  inversion Hbc as [|? ? Hxc Hbc']; subst.
  unfold Inv. cbn [a_load a_queue a_cks]. rewrite a_merge_dir.
  repeat split; auto.
  - apply sortd_sorted.
  - eapply Permutation_Forall; [symmetry; apply sortd_perm|].
    apply Forall_app. split; [exact Hbq|].
    apply Forall_forall. intros e He.
    assert (In e (map (fun m => (m, slot_of (a_slots s))) (filter sel (ac_msgs c)))) as He'.
    { unfold dnew in He. destruct d; [exact He|apply in_rev, He]. }
    apply in_map_iff in He'. destruct He' as (m & <- & Hm). apply filter_In in Hm.
    unfold ae_ts. cbn [fst]. eapply chunk_wf_bound; eauto. apply Hm.
Qed.

Lemma inv_yield d x s e q : Inv d x s -> a_queue s = e :: q ->
  (a_cks s = [] \/ exists c rest, a_cks s = c :: rest /\ a_load_first (order_of d) c e = false) ->
  Inv d (ae_ts e) (a_yield e s) /\ led d x (ae_ts e).
Proof.
  intros (Hq & Hs & Hw & Hbc & Hbq) He Hc. rewrite He in *.
  inversion Hq as [|? ? Hq' Hle]; subst. inversion Hbq as [|? ? Hxe Hbq']; subst.
  split; [|exact Hxe]. unfold Inv. cbn [a_yield a_queue a_cks]. rewrite He. cbn [tl].
  repeat split; auto.
  destruct Hc as [->|(c & rest & Hc & Hl)]; [constructor|]. rewrite Hc in *.
  rewrite a_load_first_dir in Hl. apply ltd_false in Hl.
  inversion Hs as [|? ? _ Hcr]; subst. constructor; [exact Hl|].
  eapply Forall_impl; [|exact Hcr]. intros z Hz. eapply led_trans; [exact Hl|exact Hz].
Qed.

Lemma arun_sorted d s out s' : arun sel (order_of d) s out s' -> forall x, Inv d x s ->
  ksorted ae_ts d out /\ Forall (fun e => led d x (ae_ts e)) out /\ exists x', Inv d x' s'.
Proof.
  induction 1 as [s|s s1 out s2 Hs Hr IH|s e s1 out s2 Hs Hr IH]; intros x HI.
  - repeat split; try constructor. exists x. exact HI.
  - apply a_step_load in Hs. destruct Hs as (c & rest & Hc & -> & _).
    apply IH. apply inv_load; assumption.
  - apply a_step_yield in Hs. destruct Hs as (q & Hq & -> & Hc).
    destruct (inv_yield _ _ _ _ _ HI Hq Hc) as [HI' Hx].
    destruct (IH _ HI') as (S1 & S2 & S3). repeat split; auto.
    + constructor; auto.
    + constructor; auto. eapply Forall_impl; [|exact S2]. intros z Hz. eapply led_trans; eassumption.
Qed.

End Sound.

(* ====================================================================================== *)
(* 5. fuel: #chunks + 1 per call of a_next, #selected messages + 1 calls                  *)
(* ====================================================================================== *)
Lemma filter_length_le' {A} (p : A -> bool) l : (length (filter p l) <= length l)%nat.
Proof. induction l as [|x l IH]; cbn [filter length]; [lia|]. destruct (p x); cbn [length]; lia. Qed.

Section Fuel.
Variable sel : amsg -> bool.
Variable o : rorder.

Lemma a_next_total fuel : forall s, (length (a_cks s) + 1 <= fuel)%nat ->
  exists r s', a_next sel o fuel s = Some (r, s').
Proof.
  induction fuel as [|fu IH]; intros s H; [lia|]. cbn [a_next].
  destruct (a_step sel o s) as [|s1|e s1] eqn:E; [eauto| |eauto].
  apply a_step_load in E. destruct E as (c & rest & Hc & -> & _).
  apply IH. cbn [a_load a_cks]. rewrite Hc in H. cbn [length] in H. lia.
Qed.

Lemma arun_measure s out s' : arun sel o s out s' ->
  (length (a_cks s') <= length (a_cks s))%nat /\
  (length out + length (a_queue s') + length (selall sel (a_cks s'))
   = length (a_queue s) + length (selall sel (a_cks s)))%nat.
Proof.
  induction 1 as [s|s s1 out s2 Hs Hr IH|s e s1 out s2 Hs Hr IH].
  - split; reflexivity.
  - apply a_step_load in Hs. destruct Hs as (c & rest & Hc & -> & _).
    destruct IH as [I1 I2]. cbn [a_load a_cks a_queue] in I1, I2. rewrite Hc.
    rewrite (Permutation_length (a_merge_perm _ _ _)), app_length, map_length in I2.
    unfold selall in *. cbn [map concat length]. rewrite app_length. unfold selmsgs at 2. split; lia.
  - apply a_step_yield in Hs. destruct Hs as (q & Hq & -> & _).
    destruct IH as [I1 I2]. cbn [a_yield a_cks a_queue] in I1, I2. rewrite Hq in *. cbn [tl length] in *.
    split; lia.
Qed.

Lemma a_run_total fuel n : forall s acc st,
  (length (a_cks s) + 1 <= fuel)%nat ->
  (length (a_queue s) + length (selall sel (a_cks s)) + 1 <= n)%nat ->
  exists out st', a_run sel o fuel n s acc st = Some (out, st').
Proof.
  induction n as [|n IH]; intros s acc st Hf Hn; [lia|]. cbn [a_run].
  destruct (a_next_total fuel s Hf) as (r & s1 & E). rewrite E.
  destruct r as [m|]; [|eauto].
  apply a_next_arun in E. destruct E as (e & _ & Hr). apply arun_measure in Hr.
  cbn [length] in Hr. apply IH; lia.
Qed.

(* the slot statistics reported by a_run are bounded by any bound that holds in every state
   reachable from s (P is an invariant of a_step) *)
Lemma a_run_stats (P : astate -> Prop) (B : nat) :
  (forall s s', P s -> a_step sel o s = SLoad s' -> P s') ->
  (forall s e s', P s -> a_step sel o s = SYield e s' -> P s') ->
  (forall s, P s -> (length (a_slots s) <= B)%nat) ->
  forall fuel n s acc st out st', P s -> (fst st <= B)%nat -> (snd st <= B)%nat ->
    a_run sel o fuel n s acc st = Some (out, st') -> (fst st' <= B)%nat /\ (snd st' <= B)%nat.
Proof.
  intros HL HY HB fuel.
  assert (Hrun : forall s out s', arun sel o s out s' -> P s -> P s').
  { induction 1; intro HP; eauto. }
  assert (Hst : forall s st, P s -> (fst st <= B)%nat -> (snd st <= B)%nat ->
            (fst (max2 st (a_slot_stats s)) <= B)%nat /\ (snd (max2 st (a_slot_stats s)) <= B)%nat).
  { intros s st HP H1 H2. specialize (HB s HP). unfold max2, a_slot_stats. cbn [fst snd].
    pose proof (filter_length_le' (fun x => negb (x =? 0)) (a_slots s)). split; lia. }
  induction n as [|n IH]; intros s acc st out st' HP H1 H2 H; [discriminate|].
  cbn [a_run] in H. destruct (a_next sel o fuel s) as [[[m|] s1]|] eqn:E; [| |discriminate].
  - apply a_next_arun in E. destruct E as (e & _ & Hr). pose proof (Hrun _ _ _ Hr HP) as HP1.
    destruct (Hst s1 st HP1 H1 H2). eapply IH; eauto.
  - apply a_next_arun in E. destruct E as [Hr _]. pose proof (Hrun _ _ _ Hr HP) as HP1.
    inversion H; subst. apply Hst; auto.
Qed.

End Fuel.

(* ====================================================================================== *)
(* 5b. the abstract read and its specification (C03, C04)                                 *)
(* ====================================================================================== *)
Definition all_msgs (cks : list achunk) : list amsg := concat (map ac_msgs cks).

(* a complete indexed read of a file whose summary lists the chunk indexes cks (in any order) *)
Definition a_read (sel : amsg -> bool) (o : rorder) (fuel n : nat) (cks : list achunk)
  : option (list amsg * (nat * nat)) :=
  a_run sel o fuel n (a_init (ac_sort o cks)) [] (O, O).

Lemma selall_perm sel cks cks' : Permutation cks cks' -> Permutation (selall sel cks) (selall sel cks').
Proof. intro H. unfold selall. rewrite <- !flat_map_concat_map. apply Permutation_flat_map, H. Qed.

Lemma StronglySorted_map {A B} (f : A -> B) (R : B -> B -> Prop) l :
  StronglySorted (fun a b => R (f a) (f b)) l -> StronglySorted R (map f l).
Proof.
  induction 1 as [|a l H IH Ha]; cbn [map]; constructor; auto.
  apply Forall_forall. intros y Hy. apply in_map_iff in Hy. destruct Hy as (x & <- & Hx).
  rewrite Forall_forall in Ha. apply Ha, Hx.
Qed.

Definition bound0 (d : bool) (cks : list achunk) : N :=
  if d then 0 else fold_right N.max 0 (map ac_end cks).
Lemma bound0_ok d cks : Forall (fun c => led d (bound0 d cks) (bkey d c)) cks.
Proof.
  destruct d; unfold bound0, led, bkey.
  - apply Forall_forall. intros; lia.
  - induction cks as [|c cks IH]; constructor; cbn [map fold_right]; [lia|].
    eapply Forall_impl; [|exact IH]. cbn beta. intros; lia.
Qed.

Section ReadSpec.
Variable sel : amsg -> bool.

Lemma a_read_total o fuel n cks :
  (length cks + 1 <= fuel)%nat -> (length (filter sel (all_msgs cks)) + 1 <= n)%nat ->
  exists out st, a_read sel o fuel n cks = Some (out, st).
Proof.
  intros Hf Hn. unfold a_read. apply a_run_total; cbn [a_init a_cks a_queue length].
  - rewrite (Permutation_length (ac_sort_perm o cks)). exact Hf.
  - rewrite (Permutation_length (selall_perm sel _ _ (ac_sort_perm o cks))), selall_filter. exact Hn.
Qed.

(* exactly once, every read order, no side condition *)
Lemma a_read_perm o fuel n cks out st : a_read sel o fuel n cks = Some (out, st) ->
  Permutation out (filter sel (all_msgs cks)).
Proof.
  unfold a_read. intro H. apply a_run_arun in H. destruct H as (es & s' & -> & Hr & Hd).
  cbn [app]. rewrite (arun_perm _ _ _ _ _ Hr Hd). cbn [a_init a_queue a_cks map app].
  rewrite (selall_perm sel _ _ (ac_sort_perm o cks)), selall_filter. reflexivity.
Qed.

(* file order: the selected messages, chunk after chunk by offset *)
Lemma a_read_file fuel n cks out st : a_read sel FileOrder fuel n cks = Some (out, st) ->
  out = filter sel (all_msgs (ac_sort FileOrder cks)).
Proof.
  unfold a_read. intro H. apply a_run_arun in H. destruct H as (es & s' & -> & Hr & Hd).
  cbn [app]. rewrite (arun_file _ _ _ _ Hr Hd). cbn [a_init a_queue a_cks map app].
  apply selall_filter.
Qed.

(* the two time orders: the output is the stable sort (ascending / descending) of the selected
   messages taken chunk after chunk in load order (a chunk reversed when reading in reverse) *)
Lemma a_read_time d fuel n cks out st : chunks_wf cks ->
  a_read sel (order_of d) fuel n cks = Some (out, st) ->
  ksorted am_ts d out /\
  (forall t, filter (keq am_ts t) out
             = filter (keq am_ts t) (concat (map (newm sel d) (ac_sort (order_of d) cks)))) /\
  out = sortd am_ts d (concat (map (newm sel d) (ac_sort (order_of d) cks))).
Proof.
  unfold a_read. intros Hw H. apply a_run_arun in H. destruct H as (es & s' & -> & Hr & Hd).
  cbn [app].
  assert (HI : Inv d (bound0 d (ac_sort (order_of d) cks)) (a_init (ac_sort (order_of d) cks))).
  { unfold Inv. cbn [a_init a_queue a_cks]. repeat split.
    - constructor.
    - apply ac_sort_csorted.
    - eapply Permutation_Forall; [symmetry; apply ac_sort_perm|exact Hw].
    - apply bound0_ok.
    - constructor. }
  destruct (arun_sorted _ _ _ _ _ Hr _ HI) as (S1 & _ & _).
  assert (S : ksorted am_ts d (map fst es)) by (apply StronglySorted_map; exact S1).
  pose proof (arun_classes _ _ _ _ _ Hr Hd) as HC. cbn [a_init a_queue a_cks map app] in HC.
  split; [exact S|]. split; [exact HC|].
  apply (ksorted_classes_eq am_ts d); [exact S|apply sortd_sorted|].
  intro t. rewrite HC, sortd_filter. reflexivity.
Qed.

(* same-chunk messages with equal log time keep their file order (reverse: reversed) *)
Lemma a_read_stable d fuel n cks out st : chunks_wf cks ->
  a_read sel (order_of d) fuel n cks = Some (out, st) ->
  forall c m1 m2, In c cks -> before m1 m2 (ac_msgs c) -> am_ts m1 = am_ts m2 ->
    sel m1 = true -> sel m2 = true ->
    if d then before m1 m2 out else before m2 m1 out.
Proof.
  intros Hw H c m1 m2 Hc Hb Ht H1 H2.
  destruct (a_read_time _ _ _ _ _ _ Hw H) as (_ & HC & _). specialize (HC (am_ts m1)).
  assert (Hc' : In c (ac_sort (order_of d) cks)).
  { eapply Permutation_in; [symmetry; apply ac_sort_perm|exact Hc]. }
  assert (Hs : before m1 m2 (selmsgs sel c)) by (apply before_filter_intro; assumption).
  assert (K1 : keq am_ts (am_ts m1) m1 = true) by apply keq_self.
  assert (K2 : keq am_ts (am_ts m1) m2 = true) by (unfold keq; rewrite Ht; apply N.eqb_refl).
  destruct d.
  - apply (before_filter_elim (keq am_ts (am_ts m1))). rewrite HC.
    apply before_filter_intro; auto. eapply before_concat; [exact Hc'|exact Hs].
  - apply (before_filter_elim (keq am_ts (am_ts m1))). rewrite HC.
    apply before_filter_intro; auto. eapply before_concat; [exact Hc'|].
    unfold newm, dnew. apply before_rev, Hs.
Qed.

End ReadSpec.

(* ---- C03 ---- *)
Theorem C03_logtime_thm : forall (sel : amsg -> bool) cks fuel n,
  chunks_wf cks ->
  (length cks + 1 <= fuel)%nat -> (length (filter sel (all_msgs cks)) + 1 <= n)%nat ->
  exists out st, a_read sel LogTimeOrder fuel n cks = Some (out, st) /\
    Permutation out (filter sel (all_msgs cks)) /\
    StronglySorted (fun a b => am_ts a <= am_ts b) out /\
    (forall c m1 m2, In c cks -> before m1 m2 (ac_msgs c) -> am_ts m1 = am_ts m2 ->
       sel m1 = true -> sel m2 = true -> before m1 m2 out) /\
    out = sortd am_ts true (filter sel (all_msgs (ac_sort LogTimeOrder cks))).
Proof.
  intros sel cks fuel n Hw Hf Hn.
  destruct (a_read_total sel LogTimeOrder fuel n cks Hf Hn) as (out & st & H).
  exists out, st. split; [exact H|]. split; [eapply a_read_perm; exact H|].
  destruct (a_read_time sel true _ _ _ _ _ Hw H) as (S & _ & E).
  split; [exact S|]. split.
  - intros c m1 m2. apply (a_read_stable sel true _ _ _ _ _ Hw H).
  - rewrite E. f_equal. apply selall_filter.
Qed.

Theorem C03_reverse_thm : forall (sel : amsg -> bool) cks fuel n,
  chunks_wf cks ->
  (length cks + 1 <= fuel)%nat -> (length (filter sel (all_msgs cks)) + 1 <= n)%nat ->
  exists out st, a_read sel ReverseLogTimeOrder fuel n cks = Some (out, st) /\
    Permutation out (filter sel (all_msgs cks)) /\
    StronglySorted (fun a b => am_ts b <= am_ts a) out /\
    (forall c m1 m2, In c cks -> before m1 m2 (ac_msgs c) -> am_ts m1 = am_ts m2 ->
       sel m1 = true -> sel m2 = true -> before m2 m1 out) /\
    out = sortd am_ts false
            (concat (map (fun c => rev (filter sel (ac_msgs c))) (ac_sort ReverseLogTimeOrder cks))).
Proof.
  intros sel cks fuel n Hw Hf Hn.
  destruct (a_read_total sel ReverseLogTimeOrder fuel n cks Hf Hn) as (out & st & H).
  exists out, st. split; [exact H|]. split; [eapply a_read_perm; exact H|].
  destruct (a_read_time sel false _ _ _ _ _ Hw H) as (S & _ & E).
  split; [exact S|]. split.
  - intros c m1 m2. apply (a_read_stable sel false _ _ _ _ _ Hw H).
  - exact E.
Qed.

(* the result does not depend on fuel beyond the bound, nor on the order in which the summary
   lists the chunk indexes *)
Theorem C03_deterministic_thm : forall (sel : amsg -> bool) o fuel n cks cks',
  Permutation cks cks' -> NoDup (map ac_off cks) ->
  ac_sort o cks = ac_sort o cks' /\ a_read sel o fuel n cks = a_read sel o fuel n cks'.
Proof.
  intros sel o fuel n cks cks' HP Hnd. pose proof (ac_sort_deterministic o _ _ HP Hnd) as E.
  split; [exact E|]. unfold a_read. rewrite E. reflexivity.
Qed.

(* with unique message identities, the "before" clauses speak about the unique occurrences *)
Lemma a_read_nodup sel o fuel n cks out st :
  NoDup (map am_uid (all_msgs cks)) -> a_read sel o fuel n cks = Some (out, st) -> NoDup out.
Proof.
  intros Hnd H. apply a_read_perm in H.
  eapply Permutation_NoDup; [symmetry; exact H|].
  apply NoDup_filter. eapply NoDup_map_inv. exact Hnd.
Qed.

(* ====================================================================================== *)
(* 6. slots (C20)                                                                          *)
(* ====================================================================================== *)

(* ---- how many chunks overlap ---- *)
Definition contains (p : N) (c : achunk) : bool := (ac_start c <=? p) && (p <=? ac_end c).
Definition overlap_at (cks : list achunk) (p : N) : nat := length (filter (contains p) cks).
Definition endpoints (cks : list achunk) : list N := map ac_start cks ++ map ac_end cks.
(* the largest number of chunks whose closed time ranges share a point *)
Definition max_overlap (cks : list achunk) : nat :=
  fold_right Nat.max O (map (overlap_at cks) (endpoints cks)).
Definition ranges_ok (cks : list achunk) : Prop := Forall (fun c => ac_start c <= ac_end c) cks.

Lemma fold_max_ge x l : In x l -> (x <= fold_right Nat.max O l)%nat.
Proof.
  induction l as [|y l IH]; intros H; [contradiction|]. cbn [fold_right].
  destruct H as [->|H]; [lia|]. specialize (IH H). lia.
Qed.
Lemma fold_max_perm l l' : Permutation l l' -> fold_right Nat.max O l = fold_right Nat.max O l'.
Proof. induction 1; cbn [fold_right]; lia. Qed.
Lemma fold_max_attained l : fold_right Nat.max O l = O \/ In (fold_right Nat.max O l) l.
Proof.
  induction l as [|y l IH]; cbn [fold_right]; [left; reflexivity|].
  destruct (Nat.max_spec y (fold_right Nat.max O l)) as [[_ ->]|[_ ->]].
  - destruct IH as [->|IH]; [left; reflexivity|right; right; exact IH].
  - right. left. reflexivity.
Qed.

Lemma Permutation_filter_length {A} (p : A -> bool) l l' :
  Permutation l l' -> length (filter p l) = length (filter p l').
Proof.
  induction 1 as [|x l l' H IH|x y l|l l' l'' H1 IH1 H2 IH2]; cbn [filter]; auto.
  - destruct (p x); cbn [length]; lia.
  - destruct (p x), (p y); reflexivity.
  - lia.
Qed.
Lemma filter_length_mono {A} (p q : A -> bool) l :
  (forall x, In x l -> p x = true -> q x = true) -> (length (filter p l) <= length (filter q l))%nat.
Proof.
  induction l as [|x l IH]; intro H; cbn [filter]; [lia|].
  assert (IH' : (length (filter p l) <= length (filter q l))%nat).
  { apply IH. intros y Hy. apply H. right. exact Hy. }
  destruct (p x) eqn:Px.
  - rewrite (H x (or_introl eq_refl) Px). cbn [length]. lia.
  - destruct (q x); cbn [length]; lia.
Qed.

Lemma overlap_at_perm cks cks' p : Permutation cks cks' -> overlap_at cks p = overlap_at cks' p.
Proof. apply Permutation_filter_length. Qed.
Lemma max_overlap_perm cks cks' : Permutation cks cks' -> max_overlap cks = max_overlap cks'.
Proof.
  intro H. unfold max_overlap. apply fold_max_perm.
  rewrite (map_ext _ (overlap_at cks')) by (intro p; apply overlap_at_perm, H).
  apply Permutation_map. unfold endpoints. apply Permutation_app; apply Permutation_map, H.
Qed.
Lemma overlap_at_endpoint cks p : In p (endpoints cks) -> (overlap_at cks p <= max_overlap cks)%nat.
Proof. intro H. unfold max_overlap. apply fold_max_ge. apply in_map, H. Qed.

(* max_overlap really is the maximum over all points, and it is attained *)
Lemma fold_Nmax_in l : l <> [] -> In (fold_right N.max 0 l) l.
Proof.
  induction l as [|y l IH]; intro H; [contradiction|]. cbn [fold_right].
  destruct l as [|z l]; [left; cbn [fold_right]; lia|].
  destruct (N.max_spec y (fold_right N.max 0 (z :: l))) as [[_ E]|[_ E]]; rewrite E.
  - right. apply IH. discriminate.
  - left. reflexivity.
Qed.
Lemma fold_Nmax_ge x l : In x l -> x <= fold_right N.max 0 l.
Proof.
  induction l as [|y l IH]; intros H; [contradiction|]. cbn [fold_right].
  destruct H as [->|H]; [lia|]. specialize (IH H). lia.
Qed.
Lemma overlap_at_le_max cks p : (overlap_at cks p <= max_overlap cks)%nat.
Proof.
  destruct (filter (contains p) cks) as [|c0 S0] eqn:ES.
  { unfold overlap_at. rewrite ES. cbn [length]. lia. }
  set (S := filter (contains p) cks) in *.
  set (q := fold_right N.max 0 (map ac_start S)).
  assert (Hq : In q (map ac_start S)).
  { apply fold_Nmax_in. rewrite ES. discriminate. }
  apply in_map_iff in Hq. destruct Hq as (c & Hc & HcS).
  assert (HcS' := HcS). apply filter_In in HcS'. destruct HcS' as [Hcin Hcp].
  transitivity (overlap_at cks q).
  - unfold overlap_at. apply filter_length_mono. intros x Hx Hp.
    assert (ac_start x <= q) as Hle.
    { apply fold_Nmax_ge. apply in_map. apply filter_In. auto. }
    unfold contains in *. lia.
  - apply overlap_at_endpoint. unfold endpoints. apply in_or_app. left. rewrite <- Hc. apply in_map, Hcin.
Qed.
Lemma max_overlap_attained cks : max_overlap cks = O \/ exists p, overlap_at cks p = max_overlap cks.
Proof.
  unfold max_overlap. destruct (fold_max_attained (map (overlap_at cks) (endpoints cks))) as [H|H]; [left; exact H|].
  right. apply in_map_iff in H. destruct H as (p & Hp & _). exists p. exact Hp.
Qed.

(* ---- slot bookkeeping ---- *)
Definition cnt (i : nat) (q : list aentry) : nat := length (filter (fun e : aentry => (snd e =? i)%nat) q).

Lemma cnt_perm i q q' : Permutation q q' -> cnt i q = cnt i q'.
Proof. apply Permutation_filter_length. Qed.
Lemma cnt_app i q q' : cnt i (q ++ q') = (cnt i q + cnt i q')%nat.
Proof. unfold cnt. rewrite filter_app, app_length. reflexivity. Qed.
Lemma cnt_tagged i j (l : list amsg) :
  cnt i (map (fun m => (m, j)) l) = if (i =? j)%nat then length l else O.
Proof.
  unfold cnt. induction l as [|m l IH]; cbn [map filter snd length].
  - destruct (i =? j)%nat; reflexivity.
  - rewrite (Nat.eqb_sym j i). destruct (i =? j)%nat; cbn [length]; rewrite IH; reflexivity.
Qed.
Lemma cnt_cons i e q : cnt i (e :: q) = ((if (snd e =? i)%nat then 1 else 0) + cnt i q)%nat.
Proof. unfold cnt. cbn [filter]. destruct (snd e =? i)%nat; reflexivity. Qed.
Lemma cnt_pos_in i q : (0 < cnt i q)%nat -> exists m, In (m, i) q.
Proof.
  induction q as [|[m k] q IH]; [cbn; lia|]. rewrite cnt_cons. cbn [snd].
  destruct (Nat.eqb_spec k i) as [->|Hk].
  - intros _. exists m. left. reflexivity.
  - intro H. destruct (IH H) as (m' & Hm'). exists m'. right. exact Hm'.
Qed.
Lemma cnt_in_pos i m q : In (m, i) q -> (0 < cnt i q)%nat.
Proof.
  induction q as [|e q IH]; [contradiction|]. rewrite cnt_cons.
  intros [->|H]; [cbn [snd]; rewrite Nat.eqb_refl; lia|]. specialize (IH H). lia.
Qed.
Lemma cnt_merge o i j q (new : list amsg) :
  cnt i (a_merge o q (map (fun m => (m, j)) new)) = (cnt i q + if (i =? j)%nat then length new else O)%nat.
Proof. rewrite (cnt_perm _ _ _ (a_merge_perm o _ _)), cnt_app, cnt_tagged. reflexivity. Qed.

Lemma a_find_free_some : forall l k j, a_find_free l k = Some j ->
  (k <= j < k + length l)%nat /\ nth (j - k) l 0 = 0.
Proof.
  induction l as [|x l IH]; intros k j H; cbn [a_find_free] in H; [discriminate|].
  destruct (N.eqb_spec x 0) as [->|Hx].
  - inversion H; subst. cbn [length]. rewrite Nat.sub_diag. split; [lia|reflexivity].
  - destruct (IH _ _ H) as [H1 H2]. cbn [length]. split; [lia|].
    replace (j - k)%nat with (S (j - S k)) by lia. exact H2.
Qed.
Lemma a_find_free_none : forall l k, a_find_free l k = None -> Forall (fun x => x <> 0) l.
Proof.
  induction l as [|x l IH]; intros k H; cbn [a_find_free] in H; [constructor|].
  destruct (N.eqb_spec x 0) as [->|Hx]; [discriminate|]. constructor; [exact Hx|eapply IH; exact H].
Qed.
Lemma slot_of_spec l :
  ((slot_of l < length l)%nat /\ nth (slot_of l) l 0 = 0) \/
  (slot_of l = length l /\ Forall (fun x => x <> 0) l).
Proof.
  unfold slot_of. destruct (a_find_free l 0) as [j|] eqn:E.
  - apply a_find_free_some in E. rewrite Nat.sub_0_r in E. left. split; [lia|apply E].
  - right. split; [reflexivity|]. eapply a_find_free_none; exact E.
Qed.
Lemma slot_of_le l : (slot_of l <= length l)%nat.
Proof. destruct (slot_of_spec l) as [[H _]|[H _]]; lia. Qed.
Lemma slot_of_nth l : nth (slot_of l) l 0 = 0.
Proof. destruct (slot_of_spec l) as [[_ H]|[H _]]; [exact H|]. rewrite H. apply nth_overflow. lia. Qed.

Lemma nth_slot_set : forall l i v j, (i <= length l)%nat ->
  nth j (a_slot_set l i v) 0 = if (j =? i)%nat then v else nth j l 0.
Proof.
  induction l as [|x l IH]; intros i v j H; cbn [length] in H.
  - assert (i = O) by lia. subst. cbn [a_slot_set]. destruct j as [|[|j]]; reflexivity.
  - destruct i as [|i]; cbn [a_slot_set].
    + destruct j; reflexivity.
    + destruct j as [|j]; [reflexivity|]. cbn [nth]. rewrite IH by lia. reflexivity.
Qed.
Lemma length_slot_set : forall l i v, (i <= length l)%nat ->
  length (a_slot_set l i v) = Nat.max (length l) (S i).
Proof.
  induction l as [|x l IH]; intros i v H; cbn [length] in H.
  - assert (i = O) by lia. subst. reflexivity.
  - destruct i as [|i]; cbn [a_slot_set length]; [lia|]. rewrite IH by lia. lia.
Qed.
Lemma Forall_nth_N (P : N -> Prop) l i : Forall P l -> (i < length l)%nat -> P (nth i l 0).
Proof. intros H Hi. rewrite Forall_forall in H. apply H, nth_In, Hi. Qed.

Lemma NoDup_map_inj_on {A B} (f : A -> B) l :
  (forall a b, In a l -> In b l -> f a = f b -> a = b) -> NoDup l -> NoDup (map f l).
Proof.
  induction l as [|x l IH]; intros Hinj Hnd; cbn [map]; [constructor|].
  inversion Hnd as [|? ? Hx Hnd']; subst. constructor.
  - intro Hin. apply in_map_iff in Hin. destruct Hin as (y & Hy & Hyl).
    apply Hx. rewrite <- (Hinj y x); auto; [right; exact Hyl|left; reflexivity].
  - apply IH; auto. intros a b Ha Hb. apply Hinj; right; assumption.
Qed.

(* the unread counts are the numbers of queued messages per slot; valid for every read order *)
Definition counts_ok (s : astate) : Prop :=
  forall i, nth i (a_slots s) 0 = N.of_nat (cnt i (a_queue s)).

Lemma counts_load sel o s c rest : counts_ok s -> counts_ok (a_load sel o c rest s).
Proof.
  intros K1 i. cbn [a_load a_queue a_slots].
  rewrite nth_slot_set by apply slot_of_le. rewrite cnt_merge.
  destruct (Nat.eqb_spec i (slot_of (a_slots s))) as [->|Hij].
  - pose proof (K1 (slot_of (a_slots s))) as H. rewrite slot_of_nth in H. lia.
  - rewrite K1. lia.
Qed.

Lemma yield_slot_lt s e q0 : counts_ok s -> a_queue s = e :: q0 -> (snd e < length (a_slots s))%nat.
Proof.
  intros K1 Hq. destruct (Nat.lt_ge_cases (snd e) (length (a_slots s))) as [H|H]; [exact H|].
  pose proof (K1 (snd e)) as H1. rewrite nth_overflow in H1 by exact H.
  rewrite Hq, cnt_cons, Nat.eqb_refl in H1. lia.
Qed.
Lemma yield_slot_dec s e q0 : counts_ok s -> a_queue s = e :: q0 ->
  a_slot_dec (a_slots s) (snd e) = a_slot_set (a_slots s) (snd e) (nth (snd e) (a_slots s) 0 - 1).
Proof.
  intros K1 Hq. unfold a_slot_dec.
  rewrite (nth_error_nth' _ 0 (yield_slot_lt _ _ _ K1 Hq)). reflexivity.
Qed.
Lemma counts_yield s e q0 : counts_ok s -> a_queue s = e :: q0 -> counts_ok (a_yield e s).
Proof.
  intros K1 Hq k. cbn [a_yield a_queue a_slots].
  pose proof (yield_slot_lt _ _ _ K1 Hq) as Hlt.
  rewrite (yield_slot_dec _ _ _ K1 Hq), nth_slot_set by lia.
  pose proof (K1 k) as H1. rewrite Hq in H1 |- *. cbn [tl]. rewrite cnt_cons in H1.
  rewrite (Nat.eqb_sym (snd e) k) in H1. destruct (k =? snd e)%nat eqn:E.
  - apply Nat.eqb_eq in E. subst k. lia.
  - lia.
Qed.
Lemma length_yield s e q0 : counts_ok s -> a_queue s = e :: q0 ->
  length (a_slots (a_yield e s)) = length (a_slots s).
Proof.
  intros K1 Hq. cbn [a_yield a_slots]. pose proof (yield_slot_lt _ _ _ K1 Hq) as Hlt.
  rewrite (yield_slot_dec _ _ _ K1 Hq), length_slot_set by lia. lia.
Qed.

(* when nothing is queued every slot is free, so a load reuses slot 0 (or creates it) *)
Lemma length_load_empty sel o s c rest : counts_ok s -> a_queue s = [] ->
  length (a_slots (a_load sel o c rest s)) = Nat.max 1 (length (a_slots s)).
Proof.
  intros K1 Hq. cbn [a_load a_slots]. rewrite length_slot_set by apply slot_of_le.
  destruct (slot_of_spec (a_slots s)) as [[Hlt _]|[Heq Hall]]; [lia|].
  destruct (a_slots s) as [|x sl] eqn:E.
  - rewrite Heq. reflexivity.
  - exfalso. inversion Hall as [|? ? Hx _]; subst. apply Hx.
    pose proof (K1 O) as H. rewrite E, Hq in H. cbn in H. exact H.
Qed.

(* ---- file order: one slot ---- *)
Section SlotsFile.
Variable sel : amsg -> bool.

Definition KF (s : astate) : Prop := counts_ok s /\ (length (a_slots s) <= 1)%nat.

Lemma KF_load s s' : KF s -> a_step sel FileOrder s = SLoad s' -> KF s'.
Proof.
  intros [K1 K6] Hs. apply a_step_load in Hs. destruct Hs as (c & rest & Hc & -> & Hq).
  split; [apply counts_load, K1|].
  destruct Hq as [Hq|(h & q0 & _ & Hl)]; [|discriminate].
  rewrite (length_load_empty _ _ _ _ _ K1 Hq). lia.
Qed.
Lemma KF_yield s e s' : KF s -> a_step sel FileOrder s = SYield e s' -> KF s'.
Proof.
  intros [K1 K6] Hs. apply a_step_yield in Hs. destruct Hs as (q0 & Hq & -> & _).
  split; [eapply counts_yield; eauto|]. rewrite (length_yield _ _ _ K1 Hq). exact K6.
Qed.
Lemma KF_init cks : KF (a_init cks).
Proof. split; [intro i; destruct i; reflexivity|cbn; lia]. Qed.
End SlotsFile.

(* ---- time orders: at most max_overlap slots ---- *)
Section SlotsTime.
Variable sel : amsg -> bool.
Variable d : bool.
Variable full : list achunk.
Hypothesis full_nodup : NoDup full.
Hypothesis full_sorted : StronglySorted (cle d) full.
Hypothesis full_wf : chunks_wf full.
Hypothesis full_ranges : ranges_ok full.

Definition KInv (s : astate) : Prop :=
  exists (loaded : list achunk) (own : nat -> achunk),
    full = loaded ++ a_cks s /\
    ksorted ae_ts d (a_queue s) /\
    counts_ok s /\
    (forall m i, In (m, i) (a_queue s) -> In m (ac_msgs (own i))) /\
    (forall i, (0 < cnt i (a_queue s))%nat -> In (own i) loaded) /\
    (forall i j, (0 < cnt i (a_queue s))%nat -> (0 < cnt j (a_queue s))%nat -> own i = own j -> i = j) /\
    (length (a_slots s) <= Nat.max 1 (max_overlap full))%nat.

(* the chunks with unread messages and the chunk about to be loaded share a point *)
Lemma live_contains loaded c rest own h q0 i :
  full = loaded ++ c :: rest ->
  ksorted ae_ts d (h :: q0) ->
  ltd d (bkey d c) (ae_ts h) = true ->
  (forall m i, In (m, i) (h :: q0) -> In m (ac_msgs (own i))) ->
  (forall i, (0 < cnt i (h :: q0))%nat -> In (own i) loaded) ->
  (0 < cnt i (h :: q0))%nat ->
  In (own i) full /\ contains (bkey d c) (own i) = true.
Proof.
  intros Hfull Hsort Hl K2 K3 Hi.
  pose proof (K3 i Hi) as Hown.
  assert (Hin : In (own i) full) by (rewrite Hfull; apply in_or_app; left; exact Hown).
  split; [exact Hin|].
  destruct (cnt_pos_in _ _ Hi) as (m & Hm).
  pose proof (K2 m i Hm) as Hmsg.
  assert (Hw : ac_start (own i) <= am_ts m /\ am_ts m <= ac_end (own i)).
  { unfold chunks_wf in full_wf. rewrite Forall_forall in full_wf. specialize (full_wf _ Hin).
    unfold chunk_wf in full_wf. rewrite Forall_forall in full_wf. apply full_wf, Hmsg. }
  assert (Hc : cle d (own i) c).
  { pose proof full_sorted as Hs. rewrite Hfull in Hs. apply StronglySorted_app_inv in Hs.
    destruct Hs as (_ & _ & Hs). apply Hs; [exact Hown|left; reflexivity]. }
  assert (Hh : led d (ae_ts h) (am_ts m)).
  { inversion Hsort as [|? ? _ Hall]; subst. destruct Hm as [->|Hm]; [apply led_refl|].
    rewrite Forall_forall in Hall. apply (Hall _ Hm). }
  apply ltd_true in Hl. destruct Hl as [Hl1 Hl2].
  destruct d; unfold contains, cle, led, bkey in *; lia.
Qed.

Lemma K_load s s' : KInv s -> a_step sel (order_of d) s = SLoad s' -> KInv s'.
Proof.
  intros (loaded & own & Hfull & Hsort & K1 & K2 & K3 & K4 & K6) Hs.
  apply a_step_load in Hs. destruct Hs as (c & rest & Hc & -> & Hq).
  rewrite Hc in Hfull.
  assert (Hj0 : cnt (slot_of (a_slots s)) (a_queue s) = O).
  { pose proof (K1 (slot_of (a_slots s))) as H. rewrite slot_of_nth in H. lia. }
  assert (Hcl : ~ In c loaded).
  { pose proof full_nodup as Hnd. rewrite Hfull in Hnd. apply NoDup_remove_2 in Hnd.
    intro H. apply Hnd, in_or_app. left; exact H. }
  exists (loaded ++ [c]), (fun i => if (i =? slot_of (a_slots s))%nat then c else own i).
  split. { cbn [a_load a_cks]. rewrite <- app_assoc. exact Hfull. }
  split. { cbn [a_load a_queue]. rewrite a_merge_dir. apply sortd_sorted. }
  split. { apply counts_load, K1. }
  split.
  { cbn [a_load a_queue]. intros m i Hin.
    apply (Permutation_in _ (a_merge_perm _ _ _)) in Hin. apply in_app_or in Hin. destruct Hin as [Hin|Hin].
    - destruct (Nat.eqb_spec i (slot_of (a_slots s))) as [->|Hij]; [|apply K2, Hin].
      exfalso. apply cnt_in_pos in Hin. lia.
    - apply in_map_iff in Hin. destruct Hin as (m' & E & Hm'). inversion E; subst.
      rewrite Nat.eqb_refl. apply filter_In in Hm'. apply Hm'. }
  split.
  { cbn [a_load a_queue]. intros i Hi. rewrite cnt_merge in Hi. apply in_or_app.
    destruct (Nat.eqb_spec i (slot_of (a_slots s))) as [Eij|Hij]; [right; left; reflexivity|].
    left. apply K3. lia. }
  split.
  { cbn [a_load a_queue]. intros i k Hi Hk. rewrite cnt_merge in Hi, Hk.
    destruct (Nat.eqb_spec i (slot_of (a_slots s))) as [Eij|Hij],
             (Nat.eqb_spec k (slot_of (a_slots s))) as [Ekj|Hkj]; intro E; [congruence| | |].
    - exfalso. apply Hcl. rewrite E. apply K3. lia.
    - exfalso. apply Hcl. rewrite <- E. apply K3. lia.
    - apply K4; auto; lia. }
  destruct Hq as [Hq|(h & q0 & Hq & Hl)].
  { rewrite (length_load_empty _ _ _ _ _ K1 Hq). lia. }
  cbn [a_load a_slots]. rewrite length_slot_set by apply slot_of_le.
  destruct (slot_of_spec (a_slots s)) as [[Hlt _]|[Heq Hall]]; [lia|].
  rewrite Heq. rewrite a_load_first_dir in Hl. rewrite Hq in *.
  assert (Hlive : forall i, (i < length (a_slots s))%nat -> (0 < cnt i (h :: q0))%nat).
  { intros i Hi. pose proof (Forall_nth_N _ _ _ Hall Hi) as H. cbn beta in H. rewrite K1, Hq in H. lia. }
  pose (L := c :: map own (seq 0 (length (a_slots s)))).
  assert (HndL : NoDup L).
  { constructor.
    - intro Hin. apply in_map_iff in Hin. destruct Hin as (i & E & Hi). apply in_seq in Hi.
      apply Hcl. rewrite <- E. apply K3, Hlive. lia.
    - apply NoDup_map_inj_on; [|apply seq_NoDup].
      intros a b Ha Hb. apply in_seq in Ha, Hb. apply K4; apply Hlive; lia. }
  assert (Hincl : incl L (filter (contains (bkey d c)) full)).
  { intros x [<-|Hx]; apply filter_In.
    - assert (Hin : In c full) by (rewrite Hfull; apply in_or_app; right; left; reflexivity).
      split; [exact Hin|].
      unfold ranges_ok in full_ranges. rewrite Forall_forall in full_ranges. specialize (full_ranges _ Hin).
      destruct d; unfold contains, bkey; lia.
    - apply in_map_iff in Hx. destruct Hx as (i & <- & Hi). apply in_seq in Hi.
      eapply live_contains; eauto. apply Hlive. lia. }
  pose proof (NoDup_incl_length HndL Hincl) as Hlen. unfold L in Hlen. cbn [length] in Hlen.
  rewrite map_length, seq_length in Hlen.
  pose proof (overlap_at_le_max full (bkey d c)) as Hmax. unfold overlap_at in Hmax. lia.
Qed.

Lemma K_yield s e s' : KInv s -> a_step sel (order_of d) s = SYield e s' -> KInv s'.
Proof.
  intros (loaded & own & Hfull & Hsort & K1 & K2 & K3 & K4 & K6) Hs.
  apply a_step_yield in Hs. destruct Hs as (q0 & Hq & -> & _).
  exists loaded, own.
  split; [exact Hfull|].
  split. { cbn [a_yield a_queue]. rewrite Hq in *. cbn [tl]. inversion Hsort; assumption. }
  split. { eapply counts_yield; eauto. }
  assert (Hcnt : forall k, (cnt k q0 <= cnt k (a_queue s))%nat).
  { intro k. rewrite Hq, cnt_cons. lia. }
  split. { cbn [a_yield a_queue]. intros m i Hin. apply K2. rewrite Hq in *. right. exact Hin. }
  split. { cbn [a_yield a_queue]. rewrite Hq. cbn [tl]. intros i H. apply K3. specialize (Hcnt i). lia. }
  split. { cbn [a_yield a_queue]. rewrite Hq. cbn [tl]. intros i j H1 H2.
           pose proof (Hcnt i). pose proof (Hcnt j). apply K4; lia. }
  rewrite (length_yield _ _ _ K1 Hq). exact K6.
Qed.

Lemma K_init : KInv (a_init full).
Proof.
  exists [], (fun _ => {| ac_start := 0; ac_end := 0; ac_off := 0; ac_msgs := [] |}).
  cbn [a_init a_cks a_queue a_slots app].
  split; [reflexivity|]. split; [constructor|]. split; [intro i; destruct i; reflexivity|].
  split; [intros m i []|]. split; [cbn; intros; lia|]. split; [cbn; intros; lia|]. cbn; lia.
Qed.

Lemma K_arun s out s' : arun sel (order_of d) s out s' -> KInv s -> KInv s'.
Proof. induction 1; intro HK; auto; apply IHarun; [eapply K_load|eapply K_yield]; eauto. Qed.

End SlotsTime.

(* ---- C20 ---- *)
Theorem C20_slots_time_thm : forall (sel : amsg -> bool) d cks,
  chunks_wf cks -> ranges_ok cks -> NoDup (map ac_off cks) ->
  (forall out s, arun sel (order_of d) (a_init (ac_sort (order_of d) cks)) out s ->
     (length (a_slots s) <= Nat.max 1 (max_overlap cks))%nat) /\
  (forall fuel n out st, a_read sel (order_of d) fuel n cks = Some (out, st) ->
     (fst st <= Nat.max 1 (max_overlap cks))%nat /\ (snd st <= Nat.max 1 (max_overlap cks))%nat).
Proof.
  intros sel d cks Hw Hr Hnd.
  pose proof (ac_sort_perm (order_of d) cks) as HP.
  set (full := ac_sort (order_of d) cks) in *.
  assert (F1 : NoDup full).
  { eapply Permutation_NoDup; [symmetry; exact HP|]. eapply NoDup_map_inv. exact Hnd. }
  assert (F2 : StronglySorted (cle d) full) by apply ac_sort_csorted.
  assert (F3 : chunks_wf full) by (eapply Permutation_Forall; [symmetry; exact HP|exact Hw]).
  assert (F4 : ranges_ok full) by (eapply Permutation_Forall; [symmetry; exact HP|exact Hr]).
  rewrite <- (max_overlap_perm _ _ HP).
  assert (HB : forall s, KInv d full s -> (length (a_slots s) <= Nat.max 1 (max_overlap full))%nat).
  { intros s (? & ? & _ & _ & _ & _ & _ & _ & H). exact H. }
  split.
  - intros out s Hrun. apply HB. eapply K_arun; eauto. apply K_init.
  - intros fuel n out st H. unfold a_read in H. fold full in H.
    eapply (a_run_stats sel (order_of d) (KInv d full)); try exact H; cbn [fst snd]; try lia.
    + intros s s'. apply K_load; auto.
    + intros s e s'. apply K_yield; auto.
    + exact HB.
    + apply K_init.
Qed.

Theorem C20_slots_file_thm : forall (sel : amsg -> bool) cks,
  (forall out s, arun sel FileOrder (a_init (ac_sort FileOrder cks)) out s -> (length (a_slots s) <= 1)%nat) /\
  (forall fuel n out st, a_read sel FileOrder fuel n cks = Some (out, st) -> (fst st <= 1)%nat /\ (snd st <= 1)%nat).
Proof.
  intros sel cks.
  assert (Hrun : forall s out s', arun sel FileOrder s out s' -> KF s -> KF s').
  { induction 1; intro HK; auto; apply IHarun; [eapply KF_load|eapply KF_yield]; eauto. }
  split.
  - intros out s H. apply (Hrun _ _ _ H), KF_init.
  - intros fuel n out st H. unfold a_read in H.
    eapply (a_run_stats sel FileOrder KF); try exact H; cbn [fst snd]; try lia.
    + intros s s'. apply KF_load.
    + intros s e s'. apply KF_yield.
    + intros s [_ HK]. exact HK.
    + apply KF_init.
Qed.

(* ====================================================================================== *)
(* 7. read options and pruning (C04)                                                      *)
(* ====================================================================================== *)

(* the window test after finalize, in terms of the option fields *)
Definition fin_start (r : ropts) : N :=
  if (ro_start_n r =? 0) && (0 <? ro_start r)%Z then Z.to_N (ro_start r) else ro_start_n r.
Definition fin_legacy_end (r : ropts) : bool :=
  ((ro_end_n r =? 0) || ro_unbounded r) && (0 <? ro_end r)%Z.
Lemma in_window_finalize r t :
  in_window (finalize r) t =
  (fin_start r <=? t) &&
  (if fin_legacy_end r then t <? Z.to_N (ro_end r) else (t <? ro_end_n r) || ro_unbounded r).
Proof.
  unfold in_window, finalize, fin_start, fin_legacy_end. destruct r as [st en tp ui od mc sn enn ub].
  cbn [ro_start_n ro_start ro_end ro_end_n ro_unbounded].
  destruct ((sn =? 0) && (0 <? st)%Z); cbn;
  destruct ((enn =? 0) || ub); cbn; destruct (0 <? en)%Z; cbn; rewrite ?orb_false_r; reflexivity.
Qed.

Ltac cbn_opt := cbn -[N.ltb N.leb N.eqb Z.ltb Z.to_N Z.of_N].
Ltac opt_go := unfold apply_opts, apply_opt, bind, default_ropts; cbn_opt;
  repeat (match goal with |- context[if ?c then _ else _] =>
            first [replace c with false by lia | replace c with true by lia] end; cbn_opt).
Ltac win_norm := rewrite in_window_finalize; unfold fin_start, fin_legacy_end; cbn_opt.
Ltac fin_ifs := repeat match goal with |- context[if ?c then _ else _] => destruct c eqn:? end; lia.

Theorem C04_default_all_thm : forall t, in_window (finalize default_ropts) t = true.
Proof. intro t. win_norm. fin_ifs. Qed.

Theorem C04_spellings_thm : forall s e : N, s <= e -> 0 < e ->
  exists r1 r2 r3 r4,
    apply_opts [OAfterNanos s; OBeforeNanos e] default_ropts = Ok r1 /\
    apply_opts [OBeforeNanos e; OAfterNanos s] default_ropts = Ok r2 /\
    apply_opts [OAfter (Z.of_N s); OBefore (Z.of_N e)] default_ropts = Ok r3 /\
    apply_opts [OBefore (Z.of_N e); OAfter (Z.of_N s)] default_ropts = Ok r4 /\
    forall t, in_window (finalize r1) t = (s <=? t) && (t <? e) /\
              in_window (finalize r2) t = (s <=? t) && (t <? e) /\
              in_window (finalize r3) t = (s <=? t) && (t <? e) /\
              in_window (finalize r4) t = (s <=? t) && (t <? e).
Proof.
  intros s e H H0.
  assert (S1 : exists r, apply_opts [OAfterNanos s; OBeforeNanos e] default_ropts = Ok r /\
                 forall t, in_window (finalize r) t = (s <=? t) && (t <? e)).
  { opt_go. eexists; split; [reflexivity|]. intro t. win_norm. fin_ifs. }
  assert (S2 : exists r, apply_opts [OBeforeNanos e; OAfterNanos s] default_ropts = Ok r /\
                 forall t, in_window (finalize r) t = (s <=? t) && (t <? e)).
  { opt_go. eexists; split; [reflexivity|]. intro t. win_norm. fin_ifs. }
  assert (S3 : exists r, apply_opts [OAfter (Z.of_N s); OBefore (Z.of_N e)] default_ropts = Ok r /\
                 forall t, in_window (finalize r) t = (s <=? t) && (t <? e)).
  { opt_go. eexists; split; [reflexivity|]. intro t. win_norm. fin_ifs. }
  assert (S4 : exists r, apply_opts [OBefore (Z.of_N e); OAfter (Z.of_N s)] default_ropts = Ok r /\
                 forall t, in_window (finalize r) t = (s <=? t) && (t <? e)).
  { opt_go. eexists; split; [reflexivity|]. intro t. win_norm. fin_ifs. }
  destruct S1 as (r1 & E1 & W1), S2 as (r2 & E2 & W2), S3 as (r3 & E3 & W3), S4 as (r4 & E4 & W4).
  exists r1, r2, r3, r4. repeat split; auto.
Qed.

(* the nanosecond spelling also handles e = 0 (the empty window [s, 0) with s = 0) *)
Theorem C04_spellings_nanos_thm : forall s e : N, s <= e ->
  exists r1 r2,
    apply_opts [OAfterNanos s; OBeforeNanos e] default_ropts = Ok r1 /\
    apply_opts [OBeforeNanos e; OAfterNanos s] default_ropts = Ok r2 /\
    forall t, in_window (finalize r1) t = (s <=? t) && (t <? e) /\
              in_window (finalize r2) t = (s <=? t) && (t <? e).
Proof.
  intros s e H.
  assert (S1 : exists r, apply_opts [OAfterNanos s; OBeforeNanos e] default_ropts = Ok r /\
                 forall t, in_window (finalize r) t = (s <=? t) && (t <? e)).
  { opt_go. eexists; split; [reflexivity|]. intro t. win_norm. fin_ifs. }
  assert (S2 : exists r, apply_opts [OBeforeNanos e; OAfterNanos s] default_ropts = Ok r /\
                 forall t, in_window (finalize r) t = (s <=? t) && (t <? e)).
  { opt_go. eexists; split; [reflexivity|]. intro t. win_norm. fin_ifs. }
  destruct S1 as (r1 & E1 & W1), S2 as (r2 & E2 & W2).
  exists r1, r2. repeat split; auto.
Qed.

(* known finding: Before(0) does not restrict, BeforeNanos(0) selects nothing *)
Theorem C04_before_zero_refuted_thm :
  (exists r, apply_opts [OBefore 0] default_ropts = Ok r /\ forall t, in_window (finalize r) t = true) /\
  (exists r, apply_opts [OBeforeNanos 0] default_ropts = Ok r /\ forall t, in_window (finalize r) t = false).
Proof. split; opt_go; eexists; (split; [reflexivity|]); intro t; win_norm; fin_ifs. Qed.

Theorem C04_window_errors_thm : forall s e : N, e < s ->
  apply_opts [OAfterNanos s; OBeforeNanos e] default_ropts = Err EOther /\
  apply_opts [OBeforeNanos e; OAfterNanos s] default_ropts = Err EOther /\
  apply_opts [OAfter (Z.of_N s); OBefore (Z.of_N e)] default_ropts = Err EOther /\
  (0 < e -> apply_opts [OBefore (Z.of_N e); OAfter (Z.of_N s)] default_ropts = Err EOther).
Proof. intros s e H. repeat split; [| | |intro H0]; opt_go; reflexivity. Qed.

(* the exception to C04_window_errors: Before(0) followed by After(s) is accepted and means [s, oo) *)
Theorem C04_window_errors_before_zero_refuted_thm : forall s : N, 0 < s ->
  exists r, apply_opts [OBefore 0; OAfter (Z.of_N s)] default_ropts = Ok r /\
            forall t, in_window (finalize r) t = (s <=? t).
Proof. intros s H. opt_go. eexists; split; [reflexivity|]. intro t. win_norm. fin_ifs. Qed.

(* ---- selection by topic and window ---- *)
Definition known_chan (channels : list (N * channel)) (c : N) : bool :=
  match tab_get c channels with Some _ => true | None => false end.
(* the test applied by Reader.walk (and by the unindexed iterator) to every message *)
Definition tw_sel (channels : list (N * channel)) (ro : ropts) (m : amsg) : bool :=
  known_chan channels (am_chan m) && in_window ro (am_ts m).

Theorem C04_exact_abstract_thm : forall channels ro o cks fuel n,
  let sel := tw_sel channels ro in
  (length cks + 1 <= fuel)%nat -> (length (filter sel (all_msgs cks)) + 1 <= n)%nat ->
  exists out st, a_read sel o fuel n cks = Some (out, st) /\
    Permutation out (filter sel (all_msgs cks)) /\
    (o = FileOrder -> out = filter sel (all_msgs (ac_sort FileOrder cks))).
Proof.
  intros channels ro o cks fuel n sel Hf Hn.
  destruct (a_read_total sel o fuel n cks Hf Hn) as (out & st & H).
  exists out, st. split; [exact H|]. split; [eapply a_read_perm; exact H|].
  intros ->. eapply a_read_file; exact H.
Qed.

(* chunk indexes dropped by the time test hold no message of the window *)
Theorem C04_pruning_time_thm : forall ro ci c,
  ci_start ci = ac_start c -> ci_end ci = ac_end c -> chunk_wf c ->
  ci_time_ok ro false ci = false ->
  forall m, In m (ac_msgs c) -> in_window ro (am_ts m) = false.
Proof.
  intros ro ci c Hs He Hw Ht m Hm. unfold chunk_wf in Hw. rewrite Forall_forall in Hw. specialize (Hw m Hm).
  unfold ci_time_ok in Ht. rewrite Hs, He in Ht. unfold in_window. cbn [orb] in Ht.
  destruct (ro_unbounded ro); lia.
Qed.

(* chunk indexes dropped by the topic test hold no message on a selected channel, provided the
   chunk's message index offsets name every channel that has a message in the chunk *)
Theorem C04_pruning_topic_thm : forall (channels : list (N * channel)) ci c,
  (forall m, In m (ac_msgs c) -> exists kv, In kv (ci_mioffsets ci) /\ fst kv = am_chan m) ->
  ci_topic_ok channels ci = false ->
  forall m, In m (ac_msgs c) -> known_chan channels (am_chan m) = false.
Proof.
  intros channels ci c Hidx Ht m Hm. destruct (Hidx m Hm) as (kv & Hkv & Hk).
  unfold ci_topic_ok in Ht. destruct (ci_mioffsets ci) as [|x l] eqn:E; [discriminate|].
  destruct (known_chan channels (am_chan m)) eqn:K; [|reflexivity].
  assert (existsb (fun kv => match tab_get (fst kv) channels with Some _ => true | None => false end) (x :: l) = true) as Hex.
  { apply existsb_exists. exists kv. split; [exact Hkv|]. rewrite Hk. exact K. }
  rewrite Hex in Ht. discriminate.
Qed.

(* hence pruning loses nothing *)
Lemma pruned_selection (sel : amsg -> bool) (keep : achunk -> bool) cks :
  (forall c, In c cks -> keep c = false -> filter sel (ac_msgs c) = []) ->
  filter sel (all_msgs (filter keep cks)) = filter sel (all_msgs cks).
Proof.
  intro H. unfold all_msgs. induction cks as [|c cks IH]; [reflexivity|].
  cbn [filter map concat]. rewrite filter_app.
  assert (IH' : filter sel (concat (map ac_msgs (filter keep cks))) = filter sel (concat (map ac_msgs cks))).
  { apply IH. intros c' Hc'. apply H. right. exact Hc'. }
  destruct (keep c) eqn:K.
  - cbn [map concat]. rewrite filter_app, IH'. reflexivity.
  - rewrite (H c (or_introl eq_refl) K), IH'. reflexivity.
Qed.

Theorem C04_pruning_sound_thm : forall (channels : list (N * channel)) ro
    (pairs : list (chunkindex * achunk)) (prune_topics : bool),
  Forall (fun p => ci_start (fst p) = ac_start (snd p) /\ ci_end (fst p) = ac_end (snd p) /\
                   chunk_wf (snd p) /\
                   (forall m, In m (ac_msgs (snd p)) ->
                      exists kv, In kv (ci_mioffsets (fst p)) /\ fst kv = am_chan m)) pairs ->
  let sel := tw_sel channels ro in
  let keep p := ci_time_ok ro false (fst p) && (negb prune_topics || ci_topic_ok channels (fst p)) in
  filter sel (all_msgs (map snd (filter keep pairs))) = filter sel (all_msgs (map snd pairs)).
Proof.
  intros channels ro pairs pt Hall sel keep.
  induction Hall as [|p pairs (Hs & He & Hw & Hidx) Hall IH]; [reflexivity|].
  assert (Hdrop : keep p = false -> filter sel (ac_msgs (snd p)) = []).
  { intro K. apply filter_none. apply Forall_forall. intros m Hm. unfold sel, tw_sel.
    unfold keep in K. apply andb_false_iff in K. destruct K as [K|K].
    - rewrite (C04_pruning_time_thm _ _ _ Hs He Hw K m Hm). apply andb_false_r.
    - apply orb_false_iff in K. destruct K as [_ K].
      rewrite (C04_pruning_topic_thm _ _ _ Hidx K m Hm). reflexivity. }
  unfold all_msgs in *. cbn [filter map concat]. rewrite filter_app.
  destruct (keep p) eqn:K.
  - cbn [map concat]. rewrite filter_app, IH. reflexivity.
  - rewrite (Hdrop eq_refl), IH. reflexivity.
Qed.

(* ====================================================================================== *)
(* 8. refinement: Reader.i_next / Reader.indexed_all against a_next / a_run               *)
(* ====================================================================================== *)
Import RecordSetNotations.

Lemma find_free_map : forall (l : list (N * bytes)) i, find_free l i = a_find_free (map fst l) i.
Proof. induction l as [|x l IH]; intro i; cbn [find_free a_find_free map]; [reflexivity|]. rewrite IH. reflexivity. Qed.
Lemma slot_set_map : forall (l : list (N * bytes)) i n b,
  map fst (slot_set l i (n, b)) = a_slot_set (map fst l) i n.
Proof.
  induction l as [|x l IH]; intros i n b; cbn [slot_set a_slot_set map]; [reflexivity|].
  destruct i; cbn [map fst]; [reflexivity|]. rewrite IH. reflexivity.
Qed.
Lemma slot_dec_map (l : list (N * bytes)) i : map fst (slot_dec l i) = a_slot_dec (map fst l) i.
Proof.
  unfold slot_dec, a_slot_dec. rewrite nth_error_map.
  destruct (nth_error l i) as [[n b]|]; cbn [option_map fst]; [apply slot_set_map|reflexivity].
Qed.
Lemma Forall2_rev {A B} (R : A -> B -> Prop) l l' : Forall2 R l l' -> Forall2 R (rev l) (rev l').
Proof.
  induction 1 as [|a b l l' Hab H IH]; cbn [rev]; [constructor|].
  apply Forall2_app; [exact IH|constructor; [exact Hab|constructor]].
Qed.
Lemma Forall2_map_r {A B C} (R : A -> C -> Prop) (g : B -> C) l l' :
  Forall2 (fun a b => R a (g b)) l l' -> Forall2 R l (map g l').
Proof. induction 1; cbn [map]; constructor; auto. Qed.

Lemma Forall2_impl' {A B} (R R' : A -> B -> Prop) l l' :
  (forall a b, R a b -> R' a b) -> Forall2 R l l' -> Forall2 R' l l'.
Proof. intros H. induction 1; constructor; auto. Qed.

Lemma Forall2_length' {A B} (R : A -> B -> Prop) l l' : Forall2 R l l' -> length l = length l'.
Proof. induction 1; cbn [length]; auto. Qed.

Lemma parse_message_err b er : parse_message b = Err er -> er = EShortBuffer.
Proof.
  unfold parse_message, get_u16, get_u32, get_u64, get_u, bind.
  repeat match goal with |- context[if ?c then _ else _] => destruct c end; intro H; inversion H; reflexivity.
Qed.

Section Refinement.
Variable dall : dalloracle.
Variable ro : ropts.
Variable sm : summ.
Variable f : fsrc.
Variable sel : amsg -> bool.
(* the chunk indexes of the summary, each with the abstract chunk it describes *)
Variable pairs : list (chunkindex * achunk).

Definition ci_match (ci : chunkindex) (c : achunk) : Prop :=
  In (ci, c) pairs /\ ci_start ci = ac_start c /\ ci_end ci = ac_end c /\ ci_offset ci = ac_off c.
Definition en_match (e : entry) (x : aentry) : Prop := en_ts e = ae_ts x /\ en_slot e = snd x.
Definition st_match (s : istate) (a : astate) : Prop :=
  Forall2 ci_match (i_cis s) (a_cks a) /\ Forall2 en_match (i_queue s) (a_queue a) /\
  map fst (i_slots s) = a_slots a.

(* the slot load_chunk_i decompresses into *)
Definition islot (s : istate) : nat :=
  match find_free (i_slots s) 0 with Some i => i | None => length (i_slots s) end.

(* The loader hypothesis (discharged per instance by the correspondence harness): loading the
   chunk behind a chunk index succeeds and finds exactly the selected messages of the abstract
   chunk, in file order. *)
Definition loader_ok : Prop :=
  forall ci c s, In (ci, c) pairs ->
  exists s' new,
    load_chunk_i dall ro sm f ci s = Ok s' /\
    Forall2 (fun e m => en_ts e = am_ts m /\ en_slot e = islot s) new (filter sel (ac_msgs c)) /\
    i_queue s' = merge_queue (ro_order ro) (i_queue s) new /\
    map fst (i_slots s') = a_slot_set (map fst (i_slots s)) (islot s) (N.of_nat (length new)).

Lemma islot_slot_of s : islot s = slot_of (map fst (i_slots s)).
Proof. unfold islot, slot_of. rewrite find_free_map, map_length. reflexivity. Qed.

Lemma en_match_key e x : en_match e x -> en_ts e = ae_ts x.
Proof. intros [H _]. exact H. Qed.

Lemma merge_match o q aq new anew :
  Forall2 en_match q aq -> Forall2 en_match new anew ->
  Forall2 en_match (merge_queue o q new) (a_merge o aq anew).
Proof.
  intros Hq Hn. destruct o; cbn [merge_queue a_merge].
  - apply Forall2_app; assumption.
  - rewrite en_sort_asc_sortd. apply (sortd_Forall2 en_ts ae_ts en_match true en_match_key).
    apply Forall2_app; assumption.
  - rewrite en_sort_desc_sortd. apply (sortd_Forall2 en_ts ae_ts en_match false en_match_key).
    apply Forall2_app; [assumption|apply Forall2_rev; assumption].
Qed.

Lemma load_match s a ci rest c arest : loader_ok -> st_match s a ->
  i_cis s = ci :: rest -> a_cks a = c :: arest ->
  exists s', load_chunk_i dall ro sm f ci s = Ok s' /\
             st_match (s' <| i_cis := rest |>) (a_load sel (ro_order ro) c arest a).
Proof.
  intros HL (Hc & Hq & Hs) Eci Ec. rewrite Eci, Ec in Hc.
  inversion Hc as [|? ? ? ? (Hin & _) Hrest]; subst.
  destruct (HL ci c s Hin) as (s' & new & Hload & Hnew & Hqueue & Hslots).
  exists s'. split; [exact Hload|].
  unfold st_match. cbn [a_load a_cks a_queue a_slots]. cbn.
  split; [exact Hrest|]. rewrite <- Hs, <- islot_slot_of. split.
  - rewrite Hqueue. apply merge_match; [exact Hq|].
    apply Forall2_map_r. eapply Forall2_impl'; [|exact Hnew].
    intros e m [H1 H2]. split; [exact H1|exact H2].
  - rewrite Hslots. f_equal. f_equal.
    apply Forall2_length' in Hnew. exact Hnew.
Qed.

Lemma yield_msg e s t s' : yield sm e s = (IMsg t, s') ->
  i_cis s' = i_cis s /\ i_queue s' = tl (i_queue s) /\ i_slots s' = slot_dec (i_slots s) (en_slot e).
Proof.
  unfold yield. destruct (nth_error (i_slots s) (en_slot e)) as [[n buf]|]; [|discriminate].
  destruct (parse_message _) as [m| | | |]; try discriminate.
  destruct (tab_get (m_chan m) (sm_channels sm)) as [c|]; [|discriminate].
  destruct (tab_get (c_schema c) (sm_schemas sm)) as [sc|].
  - intro H. inversion H; subst. cbn. auto.
  - destruct (c_schema c =? 0); [|discriminate]. intro H. inversion H; subst. cbn. auto.
Qed.
Lemma yield_not_eof e s : fst (yield sm e s) <> IEnd EEOF.
Proof.
  unfold yield. destruct (nth_error (i_slots s) (en_slot e)) as [[n buf]|]; [|discriminate].
  destruct (parse_message _) as [m|er| | |] eqn:P; cbn [fst]; try discriminate.
  - destruct (tab_get (m_chan m) (sm_channels sm)) as [c|]; [|discriminate].
    destruct (tab_get (c_schema c) (sm_schemas sm)) as [sc|]; [discriminate|].
    destruct (c_schema c =? 0); discriminate.
  - apply parse_message_err in P. subst. discriminate.
Qed.

Lemma yield_match e x s a q aq t s' :
  st_match s a -> i_queue s = e :: q -> a_queue a = x :: aq -> en_match e x ->
  yield sm e s = (IMsg t, s') -> st_match s' (a_yield x a).
Proof.
  intros (Hc & Hq & Hs) Eq Eaq [_ Hslot] Hy. apply yield_msg in Hy. destruct Hy as (Y1 & Y2 & Y3).
  unfold st_match. cbn [a_yield a_cks a_queue a_slots]. rewrite Y1, Y2, Y3, Eq, Eaq. cbn [tl].
  split; [exact Hc|]. split.
  - rewrite Eq, Eaq in Hq. inversion Hq; assumption.
  - rewrite slot_dec_map, Hs, Hslot. reflexivity.
Qed.

Lemma load_first_match o ci c e x : ci_match ci c -> en_match e x ->
  match o with
  | LogTimeOrder => ci_start ci <? en_ts e
  | ReverseLogTimeOrder => en_ts e <? ci_end ci
  | FileOrder => false
  end = a_load_first o c x.
Proof. intros (_ & H1 & H2 & _) [H3 _]. destruct o; cbn [a_load_first]; rewrite ?H1, ?H2, ?H3; reflexivity. Qed.

(* one call of NextInto *)
Theorem i_next_refines_thm : loader_ok -> forall fuel s a, st_match s a ->
  match i_next dall ro sm f fuel s with
  | OutOfFuel => a_next sel (ro_order ro) fuel a = None
  | Ok (r, s') =>
      exists ar a', a_next sel (ro_order ro) fuel a = Some (ar, a') /\
      match ar with
      | AEnd => r = IEnd EEOF /\ st_match s' a'
      | AMsg m => exists e s1 x, en_match e x /\ fst x = m /\ (r, s') = yield sm e s1 /\
                    r <> IEnd EEOF /\ (forall t, r = IMsg t -> st_match s' a')
      end
  | _ => False
  end.
Proof.
  intros HL. induction fuel as [|fu IH]; intros s a HM; [reflexivity|].
  cbn [i_next a_next]. unfold a_step.
  pose proof HM as (Hc & Hq & Hs).
  destruct (i_queue s) as [|e q] eqn:Eq; destruct (a_queue a) as [|x aq] eqn:Eaq; try solve [inversion Hq];
  destruct (i_cis s) as [|ci rest] eqn:Ec; destruct (a_cks a) as [|c arest] eqn:Eac; try solve [inversion Hc].
  - exists AEnd, a. split; [reflexivity|]. split; [reflexivity|exact HM].
  - destruct (load_match s a ci rest c arest HL HM Ec Eac) as (s' & Hload & HM').
    rewrite Hload. apply IH. exact HM'.
  - assert (Hex : en_match e x) by (inversion Hq; assumption).
    destruct (yield sm e s) as [r s'] eqn:Y.
    exists (AMsg (fst x)), (a_yield x a). split; [reflexivity|].
    exists e, s, x. split; [exact Hex|]. split; [reflexivity|].
    split; [symmetry; exact Y|].
    split; [pose proof (yield_not_eof e s) as Hn; rewrite Y in Hn; exact Hn|].
    intros t Ht. subst r. eapply yield_match; eauto.
  - assert (Hex : en_match e x) by (inversion Hq; assumption).
    assert (Hcc : ci_match ci c) by (inversion Hc; assumption).
    rewrite (load_first_match (ro_order ro) ci c e x Hcc Hex).
    destruct (a_load_first (ro_order ro) c x).
    + destruct (load_match s a ci rest c arest HL HM Ec Eac) as (s' & Hload & HM').
      rewrite Hload. apply IH. exact HM'.
    + destruct (yield sm e s) as [r s'] eqn:Y.
      exists (AMsg (fst x)), (a_yield x a). split; [reflexivity|].
      exists e, s, x. split; [exact Hex|]. split; [reflexivity|].
      split; [symmetry; exact Y|].
      split; [pose proof (yield_not_eof e s) as Hn; rewrite Y in Hn; exact Hn|].
      intros t Ht. subst r. eapply yield_match; eauto.
Qed.

End Refinement.

Section RefinementAll.
Variable dall : dalloracle.
Variable ro : ropts.
Variable sm : summ.
Variable f : fsrc.
Variable sel : amsg -> bool.
Variable pairs : list (chunkindex * achunk).

Lemma slot_stats_match s a : st_match pairs s a -> slot_stats s = a_slot_stats a.
Proof.
  intros (_ & _ & Hs). unfold slot_stats, a_slot_stats. rewrite <- Hs, map_length. f_equal.
  rewrite (filter_map_comm fst (fun x => negb (x =? 0))), map_length. reflexivity.
Qed.

(* a complete read that ends normally (io.EOF) returns as many messages as the abstract run,
   with the same slot statistics; a_run does not run out of fuel when indexed_all does not *)
Theorem indexed_all_refines_thm : loader_ok dall ro sm f sel pairs ->
  forall fuel n s a acc aacc st ms st',
  st_match pairs s a ->
  indexed_all dall fuel n ro sm f s acc st = Ok (ms, EEOF, st') ->
  exists out, a_run sel (ro_order ro) fuel n a aacc st = Some (aacc ++ out, st') /\
              length ms = (length acc + length out)%nat.
Proof.
  intros HL fuel. induction n as [|n IH]; intros s a acc aacc st ms st' HM H; [discriminate|].
  cbn [indexed_all a_run] in *.
  pose proof (i_next_refines_thm dall ro sm f sel pairs HL fuel s a HM) as R.
  destruct (i_next dall ro sm f fuel s) as [[r s1]| | | |]; try discriminate; try contradiction.
  destruct R as (ar & a' & Hn & R). rewrite Hn. destruct ar as [m|].
  - destruct R as (e & s0 & x & _ & _ & _ & Hne & Hst). destruct r as [t|er].
    + specialize (Hst t eq_refl). rewrite <- (slot_stats_match _ _ Hst).
      destruct (IH _ _ _ (aacc ++ [m]) _ _ _ Hst H) as (out & Hr & Hl).
      exists (m :: out). rewrite Hr, <- app_assoc. split; [reflexivity|].
      rewrite Hl, app_length. cbn [length]. lia.
    + inversion H; subst. contradiction.
  - destruct R as [-> Hst]. inversion H; subst. exists []. rewrite app_nil_r, (slot_stats_match _ _ Hst).
    split; [reflexivity|]. cbn [length]. lia.
Qed.

End RefinementAll.

(* ====================================================================================== *)
(* 8b. refinement, continued: the log times of the messages handed to the caller          *)
(* ====================================================================================== *)
(* load_chunk_i is opened here (no hypothesis): whatever it loads, each queue entry points at a
   message record of the slot's buffer whose log time is the entry's timestamp, so yield returns
   a message with that log time. *)

Lemma take_firstn n (b : bytes) : take n b = firstn (N.to_nat n) b.
Proof.
  unfold take, blen. destruct (N.le_gt_cases n (N.of_nat (length b))) as [H|H].
  - rewrite N.min_l by exact H. reflexivity.
  - rewrite N.min_r by lia. rewrite Nnat.Nat2N.id. rewrite !firstn_all2; [reflexivity|lia|lia].
Qed.
Lemma drop_skipn n (b : bytes) : drop n b = skipn (N.to_nat n) b.
Proof.
  unfold drop, blen. destruct (N.le_gt_cases n (N.of_nat (length b))) as [H|H].
  - rewrite N.min_l by exact H. reflexivity.
  - rewrite N.min_r by lia. rewrite Nnat.Nat2N.id. rewrite !skipn_all2; [reflexivity|lia|lia].
Qed.
Lemma skipn_1_skipn {A} n : forall l : list A, skipn 1 (skipn n l) = skipn (S n) l.
Proof.
  induction n as [|n IH]; intro l; [reflexivity|]. destruct l as [|x l]; [reflexivity|].
  cbn [skipn] in *. rewrite IH. reflexivity.
Qed.
Lemma head_len_eq off (buf : bytes) : skipn 1 (take 9 (drop off buf)) = take 8 (drop (off + 1) buf).
Proof.
  rewrite !take_firstn, !drop_skipn.
  change (N.to_nat 9) with (1 + 8)%nat. change (N.to_nat 8) with 8%nat.
  rewrite <- firstn_skipn_comm, skipn_1_skipn. f_equal. f_equal. lia.
Qed.

(* at offset off of buf there is a record whose body parses as a message with log time ts
   (the expression is the one Reader.yield evaluates) *)
Definition msg_at (buf : bytes) (off ts : N) : Prop :=
  exists m, parse_message (take (unle (take 8 (drop (off + 1) buf))) (drop (off + 9) buf)) = Ok m /\ m_log m = ts.

Lemma walk_entries ro sm fuel : forall buf off slot acc new, walk ro sm fuel buf off slot acc = Ok new ->
  exists added, new = acc ++ added /\ Forall (fun e => en_slot e = slot /\ msg_at buf (en_off e) (en_ts e)) added.
Proof.
  induction fuel as [|fu IH]; intros buf off slot acc new H; [discriminate|].
  cbn [walk] in H.
  destruct (blen buf <=? off). { inversion H; subst. exists []. rewrite app_nil_r. split; auto. }
  destruct (blen buf <? off + 9); [discriminate|].
  destruct (two64 <=? off + 9 + unle (skipn 1 (take 9 (drop off buf)))); [discriminate|].
  destruct (blen buf <? off + 9 + unle (skipn 1 (take 9 (drop off buf)))); [discriminate|].
  destruct (Byte.eqb _ OpMessage).
  - unfold bind in H. destruct (parse_message _) as [m| | | |] eqn:P; try discriminate.
    destruct (match tab_get (m_chan m) (sm_channels sm) with Some _ => in_window ro (m_log m) | None => false end).
    + apply IH in H. destruct H as (added & -> & Hall).
      exists ({| en_ts := m_log m; en_off := off; en_slot := slot |} :: added).
      rewrite <- app_assoc. split; [reflexivity|]. constructor; [|exact Hall].
      cbn [en_slot en_off en_ts]. split; [reflexivity|]. exists m. split; [|reflexivity].
      rewrite <- head_len_eq. exact P.
    + apply IH in H. exact H.
  - apply IH in H. exact H.
Qed.

Lemma load_chunk_i_shape dall ro sm f ci s s' : load_chunk_i dall ro sm f ci s = Ok s' ->
  exists plain new, walk ro sm (S (length plain)) plain 0 (islot s) [] = Ok new /\
    i_slots s' = slot_set (i_slots s) (islot s) (N.of_nat (length new), plain) /\
    i_queue s' = merge_queue (ro_order ro) (i_queue s) new.
Proof.
  unfold load_chunk_i, bind.
  destruct (seek_ok _ _); try discriminate.
  destruct (ci_length ci <? 9); try discriminate.
  destruct (fs_size f - ci_offset ci <? ci_length ci); try discriminate.
  destruct (rd_full _ _) as [[rec e] r']. destruct e; try discriminate.
  destruct (parse_chunk _) as [k| | | |]; try discriminate.
  match goal with |- context[match ?x with Ok _ => _ | Err e => Err e | Panic p => _ | Exit q => _ | OutOfFuel => _ end] =>
    destruct x as [plain| | | |] eqn:PL end; try discriminate.
  set (s0 := if i_reccap s <? ci_length ci then _ else s).
  assert (E1 : i_slots s0 = i_slots s) by (unfold s0; destruct (i_reccap s <? ci_length ci); reflexivity).
  assert (E2 : i_queue s0 = i_queue s) by (unfold s0; destruct (i_reccap s <? ci_length ci); reflexivity).
  clearbody s0. rewrite !E1.
  destruct (walk _ _ _ _ _ _ _) as [new| | | |] eqn:W; try discriminate.
  intro H. inversion H; subst. exists plain, new. cbn. rewrite E1, E2. auto.
Qed.

(* the decompression step of load_chunk_i *)
Definition chunk_plain (dall : dalloracle) (k : chunk) : outcome bytes :=
  if max_int32 <=? k_usize k then Err ELengthOutOfRange else
  if bytes_eqb (k_comp k) [] then
    (if blen (k_records k) =? k_usize k then Ok (k_records k) else Err EOther)
  else if bytes_eqb (k_comp k) [x7a; x73; x74; x64] || bytes_eqb (k_comp k) [x6c; x7a; x34] then
    match dall (k_comp k) (k_records k) (k_usize k) with
    | Some p => if blen p =? k_usize k then Ok p else Err EOther
    | None => Err EOther
    end
  else Err EOther.

(* converse of load_chunk_i_shape: how the loader hypothesis is discharged for a concrete file.
   Every premise except the last is a closed computation; the last one is closed up to the slot
   number, which walk only copies into the entries. *)
Lemma load_chunk_i_ok dall ro sm f ci s rec r' k plain new :
  seek_ok (fs_size f) (ci_offset ci) = Ok tt ->
  (ci_length ci <? 9) = false ->
  (fs_size f - ci_offset ci <? ci_length ci) = false ->
  rd_full (ci_length ci) (fs_stream f (ci_offset ci) true) = (rec, None, r') ->
  parse_chunk (skipn 9 rec) = Ok k ->
  chunk_plain dall k = Ok plain ->
  walk ro sm (S (length plain)) plain 0 (islot s) [] = Ok new ->
  exists s', load_chunk_i dall ro sm f ci s = Ok s' /\
    i_slots s' = slot_set (i_slots s) (islot s) (N.of_nat (length new), plain) /\
    i_queue s' = merge_queue (ro_order ro) (i_queue s) new.
Proof.
  intros H1 H2 H3 H4 H5 H6 H7. unfold load_chunk_i, bind. rewrite H1, H2, H3, H4, H5.
  unfold chunk_plain in H6. rewrite H6.
  set (s0 := if i_reccap s <? ci_length ci then _ else s).
  assert (E1 : i_slots s0 = i_slots s) by (unfold s0; destruct (i_reccap s <? ci_length ci); reflexivity).
  assert (E2 : i_queue s0 = i_queue s) by (unfold s0; destruct (i_reccap s <? ci_length ci); reflexivity).
  clearbody s0. rewrite !E1. fold (islot s). rewrite H7.
  eexists. split; [reflexivity|]. cbn. rewrite E1, E2. auto.
Qed.

Lemma nth_error_slot_set : forall (l : list (N * bytes)) i v k, (i <= length l)%nat ->
  nth_error (slot_set l i v) k = if (k =? i)%nat then Some v else nth_error l k.
Proof.
  induction l as [|x l IH]; intros i v k H; cbn [length] in H.
  - assert (i = O) by lia. subst. cbn [slot_set]. destruct k as [|[|k]]; reflexivity.
  - destruct i as [|i]; cbn [slot_set].
    + destruct k; reflexivity.
    + destruct k as [|k]; [reflexivity|]. cbn [nth_error]. rewrite IH by lia. reflexivity.
Qed.
Lemma slot_dec_buf (l : list (N * bytes)) i k n b : nth_error l k = Some (n, b) ->
  exists n', nth_error (slot_dec l i) k = Some (n', b).
Proof.
  intro H. unfold slot_dec. destruct (nth_error l i) as [[ni bi]|] eqn:E; [|eauto].
  assert (i < length l)%nat by (apply nth_error_Some; rewrite E; discriminate).
  rewrite nth_error_slot_set by lia. destruct (Nat.eqb_spec k i) as [->|Hk]; [|eauto].
  rewrite E in H. inversion H; subst. eauto.
Qed.
Lemma merge_queue_perm o q new : Permutation (merge_queue o q new) (q ++ new).
Proof.
  destruct o; cbn [merge_queue].
  - reflexivity.
  - rewrite en_sort_asc_sortd. apply sortd_perm.
  - rewrite en_sort_desc_sortd, sortd_perm. apply Permutation_app_head. symmetry. apply Permutation_rev.
Qed.
Lemma Forall2_in_l {A B} (R : A -> B -> Prop) l l' a : Forall2 R l l' -> In a l -> exists b, In b l' /\ R a b.
Proof.
  induction 1 as [|x y l l' Hxy H IH]; intros Hin; [contradiction|].
  destruct Hin as [->|Hin]; [exists y; split; [left; reflexivity|exact Hxy]|].
  destruct (IH Hin) as (b & Hb & Hab). exists b. split; [right; exact Hb|exact Hab].
Qed.

(* the chunk lists: sorting commutes with the correspondence of chunk indexes and abstract chunks *)
Lemma gins_Forall2 {A B} (bf : A -> A -> bool) (bf' : B -> B -> bool) (R : A -> B -> Prop) :
  (forall x x' y y', R x x' -> R y y' -> bf x y = bf' x' y') ->
  forall x x' l l', R x x' -> Forall2 R l l' -> Forall2 R (gins bf x l) (gins bf' x' l').
Proof.
  intros HR x x' l l' Hx H. induction H as [|y y' l l' Hy H IH]; cbn [gins].
  - constructor; [exact Hx|constructor].
  - rewrite (HR _ _ _ _ Hx Hy). destruct (bf' x' y'); constructor; auto.
Qed.
Lemma gsort_Forall2 {A B} (bf : A -> A -> bool) (bf' : B -> B -> bool) (R : A -> B -> Prop) :
  (forall x x' y y', R x x' -> R y y' -> bf x y = bf' x' y') ->
  forall l l', Forall2 R l l' -> Forall2 R (gsort bf l) (gsort bf' l').
Proof.
  intros HR l l' H. induction H as [|x x' l l' Hx H IH]; cbn [gsort fold_right]; [constructor|].
  apply gins_Forall2; assumption.
Qed.

Section RefinementLogTimes.
Variable dall : dalloracle.
Variable ro : ropts.
Variable sm : summ.
Variable f : fsrc.
Variable sel : amsg -> bool.
Variable pairs : list (chunkindex * achunk).

Lemma ci_sort_match o cis cks : Forall2 (ci_match pairs) cis cks ->
  Forall2 (ci_match pairs) (ci_sort o cis) (ac_sort o cks).
Proof.
  intro H. rewrite ci_sort_gsort. unfold ac_sort. apply gsort_Forall2; [|exact H].
  intros x x' y y' (_ & X1 & X2 & X3) (_ & Y1 & Y2 & Y3).
  destruct o; unfold ci_before, ac_before; rewrite ?X1, ?X2, ?X3, ?Y1, ?Y2, ?Y3; reflexivity.
Qed.

Definition q_ok (s : istate) : Prop :=
  Forall (fun e => exists n buf, nth_error (i_slots s) (en_slot e) = Some (n, buf) /\
                                 msg_at buf (en_off e) (en_ts e)) (i_queue s).
Definition rinv (s : istate) (a : astate) : Prop := st_match pairs s a /\ counts_ok a /\ q_ok s.

Lemma islot_le s : (islot s <= length (i_slots s))%nat.
Proof. rewrite islot_slot_of. rewrite <- (map_length fst (i_slots s)). apply slot_of_le. Qed.

Lemma q_ok_load s a ci s' rest : rinv s a -> load_chunk_i dall ro sm f ci s = Ok s' ->
  q_ok (s' <| i_cis := rest |>).
Proof.
  intros ((_ & Hq & Hs) & K1 & HQ) Hload.
  apply load_chunk_i_shape in Hload. destruct Hload as (plain & new & W & Esl & Eq).
  apply walk_entries in W. destruct W as (added & Hadd & Hall). cbn [app] in Hadd. subst added.
  unfold q_ok. cbn. rewrite Eq, Esl.
  eapply Permutation_Forall; [symmetry; apply merge_queue_perm|].
  apply Forall_app. split.
  - unfold q_ok in HQ. rewrite Forall_forall in HQ |- *. intros e He.
    destruct (HQ e He) as (n & buf & Hn & Hm). exists n, buf. split; [|exact Hm].
    rewrite nth_error_slot_set by apply islot_le.
    destruct (Nat.eqb_spec (en_slot e) (islot s)) as [E|_]; [exfalso|exact Hn].
    destruct (Forall2_in_l _ _ _ _ Hq He) as (x & Hx & (_ & Hslot)).
    assert (Hj0 : cnt (slot_of (a_slots a)) (a_queue a) = O).
    { pose proof (K1 (slot_of (a_slots a))) as H. rewrite slot_of_nth in H. lia. }
    rewrite islot_slot_of, Hs in E. destruct x as [m k]. cbn [snd] in Hslot.
    rewrite <- E, Hslot in Hj0. apply cnt_in_pos in Hx. lia.
  - eapply Forall_impl; [|exact Hall]. intros e [Hsl Hm].
    exists (N.of_nat (length new)), plain. split; [|exact Hm].
    rewrite nth_error_slot_set by apply islot_le. rewrite Hsl, Nat.eqb_refl. reflexivity.
Qed.

Lemma q_ok_yield s e q t s' : q_ok s -> i_queue s = e :: q -> yield sm e s = (IMsg t, s') -> q_ok s'.
Proof.
  intros HQ Eq Hy. apply yield_msg in Hy. destruct Hy as (_ & Y2 & Y3).
  unfold q_ok in *. rewrite Y2, Y3, Eq in *. cbn [tl]. inversion HQ as [|? ? _ HQ']; subst.
  eapply Forall_impl; [|exact HQ']. intros e' (n & buf & Hn & Hm).
  destruct (slot_dec_buf _ (en_slot e) _ _ _ Hn) as (n' & Hn'). exists n', buf. auto.
Qed.

Lemma yield_ts s e q t s' : q_ok s -> i_queue s = e :: q -> yield sm e s = (IMsg t, s') ->
  m_log (snd t) = en_ts e.
Proof.
  intros HQ Eq. unfold q_ok in HQ. rewrite Eq in HQ. inversion HQ as [|? ? (n & buf & Hn & (m & P & L)) _]; subst.
  unfold yield. rewrite Hn, P.
  destruct (tab_get (m_chan m) (sm_channels sm)) as [c|]; [|discriminate].
  destruct (tab_get (c_schema c) (sm_schemas sm)) as [sc|].
  - intro H. inversion H; subst. exact L.
  - destruct (c_schema c =? 0); [|discriminate]. intro H. inversion H; subst. exact L.
Qed.

Theorem i_next_refines_ts_thm : loader_ok dall ro sm f sel pairs -> forall fuel s a, rinv s a ->
  match i_next dall ro sm f fuel s with
  | OutOfFuel => a_next sel (ro_order ro) fuel a = None
  | Ok (r, s') =>
      exists ar a', a_next sel (ro_order ro) fuel a = Some (ar, a') /\
      match ar with
      | AEnd => r = IEnd EEOF /\ rinv s' a'
      | AMsg m => r <> IEnd EEOF /\ (forall t, r = IMsg t -> rinv s' a' /\ m_log (snd t) = am_ts m)
      end
  | _ => False
  end.
Proof.
  intros HL. induction fuel as [|fu IH]; intros s a HR; [reflexivity|].
  cbn [i_next a_next]. unfold a_step.
  pose proof HR as (HM & K1 & HQ). pose proof HM as (Hc & Hq & Hs).
  assert (Hyield : forall e x q aq, i_queue s = e :: q -> a_queue a = x :: aq -> en_match e x ->
            forall r s', yield sm e s = (r, s') ->
            r <> IEnd EEOF /\ (forall t, r = IMsg t -> rinv s' (a_yield x a) /\ m_log (snd t) = am_ts (fst x))).
  { intros e x q aq Eq Eaq Hex r s' Y. split.
    - pose proof (yield_not_eof sm e s) as Hn. rewrite Y in Hn. exact Hn.
    - intros t ->. split.
      + split; [eapply yield_match; eauto|]. split; [eapply counts_yield; eauto|eapply q_ok_yield; eauto].
      + rewrite (yield_ts _ _ _ _ _ HQ Eq Y). apply Hex. }
  assert (Hload : forall ci rest c arest, i_cis s = ci :: rest -> a_cks a = c :: arest ->
            exists s', load_chunk_i dall ro sm f ci s = Ok s' /\
                       rinv (s' <| i_cis := rest |>) (a_load sel (ro_order ro) c arest a)).
  { intros ci rest c arest Ec Eac.
    destruct (load_match dall ro sm f sel pairs s a ci rest c arest HL HM Ec Eac) as (s' & Hl & HM').
    exists s'. split; [exact Hl|]. split; [exact HM'|]. split; [apply counts_load, K1|].
    eapply q_ok_load; eauto. }
  destruct (i_queue s) as [|e q] eqn:Eq; destruct (a_queue a) as [|x aq] eqn:Eaq; try solve [inversion Hq];
  destruct (i_cis s) as [|ci rest] eqn:Ec; destruct (a_cks a) as [|c arest] eqn:Eac; try solve [inversion Hc].
  - exists AEnd, a. split; [reflexivity|]. split; [reflexivity|exact HR].
  - destruct (Hload ci rest c arest eq_refl eq_refl) as (s' & Hl & HR'). rewrite Hl. apply IH. exact HR'.
  - assert (Hex : en_match e x) by (inversion Hq; assumption).
    destruct (yield sm e s) as [r s'] eqn:Y.
    exists (AMsg (fst x)), (a_yield x a). split; [reflexivity|].
    eapply Hyield; eauto.
  - assert (Hex : en_match e x) by (inversion Hq; assumption).
    assert (Hcc : ci_match pairs ci c) by (inversion Hc; assumption).
    rewrite (load_first_match pairs (ro_order ro) ci c e x Hcc Hex).
    destruct (a_load_first (ro_order ro) c x).
    + destruct (Hload ci rest c arest eq_refl eq_refl) as (s' & Hl & HR'). rewrite Hl. apply IH. exact HR'.
    + destruct (yield sm e s) as [r s'] eqn:Y.
      exists (AMsg (fst x)), (a_yield x a). split; [reflexivity|].
      eapply Hyield; eauto.
Qed.

Definition log_of (t : triple) : N := m_log (snd t).

Theorem indexed_all_refines_ts_thm : loader_ok dall ro sm f sel pairs ->
  forall fuel n s a acc aacc st ms st',
  rinv s a ->
  indexed_all dall fuel n ro sm f s acc st = Ok (ms, EEOF, st') ->
  exists out, a_run sel (ro_order ro) fuel n a aacc st = Some (aacc ++ out, st') /\
              map log_of ms = map log_of acc ++ map am_ts out.
Proof.
  intros HL fuel. induction n as [|n IH]; intros s a acc aacc st ms st' HR H; [discriminate|].
  cbn [indexed_all a_run] in *.
  pose proof (i_next_refines_ts_thm HL fuel s a HR) as R.
  destruct (i_next dall ro sm f fuel s) as [[r s1]| | | |]; try discriminate; try contradiction.
  destruct R as (ar & a' & Hn & R). rewrite Hn. destruct ar as [m|].
  - destruct R as (Hne & Hst). destruct r as [t|er].
    + destruct (Hst t eq_refl) as [HR' Hts]. pose proof HR' as (HM' & _).
      rewrite <- (slot_stats_match _ _ _ HM').
      destruct (IH _ _ _ (aacc ++ [m]) _ _ _ HR' H) as (out & Hr & Hl).
      exists (m :: out). rewrite Hr, <- app_assoc. split; [reflexivity|].
      change (m_log (snd t)) with (log_of t) in Hts.
      rewrite Hl, map_app, <- app_assoc. cbn [map app]. rewrite Hts. reflexivity.
    + inversion H; subst. contradiction.
  - destruct R as [-> HR']. pose proof HR' as (HM' & _). inversion H; subst.
    exists []. rewrite !app_nil_r, (slot_stats_match _ _ _ HM'). split; reflexivity.
Qed.

(* the complete indexed read, started as Reader.read_messages starts it: the chunk indexes of the
   summary (in summary order cis, describing the abstract chunks cks) sorted by ci_sort *)
Theorem indexed_read_refines_thm : loader_ok dall ro sm f sel pairs ->
  forall fuel n cis cks ms st,
  Forall2 (ci_match pairs) cis cks ->
  indexed_all dall fuel n ro sm f
    {| i_cis := ci_sort (ro_order ro) cis; i_queue := []; i_slots := []; i_reccap := 0; i_allocs := [] |}
    [] (O, O) = Ok (ms, EEOF, st) ->
  exists out, a_read sel (ro_order ro) fuel n cks = Some (out, st) /\ map log_of ms = map am_ts out.
Proof.
  intros HL fuel n cis cks ms st Hm H.
  eapply (indexed_all_refines_ts_thm HL fuel n _ (a_init (ac_sort (ro_order ro) cks)) [] []) in H.
  - destruct H as (out & Hr & Hl). exists out. split; [exact Hr|exact Hl].
  - split; [|split].
    + split; [apply ci_sort_match, Hm|]. split; [constructor|reflexivity].
    + intro i. destruct i; reflexivity.
    + constructor.
Qed.

End RefinementLogTimes.

(* ====================================================================================== *)
(* 9. examples (non-vacuity)                                                              *)
(* ====================================================================================== *)

(* boolean checkers for the hypotheses *)
Definition chunk_wfb (c : achunk) : bool :=
  forallb (fun m => (ac_start c <=? am_ts m) && (am_ts m <=? ac_end c)) (ac_msgs c).
Lemma chunks_wfb_ok cks : forallb chunk_wfb cks = true -> chunks_wf cks.
Proof.
  intro H. rewrite forallb_forall in H. apply Forall_forall. intros c Hc. specialize (H c Hc).
  unfold chunk_wfb in H. rewrite forallb_forall in H. apply Forall_forall. intros m Hm.
  specialize (H m Hm). lia.
Qed.
Lemma ranges_okb_ok cks : forallb (fun c => ac_start c <=? ac_end c) cks = true -> ranges_ok cks.
Proof.
  intro H. rewrite forallb_forall in H. apply Forall_forall. intros c Hc. specialize (H c Hc). lia.
Qed.
Fixpoint nodupNb (l : list N) : bool :=
  match l with [] => true | x :: r => negb (existsb (N.eqb x) r) && nodupNb r end.
Lemma nodupNb_ok l : nodupNb l = true -> NoDup l.
Proof.
  induction l as [|x r IH]; cbn [nodupNb]; intro H; constructor.
  - apply andb_prop in H. destruct H as [H _]. intro Hin.
    assert (existsb (N.eqb x) r = true) as E by (apply existsb_exists; exists x; split; [exact Hin|apply N.eqb_refl]).
    rewrite E in H. discriminate.
  - apply IH. apply andb_prop in H. apply H.
Qed.

Definition mk_msg (t c : N) (u : nat) : amsg := {| am_ts := t; am_chan := c; am_uid := u |}.

(* three chunks whose ranges overlap pairwise-in-a-chain, listed in the summary in an order that
   is neither file nor time order; the file holds them as B, C, A, i.e. time runs backwards;
   messages inside B are out of order; log times 15, 20, 25 occur several times *)
Definition exA : achunk := {| ac_start := 10; ac_end := 20; ac_off := 300;
  ac_msgs := [mk_msg 10 1 0; mk_msg 20 1 1; mk_msg 15 2 2; mk_msg 20 2 3] |}.
Definition exB : achunk := {| ac_start := 15; ac_end := 30; ac_off := 100;
  ac_msgs := [mk_msg 20 1 4; mk_msg 15 1 5; mk_msg 30 2 6; mk_msg 20 1 7] |}.
Definition exC : achunk := {| ac_start := 25; ac_end := 40; ac_off := 200;
  ac_msgs := [mk_msg 25 1 8; mk_msg 40 1 9; mk_msg 25 2 10] |}.
Definition ex_cks : list achunk := [exB; exC; exA].
Definition sel_all (m : amsg) : bool := true.
Definition sel_chan1 (m : amsg) : bool := am_chan m =? 1.
Definition uids (r : option (list amsg * (nat * nat))) : option (list nat * (nat * nat)) :=
  match r with Some (l, st) => Some (map am_uid l, st) | None => None end.

Example ex_cks_wf : chunks_wf ex_cks.
Proof. apply chunks_wfb_ok. vm_compute. reflexivity. Qed.
Example ex_cks_ranges : ranges_ok ex_cks.
Proof. apply ranges_okb_ok. vm_compute. reflexivity. Qed.
Example ex_cks_offsets : NoDup (map ac_off ex_cks).
Proof. apply nodupNb_ok. vm_compute. reflexivity. Qed.
Example ex_cks_uids : NoDup (map am_uid (all_msgs ex_cks)).
Proof. vm_compute. repeat constructor; cbn; intuition discriminate. Qed.
Example ex_fuel : (length ex_cks + 1 <= 4)%nat /\ (length (filter sel_all (all_msgs ex_cks)) + 1 <= 12)%nat.
Proof. vm_compute. split; repeat constructor. Qed.

Example ex_logtime :
  uids (a_read sel_all LogTimeOrder 4 12 ex_cks) = Some ([0; 2; 5; 1; 3; 4; 7; 8; 10; 6; 9]%nat, (2, 2)%nat).
Proof. vm_compute. reflexivity. Qed.
Example ex_reverse :
  uids (a_read sel_all ReverseLogTimeOrder 4 12 ex_cks) = Some ([9; 6; 10; 8; 7; 4; 3; 1; 5; 2; 0]%nat, (2, 2)%nat).
Proof. vm_compute. reflexivity. Qed.
Example ex_file :
  uids (a_read sel_all FileOrder 4 12 ex_cks) = Some ([4; 5; 6; 7; 8; 9; 10; 0; 1; 2; 3]%nat, (1, 1)%nat).
Proof. vm_compute. reflexivity. Qed.
Example ex_logtime_chan1 :
  uids (a_read sel_chan1 LogTimeOrder 4 12 ex_cks) = Some ([0; 5; 1; 4; 7; 8; 9]%nat, (2, 2)%nat).
Proof. vm_compute. reflexivity. Qed.
Example ex_max_overlap : max_overlap ex_cks = 2%nat.
Proof. vm_compute. reflexivity. Qed.
(* the summary order does not matter *)
Example ex_summary_order :
  Permutation ex_cks [exA; exB; exC] /\
  a_read sel_all LogTimeOrder 4 12 [exA; exB; exC] = a_read sel_all LogTimeOrder 4 12 ex_cks.
Proof.
  split; [|vm_compute; reflexivity].
  unfold ex_cks. apply Permutation_sym. apply (Permutation_cons_app [exB; exC] [] exA). reflexivity.
Qed.
(* a same-chunk tie: messages 1 and 3 of chunk A both have log time 20 *)
Example ex_tie : before (mk_msg 20 1 1) (mk_msg 20 2 3) (ac_msgs exA) /\ In exA ex_cks.
Proof. split; [apply bf_later, bf_here; right; left; reflexivity|right; right; left; reflexivity]. Qed.

(* three nested chunks: three slots are needed and used *)
Definition ex_nest : list achunk :=
  [ {| ac_start := 0; ac_end := 100; ac_off := 1; ac_msgs := [mk_msg 0 1 0; mk_msg 50 1 1; mk_msg 100 1 2] |};
    {| ac_start := 10; ac_end := 90; ac_off := 2; ac_msgs := [mk_msg 10 1 3; mk_msg 50 1 4; mk_msg 90 1 5] |};
    {| ac_start := 20; ac_end := 80; ac_off := 3; ac_msgs := [mk_msg 50 1 6; mk_msg 20 1 7; mk_msg 80 1 8] |} ].
Example ex_nest_run :
  uids (a_read sel_all LogTimeOrder 4 10 ex_nest) = Some ([0; 3; 7; 1; 4; 6; 8; 5; 2]%nat, (3, 3)%nat) /\
  uids (a_read sel_all ReverseLogTimeOrder 4 10 ex_nest) = Some ([2; 5; 8; 1; 4; 6; 7; 3; 0]%nat, (3, 3)%nat) /\
  max_overlap ex_nest = 3%nat.
Proof. vm_compute. repeat split. Qed.

(* C20 needs ranges_ok: a message-less chunk whose index says start > end takes a second slot
   although no two ranges share a point *)
Definition ex_bad_range : list achunk :=
  [ {| ac_start := 0; ac_end := 10; ac_off := 1; ac_msgs := [mk_msg 5 1 0; mk_msg 10 1 1] |};
    {| ac_start := 3; ac_end := 1; ac_off := 2; ac_msgs := [] |} ].
Example ex_bad_range_refutes :
  chunks_wf ex_bad_range /\ NoDup (map ac_off ex_bad_range) /\
  uids (a_read sel_all LogTimeOrder 3 3 ex_bad_range) = Some ([0; 1]%nat, (2, 1)%nat) /\
  Nat.max 1 (max_overlap ex_bad_range) = 1%nat.
Proof.
  split; [apply chunks_wfb_ok; vm_compute; reflexivity|].
  split; [apply nodupNb_ok; vm_compute; reflexivity|]. vm_compute. split; reflexivity.
Qed.

(* options *)
Example ex_spellings : (5 <= 9) /\ (0 < 9).
Proof. lia. Qed.
Example ex_window_errors : 9 < 12 /\ 0 < 9.
Proof. lia. Qed.

(* pruning: window [50, 60) drops a chunk with range [10, 20]; a chunk whose message index names
   only channel 7 is dropped when channel 7 is not selected *)
Definition ex_ro : ropts :=
  {| ro_start := 0; ro_end := 0; ro_topics := []; ro_use_index := true; ro_order := LogTimeOrder;
     ro_md_cb := false; ro_start_n := 50; ro_end_n := 60; ro_unbounded := false |}.
Definition ex_ci : chunkindex :=
  {| ci_start := 10; ci_end := 20; ci_offset := 300; ci_length := 100; ci_mioffsets := [(1, 400); (2, 450)];
     ci_milength := 80; ci_comp := []; ci_csize := 60; ci_usize := 60 |}.
Example ex_pruning_time :
  ci_start ex_ci = ac_start exA /\ ci_end ex_ci = ac_end exA /\ chunk_wf exA /\ ci_time_ok ex_ro false ex_ci = false.
Proof.
  split; [reflexivity|]. split; [reflexivity|]. split; [|reflexivity].
  pose proof ex_cks_wf as H. inversion H as [|? ? _ H1]; subst. inversion H1 as [|? ? _ H2]; subst.
  inversion H2; assumption.
Qed.
Definition ex_channels : list (N * channel) :=
  [(7, {| c_id := 7; c_schema := 0; c_topic := []; c_menc := []; c_meta := [] |})].
Example ex_pruning_topic :
  (forall m, In m (ac_msgs exA) -> exists kv, In kv (ci_mioffsets ex_ci) /\ fst kv = am_chan m) /\
  ci_topic_ok ex_channels ex_ci = false.
Proof.
  split; [|reflexivity]. intros m [<-|[<-|[<-|[<-|[]]]]]; cbn.
  - exists (1, 400). auto.
  - exists (1, 400). auto.
  - exists (2, 450). auto.
  - exists (2, 450). auto.
Qed.

(* ---- a byte-level instance of the refinement hypotheses ---- *)
(* one uncompressed chunk at offset 8 holding three messages (log times 20, 25, 15; the second is
   on channel 2, which is not selected) *)
Definition xm1 : message := {| m_chan := 1; m_seq := 0; m_log := 20; m_pub := 20; m_data := [x61] |}.
Definition xm2 : message := {| m_chan := 2; m_seq := 0; m_log := 25; m_pub := 25; m_data := [] |}.
Definition xm3 : message := {| m_chan := 1; m_seq := 1; m_log := 15; m_pub := 15; m_data := [x62; x63] |}.
Definition x_records : bytes :=
  frame OpMessage (enc_message xm1) ++ frame OpMessage (enc_message xm2) ++ frame OpMessage (enc_message xm3).
Definition x_chunk : chunk :=
  {| k_start := 15; k_end := 25; k_usize := blen x_records; k_crc := 0; k_comp := []; k_records := x_records |}.
Definition x_chunk_rec : bytes := frame OpChunk (enc_chunk x_chunk).
Definition x_file : fsrc := {| fs_data := magic ++ x_chunk_rec ++ magic; fs_fail := None |}.
Definition x_ci : chunkindex :=
  {| ci_start := 15; ci_end := 25; ci_offset := 8; ci_length := 145; ci_mioffsets := [];
     ci_milength := 0; ci_comp := []; ci_csize := 96; ci_usize := 96 |}.
Definition x_ac : achunk :=
  {| ac_start := 15; ac_end := 25; ac_off := 8; ac_msgs := [mk_msg 20 1 0; mk_msg 25 2 1; mk_msg 15 1 2] |}.
Definition x_sm : summ :=
  {| sm_schemas := [];
     sm_channels := [(1, {| c_id := 1; c_schema := 0; c_topic := [x74]; c_menc := []; c_meta := [] |})];
     sm_stats := None; sm_cis := [x_ci]; sm_ais := []; sm_mxs := []; sm_footer := None |}.
Definition x_ro : ropts :=
  {| ro_start := 0; ro_end := 0; ro_topics := []; ro_use_index := true; ro_order := LogTimeOrder;
     ro_md_cb := false; ro_start_n := 0; ro_end_n := max_u64; ro_unbounded := true |}.
Definition x_dall : dalloracle := fun _ _ _ => None.
Definition x_sel : amsg -> bool := tw_sel (sm_channels x_sm) x_ro.
Definition x_pairs : list (chunkindex * achunk) := [(x_ci, x_ac)].
Definition x_s0 : istate :=
  {| i_cis := ci_sort (ro_order x_ro) [x_ci]; i_queue := []; i_slots := []; i_reccap := 0; i_allocs := [] |}.

Example x_loader_ok : loader_ok x_dall x_ro x_sm x_file x_sel x_pairs.
Proof.
  intros ci c s [E|[]]. inversion E; subst ci c. clear E.
  destruct (load_chunk_i_ok x_dall x_ro x_sm x_file x_ci s
              (take 145 (drop 8 (fs_data x_file)))
              {| r_buf := drop 145 (drop 8 (fs_data x_file)); r_end := None; r_seek := true |}
              x_chunk x_records
              [ {| en_ts := 20; en_off := 0; en_slot := islot s |};
                {| en_ts := 15; en_off := 63; en_slot := islot s |} ]) as (s' & Hl & Hs & Hq);
    try (vm_compute; reflexivity).
  exists s', [ {| en_ts := 20; en_off := 0; en_slot := islot s |}; {| en_ts := 15; en_off := 63; en_slot := islot s |} ].
  split; [exact Hl|]. split.
  - vm_compute. repeat constructor.
  - split; [exact Hq|]. rewrite Hs, slot_set_map. reflexivity.
Qed.
Example x_matches : Forall2 (ci_match x_pairs) [x_ci] [x_ac] /\ st_match x_pairs x_s0 (a_init (ac_sort LogTimeOrder [x_ac])).
Proof.
  assert (M : ci_match x_pairs x_ci x_ac) by (split; [left; reflexivity|repeat split]).
  split; [constructor; [exact M|constructor]|].
  split; [cbn; constructor; [exact M|constructor]|]. split; [constructor|reflexivity].
Qed.
(* the byte-level read of the file ends with io.EOF after two messages with log times 15, 20;
   one slot *)
Example x_indexed_all :
  match indexed_all x_dall 4 4 x_ro x_sm x_file x_s0 [] (O, O) with
  | Ok (ms, e, st) => Some (map log_of ms, e, st)
  | _ => None
  end = Some ([15; 20], EEOF, (1, 1)%nat) /\
  uids (a_read x_sel LogTimeOrder 4 4 [x_ac]) = Some ([2; 0]%nat, (1, 1)%nat).
Proof. vm_compute. split; reflexivity. Qed.

(* packaged statements used by the property files *)
Theorem C03_load_order_logtime_thm : forall l,
  Permutation (ac_sort LogTimeOrder l) l /\
  StronglySorted (fun a b => ac_start a <= ac_start b) (ac_sort LogTimeOrder l).
Proof. intro l. exact (conj (ac_sort_perm LogTimeOrder l) (ac_sort_logtime_sorted l)). Qed.
Theorem C03_load_order_reverse_thm : forall l,
  Permutation (ac_sort ReverseLogTimeOrder l) l /\
  StronglySorted (fun a b => ac_end b <= ac_end a) (ac_sort ReverseLogTimeOrder l).
Proof. intro l. exact (conj (ac_sort_perm ReverseLogTimeOrder l) (ac_sort_reverse_sorted l)). Qed.
Theorem C03_load_order_file_thm : forall l,
  Permutation (ac_sort FileOrder l) l /\
  StronglySorted (fun a b => ac_off a <= ac_off b) (ac_sort FileOrder l).
Proof. intro l. exact (conj (ac_sort_perm FileOrder l) (ac_sort_file_sorted l)). Qed.
Theorem C03_before_meaning_thm : forall (A : Type) (a b : A) l,
  (before a b l <-> exists l1 l2 l3, l = l1 ++ a :: l2 ++ b :: l3) /\
  (NoDup l -> before a b l -> before b a l -> False).
Proof. intros A a b l. exact (conj (before_split a b l) (before_asym_nodup a b l)). Qed.
Theorem C20_max_overlap_meaning_thm : forall cks,
  (forall p, (overlap_at cks p <= max_overlap cks)%nat) /\
  (max_overlap cks = O \/ exists p, overlap_at cks p = max_overlap cks).
Proof. intro cks. exact (conj (overlap_at_le_max cks) (max_overlap_attained cks)). Qed.

(* ---- end-to-end corollaries: the byte-level indexed read under the loader hypothesis ---- *)
Definition i_init (ro : ropts) (cis : list chunkindex) : istate :=
  {| i_cis := ci_sort (ro_order ro) cis; i_queue := []; i_slots := []; i_reccap := 0; i_allocs := [] |}.

Theorem C03_indexed_time_thm : forall dall ro sm f sel pairs d fuel n cis cks ms st,
  loader_ok dall ro sm f sel pairs -> ro_order ro = order_of d ->
  Forall2 (ci_match pairs) cis cks -> chunks_wf cks ->
  indexed_all dall fuel n ro sm f (i_init ro cis) [] (O, O) = Ok (ms, EEOF, st) ->
  StronglySorted (fun a b => led d a b) (map log_of ms) /\
  Permutation (map log_of ms) (map am_ts (filter sel (all_msgs cks))).
Proof.
  intros dall ro sm f sel pairs d fuel n cis cks ms st HL Ho Hm Hw H.
  destruct (indexed_read_refines_thm dall ro sm f sel pairs HL fuel n cis cks ms st Hm H) as (out & Hr & Hl).
  rewrite Hl, Ho in *. split.
  - destruct (a_read_time sel d _ _ _ _ _ Hw Hr) as (S & _ & _). apply StronglySorted_map. exact S.
  - apply Permutation_map. eapply a_read_perm; exact Hr.
Qed.

Theorem C20_indexed_slots_thm : forall dall ro sm f sel pairs d fuel n cis cks ms st,
  loader_ok dall ro sm f sel pairs -> ro_order ro = order_of d ->
  Forall2 (ci_match pairs) cis cks -> chunks_wf cks -> ranges_ok cks -> NoDup (map ac_off cks) ->
  indexed_all dall fuel n ro sm f (i_init ro cis) [] (O, O) = Ok (ms, EEOF, st) ->
  (fst st <= Nat.max 1 (max_overlap cks))%nat /\ (snd st <= Nat.max 1 (max_overlap cks))%nat.
Proof.
  intros dall ro sm f sel pairs d fuel n cis cks ms st HL Ho Hm Hw Hr Hnd H.
  destruct (indexed_read_refines_thm dall ro sm f sel pairs HL fuel n cis cks ms st Hm H) as (out & Hrd & _).
  rewrite Ho in Hrd. destruct (C20_slots_time_thm sel d cks Hw Hr Hnd) as [_ Hst]. eapply Hst; exact Hrd.
Qed.

Theorem C20_indexed_slots_file_thm : forall dall ro sm f sel pairs fuel n cis cks ms st,
  loader_ok dall ro sm f sel pairs -> ro_order ro = FileOrder ->
  Forall2 (ci_match pairs) cis cks ->
  indexed_all dall fuel n ro sm f (i_init ro cis) [] (O, O) = Ok (ms, EEOF, st) ->
  (fst st <= 1)%nat /\ (snd st <= 1)%nat.
Proof.
  intros dall ro sm f sel pairs fuel n cis cks ms st HL Ho Hm H.
  destruct (indexed_read_refines_thm dall ro sm f sel pairs HL fuel n cis cks ms st Hm H) as (out & Hrd & _).
  rewrite Ho in Hrd. destruct (C20_slots_file_thm sel cks) as [_ Hst]. eapply Hst; exact Hrd.
Qed.

Example x_end_to_end_hyps :
  loader_ok x_dall x_ro x_sm x_file x_sel x_pairs /\ ro_order x_ro = order_of true /\
  Forall2 (ci_match x_pairs) [x_ci] [x_ac] /\ chunks_wf [x_ac] /\ ranges_ok [x_ac] /\ NoDup (map ac_off [x_ac]) /\
  exists ms st, indexed_all x_dall 4 4 x_ro x_sm x_file (i_init x_ro [x_ci]) [] (O, O) = Ok (ms, EEOF, st).
Proof.
  split; [exact x_loader_ok|]. split; [reflexivity|]. split; [apply x_matches|].
  split; [apply chunks_wfb_ok; vm_compute; reflexivity|].
  split; [apply ranges_okb_ok; vm_compute; reflexivity|].
  split; [apply nodupNb_ok; vm_compute; reflexivity|].
  destruct (indexed_all x_dall 4 4 x_ro x_sm x_file (i_init x_ro [x_ci]) [] (O, O)) as [[[ms e] st]| | | |] eqn:E;
    try (vm_compute in E; discriminate).
  exists ms, st. assert (e = EEOF) as ->; [|reflexivity].
  vm_compute in E. inversion E. reflexivity.
Qed.

Theorem C20_slots_logtime_thm : forall (sel : amsg -> bool) cks,
  chunks_wf cks -> ranges_ok cks -> NoDup (map ac_off cks) ->
  (forall out s, arun sel LogTimeOrder (a_init (ac_sort LogTimeOrder cks)) out s ->
     (length (a_slots s) <= Nat.max 1 (max_overlap cks))%nat) /\
  (forall fuel n out st, a_read sel LogTimeOrder fuel n cks = Some (out, st) ->
     (fst st <= Nat.max 1 (max_overlap cks))%nat /\ (snd st <= Nat.max 1 (max_overlap cks))%nat).
Proof. exact (fun sel => C20_slots_time_thm sel true). Qed.
Theorem C20_slots_reverse_thm : forall (sel : amsg -> bool) cks,
  chunks_wf cks -> ranges_ok cks -> NoDup (map ac_off cks) ->
  (forall out s, arun sel ReverseLogTimeOrder (a_init (ac_sort ReverseLogTimeOrder cks)) out s ->
     (length (a_slots s) <= Nat.max 1 (max_overlap cks))%nat) /\
  (forall fuel n out st, a_read sel ReverseLogTimeOrder fuel n cks = Some (out, st) ->
     (fst st <= Nat.max 1 (max_overlap cks))%nat /\ (snd st <= Nat.max 1 (max_overlap cks))%nat).
Proof. exact (fun sel => C20_slots_time_thm sel false). Qed.
