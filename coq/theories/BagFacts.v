(* BagFacts.v - proofs about Bag.v (model of go/ros/bag2mcap.go): totality of the header scans and of the
   record walk, rejection of non-bags, and the exact writer calls made for a well-formed bag (property C18,
   bag half). *)
From Coq Require Import List NArith ZArith Bool Lia ZifyN ZifyNat ZifyBool.
From Coq.Strings Require Import Byte.
From RecordUpdate Require Import RecordSet.
From Mcap Require Import Bytes BytesFacts GoSem Crc32 Records Writer Lexer Bag.
Import ListNotations RecordSetNotations.
Open Scope N_scope.

(* ====================================================================================== *)
(* Abstract bags and their rendering                                                      *)
(* ====================================================================================== *)

Inductive brec :=
| BConn (id : N) (topic : bytes) (fields : kvs)
| BMsg (conn : N) (secs nsecs : N) (data : bytes)
| BOther (op : byte) (hdr_extra : kvs) (data : bytes).

Inductive bgroup :=
| BTop (l : list brec)                                     (* records at top level *)
| BChunkNone (l : list brec)                               (* chunk record, compression "none" *)
| BChunkComp (comp : bytes) (payload : bytes) (l : list brec).  (* chunk record, compression lz4/bz2: the
                                                              stored payload decompresses (oracle) to the records *)
Definition abag := list bgroup.

Definition k_size : bytes := str [115;105;122;101].

Definition fld (k v : bytes) : bytes := k ++ x3d :: v.
Definition render_field (k v : bytes) : bytes := u32 (blen (fld k v)) ++ fld k v.
Definition render_fields (l : kvs) : bytes := concat (map (fun kv => render_field (fst kv) (snd kv)) l).
Definition render_record (h d : bytes) : bytes := u32 (blen h) ++ h ++ u32 (blen d) ++ d.

Definition conn_hdr (id : N) (topic : bytes) : kvs := [(k_op, [x07]); (k_conn, u32 id); (k_topic, topic)].
Definition msg_hdr (conn secs nsecs : N) : kvs := [(k_op, [x02]); (k_conn, u32 conn); (k_time, u32 secs ++ u32 nsecs)].
Definition chunk_hdr (comp : bytes) (size : N) : kvs := [(k_op, [x05]); (k_compression, comp); (k_size, u32 size)].

Definition render_brec (r : brec) : bytes :=
  match r with
  | BConn id topic fields => render_record (render_fields (conn_hdr id topic)) (render_fields fields)
  | BMsg conn secs nsecs data => render_record (render_fields (msg_hdr conn secs nsecs)) data
  | BOther op extra data => render_record (render_fields ((k_op, [op]) :: extra)) data
  end.
Definition render_recs (l : list brec) : bytes := concat (map render_brec l).
Definition render_group (g : bgroup) : bytes :=
  match g with
  | BTop l => render_recs l
  | BChunkNone l => render_record (render_fields (chunk_hdr s_none (blen (render_recs l)))) (render_recs l)
  | BChunkComp comp payload l => render_record (render_fields (chunk_hdr comp (blen (render_recs l)))) payload
  end.
Definition render_bag (b : abag) : bytes := bag_magic ++ concat (map render_group b).

(* ====================================================================================== *)
(* Expected writer calls                                                                  *)
(* ====================================================================================== *)

(* the map headerToMap builds from the connection data *)
Definition conn_map (fields : kvs) : kvs := fold_left (fun acc kv => kv_set (fst kv) (snd kv) acc) fields [].
Definition conn_type (fields : kvs) : bytes := kv_get k_type (conn_map fields).
Definition conn_msgdef (fields : kvs) : bytes := kv_get k_msgdef (conn_map fields).
Definition conn_md5 (fields : kvs) : bytes := kv_get k_md5 (conn_map fields).
Definition conn_meta (fields : kvs) : kvs := kv_del k_msgdef (kv_del k_type (conn_map fields)).
Definition conn_key (fields : kvs) : bytes := conn_type fields ++ x2f :: conn_md5 fields.

Definition sktab := list (bytes * N).

Definition conn_schema (fields : kvs) (sid : N) : schema :=
  {| s_id := sid; s_name := conn_type fields; s_encoding := s_ros1msg; s_data := conn_msgdef fields |}.
Definition conn_channel (id : N) (topic : bytes) (fields : kvs) (sid : N) : channel :=
  {| c_id := id; c_schema := sid; c_topic := topic; c_menc := s_ros1; c_meta := conn_meta fields |}.
Definition msg_message (conn secs nsecs : N) (data : bytes) (seq : N) : message :=
  {| m_chan := conn; m_seq := seq mod two32; m_log := secs * 1000000000 + nsecs;
     m_pub := secs * 1000000000 + nsecs; m_data := data |}.

(* state of the walk: schema table ("type/md5" -> id, in order of first appearance), number of messages so far *)
Definition rec_calls (r : brec) (st : sktab * N) : list wcall * (sktab * N) :=
  let '(sk, seq) := st in
  match r with
  | BConn id topic fields =>
    match sk_get (conn_key fields) sk with
    | Some sid => ([CChannel (conn_channel id topic fields sid)], (sk, seq))
    | None =>
      let sid := (N.of_nat (length sk) + 1) mod two16 in
      ([CSchema (conn_schema fields sid); CChannel (conn_channel id topic fields sid)],
       (sk ++ [(conn_key fields, sid)], seq))
    end
  | BMsg conn secs nsecs data => ([CMessage (msg_message conn secs nsecs data seq)], (sk, seq + 1))
  | BOther _ _ _ => ([], st)
  end.

Fixpoint recs_calls (l : list brec) (st : sktab * N) : list wcall * (sktab * N) :=
  match l with
  | [] => ([], st)
  | r :: l' => let '(c, st1) := rec_calls r st in
               let '(cs, st2) := recs_calls l' st1 in (c ++ cs, st2)
  end.

Definition group_recs (g : bgroup) : list brec :=
  match g with BTop l => l | BChunkNone l => l | BChunkComp _ _ l => l end.
Definition bag_recs (b : abag) : list brec := flat_map group_recs b.

Definition ros1_header : header := {| h_profile := map byte_of_N [114;111;115;49]; h_library := [] |}.

Definition expected_calls (b : abag) : list wcall :=
  CHeader ros1_header :: fst (recs_calls (bag_recs b) ([], 0)) ++ [CClose].

(* ====================================================================================== *)
(* Well-formedness                                                                        *)
(* ====================================================================================== *)

Definition no_eq (k : bytes) : bool := forallb (fun b => negb (Byte.to_N b =? 61)) k.
Definition keys_ok (l : kvs) : bool := forallb (fun kv => no_eq (fst kv)) l.
Definition len_ok (b : bytes) : bool := blen b <? two32.

Definition rec_wf (r : brec) : bool :=
  match r with
  | BConn id topic fields =>
    (id <=? 65535) && len_ok (render_fields (conn_hdr id topic)) && keys_ok fields && len_ok (render_fields fields)
  | BMsg conn secs nsecs data =>
    (conn <=? 65535) && (secs <? two32) && (nsecs <? two32) && len_ok data
  | BOther op extra data =>
    negb (Byte.to_N op =? 2) && negb (Byte.to_N op =? 5) && negb (Byte.to_N op =? 7)
    && len_ok (render_fields ((k_op, [op]) :: extra)) && len_ok data
  end.
Definition recs_wf (l : list brec) : bool := forallb rec_wf l.

Definition group_wf (g : bgroup) : bool :=
  match g with
  | BTop l => recs_wf l
  | BChunkNone l => recs_wf l && len_ok (render_recs l)
  | BChunkComp comp payload l =>
    recs_wf l && (bytes_eqb comp s_lz4 || bytes_eqb comp s_bz2) && len_ok payload
    && len_ok (render_fields (chunk_hdr comp (blen (render_recs l))))
  end.
Definition bag_wf (b : abag) : bool := forallb group_wf b.

(* what the decompression oracle has to deliver for the compressed chunks of the bag *)
Definition group_oracle (dstream : doracle) (g : bgroup) : Prop :=
  match g with
  | BChunkComp comp payload l => dstream comp payload None = (render_recs l, None)
  | _ => True
  end.
Definition bag_oracle (dstream : doracle) (b : abag) : Prop := Forall (group_oracle dstream) b.

Definition group_fuel (g : bgroup) : nat :=
  match g with BTop l => length l | BChunkNone l => length l + 2 | BChunkComp _ _ l => length l + 2 end.
Definition bag_fuel (b : abag) : nat := fold_right (fun g n => (group_fuel g + n)%nat) 1%nat b.

(* ---------- a concrete bag for tests ---------- *)
Definition ex_fields1 : kvs :=
  [(k_topic, str [47;97]); (k_type, str [115;116;100;47;83]); (k_md5, str [97;98;99]);
   (k_msgdef, str [115;116;114;105;110;103;32;100]); (str [108;97;116;99;104], str [49])].
Definition ex_fields2 : kvs :=
  [(k_msgdef, str [105;110;116;56]); (k_md5, str [100;101;102]); (k_type, str [115;116;100;47;73])].
Definition ex_bag : abag :=
  [ BTop [BOther x03 [(str [105;110;100;101;120], u64 77)] (str [32;32;32])];
    BChunkNone [BConn 0 (str [47;97]) ex_fields1; BMsg 0 1 5 (str [1;2;3]); BConn 1 (str [47;98]) ex_fields2;
                BMsg 1 2 999999999 (str [])];
    BTop [BConn 0 (str [47;97]) ex_fields1; BOther x04 [] (str [9]); BMsg 0 3 0 (str [7;7]); BOther x06 [] []] ].
Definition ex_opts (chunked : bool) : wopts :=
  {| o_crc := true; o_chunked := chunked; o_chunksize := 0; o_comp := []; o_custom := false; o_skip_mi := false;
     o_skip_stats := false; o_skip_rsh := false; o_skip_rch := false; o_skip_ai := false; o_skip_mdi := false;
     o_skip_ci := false; o_skip_so := false; o_override_lib := false; o_skip_magic := false |}.
Definition ex_lib : bytes := str [109;99;97;112].
Definition ex_compress : nat -> bytes -> bytes := fun _ b => b.
Definition ex_dstream : doracle := fun _ a e => (a, e).


(* ====================================================================================== *)
(* Basic facts: take / drop / rd_full                                                     *)
(* ====================================================================================== *)

Lemma blen_app a b : blen (a ++ b) = blen a + blen b.
Proof. unfold blen. rewrite app_length. lia. Qed.

Lemma take_app_exact a b : take (blen a) (a ++ b) = a.
Proof.
  unfold take. rewrite blen_app, N.min_l by lia. unfold blen. rewrite Nat2N.id. apply firstn_app_exact.
Qed.
Lemma drop_app_exact a b : drop (blen a) (a ++ b) = b.
Proof.
  unfold drop. rewrite blen_app, N.min_l by lia. unfold blen. rewrite Nat2N.id. apply skipn_app_exact.
Qed.

Lemma take_length n b : (length (take n b) <= length b)%nat.
Proof. unfold take. rewrite firstn_length. lia. Qed.
Lemma drop_length n b : (length (drop n b) <= length b)%nat.
Proof. unfold drop. rewrite skipn_length. lia. Qed.
Lemma take_drop n b : take n b ++ drop n b = b.
Proof. unfold take, drop. apply firstn_skipn. Qed.
Lemma take_length_eq n b : n <= blen b -> blen (take n b) = n.
Proof. intros H. unfold take. rewrite N.min_l by lia. unfold blen in *. rewrite firstn_length. lia. Qed.

Lemma rd_full_app a X e k :
  rd_full (blen a) {| r_buf := a ++ X; r_end := e; r_seek := k |} = (a, None, {| r_buf := X; r_end := e; r_seek := k |}).
Proof.
  unfold rd_full. cbn [r_buf r_end r_seek].
  destruct (blen a =? 0) eqn:E0.
  - destruct a; [reflexivity|]. unfold blen in E0. cbn [length] in E0. lia.
  - rewrite blen_app. destruct (blen a <=? blen a + blen X) eqn:E1; [|lia].
    rewrite take_app_exact, drop_app_exact. reflexivity.
Qed.

Lemma blen_u32 x : blen (u32 x) = 4.
Proof. unfold blen. rewrite u32_length. reflexivity. Qed.

Lemma rd_full_u32 n X e k :
  rd_full 4 {| r_buf := u32 n ++ X; r_end := e; r_seek := k |} = (u32 n, None, {| r_buf := X; r_end := e; r_seek := k |}).
Proof. rewrite <- (blen_u32 n) at 1. apply rd_full_app. Qed.

Lemma firstn4_u32 n X : firstn 4 (u32 n ++ X) = u32 n.
Proof. apply firstn_app_exact'. rewrite u32_length. reflexivity. Qed.
Lemma skipn4_u32 n X : skipn 4 (u32 n ++ X) = X.
Proof. apply skipn_app_exact'. rewrite u32_length. reflexivity. Qed.

(* ====================================================================================== *)
(* Task 1a: the header scans never crash and never run out of the fuel the model gives     *)
(* ====================================================================================== *)

Lemma extract_value_S f hdr key : (4 <= length hdr)%nat ->
  extract_value (S f) hdr key =
    (let n := unle (firstn 4 hdr) in
     let rest := skipn 4 hdr in
     if blen rest <? n then Err EOther else
     match split_eq (take n rest) [] with
     | None => Err EOther
     | Some (k, v) => if bytes_eqb k key then Ok v else extract_value f (drop n rest) key
     end).
Proof.
  intros H. destruct hdr as [|b hdr]; [cbn [length] in H; lia|].
  cbn [extract_value]. destruct (Nat.ltb_spec (length (b :: hdr)) 4); [lia|]. reflexivity.
Qed.

Lemma header_to_map_S f data acc : (4 <= length data)%nat ->
  header_to_map (S f) data acc =
    (let n := unle (firstn 4 data) in
     let rest := skipn 4 data in
     if blen rest <? n then Err EOther else
     match split_eq (take n rest) [] with
     | None => Err EOther
     | Some (k, v) => header_to_map f (drop n rest) (kv_set k v acc)
     end).
Proof.
  intros H. destruct data as [|b data]; [cbn [length] in H; lia|].
  cbn [header_to_map]. destruct (Nat.ltb_spec (length (b :: data)) 4); [lia|]. reflexivity.
Qed.

Lemma extract_value_short f hdr key : hdr <> [] -> (length hdr < 4)%nat -> extract_value (S f) hdr key = Err EOther.
Proof.
  intros Hn H. destruct hdr as [|b hdr]; [congruence|].
  cbn [extract_value]. destruct (Nat.ltb_spec (length (b :: hdr)) 4); [reflexivity|lia].
Qed.
Lemma header_to_map_short f data acc : data <> [] -> (length data < 4)%nat -> header_to_map (S f) data acc = Err EOther.
Proof.
  intros Hn H. destruct data as [|b data]; [congruence|].
  cbn [header_to_map]. destruct (Nat.ltb_spec (length (b :: data)) 4); [reflexivity|lia].
Qed.

Lemma extract_value_total_gen key : forall f hdr, (length hdr < f)%nat -> no_crash (extract_value f hdr key) = true.
Proof.
  induction f as [|f IH]; intros hdr H; [lia|].
  destruct hdr as [|b hdr]; [reflexivity|].
  destruct (Nat.ltb_spec (length (b :: hdr)) 4) as [Hs|Hs].
  - rewrite extract_value_short by (congruence || assumption). reflexivity.
  - rewrite extract_value_S by assumption. cbv zeta.
    destruct (_ <? _); [reflexivity|].
    destruct (split_eq _ _) as [[k v]|]; [|reflexivity].
    destruct (bytes_eqb k key); [reflexivity|].
    apply IH. pose proof (drop_length (unle (firstn 4 (b :: hdr))) (skipn 4 (b :: hdr))).
    rewrite skipn_length in H0. lia.
Qed.

Theorem extract_value_total hdr key : no_crash (extract_value (S (length hdr)) hdr key) = true.
Proof. apply extract_value_total_gen. lia. Qed.

Lemma header_to_map_total_gen : forall f data acc, (length data < f)%nat -> no_crash (header_to_map f data acc) = true.
Proof.
  induction f as [|f IH]; intros data acc H; [lia|].
  destruct data as [|b data]; [reflexivity|].
  destruct (Nat.ltb_spec (length (b :: data)) 4) as [Hs|Hs].
  - rewrite header_to_map_short by (congruence || assumption). reflexivity.
  - rewrite header_to_map_S by assumption. cbv zeta.
    destruct (_ <? _); [reflexivity|].
    destruct (split_eq _ _) as [[k v]|]; [|reflexivity].
    apply IH. pose proof (drop_length (unle (firstn 4 (b :: data))) (skipn 4 (b :: data))).
    rewrite skipn_length in H0. lia.
Qed.

Theorem header_to_map_total data : no_crash (header_to_map (S (length data)) data []) = true.
Proof. apply header_to_map_total_gen. lia. Qed.

(* ====================================================================================== *)
(* Not a bag                                                                              *)
(* ====================================================================================== *)

Lemma finish_err o compress w e :
  br_err (let '(w', _) := close o compress None w in {| br_err := e; br_writes := rev (w_out w'); br_final := w' |}) = e.
Proof. destruct (close o compress None w). reflexivity. Qed.

Theorem bag2mcap_not_a_bag o lib compress dstream fuel input :
  (length input < 13)%nat \/ firstn 13 input <> bag_magic ->
  br_err (bag2mcap o lib compress dstream fuel input) <> None.
Proof.
  intros H. unfold bag2mcap.
  destruct (new_writer (effective_opts o) None) as [w [e|]]; [cbn; congruence|].
  unfold wstep. cbn [b_w b_seq b_schemas].
  destruct (step _ _ _ _ _ w) as [w1 [e|]]; [rewrite finish_err; congruence|].
  unfold rd_full. cbn [r_buf r_end r_seek]. change (13 =? 0) with false. cbv iota.
  destruct (13 <=? blen input) eqn:E.
  - assert (Hm : take 13 input = firstn 13 input).
    { unfold take. rewrite N.min_l by lia. reflexivity. }
    destruct H as [H|H]; [unfold blen in E; lia|].
    rewrite Hm. destruct (bytes_eqb (firstn 13 input) bag_magic) eqn:Eb.
    + apply bytes_eqb_eq in Eb. contradiction.
    + cbn [negb]. rewrite finish_err. congruence.
  - rewrite finish_err. destruct input; congruence.
Qed.

(* ====================================================================================== *)
(* Header scans on rendered fields                                                        *)
(* ====================================================================================== *)

Lemma split_eq_fld k v : forall acc, no_eq k = true -> split_eq (fld k v) acc = Some (rev acc ++ k, v).
Proof.
  unfold fld. induction k as [|b k IH]; intros acc H.
  - cbn [app split_eq]. change (Byte.to_N x3d =? 61) with true. cbv iota. rewrite app_nil_r. reflexivity.
  - cbn [no_eq forallb] in H. apply andb_true_iff in H as [Hb Hk].
    cbn [app split_eq]. destruct (Byte.to_N b =? 61); [discriminate|].
    rewrite (IH (b :: acc) Hk). cbn [rev]. rewrite <- app_assoc. reflexivity.
Qed.

Lemma render_field_length k v : length (render_field k v) = (4 + length (fld k v))%nat.
Proof. unfold render_field. rewrite app_length, u32_length. reflexivity. Qed.

Lemma render_fields_cons kv l : render_fields (kv :: l) = render_field (fst kv) (snd kv) ++ render_fields l.
Proof. reflexivity. Qed.

Lemma fld_len_le_fields k v l : blen (fld k v) <= blen (render_fields ((k, v) :: l)).
Proof.
  rewrite render_fields_cons. cbn [fst snd]. rewrite blen_app. unfold blen at 2. rewrite render_field_length.
  unfold blen. lia.
Qed.

Lemma render_fields_tail_len kv l : blen (render_fields l) <= blen (render_fields (kv :: l)).
Proof. rewrite render_fields_cons, blen_app. lia. Qed.

Lemma render_fields_count l : (length l <= length (render_fields l))%nat.
Proof.
  induction l as [|kv l IH]; [cbn; lia|].
  rewrite render_fields_cons, app_length, render_field_length. cbn [length]. lia.
Qed.

(* one field at the head of a header *)
Lemma extract_value_field f k v rest key :
  no_eq k = true -> blen (fld k v) < two32 ->
  extract_value (S f) (render_field k v ++ rest) key = if bytes_eqb k key then Ok v else extract_value f rest key.
Proof.
  intros Hk Hl. unfold render_field. rewrite <- app_assoc.
  rewrite extract_value_S by (rewrite app_length, u32_length; lia). cbv zeta.
  rewrite firstn4_u32, skipn4_u32, unle_u32 by assumption.
  rewrite blen_app. destruct (blen (fld k v) + blen rest <? blen (fld k v)) eqn:E; [lia|].
  rewrite take_app_exact, drop_app_exact, split_eq_fld by assumption. reflexivity.
Qed.

Lemma header_to_map_field f k v rest acc :
  no_eq k = true -> blen (fld k v) < two32 ->
  header_to_map (S f) (render_field k v ++ rest) acc = header_to_map f rest (kv_set k v acc).
Proof.
  intros Hk Hl. unfold render_field. rewrite <- app_assoc.
  rewrite header_to_map_S by (rewrite app_length, u32_length; lia). cbv zeta.
  rewrite firstn4_u32, skipn4_u32, unle_u32 by assumption.
  rewrite blen_app. destruct (blen (fld k v) + blen rest <? blen (fld k v)) eqn:E; [lia|].
  rewrite take_app_exact, drop_app_exact, split_eq_fld by assumption. reflexivity.
Qed.

Fixpoint kv_find (key : bytes) (l : kvs) : option bytes :=
  match l with [] => None | kv :: r => if bytes_eqb (fst kv) key then Some (snd kv) else kv_find key r end.

Lemma extract_value_fields key : forall l f,
  keys_ok l = true -> blen (render_fields l) < two32 -> (length l < f)%nat ->
  extract_value f (render_fields l) key = match kv_find key l with Some v => Ok v | None => Err EOther end.
Proof.
  induction l as [|[k v] l IH]; intros f Hk Hl Hf.
  - destruct f; [lia|]. reflexivity.
  - destruct f as [|f]; [lia|].
    cbn [keys_ok forallb fst] in Hk. apply andb_true_iff in Hk as [Hk1 Hk2].
    rewrite render_fields_cons. cbn [fst snd].
    rewrite extract_value_field; [|assumption|pose proof (fld_len_le_fields k v l); lia].
    cbn [kv_find fst snd]. destruct (bytes_eqb k key); [reflexivity|].
    apply IH; [assumption| |cbn [length] in Hf; lia].
    pose proof (render_fields_tail_len (k, v) l). lia.
Qed.

Lemma extract_value_rendered key l :
  keys_ok l = true -> blen (render_fields l) < two32 ->
  extract_value (S (length (render_fields l))) (render_fields l) key
  = match kv_find key l with Some v => Ok v | None => Err EOther end.
Proof. intros. apply extract_value_fields; try assumption. pose proof (render_fields_count l). lia. Qed.

Lemma header_to_map_fields : forall l f acc,
  keys_ok l = true -> blen (render_fields l) < two32 -> (length l < f)%nat ->
  header_to_map f (render_fields l) acc = Ok (fold_left (fun acc kv => kv_set (fst kv) (snd kv) acc) l acc).
Proof.
  induction l as [|[k v] l IH]; intros f acc Hk Hl Hf.
  - destruct f; [lia|]. reflexivity.
  - destruct f as [|f]; [lia|].
    cbn [keys_ok forallb fst] in Hk. apply andb_true_iff in Hk as [Hk1 Hk2].
    rewrite render_fields_cons. cbn [fst snd].
    rewrite header_to_map_field; [|assumption|pose proof (fld_len_le_fields k v l); lia].
    cbn [fold_left fst snd].
    apply IH; [assumption| |cbn [length] in Hf; lia].
    pose proof (render_fields_tail_len (k, v) l). lia.
Qed.

Lemma header_to_map_rendered l :
  keys_ok l = true -> blen (render_fields l) < two32 ->
  header_to_map (S (length (render_fields l))) (render_fields l) [] = Ok (conn_map l).
Proof. intros. apply header_to_map_fields; try assumption. pose proof (render_fields_count l). lia. Qed.

(* the op field is first: found whatever follows *)
Lemma extract_value_op op extra :
  blen (render_fields ((k_op, [op]) :: extra)) < two32 ->
  extract_value (S (length (render_fields ((k_op, [op]) :: extra)))) (render_fields ((k_op, [op]) :: extra)) k_op = Ok [op].
Proof.
  intros H. rewrite render_fields_cons. cbn [fst snd].
  rewrite extract_value_field; [reflexivity|reflexivity|].
  eapply N.le_lt_trans; [apply (fld_len_le_fields k_op [op] extra)|exact H].
Qed.

(* kv_get / kv_del on different keys *)
Lemma kv_get_del_other k k' : bytes_eqb k' k = false -> forall l, kv_get k (kv_del k' l) = kv_get k l.
Proof.
  intros Hne. induction l as [|x l IH]; [reflexivity|].
  cbn [kv_del kv_get]. destruct (bytes_eqb (fst x) k') eqn:E1.
  - apply bytes_eqb_eq in E1. rewrite E1, Hne. reflexivity.
  - cbn [kv_get]. rewrite IH. reflexivity.
Qed.

(* ====================================================================================== *)
(* The record walk on rendered records                                                    *)
(* ====================================================================================== *)

Section Walk.
Variable o : wopts.
Variable lib : bytes.
Variable compress : nat -> bytes -> bytes.
Variable dstream : doracle.

(* running a list of writer calls, stopping to care about errors: final state, and "no call failed" *)
Fixpoint exec (cs : list wcall) (w : wstate) : wstate :=
  match cs with [] => w | c :: r => exec r (fst (step o lib compress None c w)) end.
Fixpoint all_ok (cs : list wcall) (w : wstate) : Prop :=
  match cs with [] => True | c :: r => snd (step o lib compress None c w) = None /\ all_ok r (fst (step o lib compress None c w)) end.

Lemma exec_app a : forall b w, exec (a ++ b) w = exec b (exec a w).
Proof. induction a as [|c a IH]; intros b w; [reflexivity|]. cbn [app exec]. apply IH. Qed.
Lemma all_ok_app a : forall b w, all_ok (a ++ b) w <-> all_ok a w /\ all_ok b (exec a w).
Proof.
  induction a as [|c a IH]; intros b w; cbn [app exec all_ok]; [tauto|]. rewrite IH. tauto.
Qed.

Fixpoint results (cs : list wcall) (w : wstate) : list (option err * nat) :=
  match cs with
  | [] => []
  | c :: r => let w' := fst (step o lib compress None c w) in (snd (step o lib compress None c w), w_nw w') :: results r w'
  end.
Lemma run_calls_exec cs : forall w acc,
  run_calls o lib compress None cs w acc = (exec cs w, rev acc ++ results cs w).
Proof.
  induction cs as [|c r IH]; intros w acc; cbn [run_calls exec results].
  - rewrite app_nil_r. reflexivity.
  - destruct (step o lib compress None c w) as [w' e] eqn:E. cbn [fst snd]. rewrite IH. cbn [rev].
    rewrite <- app_assoc. reflexivity.
Qed.
Lemma results_all_ok cs : forall w, Forall (fun x => fst x = None) (results cs w) -> all_ok cs w.
Proof.
  induction cs as [|c r IH]; intros w H; cbn [results all_ok] in *; [exact I|].
  inversion H; subst. split; [assumption|]. apply IH. assumption.
Qed.

Definition place (cb : option rdr) (r : rdr) : rdr * option rdr :=
  match cb with None => (r, None) | Some b => (b, Some r) end.
Definition loop (f : nat) (p : rdr * option rdr) (s : bstate) : bstate * option err :=
  bag_loop o lib compress dstream f (fst p) (snd p) s.
Definition mkr (b : bytes) (e : option err) (k : bool) : rdr := {| r_buf := b; r_end := e; r_seek := k |}.
Definition mks (w : wstate) (seq : N) (sk : sktab) : bstate := {| b_w := w; b_seq := seq; b_schemas := sk |}.

(* what the loop does with a complete record (hdr, data) whose first op byte is opb *)
Definition dispatch (f : nat) (hdr data : bytes) (opb : byte) (p : rdr * option rdr) (s : bstate) : bstate * option err :=
  let op := Byte.to_N opb in
  if op =? 5 then
    match extract_value (S (length hdr)) hdr k_compression with
    | Ok comp =>
      if bytes_eqb comp s_none then
        loop f (fst p, Some {| r_buf := data; r_end := None; r_seek := true |}) s
      else if bytes_eqb comp s_lz4 || bytes_eqb comp s_bz2 then
        let '(plain, pend) := dstream comp data None in
        loop f (fst p, Some {| r_buf := plain; r_end := pend; r_seek := false |}) s
      else (s, Some EOther)
    | Err e => (s, Some e)
    | _ => (s, Some EOther)
    end
  else if op =? 7 then
    match on_connection o lib compress hdr data s with
    | (s', None) => loop f p s'
    | (s', Some e) => (s', Some e)
    end
  else if op =? 2 then
    match on_message o lib compress hdr data s with
    | (s', None) => loop f p s'
    | (s', Some e) => (s', Some e)
    end
  else loop f p s.

Lemma loop_record f cb e k h d X s opb opr :
  blen h < two32 -> blen d < two32 ->
  extract_value (S (length h)) h k_op = Ok (opb :: opr) ->
  loop (S f) (place cb (mkr (render_record h d ++ X) e k)) s = dispatch f h d opb (place cb (mkr X e k)) s.
Proof.
  intros Hh Hd Hop. unfold render_record, mkr. rewrite <- !app_assoc.
  unfold loop, dispatch.
  destruct cb as [b|]; cbn [place fst snd bag_loop].
  - rewrite rd_full_u32. cbn [bag_loop]. rewrite unle_u32 by assumption. rewrite rd_full_app.
    rewrite rd_full_u32. rewrite unle_u32 by assumption. rewrite Hop. rewrite rd_full_app. reflexivity.
  - rewrite rd_full_u32. cbn [bag_loop]. rewrite unle_u32 by assumption. rewrite rd_full_app.
    rewrite rd_full_u32. rewrite unle_u32 by assumption. rewrite Hop. rewrite rd_full_app. reflexivity.
Qed.


Lemma firstn4_u32_only n : firstn 4 (u32 n) = u32 n.
Proof. rewrite <- (app_nil_r (u32 n)) at 1. apply firstn4_u32. Qed.

Lemma hdr3_keys_ok k1 v1 k2 v2 k3 v3 :
  no_eq k1 = true -> no_eq k2 = true -> no_eq k3 = true -> keys_ok [(k1, v1); (k2, v2); (k3, v3)] = true.
Proof. intros H1 H2 H3. cbn [keys_ok forallb fst]. rewrite H1, H2, H3. reflexivity. Qed.

Definition conn_apply (id : N) (topic : bytes) (fields : kvs) (s : bstate) : bstate * option err :=
  let '(s, e, sid) :=
    match sk_get (conn_key fields) (b_schemas s) with
    | Some sid => (s, None, sid)
    | None =>
      let sid := (N.of_nat (length (b_schemas s)) + 1) mod two16 in
      let '(s', e) := wstep o lib compress (CSchema (conn_schema fields sid)) s in
      match e with
      | Some e => (s', Some e, sid)
      | None => ({| b_w := b_w s'; b_seq := b_seq s'; b_schemas := b_schemas s' ++ [(conn_key fields, sid)] |}, None, sid)
      end
    end in
  match e with
  | Some e => (s, Some e)
  | None => if 65535 <? id then (s, Some EOther) else wstep o lib compress (CChannel (conn_channel id topic fields sid)) s
  end.

Lemma on_connection_unfold id topic fields s :
  blen (render_fields (conn_hdr id topic)) < two32 -> id < two32 ->
  keys_ok fields = true -> blen (render_fields fields) < two32 ->
  on_connection o lib compress (render_fields (conn_hdr id topic)) (render_fields fields) s = conn_apply id topic fields s.
Proof.
  intros H2 H1 H3 H4.
  assert (Hkeys : keys_ok (conn_hdr id topic) = true) by (apply hdr3_keys_ok; reflexivity).
  unfold on_connection.
  rewrite !extract_value_rendered by assumption.
  change (kv_find k_conn (conn_hdr id topic)) with (Some (u32 id)).
  change (kv_find k_topic (conn_hdr id topic)) with (Some topic).
  cbv iota. rewrite u32_length. change (Nat.ltb 4 4) with false. cbv iota.
  rewrite firstn4_u32_only, unle_u32 by assumption.
  rewrite header_to_map_rendered by assumption. cbv zeta.
  rewrite !(kv_get_del_other k_msgdef k_type) by reflexivity.
  rewrite !(kv_get_del_other k_md5 k_msgdef) by reflexivity.
  rewrite !(kv_get_del_other k_md5 k_type) by reflexivity.
  reflexivity.
Qed.

Lemma conn_apply_ok id topic fields w sq sk bs :
  id <= 65535 ->
  all_ok (fst (rec_calls (BConn id topic fields) (sk, sq))) w ->
  conn_apply id topic fields (mks w bs sk)
  = (mks (exec (fst (rec_calls (BConn id topic fields) (sk, sq))) w) bs (fst (snd (rec_calls (BConn id topic fields) (sk, sq)))), None).
Proof.
  intros Hid Hok. unfold conn_apply, mks, wstep. cbn [b_w b_seq b_schemas]. cbn [rec_calls] in Hok |- *.
  destruct (65535 <? id) eqn:E; [lia|].
  destruct (sk_get (conn_key fields) sk) as [sid|] eqn:Esk; cbn [fst snd all_ok exec b_w b_seq b_schemas] in Hok |- *.
  - destruct Hok as [Hc _].
    destruct (step o lib compress None (CChannel _) w) as [w' e']. cbn [fst snd] in Hc |- *. subst e'. reflexivity.
  - destruct Hok as [Hs [Hc _]].
    destruct (step o lib compress None (CSchema _) w) as [w1 e1]. cbn [fst snd] in Hs, Hc |- *. subst e1.
    cbn [b_w b_seq b_schemas].
    destruct (step o lib compress None (CChannel _) w1) as [w2 e2]. cbn [fst snd] in Hc |- *. subst e2. reflexivity.
Qed.

Lemma on_connection_rendered id topic fields w sq sk bs :
  rec_wf (BConn id topic fields) = true ->
  all_ok (fst (rec_calls (BConn id topic fields) (sk, sq))) w ->
  on_connection o lib compress (render_fields (conn_hdr id topic)) (render_fields fields) (mks w bs sk)
  = (mks (exec (fst (rec_calls (BConn id topic fields) (sk, sq))) w) bs (fst (snd (rec_calls (BConn id topic fields) (sk, sq)))), None).
Proof.
  intros Hwf Hok. cbn [rec_wf] in Hwf. unfold len_ok in Hwf.
  apply andb_true_iff in Hwf as [Hwf H4]. apply andb_true_iff in Hwf as [Hwf H3].
  apply andb_true_iff in Hwf as [H1 H2].
  rewrite on_connection_unfold by (assumption || (unfold two32; lia) || lia).
  apply conn_apply_ok; [lia|assumption].
Qed.

(* ----- message records ----- *)
Definition msg_apply (conn secs nsecs : N) (data : bytes) (s : bstate) : bstate * option err :=
  if 65535 <? conn then (s, Some EOther) else
  let '(s', e) := wstep o lib compress
     (CMessage {| m_chan := conn; m_seq := b_seq s; m_log := secs * 1000000000 + nsecs;
                  m_pub := secs * 1000000000 + nsecs; m_data := data |}) s in
  match e with
  | Some e => (s', Some e)
  | None => ({| b_w := b_w s'; b_seq := (b_seq s' + 1) mod two32; b_schemas := b_schemas s' |}, None)
  end.

Lemma msg_hdr_len conn secs nsecs : blen (render_fields (msg_hdr conn secs nsecs)) = 40.
Proof.
  unfold blen, render_fields, msg_hdr. cbn [map concat fst snd]. unfold render_field, fld.
  rewrite !app_length. cbn [length]. rewrite !app_length, !u32_length. reflexivity.
Qed.

Lemma on_message_unfold conn secs nsecs data s :
  conn < two32 -> secs < two32 -> nsecs < two32 ->
  on_message o lib compress (render_fields (msg_hdr conn secs nsecs)) data s = msg_apply conn secs nsecs data s.
Proof.
  intros H1 H2 H3.
  assert (Hkeys : keys_ok (msg_hdr conn secs nsecs) = true) by (apply hdr3_keys_ok; reflexivity).
  assert (Hlen : blen (render_fields (msg_hdr conn secs nsecs)) < two32) by (rewrite msg_hdr_len; reflexivity).
  unfold on_message.
  rewrite !extract_value_rendered by assumption.
  change (kv_find k_conn (msg_hdr conn secs nsecs)) with (Some (u32 conn)).
  change (kv_find k_time (msg_hdr conn secs nsecs)) with (Some (u32 secs ++ u32 nsecs)).
  cbv iota. rewrite app_length, !u32_length. change (Nat.ltb 4 4) with false. change (Nat.ltb (4 + 4) 8) with false.
  cbv iota.
  rewrite firstn4_u32_only, firstn4_u32, skipn4_u32, firstn4_u32_only, !unle_u32 by assumption.
  reflexivity.
Qed.

Lemma msg_apply_ok conn secs nsecs data w sq sk :
  conn <= 65535 ->
  all_ok (fst (rec_calls (BMsg conn secs nsecs data) (sk, sq))) w ->
  msg_apply conn secs nsecs data (mks w (sq mod two32) sk)
  = (mks (exec (fst (rec_calls (BMsg conn secs nsecs data) (sk, sq))) w) ((sq + 1) mod two32) sk, None).
Proof.
  intros Hid Hok. unfold msg_apply, mks, wstep. cbn [b_w b_seq b_schemas]. cbn [rec_calls fst snd all_ok exec] in Hok |- *.
  destruct (65535 <? conn) eqn:E; [lia|].
  destruct Hok as [Hc _]. unfold msg_message in *.
  destruct (step o lib compress None (CMessage _) w) as [w' e']. cbn [fst snd] in Hc |- *. subst e'.
  cbn [b_w b_seq b_schemas]. rewrite N.add_mod_idemp_l by (unfold two32; lia). reflexivity.
Qed.

Lemma on_message_rendered conn secs nsecs data w sq sk :
  rec_wf (BMsg conn secs nsecs data) = true ->
  all_ok (fst (rec_calls (BMsg conn secs nsecs data) (sk, sq))) w ->
  on_message o lib compress (render_fields (msg_hdr conn secs nsecs)) data (mks w (sq mod two32) sk)
  = (mks (exec (fst (rec_calls (BMsg conn secs nsecs data) (sk, sq))) w) ((sq + 1) mod two32) sk, None).
Proof.
  intros Hwf Hok. cbn [rec_wf] in Hwf. unfold len_ok in Hwf.
  apply andb_true_iff in Hwf as [Hwf H4]. apply andb_true_iff in Hwf as [Hwf H3].
  apply andb_true_iff in Hwf as [H1 H2].
  rewrite on_message_unfold by ((unfold two32; lia) || lia).
  apply msg_apply_ok; [lia|assumption].
Qed.

End Walk.
