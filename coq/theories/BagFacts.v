(* BagFacts.v - proofs about Bag.v (model of go/ros/bag2mcap.go): totality of the header scans and of the
   record walk, rejection of non-bags, and the exact writer calls made for a well-formed bag (property C18,
   bag half). *)
From Coq Require Import List NArith ZArith Bool Lia ZifyN ZifyNat ZifyBool.
From Coq.Strings Require Import Byte.
From RecordUpdate Require Import RecordSet.
From Mcap Require Import Bytes BytesFacts GoSem Crc32 Records Writer Lexer Bag.
Import ListNotations RecordSetNotations.
Open Scope N_scope.

(* ====================================================================================== *)
(* Abstract bags and their rendering                                                      *)
(* ====================================================================================== *)

Inductive brec :=
| BConn (id : N) (topic : bytes) (fields : kvs)
| BMsg (conn : N) (secs nsecs : N) (data : bytes)
| BOther (op : byte) (hdr_extra : kvs) (data : bytes).

Inductive bgroup :=
| BTop (l : list brec)                                     (* records at top level *)
| BChunkNone (l : list brec)                               (* chunk record, compression "none" *)
| BChunkComp (comp : bytes) (payload : bytes) (l : list brec).  (* chunk record, compression lz4/bz2: the
                                                              stored payload decompresses (oracle) to the records *)
Definition abag := list bgroup.

Definition k_size : bytes := str [115;105;122;101].

Definition fld (k v : bytes) : bytes := k ++ x3d :: v.
Definition render_field (k v : bytes) : bytes := u32 (blen (fld k v)) ++ fld k v.
Definition render_fields (l : kvs) : bytes := concat (map (fun kv => render_field (fst kv) (snd kv)) l).
Definition render_record (h d : bytes) : bytes := u32 (blen h) ++ h ++ u32 (blen d) ++ d.

Definition conn_hdr (id : N) (topic : bytes) : kvs := [(k_op, [x07]); (k_conn, u32 id); (k_topic, topic)].
Definition msg_hdr (conn secs nsecs : N) : kvs := [(k_op, [x02]); (k_conn, u32 conn); (k_time, u32 secs ++ u32 nsecs)].
Definition chunk_hdr (comp : bytes) (size : N) : kvs := [(k_op, [x05]); (k_compression, comp); (k_size, u32 size)].

Definition render_brec (r : brec) : bytes :=
  match r with
  | BConn id topic fields => render_record (render_fields (conn_hdr id topic)) (render_fields fields)
  | BMsg conn secs nsecs data => render_record (render_fields (msg_hdr conn secs nsecs)) data
  | BOther op extra data => render_record (render_fields ((k_op, [op]) :: extra)) data
  end.
Definition render_recs (l : list brec) : bytes := concat (map render_brec l).
Definition render_group (g : bgroup) : bytes :=
  match g with
  | BTop l => render_recs l
  | BChunkNone l => render_record (render_fields (chunk_hdr s_none (blen (render_recs l)))) (render_recs l)
  | BChunkComp comp payload l => render_record (render_fields (chunk_hdr comp (blen (render_recs l)))) payload
  end.
Definition render_bag (b : abag) : bytes := bag_magic ++ concat (map render_group b).

(* ====================================================================================== *)
(* Expected writer calls                                                                  *)
(* ====================================================================================== *)

(* the map headerToMap builds from the connection data *)
Definition conn_map (fields : kvs) : kvs := fold_left (fun acc kv => kv_set (fst kv) (snd kv) acc) fields [].
Definition conn_type (fields : kvs) : bytes := kv_get k_type (conn_map fields).
Definition conn_msgdef (fields : kvs) : bytes := kv_get k_msgdef (conn_map fields).
Definition conn_md5 (fields : kvs) : bytes := kv_get k_md5 (conn_map fields).
Definition conn_meta (fields : kvs) : kvs := kv_del k_msgdef (kv_del k_type (conn_map fields)).
Definition conn_key (fields : kvs) : bytes := conn_type fields ++ x2f :: conn_md5 fields.

Definition sktab := list (bytes * N).

Definition conn_schema (fields : kvs) (sid : N) : schema :=
  {| s_id := sid; s_name := conn_type fields; s_encoding := s_ros1msg; s_data := conn_msgdef fields |}.
Definition conn_channel (id : N) (topic : bytes) (fields : kvs) (sid : N) : channel :=
  {| c_id := id; c_schema := sid; c_topic := topic; c_menc := s_ros1; c_meta := conn_meta fields |}.
Definition msg_message (conn secs nsecs : N) (data : bytes) (seq : N) : message :=
  {| m_chan := conn; m_seq := seq mod two32; m_log := secs * 1000000000 + nsecs;
     m_pub := secs * 1000000000 + nsecs; m_data := data |}.

(* state of the walk: schema table ("type/md5" -> id, in order of first appearance), number of messages so far *)
Definition rec_calls (r : brec) (st : sktab * N) : list wcall * (sktab * N) :=
  let '(sk, seq) := st in
  match r with
  | BConn id topic fields =>
    match sk_get (conn_key fields) sk with
    | Some sid => ([CChannel (conn_channel id topic fields sid)], (sk, seq))
    | None =>
      let sid := (N.of_nat (length sk) + 1) mod two16 in
      ([CSchema (conn_schema fields sid); CChannel (conn_channel id topic fields sid)],
       (sk ++ [(conn_key fields, sid)], seq))
    end
  | BMsg conn secs nsecs data => ([CMessage (msg_message conn secs nsecs data seq)], (sk, seq + 1))
  | BOther _ _ _ => ([], st)
  end.

Fixpoint recs_calls (l : list brec) (st : sktab * N) : list wcall * (sktab * N) :=
  match l with
  | [] => ([], st)
  | r :: l' => let '(c, st1) := rec_calls r st in
               let '(cs, st2) := recs_calls l' st1 in (c ++ cs, st2)
  end.

Definition group_recs (g : bgroup) : list brec :=
  match g with BTop l => l | BChunkNone l => l | BChunkComp _ _ l => l end.
Definition bag_recs (b : abag) : list brec := flat_map group_recs b.

Definition ros1_header : header := {| h_profile := map byte_of_N [114;111;115;49]; h_library := [] |}.

Definition expected_calls (b : abag) : list wcall :=
  CHeader ros1_header :: fst (recs_calls (bag_recs b) ([], 0)) ++ [CClose].

(* ====================================================================================== *)
(* Well-formedness                                                                        *)
(* ====================================================================================== *)

Definition no_eq (k : bytes) : bool := forallb (fun b => negb (Byte.to_N b =? 61)) k.
Definition keys_ok (l : kvs) : bool := forallb (fun kv => no_eq (fst kv)) l.
Definition len_ok (b : bytes) : bool := blen b <? two32.

Definition rec_wf (r : brec) : bool :=
  match r with
  | BConn id topic fields =>
    (id <=? 65535) && len_ok (render_fields (conn_hdr id topic)) && keys_ok fields && len_ok (render_fields fields)
  | BMsg conn secs nsecs data =>
    (conn <=? 65535) && (secs <? two32) && (nsecs <? two32) && len_ok data
  | BOther op extra data =>
    negb (Byte.to_N op =? 2) && negb (Byte.to_N op =? 5) && negb (Byte.to_N op =? 7)
    && len_ok (render_fields ((k_op, [op]) :: extra)) && len_ok data
  end.
Definition recs_wf (l : list brec) : bool := forallb rec_wf l.

Definition group_wf (g : bgroup) : bool :=
  match g with
  | BTop l => recs_wf l
  | BChunkNone l => recs_wf l && len_ok (render_recs l)
  | BChunkComp comp payload l =>
    recs_wf l && (bytes_eqb comp s_lz4 || bytes_eqb comp s_bz2) && len_ok payload
  end.
Definition bag_wf (b : abag) : bool := forallb group_wf b.

(* what the decompression oracle has to deliver for the compressed chunks of the bag *)
Definition group_oracle (dstream : doracle) (g : bgroup) : Prop :=
  match g with
  | BChunkComp comp payload l => dstream comp payload None = (render_recs l, None)
  | _ => True
  end.
Definition bag_oracle (dstream : doracle) (b : abag) : Prop := Forall (group_oracle dstream) b.

Definition group_fuel (g : bgroup) : nat :=
  match g with BTop l => length l | BChunkNone l => length l + 2 | BChunkComp _ _ l => length l + 2 end.
Definition bag_fuel (b : abag) : nat := fold_right (fun g n => (group_fuel g + n)%nat) 1%nat b.

(* ---------- a concrete bag for tests ---------- *)
Definition ex_fields1 : kvs :=
  [(k_topic, str [47;97]); (k_type, str [115;116;100;47;83]); (k_md5, str [97;98;99]);
   (k_msgdef, str [115;116;114;105;110;103;32;100]); (str [108;97;116;99;104], str [49])].
Definition ex_fields2 : kvs :=
  [(k_msgdef, str [105;110;116;56]); (k_md5, str [100;101;102]); (k_type, str [115;116;100;47;73])].
Definition ex_bag : abag :=
  [ BTop [BOther x03 [(str [105;110;100;101;120], u64 77)] (str [32;32;32])];
    BChunkNone [BConn 0 (str [47;97]) ex_fields1; BMsg 0 1 5 (str [1;2;3]); BConn 1 (str [47;98]) ex_fields2;
                BMsg 1 2 999999999 (str [])];
    BTop [BConn 0 (str [47;97]) ex_fields1; BOther x04 [] (str [9]); BMsg 0 3 0 (str [7;7]); BOther x06 [] []] ].
Definition ex_opts (chunked : bool) : wopts :=
  {| o_crc := true; o_chunked := chunked; o_chunksize := 0; o_comp := []; o_custom := false; o_skip_mi := false;
     o_skip_stats := false; o_skip_rsh := false; o_skip_rch := false; o_skip_ai := false; o_skip_mdi := false;
     o_skip_ci := false; o_skip_so := false; o_override_lib := false; o_skip_magic := false |}.
Definition ex_lib : bytes := str [109;99;97;112].
Definition ex_compress : nat -> bytes -> bytes := fun _ b => b.
Definition ex_dstream : doracle := fun _ a e => (a, e).


(* ====================================================================================== *)
(* Basic facts: take / drop / rd_full                                                     *)
(* ====================================================================================== *)

Lemma blen_app a b : blen (a ++ b) = blen a + blen b.
Proof. unfold blen. rewrite app_length. lia. Qed.

Lemma take_app_exact a b : take (blen a) (a ++ b) = a.
Proof.
  unfold take. rewrite blen_app, N.min_l by lia. unfold blen. rewrite Nat2N.id. apply firstn_app_exact.
Qed.
Lemma drop_app_exact a b : drop (blen a) (a ++ b) = b.
Proof.
  unfold drop. rewrite blen_app, N.min_l by lia. unfold blen. rewrite Nat2N.id. apply skipn_app_exact.
Qed.

Lemma take_length n b : (length (take n b) <= length b)%nat.
Proof. unfold take. rewrite firstn_length. lia. Qed.
Lemma drop_length n b : (length (drop n b) <= length b)%nat.
Proof. unfold drop. rewrite skipn_length. lia. Qed.
Lemma take_drop n b : take n b ++ drop n b = b.
Proof. unfold take, drop. apply firstn_skipn. Qed.
Lemma take_length_eq n b : n <= blen b -> blen (take n b) = n.
Proof. intros H. unfold take. rewrite N.min_l by lia. unfold blen in *. rewrite firstn_length. lia. Qed.

Lemma rd_full_app a X e k :
  rd_full (blen a) {| r_buf := a ++ X; r_end := e; r_seek := k |} = (a, None, {| r_buf := X; r_end := e; r_seek := k |}).
Proof.
  unfold rd_full. cbn [r_buf r_end r_seek].
  destruct (blen a =? 0) eqn:E0.
  - destruct a; [reflexivity|]. unfold blen in E0. cbn [length] in E0. lia.
  - rewrite blen_app. destruct (blen a <=? blen a + blen X) eqn:E1; [|lia].
    rewrite take_app_exact, drop_app_exact. reflexivity.
Qed.

Lemma blen_u32 x : blen (u32 x) = 4.
Proof. unfold blen. rewrite u32_length. reflexivity. Qed.

Lemma rd_full_u32 n X e k :
  rd_full 4 {| r_buf := u32 n ++ X; r_end := e; r_seek := k |} = (u32 n, None, {| r_buf := X; r_end := e; r_seek := k |}).
Proof. rewrite <- (blen_u32 n) at 1. apply rd_full_app. Qed.

Lemma firstn4_u32 n X : firstn 4 (u32 n ++ X) = u32 n.
Proof. apply firstn_app_exact'. rewrite u32_length. reflexivity. Qed.
Lemma skipn4_u32 n X : skipn 4 (u32 n ++ X) = X.
Proof. apply skipn_app_exact'. rewrite u32_length. reflexivity. Qed.

(* ====================================================================================== *)
(* Task 1a: the header scans never crash and never run out of the fuel the model gives     *)
(* ====================================================================================== *)

Lemma extract_value_S f hdr key : (4 <= length hdr)%nat ->
  extract_value (S f) hdr key =
    (let n := unle (firstn 4 hdr) in
     let rest := skipn 4 hdr in
     if blen rest <? n then Err EOther else
     match split_eq (take n rest) [] with
     | None => Err EOther
     | Some (k, v) => if bytes_eqb k key then Ok v else extract_value f (drop n rest) key
     end).
Proof.
  intros H. destruct hdr as [|b hdr]; [cbn [length] in H; lia|].
  cbn [extract_value]. destruct (Nat.ltb_spec (length (b :: hdr)) 4); [lia|]. reflexivity.
Qed.

Lemma header_to_map_S f data acc : (4 <= length data)%nat ->
  header_to_map (S f) data acc =
    (let n := unle (firstn 4 data) in
     let rest := skipn 4 data in
     if blen rest <? n then Err EOther else
     match split_eq (take n rest) [] with
     | None => Err EOther
     | Some (k, v) => header_to_map f (drop n rest) (kv_set k v acc)
     end).
Proof.
  intros H. destruct data as [|b data]; [cbn [length] in H; lia|].
  cbn [header_to_map]. destruct (Nat.ltb_spec (length (b :: data)) 4); [lia|]. reflexivity.
Qed.

Lemma extract_value_short f hdr key : hdr <> [] -> (length hdr < 4)%nat -> extract_value (S f) hdr key = Err EOther.
Proof.
  intros Hn H. destruct hdr as [|b hdr]; [congruence|].
  cbn [extract_value]. destruct (Nat.ltb_spec (length (b :: hdr)) 4); [reflexivity|lia].
Qed.
Lemma header_to_map_short f data acc : data <> [] -> (length data < 4)%nat -> header_to_map (S f) data acc = Err EOther.
Proof.
  intros Hn H. destruct data as [|b data]; [congruence|].
  cbn [header_to_map]. destruct (Nat.ltb_spec (length (b :: data)) 4); [reflexivity|lia].
Qed.

Lemma extract_value_total_gen key : forall f hdr, (length hdr < f)%nat -> no_crash (extract_value f hdr key) = true.
Proof.
  induction f as [|f IH]; intros hdr H; [lia|].
  destruct hdr as [|b hdr]; [reflexivity|].
  destruct (Nat.ltb_spec (length (b :: hdr)) 4) as [Hs|Hs].
  - rewrite extract_value_short by (congruence || assumption). reflexivity.
  - rewrite extract_value_S by assumption. cbv zeta.
    destruct (_ <? _); [reflexivity|].
    destruct (split_eq _ _) as [[k v]|]; [|reflexivity].
    destruct (bytes_eqb k key); [reflexivity|].
    apply IH. pose proof (drop_length (unle (firstn 4 (b :: hdr))) (skipn 4 (b :: hdr))).
    rewrite skipn_length in H0. lia.
Qed.

Theorem extract_value_total hdr key : no_crash (extract_value (S (length hdr)) hdr key) = true.
Proof. apply extract_value_total_gen. lia. Qed.

Lemma header_to_map_total_gen : forall f data acc, (length data < f)%nat -> no_crash (header_to_map f data acc) = true.
Proof.
  induction f as [|f IH]; intros data acc H; [lia|].
  destruct data as [|b data]; [reflexivity|].
  destruct (Nat.ltb_spec (length (b :: data)) 4) as [Hs|Hs].
  - rewrite header_to_map_short by (congruence || assumption). reflexivity.
  - rewrite header_to_map_S by assumption. cbv zeta.
    destruct (_ <? _); [reflexivity|].
    destruct (split_eq _ _) as [[k v]|]; [|reflexivity].
    apply IH. pose proof (drop_length (unle (firstn 4 (b :: data))) (skipn 4 (b :: data))).
    rewrite skipn_length in H0. lia.
Qed.

Theorem header_to_map_total data : no_crash (header_to_map (S (length data)) data []) = true.
Proof. apply header_to_map_total_gen. lia. Qed.

(* ====================================================================================== *)
(* Not a bag                                                                              *)
(* ====================================================================================== *)

Lemma finish_err o compress w e :
  br_err (let '(w', _) := close o compress None w in {| br_err := e; br_writes := rev (w_out w'); br_final := w' |}) = e.
Proof. destruct (close o compress None w). reflexivity. Qed.

Theorem bag2mcap_not_a_bag o lib compress dstream fuel input :
  (length input < 13)%nat \/ firstn 13 input <> bag_magic ->
  br_err (bag2mcap o lib compress dstream fuel input) <> None.
Proof.
  intros H. unfold bag2mcap.
  destruct (new_writer (effective_opts o) None) as [w [e|]]; [cbn; congruence|].
  unfold wstep. cbn [b_w b_seq b_schemas].
  destruct (step _ _ _ _ _ w) as [w1 [e|]]; [rewrite finish_err; congruence|].
  unfold rd_full. cbn [r_buf r_end r_seek]. change (13 =? 0) with false. cbv iota.
  destruct (13 <=? blen input) eqn:E.
  - assert (Hm : take 13 input = firstn 13 input).
    { unfold take. rewrite N.min_l by lia. reflexivity. }
    destruct H as [H|H]; [unfold blen in E; lia|].
    rewrite Hm. destruct (bytes_eqb (firstn 13 input) bag_magic) eqn:Eb.
    + apply bytes_eqb_eq in Eb. contradiction.
    + cbn [negb]. rewrite finish_err. congruence.
  - rewrite finish_err. destruct input; congruence.
Qed.

(* ====================================================================================== *)
(* Header scans on rendered fields                                                        *)
(* ====================================================================================== *)

Lemma split_eq_fld k v : forall acc, no_eq k = true -> split_eq (fld k v) acc = Some (rev acc ++ k, v).
Proof.
  unfold fld. induction k as [|b k IH]; intros acc H.
  - cbn [app split_eq]. change (Byte.to_N x3d =? 61) with true. cbv iota. rewrite app_nil_r. reflexivity.
  - cbn [no_eq forallb] in H. apply andb_true_iff in H as [Hb Hk].
    cbn [app split_eq]. destruct (Byte.to_N b =? 61); [discriminate|].
    rewrite (IH (b :: acc) Hk). cbn [rev]. rewrite <- app_assoc. reflexivity.
Qed.

Lemma render_field_length k v : length (render_field k v) = (4 + length (fld k v))%nat.
Proof. unfold render_field. rewrite app_length, u32_length. reflexivity. Qed.

Lemma render_fields_cons kv l : render_fields (kv :: l) = render_field (fst kv) (snd kv) ++ render_fields l.
Proof. reflexivity. Qed.

Lemma fld_len_le_fields k v l : blen (fld k v) <= blen (render_fields ((k, v) :: l)).
Proof.
  rewrite render_fields_cons. cbn [fst snd]. rewrite blen_app. unfold blen at 2. rewrite render_field_length.
  unfold blen. lia.
Qed.

Lemma render_fields_tail_len kv l : blen (render_fields l) <= blen (render_fields (kv :: l)).
Proof. rewrite render_fields_cons, blen_app. lia. Qed.

Lemma render_fields_count l : (length l <= length (render_fields l))%nat.
Proof.
  induction l as [|kv l IH]; [cbn; lia|].
  rewrite render_fields_cons, app_length, render_field_length. cbn [length]. lia.
Qed.

(* one field at the head of a header *)
Lemma extract_value_field f k v rest key :
  no_eq k = true -> blen (fld k v) < two32 ->
  extract_value (S f) (render_field k v ++ rest) key = if bytes_eqb k key then Ok v else extract_value f rest key.
Proof.
  intros Hk Hl. unfold render_field. rewrite <- app_assoc.
  rewrite extract_value_S by (rewrite app_length, u32_length; lia). cbv zeta.
  rewrite firstn4_u32, skipn4_u32, unle_u32 by assumption.
  rewrite blen_app. destruct (blen (fld k v) + blen rest <? blen (fld k v)) eqn:E; [lia|].
  rewrite take_app_exact, drop_app_exact, split_eq_fld by assumption. reflexivity.
Qed.

Lemma header_to_map_field f k v rest acc :
  no_eq k = true -> blen (fld k v) < two32 ->
  header_to_map (S f) (render_field k v ++ rest) acc = header_to_map f rest (kv_set k v acc).
Proof.
  intros Hk Hl. unfold render_field. rewrite <- app_assoc.
  rewrite header_to_map_S by (rewrite app_length, u32_length; lia). cbv zeta.
  rewrite firstn4_u32, skipn4_u32, unle_u32 by assumption.
  rewrite blen_app. destruct (blen (fld k v) + blen rest <? blen (fld k v)) eqn:E; [lia|].
  rewrite take_app_exact, drop_app_exact, split_eq_fld by assumption. reflexivity.
Qed.

Fixpoint kv_find (key : bytes) (l : kvs) : option bytes :=
  match l with [] => None | kv :: r => if bytes_eqb (fst kv) key then Some (snd kv) else kv_find key r end.

Lemma extract_value_fields key : forall l f,
  keys_ok l = true -> blen (render_fields l) < two32 -> (length l < f)%nat ->
  extract_value f (render_fields l) key = match kv_find key l with Some v => Ok v | None => Err EOther end.
Proof.
  induction l as [|[k v] l IH]; intros f Hk Hl Hf.
  - destruct f; [lia|]. reflexivity.
  - destruct f as [|f]; [lia|].
    cbn [keys_ok forallb fst] in Hk. apply andb_true_iff in Hk as [Hk1 Hk2].
    rewrite render_fields_cons. cbn [fst snd].
    rewrite extract_value_field; [|assumption|pose proof (fld_len_le_fields k v l); lia].
    cbn [kv_find fst snd]. destruct (bytes_eqb k key); [reflexivity|].
    apply IH; [assumption| |cbn [length] in Hf; lia].
    pose proof (render_fields_tail_len (k, v) l). lia.
Qed.

Lemma extract_value_rendered key l :
  keys_ok l = true -> blen (render_fields l) < two32 ->
  extract_value (S (length (render_fields l))) (render_fields l) key
  = match kv_find key l with Some v => Ok v | None => Err EOther end.
Proof. intros. apply extract_value_fields; try assumption. pose proof (render_fields_count l). lia. Qed.

Lemma header_to_map_fields : forall l f acc,
  keys_ok l = true -> blen (render_fields l) < two32 -> (length l < f)%nat ->
  header_to_map f (render_fields l) acc = Ok (fold_left (fun acc kv => kv_set (fst kv) (snd kv) acc) l acc).
Proof.
  induction l as [|[k v] l IH]; intros f acc Hk Hl Hf.
  - destruct f; [lia|]. reflexivity.
  - destruct f as [|f]; [lia|].
    cbn [keys_ok forallb fst] in Hk. apply andb_true_iff in Hk as [Hk1 Hk2].
    rewrite render_fields_cons. cbn [fst snd].
    rewrite header_to_map_field; [|assumption|pose proof (fld_len_le_fields k v l); lia].
    cbn [fold_left fst snd].
    apply IH; [assumption| |cbn [length] in Hf; lia].
    pose proof (render_fields_tail_len (k, v) l). lia.
Qed.

Lemma header_to_map_rendered l :
  keys_ok l = true -> blen (render_fields l) < two32 ->
  header_to_map (S (length (render_fields l))) (render_fields l) [] = Ok (conn_map l).
Proof. intros. apply header_to_map_fields; try assumption. pose proof (render_fields_count l). lia. Qed.

(* the op field is first: found whatever follows *)
Lemma extract_value_op op extra :
  blen (render_fields ((k_op, [op]) :: extra)) < two32 ->
  extract_value (S (length (render_fields ((k_op, [op]) :: extra)))) (render_fields ((k_op, [op]) :: extra)) k_op = Ok [op].
Proof.
  intros H. rewrite render_fields_cons. cbn [fst snd].
  rewrite extract_value_field; [reflexivity|reflexivity|].
  eapply N.le_lt_trans; [apply (fld_len_le_fields k_op [op] extra)|exact H].
Qed.

(* kv_get / kv_del on different keys *)
Lemma kv_get_del_other k k' : bytes_eqb k' k = false -> forall l, kv_get k (kv_del k' l) = kv_get k l.
Proof.
  intros Hne. induction l as [|x l IH]; [reflexivity|].
  cbn [kv_del kv_get]. destruct (bytes_eqb (fst x) k') eqn:E1.
  - apply bytes_eqb_eq in E1. rewrite E1, Hne. reflexivity.
  - cbn [kv_get]. rewrite IH. reflexivity.
Qed.

(* ====================================================================================== *)
(* The record walk on rendered records                                                    *)
(* ====================================================================================== *)

Lemma firstn4_u32_only n : firstn 4 (u32 n) = u32 n.
Proof. rewrite <- (app_nil_r (u32 n)) at 1. apply firstn4_u32. Qed.

Lemma hdr3_keys_ok k1 v1 k2 v2 k3 v3 :
  no_eq k1 = true -> no_eq k2 = true -> no_eq k3 = true -> keys_ok [(k1, v1); (k2, v2); (k3, v3)] = true.
Proof. intros H1 H2 H3. cbn [keys_ok forallb fst]. rewrite H1, H2, H3. reflexivity. Qed.

Lemma len_ok_lt b : len_ok b = true -> blen b < two32.
Proof. unfold len_ok. intros H. apply N.ltb_lt. exact H. Qed.

Lemma rec_wf_conn id topic fields : rec_wf (BConn id topic fields) = true ->
  id <= 65535 /\ blen (render_fields (conn_hdr id topic)) < two32 /\ keys_ok fields = true /\ blen (render_fields fields) < two32.
Proof.
  intros Hwf. cbn [rec_wf] in Hwf.
  apply andb_true_iff in Hwf as [Hwf H4]. apply andb_true_iff in Hwf as [Hwf H3].
  apply andb_true_iff in Hwf as [H1 H2].
  repeat split; [apply N.leb_le; exact H1|apply len_ok_lt; exact H2|exact H3|apply len_ok_lt; exact H4].
Qed.

Lemma msg_hdr_len conn secs nsecs : blen (render_fields (msg_hdr conn secs nsecs)) = 38.
Proof.
  unfold blen, render_fields, msg_hdr. cbn [map concat fst snd]. unfold render_field, fld.
  rewrite !app_length. cbn [length]. rewrite !app_length, !u32_length. reflexivity.
Qed.

Lemma rec_wf_msg conn secs nsecs data : rec_wf (BMsg conn secs nsecs data) = true ->
  conn <= 65535 /\ secs < two32 /\ nsecs < two32 /\ blen data < two32.
Proof.
  intros Hwf. cbn [rec_wf] in Hwf.
  apply andb_true_iff in Hwf as [Hwf H4]. apply andb_true_iff in Hwf as [Hwf H3].
  apply andb_true_iff in Hwf as [H1 H2].
  repeat split; [apply N.leb_le; exact H1|apply N.ltb_lt; exact H2|apply N.ltb_lt; exact H3|apply len_ok_lt; exact H4].
Qed.

Lemma rec_calls_conn_seq id topic fields sk sq : snd (snd (rec_calls (BConn id topic fields) (sk, sq))) = sq.
Proof. cbn [rec_calls]. destruct (sk_get _ _); reflexivity. Qed.

Lemma rec_wf_other op extra data : rec_wf (BOther op extra data) = true ->
  (Byte.to_N op =? 2) = false /\ (Byte.to_N op =? 5) = false /\ (Byte.to_N op =? 7) = false /\
  blen (render_fields ((k_op, [op]) :: extra)) < two32 /\ blen data < two32.
Proof.
  intros Hwf. cbn [rec_wf] in Hwf.
  apply andb_true_iff in Hwf as [Hwf H5]. apply andb_true_iff in Hwf as [Hwf H4].
  apply andb_true_iff in Hwf as [Hwf H3]. apply andb_true_iff in Hwf as [H1 H2].
  repeat split; try (apply negb_true_iff; assumption); apply len_ok_lt; assumption.
Qed.

Lemma recs_calls_cons r l st :
  recs_calls (r :: l) st = (fst (rec_calls r st) ++ fst (recs_calls l (snd (rec_calls r st))),
                            snd (recs_calls l (snd (rec_calls r st)))).
Proof.
  cbn [recs_calls]. destruct (rec_calls r st) as [c st1]. cbn [fst snd]. destruct (recs_calls l st1) as [cs st2]. reflexivity.
Qed.

Lemma render_recs_cons r l : render_recs (r :: l) = render_brec r ++ render_recs l.
Proof. reflexivity. Qed.

Lemma recs_calls_app l1 : forall l2 st,
  recs_calls (l1 ++ l2) st = (fst (recs_calls l1 st) ++ fst (recs_calls l2 (snd (recs_calls l1 st))),
                              snd (recs_calls l2 (snd (recs_calls l1 st)))).
Proof.
  induction l1 as [|r l1 IH]; intros l2 st.
  - cbn [app recs_calls fst snd]. destruct (recs_calls l2 st). reflexivity.
  - cbn [app]. rewrite !recs_calls_cons, IH. cbn [fst snd]. rewrite app_assoc. reflexivity.
Qed.

Lemma chunk_hdr_len comp n : blen (render_fields (chunk_hdr comp n)) = 37 + blen comp.
Proof.
  unfold blen, render_fields, chunk_hdr. cbn [map concat fst snd]. unfold render_field, fld.
  rewrite !app_length. cbn [length]. rewrite ?app_length, ?u32_length.
  change (length k_op) with 2%nat. change (length k_compression) with 11%nat. change (length k_size) with 4%nat.
  cbn [length]. lia.
Qed.

Lemma bag_recs_cons g b : bag_recs (g :: b) = group_recs g ++ bag_recs b.
Proof. reflexivity. Qed.

Section Walk.
Variable o : wopts.
Variable lib : bytes.
Variable compress : nat -> bytes -> bytes.
Variable dstream : doracle.

(* running a list of writer calls, stopping to care about errors: final state, and "no call failed" *)
Fixpoint exec (cs : list wcall) (w : wstate) : wstate :=
  match cs with [] => w | c :: r => exec r (fst (step o lib compress None c w)) end.
Fixpoint all_ok (cs : list wcall) (w : wstate) : Prop :=
  match cs with [] => True | c :: r => snd (step o lib compress None c w) = None /\ all_ok r (fst (step o lib compress None c w)) end.

Lemma exec_app a : forall b w, exec (a ++ b) w = exec b (exec a w).
Proof. induction a as [|c a IH]; intros b w; [reflexivity|]. cbn [app exec]. apply IH. Qed.
Lemma all_ok_app a : forall b w, all_ok (a ++ b) w <-> all_ok a w /\ all_ok b (exec a w).
Proof.
  induction a as [|c a IH]; intros b w; cbn [app exec all_ok]; [tauto|]. rewrite IH. tauto.
Qed.

Fixpoint results (cs : list wcall) (w : wstate) : list (option err * nat) :=
  match cs with
  | [] => []
  | c :: r => let w' := fst (step o lib compress None c w) in (snd (step o lib compress None c w), w_nw w') :: results r w'
  end.
Lemma run_calls_exec cs : forall w acc,
  run_calls o lib compress None cs w acc = (exec cs w, rev acc ++ results cs w).
Proof.
  induction cs as [|c r IH]; intros w acc; cbn [run_calls exec results].
  - rewrite app_nil_r. reflexivity.
  - destruct (step o lib compress None c w) as [w' e] eqn:E. cbn [fst snd]. rewrite IH. cbn [rev].
    rewrite <- app_assoc. reflexivity.
Qed.
Lemma results_all_ok cs : forall w, Forall (fun x => fst x = None) (results cs w) -> all_ok cs w.
Proof.
  induction cs as [|c r IH]; intros w H; cbn [results all_ok] in *; [exact I|].
  inversion H; subst. split; [assumption|]. apply IH. assumption.
Qed.

Definition place (cb : option rdr) (r : rdr) : rdr * option rdr :=
  match cb with None => (r, None) | Some b => (b, Some r) end.
Definition loop (f : nat) (p : rdr * option rdr) (s : bstate) : bstate * option err :=
  bag_loop o lib compress dstream f (fst p) (snd p) s.
Definition mkr (b : bytes) (e : option err) (k : bool) : rdr := {| r_buf := b; r_end := e; r_seek := k |}.
Definition mks (w : wstate) (seq : N) (sk : sktab) : bstate := {| b_w := w; b_seq := seq; b_schemas := sk |}.

(* what the loop does with a complete record (hdr, data) whose first op byte is opb *)
Definition dispatch (f : nat) (hdr data : bytes) (opb : byte) (p : rdr * option rdr) (s : bstate) : bstate * option err :=
  let op := Byte.to_N opb in
  if op =? 5 then
    match extract_value (S (length hdr)) hdr k_compression with
    | Ok comp =>
      if bytes_eqb comp s_none then
        loop f (fst p, Some {| r_buf := data; r_end := None; r_seek := true |}) s
      else if bytes_eqb comp s_lz4 || bytes_eqb comp s_bz2 then
        let '(plain, pend) := dstream comp data None in
        loop f (fst p, Some {| r_buf := plain; r_end := pend; r_seek := false |}) s
      else (s, Some EOther)
    | Err e => (s, Some e)
    | _ => (s, Some EOther)
    end
  else if op =? 7 then
    match on_connection o lib compress hdr data s with
    | (s', None) => loop f p s'
    | (s', Some e) => (s', Some e)
    end
  else if op =? 2 then
    match on_message o lib compress hdr data s with
    | (s', None) => loop f p s'
    | (s', Some e) => (s', Some e)
    end
  else loop f p s.

Lemma loop_record f cb e k h d X s opb opr :
  blen h < two32 -> blen d < two32 ->
  extract_value (S (length h)) h k_op = Ok (opb :: opr) ->
  loop (S f) (place cb (mkr (render_record h d ++ X) e k)) s = dispatch f h d opb (place cb (mkr X e k)) s.
Proof.
  intros Hh Hd Hop. unfold render_record, mkr. rewrite <- !app_assoc.
  unfold loop, dispatch.
  destruct cb as [b|]; cbn [place fst snd bag_loop].
  - rewrite rd_full_u32. cbn [bag_loop]. rewrite unle_u32 by assumption. rewrite rd_full_app.
    rewrite rd_full_u32. rewrite unle_u32 by assumption. rewrite Hop. rewrite rd_full_app. reflexivity.
  - rewrite rd_full_u32. cbn [bag_loop]. rewrite unle_u32 by assumption. rewrite rd_full_app.
    rewrite rd_full_u32. rewrite unle_u32 by assumption. rewrite Hop. rewrite rd_full_app. reflexivity.
Qed.

Definition conn_apply (id : N) (topic : bytes) (fields : kvs) (s : bstate) : bstate * option err :=
  let '(s, e, sid) :=
    match sk_get (conn_key fields) (b_schemas s) with
    | Some sid => (s, None, sid)
    | None =>
      let sid := (N.of_nat (length (b_schemas s)) + 1) mod two16 in
      let '(s', e) := wstep o lib compress (CSchema (conn_schema fields sid)) s in
      match e with
      | Some e => (s', Some e, sid)
      | None => ({| b_w := b_w s'; b_seq := b_seq s'; b_schemas := b_schemas s' ++ [(conn_key fields, sid)] |}, None, sid)
      end
    end in
  match e with
  | Some e => (s, Some e)
  | None => if 65535 <? id then (s, Some EOther) else wstep o lib compress (CChannel (conn_channel id topic fields sid)) s
  end.

Lemma on_connection_unfold id topic fields s :
  blen (render_fields (conn_hdr id topic)) < two32 -> id < two32 ->
  keys_ok fields = true -> blen (render_fields fields) < two32 ->
  on_connection o lib compress (render_fields (conn_hdr id topic)) (render_fields fields) s = conn_apply id topic fields s.
Proof.
  intros H2 H1 H3 H4.
  assert (Hkeys : keys_ok (conn_hdr id topic) = true) by (apply hdr3_keys_ok; reflexivity).
  unfold on_connection.
  rewrite !extract_value_rendered by assumption.
  change (kv_find k_conn (conn_hdr id topic)) with (Some (u32 id)).
  change (kv_find k_topic (conn_hdr id topic)) with (Some topic).
  cbv iota. rewrite u32_length. change (Nat.ltb 4 4) with false. cbv iota.
  rewrite firstn4_u32_only, unle_u32 by assumption.
  rewrite header_to_map_rendered by assumption. cbv zeta.
  rewrite !(kv_get_del_other k_msgdef k_type) by reflexivity.
  rewrite !(kv_get_del_other k_md5 k_msgdef) by reflexivity.
  rewrite !(kv_get_del_other k_md5 k_type) by reflexivity.
  reflexivity.
Qed.

Lemma conn_apply_ok id topic fields w sq sk bs :
  id <= 65535 ->
  all_ok (fst (rec_calls (BConn id topic fields) (sk, sq))) w ->
  conn_apply id topic fields (mks w bs sk)
  = (mks (exec (fst (rec_calls (BConn id topic fields) (sk, sq))) w) bs (fst (snd (rec_calls (BConn id topic fields) (sk, sq)))), None).
Proof.
  intros Hid Hok. unfold conn_apply, mks, wstep. cbn [b_w b_seq b_schemas]. cbn [rec_calls] in Hok |- *.
  destruct (65535 <? id) eqn:E; [lia|].
  destruct (sk_get (conn_key fields) sk) as [sid|] eqn:Esk; cbn [fst snd all_ok exec b_w b_seq b_schemas] in Hok |- *.
  - destruct Hok as [Hc _].
    destruct (step o lib compress None (CChannel _) w) as [w' e']. cbn [fst snd] in Hc |- *. subst e'. reflexivity.
  - destruct Hok as [Hs [Hc _]].
    destruct (step o lib compress None (CSchema _) w) as [w1 e1]. cbn [fst snd] in Hs, Hc |- *. subst e1.
    cbn [b_w b_seq b_schemas].
    destruct (step o lib compress None (CChannel _) w1) as [w2 e2]. cbn [fst snd] in Hc |- *. subst e2. reflexivity.
Qed.

Lemma on_connection_rendered id topic fields w sq sk bs :
  rec_wf (BConn id topic fields) = true ->
  all_ok (fst (rec_calls (BConn id topic fields) (sk, sq))) w ->
  on_connection o lib compress (render_fields (conn_hdr id topic)) (render_fields fields) (mks w bs sk)
  = (mks (exec (fst (rec_calls (BConn id topic fields) (sk, sq))) w) bs (fst (snd (rec_calls (BConn id topic fields) (sk, sq)))), None).
Proof.
  intros Hwf Hok. apply rec_wf_conn in Hwf as (H1 & H2 & H3 & H4).
  assert (Hid : id < two32) by (unfold two32; lia).
  rewrite on_connection_unfold by assumption.
  apply conn_apply_ok; assumption.
Qed.

(* ----- message records ----- *)
Definition msg_apply (conn secs nsecs : N) (data : bytes) (s : bstate) : bstate * option err :=
  if 65535 <? conn then (s, Some EOther) else
  let '(s', e) := wstep o lib compress
     (CMessage {| m_chan := conn; m_seq := b_seq s; m_log := secs * 1000000000 + nsecs;
                  m_pub := secs * 1000000000 + nsecs; m_data := data |}) s in
  match e with
  | Some e => (s', Some e)
  | None => ({| b_w := b_w s'; b_seq := (b_seq s' + 1) mod two32; b_schemas := b_schemas s' |}, None)
  end.

Lemma on_message_unfold conn secs nsecs data s :
  conn < two32 -> secs < two32 -> nsecs < two32 ->
  on_message o lib compress (render_fields (msg_hdr conn secs nsecs)) data s = msg_apply conn secs nsecs data s.
Proof.
  intros H1 H2 H3.
  assert (Hkeys : keys_ok (msg_hdr conn secs nsecs) = true) by (apply hdr3_keys_ok; reflexivity).
  assert (Hlen : blen (render_fields (msg_hdr conn secs nsecs)) < two32) by (rewrite msg_hdr_len; reflexivity).
  unfold on_message.
  rewrite !extract_value_rendered by assumption.
  change (kv_find k_conn (msg_hdr conn secs nsecs)) with (Some (u32 conn)).
  change (kv_find k_time (msg_hdr conn secs nsecs)) with (Some (u32 secs ++ u32 nsecs)).
  cbv iota. rewrite app_length, !u32_length. change (Nat.ltb 4 4) with false. change (Nat.ltb (4 + 4) 8) with false.
  cbv iota.
  rewrite firstn4_u32_only, firstn4_u32, skipn4_u32, firstn4_u32_only, !unle_u32 by assumption.
  reflexivity.
Qed.

Lemma msg_apply_ok conn secs nsecs data w sq sk :
  conn <= 65535 ->
  all_ok (fst (rec_calls (BMsg conn secs nsecs data) (sk, sq))) w ->
  msg_apply conn secs nsecs data (mks w (sq mod two32) sk)
  = (mks (exec (fst (rec_calls (BMsg conn secs nsecs data) (sk, sq))) w) ((sq + 1) mod two32) sk, None).
Proof.
  intros Hid Hok. unfold msg_apply, mks, wstep. cbn [b_w b_seq b_schemas]. cbn [rec_calls fst snd all_ok exec] in Hok |- *.
  destruct (65535 <? conn) eqn:E; [lia|].
  destruct Hok as [Hc _]. unfold msg_message in *.
  destruct (step o lib compress None (CMessage _) w) as [w' e']. cbn [fst snd] in Hc |- *. subst e'.
  cbn [b_w b_seq b_schemas]. rewrite N.add_mod_idemp_l by (unfold two32; lia). reflexivity.
Qed.

Lemma on_message_rendered conn secs nsecs data w sq sk :
  rec_wf (BMsg conn secs nsecs data) = true ->
  all_ok (fst (rec_calls (BMsg conn secs nsecs data) (sk, sq))) w ->
  on_message o lib compress (render_fields (msg_hdr conn secs nsecs)) data (mks w (sq mod two32) sk)
  = (mks (exec (fst (rec_calls (BMsg conn secs nsecs data) (sk, sq))) w) ((sq + 1) mod two32) sk, None).
Proof.
  intros Hwf Hok. apply rec_wf_msg in Hwf as (H1 & H2 & H3 & H4).
  assert (Hid : conn < two32) by (unfold two32; lia).
  rewrite on_message_unfold by assumption.
  apply msg_apply_ok; assumption.
Qed.


(* ----- one record ----- *)

Lemma step_rec cb e k r X f w sk sq :
  rec_wf r = true -> all_ok (fst (rec_calls r (sk, sq))) w ->
  loop (S f) (place cb (mkr (render_brec r ++ X) e k)) (mks w (sq mod two32) sk)
  = loop f (place cb (mkr X e k))
      (mks (exec (fst (rec_calls r (sk, sq))) w) (snd (snd (rec_calls r (sk, sq))) mod two32)
           (fst (snd (rec_calls r (sk, sq))))).
Proof.
  intros Hwf Hok. destruct r as [id topic fields|conn secs nsecs data|op extra data]; cbn [render_brec].
  - pose proof (rec_wf_conn _ _ _ Hwf) as (H1 & H2 & H3 & H4).
    rewrite (loop_record f cb e k _ _ X _ x07 []); [|assumption|assumption|apply (extract_value_op x07); exact H2].
    unfold dispatch. change (Byte.to_N x07 =? 5) with false. change (Byte.to_N x07 =? 7) with true. cbv iota.
    rewrite (on_connection_rendered id topic fields w sq sk) by assumption.
    rewrite rec_calls_conn_seq. reflexivity.
  - pose proof (rec_wf_msg _ _ _ _ Hwf) as (H1 & H2 & H3 & H4).
    assert (Hlen : blen (render_fields (msg_hdr conn secs nsecs)) < two32) by (rewrite msg_hdr_len; reflexivity).
    rewrite (loop_record f cb e k _ _ X _ x02 []); [|assumption|assumption|apply (extract_value_op x02); exact Hlen].
    unfold dispatch. change (Byte.to_N x02 =? 5) with false. change (Byte.to_N x02 =? 7) with false.
    change (Byte.to_N x02 =? 2) with true. cbv iota.
    rewrite (on_message_rendered conn secs nsecs data w sq sk) by assumption. reflexivity.
  - pose proof (rec_wf_other _ _ _ Hwf) as (H1 & H2 & H3 & H4 & H5).
    rewrite (loop_record f cb e k _ _ X _ op []); [|assumption|assumption|apply extract_value_op; exact H4].
    unfold dispatch. rewrite H1, H2, H3. reflexivity.
Qed.

(* ----- a run of records ----- *)

Lemma walk_recs cb e k : forall l X f w sk sq,
  recs_wf l = true -> all_ok (fst (recs_calls l (sk, sq))) w ->
  loop (length l + f) (place cb (mkr (render_recs l ++ X) e k)) (mks w (sq mod two32) sk)
  = loop f (place cb (mkr X e k))
      (mks (exec (fst (recs_calls l (sk, sq))) w) (snd (snd (recs_calls l (sk, sq))) mod two32)
           (fst (snd (recs_calls l (sk, sq))))).
Proof.
  induction l as [|r l IH]; intros X f w sk sq Hwf Hok.
  - reflexivity.
  - cbn [recs_wf forallb] in Hwf. apply andb_true_iff in Hwf as [Hr Hl].
    rewrite recs_calls_cons in Hok |- *. cbn [fst snd] in Hok |- *.
    apply all_ok_app in Hok as [Hok1 Hok2].
    rewrite render_recs_cons, <- app_assoc. cbn [length Nat.add].
    rewrite step_rec by assumption.
    destruct (rec_calls r (sk, sq)) as [c [sk1 sq1]] eqn:E. cbn [fst snd] in *.
    rewrite IH by assumption. rewrite exec_app. reflexivity.
Qed.


(* ----- groups ----- *)


Lemma loop_pop f b s k : loop (S f) (b, Some (mkr [] None k)) s = loop f (b, None) s.
Proof. reflexivity. Qed.
Lemma loop_end f k s : loop (S f) (mkr [] None k, None) s = (s, None).
Proof. reflexivity. Qed.

Lemma loop_record_top f e k h d X s opb opr :
  blen h < two32 -> blen d < two32 ->
  extract_value (S (length h)) h k_op = Ok (opb :: opr) ->
  loop (S f) (mkr (render_record h d ++ X) e k, None) s = dispatch f h d opb (mkr X e k, None) s.
Proof. exact (loop_record f None e k h d X s opb opr). Qed.

Lemma chunk_rec_step f e k comp n d X s :
  blen comp < 1000 -> no_eq k_compression = true -> blen d < two32 ->
  loop (S f) (mkr (render_record (render_fields (chunk_hdr comp n)) d ++ X) e k, None) s
  = if bytes_eqb comp s_none then
      loop f (mkr X e k, Some {| r_buf := d; r_end := None; r_seek := true |}) s
    else if bytes_eqb comp s_lz4 || bytes_eqb comp s_bz2 then
      let '(plain, pend) := dstream comp d None in
      loop f (mkr X e k, Some {| r_buf := plain; r_end := pend; r_seek := false |}) s
    else (s, Some EOther).
Proof.
  intros Hc _ Hd.
  assert (Hlen : blen (render_fields (chunk_hdr comp n)) < two32) by (rewrite chunk_hdr_len; unfold two32; lia).
  assert (Hkeys : keys_ok (chunk_hdr comp n) = true) by (apply hdr3_keys_ok; reflexivity).
  rewrite (loop_record_top f e k _ _ X _ x05 []); [|assumption|assumption|apply (extract_value_op x05); exact Hlen].
  unfold dispatch. change (Byte.to_N x05 =? 5) with true. cbv iota.
  rewrite extract_value_rendered by assumption.
  change (kv_find k_compression (chunk_hdr comp n)) with (Some comp). cbv iota. reflexivity.
Qed.

Lemma walk_group e k g X f w sk sq :
  group_wf g = true -> group_oracle dstream g ->
  all_ok (fst (recs_calls (group_recs g) (sk, sq))) w ->
  loop (group_fuel g + f) (mkr (render_group g ++ X) e k, None) (mks w (sq mod two32) sk)
  = loop f (mkr X e k, None)
      (mks (exec (fst (recs_calls (group_recs g) (sk, sq))) w) (snd (snd (recs_calls (group_recs g) (sk, sq))) mod two32)
           (fst (snd (recs_calls (group_recs g) (sk, sq))))).
Proof.
  intros Hwf Hor Hok. destruct g as [l|l|comp payload l]; cbn [group_wf group_fuel render_group group_recs group_oracle] in *.
  - apply (walk_recs None e k l X f w sk sq Hwf Hok).
  - apply andb_true_iff in Hwf as [Hwf Hlen]. apply len_ok_lt in Hlen.
    replace (length l + 2 + f)%nat with (S (length l + S f)) by lia.
    rewrite chunk_rec_step; [|reflexivity|reflexivity|assumption].
    change (bytes_eqb s_none s_none) with true. cbv iota.
    pose proof (walk_recs (Some (mkr X e k)) None true l [] (S f) w sk sq Hwf Hok) as Hw.
    rewrite app_nil_r in Hw. cbn [place] in Hw. unfold mkr at 2 in Hw. rewrite Hw.
    apply loop_pop.
  - apply andb_true_iff in Hwf as [Hwf Hlen]. apply len_ok_lt in Hlen.
    apply andb_true_iff in Hwf as [Hwf Hcomp].
    assert (Hc : blen comp < 1000 /\ bytes_eqb comp s_none = false).
    { apply orb_true_iff in Hcomp as [Hc|Hc]; apply bytes_eqb_eq in Hc; subst comp; split; reflexivity. }
    destruct Hc as [Hc1 Hc2].
    replace (length l + 2 + f)%nat with (S (length l + S f)) by lia.
    rewrite chunk_rec_step; [|assumption|reflexivity|assumption].
    rewrite Hc2, Hcomp, Hor.
    pose proof (walk_recs (Some (mkr X e k)) None false l [] (S f) w sk sq Hwf Hok) as Hw.
    rewrite app_nil_r in Hw. cbn [place] in Hw. unfold mkr at 2 in Hw. rewrite Hw.
    apply loop_pop.
Qed.

Definition groups_fuel (b : abag) : nat := fold_right (fun g n => (group_fuel g + n)%nat) 0%nat b.

Lemma walk_groups e k : forall b X f w sk sq,
  bag_wf b = true -> bag_oracle dstream b ->
  all_ok (fst (recs_calls (bag_recs b) (sk, sq))) w ->
  loop (groups_fuel b + f) (mkr (concat (map render_group b) ++ X) e k, None) (mks w (sq mod two32) sk)
  = loop f (mkr X e k, None)
      (mks (exec (fst (recs_calls (bag_recs b) (sk, sq))) w) (snd (snd (recs_calls (bag_recs b) (sk, sq))) mod two32)
           (fst (snd (recs_calls (bag_recs b) (sk, sq))))).
Proof.
  induction b as [|g b IH]; intros X f w sk sq Hwf Hor Hok.
  - reflexivity.
  - cbn [bag_wf forallb] in Hwf. apply andb_true_iff in Hwf as [Hg Hb].
    inversion Hor as [|g' b' Hog Hob]; subst.
    rewrite bag_recs_cons, recs_calls_app in Hok |- *. cbn [fst snd] in Hok |- *.
    apply all_ok_app in Hok as [Hok1 Hok2].
    cbn [map concat groups_fuel fold_right]. fold (groups_fuel b). rewrite <- Nat.add_assoc, <- app_assoc.
    rewrite walk_group by assumption.
    destruct (recs_calls (group_recs g) (sk, sq)) as [c [sk1 sq1]] eqn:E. cbn [fst snd] in *.
    rewrite IH by assumption. rewrite exec_app. reflexivity.
Qed.

(* ----- connection ids above 65535 are an error (channelIDForConnection) ----- *)
Definition bad_id_rec (r : brec) : Prop :=
  match r with
  | BConn id topic fields =>
    65535 < id < two32 /\ blen (render_fields (conn_hdr id topic)) < two32 /\ keys_ok fields = true /\
    blen (render_fields fields) < two32
  | BMsg conn secs nsecs data => 65535 < conn < two32 /\ secs < two32 /\ nsecs < two32 /\ blen data < two32
  | BOther _ _ _ => False
  end.

Lemma conn_apply_bad id topic fields s : 65535 < id -> snd (conn_apply id topic fields s) <> None.
Proof.
  intros H. unfold conn_apply. destruct (65535 <? id) eqn:E; [|lia].
  destruct (sk_get (conn_key fields) (b_schemas s)); [cbn; discriminate|].
  destruct (wstep o lib compress (CSchema _) s) as [s' [e'|]]; cbn; discriminate.
Qed.
Lemma msg_apply_bad conn secs nsecs data s : 65535 < conn -> snd (msg_apply conn secs nsecs data s) <> None.
Proof. intros H. unfold msg_apply. destruct (65535 <? conn) eqn:E; [cbn; discriminate|lia]. Qed.

Lemma step_bad_rec e k r X f s : bad_id_rec r -> snd (loop (S f) (mkr (render_brec r ++ X) e k, None) s) <> None.
Proof.
  intros Hbad. destruct r as [id topic fields|conn secs nsecs data|op extra data]; cbn [render_brec bad_id_rec] in *; [| |contradiction].
  - destruct Hbad as ([H0 H1] & H2 & H3 & H4).
    rewrite (loop_record_top f e k _ _ X _ x07 []); [|assumption|assumption|apply (extract_value_op x07); exact H2].
    unfold dispatch. change (Byte.to_N x07 =? 5) with false. change (Byte.to_N x07 =? 7) with true. cbv iota.
    rewrite on_connection_unfold by assumption.
    pose proof (conn_apply_bad id topic fields s H0) as Hb.
    destruct (conn_apply id topic fields s) as [s' [e'|]]; [cbn; discriminate|]. cbn in Hb. congruence.
  - destruct Hbad as ([H0 H1] & H2 & H3 & H4).
    assert (Hlen : blen (render_fields (msg_hdr conn secs nsecs)) < two32) by (rewrite msg_hdr_len; reflexivity).
    rewrite (loop_record_top f e k _ _ X _ x02 []); [|assumption|assumption|apply (extract_value_op x02); exact Hlen].
    unfold dispatch. change (Byte.to_N x02 =? 5) with false. change (Byte.to_N x02 =? 7) with false.
    change (Byte.to_N x02 =? 2) with true. cbv iota.
    rewrite on_message_unfold by assumption.
    pose proof (msg_apply_bad conn secs nsecs data s H0) as Hb.
    destruct (msg_apply conn secs nsecs data s) as [s' [e'|]]; [cbn; discriminate|]. cbn in Hb. congruence.
Qed.

Lemma walk_bag k : forall b f w sk sq,
  bag_wf b = true -> bag_oracle dstream b ->
  all_ok (fst (recs_calls (bag_recs b) (sk, sq))) w ->
  loop (bag_fuel b + f) (mkr (concat (map render_group b)) None k, None) (mks w (sq mod two32) sk)
  = (mks (exec (fst (recs_calls (bag_recs b) (sk, sq))) w) (snd (snd (recs_calls (bag_recs b) (sk, sq))) mod two32)
         (fst (snd (recs_calls (bag_recs b) (sk, sq)))), None).
Proof.
  induction b as [|g b IH]; intros f w sk sq Hwf Hor Hok.
  - apply loop_end.
  - cbn [bag_wf forallb] in Hwf. apply andb_true_iff in Hwf as [Hg Hb].
    inversion Hor as [|g' b' Hog Hob]; subst.
    rewrite bag_recs_cons, recs_calls_app in Hok |- *. cbn [fst snd] in Hok |- *.
    apply all_ok_app in Hok as [Hok1 Hok2].
    cbn [map concat bag_fuel fold_right]. fold (bag_fuel b). rewrite <- Nat.add_assoc.
    rewrite walk_group by assumption.
    destruct (recs_calls (group_recs g) (sk, sq)) as [c [sk1 sq1]] eqn:E. cbn [fst snd] in *.
    rewrite IH by assumption. rewrite exec_app. reflexivity.
Qed.

End Walk.

(* ====================================================================================== *)
(* Task 2: a well-formed bag is converted by exactly the expected writer calls            *)
(* ====================================================================================== *)

Definition calls_ok (r : wresult) : Prop := r_new r = None /\ Forall (fun x => fst x = None) (r_calls r).

Lemma finish_eq o compress w e :
  (let '(w', _) := close o compress None w in {| br_err := e; br_writes := rev (w_out w'); br_final := w' |})
  = {| br_err := e; br_writes := rev (w_out (fst (close o compress None w))); br_final := fst (close o compress None w) |}.
Proof. destruct (close o compress None w). reflexivity. Qed.

Lemma bag2mcap_wf_eq o lib compress dstream b fuel :
  bag_wf b = true -> bag_oracle dstream b -> (bag_fuel b <= fuel)%nat ->
  calls_ok (W o lib compress None (expected_calls b)) ->
  bag2mcap o lib compress dstream fuel (render_bag b)
  = {| br_err := None; br_writes := r_writes (W o lib compress None (expected_calls b));
       br_final := r_final (W o lib compress None (expected_calls b)) |}.
Proof.
  intros Hwf Hor Hfuel [Hnew Hcalls]. unfold W, bag2mcap in *.
  set (o' := effective_opts o) in *.
  destruct (new_writer o' None) as [w0 [e0|]]; [cbn [r_new] in Hnew; discriminate|].
  rewrite run_calls_exec in Hcalls |- *. cbn [r_calls r_writes r_final rev app] in Hcalls |- *.
  apply results_all_ok in Hcalls. unfold expected_calls in Hcalls |- *.
  cbn [all_ok] in Hcalls. destruct Hcalls as [Hh Hrest]. apply all_ok_app in Hrest as [Hrecs Hclose].
  cbn [all_ok] in Hclose. destruct Hclose as [Hclose _].
  cbn [exec]. rewrite exec_app. cbn [exec].
  unfold wstep. cbn [b_w b_seq b_schemas]. fold ros1_header.
  destruct (step o' lib compress None (CHeader ros1_header) w0) as [w1 e1] eqn:Eh.
  cbn [fst snd] in Hh, Hrecs, Hclose |- *. subst e1.
  unfold render_bag. change 13 with (blen bag_magic). rewrite rd_full_app.
  rewrite bytes_eqb_refl. cbn [negb].
  change (bag_loop o' lib compress dstream fuel {| r_buf := concat (map render_group b); r_end := None; r_seek := false |} None
            {| b_w := w1; b_seq := 0; b_schemas := [] |})
    with (loop o' lib compress dstream fuel (mkr (concat (map render_group b)) None false, None) (mks w1 (0 mod two32) [])).
  replace fuel with (bag_fuel b + (fuel - bag_fuel b))%nat by lia.
  rewrite walk_bag by assumption. unfold mks. cbn [b_w].
  change (step o' lib compress None CClose) with (close o' compress None).
  rewrite finish_eq. reflexivity.
Qed.

Theorem bag2mcap_wf o lib compress dstream b fuel :
  bag_wf b = true -> bag_oracle dstream b -> (bag_fuel b <= fuel)%nat ->
  calls_ok (W o lib compress None (expected_calls b)) ->
  let R := bag2mcap o lib compress dstream fuel (render_bag b) in
  br_err R = None /\
  br_writes R = r_writes (W o lib compress None (expected_calls b)) /\
  br_final R = r_final (W o lib compress None (expected_calls b)).
Proof.
  intros Hwf Hor Hfuel Hok R. subst R. rewrite bag2mcap_wf_eq by assumption. repeat split.
Qed.

Lemma bag_fuel_groups b : bag_fuel b = S (groups_fuel b).
Proof. unfold bag_fuel, groups_fuel. induction b as [|g b IH]; cbn [fold_right]; [reflexivity|]. rewrite IH. lia. Qed.

(* a record with a connection id above 65535 after a well-formed prefix: the conversion reports an error *)
Theorem bag2mcap_bad_conn_id o lib compress dstream b r rest fuel :
  bag_wf b = true -> bag_oracle dstream b -> (bag_fuel b <= fuel)%nat ->
  calls_ok (W o lib compress None (CHeader ros1_header :: fst (recs_calls (bag_recs b) ([], 0)))) ->
  bad_id_rec r ->
  br_err (bag2mcap o lib compress dstream fuel (render_bag b ++ render_brec r ++ rest)) <> None.
Proof.
  intros Hwf Hor Hfuel [Hnew Hcalls] Hbad. unfold W, bag2mcap in *.
  set (o' := effective_opts o) in *.
  destruct (new_writer o' None) as [w0 [e0|]]; [cbn [r_new] in Hnew; discriminate|].
  rewrite run_calls_exec in Hcalls. cbn [r_calls rev app] in Hcalls.
  apply results_all_ok in Hcalls. cbn [all_ok] in Hcalls. destruct Hcalls as [Hh Hrecs].
  unfold wstep. cbn [b_w b_seq b_schemas]. fold ros1_header.
  destruct (step o' lib compress None (CHeader ros1_header) w0) as [w1 e1] eqn:Eh.
  cbn [fst snd] in Hh, Hrecs |- *. subst e1.
  unfold render_bag. rewrite <- app_assoc. change 13 with (blen bag_magic). rewrite rd_full_app.
  rewrite bytes_eqb_refl. cbn [negb].
  rewrite bag_fuel_groups in Hfuel.
  change (bag_loop o' lib compress dstream fuel
            {| r_buf := concat (map render_group b) ++ render_brec r ++ rest; r_end := None; r_seek := false |} None
            {| b_w := w1; b_seq := 0; b_schemas := [] |})
    with (loop o' lib compress dstream fuel (mkr (concat (map render_group b) ++ render_brec r ++ rest) None false, None)
            (mks w1 (0 mod two32) [])).
  replace fuel with (groups_fuel b + S (fuel - groups_fuel b - 1))%nat by lia.
  rewrite walk_groups by assumption.
  match goal with |- context [loop o' lib compress dstream (S ?f) ?p ?s] =>
    pose proof (step_bad_rec o' lib compress dstream None false r rest f s Hbad) as Hb;
    destruct (loop o' lib compress dstream (S f) p s) as [s2 e2] end.
  cbn [snd] in Hb. rewrite finish_err. exact Hb.
Qed.

(* ====================================================================================== *)
(* Task 1b: the record walk terminates (fuel is never the reason for its answer)          *)
(* ====================================================================================== *)

(* one iteration of processBag's loop: either continue with new readers and state, or stop with a result *)
Inductive bnext := BCont (base : rdr) (chunk : option rdr) (s : bstate) | BStop (r : bstate * option err).

Lemma rd_full_ok n r x r' : rd_full n r = (x, None, r') ->
  r_buf r = x ++ r_buf r' /\ blen x = n.
Proof.
  unfold rd_full. destruct (n =? 0) eqn:E0.
  - intros H. inversion H; subst. split; [reflexivity|]. cbn. lia.
  - destruct (n <=? blen (r_buf r)) eqn:E1; [|discriminate].
    intros H. inversion H; subst. cbn [r_buf]. split; [symmetry; apply take_drop|].
    apply take_length_eq. lia.
Qed.

Definition after (chunk : option rdr) (base r4 : rdr) : rdr * option rdr :=
  match chunk with Some _ => (base, Some r4) | None => (r4, None) end.
Definition cur_of (chunk : option rdr) (base : rdr) : rdr := match chunk with Some r => r | None => base end.

Section Total.
Variable o : wopts.
Variable lib : bytes.
Variable compress : nat -> bytes -> bytes.
Variable dstream : doracle.

Definition bag_step (base : rdr) (chunk : option rdr) (s : bstate) : bnext :=
  let cur := match chunk with Some r => r | None => base end in
  let set_cur (r : rdr) := match chunk with Some _ => (base, Some r) | None => (r, None) end in
  let '(hl, e, r1) := rd_full 4 cur in
  match e with
  | Some EEOF =>
    match chunk with
    | Some _ => BCont base None s
    | None => BStop (s, None)
    end
  | Some e => BStop (s, Some e)
  | None =>
    let hlen := unle hl in
    let '(hdr, e, r2) := rd_full hlen r1 in
    match e with
    | Some e => BStop (s, Some e)
    | None =>
      let '(dl, e, r3) := rd_full 4 r2 in
      match e with
      | Some e => BStop (s, Some e)
      | None =>
        let dlen := unle dl in
        match extract_value (S (length hdr)) hdr k_op with
        | Ok [] => BStop (s, Some EOther)
        | Ok (opb :: _) =>
          let '(data, e, r4) := rd_full dlen r3 in
          match e with
          | Some e => BStop (s, Some e)
          | None =>
            let '(base', chunk') := set_cur r4 in
            let op := Byte.to_N opb in
            if op =? 5 then
              match extract_value (S (length hdr)) hdr k_compression with
              | Ok comp =>
                if bytes_eqb comp s_none then
                  BCont base' (Some {| r_buf := data; r_end := None; r_seek := true |}) s
                else if bytes_eqb comp s_lz4 || bytes_eqb comp s_bz2 then
                  let '(plain, pend) := dstream comp data None in
                  BCont base' (Some {| r_buf := plain; r_end := pend; r_seek := false |}) s
                else BStop (s, Some EOther)
              | Err e => BStop (s, Some e)
              | _ => BStop (s, Some EOther)
              end
            else if op =? 7 then
              match on_connection o lib compress hdr data s with
              | (s', None) => BCont base' chunk' s'
              | (s', Some e) => BStop (s', Some e)
              end
            else if op =? 2 then
              match on_message o lib compress hdr data s with
              | (s', None) => BCont base' chunk' s'
              | (s', Some e) => BStop (s', Some e)
              end
            else BCont base' chunk' s
          end
        | Err e => BStop (s, Some e)
        | _ => BStop (s, Some EOther)
        end
      end
    end
  end.

(* the model's loop is the iteration of bag_step *)
Lemma bag_loop_step f base chunk s :
  bag_loop o lib compress dstream (S f) base chunk s
  = match bag_step base chunk s with
    | BCont b c s' => bag_loop o lib compress dstream f b c s'
    | BStop r => r
    end.
Proof.
  unfold bag_step. cbn [bag_loop].
  repeat match goal with
  | |- context [match ?x with _ => _ end] => destruct x
  end; reflexivity.
Qed.


(* the walk with explicit exhaustion: None = out of fuel *)
Fixpoint bag_run (f : nat) (base : rdr) (chunk : option rdr) (s : bstate) : option (bstate * option err) :=
  match f with
  | O => None
  | S f => match bag_step base chunk s with
           | BCont b c s' => bag_run f b c s'
           | BStop r => Some r
           end
  end.

Lemma bag_run_sound : forall f base chunk s r,
  bag_run f base chunk s = Some r -> bag_loop o lib compress dstream f base chunk s = r.
Proof.
  induction f as [|f IH]; intros base chunk s r H; [discriminate|].
  rewrite bag_loop_step. cbn [bag_run] in H. destruct (bag_step base chunk s) as [b c s'|r'].
  - apply IH. exact H.
  - congruence.
Qed.

Lemma bag_run_mono : forall f base chunk s r f',
  bag_run f base chunk s = Some r -> (f <= f')%nat -> bag_run f' base chunk s = Some r.
Proof.
  induction f as [|f IH]; intros base chunk s r f' H Hle; [discriminate|].
  destruct f' as [|f']; [lia|]. cbn [bag_run] in H |- *.
  destruct (bag_step base chunk s) as [b c s'|r']; [|exact H].
  apply IH with (1 := H). lia.
Qed.

(* running out of fuel is reported by the model as EOther *)
Lemma bag_run_none : forall f base chunk s,
  bag_run f base chunk s = None -> exists s', bag_loop o lib compress dstream f base chunk s = (s', Some EOther).
Proof.
  induction f as [|f IH]; intros base chunk s H.
  - exists s. reflexivity.
  - rewrite bag_loop_step. cbn [bag_run] in H. destruct (bag_step base chunk s) as [b c s'|r']; [|discriminate].
    apply IH. exact H.
Qed.

(* ----- what a successful read gives ----- *)

(* the ways an iteration continues *)
Lemma bag_step_cont base chunk s b c s' :
  bag_step base chunk s = BCont b c s' ->
  (exists r0, chunk = Some r0 /\ b = base /\ c = None) \/
  (exists hl hdr dl data r4,
     r_buf (cur_of chunk base) = hl ++ hdr ++ dl ++ data ++ r_buf r4 /\ blen hl = 4 /\ blen dl = 4 /\
     ((b, c) = after chunk base r4
      \/ (b = fst (after chunk base r4) /\ c = Some {| r_buf := data; r_end := None; r_seek := true |})
      \/ (exists comp, extract_value (S (length hdr)) hdr k_compression = Ok comp /\
                       (comp = s_lz4 \/ comp = s_bz2) /\
                       b = fst (after chunk base r4) /\
                       c = Some {| r_buf := fst (dstream comp data None); r_end := snd (dstream comp data None);
                                   r_seek := false |}))).
Proof.
  intros H. unfold bag_step in H. fold (cur_of chunk base) in H.
  destruct (rd_full 4 (cur_of chunk base)) as [[hl e1] r1] eqn:E1. destruct e1 as [e1|].
  { left. destruct e1; try discriminate. destruct chunk as [r0|]; [|discriminate].
    inversion H; subst. exists r0. repeat split. }
  destruct (rd_full (unle hl) r1) as [[hdr e2] r2] eqn:E2. destruct e2; [discriminate|].
  destruct (rd_full 4 r2) as [[dl e3] r3] eqn:E3. destruct e3; [discriminate|].
  destruct (extract_value (S (length hdr)) hdr k_op) as [[|opb opr]| | | |] eqn:Eop; try discriminate.
  destruct (rd_full (unle dl) r3) as [[data e4] r4] eqn:E4. destruct e4; [discriminate|].
  right. exists hl, hdr, dl, data, r4.
  apply rd_full_ok in E1 as [B1 L1]. apply rd_full_ok in E2 as [B2 L2].
  apply rd_full_ok in E3 as [B3 L3]. apply rd_full_ok in E4 as [B4 L4].
  split; [rewrite B1, B2, B3, B4; reflexivity|]. split; [exact L1|]. split; [exact L3|].
  fold (after chunk base r4) in H. destruct (after chunk base r4) as [base' chunk'] eqn:Ea. cbn [fst].
  destruct (Byte.to_N opb =? 5).
  { destruct (extract_value (S (length hdr)) hdr k_compression) as [comp| | | |] eqn:Ec; try discriminate.
    destruct (bytes_eqb comp s_none).
    { inversion H; subst. right. left. split; reflexivity. }
    destruct (bytes_eqb comp s_lz4 || bytes_eqb comp s_bz2) eqn:Eo; [|discriminate].
    destruct (dstream comp data None) as [plain pend] eqn:Ed. inversion H; subst.
    right. right. exists comp. split; [reflexivity|]. split.
    { apply orb_true_iff in Eo as [Eo|Eo]; apply bytes_eqb_eq in Eo; auto. }
    split; [reflexivity|rewrite Ed; reflexivity]. }
  destruct (Byte.to_N opb =? 7).
  { destruct (on_connection o lib compress hdr data s) as [s1 [e|]]; [discriminate|]. inversion H; subst. left. reflexivity. }
  destruct (Byte.to_N opb =? 2).
  { destruct (on_message o lib compress hdr data s) as [s1 [e|]]; [discriminate|]. inversion H; subst. left. reflexivity. }
  inversion H; subst. left. reflexivity.
Qed.

End Total.

(* ----- "the decompressed bytes contain no compressed chunk header": substrings ----- *)
Definition has_sub (p buf : bytes) : Prop := exists a c, buf = a ++ p ++ c.
Definition cc (comp : bytes) : bytes := k_compression ++ x3d :: comp.
Definition clean (buf : bytes) : Prop := forall comp, comp = s_lz4 \/ comp = s_bz2 -> ~ has_sub (cc comp) buf.

Lemma has_sub_mid p x y z : has_sub p y -> has_sub p (x ++ y ++ z).
Proof.
  intros [a [c H]]. subst y. exists (x ++ a), (c ++ z). rewrite <- !app_assoc. reflexivity.
Qed.
Lemma has_sub_r p x y : has_sub p y -> has_sub p (x ++ y).
Proof. intros H. rewrite <- (app_nil_r y). apply has_sub_mid. exact H. Qed.
Lemma has_sub_self p x z : has_sub p (x ++ p ++ z).
Proof. exists x, z. reflexivity. Qed.

Lemma clean_mid x y z : clean (x ++ y ++ z) -> clean y.
Proof. intros H comp Hc Hs. apply (H comp Hc). apply has_sub_mid. exact Hs. Qed.
Lemma clean_r x y : clean (x ++ y) -> clean y.
Proof. intros H comp Hc Hs. apply (H comp Hc). apply has_sub_r. exact Hs. Qed.

Lemma split_eq_some : forall s acc k v, split_eq s acc = Some (k, v) -> rev acc ++ s = k ++ x3d :: v.
Proof.
  induction s as [|b s IH]; intros acc k v H; [discriminate|].
  cbn [split_eq] in H. destruct (Byte.to_N b =? 61) eqn:E.
  - inversion H; subst. assert (b = x3d) by (apply to_N_inj; apply N.eqb_eq in E; rewrite E; reflexivity).
    subst b. reflexivity.
  - apply IH in H. cbn [rev] in H. rewrite <- app_assoc in H. exact H.
Qed.

Lemma extract_value_sub key : forall f hdr v, extract_value f hdr key = Ok v -> has_sub (key ++ x3d :: v) hdr.
Proof.
  induction f as [|f IH]; intros hdr v H; [discriminate|].
  destruct hdr as [|b0 hdr0]; [discriminate|]. remember (b0 :: hdr0) as hdr eqn:Eh.
  destruct (Nat.ltb_spec (length hdr) 4) as [Hs|Hs].
  - rewrite extract_value_short in H by (subst; congruence || assumption). discriminate.
  - rewrite extract_value_S in H by assumption. cbv zeta in H.
    set (n := unle (firstn 4 hdr)) in *. set (rest := skipn 4 hdr) in *.
    assert (Hh : hdr = firstn 4 hdr ++ take n rest ++ drop n rest).
    { rewrite take_drop. symmetry. apply firstn_skipn. }
    destruct (blen rest <? n); [discriminate|].
    destruct (split_eq (take n rest) []) as [[k v']|] eqn:Es; [|discriminate].
    apply split_eq_some in Es. cbn [rev app] in Es.
    destruct (bytes_eqb k key) eqn:Ek.
    + apply bytes_eqb_eq in Ek. inversion H; subst k v'. rewrite Hh, Es. apply has_sub_self.
    + rewrite Hh. rewrite app_assoc. apply has_sub_r. apply IH. exact H.
Qed.


Section Measure.
Variable o : wopts.
Variable lib : bytes.
Variable compress : nat -> bytes -> bytes.
Variable dstream : doracle.
Variables B L : nat.
Hypothesis Hd : forall c a e, (length (fst (dstream c a e)) <= B)%nat /\ clean (fst (dstream c a e)).

Let K : nat := ((L + 1) * (B + 2))%nat.

(* the state of the walk has rank at most m *)
Definition Rk (base : rdr) (chunk : option rdr) (m : nat) : Prop :=
  (length (r_buf base) <= L)%nat /\
  match chunk with
  | None => (length (r_buf base) * K <= m)%nat
  | Some r => (clean (r_buf r) /\ (length (r_buf base) * K + length (r_buf r) + 1 <= m)%nat)
              \/ (length (r_buf base) * K + (length (r_buf r) + 1) * (B + 2) <= m)%nat
  end.

Lemma K_pos : (B + 2 <= K)%nat.
Proof. unfold K. nia. Qed.

Lemma rank_decreases base chunk s b c s' m :
  Rk base chunk m -> bag_step o lib compress dstream base chunk s = BCont b c s' ->
  exists m', (m' < m)%nat /\ Rk b c m'.
Proof.
  intros [HL HR] Hstep. pose proof K_pos as HK.
  apply bag_step_cont in Hstep as [(r0 & Hc & Hb & Hn)|(hl & hdr & dl & data & r4 & Hbuf & Hl1 & Hl2 & Hcase)].
  - (* pop *) subst. exists (length (r_buf base) * K)%nat. split; [|split; [assumption|lia]].
    destruct HR as [[_ HR]|HR]; nia.
  - assert (Hlen : (length (r_buf (cur_of chunk base)) = 8 + length hdr + length data + length (r_buf r4))%nat).
    { rewrite Hbuf, !app_length. unfold blen in Hl1, Hl2. lia. }
    destruct chunk as [r0|]; cbn [cur_of after fst] in *.
    + (* inside a chunk *)
      destruct Hcase as [Hcase|[[Hb Hc]|(comp & Hcomp & Hcc & Hb & Hc)]].
      * inversion Hcase; subst b c. destruct HR as [[Hcl HR]|HR].
        -- exists (length (r_buf base) * K + length (r_buf r4) + 1)%nat. split; [lia|]. split; [assumption|].
           left. cbn [r_buf]. split; [|lia]. rewrite Hbuf in Hcl. rewrite !app_assoc in Hcl. apply clean_r in Hcl. exact Hcl.
        -- exists (length (r_buf base) * K + (length (r_buf r4) + 1) * (B + 2))%nat. split; [nia|].
           split; [assumption|]. right. cbn [r_buf]. lia.
      * subst b c. cbn [r_buf]. destruct HR as [[Hcl HR]|HR].
        -- exists (length (r_buf base) * K + length data + 1)%nat. split; [lia|]. split; [assumption|].
           left. cbn [r_buf]. split; [|lia]. rewrite Hbuf in Hcl.
           replace (hl ++ hdr ++ dl ++ data ++ r_buf r4) with ((hl ++ hdr ++ dl) ++ data ++ r_buf r4) in Hcl
             by (rewrite <- !app_assoc; reflexivity).
           apply clean_mid in Hcl. exact Hcl.
        -- exists (length (r_buf base) * K + (length data + 1) * (B + 2))%nat. split; [nia|].
           split; [assumption|]. right. cbn [r_buf]. lia.
      * subst b c. cbn [r_buf]. destruct (Hd comp data None) as [HB Hclean].
        destruct HR as [[Hcl HR]|HR].
        -- exfalso. apply extract_value_sub in Hcomp. apply (Hcl comp Hcc). rewrite Hbuf.
           apply has_sub_mid. exact Hcomp.
        -- exists (length (r_buf base) * K + length (fst (dstream comp data None)) + 1)%nat. split; [nia|].
           split; [assumption|]. left. cbn [r_buf]. split; [exact Hclean|lia].
    + (* top level *)
      destruct Hcase as [Hcase|[[Hb Hc]|(comp & Hcomp & Hcc & Hb & Hc)]].
      * inversion Hcase; subst b c. exists (length (r_buf r4) * K)%nat. split; [nia|]. split; lia.
      * subst b c. cbn [r_buf]. exists (length (r_buf r4) * K + (length data + 1) * (B + 2))%nat.
        split; [unfold K in *; nia|]. split; [lia|]. right. cbn [r_buf]. lia.
      * subst b c. cbn [r_buf]. destruct (Hd comp data None) as [HB Hclean].
        exists (length (r_buf r4) * K + length (fst (dstream comp data None)) + 1)%nat.
        split; [nia|]. split; [lia|]. left. cbn [r_buf]. split; [exact Hclean|lia].
Qed.

Lemma bag_run_total : forall f m base chunk s,
  Rk base chunk m -> (m < f)%nat -> exists r, bag_run o lib compress dstream f base chunk s = Some r.
Proof.
  induction f as [|f IH]; intros m base chunk s HR Hm; [lia|].
  cbn [bag_run]. destruct (bag_step o lib compress dstream base chunk s) as [b c s'|r] eqn:E.
  - destruct (rank_decreases _ _ _ _ _ _ _ HR E) as (m' & Hlt & HR'). apply (IH m'); [assumption|lia].
  - exists r. reflexivity.
Qed.

End Measure.

Definition oracle_bounded_clean (dstream : doracle) (B : nat) : Prop :=
  forall c a e, (length (fst (dstream c a e)) <= B)%nat /\ clean (fst (dstream c a e)).
Definition walk_fuel (L B : nat) : nat := S (L * ((L + 1) * (B + 2))).

Lemma walk_fuel_mono L L' B : (L' <= L)%nat -> (walk_fuel L' B <= walk_fuel L B)%nat.
Proof.
  intros H. unfold walk_fuel. apply le_n_S. apply Nat.mul_le_mono; [assumption|].
  apply Nat.mul_le_mono; lia.
Qed.

Theorem bag_loop_total o lib compress dstream B base s fuel :
  oracle_bounded_clean dstream B ->
  (walk_fuel (length (r_buf base)) B <= fuel)%nat ->
  exists r, bag_run o lib compress dstream fuel base None s = Some r /\
            forall fuel', (fuel <= fuel')%nat -> bag_loop o lib compress dstream fuel' base None s = r.
Proof.
  intros Hd Hf. unfold walk_fuel in Hf.
  destruct (bag_run_total o lib compress dstream B (length (r_buf base)) Hd fuel
              (length (r_buf base) * ((length (r_buf base) + 1) * (B + 2)))%nat base None s) as [r Hr].
  - split; [lia|]. cbn. lia.
  - lia.
  - exists r. split; [exact Hr|]. intros fuel' Hle. apply bag_run_sound. apply bag_run_mono with (1 := Hr). exact Hle.
Qed.

(* the conversion as a whole does not depend on the fuel once there is enough of it *)
Theorem bag2mcap_fuel_independent o lib compress dstream B input fuel1 fuel2 :
  oracle_bounded_clean dstream B ->
  (walk_fuel (length input) B <= fuel1)%nat -> (walk_fuel (length input) B <= fuel2)%nat ->
  bag2mcap o lib compress dstream fuel1 input = bag2mcap o lib compress dstream fuel2 input.
Proof.
  intros Hd H1 H2. unfold bag2mcap.
  destruct (new_writer (effective_opts o) None) as [w [e|]]; [reflexivity|].
  destruct (wstep (effective_opts o) lib compress _ _) as [s1 [e|]]; [reflexivity|].
  destruct (rd_full 13 _) as [[m e] r1] eqn:Er. destruct e as [e|]; [reflexivity|].
  destruct (negb (bytes_eqb m bag_magic)); [reflexivity|].
  apply rd_full_ok in Er as [Hb _]. cbn [r_buf] in Hb.
  assert (Hlen : (length (r_buf r1) <= length input)%nat) by (rewrite Hb, app_length; lia).
  pose proof (walk_fuel_mono _ _ B Hlen) as Hm.
  destruct (bag_loop_total (effective_opts o) lib compress dstream B r1 s1 (walk_fuel (length (r_buf r1)) B) Hd (le_n _))
    as (r & _ & Hr).
  rewrite (Hr fuel1), (Hr fuel2) by lia. reflexivity.
Qed.

(* ----- the walk does NOT terminate for every length-bounded oracle: nested compressed chunks ----- *)
Definition quine_chunk : bytes := render_record (render_fields (chunk_hdr s_lz4 0)) [].
Definition quine_oracle : doracle := fun _ _ _ => (quine_chunk, None).

Lemma quine_oracle_bounded : forall c a e, (length (fst (quine_oracle c a e)) <= 48)%nat.
Proof. intros. vm_compute. lia. Qed.

Lemma bag_run_diverges_in_chunk o lib compress : forall f base s,
  bag_run o lib compress quine_oracle f base (Some {| r_buf := quine_chunk; r_end := None; r_seek := false |}) s = None.
Proof.
  induction f as [|f IH]; intros base s; [reflexivity|].
  cbn [bag_run].
  change (bag_step o lib compress quine_oracle base (Some {| r_buf := quine_chunk; r_end := None; r_seek := false |}) s)
    with (BCont base (Some {| r_buf := quine_chunk; r_end := None; r_seek := false |}) s).
  apply IH.
Qed.

Theorem bag_run_diverges o lib compress fuel s :
  bag_run o lib compress quine_oracle fuel {| r_buf := quine_chunk; r_end := None; r_seek := false |} None s = None.
Proof.
  destruct fuel as [|f]; [reflexivity|]. cbn [bag_run].
  change (bag_step o lib compress quine_oracle {| r_buf := quine_chunk; r_end := None; r_seek := false |} None s)
    with (BCont {| r_buf := []; r_end := None; r_seek := false |}
                (Some {| r_buf := quine_chunk; r_end := None; r_seek := false |}) s).
  apply bag_run_diverges_in_chunk.
Qed.

(* ====================================================================================== *)
(* Readable consequences for expected_calls                                               *)
(* ====================================================================================== *)

Fixpoint number_from {A} (i : N) (l : list A) : list (N * A) :=
  match l with [] => [] | x :: r => (i, x) :: number_from (i + 1) r end.

Lemma number_from_app {A} (l1 : list A) : forall i l2,
  number_from i (l1 ++ l2) = number_from i l1 ++ number_from (i + N.of_nat (length l1)) l2.
Proof.
  induction l1 as [|x l1 IH]; intros i l2; cbn [app number_from length].
  - rewrite N.add_0_r. reflexivity.
  - rewrite IH. replace (i + N.of_nat (S (length l1))) with (i + 1 + N.of_nat (length l1)) by lia. reflexivity.
Qed.

Lemma number_from_bound {A} (l : list A) : forall i j x, In (j, x) (number_from i l) -> i <= j < i + N.of_nat (length l).
Proof.
  induction l as [|y l IH]; intros i j x H; cbn [number_from In length] in H |- *; [contradiction|].
  destruct H as [H|H]; [inversion H; lia|]. apply IH in H. lia.
Qed.

(* ----- messages ----- *)
Definition rec_msg (r : brec) : list (N * N * N * bytes) :=
  match r with BMsg c s n d => [(c, s, n, d)] | _ => [] end.
Definition bag_msgs (b : abag) : list (N * N * N * bytes) := flat_map rec_msg (bag_recs b).
Definition call_msg (c : wcall) : list message := match c with CMessage m => [m] | _ => [] end.
Definition calls_msgs (cs : list wcall) : list message := flat_map call_msg cs.
Definition msg_of (im : N * (N * N * N * bytes)) : message :=
  let '(i, (c, s, n, d)) := im in msg_message c s n d i.

Lemma calls_msgs_recs : forall l sk sq,
  calls_msgs (fst (recs_calls l (sk, sq))) = map msg_of (number_from sq (flat_map rec_msg l)) /\
  snd (snd (recs_calls l (sk, sq))) = sq + N.of_nat (length (flat_map rec_msg l)).
Proof.
  induction l as [|r l IH]; intros sk sq.
  - cbn. split; [reflexivity|lia].
  - rewrite recs_calls_cons. cbn [fst snd flat_map]. unfold calls_msgs. rewrite flat_map_app. fold (calls_msgs).
    destruct r as [id topic fields|c s n d|op extra data]; cbn [rec_calls rec_msg app].
    + destruct (sk_get (conn_key fields) sk); cbn [fst snd flat_map call_msg app]; apply IH.
    + cbn [fst snd flat_map call_msg app number_from map msg_of length].
      destruct (IH sk (sq + 1)) as [H1 H2]. fold (calls_msgs (fst (recs_calls l (sk, sq + 1)))).
      rewrite H1, H2. split; [reflexivity|lia].
    + cbn [fst snd flat_map call_msg app]. apply IH.
Qed.

(* one CMessage per bag message, in bag order, same bytes, both times = secs * 10^9 + nsecs, on the
   channel with the connection's id, sequence numbers 0, 1, 2, ... (as a uint32) *)
Theorem expected_messages b :
  calls_msgs (expected_calls b) = map msg_of (number_from 0 (bag_msgs b)).
Proof.
  unfold expected_calls, calls_msgs. cbn [flat_map call_msg app]. rewrite flat_map_app. cbn [flat_map call_msg].
  rewrite app_nil_r. apply (calls_msgs_recs (bag_recs b) [] 0).
Qed.

Lemma msg_of_fields i c s n d :
  let m := msg_of (i, (c, s, n, d)) in
  m_chan m = c /\ m_seq m = i mod two32 /\ m_log m = s * 1000000000 + n /\ m_pub m = s * 1000000000 + n /\ m_data m = d.
Proof. cbn. repeat split. Qed.

Corollary expected_messages_count b : length (calls_msgs (expected_calls b)) = length (bag_msgs b).
Proof.
  rewrite expected_messages, map_length. generalize 0. induction (bag_msgs b) as [|x l IH]; intros i; cbn [number_from length]; [reflexivity|].
  rewrite IH. reflexivity.
Qed.

Corollary expected_messages_data b : map m_data (calls_msgs (expected_calls b)) = map (fun x => snd x) (bag_msgs b).
Proof.
  rewrite expected_messages, map_map. generalize 0. induction (bag_msgs b) as [|[[[c s] n] d] l IH]; intros i; cbn [number_from map]; [reflexivity|].
  rewrite IH. reflexivity.
Qed.

Corollary expected_messages_seq b : N.of_nat (length (bag_msgs b)) <= two32 ->
  map m_seq (calls_msgs (expected_calls b)) = map fst (number_from 0 (bag_msgs b)).
Proof.
  intros Hn. rewrite expected_messages, map_map. apply map_ext_in. intros [i [[[c s] n] d]] Hin.
  apply number_from_bound in Hin. cbn. apply N.mod_small. lia.
Qed.

(* ----- schemas ----- *)
Definition rec_conn (r : brec) : list (N * bytes * kvs) :=
  match r with BConn id topic fields => [(id, topic, fields)] | _ => [] end.
Definition bag_conns (b : abag) : list (N * bytes * kvs) := flat_map rec_conn (bag_recs b).
Definition call_schema (c : wcall) : list schema := match c with CSchema s => [s] | _ => [] end.
Definition calls_schemas (cs : list wcall) : list schema := flat_map call_schema cs.
Definition call_channel (c : wcall) : list channel := match c with CChannel s => [s] | _ => [] end.
Definition calls_channels (cs : list wcall) : list channel := flat_map call_channel cs.

Definition seen_b (key : bytes) (seen : list bytes) : bool := existsb (fun k => bytes_eqb k key) seen.
(* the connections that introduce a new "type/md5sum" key, in order *)
Fixpoint firsts (l : list (N * bytes * kvs)) (seen : list bytes) : list kvs :=
  match l with
  | [] => []
  | (_, _, f) :: r => if seen_b (conn_key f) seen then firsts r seen else f :: firsts r (seen ++ [conn_key f])
  end.
Definition schema_of (x : N * kvs) : schema := conn_schema (snd x) ((fst x + 1) mod two16).
Definition entry_of (x : N * kvs) : bytes * N := (conn_key (snd x), (fst x + 1) mod two16).

Lemma sk_get_seen key : forall sk, sk_get key sk = None <-> seen_b key (map fst sk) = false.
Proof.
  induction sk as [|x sk IH]; cbn [sk_get map seen_b existsb]; [tauto|].
  destruct (bytes_eqb (fst x) key); cbn [orb]; [split; discriminate|exact IH].
Qed.

Lemma calls_schemas_recs : forall l sk sq,
  let new := number_from (N.of_nat (length sk)) (firsts (flat_map rec_conn l) (map fst sk)) in
  calls_schemas (fst (recs_calls l (sk, sq))) = map schema_of new /\
  fst (snd (recs_calls l (sk, sq))) = sk ++ map entry_of new.
Proof.
  induction l as [|r l IH]; intros sk sq.
  - cbn. rewrite app_nil_r. split; reflexivity.
  - rewrite recs_calls_cons. cbn [fst snd flat_map]. unfold calls_schemas. rewrite flat_map_app. fold calls_schemas.
    destruct r as [id topic fields|c s n d|op extra data]; cbn [rec_calls rec_conn app].
    + cbn [firsts]. destruct (sk_get (conn_key fields) sk) as [sid|] eqn:E.
      * assert (Hs : seen_b (conn_key fields) (map fst sk) = true).
        { destruct (seen_b (conn_key fields) (map fst sk)) eqn:E2; [reflexivity|]. apply sk_get_seen in E2. congruence. }
        rewrite Hs. cbn [fst snd flat_map call_schema app]. apply IH.
      * apply sk_get_seen in E. rewrite E. cbn [fst snd flat_map call_schema app number_from map].
        specialize (IH (sk ++ [(conn_key fields, (N.of_nat (length sk) + 1) mod two16)]) sq).
        rewrite map_app, app_length in IH. cbn [map fst length] in IH.
        replace (N.of_nat (length sk + 1)) with (N.of_nat (length sk) + 1) in IH by lia.
        destruct IH as [H1 H2]. fold (calls_schemas (fst (recs_calls l (sk ++ [(conn_key fields, (N.of_nat (length sk) + 1) mod two16)], sq)))).
        rewrite H1, H2. rewrite <- app_assoc. split; reflexivity.
    + cbn [fst snd flat_map call_schema app]. apply IH.
    + cbn [fst snd flat_map call_schema app]. apply IH.
Qed.

(* one CSchema per distinct "type/md5sum" key, at the first connection that carries it, numbered 1, 2, ... (as a
   uint16), named by the connection's type, encoding "ros1msg", data = its message_definition *)
Theorem expected_schemas b :
  calls_schemas (expected_calls b) = map schema_of (number_from 0 (firsts (bag_conns b) [])).
Proof.
  unfold expected_calls, calls_schemas. cbn [flat_map call_schema app]. rewrite flat_map_app. cbn [flat_map call_schema].
  rewrite app_nil_r. apply (calls_schemas_recs (bag_recs b) [] 0).
Qed.

Lemma seen_b_app key a b : seen_b key (a ++ b) = seen_b key a || seen_b key b.
Proof. apply existsb_app. Qed.

Lemma seen_b_in key seen : seen_b key seen = true <-> In key seen.
Proof.
  unfold seen_b. rewrite existsb_exists. split.
  - intros [k [Hin Hk]]. apply bytes_eqb_eq in Hk. subst. exact Hin.
  - intros Hin. exists key. split; [exact Hin|apply bytes_eqb_refl].
Qed.

(* "in bijection with the distinct keys": the keys of the introducing connections are pairwise distinct, are not
   among those seen before, and every connection's key is seen before or introduced *)
Lemma firsts_spec : forall l seen,
  NoDup (map conn_key (firsts l seen)) /\
  (forall k, In k (map conn_key (firsts l seen)) -> ~ In k seen) /\
  (forall c, In c l -> In (conn_key (snd c)) (seen ++ map conn_key (firsts l seen))).
Proof.
  induction l as [|[[id topic] f] l IH]; intros seen.
  - cbn. split; [constructor|]. split; intros; contradiction.
  - cbn [firsts]. destruct (seen_b (conn_key f) seen) eqn:E.
    + destruct (IH seen) as (H1 & H2 & H3). split; [exact H1|]. split; [exact H2|].
      intros c [Hc|Hc]; [subst c; cbn [snd]; apply in_or_app; left; apply seen_b_in; exact E|apply H3; exact Hc].
    + destruct (IH (seen ++ [conn_key f])) as (H1 & H2 & H3). cbn [map].
      assert (Hnot : ~ In (conn_key f) seen) by (rewrite <- seen_b_in; congruence).
      split.
      { constructor; [|exact H1]. intros Hin. apply (H2 _ Hin). apply in_or_app. right. left. reflexivity. }
      split.
      { intros k [Hk|Hk]; [subst k; exact Hnot|]. intros Hs. apply (H2 _ Hk). apply in_or_app. left. exact Hs. }
      intros c [Hc|Hc].
      { subst c. cbn [snd]. apply in_or_app. right. left. reflexivity. }
      specialize (H3 c Hc). rewrite <- app_assoc in H3. exact H3.
Qed.

Theorem expected_schemas_distinct b :
  NoDup (map conn_key (firsts (bag_conns b) [])) /\
  (forall c, In c (bag_conns b) -> In (conn_key (snd c)) (map conn_key (firsts (bag_conns b) []))).
Proof.
  destruct (firsts_spec (bag_conns b) []) as (H1 & _ & H3). split; [exact H1|exact H3].
Qed.

Corollary expected_schema_ids b : N.of_nat (length (firsts (bag_conns b) [])) <= 65535 ->
  map s_id (calls_schemas (expected_calls b)) = map (fun x => fst x + 1) (number_from 0 (firsts (bag_conns b) [])).
Proof.
  intros Hn. rewrite expected_schemas, map_map. apply map_ext_in. intros [i f] Hin.
  apply number_from_bound in Hin. cbn. apply N.mod_small. unfold two16. lia.
Qed.


(* ----- channels ----- *)
Lemma sk_get_app key sk v ext : sk_get key sk = Some v -> sk_get key (sk ++ ext) = Some v.
Proof.
  induction sk as [|x sk IH]; cbn [sk_get app]; [discriminate|].
  destruct (bytes_eqb (fst x) key); [tauto|exact IH].
Qed.
Lemma sk_get_last key sk v : sk_get key sk = None -> sk_get key (sk ++ [(key, v)]) = Some v.
Proof.
  induction sk as [|x sk IH]; cbn [sk_get app fst snd].
  - rewrite bytes_eqb_refl. reflexivity.
  - destruct (bytes_eqb (fst x) key); [discriminate|exact IH].
Qed.

Definition sid_in (T : sktab) (fields : kvs) : N := match sk_get (conn_key fields) T with Some v => v | None => 0 end.
Definition channel_of (T : sktab) (c : N * bytes * kvs) : channel :=
  let '(id, topic, fields) := c in conn_channel id topic fields (sid_in T fields).

Lemma recs_calls_table_ext : forall l sk sq, exists ext, fst (snd (recs_calls l (sk, sq))) = sk ++ ext.
Proof. intros l sk sq. destruct (calls_schemas_recs l sk sq) as [_ H]. eexists. exact H. Qed.

Lemma calls_channels_recs : forall l sk sq,
  calls_channels (fst (recs_calls l (sk, sq)))
  = map (channel_of (fst (snd (recs_calls l (sk, sq))))) (flat_map rec_conn l).
Proof.
  induction l as [|r l IH]; intros sk sq; [reflexivity|].
  rewrite recs_calls_cons. cbn [fst snd flat_map]. unfold calls_channels. rewrite flat_map_app. fold calls_channels.
  rewrite map_app.
  destruct (rec_calls r (sk, sq)) as [c [sk1 sq1]] eqn:E. cbn [fst snd].
  rewrite IH. f_equal.
  destruct (recs_calls_table_ext l sk1 sq1) as [ext Hext]. rewrite Hext.
  destruct r as [id topic fields|c0 s n d|op extra data]; cbn [rec_calls rec_conn map] in E |- *.
  - destruct (sk_get (conn_key fields) sk) as [sid|] eqn:Es; inversion E; subst; cbn [calls_channels flat_map call_channel app channel_of];
      unfold sid_in.
    + rewrite (sk_get_app _ _ _ ext Es). reflexivity.
    + rewrite (sk_get_app _ _ _ ext (sk_get_last _ _ _ Es)). reflexivity.
  - inversion E; subst. reflexivity.
  - inversion E; subst. reflexivity.
Qed.

(* one CChannel per connection record (repeated ones too), with the connection's id and topic, encoding "ros1",
   the remaining header fields as metadata, and the schema id assigned to its "type/md5sum" key *)
Theorem expected_channels b :
  calls_channels (expected_calls b)
  = map (channel_of (map entry_of (number_from 0 (firsts (bag_conns b) [])))) (bag_conns b).
Proof.
  unfold expected_calls, calls_channels. cbn [flat_map call_channel app]. rewrite flat_map_app. cbn [flat_map call_channel].
  rewrite app_nil_r.
  pose proof (calls_channels_recs (bag_recs b) [] 0) as Hc.
  destruct (calls_schemas_recs (bag_recs b) [] 0) as [_ H].
  etransitivity; [exact Hc|]. apply (f_equal (fun T => map (channel_of T) (bag_conns b))). exact H.
Qed.

(* ----- the map built from the connection data: the last field with a given key wins ----- *)
Lemma kv_get_set_same k v : forall l, kv_get k (kv_set k v l) = v.
Proof.
  induction l as [|x l IH]; cbn [kv_set kv_get fst snd].
  - rewrite bytes_eqb_refl. reflexivity.
  - destruct (bytes_eqb (fst x) k) eqn:E1; cbn [kv_get fst snd].
    + rewrite bytes_eqb_refl. reflexivity.
    + destruct (bytes_ltb k (fst x)); cbn [kv_get fst snd].
      * rewrite bytes_eqb_refl. reflexivity.
      * rewrite E1. exact IH.
Qed.
Lemma kv_get_set_other k k' v : bytes_eqb k' k = false -> forall l, kv_get k (kv_set k' v l) = kv_get k l.
Proof.
  intros Hne. induction l as [|x l IH]; cbn [kv_set kv_get fst snd].
  - rewrite Hne. reflexivity.
  - destruct (bytes_eqb (fst x) k') eqn:E1; cbn [kv_get fst snd].
    + rewrite Hne. apply bytes_eqb_eq in E1. rewrite E1, Hne. reflexivity.
    + destruct (bytes_ltb k' (fst x)); cbn [kv_get fst snd].
      * rewrite Hne. reflexivity.
      * rewrite IH. reflexivity.
Qed.

Lemma kv_get_fold k : forall l acc,
  kv_get k (fold_left (fun acc kv => kv_set (fst kv) (snd kv) acc) l acc)
  = match kv_find k (rev l) with Some v => v | None => kv_get k acc end.
Proof.
  induction l as [|[k' v] l IH]; intros acc; [reflexivity|].
  cbn [fold_left fst snd rev]. rewrite IH.
  assert (Hf : forall a, kv_find k (a ++ [(k', v)]) = match kv_find k a with Some x => Some x | None => if bytes_eqb k' k then Some v else None end).
  { induction a as [|y a IHa]; cbn [app kv_find fst snd]; [destruct (bytes_eqb k' k); reflexivity|].
    destruct (bytes_eqb (fst y) k); [reflexivity|exact IHa]. }
  rewrite Hf. destruct (kv_find k (rev l)); [reflexivity|].
  destruct (bytes_eqb k' k) eqn:E.
  - apply bytes_eqb_eq in E. subst k'. apply kv_get_set_same.
  - apply kv_get_set_other. exact E.
Qed.

Theorem conn_map_get k fields :
  kv_get k (conn_map fields) = match kv_find k (rev fields) with Some v => v | None => [] end.
Proof. unfold conn_map. rewrite kv_get_fold. reflexivity. Qed.

Corollary conn_meta_get k fields : bytes_eqb k_type k = false -> bytes_eqb k_msgdef k = false ->
  kv_get k (conn_meta fields) = match kv_find k (rev fields) with Some v => v | None => [] end.
Proof.
  intros H1 H2. unfold conn_meta. rewrite !kv_get_del_other by assumption. apply conn_map_get.
Qed.

(* ----- a checkable form of `clean` (for concrete oracle tables) ----- *)
Fixpoint prefix_b (p buf : bytes) : bool :=
  match p, buf with
  | [], _ => true
  | x :: p', y :: buf' => Byte.eqb x y && prefix_b p' buf'
  | _ :: _, [] => false
  end.
Fixpoint sub_b (p buf : bytes) : bool :=
  prefix_b p buf || match buf with [] => false | _ :: r => sub_b p r end.
Definition clean_b (buf : bytes) : bool := negb (sub_b (cc s_lz4) buf) && negb (sub_b (cc s_bz2) buf).

Lemma prefix_b_app p c : prefix_b p (p ++ c) = true.
Proof. induction p as [|x p IH]; cbn [prefix_b app]; [reflexivity|]. rewrite IH, (proj2 (byte_eqb_eq x x) eq_refl). reflexivity. Qed.

Lemma has_sub_b p : forall buf, has_sub p buf -> sub_b p buf = true.
Proof.
  intros buf [a [c H]]. subst buf. induction a as [|x a IH]; cbn [app].
  - destruct (p ++ c) eqn:E; cbn [sub_b]; rewrite <- E, prefix_b_app; reflexivity.
  - cbn [sub_b]. rewrite IH. apply orb_true_r.
Qed.

Lemma clean_b_clean buf : clean_b buf = true -> clean buf.
Proof.
  unfold clean_b. intros H comp Hc Hs. apply has_sub_b in Hs.
  apply andb_true_iff in H as [H1 H2]. destruct Hc; subst comp; rewrite Hs in *; discriminate.
Qed.

(* ----- the termination statement with only a length bound on the oracle is false ----- *)
Definition walk_terminates_for_length_bounded_oracles : Prop :=
  forall o lib compress (dstream : doracle) (B : nat) base s,
    (forall c a e, (length (fst (dstream c a e)) <= B)%nat) ->
    exists fuel, bag_run o lib compress dstream fuel base None s <> None.

Theorem walk_terminates_for_length_bounded_oracles_false : ~ walk_terminates_for_length_bounded_oracles.
Proof.
  intros H.
  destruct (H (ex_opts false) ex_lib ex_compress quine_oracle 48%nat
              {| r_buf := quine_chunk; r_end := None; r_seek := false |}
              {| b_w := init_state; b_seq := 0; b_schemas := [] |} quine_oracle_bounded) as [fuel Hf].
  apply Hf. apply bag_run_diverges.
Qed.

(* ----- concrete instances (non-vacuity) ----- *)
Definition ex_payload : bytes := str [1;2;3;4].
Definition ex_chunk_recs : list brec :=
  [BConn 3 (str [47;99]) ex_fields2; BMsg 3 7 8 (str [5;6])].
Definition ex_bag_comp : abag :=
  [ BTop [BConn 0 (str [47;97]) ex_fields1; BMsg 0 1 5 (str [1;2;3])];
    BChunkComp s_lz4 ex_payload ex_chunk_recs;
    BTop [BMsg 3 9 9 (str [])] ].
Definition ex_table_oracle : doracle :=
  fun comp a e => if bytes_eqb a ex_payload then (render_recs ex_chunk_recs, None) else ([], e).

Lemma ex_table_oracle_ok : oracle_bounded_clean ex_table_oracle 200.
Proof.
  intros c a e. unfold ex_table_oracle. destruct (bytes_eqb a ex_payload); cbn [fst].
  - split; [vm_compute; lia|apply clean_b_clean; vm_compute; reflexivity].
  - split; [cbn; lia|apply clean_b_clean; reflexivity].
Qed.

Definition ex_bad_rec : brec := BConn 70000 (str [47;97]) ex_fields1.
Lemma ex_bad_rec_bad : bad_id_rec ex_bad_rec.
Proof. vm_compute. repeat split; reflexivity. Qed.

(* ----- the stricter well-formedness of the property text, and what it adds ----- *)
Fixpoint nodup_b (l : list bytes) : bool :=
  match l with [] => true | x :: r => negb (seen_b x r) && nodup_b r end.
Definition has_key (k : bytes) (l : kvs) : bool := match kv_find k l with Some _ => true | None => false end.
Definition fields_strict (fields : kvs) : bool :=
  nodup_b (map fst fields) && has_key k_type fields && has_key k_md5 fields && has_key k_msgdef fields.

(* every message's connection id has a connection record earlier in the bag *)
Fixpoint conns_before (l : list brec) (seen : list N) : bool :=
  match l with
  | [] => true
  | BConn id _ _ :: r => conns_before r (id :: seen)
  | BMsg c _ _ _ :: r => existsb (N.eqb c) seen && conns_before r seen
  | BOther _ _ _ :: r => conns_before r seen
  end.

Definition bag_wf_strict (b : abag) : bool :=
  bag_wf b
  && forallb (fun c => fields_strict (snd c)) (bag_conns b)
  && conns_before (bag_recs b) []
  && (N.of_nat (length (firsts (bag_conns b) [])) <? 65535)
  && (N.of_nat (length (bag_msgs b)) <=? two32).

Lemma bag_wf_strict_wf b : bag_wf_strict b = true -> bag_wf b = true.
Proof. unfold bag_wf_strict. intros H. repeat (apply andb_true_iff in H as [H _]). exact H. Qed.

Lemma kv_find_none k : forall l, seen_b k (map fst l) = false -> kv_find k l = None.
Proof.
  induction l as [|x l IH]; cbn [map seen_b existsb kv_find]; [reflexivity|].
  intros H. apply orb_false_iff in H as [H1 H2]. rewrite H1. apply IH. exact H2.
Qed.

Lemma kv_find_snoc k k' v : forall a,
  kv_find k (a ++ [(k', v)]) = match kv_find k a with Some x => Some x | None => if bytes_eqb k' k then Some v else None end.
Proof.
  induction a as [|y a IHa]; cbn [app kv_find fst snd]; [destruct (bytes_eqb k' k); reflexivity|].
  destruct (bytes_eqb (fst y) k); [reflexivity|exact IHa].
Qed.

Lemma kv_find_rev k : forall l, nodup_b (map fst l) = true -> kv_find k (rev l) = kv_find k l.
Proof.
  induction l as [|[k' v] l IH]; intros H; [reflexivity|].
  cbn [map fst nodup_b] in H. apply andb_true_iff in H as [H1 H2]. apply negb_true_iff in H1.
  cbn [rev]. rewrite kv_find_snoc, (IH H2). cbn [kv_find fst snd].
  destruct (bytes_eqb k' k) eqn:E.
  - apply bytes_eqb_eq in E. subst k'. rewrite (kv_find_none k l H1). reflexivity.
  - destruct (kv_find k l); reflexivity.
Qed.

(* with distinct keys, the schema name / definition and the md5sum are the values of the fields so named *)
Theorem fields_strict_lookup fields : fields_strict fields = true ->
  kv_find k_type fields = Some (conn_type fields) /\
  kv_find k_md5 fields = Some (conn_md5 fields) /\
  kv_find k_msgdef fields = Some (conn_msgdef fields).
Proof.
  unfold fields_strict, has_key. intros H.
  apply andb_true_iff in H as [H H4]. apply andb_true_iff in H as [H H3]. apply andb_true_iff in H as [H1 H2].
  unfold conn_type, conn_md5, conn_msgdef. rewrite !conn_map_get, !(kv_find_rev _ _ H1).
  destruct (kv_find k_type fields); [|discriminate]. destruct (kv_find k_md5 fields); [|discriminate].
  destruct (kv_find k_msgdef fields); [|discriminate]. repeat split.
Qed.

Theorem bag2mcap_wf_strict o lib compress dstream b fuel :
  bag_wf_strict b = true -> bag_oracle dstream b -> (bag_fuel b <= fuel)%nat ->
  calls_ok (W o lib compress None (expected_calls b)) ->
  let R := bag2mcap o lib compress dstream fuel (render_bag b) in
  br_err R = None /\
  br_writes R = r_writes (W o lib compress None (expected_calls b)) /\
  br_final R = r_final (W o lib compress None (expected_calls b)).
Proof. intros H. apply bag2mcap_wf. apply bag_wf_strict_wf. exact H. Qed.
