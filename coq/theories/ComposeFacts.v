(* ComposeFacts.v - the writer model composed with the lexer model (C01, C11, C12, C16).

   Part 1  the logical records of a file: every item list is flattened into a list of
           `crec` (a framed record or an attachment), chunks being replaced by the records of
           their uncompressed content; what the lexer reports is a function of that list.
   Part 2  the writer: the data section of the ghost trace, flattened, is the sequence of
           records the calls asked for (per class: chunk boundaries erased, message indexes
           ignored).  Invariant CInv over run_calls, one lemma per writer function.
   Part 3  C01: write, then lex; decoding the returned tokens gives the written values back.
   Part 4  C11: unknown records are skipped; padded records parse to the same value.
   Part 5  C12: the layout is invisible.
   Part 6  concrete workloads (non-vacuity), with tactics that establish wf_file by computation.
   Part 7  C16: the pivot facts of the Go/Python interoperability check. *)
From Coq Require Import List NArith ZArith Bool Lia ZifyN ZifyNat ZifyBool.
From Coq.Strings Require Import Byte.
From RecordUpdate Require Import RecordSet.
From Mcap Require Import Bytes BytesFacts GoSem Crc32 Records RecordsFacts Writer WriterFactsA WriterFactsB
  Lexer LexSpec LexerFactsB.
Import ListNotations RecordSetNotations.
Open Scope N_scope.
Ltac Zify.zify_post_hook ::= Z.div_mod_to_equations.

(* ====================================================================== *)
(** * 1. logical records *)

Inductive crec :=
| CR (op : byte) (body : bytes)                       (* a framed record *)
| CA (a : attachment) (data : bytes) (crc : N).       (* an attachment record *)

Definition cr_of (r : byte * bytes) : crec := CR (fst r) (snd r).

(* the records of a chunk: decompress (unz compression stored) and split at the record frames *)
Definition chunk_recs (unz : bytes -> bytes -> bytes) (k : chunk) : list (byte * bytes) :=
  let p := unz (k_comp k) (k_records k) in split_records (length p) p.

Definition item_records (unz : bytes -> bytes -> bytes) (it : item) : list crec :=
  match it with
  | IMagic => []
  | IRec op body => [CR op body]
  | IChunk k => map cr_of (chunk_recs unz k)
  | IAttach a data crc => [CA a data crc]
  | IFooter ss sos crc =>
    [CR OpFooter (enc_footer {| f_summary_start := ss; f_summary_offset_start := sos; f_crc := crc |})]
  end.

Definition all_records (unz : bytes -> bytes -> bytes) (items : list item) : list crec :=
  flat_map (item_records unz) items.

Definition is_dataend (r : crec) : bool :=
  match r with CR op _ => Byte.eqb op OpDataEnd | CA _ _ _ => false end.

(* the data section: everything before the first DataEnd record *)
Fixpoint upto_dataend (l : list crec) : list crec :=
  match l with
  | [] => []
  | r :: t => if is_dataend r then [] else r :: upto_dataend t
  end.

Definition data_records (unz : bytes -> bytes -> bytes) (items : list item) : list crec :=
  upto_dataend (all_records unz items).

(* classes of records.  "auto": schema, channel, message - written into the active chunk when
   the writer is chunked.  "direct": header, metadata, attachments - always written straight to
   the destination. *)
Definition auto_op (op : byte) : bool :=
  Byte.eqb op OpSchema || Byte.eqb op OpChannel || Byte.eqb op OpMessage.
Definition direct_op (op : byte) : bool := Byte.eqb op OpHeader || Byte.eqb op OpMetadata.
Definition is_auto (r : crec) : bool := match r with CR op _ => auto_op op | CA _ _ _ => false end.
Definition is_direct (r : crec) : bool := match r with CR op _ => direct_op op | CA _ _ _ => true end.
Definition is_content (r : crec) : bool := is_auto r || is_direct r.
Definition is_att (r : crec) : bool := match r with CA _ _ _ => true | _ => false end.
Definition is_op (x : byte) (r : crec) : bool := match r with CR op _ => Byte.eqb op x | _ => false end.

(* the lexer's decompressor as an `unz` *)
Definition lunz (lo : lopts) (ds : doracle) : bytes -> bytes -> bytes :=
  fun comp stored => fst (chunk_stream lo ds comp stored None).

Lemma chunk_recs_lunz lo ds k : chunk_recs (lunz lo ds) k = chunk_inner lo ds k.
Proof. reflexivity. Qed.

(* what the lexer reports for one logical record *)
Definition crec_events (lo : lopts) (r : crec) : list event :=
  match r with
  | CR op body => rec_events (op, body)
  | CA a data crc =>
    match lo_cb lo with CbFull => [EvAttachment (attach_obs lo a data crc)] | _ => [] end
  end.

(* ---------- small list facts ---------- *)
Lemma flat_map_app' {A B} (f : A -> list B) a b : flat_map f (a ++ b) = flat_map f a ++ flat_map f b.
Proof. induction a as [|x a IH]; [reflexivity|]. cbn [app flat_map]. rewrite IH, app_assoc. reflexivity. Qed.

Lemma flat_map_map' {A B C} (f : B -> list C) (g : A -> B) l : flat_map f (map g l) = flat_map (fun x => f (g x)) l.
Proof. induction l as [|x l IH]; [reflexivity|]. cbn [map flat_map]. rewrite IH. reflexivity. Qed.

Lemma flat_map_flat_map {A B C} (f : B -> list C) (g : A -> list B) l :
  flat_map f (flat_map g l) = flat_map (fun x => flat_map f (g x)) l.
Proof. induction l as [|x l IH]; [reflexivity|]. cbn [flat_map]. rewrite flat_map_app', IH. reflexivity. Qed.

Lemma filter_flat_map {A B} (p : B -> bool) (g : A -> list B) l :
  filter p (flat_map g l) = flat_map (fun x => filter p (g x)) l.
Proof. induction l as [|x l IH]; [reflexivity|]. cbn [flat_map]. rewrite filter_app, IH. reflexivity. Qed.

Lemma map_flat_map {A B C} (f : B -> C) (g : A -> list B) l :
  map f (flat_map g l) = flat_map (fun x => map f (g x)) l.
Proof. induction l as [|x l IH]; [reflexivity|]. cbn [flat_map]. rewrite map_app, IH. reflexivity. Qed.

Lemma flat_map_ext_Forall {A B} (f g : A -> list B) (P : A -> Prop) l :
  Forall P l -> (forall x, P x -> f x = g x) -> flat_map f l = flat_map g l.
Proof.
  intros HF H. induction HF as [|x l Hx _ IH]; [reflexivity|]. cbn [flat_map]. rewrite IH, (H x Hx). reflexivity.
Qed.

Lemma flat_map_filter {A B} (f : A -> list B) (p : A -> bool) l :
  flat_map f (filter p l) = flat_map (fun x => if p x then f x else []) l.
Proof.
  induction l as [|x l IH]; [reflexivity|]. cbn [filter flat_map]. destruct (p x); cbn [flat_map app]; rewrite IH; reflexivity.
Qed.

Lemma filter_refine {A} (p q : A -> bool) l :
  (forall x, p x = true -> q x = true) -> filter p (filter q l) = filter p l.
Proof.
  intro H. induction l as [|x l IH]; [reflexivity|]. cbn [filter].
  destruct (q x) eqn:Q; cbn [filter]; destruct (p x) eqn:P; rewrite ?IH; try reflexivity.
  rewrite (H x P) in Q. discriminate.
Qed.

Lemma filter_all {A} (p : A -> bool) l : Forall (fun x => p x = true) l -> filter p l = l.
Proof. induction 1 as [|x l Hx _ IH]; [reflexivity|]. cbn [filter]. rewrite Hx, IH. reflexivity. Qed.

Lemma filter_none {A} (p : A -> bool) l : Forall (fun x => p x = false) l -> filter p l = [].
Proof. induction 1 as [|x l Hx _ IH]; [reflexivity|]. cbn [filter]. rewrite Hx, IH. reflexivity. Qed.

(* ---------- the lexer's events as a function of the logical records ---------- *)
Lemma item_events_records lo ds it :
  lo_emit_chunks lo = false ->
  item_events lo ds it = flat_map (crec_events lo) (item_records (lunz lo ds) it).
Proof.
  intro Hemit. destruct it as [|op body|k|a data crc|ss sos crc]; cbn [item_events item_records flat_map crec_events].
  - reflexivity.
  - rewrite app_nil_r. reflexivity.
  - rewrite Hemit, chunk_recs_lunz, flat_map_map'. rewrite flat_map_concat_map. reflexivity.
  - destruct (lo_cb lo); reflexivity.
  - reflexivity.
Qed.

Lemma file_events_records lo ds items :
  lo_emit_chunks lo = false ->
  file_events lo ds items = flat_map (crec_events lo) (all_records (lunz lo ds) items).
Proof.
  intro Hemit. unfold file_events, all_records. rewrite flat_map_flat_map, <- flat_map_concat_map.
  apply flat_map_ext. intro it. apply item_events_records, Hemit.
Qed.

(* the events before the DataEnd token *)
Definition ev_dataend (e : event) : bool :=
  match e with EvToken op _ => Byte.eqb op OpDataEnd | _ => false end.
Fixpoint data_events (evs : list event) : list event :=
  match evs with
  | [] => []
  | e :: t => if ev_dataend e then [] else e :: data_events t
  end.

Lemma data_events_app_no a b :
  Forall (fun e => ev_dataend e = false) a -> data_events (a ++ b) = a ++ data_events b.
Proof. induction 1 as [|e a He _ IH]; [reflexivity|]. cbn [app data_events]. rewrite He, IH. reflexivity. Qed.

Lemma crec_events_dataend lo r :
  if is_dataend r then exists body, crec_events lo r = [EvToken OpDataEnd body]
  else Forall (fun e => ev_dataend e = false) (crec_events lo r).
Proof.
  destruct r as [op body|a data crc]; cbn [is_dataend crec_events].
  - destruct (Byte.eqb op OpDataEnd) eqn:E.
    + apply Byte.byte_dec_bl in E. subst op. exists body. reflexivity.
    + unfold rec_events. cbn [fst snd]. destruct (known_op op); constructor; [|constructor]. exact E.
  - destruct (lo_cb lo); repeat constructor.
Qed.

Lemma data_events_records lo l :
  data_events (flat_map (crec_events lo) l) = flat_map (crec_events lo) (upto_dataend l).
Proof.
  induction l as [|r l IH]; [reflexivity|]. cbn [flat_map upto_dataend].
  pose proof (crec_events_dataend lo r) as H. destruct (is_dataend r).
  - destruct H as (body & ->). reflexivity.
  - rewrite data_events_app_no by exact H. cbn [flat_map]. rewrite IH. reflexivity.
Qed.

(* classes of events *)
Definition ev_auto (e : event) : bool := match e with EvToken op _ => auto_op op | _ => false end.
Definition ev_direct (e : event) : bool :=
  match e with EvToken op _ => direct_op op | EvAttachment _ => true | EvInvalidChunk => false end.
Definition ev_content (e : event) : bool := ev_auto e || ev_direct e.
Definition ev_att (e : event) : bool := match e with EvAttachment _ => true | _ => false end.
Definition ev_op (x : byte) (e : event) : bool := match e with EvToken op _ => Byte.eqb op x | _ => false end.

(* an event class and a record class that correspond *)
Definition class_compat (pe : event -> bool) (pr : crec -> bool) : Prop :=
  forall lo r, filter pe (crec_events lo r) = if pr r then crec_events lo r else [].

Lemma filter_events_records lo pe pr l :
  class_compat pe pr ->
  filter pe (flat_map (crec_events lo) l) = flat_map (crec_events lo) (filter pr l).
Proof.
  intro H. rewrite filter_flat_map, flat_map_filter. apply flat_map_ext. intro r. apply H.
Qed.

Lemma compat_of_ops (fo : byte -> bool) (fa : bool) :
  (forall op, fo op = true -> known_op op = true) ->
  class_compat (fun e => match e with EvToken op _ => fo op | EvAttachment _ => fa | EvInvalidChunk => false end)
               (fun r => match r with CR op _ => fo op | CA _ _ _ => fa end).
Proof.
  intros Hk lo [op body|a data crc]; cbn [crec_events].
  - unfold rec_events. cbn [fst snd]. destruct (known_op op) eqn:K; cbn [filter].
    + destruct (fo op); reflexivity.
    + destruct (fo op) eqn:F; [|reflexivity]. rewrite (Hk _ F) in K. discriminate.
  - destruct (lo_cb lo); cbn [filter]; destruct fa; reflexivity.
Qed.

Lemma auto_op_known op : auto_op op = true -> known_op op = true.
Proof. destruct op; cbn; intro H; try discriminate H; reflexivity. Qed.
Lemma direct_op_known op : direct_op op = true -> known_op op = true.
Proof. destruct op; cbn; intro H; try discriminate H; reflexivity. Qed.

Lemma compat_auto : class_compat ev_auto is_auto.
Proof. exact (compat_of_ops auto_op false auto_op_known). Qed.
Lemma compat_direct : class_compat ev_direct is_direct.
Proof. exact (compat_of_ops direct_op true direct_op_known). Qed.
Lemma compat_content : class_compat ev_content is_content.
Proof.
  assert (H : forall op, auto_op op || direct_op op = true -> known_op op = true).
  { intros op H. apply orb_true_iff in H. destruct H; auto using auto_op_known, direct_op_known. }
  pose proof (compat_of_ops (fun op => auto_op op || direct_op op) true H) as C.
  intros lo r. specialize (C lo r).
  destruct r as [op body|a data crc]; cbn [crec_events is_content is_auto is_direct] in *.
  - unfold rec_events in *. cbn [fst snd] in *. destruct (known_op op); cbn [filter ev_content ev_auto ev_direct] in *; exact C.
  - destruct (lo_cb lo); cbn [filter ev_content ev_auto ev_direct orb] in *; exact C.
Qed.
Lemma compat_att : class_compat ev_att is_att.
Proof.
  intros lo [op body|a data crc]; cbn [crec_events is_att].
  - unfold rec_events. destruct (known_op _); reflexivity.
  - destruct (lo_cb lo); reflexivity.
Qed.
Lemma compat_op x : known_op x = true -> class_compat (ev_op x) (is_op x).
Proof.
  intros K lo [op body|a data crc]; cbn [crec_events is_op].
  - unfold rec_events. cbn [fst snd]. destruct (known_op op) eqn:K'; cbn [filter ev_op].
    + destruct (Byte.eqb op x); reflexivity.
    + destruct (Byte.eqb op x) eqn:E; [|reflexivity]. apply Byte.byte_dec_bl in E. congruence.
  - destruct (lo_cb lo); reflexivity.
Qed.

(* the chain: events of a class in the data section = the records of that class in the data section *)
Theorem class_events_records lo ds pe pr items :
  lo_emit_chunks lo = false -> class_compat pe pr ->
  filter pe (data_events (file_events lo ds items))
  = flat_map (crec_events lo) (filter pr (data_records (lunz lo ds) items)).
Proof.
  intros Hemit Hc. rewrite file_events_records by exact Hemit.
  rewrite data_events_records. apply filter_events_records, Hc.
Qed.

(* ====================================================================== *)
(** * 2. the writer: content of the data section *)

(* what a call asks the writer to store *)
Section Expected.
Variable o : wopts.
Variable lib_id : bytes.

Definition call_rec (c : wcall) : list crec :=
  match c with
  | CHeader h => [CR OpHeader (enc_header {| h_profile := h_profile h; h_library := header_library o lib_id h |})]
  | CSchema s => [CR OpSchema (enc_schema s)]
  | CChannel c => [CR OpChannel (enc_channel c)]
  | CMessage m => [CR OpMessage (enc_message m)]
  | CMetadata m => [CR OpMetadata (enc_metadata m)]
  | CAttachment a src =>
    [CA a (concat (as_frags src)) (crc32 (enc_attachment_fields a ++ concat (as_frags src)))]
  | CClose => []
  end.
Definition expected_records (cs : list wcall) : list crec := flat_map call_rec cs.

Lemma expected_snoc cs c : expected_records (cs ++ [c]) = expected_records cs ++ call_rec c.
Proof. unfold expected_records. rewrite flat_map_app'. cbn [flat_map]. rewrite app_nil_r. reflexivity. Qed.
End Expected.

(* every record that goes through a chunk must have a length that fits the 8-byte length field
   (always true of a Go slice; needed to split the chunk content again) *)
Definition call_small (c : wcall) : Prop :=
  match c with
  | CSchema s => blen (enc_schema s) < two64
  | CChannel c => blen (enc_channel c) < two64
  | CMessage m => blen (enc_message m) < two64
  | _ => True
  end.

Section WriterContent.
Variable o : wopts.
Variable lib_id : bytes.
Variable compress : nat -> bytes -> bytes.
Variable unz : bytes -> bytes -> bytes.
Hypothesis unz_ok : forall n plain, unz (o_comp o) (compress n plain) = plain.

Definition flatT (T : list item) : list crec := all_records unz (rev T).
Lemma flatT_app T2 T1 : flatT (T2 ++ T1) = flatT T1 ++ flatT T2.
Proof. unfold flatT, all_records. rewrite rev_app_distr, flat_map_app'. reflexivity. Qed.
Lemma flatT_cons it T : flatT (it :: T) = flatT T ++ item_records unz it.
Proof. change (it :: T) with ([it] ++ T). rewrite flatT_app. unfold flatT, all_records. cbn. rewrite app_nil_r. reflexivity. Qed.

(* eff s s' T B: from s to s' the items T were logged, the chunk buffer became B *)
Definition eff (s s' : wstate) (T : list item) (B : bytes) : Prop :=
  w_trace s' = T ++ w_trace s /\ w_cbuf s' = B /\ w_closed s' = w_closed s.

Lemma eff_trans s s1 s2 T1 B1 T2 B2 : eff s s1 T1 B1 -> eff s1 s2 T2 B2 -> eff s s2 (T2 ++ T1) B2.
Proof. intros (a & b & c) (a' & b' & c'). unfold eff. rewrite a', a, b', c', c, app_assoc. auto. Qed.

Lemma dst_eff p s : exists s', dst_write o None p s = (s', None) /\ eff s s' [] (w_cbuf s).
Proof. unfold dst_write. cbn. eexists; split; [reflexivity|]. repeat split. Qed.

Lemma wrd_eff op body s :
  exists s', write_record_dst o None op body s = (s', None) /\ eff s s' [IRec op body] (w_cbuf s).
Proof. unfold write_record_dst, dst_write, log. cbn. eexists; split; [reflexivity|]. repeat split. Qed.

Lemma wrc_eff op body s :
  exists s', write_record_chunk op body s = (s', None) /\ eff s s' [] (w_cbuf s ++ frame op body).
Proof.
  unfold write_record_chunk, chunk_write, bindw. eexists; split; [reflexivity|].
  split; [reflexivity|]. split; [|reflexivity]. unfold frame. rewrite app_assoc. reflexivity.
Qed.

Lemma eff_refl s : eff s s [] (w_cbuf s).
Proof. repeat split. Qed.
Lemma add_schema_eff sc s : eff s (add_schema sc s) [] (w_cbuf s).
Proof. unfold add_schema. destruct (assoc_get _ _); repeat split. Qed.
Lemma add_channel_eff c s : eff s (add_channel c s) [] (w_cbuf s).
Proof. unfold add_channel. destruct (assoc_get _ _); repeat split. Qed.
Lemma stats_time_eff lt s : eff s (stats_time lt s) [] (w_cbuf s).
Proof.
  unfold stats_time. destruct (w_st_end s <? lt); cbn;
  match goal with |- context [if ?c then _ else _] => destruct c end; repeat split.
Qed.
Lemma wm_cur_eff m s : eff s (wm_cur m s) [] (w_cbuf s).
Proof.
  unfold wm_cur. cbv zeta. destruct (w_cur_end _ <? m_log m); destruct (m_log m <? w_cur_start _); repeat split.
Qed.

Lemma in_chunk_eff s s' T B : eff s s' T B -> Writer.in_chunk o s' = Writer.in_chunk o s.
Proof. intros (_ & _ & c). unfold Writer.in_chunk. rewrite c. reflexivity. Qed.

(* ---------- message indexes ---------- *)
Definition mi_items (T : list item) : Prop := Forall (fun it => exists body, it = IRec OpMessageIndex body) T.

Lemma wmi_eff l : forall offs s s' e offs',
  write_msgindexes o None l offs s = (s', e, offs') ->
  e = None /\ exists T, eff s s' T (w_cbuf s) /\ mi_items T.
Proof.
  induction l as [|mi l IH]; intros offs s s' e offs' H; cbn [write_msgindexes] in H.
  - inversion H; subst. split; [reflexivity|]. exists []. split; [apply eff_refl|constructor].
  - destruct (mi_entries mi) eqn:Een; [eapply IH; exact H|].
    unfold write_msgindex in H.
    destruct (wrd_eff OpMessageIndex (enc_msgindex mi) s) as (s1 & E1 & F1). rewrite E1 in H.
    destruct (IH _ _ _ _ _ H) as (-> & T & F2 & M2). split; [reflexivity|].
    exists (T ++ [IRec OpMessageIndex (enc_msgindex mi)]). split.
    + pose proof (eff_trans _ _ _ _ _ _ _ F1 F2) as X. destruct F1 as (_ & b & _). rewrite b in X. exact X.
    + apply Forall_app. split; [exact M2|]. constructor; [eexists; reflexivity|constructor].
Qed.

Lemma mi_flat T : mi_items T ->
  filter is_auto (flatT T) = [] /\ filter is_direct (flatT T) = [] /\ Forall (fun r => is_dataend r = false) (flatT T).
Proof.
  induction 1 as [|it T (body & ->) _ (IH1 & IH2 & IH3)]; [repeat split; constructor|].
  rewrite flatT_cons, !filter_app, IH1, IH2. cbn. repeat split. apply Forall_app. split; [exact IH3|].
  repeat constructor.
Qed.

(* ---------- the invariant ---------- *)
Definition auto_small (r : byte * bytes) : Prop := auto_op (fst r) = true /\ blen (snd r) < two64.

Definition CInv (pre : list wcall) (s : wstate) : Prop :=
  w_closed s = false /\ exists pend,
    w_cbuf s = frames pend /\ Forall auto_small pend /\ (o_chunked o = false -> pend = []) /\ filter is_direct (flatT (w_trace s)) = filter is_direct (expected_records o lib_id pre) /\ filter is_auto (flatT (w_trace s)) ++ map cr_of pend = filter is_auto (expected_records o lib_id pre) /\ Forall (fun r => is_dataend r = false) (flatT (w_trace s)).

Lemma auto_not_direct op : auto_op op = true -> direct_op op = false /\ Byte.eqb op OpDataEnd = false.
Proof. destruct op; cbn; intro H; try discriminate H; split; reflexivity. Qed.
Lemma direct_not_auto op : direct_op op = true -> auto_op op = false /\ Byte.eqb op OpDataEnd = false.
Proof. destruct op; cbn; intro H; try discriminate H; split; reflexivity. Qed.

Lemma CInv_keep pre s s' : CInv pre s -> eff s s' [] (w_cbuf s) -> CInv pre s'.
Proof.
  intros (Hc & pend & H1 & H2 & H3 & H4 & H5 & H6) (a & b & c). cbn [app] in a.
  split; [congruence|]. exists pend. rewrite a, b. auto 10.
Qed.

Lemma CInv_direct pre s s' c it r :
  CInv pre s -> eff s s' [it] (w_cbuf s) -> item_records unz it = [r] -> call_rec o lib_id c = [r] ->
  is_direct r = true -> is_auto r = false -> is_dataend r = false ->
  CInv (pre ++ [c]) s'.
Proof.
  intros (Hc & pend & H1 & H2 & H3 & H4 & H5 & H6) (a & b & c') Hit Hcr Rd Ra Re. cbn [app] in a.
  split; [congruence|]. exists pend. rewrite a, b, expected_snoc, flatT_cons, Hit, Hcr, !filter_app.
  cbn [filter]. rewrite Rd, Ra, !app_nil_r.
  split; [exact H1|]. split; [exact H2|]. split; [exact H3|]. split; [rewrite H4; reflexivity|].
  split; [exact H5|]. apply Forall_app. split; [exact H6|]. repeat constructor. exact Re.
Qed.

Lemma CInv_auto_dst pre s s' c op body :
  CInv pre s -> Writer.in_chunk o s = false -> eff s s' [IRec op body] (w_cbuf s) ->
  call_rec o lib_id c = [CR op body] -> auto_op op = true ->
  CInv (pre ++ [c]) s'.
Proof.
  intros (Hc & pend & H1 & H2 & H3 & H4 & H5 & H6) Hin (a & b & c') Hcr Ha. cbn [app] in a.
  unfold Writer.in_chunk in Hin. rewrite Hc in Hin. cbn in Hin. rewrite andb_true_r in Hin.
  specialize (H3 Hin). subst pend. cbn [map] in H5. rewrite app_nil_r in H5.
  destruct (auto_not_direct op Ha) as [Hd He].
  split; [congruence|]. exists []. rewrite a, b, expected_snoc, flatT_cons, Hcr, !filter_app.
  cbn [item_records filter is_direct is_auto map]. rewrite Hd, Ha, !app_nil_r.
  split; [exact H1|]. split; [constructor|]. split; [reflexivity|]. split; [exact H4|].
  split; [rewrite H5; reflexivity|]. apply Forall_app. split; [exact H6|]. repeat constructor. exact He.
Qed.

Lemma frames_snoc l r : frames (l ++ [r]) = frames l ++ frame (fst r) (snd r).
Proof. unfold frames. rewrite map_app, concat_app. cbn. rewrite app_nil_r. reflexivity. Qed.

Lemma CInv_auto_chunk pre s s' c op body :
  CInv pre s -> Writer.in_chunk o s = true -> eff s s' [] (w_cbuf s ++ frame op body) ->
  call_rec o lib_id c = [CR op body] -> auto_op op = true -> blen body < two64 ->
  CInv (pre ++ [c]) s'.
Proof.
  intros (Hc & pend & H1 & H2 & H3 & H4 & H5 & H6) Hin (a & b & c') Hcr Ha Hs. cbn [app] in a.
  unfold Writer.in_chunk in Hin. apply andb_true_iff in Hin. destruct Hin as [Hch _].
  destruct (auto_not_direct op Ha) as [Hd He].
  split; [congruence|]. exists (pend ++ [(op, body)]). rewrite a, b, expected_snoc, Hcr, !filter_app.
  cbn [filter is_direct is_auto]. rewrite Hd, Ha, !app_nil_r.
  split; [rewrite H1, frames_snoc; reflexivity|].
  split; [apply Forall_app; split; [exact H2|]; repeat constructor; assumption|].
  split; [intro X; rewrite X in Hch; discriminate|]. split; [exact H4|].
  split; [|exact H6]. rewrite map_app, app_assoc, H5. reflexivity.
Qed.

(* ---------- flushActiveChunk ---------- *)
Lemma wcwi_eff k mis s s' :
  (k_usize k =? 0) = false -> write_chunk_with_indexes o None k mis s = (s', None) ->
  exists T, eff s s' (T ++ [IChunk k]) (w_cbuf s) /\ mi_items T.
Proof.
  intros Hu H. rewrite wcwi_eq, Hu in H.
  destruct (dst_eff (frame_head OpChunk (blen (enc_chunk_top k) + blen (k_records k)) ++ enc_chunk_top k) s)
    as (s1 & E1 & F1). rewrite E1 in H. cbn [bindw] in H.
  destruct (dst_eff (k_records k) s1) as (s2 & E2 & F2). rewrite E2 in H. cbn [bindw] in H.
  unfold log in H. cbn [bindw] in H.
  set (s3 := s2 <| w_trace := IChunk k :: w_trace s2 |>) in *.
  assert (F3 : eff s s3 [IChunk k] (w_cbuf s)).
  { destruct F1 as (a1 & b1 & c1). destruct F2 as (a2 & b2 & c2). unfold eff, s3. cbn.
    cbn [app] in a1, a2. rewrite a2, a1, b2, b1, c2, c1. auto. }
  unfold wc_indexes in H. destruct (negb (o_skip_mi o)).
  - destruct (write_msgindexes o None mis [] s3) as [[s4 e] offs] eqn:Em.
    destruct (wmi_eff _ _ _ _ _ _ Em) as (-> & T & F4 & M4). inversion H; subst s'. clear H.
    exists T. split; [|exact M4].
    pose proof (eff_trans _ _ _ _ _ _ _ F3 F4) as X. destruct F3 as (_ & b & _). rewrite b in X.
    destruct X as (a' & b' & c'). split; [exact a'|]. split; [exact b'|exact c'].
  - inversion H; subst s'. clear H. exists []. split; [|constructor].
    destruct F3 as (a' & b' & c'). split; [exact a'|]. split; [exact b'|exact c'].
Qed.

Lemma auto_pend_facts pend : Forall auto_small pend ->
  filter is_auto (map cr_of pend) = map cr_of pend /\ filter is_direct (map cr_of pend) = [] /\
  Forall (fun r => is_dataend r = false) (map cr_of pend).
Proof.
  induction 1 as [|[op body] l [Ha _] _ (I1 & I2 & I3)]; [repeat split; constructor|].
  cbn [fst snd] in Ha. destruct (auto_not_direct op Ha) as [Hd He].
  cbn [map cr_of fst snd filter is_auto is_direct]. rewrite Ha, Hd, I1, I2.
  repeat split. constructor; [exact He|exact I3].
Qed.

Lemma frames_nil_inv l : frames l = [] -> l = [].
Proof. destruct l as [|[op body] l]; [reflexivity|]. rewrite frames_cons, frame_cons. discriminate. Qed.

Lemma flush_CInv pre s s' :
  CInv pre s -> flush_active_chunk o compress None s = (s', None) -> CInv pre s' /\ w_cbuf s' = [].
Proof.
  intros HI H. rewrite flush_eq in H. destruct (w_cbuf s) as [|b l] eqn:Eb.
  - inversion H; subst s'. split; [exact HI|exact Eb].
  - apply bindw_None in H. destruct H as (s1 & Hw & H). inversion H; subst s'. clear H.
    apply wcwi_eff in Hw.
    2:{ unfold fl_chunk. cbn [k_usize]. rewrite Eb. unfold blen. cbn [length]. apply N.eqb_neq. lia. }
    destruct Hw as (T & (a & b' & c) & MT).
    destruct HI as (Hc & pend & H1 & H2 & H3 & H4 & H5 & H6).
    change (w_trace (fl_start s)) with (w_trace s) in a.
    change (w_cbuf (fl_start s)) with (@nil byte) in b'.
    change (w_closed (fl_start s)) with (w_closed s) in c.
    assert (Hrec : item_records unz (IChunk (fl_chunk o compress s)) = map cr_of pend).
    { cbn [item_records]. f_equal. unfold chunk_recs, fl_chunk. cbn [k_comp k_records]. rewrite unz_ok, H1.
      apply split_records_frames; [|lia]. eapply Forall_impl; [|exact H2]. intros r [_ X]. exact X. }
    destruct (auto_pend_facts pend H2) as (P1 & P2 & P3).
    destruct (mi_flat T MT) as (M1 & M2 & M3).
    split; [|exact b'].
    split; [change (w_closed (fl_reset s1)) with (w_closed s1); congruence|].
    exists []. change (w_cbuf (fl_reset s1)) with (w_cbuf s1). change (w_trace (fl_reset s1)) with (w_trace s1).
    rewrite a, b', <- app_assoc. cbn [app]. rewrite flatT_app, flatT_cons, Hrec, !filter_app.
    rewrite M1, M2, P1, P2, !app_nil_r. cbn [map].
    split; [reflexivity|]. split; [constructor|]. split; [reflexivity|]. split; [exact H4|]. split; [exact H5|].
    apply Forall_app. split; [apply Forall_app; split; assumption|exact M3].
Qed.

(* ---------- one call ---------- *)
Lemma auto_CInv pre s s1 c op body :
  CInv pre s -> write_record_auto o None op body s = (s1, None) ->
  call_rec o lib_id c = [CR op body] -> auto_op op = true -> blen body < two64 ->
  CInv (pre ++ [c]) s1.
Proof.
  intros HI H Hcr Ha Hs. unfold write_record_auto in H. destruct (Writer.in_chunk o s) eqn:Hin.
  - destruct (wrc_eff op body s) as (s2 & E2 & F2). rewrite E2 in H. inversion H; subst s2.
    eapply CInv_auto_chunk; eassumption.
  - destruct (wrd_eff op body s) as (s2 & E2 & F2). rewrite E2 in H. inversion H; subst s2.
    eapply CInv_auto_dst; eassumption.
Qed.

Lemma copy_frags_eff fr : forall n s s' e n',
  copy_frags o None fr n s = (s', e, n') -> e = None /\ eff s s' [] (w_cbuf s).
Proof.
  induction fr as [|p fr IH]; intros n s s' e n' H; cbn [copy_frags] in H.
  - inversion H; subst. split; [reflexivity|apply eff_refl].
  - destruct (dst_eff p s) as (s1 & E1 & F1). rewrite E1 in H.
    destruct (IH _ _ _ _ _ H) as (-> & F2). split; [reflexivity|].
    pose proof (eff_trans _ _ _ _ _ _ _ F1 F2) as X. destruct F1 as (_ & b & _). rewrite b in X. exact X.
Qed.

Lemma step_CInv pre s c s' :
  c <> CClose -> call_small c -> CInv pre s -> step o lib_id compress None c s = (s', None) ->
  CInv (pre ++ [c]) s'.
Proof.
  intros Hnc Hsm HI H. destruct c as [h|sc|ch|m|a src|md|]; cbn [step] in H; [| | | | | |congruence].
  - (* header *)
    unfold write_header in H.
    destruct (wrd_eff OpHeader (enc_header {| h_profile := h_profile h; h_library := header_library o lib_id h |}) s)
      as (s1 & E1 & F1). rewrite E1 in H. inversion H; subst s1.
    eapply CInv_direct; try eassumption; reflexivity.
  - (* schema *)
    unfold write_schema in H. destruct (s_id sc =? 0); [discriminate|].
    apply bindw_None in H. destruct H as (s1 & H1 & H). inversion H; subst s'.
    eapply CInv_keep; [|apply add_schema_eff].
    eapply auto_CInv; try eassumption; reflexivity.
  - (* channel *)
    unfold write_channel in H. destruct (_ && _); [discriminate|].
    apply bindw_None in H. destruct H as (s1 & H1 & H). inversion H; subst s'.
    eapply CInv_keep; [|apply add_channel_eff].
    eapply auto_CInv; try eassumption; reflexivity.
  - (* message *)
    rewrite write_message_eq in H. destruct (assoc_get _ _); [|discriminate].
    assert (HI0 : CInv pre (wm_bump m s)) by (eapply CInv_keep; [exact HI|repeat split]).
    unfold wm_body in H. destruct (Writer.in_chunk o (wm_bump m s)) eqn:Hin.
    + apply bindw_None in H. destruct H as (s1 & H1 & H).
      apply bindw_None in H. destruct H as (s2 & H2 & H). inversion H; subst s'. clear H.
      eapply CInv_keep; [|apply stats_time_eff].
      assert (HI1 : CInv (pre ++ [CMessage m]) s1).
      { destruct (wrc_eff OpMessage (enc_message m) (wm_idx m (wm_bump m s))) as (s1' & E1 & F1).
        rewrite E1 in H1. inversion H1; subst s1'.
        eapply CInv_auto_chunk with (s := wm_idx m (wm_bump m s)); try eassumption; try reflexivity. }
      assert (HI2 : CInv (pre ++ [CMessage m]) (wm_cur m s1)) by (eapply CInv_keep; [exact HI1|apply wm_cur_eff]).
      unfold wm_flush in H2. destruct (_ <? _)%Z.
      * apply (flush_CInv _ _ _ HI2 H2).
      * inversion H2; subst s2. exact HI2.
    + apply bindw_None in H. destruct H as (s1 & H1 & H). inversion H; subst s'. clear H.
      eapply CInv_keep; [|apply stats_time_eff].
      destruct (wrd_eff OpMessage (enc_message m) (wm_bump m s)) as (s1' & E1 & F1).
      rewrite E1 in H1. inversion H1; subst s1'.
      eapply CInv_auto_dst; try eassumption; reflexivity.
  - (* attachment *)
    rewrite write_attachment_eq in H.
    destruct (dst_eff (frame_head OpAttachment ((blen (enc_attachment_fields a) + a_size a + 4) mod two64)) s)
      as (s1 & E1 & F1). rewrite E1 in H. cbn [bindw] in H.
    destruct (dst_eff (enc_attachment_fields a) s1) as (s2 & E2 & F2). rewrite E2 in H. cbn [bindw] in H.
    destruct (copy_frags o None (as_frags src) 0 s2) as [[s3 e] n] eqn:E3.
    destruct (copy_frags_eff _ _ _ _ _ _ E3) as (-> & F3).
    unfold WriterFactsA.wa_tail in H. destruct (as_fail src); [discriminate|].
    destruct (negb _); [discriminate|]. cbv zeta in H.
    destruct (dst_eff (u32 (crc32 (enc_attachment_fields a ++ concat (as_frags src)))) s3) as (s4 & E4 & F4).
    rewrite E4 in H. cbn [bindw] in H. unfold log in H. cbn [bindw] in H. inversion H; subst s'. clear H.
    assert (HI4 : CInv pre s4) by (repeat (eapply CInv_keep; [|eassumption]); exact HI).
    eapply CInv_direct with
      (it := IAttach a (concat (as_frags src)) (crc32 (enc_attachment_fields a ++ concat (as_frags src))));
      [exact HI4| |reflexivity|reflexivity|reflexivity|reflexivity|reflexivity].
    repeat split.
  - (* metadata *)
    rewrite write_metadata_eq in H. apply bindw_None in H. destruct H as (s1 & H1 & H). inversion H; subst s'.
    eapply CInv_keep; [|unfold wmd_idx; repeat split].
    destruct (wrd_eff OpMetadata (enc_metadata md) s) as (s1' & E1 & F1). rewrite E1 in H1. inversion H1; subst s1'.
    eapply CInv_direct; try eassumption; reflexivity.
Qed.

(* ---------- a run of calls ---------- *)
Lemma run_CInv cs : forall pre s,
  Forall (fun c => c <> CClose) cs -> Forall call_small cs ->
  Forall (fun x : option err * nat => fst x = None) (run_res o lib_id compress None cs s) ->
  CInv pre s -> CInv (pre ++ cs) (run_st o lib_id compress None cs s).
Proof.
  induction cs as [|c r IH]; intros pre s Hc Hs Hr HI; cbn [run_st run_res] in *.
  - rewrite app_nil_r. exact HI.
  - inversion Hc; subst. inversion Hs; subst. inversion Hr as [|x l Hx Hr']; subst. cbn [fst] in Hx.
    replace (pre ++ c :: r) with ((pre ++ [c]) ++ r) by (rewrite <- app_assoc; reflexivity).
    apply IH; try assumption.
    destruct (step o lib_id compress None c s) as [s1 e] eqn:Es. cbn [fst snd] in *. subst e.
    eapply step_CInv; eassumption.
Qed.

Lemma new_writer_CInv s0 : new_writer o None = (s0, None) -> CInv [] s0.
Proof.
  unfold new_writer. intro H. apply bindw_None in H. destruct H as (s1 & H1 & H2).
  assert (s0 = s1) as ->.
  { destruct (o_chunked o); [|congruence]. destruct (o_custom o).
    - destruct (bytes_eqb _ _); [discriminate|congruence].
    - destruct (_ || _); [congruence|discriminate]. }
  clear H2. destruct (o_skip_magic o).
  - inversion H1; subst s1. split; [reflexivity|]. exists []. repeat split; constructor.
  - destruct (dst_eff magic init_state) as (s2 & E2 & (a & b & c)). rewrite E2 in H1. cbn [bindw] in H1.
    unfold log in H1. inversion H1; subst s1. clear H1. split; [exact c|]. exists [].
    cbn. rewrite a, b. cbn. repeat split; constructor.
Qed.

(* ---------- Close ---------- *)
Lemma EJ_close_fin start s offs : EJ o compress s (close_fin o None start s offs).
Proof.
  unfold close_fin. cbv zeta. apply EJ_bind.
  - destruct (negb (o_skip_so o) && _); [|apply (EJ_ret o lib_id), tsame_refl].
    apply (EJ_write_all o lib_id). intros. apply (EJ_write_record_dst o lib_id).
  - intro s1. apply EJ_bind.
    + intros _. match goal with |- E _ _ _ (fst (write_footer _ _ ?a ?b _)) =>
        pose proof (MJ_write_footer o lib_id compress a b s1) as X end.
      cbv zeta in X. eapply E_of_MJ in X; [apply X|reflexivity|exact I].
    + intros s2 _.
      eapply (E_of_MJ o compress s2 _ _ IMagic);
        [apply (MJ_bind o compress s2 _ _ _ _ _ _ (MJ_dst o magic s2) (fun s => MJ_log o lib_id compress IMagic s))
        | |exact I].
      cbn [render_item]. apply app_nil_r.
Qed.

Lemma E_trace s s' : E o compress s s' -> exists T, w_trace s' = T ++ w_trace s.
Proof. intros (T & (a & _) & _). exists T. exact a. Qed.

Lemma close_trace s s' :
  close o compress None s = (s', None) ->
  exists s1 T c,
    (if o_chunked o then flush_active_chunk o compress None s else (s, None)) = (s1, None) /\
    w_trace s' = T ++ IRec OpDataEnd (enc_dataend {| de_crc := c |}) :: w_trace s1.
Proof.
  intro H. rewrite close_unfold in H. apply bindw_None in H. destruct H as (s1 & Hfl & H). cbv zeta in H.
  apply bindw_None in H. destruct H as (s2 & Hde & H).
  set (s1' := s1 <| w_closed := true |>) in *.
  destruct (wrd_eff OpDataEnd (enc_dataend {| de_crc := checksum o s1' |}) s1') as (s2' & E2 & (a & _ & _)).
  rewrite E2 in Hde. inversion Hde; subst s2'. clear Hde.
  unfold WriterFactsB.close_tail in H. cbv zeta in H.
  set (s2r := s2 <| w_crc := crc_init |>) in *.
  assert (X : EJ o compress s2r (seq3e (write_summary o None s2r) (close_fin o None (w_size s2r)))).
  { apply EJ_seq3e; [apply (EJ_write_summary o lib_id)|]. intros. apply EJ_close_fin. }
  rewrite H in X. destruct (E_trace _ _ (X eq_refl)) as (T & HT). cbn [fst] in HT.
  exists s1, T, (checksum o s1'). split; [exact Hfl|].
  rewrite HT. change (w_trace s2r) with (w_trace s2). rewrite a. reflexivity.
Qed.

Lemma upto_dataend_app l r t :
  Forall (fun x => is_dataend x = false) l -> is_dataend r = true -> upto_dataend (l ++ r :: t) = l.
Proof.
  intros H Hr. induction H as [|x l Hx _ IH]; cbn [app upto_dataend].
  - rewrite Hr. reflexivity.
  - rewrite Hx, IH. reflexivity.
Qed.

Lemma close_content pre s s' :
  CInv pre s -> close o compress None s = (s', None) ->
  filter is_direct (data_records unz (rev (w_trace s'))) = filter is_direct (expected_records o lib_id pre) /\
  filter is_auto (data_records unz (rev (w_trace s'))) = filter is_auto (expected_records o lib_id pre).
Proof.
  intros HI H. destruct (close_trace s s' H) as (s1 & T & c & Hfl & HT).
  assert (H1 : CInv pre s1 /\ w_cbuf s1 = []).
  { destruct (o_chunked o) eqn:Hch.
    - apply (flush_CInv _ _ _ HI Hfl).
    - inversion Hfl; subst s1. split; [exact HI|].
      destruct HI as (_ & pend & P1 & _ & P3 & _). rewrite P1, (P3 Hch). reflexivity. }
  destruct H1 as ((_ & pend & P1 & _ & _ & P4 & P5 & P6) & Hb).
  rewrite Hb in P1. symmetry in P1. apply frames_nil_inv in P1. subst pend. cbn [map] in P5. rewrite app_nil_r in P5.
  unfold data_records. fold (flatT (w_trace s')). rewrite HT, flatT_app, flatT_cons. cbn [item_records].
  rewrite <- app_assoc. cbn [app]. rewrite upto_dataend_app by (assumption || reflexivity).
  split; assumption.
Qed.

End WriterContent.

Lemma o_comp_eff o : o_comp (effective_opts o) = o_comp o.
Proof. unfold effective_opts. destruct (_ && _); reflexivity. Qed.
Lemma expected_eff o lib cs : expected_records (effective_opts o) lib cs = expected_records o lib cs.
Proof.
  unfold expected_records. apply flat_map_ext. intros [h| | | | | |]; try reflexivity.
  cbn [call_rec]. unfold header_library, effective_opts. destruct (_ && _); reflexivity.
Qed.

(* the file is the rendering of the ghost trace *)
Theorem C01_file_is_trace_thm : forall o lib comp cs',
  C06_hyps o lib comp cs' ->
  let R := W o lib comp None (cs' ++ [CClose]) in
  file_of R = render (rev (w_trace (r_final R))).
Proof.
  intros o lib comp cs' H R.
  destruct (C06_structure_thm o lib comp cs' H) as (Tpre & Tsum & ss & sos & c1 & c2 & _ & B & _).
  exact B.
Qed.

(* the data section of the trace, flattened, holds the records the calls asked for: the
   header/attachment/metadata records in call order, and the schema/channel/message records in
   call order (the two classes are interleaved differently when the writer is chunked) *)
Theorem C01_trace_content_thm : forall o lib comp unz cs',
  C06_hyps o lib comp cs' ->
  (forall n plain, unz (o_comp o) (comp n plain) = plain) ->
  Forall call_small cs' ->
  let R := W o lib comp None (cs' ++ [CClose]) in
  let recs := data_records unz (rev (w_trace (r_final R))) in
  filter is_direct recs = filter is_direct (expected_records o lib cs') /\
  filter is_auto recs = filter is_auto (expected_records o lib cs').
Proof.
  intros o lib comp unz cs' (H1 & H2 & H3) Hunz Hsm R recs. subst recs R. revert H1 H2. rewrite W_unfold.
  destruct (new_writer (effective_opts o) None) as [s0 [e|]] eqn:Enw; cbn [r_new r_calls r_writes r_final];
    [discriminate|].
  intros _ H2. rewrite run_res_app in H2. rewrite run_st_app.
  apply Forall_app in H2. destruct H2 as [Hr1 Hr2].
  set (s1 := run_st (effective_opts o) lib comp None cs' s0) in *.
  assert (Hunz' : forall n plain, unz (o_comp (effective_opts o)) (comp n plain) = plain)
    by (rewrite o_comp_eff; exact Hunz).
  assert (HI : CInv (effective_opts o) lib unz [] s0) by (apply new_writer_CInv, Enw).
  assert (HI1 : CInv (effective_opts o) lib unz cs' s1).
  { apply (run_CInv (effective_opts o) lib comp unz Hunz' cs' [] s0); assumption. }
  cbn [run_res run_st step] in *. inversion Hr2 as [|x l Hx _]; subst. cbn [fst] in Hx.
  destruct (close (effective_opts o) comp None s1) as [s' e] eqn:Ecl. cbn [fst snd] in *. subst e.
  rewrite <- (expected_eff o lib cs').
  apply (close_content (effective_opts o) lib comp unz Hunz' cs' s1 s' HI1 Ecl).
Qed.

(* ====================================================================== *)
(** * 3. C01: write, then lex *)

(* the lexer's decoder undoes the writer's compressor (for the uncompressed format, where the
   lexer does not consult the decoder, this says that the compressor is the identity) *)
Definition codec_ok (lo : lopts) (ds : doracle) (o : wopts) (comp : nat -> bytes -> bytes) : Prop :=
  forall n plain, chunk_stream lo ds (o_comp o) (comp n plain) None = (plain, None).

Theorem C01_lexer_thm : forall o lib comp lo ds cs' sk,
  C06_hyps o lib comp cs' ->
  let R := W o lib comp None (cs' ++ [CClose]) in
  let items := rev (w_trace (r_final R)) in
  wf_file lo ds items ->
  forall fuel, (file_steps lo ds items + 1 <= fuel)%nat ->
  exists st, lex_all lo ds fuel (src_of (file_of R) sk) = Ok (file_events lo ds items, EEOF, st).
Proof.
  intros o lib comp lo ds cs' sk H R items Hwf fuel Hf. subst R items.
  rewrite (C01_file_is_trace_thm o lib comp cs' H). apply lex_render_thm; assumption.
Qed.

(* the events of the data section, per class, are the events of the records the calls asked for *)
Theorem C01_events_thm : forall o lib comp lo ds cs',
  C06_hyps o lib comp cs' -> codec_ok lo ds o comp -> Forall call_small cs' ->
  lo_emit_chunks lo = false ->
  let R := W o lib comp None (cs' ++ [CClose]) in
  let evs := data_events (file_events lo ds (rev (w_trace (r_final R)))) in
  filter ev_direct evs = flat_map (crec_events lo) (filter is_direct (expected_records o lib cs')) /\
  filter ev_auto evs = flat_map (crec_events lo) (filter is_auto (expected_records o lib cs')).
Proof.
  intros o lib comp lo ds cs' H Hc Hs Hemit R evs. subst evs R.
  assert (Hunz : forall n plain, lunz lo ds (o_comp o) (comp n plain) = plain).
  { intros n plain. unfold lunz. rewrite Hc. reflexivity. }
  destruct (C01_trace_content_thm o lib comp (lunz lo ds) cs' H Hunz Hs) as [A B].
  rewrite (class_events_records lo ds ev_direct is_direct _ Hemit compat_direct).
  rewrite (class_events_records lo ds ev_auto is_auto _ Hemit compat_auto).
  rewrite A, B. split; reflexivity.
Qed.

(* ---------- decoding the tokens again ---------- *)
Inductive content :=
| KHeader (h : header) | KSchema (s : schema) | KChannel (c : channel) | KMessage (m : message)
| KMetadata (m : metadata) | KAttachment (a : attobs).

Definition decode_event (e : event) : outcome content :=
  match e with
  | EvToken op body =>
    if Byte.eqb op OpHeader then bind (parse_header body) (fun x => Ok (KHeader x))
    else if Byte.eqb op OpSchema then bind (parse_schema body) (fun x => Ok (KSchema x))
    else if Byte.eqb op OpChannel then bind (parse_channel body) (fun x => Ok (KChannel x))
    else if Byte.eqb op OpMessage then bind (parse_message body) (fun x => Ok (KMessage x))
    else if Byte.eqb op OpMetadata then bind (parse_metadata body) (fun x => Ok (KMetadata x))
    else Err EOther
  | EvAttachment a => Ok (KAttachment a)
  | EvInvalidChunk => Err EOther
  end.

Section Contents.
Variable lo : lopts.
Variable o : wopts.
Variable lib : bytes.

(* what a sequential reader must hand back for a call (maps come back sorted by key) *)
Definition call_contents (c : wcall) : list content :=
  match c with
  | CHeader h => [KHeader {| h_profile := h_profile h; h_library := header_library o lib h |}]
  | CSchema s => [KSchema s]
  | CChannel c => [KChannel (channel_norm c)]
  | CMessage m => [KMessage m]
  | CMetadata m => [KMetadata (metadata_norm m)]
  | CAttachment a src =>
    match lo_cb lo with
    | CbFull => [KAttachment (attach_obs lo a (concat (as_frags src))
                                (crc32 (enc_attachment_fields a ++ concat (as_frags src))))]
    | _ => []
    end
  | CClose => []
  end.

Definition call_wf (c : wcall) : Prop :=
  match c with
  | CHeader h => wf_header {| h_profile := h_profile h; h_library := header_library o lib h |}
  | CSchema s => wf_schema s
  | CChannel c => wf_channel c
  | CMessage m => wf_message m
  | CMetadata m => wf_metadata m
  | _ => True
  end.

Definition call_auto (c : wcall) : bool :=
  match c with CSchema _ | CChannel _ | CMessage _ => true | _ => false end.
Definition call_direct (c : wcall) : bool :=
  match c with CHeader _ | CMetadata _ | CAttachment _ _ => true | _ => false end.

Lemma decode_call c :
  call_wf c -> map decode_event (flat_map (crec_events lo) (call_rec o lib c)) = map Ok (call_contents c).
Proof.
  destruct c as [h|sc|ch|m|a src|md|]; cbn [call_wf call_rec call_contents flat_map crec_events]; intro Hwf;
    unfold rec_events; cbn [fst snd].
  - change (known_op OpHeader) with true. cbn [app map]. unfold decode_event.
    change (Byte.eqb OpHeader OpHeader) with true. cbv iota.
    rewrite <- (app_nil_r (enc_header _)), parse_enc_header by exact Hwf. reflexivity.
  - change (known_op OpSchema) with true. cbn [app map]. unfold decode_event.
    change (Byte.eqb OpSchema OpHeader) with false. change (Byte.eqb OpSchema OpSchema) with true. cbv iota.
    rewrite <- (app_nil_r (enc_schema _)), parse_enc_schema by exact Hwf. reflexivity.
  - change (known_op OpChannel) with true. cbn [app map]. unfold decode_event.
    change (Byte.eqb OpChannel OpHeader) with false. change (Byte.eqb OpChannel OpSchema) with false.
    change (Byte.eqb OpChannel OpChannel) with true. cbv iota.
    rewrite <- (app_nil_r (enc_channel _)), parse_enc_channel by exact Hwf. reflexivity.
  - change (known_op OpMessage) with true. cbn [app map]. unfold decode_event.
    change (Byte.eqb OpMessage OpHeader) with false. change (Byte.eqb OpMessage OpSchema) with false.
    change (Byte.eqb OpMessage OpChannel) with false. change (Byte.eqb OpMessage OpMessage) with true. cbv iota.
    rewrite parse_enc_message by exact Hwf. reflexivity.
  - destruct (lo_cb lo); reflexivity.
  - change (known_op OpMetadata) with true. cbn [app map]. unfold decode_event.
    change (Byte.eqb OpMetadata OpHeader) with false. change (Byte.eqb OpMetadata OpSchema) with false.
    change (Byte.eqb OpMetadata OpChannel) with false. change (Byte.eqb OpMetadata OpMessage) with false.
    change (Byte.eqb OpMetadata OpMetadata) with true. cbv iota.
    rewrite <- (app_nil_r (enc_metadata _)), parse_enc_metadata by exact Hwf. reflexivity.
  - reflexivity.
Qed.

Lemma filter_expected (p : crec -> bool) (pc : wcall -> bool) cs :
  (forall c, filter p (call_rec o lib c) = if pc c then call_rec o lib c else []) ->
  filter p (expected_records o lib cs) = expected_records o lib (filter pc cs).
Proof.
  intro H. unfold expected_records. rewrite filter_flat_map, flat_map_filter. apply flat_map_ext. exact H.
Qed.

Lemma filter_expected_auto cs :
  filter is_auto (expected_records o lib cs) = expected_records o lib (filter call_auto cs).
Proof. apply filter_expected. intros [ | | | | | | ]; reflexivity. Qed.
Lemma filter_expected_direct cs :
  filter is_direct (expected_records o lib cs) = expected_records o lib (filter call_direct cs).
Proof. apply filter_expected. intros [ | | | | | | ]; reflexivity. Qed.

Lemma Forall_filter {A} (P : A -> Prop) (p : A -> bool) l : Forall P l -> Forall P (filter p l).
Proof. rewrite !Forall_forall. intros H x Hx. apply filter_In in Hx. apply H, Hx. Qed.

Lemma decode_expected cs :
  Forall call_wf cs ->
  map decode_event (flat_map (crec_events lo) (expected_records o lib cs)) = map Ok (flat_map call_contents cs).
Proof.
  intro H. unfold expected_records. rewrite flat_map_flat_map, !map_flat_map.
  apply flat_map_ext_Forall with (P := call_wf); [exact H|]. intros c Hc. apply decode_call, Hc.
Qed.
End Contents.

Theorem C01_roundtrip_thm : forall o lib comp lo ds cs',
  C06_hyps o lib comp cs' -> codec_ok lo ds o comp -> Forall call_small cs' ->
  Forall (call_wf o lib) cs' -> lo_emit_chunks lo = false ->
  let R := W o lib comp None (cs' ++ [CClose]) in
  let evs := data_events (file_events lo ds (rev (w_trace (r_final R)))) in
  map decode_event (filter ev_direct evs) = map Ok (flat_map (call_contents lo o lib) (filter call_direct cs')) /\
  map decode_event (filter ev_auto evs) = map Ok (flat_map (call_contents lo o lib) (filter call_auto cs')).
Proof.
  intros o lib comp lo ds cs' H Hc Hs Hwf Hemit R evs.
  destruct (C01_events_thm o lib comp lo ds cs' H Hc Hs Hemit) as [A B]. fold R in A, B. fold evs in A, B.
  rewrite A, B, filter_expected_direct, filter_expected_auto.
  split; apply decode_expected, Forall_filter, Hwf.
Qed.

(* everything together: the lexer run on the written file *)
Theorem C01_lexer_roundtrip_thm : forall o lib comp lo ds cs' sk,
  C06_hyps o lib comp cs' -> codec_ok lo ds o comp -> Forall call_small cs' ->
  Forall (call_wf o lib) cs' -> lo_emit_chunks lo = false ->
  let R := W o lib comp None (cs' ++ [CClose]) in
  wf_file lo ds (rev (w_trace (r_final R))) ->
  forall fuel, (file_steps lo ds (rev (w_trace (r_final R))) + 1 <= fuel)%nat ->
  exists evs st,
    lex_all lo ds fuel (src_of (file_of R) sk) = Ok (evs, EEOF, st) /\
    map decode_event (filter ev_direct (data_events evs))
      = map Ok (flat_map (call_contents lo o lib) (filter call_direct cs')) /\
    map decode_event (filter ev_auto (data_events evs))
      = map Ok (flat_map (call_contents lo o lib) (filter call_auto cs')).
Proof.
  intros o lib comp lo ds cs' sk H Hc Hs Hwf Hemit R Hfile fuel Hf.
  destruct (C01_lexer_thm o lib comp lo ds cs' sk H Hfile fuel Hf) as (st & Hl).
  exists (file_events lo ds (rev (w_trace (r_final R)))), st. split; [exact Hl|].
  apply (C01_roundtrip_thm o lib comp lo ds cs' H Hc Hs Hwf Hemit).
Qed.

(* per kind: each kind of record comes back as the corresponding calls, in call order *)
Definition is_header_call (c : wcall) : bool := match c with CHeader _ => true | _ => false end.
Definition is_schema_call (c : wcall) : bool := match c with CSchema _ => true | _ => false end.
Definition is_channel_call (c : wcall) : bool := match c with CChannel _ => true | _ => false end.

Theorem C01_trace_classes_thm : forall o lib comp unz cs',
  C06_hyps o lib comp cs' ->
  (forall n plain, unz (o_comp o) (comp n plain) = plain) ->
  Forall call_small cs' ->
  let R := W o lib comp None (cs' ++ [CClose]) in
  let recs := data_records unz (rev (w_trace (r_final R))) in
  (* (a) schemas, channels and messages, in their mutual call order *)
  filter is_auto recs = expected_records o lib (filter call_auto cs') /\
  (* (b) attachments *)
  filter is_att recs = expected_records o lib (filter is_attachment cs') /\
  (* (c) metadata *)
  filter (is_op OpMetadata) recs = expected_records o lib (filter is_metadata cs') /\
  (* the header; header, attachments and metadata in their mutual call order *)
  filter (is_op OpHeader) recs = expected_records o lib (filter is_header_call cs') /\
  filter is_direct recs = expected_records o lib (filter call_direct cs') /\
  (* messages alone, schemas alone, channels alone *)
  filter (is_op OpMessage) recs = expected_records o lib (filter is_message cs') /\
  filter (is_op OpSchema) recs = expected_records o lib (filter is_schema_call cs') /\
  filter (is_op OpChannel) recs = expected_records o lib (filter is_channel_call cs').
Proof.
  intros o lib comp unz cs' H Hunz Hs R recs.
  destruct (C01_trace_content_thm o lib comp unz cs' H Hunz Hs) as [D A]. fold R in D, A. fold recs in D, A.
  assert (XA : forall (p : crec -> bool) (pc : wcall -> bool), (forall r, p r = true -> is_auto r = true) ->
             (forall c, filter p (call_rec o lib c) = if pc c then call_rec o lib c else []) ->
             filter p recs = expected_records o lib (filter pc cs')).
  { intros p pc H1 H2. rewrite <- (filter_refine p is_auto recs H1), A, (filter_refine p is_auto _ H1).
    apply filter_expected, H2. }
  assert (XD : forall (p : crec -> bool) (pc : wcall -> bool), (forall r, p r = true -> is_direct r = true) ->
             (forall c, filter p (call_rec o lib c) = if pc c then call_rec o lib c else []) ->
             filter p recs = expected_records o lib (filter pc cs')).
  { intros p pc H1 H2. rewrite <- (filter_refine p is_direct recs H1), D, (filter_refine p is_direct _ H1).
    apply filter_expected, H2. }
  assert (Hop : forall x r, is_op x r = true -> exists body, r = CR x body).
  { intros x [op body|? ? ?]; cbn; intro E; [|discriminate]. apply Byte.byte_dec_bl in E. subst. eauto. }
  refine (conj _ (conj _ (conj _ (conj _ (conj _ (conj _ (conj _ _))))))).
  - apply XA; [auto|]. intros [ | | | | | | ]; reflexivity.
  - apply XD; [intros r; destruct r; cbn; (discriminate || reflexivity)|]. intros c; destruct c; reflexivity.
  - apply XD; [|intros [ | | | | | | ]; reflexivity]. intros r Hr. destruct (Hop _ _ Hr) as (b & ->). reflexivity.
  - apply XD; [|intros [ | | | | | | ]; reflexivity]. intros r Hr. destruct (Hop _ _ Hr) as (b & ->). reflexivity.
  - apply XD; [auto|]. intros [ | | | | | | ]; reflexivity.
  - apply XA; [|intros [ | | | | | | ]; reflexivity]. intros r Hr. destruct (Hop _ _ Hr) as (b & ->). reflexivity.
  - apply XA; [|intros [ | | | | | | ]; reflexivity]. intros r Hr. destruct (Hop _ _ Hr) as (b & ->). reflexivity.
  - apply XA; [|intros [ | | | | | | ]; reflexivity]. intros r Hr. destruct (Hop _ _ Hr) as (b & ->). reflexivity.
Qed.

(* ====================================================================== *)
(** * 4. C11: unknown records are skipped *)

(* a list of (inner) records with records of unknown opcode inserted at arbitrary positions *)
Inductive ins_unknown : list (byte * bytes) -> list (byte * bytes) -> Prop :=
| IU_nil : ins_unknown [] []
| IU_keep r l l' : ins_unknown l l' -> ins_unknown (r :: l) (r :: l')
| IU_ins r l l' : known_op (fst r) = false -> ins_unknown l l' -> ins_unknown l (r :: l').

Lemma ins_unknown_events l l' :
  ins_unknown l l' -> concat (map rec_events l') = concat (map rec_events l).
Proof.
  induction 1 as [|r l l' _ IH|r l l' Hu _ IH]; [reflexivity| |]; cbn [map concat].
  - rewrite IH. reflexivity.
  - unfold rec_events at 1. rewrite Hu. exact IH.
Qed.

Section Decorate.
Variable lo : lopts.
Variable ds : doracle.

(* items' is items with (a) extra top-level records of unknown opcode, each acceptable to the
   lexer's generic path, and (b) chunks replaced by well-formed chunks whose uncompressed
   content has extra records of unknown opcode *)
Inductive decorate : list item -> list item -> Prop :=
| D_nil : decorate [] []
| D_keep it l l' : decorate l l' -> decorate (it :: l) (it :: l')
| D_ins op body l l' :
    known_op op = false -> plain_rec_ok lo (op, body) -> decorate l l' -> decorate l (IRec op body :: l')
| D_chunk k k' l l' :
    lo_emit_chunks lo = false -> wf_chunk_item lo ds k' ->
    ins_unknown (chunk_inner lo ds k) (chunk_inner lo ds k') ->
    decorate l l' -> decorate (IChunk k :: l) (IChunk k' :: l').

(* ... between the leading and the trailing magic *)
Definition decorate_file (items items' : list item) : Prop :=
  exists recs recs', items = lead_magic lo ++ recs ++ [IMagic] /\ items' = lead_magic lo ++ recs' ++ [IMagic]
                     /\ decorate recs recs'.

Lemma decorate_events l l' : decorate l l' -> file_events lo ds l' = file_events lo ds l.
Proof.
  unfold file_events.
  induction 1 as [|it l l' _ IH|op body l l' Hu _ _ IH|k k' l l' Hemit _ Hin _ IH]; [reflexivity| | |];
    cbn [map concat].
  - rewrite IH. reflexivity.
  - cbn [item_events]. unfold rec_events. cbn [fst]. rewrite Hu. exact IH.
  - cbn [item_events]. rewrite Hemit, IH, (ins_unknown_events _ _ Hin). reflexivity.
Qed.

Lemma decorate_wf l l' : decorate l l' -> Forall (wf_item lo ds) l -> Forall (wf_item lo ds) l'.
Proof.
  induction 1 as [|it l l' _ IH|op body l l' _ Hok _ IH|k k' l l' _ Hwf _ _ IH]; intro H.
  - constructor.
  - inversion H; subst. constructor; auto.
  - constructor; [exact Hok|auto].
  - inversion H; subst. constructor; [exact Hwf|auto].
Qed.

Lemma wf_file_recs recs1 recs2 :
  lead_magic lo ++ recs1 ++ [IMagic] = lead_magic lo ++ recs2 ++ [IMagic] -> recs1 = recs2.
Proof. intro H. apply app_inv_head in H. apply app_inv_tail in H. exact H. Qed.

Theorem C11_events_thm items items' :
  decorate_file items items' -> file_events lo ds items' = file_events lo ds items.
Proof.
  intros (recs & recs' & -> & -> & Hd). rewrite !file_events_app, (decorate_events _ _ Hd). reflexivity.
Qed.

Theorem C11_wf_thm items items' :
  wf_file lo ds items -> decorate_file items items' -> wf_file lo ds items'.
Proof.
  intros (recs0 & E0 & Hwf) (recs & recs' & E & -> & Hd). rewrite E in E0.
  apply wf_file_recs in E0. subst recs0. exists recs'. split; [reflexivity|].
  eapply decorate_wf; eassumption.
Qed.

(* both files are read, by the same lexer, as the same sequence of events *)
Theorem C11_unknown_records_skipped_thm items items' sk sk' :
  wf_file lo ds items -> decorate_file items items' ->
  forall fuel, (file_steps lo ds items + 1 <= fuel)%nat -> (file_steps lo ds items' + 1 <= fuel)%nat ->
  exists st st',
    lex_all lo ds fuel (src_of (render items) sk) = Ok (file_events lo ds items, EEOF, st) /\
    lex_all lo ds fuel (src_of (render items') sk') = Ok (file_events lo ds items, EEOF, st').
Proof.
  intros Hwf Hd fuel Hf Hf'.
  destruct (lex_render_thm lo ds items sk Hwf fuel Hf) as (st & H1).
  destruct (lex_render_thm lo ds items' sk' (C11_wf_thm _ _ Hwf Hd) fuel Hf') as (st' & H2).
  rewrite (C11_events_thm _ _ Hd) in H2. exists st, st'. split; assumption.
Qed.
End Decorate.

(* appended bytes are ignored by the parsers of the extensible records *)
Theorem C11_padding_ignored_thm : forall pad,
  (forall h, wf_header h -> parse_header (enc_header h ++ pad) = Ok h) /\
  (forall s, wf_schema s -> parse_schema (enc_schema s ++ pad) = Ok s) /\
  (forall c, wf_channel c -> parse_channel (enc_channel c ++ pad) = Ok (channel_norm c)) /\
  (forall mi, wf_msgindex mi -> parse_msgindex (enc_msgindex mi ++ pad) = Ok mi) /\
  (forall ci, wf_chunkindex ci -> parse_chunkindex (enc_chunkindex ci ++ pad) = Ok (chunkindex_norm ci)) /\
  (forall ai, wf_attindex ai -> parse_attindex (enc_attindex ai ++ pad) = Ok ai) /\
  (forall s, wf_statistics s -> parse_statistics (enc_statistics s ++ pad) = Ok (statistics_norm s)) /\
  (forall m, wf_metadata m -> parse_metadata (enc_metadata m ++ pad) = Ok (metadata_norm m)) /\
  (forall x, wf_mdindex x -> parse_mdindex (enc_mdindex x ++ pad) = Ok x) /\
  (forall s, wf_sumoffset s -> parse_sumoffset (enc_sumoffset s ++ pad) = Ok s).
Proof.
  intro pad. repeat split; intros;
    auto using parse_enc_header, parse_enc_schema, parse_enc_channel, parse_enc_msgindex, parse_enc_chunkindex,
      parse_enc_attindex, parse_enc_statistics, parse_enc_metadata, parse_enc_mdindex, parse_enc_sumoffset.
Qed.

(* the eleventh extensible record: an attachment record with bytes appended after its CRC.  The
   lexer's attachment handler reports the same observation and consumes the appended bytes. *)
Lemma do_attachment_pad_thm lo a data crc pad rest e sk :
  wf_attach_item lo a data crc ->
  do_attachment lo (blen (attach_body a data crc ++ pad)) (rd ((attach_body a data crc ++ pad) ++ rest) e sk)
  = (match lo_cb lo with CbFull => Some (EvAttachment (attach_obs lo a data crc)) | _ => None end,
     None, rd rest e sk).
Proof.
  intros (W1 & W2 & W3 & W4 & W5 & W6 & W7 & _ & Wcb).
  unfold do_attachment. destruct Wcb as [Hcb | Hcb]; rewrite Hcb; cbv beta iota zeta.
  - rewrite rd_skip_exact. reflexivity.
  - set (body := attach_body a data crc).
    assert (Hlim : limited (blen (body ++ pad)) (rd ((body ++ pad) ++ rest) e sk) = @pair bytes (option err) (body ++ pad) None).
    { unfold limited, rd. cbn [r_buf r_end]. rewrite (LexerFactsB.blen_app (body ++ pad) rest).
      destruct (N.leb_spec (blen (body ++ pad)) (blen (body ++ pad) + blen rest)); [|lia].
      rewrite take_app_exact. reflexivity. }
    rewrite Hlim. cbn [fst snd].
    assert (H : skipn 0 (body ++ pad) = u64 (a_log a) ++ u64 (a_create a) ++ pstr (a_name a) ++ pstr (a_media a)
                               ++ u64 (a_size a) ++ data ++ u32 crc ++ pad).
    { unfold body, attach_body, enc_attachment_fields. rewrite <- !app_assoc. reflexivity. }
        destruct (lim_read_step 8 (body ++ pad) None _ _ _ H (u64_length _)) as [E1 S1]; [lia|]. rewrite E1. cbn [bind].
    destruct (lim_read_step 8 (body ++ pad) None _ _ _ S1 (u64_length _)) as [E2 S2]; [lia|]. rewrite E2. cbn [bind].
    destruct (lim_pstr_step (body ++ pad) None _ _ _ S2 W3) as [E3 S3]. rewrite E3. cbn [bind].
    destruct (lim_pstr_step (body ++ pad) None _ _ _ S3 W4) as [E4 S4]. rewrite E4. cbn [bind].
    destruct (lim_read_step 8 (body ++ pad) None _ _ _ S4 (u64_length _)) as [E5 S5]; [lia|]. rewrite E5. cbn [bind].
    set (o5 := (0 + 8 + 8 + 4 + length (a_name a) + 4 + length (a_media a) + 8)%nat) in *.
    assert (Hsz : a_size a < two63).
    { rewrite W5. unfold body, attach_body in W7. rewrite !LexerFactsB.blen_app in W7. lia. }
    rewrite !unle_u64 by (try assumption; unfold two63, two64 in *; lia).
    destruct (N.ltb_spec 9223372036854775807 (a_size a)); [unfold two63 in Hsz; lia|].
    rewrite S5. rewrite W5, take_app_exact.
    rewrite N.ltb_irrefl.
    assert (Ho5 : (o5 + length data)%nat = length (enc_attachment_fields a ++ data)).
    { pose proof (skipn_length_sub _ _ _ S5) as L. rewrite !app_length, u32_length in L.
      unfold body, attach_body in L. rewrite !app_length, u32_length in L. rewrite app_length. lia. }
    rewrite Ho5.
    assert (S6 : skipn (length (enc_attachment_fields a ++ data)) (body ++ pad) = u32 crc ++ pad).
    { unfold body, attach_body. rewrite (app_assoc _ data), <- app_assoc. apply skipn_app_exact. }
    destruct (lim_read_step 4 (body ++ pad) None _ _ _ S6 (u32_length _)) as [E6 _]; [lia|]. rewrite E6.
    rewrite unle_u32 by exact W6.
    replace (firstn (length (enc_attachment_fields a ++ data)) (body ++ pad)) with (enc_attachment_fields a ++ data)
      by (unfold body, attach_body; rewrite (app_assoc _ data), <- app_assoc, firstn_app_exact; reflexivity).
    assert (Hcons : (length (enc_attachment_fields a ++ data) + 4)%nat = length body).
    { unfold body, attach_body. rewrite (app_assoc _ data), (app_length _ (u32 crc)), u32_length. reflexivity. }
    rewrite Hcons. cbn [rd r_buf r_end r_seek]. rewrite <- (app_assoc body pad rest), skipn_app_exact.
    replace (blen (body ++ pad) - N.of_nat (length body)) with (blen pad)
      by (rewrite LexerFactsB.blen_app; unfold blen; lia).
    change {| r_buf := pad ++ rest; r_end := e; r_seek := sk |} with (rd (pad ++ rest) e sk).
    rewrite rd_skip_exact.
    unfold attach_obs. rewrite <- W5. reflexivity.
Qed.

(* ====================================================================== *)
(** * 5. C12: the layout is invisible *)

(* the logical content as the lexer reports it: the header, schema, channel, message, metadata
   tokens and the attachment events of the data section *)
Definition content_events (evs : list event) : list event := filter ev_content (data_events evs).

Theorem C12_content_thm lo ds items :
  lo_emit_chunks lo = false ->
  content_events (file_events lo ds items)
  = flat_map (crec_events lo) (filter is_content (data_records (lunz lo ds) items)).
Proof. intro Hemit. apply class_events_records; [exact Hemit|exact compat_content]. Qed.

Theorem C12_chunking_invisible_thm lo ds items1 items2 :
  lo_emit_chunks lo = false ->
  filter is_content (data_records (lunz lo ds) items1) = filter is_content (data_records (lunz lo ds) items2) ->
  content_events (file_events lo ds items1) = content_events (file_events lo ds items2).
Proof. intros Hemit H. rewrite !C12_content_thm by exact Hemit. rewrite H. reflexivity. Qed.

Theorem C12_lexer_thm lo ds items1 items2 sk1 sk2 :
  lo_emit_chunks lo = false -> wf_file lo ds items1 -> wf_file lo ds items2 ->
  filter is_content (data_records (lunz lo ds) items1) = filter is_content (data_records (lunz lo ds) items2) ->
  forall fuel, (file_steps lo ds items1 + 1 <= fuel)%nat -> (file_steps lo ds items2 + 1 <= fuel)%nat ->
  exists evs1 evs2 st1 st2,
    lex_all lo ds fuel (src_of (render items1) sk1) = Ok (evs1, EEOF, st1) /\
    lex_all lo ds fuel (src_of (render items2) sk2) = Ok (evs2, EEOF, st2) /\
    content_events evs1 = content_events evs2.
Proof.
  intros Hemit W1 W2 H fuel F1 F2.
  destruct (lex_render_thm lo ds items1 sk1 W1 fuel F1) as (st1 & H1).
  destruct (lex_render_thm lo ds items2 sk2 W2 fuel F2) as (st2 & H2).
  exists (file_events lo ds items1), (file_events lo ds items2), st1, st2.
  split; [exact H1|]. split; [exact H2|]. apply C12_chunking_invisible_thm; assumption.
Qed.

(* a chunk counts as the records of its uncompressed content, whatever its compression and
   wherever its boundaries are *)
Lemma item_records_chunk lo ds k inner :
  chunk_stream lo ds (k_comp k) (k_records k) None = (frames inner, None) ->
  Forall (fun r => blen (snd r) < two64) inner ->
  item_records (lunz lo ds) (IChunk k) = map cr_of inner.
Proof.
  intros Hs Hsm. cbn [item_records]. f_equal. unfold chunk_recs, lunz. rewrite Hs. cbn [fst].
  apply split_records_frames; [exact Hsm|lia].
Qed.

Lemma all_records_app unz a b : all_records unz (a ++ b) = all_records unz a ++ all_records unz b.
Proof. apply flat_map_app'. Qed.

(* re-chunking: one chunk holding inner1 ++ inner2 against two chunks, against no chunk at all *)
Theorem C12_rechunk_thm lo ds k k1 k2 inner1 inner2 pre post :
  chunk_stream lo ds (k_comp k) (k_records k) None = (frames (inner1 ++ inner2), None) ->
  chunk_stream lo ds (k_comp k1) (k_records k1) None = (frames inner1, None) ->
  chunk_stream lo ds (k_comp k2) (k_records k2) None = (frames inner2, None) ->
  Forall (fun r => blen (snd r) < two64) (inner1 ++ inner2) ->
  all_records (lunz lo ds) (pre ++ IChunk k :: post) = all_records (lunz lo ds) (pre ++ IChunk k1 :: IChunk k2 :: post)
  /\ all_records (lunz lo ds) (pre ++ IChunk k :: post)
     = all_records (lunz lo ds) (pre ++ map (fun r => IRec (fst r) (snd r)) (inner1 ++ inner2) ++ post).
Proof.
  intros H H1 H2 Hsm. pose proof Hsm as Hsm'. apply Forall_app in Hsm'. destruct Hsm' as [S1 S2].
  rewrite !all_records_app. unfold all_records at 2 4 6. cbn [flat_map].
  rewrite (item_records_chunk _ _ _ _ H Hsm), (item_records_chunk _ _ _ _ H1 S1), (item_records_chunk _ _ _ _ H2 S2).
  split.
  - rewrite map_app, <- !app_assoc. reflexivity.
  - f_equal. fold (all_records (lunz lo ds) post). f_equal.
    unfold all_records. rewrite flat_map_map'. cbn [item_records]. clear.
    induction (inner1 ++ inner2) as [|r l IH]; [reflexivity|]. cbn [map flat_map app]. rewrite <- IH. reflexivity.
Qed.

(* two Go writer configurations (chunked or not, any chunk size, any compression the lexer can
   undo, any Skip* flags) given the same calls: same per-class content for the lexer *)
Theorem C12_writer_layouts_thm : forall o1 o2 lib comp1 comp2 lo ds cs',
  C06_hyps o1 lib comp1 cs' -> C06_hyps o2 lib comp2 cs' ->
  codec_ok lo ds o1 comp1 -> codec_ok lo ds o2 comp2 ->
  o_override_lib o1 = o_override_lib o2 ->
  Forall call_small cs' -> lo_emit_chunks lo = false ->
  let ev o comp := data_events (file_events lo ds (rev (w_trace (r_final (W o lib comp None (cs' ++ [CClose])))))) in
  filter ev_direct (ev o1 comp1) = filter ev_direct (ev o2 comp2) /\
  filter ev_auto (ev o1 comp1) = filter ev_auto (ev o2 comp2).
Proof.
  intros o1 o2 lib comp1 comp2 lo ds cs' H1 H2 C1 C2 Hov Hs Hemit ev. subst ev. cbv beta.
  destruct (C01_events_thm o1 lib comp1 lo ds cs' H1 C1 Hs Hemit) as [A1 B1].
  destruct (C01_events_thm o2 lib comp2 lo ds cs' H2 C2 Hs Hemit) as [A2 B2].
  assert (E : expected_records o1 lib cs' = expected_records o2 lib cs').
  { unfold expected_records. apply flat_map_ext. intros [h| | | | | |]; try reflexivity.
    cbn [call_rec]. unfold header_library. rewrite Hov. reflexivity. }
  rewrite A1, A2, B1, B2, E. split; reflexivity.
Qed.

(* ====================================================================== *)
(** * 6. concrete workloads *)

(* tactics that establish wf_item / wf_file for closed terms by computation *)
Ltac leaf :=
  first [ reflexivity | discriminate | (vm_compute; reflexivity) | (vm_compute; discriminate)
        | (left; vm_compute; reflexivity) | (right; vm_compute; reflexivity) ].

Ltac wf_chunk_tac :=
  lazymatch goal with
  | |- wf_chunk_item ?lo ?ds ?k =>
    let inner := eval vm_compute in (chunk_inner lo ds k) in
    unfold wf_chunk_item;
    replace (lo_emit_chunks lo) with false by (vm_compute; reflexivity);
    refine (conj _ (conj _ (conj _ (conj _ (conj _ _)))));
    [ unfold wf_chunk; refine (conj _ (conj _ (conj _ (conj _ (conj _ _))))); leaf
    | leaf | leaf | leaf | leaf
    | exists inner; refine (conj _ (conj _ (conj _ (conj _ _))));
      [ leaf | leaf
      | repeat (apply Forall_cons; [unfold plain_rec_ok; cbn [fst snd];
                                    refine (conj _ (conj _ (conj _ (conj _ _)))); leaf|]); apply Forall_nil
      | leaf
      | intros _; refine (conj _ (conj _ _)); [leaf | leaf | first [discriminate | (vm_compute; discriminate) | (intros _; leaf)]] ] ]
  end.

Ltac wf_item_tac :=
  lazymatch goal with
  | |- wf_item _ _ (IRec _ _) =>
    cbn [wf_item]; unfold plain_rec_ok; cbn [fst snd]; refine (conj _ (conj _ (conj _ (conj _ _)))); leaf
  | |- wf_item _ _ (IFooter _ _ _) => cbn [wf_item]; refine (conj _ (conj _ (conj _ _))); leaf
  | |- wf_item _ _ (IAttach _ _ _) =>
    cbn [wf_item]; unfold wf_attach_item;
    refine (conj _ (conj _ (conj _ (conj _ (conj _ (conj _ (conj _ (conj _ _)))))))); leaf
  | |- wf_item _ _ (IChunk _) => cbn [wf_item]; wf_chunk_tac
  end.

Ltac wf_items_tac := repeat (apply Forall_cons; [wf_item_tac|]); apply Forall_nil.

(* the middle of a closed item list: drop the first and the last element *)
Definition middle {A} (l : list A) : list A := removelast (tl l).

Ltac wf_file_tac :=
  lazymatch goal with
  | |- wf_file ?lo ?ds ?items =>
    let recs := eval vm_compute in (middle items) in
    exists recs; split; [vm_compute; reflexivity | wf_items_tac]
  end.

(* ---------- the chunked, CRC-enabled workload of WriterFactsB (2 chunks, an attachment, metadata) ---------- *)
Definition ex_unz : bytes -> bytes -> bytes := fun _ stored => stored.
Definition ex_lo : lopts := ex_lopts true false CbFull.
Definition ex_R : wresult := W ex_o ex_lib ex_comp None ex_cs.
Definition ex_trace : list item := rev (w_trace (r_final ex_R)).

Lemma ex_C06_hyps : C06_hyps ex_o ex_lib ex_comp ex_cs_pre.
Proof.
  unfold C06_hyps. split; [vm_compute; reflexivity|]. split.
  - vm_compute. repeat constructor.
  - unfold ex_cs_pre. repeat constructor; discriminate.
Qed.

Lemma ex_unz_ok : forall n plain, ex_unz (o_comp ex_o) (ex_comp n plain) = plain.
Proof. reflexivity. Qed.

Lemma ex_call_small : Forall call_small ex_cs_pre.
Proof. unfold ex_cs_pre. repeat constructor; vm_compute; reflexivity. Qed.

Lemma ex_call_wf : Forall (call_wf ex_o ex_lib) ex_cs_pre.
Proof.
  unfold ex_cs_pre. repeat (apply Forall_cons; [|]); try apply Forall_nil; cbn [call_wf]; try exact I.
  - split; vm_compute; reflexivity.
  - repeat split; vm_compute; reflexivity.
  - unfold wf_channel. refine (conj _ (conj _ (conj _ (conj _ (conj _ _))))); [leaf|leaf|leaf|leaf| |leaf].
    split; constructor.
  - repeat split; vm_compute; reflexivity.
  - repeat split; vm_compute; reflexivity.
  - repeat split; vm_compute; reflexivity.
  - unfold wf_metadata. refine (conj _ (conj _ _)); [leaf| |leaf].
    split; [cbn [map fst]; repeat constructor; intros []|].
    repeat constructor; vm_compute; reflexivity.
Qed.

Lemma ex_codec_ok : codec_ok ex_lo ds_id ex_o ex_comp.
Proof. intros n plain. reflexivity. Qed.

Lemma ex_trace_wf : wf_file ex_lo ds_id ex_trace.
Proof. wf_file_tac. Qed.

(* computed independently of the theorems: the flattened data section of the trace holds exactly
   the records asked for, per class *)
Example ex_data_records :
  filter is_auto (data_records ex_unz ex_trace) = filter is_auto (expected_records ex_o ex_lib ex_cs_pre) /\
  filter is_direct (data_records ex_unz ex_trace) = filter is_direct (expected_records ex_o ex_lib ex_cs_pre) /\
  length (filter is_auto (data_records ex_unz ex_trace)) = 5%nat /\
  length (filter is_direct (data_records ex_unz ex_trace)) = 3%nat /\
  length (all_records ex_unz ex_trace) = 25%nat.
Proof. vm_compute. repeat split. Qed.

(* the lexer model run on the bytes the writer model produced; the decoded tokens are the records
   that were written (streaming and seekable source, CRC validation on) *)
Example ex_lex_written : forall sk,
  match lex_all ex_lo ds_id 40 (src_of (file_of ex_R) sk) with
  | Ok (evs, EEOF, _) =>
    map decode_event (filter ev_auto (data_events evs))
      = map Ok (flat_map (call_contents ex_lo ex_o ex_lib) (filter call_auto ex_cs_pre)) /\
    map decode_event (filter ev_direct (data_events evs))
      = map Ok (flat_map (call_contents ex_lo ex_o ex_lib) (filter call_direct ex_cs_pre)) /\
    length (filter ev_auto (data_events evs)) = 5%nat /\ length (filter ev_direct (data_events evs)) = 3%nat
  | _ => False
  end.
Proof. intros [|]; vm_compute; repeat split. Qed.

Example ex_fuel : (file_steps ex_lo ds_id ex_trace + 1 <= 40)%nat.
Proof. vm_compute. lia. Qed.

(* ---------- the same calls, two more configurations: a compressing codec, and no chunking ---------- *)
(* a toy codec: the "compressor" prepends a byte, the decoder drops it *)
Definition comp_z (n : nat) (b : bytes) : bytes := xff :: b.
Definition ds_z : doracle := fun _ avail pend => (tl avail, pend).
Definition ex_o_z : wopts :=
  {| o_crc := true; o_chunked := true; o_chunksize := 40; o_comp := comp_zstd; o_custom := false;
     o_skip_mi := false; o_skip_stats := false; o_skip_rsh := false; o_skip_rch := false;
     o_skip_ai := false; o_skip_mdi := false; o_skip_ci := false; o_skip_so := false;
     o_override_lib := false; o_skip_magic := false |}.
Definition ex_o_u : wopts :=
  {| o_crc := true; o_chunked := false; o_chunksize := 40; o_comp := []; o_custom := false;
     o_skip_mi := false; o_skip_stats := true; o_skip_rsh := false; o_skip_rch := true;
     o_skip_ai := false; o_skip_mdi := true; o_skip_ci := false; o_skip_so := true;
     o_override_lib := false; o_skip_magic := false |}.
Definition ex_trace_z : list item := rev (w_trace (r_final (W ex_o_z ex_lib comp_z None ex_cs))).
Definition ex_trace_u : list item := rev (w_trace (r_final (W ex_o_u ex_lib ex_comp None ex_cs))).

Lemma ex_C06_hyps_z : C06_hyps ex_o_z ex_lib comp_z ex_cs_pre.
Proof.
  unfold C06_hyps. split; [vm_compute; reflexivity|]. split.
  - vm_compute. repeat constructor.
  - unfold ex_cs_pre. repeat constructor; discriminate.
Qed.
Lemma ex_C06_hyps_u : C06_hyps ex_o_u ex_lib ex_comp ex_cs_pre.
Proof.
  unfold C06_hyps. split; [vm_compute; reflexivity|]. split.
  - vm_compute. repeat constructor.
  - unfold ex_cs_pre. repeat constructor; discriminate.
Qed.
Lemma ex_codec_ok_z : codec_ok ex_lo ds_z ex_o_z comp_z.
Proof. intros n plain. reflexivity. Qed.
Lemma ex_codec_ok_u : codec_ok ex_lo ds_z ex_o_u ex_comp.
Proof. intros n plain. reflexivity. Qed.
Lemma ex_codec_ok_n : codec_ok ex_lo ds_z ex_o ex_comp.
Proof. intros n plain. reflexivity. Qed.
Lemma ex_trace_wf_z : wf_file ex_lo ds_z ex_trace_z.
Proof. wf_file_tac. Qed.
Lemma ex_trace_wf_u : wf_file ex_lo ds_z ex_trace_u.
Proof. wf_file_tac. Qed.
Lemma ex_trace_wf_n : wf_file ex_lo ds_z ex_trace.
Proof. wf_file_tac. Qed.

(* a chunk size larger than the file: the messages stay in the chunk buffer until Close *)
Definition ex_o_big : wopts :=
  {| o_crc := true; o_chunked := true; o_chunksize := 100000; o_comp := []; o_custom := false;
     o_skip_mi := true; o_skip_stats := false; o_skip_rsh := true; o_skip_rch := false;
     o_skip_ai := true; o_skip_mdi := false; o_skip_ci := true; o_skip_so := false;
     o_override_lib := false; o_skip_magic := false |}.
Definition ex_trace_big : list item := rev (w_trace (r_final (W ex_o_big ex_lib ex_comp None ex_cs))).
Lemma ex_C06_hyps_big : C06_hyps ex_o_big ex_lib ex_comp ex_cs_pre.
Proof.
  unfold C06_hyps. split; [vm_compute; reflexivity|]. split.
  - vm_compute. repeat constructor.
  - unfold ex_cs_pre. repeat constructor; discriminate.
Qed.
Lemma ex_codec_ok_big : codec_ok ex_lo ds_z ex_o_big ex_comp.
Proof. intros n plain. reflexivity. Qed.
Lemma ex_trace_wf_big : wf_file ex_lo ds_z ex_trace_big.
Proof. wf_file_tac. Qed.

(* four different layouts of the same calls (2 uncompressed chunks / 2 "compressed" chunks / no
   chunks / one chunk written at Close), computed: the files differ, the content the lexer reports
   per class does not.  With the big chunk the attachment and the metadata record are in the file
   BEFORE the schema, channel and messages written earlier, hence the per-class comparison. *)
Example ex_layouts :
  render ex_trace <> render ex_trace_z /\ render ex_trace <> render ex_trace_u /\
  render ex_trace <> render ex_trace_big /\
  content_events (file_events ex_lo ds_z ex_trace) = content_events (file_events ex_lo ds_z ex_trace_z) /\
  content_events (file_events ex_lo ds_z ex_trace) = content_events (file_events ex_lo ds_z ex_trace_u) /\
  content_events (file_events ex_lo ds_z ex_trace) <> content_events (file_events ex_lo ds_z ex_trace_big) /\
  filter ev_auto (data_events (file_events ex_lo ds_z ex_trace))
    = filter ev_auto (data_events (file_events ex_lo ds_z ex_trace_big)) /\
  filter ev_direct (data_events (file_events ex_lo ds_z ex_trace))
    = filter ev_direct (data_events (file_events ex_lo ds_z ex_trace_big)).
Proof.
  refine (conj _ (conj _ (conj _ (conj _ (conj _ (conj _ (conj _ _))))))); vm_compute; first [reflexivity | discriminate].
Qed.

(* ---------- C11: the example file of LexerFactsB section 9, decorated ---------- *)
Definition ex_inner_dec : list (byte * bytes) :=
  [(x99, [x01]); (OpMessage, ex_m1); (xfe, []); (OpMessage, ex_m2); (x10, [x00; x00])].
Definition ex_k_dec : chunk :=
  {| k_start := 3; k_end := 5; k_usize := blen (frames ex_inner_dec); k_crc := crc32 (frames ex_inner_dec);
     k_comp := []; k_records := frames ex_inner_dec |}.
(* unknown records before the header, between data records, in the summary section (after
   DataEnd), right before the footer, and inside the chunk *)
Definition ex_recs_dec : list item :=
  [IRec x80 []; IRec OpHeader (enc_header {| h_profile := []; h_library := [x6c] |}); IRec xff [x01; x02; x03];
   IChunk ex_k_dec; IRec x81 [x00; x01]; IAttach LexerFactsB.ex_att ex_adata ex_acrc; IRec x10 [];
   IRec OpDataEnd (u32 0); IRec x90 [xaa]; IFooter 0 0 0].
Definition ex_items_dec : list item := [IMagic] ++ ex_recs_dec ++ [IMagic].

Ltac ins_tac := apply D_ins; [reflexivity|unfold plain_rec_ok; cbn [fst snd];
                              refine (conj _ (conj _ (conj _ (conj _ _)))); leaf|].

Lemma ex_decorate validate cb :
  decorate_file (ex_lopts validate false cb) ds_id ex_items ex_items_dec.
Proof.
  exists (middle ex_items), ex_recs_dec. split; [reflexivity|]. split; [reflexivity|].
  unfold ex_recs_dec. cbn [middle ex_items ex_pre ex_mid ex_post app tl removelast].
  ins_tac. apply D_keep. ins_tac.
  apply D_chunk; [reflexivity|destruct validate; wf_chunk_tac| |].
  - vm_compute. repeat first [apply IU_nil | apply IU_keep | (apply IU_ins; [reflexivity|])].
  - apply D_keep. apply D_keep. ins_tac. apply D_keep. ins_tac. apply D_keep. apply D_nil.
Qed.

Example ex_decorated_hyps validate cb :
  cb = CbNone \/ cb = CbFull ->
  wf_file (ex_lopts validate false cb) ds_id ex_items /\
  decorate_file (ex_lopts validate false cb) ds_id ex_items ex_items_dec /\
  (file_steps (ex_lopts validate false cb) ds_id ex_items + 1 <= 40)%nat /\
  (file_steps (ex_lopts validate false cb) ds_id ex_items_dec + 1 <= 40)%nat.
Proof.
  intro Hcb. split; [apply ex_wf_file, Hcb|]. split; [apply ex_decorate|].
  destruct validate; destruct Hcb as [-> | ->]; vm_compute; lia.
Qed.

(* computed independently of the theorem: same events from both files *)
Example ex_decorated_lex :
  match lex_all ex_lo ds_id 40 (src_of (render ex_items) false),
        lex_all ex_lo ds_id 40 (src_of (render ex_items_dec) false) with
  | Ok (evs, EEOF, _), Ok (evs', EEOF, _) => evs = evs' /\ length evs = 6%nat
  | _, _ => False
  end.
Proof. vm_compute. split; reflexivity. Qed.

(* ---------- C12: the same file with the chunk split, recompressed, dissolved ---------- *)
Definition ex_k_a : chunk :=
  {| k_start := 3; k_end := 3; k_usize := blen (frames [(OpMessage, ex_m1)]); k_crc := 0;
     k_comp := comp_zstd; k_records := comp_z 0 (frames [(OpMessage, ex_m1)]) |}.
Definition ex_items_split : list item :=
  ex_pre ++ IChunk ex_k_a :: IRec OpMessageIndex (enc_msgindex {| mi_chan := 1; mi_entries := [(3, 0)] |})
         :: IRec OpMessage ex_m2 :: ex_mid ++ IAttach LexerFactsB.ex_att ex_adata ex_acrc :: ex_post.

Lemma ex_items_wf_z : wf_file ex_lo ds_z ex_items.
Proof. wf_file_tac. Qed.
Lemma ex_items_split_wf : wf_file ex_lo ds_z ex_items_split.
Proof. wf_file_tac. Qed.

Example ex_split_hyps :
  lo_emit_chunks ex_lo = false /\ wf_file ex_lo ds_z ex_items /\ wf_file ex_lo ds_z ex_items_split /\
  filter is_content (data_records (lunz ex_lo ds_z) ex_items)
    = filter is_content (data_records (lunz ex_lo ds_z) ex_items_split) /\
  (file_steps ex_lo ds_z ex_items + 1 <= 40)%nat /\ (file_steps ex_lo ds_z ex_items_split + 1 <= 40)%nat /\
  render ex_items <> render ex_items_split /\
  file_events ex_lo ds_z ex_items <> file_events ex_lo ds_z ex_items_split.
Proof.
  split; [reflexivity|]. split; [apply ex_items_wf_z|]. split; [apply ex_items_split_wf|].
  split; [vm_compute; reflexivity|]. split; [vm_compute; lia|]. split; [vm_compute; lia|].
  split; vm_compute; discriminate.
Qed.

Example ex_rechunk_hyps :
  chunk_stream ex_lo ds_z (k_comp ex_k) (k_records ex_k) None
    = (frames ([(OpMessage, ex_m1)] ++ [(OpMessage, ex_m2)]), None) /\
  chunk_stream ex_lo ds_z (k_comp ex_k_a) (k_records ex_k_a) None = (frames [(OpMessage, ex_m1)], None) /\
  Forall (fun r : byte * bytes => blen (snd r) < two64) ([(OpMessage, ex_m1)] ++ [(OpMessage, ex_m2)]).
Proof. split; [reflexivity|]. split; [reflexivity|]. repeat constructor. Qed.

(* the padded attachment: hypotheses satisfiable, and computed on a concrete reader *)
Example ex_attachment_pad :
  wf_attach_item ex_lo LexerFactsB.ex_att ex_adata ex_acrc /\
  do_attachment ex_lo (blen (attach_body LexerFactsB.ex_att ex_adata ex_acrc ++ [xde; xad]))
    (rd ((attach_body LexerFactsB.ex_att ex_adata ex_acrc ++ [xde; xad]) ++ [x01]) None false)
  = (Some (EvAttachment (attach_obs ex_lo LexerFactsB.ex_att ex_adata ex_acrc)), None, rd [x01] None false).
Proof. split; [apply ex_wf_attach; right; reflexivity|vm_compute; reflexivity]. Qed.

(* ====================================================================== *)
(** * 7. C16: the two facts the Go/Python interoperability check pivots on *)

(* (a) a Go-written file is the rendering of the writer's trace, whose data section holds the
       records the calls asked for *)
Theorem C16_go_written_thm : forall o lib comp unz cs',
  C06_hyps o lib comp cs' ->
  (forall n plain, unz (o_comp o) (comp n plain) = plain) ->
  Forall call_small cs' ->
  let R := W o lib comp None (cs' ++ [CClose]) in
  let recs := data_records unz (rev (w_trace (r_final R))) in
  file_of R = render (rev (w_trace (r_final R))) /\
  filter is_direct recs = expected_records o lib (filter call_direct cs') /\
  filter is_auto recs = expected_records o lib (filter call_auto cs').
Proof.
  intros o lib comp unz cs' H Hunz Hs R recs.
  split; [exact (C01_file_is_trace_thm o lib comp cs' H)|].
  destruct (C01_trace_classes_thm o lib comp unz cs' H Hunz Hs) as (A & _ & _ & _ & D & _).
  split; [exact D|exact A].
Qed.

(* the uncompressed configurations C16 is about: the stored chunk payload is the plain content *)
Theorem C16_go_uncompressed_thm : forall o lib comp cs',
  C06_hyps o lib comp cs' ->
  (forall n plain, comp n plain = plain) ->
  Forall call_small cs' ->
  let R := W o lib comp None (cs' ++ [CClose]) in
  let recs := data_records (fun _ stored => stored) (rev (w_trace (r_final R))) in
  file_of R = render (rev (w_trace (r_final R))) /\
  filter is_direct recs = expected_records o lib (filter call_direct cs') /\
  filter is_auto recs = expected_records o lib (filter call_auto cs').
Proof.
  intros o lib comp cs' H Hc Hs. apply C16_go_written_thm; [exact H| |exact Hs].
  intros n plain. apply Hc.
Qed.

Example ex_C16_hyps :
  C06_hyps ex_o ex_lib ex_comp ex_cs_pre /\ (forall n plain, ex_comp n plain = plain) /\
  Forall call_small ex_cs_pre.
Proof. split; [exact ex_C06_hyps|]. split; [reflexivity|exact ex_call_small]. Qed.
