(* PyDecisionTie.v - the decisions of python/mcap's seeking and non-seeking readers and of its message queue, as
   regenerated on every run from the Python AST (PyDecisions_gen.v, tools/pytrans.py), are the decisions of the Python
   model Py.v: which chunk indexes a query selects, which messages pass the topic/time filter, and the order of the
   queue (`_Orderable.__lt__`, the comparator the model's heap is instantiated with). Proofs are by case analysis on
   the comparisons and linear arithmetic, so equivalent rewritings still check and changed decisions do not. *)
From Coq Require Import List NArith ZArith Bool Lia ZifyBool ZifyN.
From Mcap Require Import Bytes GoSem Records Py PyDecisions_gen.
Import ListNotations.
Open Scope N_scope.

Ltac cmp_cases :=
  repeat match goal with
  | |- context [N.ltb ?x ?y] => destruct (N.ltb_spec x y)
  | |- context [N.leb ?x ?y] => destruct (N.leb_spec x y)
  | |- context [N.eqb ?x ?y] => destruct (N.eqb_spec x y)
  end.
Ltac decide_tie := cmp_cases; cbn; try reflexivity; try (exfalso; lia); try lia.

(* ------------------------------------------------------------------ _chunks_matching_topics *)
Lemma tie_cm_skip_start flt ci :
  py_cm_skip_start flt ci = match mf_start flt with Some t => ci_end ci <? t | None => false end.
Proof. unfold py_cm_skip_start. destruct (mf_start flt); [decide_tie | reflexivity]. Qed.
Lemma tie_cm_skip_end flt ci :
  py_cm_skip_end flt ci = match mf_end flt with Some t => negb (ci_start ci <? t) | None => false end.
Proof. unfold py_cm_skip_end. destruct (mf_end flt); [decide_tie | reflexivity]. Qed.
Lemma tie_cm_all_topics flt ci :
  py_cm_all_topics flt ci = match mf_topics flt with None => true | Some _ => false end.
Proof. unfold py_cm_all_topics, py_isnone. destruct (mf_topics flt); reflexivity. Qed.
Lemma tie_cm_no_index flt ci :
  py_cm_no_index flt ci = match ci_mioffsets ci with [] => true | _ :: _ => false end.
Proof.
  unfold py_cm_no_index. destruct (ci_mioffsets ci) as [|x l]; [reflexivity|].
  cbn [List.length]. destruct (N.eqb_spec (N.of_nat (S (List.length l))) 0); [exfalso; lia | reflexivity].
Qed.
Lemma tie_cm_topic_hit ts c : py_cm_topic_hit ts c = mem_topic (c_topic c) ts.
Proof. reflexivity. Qed.

(* the model's chunk selection takes exactly these decisions, in this order *)
Lemma chunks_matching_unfold su flt ci r acc :
  chunks_matching su flt (ci :: r) acc =
  if py_cm_skip_start flt ci then chunks_matching su flt r acc
  else if py_cm_skip_end flt ci then chunks_matching su flt r acc
  else if py_cm_all_topics flt ci then chunks_matching su flt r (acc ++ [ci])
  else if py_cm_no_index flt ci then chunks_matching su flt r (acc ++ [ci])
  else match mf_topics flt with
       | Some ts => match any_topic 0 su ts (ci_mioffsets ci) with
                    | POk hit => chunks_matching su flt r (if hit then acc ++ [ci] else acc)
                    | PRaise e => PRaise e
                    | PFuel => PFuel
                    end
       | None => chunks_matching su flt r (acc ++ [ci])
       end.
Proof.
  rewrite tie_cm_skip_start, tie_cm_skip_end, tie_cm_all_topics, tie_cm_no_index.
  cbn [chunks_matching].
  destruct (match mf_start flt with Some t => ci_end ci <? t | None => false end); [reflexivity|].
  destruct (match mf_end flt with Some t => negb (ci_start ci <? t) | None => false end); [reflexivity|].
  destruct (mf_topics flt) as [ts|]; [|reflexivity].
  destruct (ci_mioffsets ci) as [|x l]; [reflexivity|].
  destruct (any_topic 0 su ts (x :: l)); reflexivity.
Qed.

(* ------------------------------------------------------------------ per-message filter of both readers *)
Lemma tie_msg_selected_sk flt c m :
  msg_selected flt c m = negb (py_sk_skip_topic flt c m) && negb (py_sk_skip_start flt c m) && negb (py_sk_skip_end flt c m).
Proof.
  unfold msg_selected, py_sk_skip_topic, py_sk_skip_start, py_sk_skip_end.
  destruct (mf_topics flt) as [ts|]; destruct (mf_start flt) as [t0|]; destruct (mf_end flt) as [t1|];
    try destruct (mem_topic (c_topic c) ts); decide_tie.
Qed.
Lemma tie_msg_selected_ns flt c m :
  msg_selected flt c m = negb (py_ns_skip_topic flt c m) && negb (py_ns_skip_start flt c m) && negb (py_ns_skip_end flt c m).
Proof.
  unfold msg_selected, py_ns_skip_topic, py_ns_skip_start, py_ns_skip_end.
  destruct (mf_topics flt) as [ts|]; destruct (mf_start flt) as [t0|]; destruct (mf_end flt) as [t1|];
    try destruct (mem_topic (c_topic c) ts); decide_tie.
Qed.

(* ------------------------------------------------------------------ _message_queue.py *)
Lemma tie_q_cmp rev_ a b : q_cmp rev_ a b = py_compare rev_ a b.
Proof. unfold q_cmp, py_compare. destruct rev_; decide_tie. Qed.
Lemma tie_q_log rev_ x : q_log rev_ x = py_log_time rev_ x.
Proof. destruct x; unfold q_log, py_log_time, py_chunk_log_time, py_msg_log_time; destruct rev_; reflexivity. Qed.
Lemma tie_q_pos rev_ x : q_pos rev_ x = py_position rev_ x.
Proof. destruct x; unfold q_pos, py_position, py_chunk_position, py_msg_position; destruct rev_; reflexivity. Qed.

(* the comparator of the model's heap is `_Orderable.__lt__` *)
Lemma tie_q_lt rev_ x y : q_lt rev_ x y = py_lt rev_ x y.
Proof.
  unfold q_lt, py_lt, py_position_less_than, py_log_time, py_position, q_log, q_pos, q_cmp, py_compare,
    py_chunk_log_time, py_chunk_position, py_msg_log_time, py_msg_position, py_isnone, py_unsome.
  destruct x as [cx|tx ox ix], y as [cy|ty oy iy], rev_; cbn [fst snd orb]; decide_tie.
Qed.
