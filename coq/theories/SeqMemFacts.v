(* SeqMemFacts.v - memory behaviour of a sequential read and of attachment streaming (C20, second half):
   "a sequential read keeps at most one chunk or record, and attachments of any size stream through
    both the reader and the writer in constant memory".

   Part A: the allocation requests of ONE iteration of Lexer.Next (lex_step) as an explicit function
           rec_reqs of the sizes of the two retained buffers and of the bytes of the record being read.
   Part B: attachments through the lexer: no request at all, whatever the data; two attachment records
           leave the lexer in the same state.
   Part C: attachments through the writer: the destination writes of one WriteAttachment call. *)
From Coq Require Import List NArith ZArith Bool Lia ZifyN ZifyNat ZifyBool.
From Coq.Strings Require Import Byte.
From RecordUpdate Require Import RecordSet.
From Mcap Require Import Bytes BytesFacts GoSem Crc32 Records RecordsFacts Writer Lexer Source LexSpec
  LexerFactsA LexerFactsB WriterFactsB.
Import ListNotations RecordSetNotations.
Open Scope N_scope.

(* ====================================================================================== *)
(* Part A: the requests of one step                                                        *)
(* ====================================================================================== *)

Definition step_state (x : sres) : lstate := match x with SDone _ _ s | SCont s _ => s end.
Definition is_in_chunk (s : lstate) : bool := match lx_chunk s with Some _ => true | None => false end.

Section Reqs.
Variable lo : lopts.

(* the buffer for the decompressed chunk (validating lexer only): reused when large enough *)
Definition ubuf_reqs (ubuf usize : N) : list N :=
  if (0 <? lo_max_chunk lo) && (lo_max_chunk lo <? usize) then [] else
  if (ubuf <? usize) && (max_int32 <? usize) then [] else
  if (ubuf <? usize) && negb (usize * 2 <? max_int32) then [] else
  if ubuf <? usize then [usize * 2] else [].

(* accessors of a chunk record body c (the bytes after the 9-byte record head) *)
Definition chunk_usize (c : bytes) : N := unle (sub (take 32 c) 16 8).
Definition chunk_clen (c : bytes) : N := unle (sub (take 32 c) 28 4).

(* loadChunk on a chunk record of declared length rl whose body starts c; newest request first *)
Definition chunk_reqs (rl bufcap ubuf : N) (c : bytes) : list N :=
  if 32 <=? blen c then
    let need := chunk_clen c + 8 in
    if rl <? 32 + need then [] else
    let grow := bufcap <? need in
    if grow && negb (need <? max_int32) then [] else
    let g := if grow then [need] else [] in
    if need <=? blen (drop 32 c) then
      let comp := take (chunk_clen c) (take need (drop 32 c)) in
      if negb (lc_supported lo comp) then g else
      if negb (lo_validate lo) then g else
      ubuf_reqs ubuf (chunk_usize c) ++ g
    else g
  else [].

(* accessors of the record at the front of b *)
Definition rec_op (b : bytes) : byte := match take 9 b with x :: _ => x | [] => x00 end.
Definition rec_len (b : bytes) : N := unle (skipn 1 (take 9 b)).

(* one iteration of Lexer.Next with the current reader holding b *)
Definition rec_reqs (pcap bufcap ubuf : N) (inck : bool) (b : bytes) : list N :=
  if 9 <=? blen b then
    let rlen := rec_len b in
    if (0 <? lo_max_record lo) && (lo_max_record lo <? rlen) then [] else
    if Byte.eqb (rec_op b) OpChunk && negb (lo_emit_chunks lo) then
      if inck then [] else chunk_reqs rlen bufcap ubuf (drop 9 b)
    else if Byte.eqb (rec_op b) OpAttachment then []
    else if (pcap <? rlen) && (rlen <? max_int32) then [rlen] else []
  else [].

Variable dstream : doracle.

Lemma rd_full_pos n r : (n =? 0) = false ->
  rd_full n r =
  if n <=? blen (r_buf r)
  then (take n (r_buf r), None, {| r_buf := drop n (r_buf r); r_end := r_end r; r_seek := r_seek r |})
  else (r_buf r, Some (match r_end r with
                       | None => match r_buf r with [] => EEOF | _ => EUnexpectedEOF end
                       | Some e => e end), {| r_buf := []; r_end := r_end r; r_seek := r_seek r |}).
Proof. intros H. unfold rd_full. rewrite H. reflexivity. Qed.

Lemma lc_validate_reqs usize ucrc comp b cr s oe s' :
  lc_validate lo usize ucrc comp b cr s = (oe, s') ->
  lx_allocs s' = ubuf_reqs (lx_ubuf s) usize ++ lx_allocs s.
Proof.
  unfold lc_validate, ubuf_reqs.
  destruct ((0 <? lo_max_chunk lo) && (lo_max_chunk lo <? usize)); [intros H; inversion H; reflexivity|].
  destruct ((lx_ubuf s <? usize) && (max_int32 <? usize)); [intros H; inversion H; reflexivity|].
  destruct ((lx_ubuf s <? usize) && negb (usize * 2 <? max_int32)); [intros H; inversion H; reflexivity|].
  match goal with |- context[rd_full usize cr] => destruct (rd_full usize cr) as [[data e] r1] end.
  set (sa := if lx_ubuf s <? usize then _ else s).
  assert (Ga : lx_allocs sa = (if lx_ubuf s <? usize then [usize * 2] else []) ++ lx_allocs s).
  { subst sa. destruct (lx_ubuf s <? usize); reflexivity. }
  clearbody sa. rewrite <- Ga.
  destruct e as [e|]; [intros H; inversion H; reflexivity|].
  set (sb := if drains_chunk comp then set lx_chunk _ _ else _).
  assert (Gb : lx_allocs sb = lx_allocs sa).
  { subst sb. destruct (drains_chunk comp); reflexivity. }
  clearbody sb. rewrite <- Gb.
  destruct (if drains_chunk comp then _ else None) as [x|]; [intros H; inversion H; reflexivity|].
  destruct ((0 <? ucrc) && negb (crc32 data =? ucrc)); [intros H; inversion H; reflexivity|].
  intros H; inversion H; subst; clear H.
  destruct (_ || _); reflexivity.
Qed.

Lemma load_chunk_reqs rl s oe s' : lx_chunk s = None ->
  load_chunk lo dstream rl s = (oe, s') ->
  lx_allocs s' = chunk_reqs rl (lx_bufcap s) (lx_ubuf s) (r_buf (lx_base s)) ++ lx_allocs s.
Proof.
  intros Hc. rewrite LexerFactsA.load_chunk_eq, Hc. unfold lc_head, chunk_reqs, chunk_clen, chunk_usize.
  rewrite (rd_full_pos 32) by reflexivity.
  set (c := r_buf (lx_base s)).
  destruct (32 <=? blen c) eqn:E32.
  2:{ destruct (r_end (lx_base s)) as [x|]; [destruct x|destruct c];
        intros H; inversion H; reflexivity. }
  set (need := unle (sub (take 32 c) 28 4) + 8).
  destruct (rl <? 32 + need); [intros H; inversion H; reflexivity|].
  rsimpl.
  destruct (lx_bufcap s <? need) eqn:Eg; cbn [andb].
  - destruct (need <? max_int32); cbn [negb]; [|intros H; inversion H; reflexivity].
    rsimpl. rewrite (rd_full_pos need) by lia. rsimpl.
    destruct (need <=? blen (drop 32 c)) eqn:En.
    2:{ destruct (r_end (lx_base s)) as [x|]; [destruct x|destruct (drop 32 c)];
          intros H; inversion H; reflexivity. }
    destruct (negb (lc_supported lo _)); [intros H; inversion H; reflexivity|].
    cbv zeta. destruct (lc_open _ _ _ _ _) as [b' cr].
    destruct (negb (lo_validate lo)); [intros H; inversion H; reflexivity|].
    intros H. apply lc_validate_reqs in H. rewrite H. rsimpl. rewrite <- app_assoc. reflexivity.
  - rewrite (rd_full_pos need) by lia. rsimpl.
    destruct (need <=? blen (drop 32 c)) eqn:En.
    2:{ destruct (r_end (lx_base s)) as [x|]; [destruct x|destruct (drop 32 c)];
          intros H; inversion H; reflexivity. }
    destruct (negb (lc_supported lo _)); [intros H; inversion H; reflexivity|].
    cbv zeta. destruct (lc_open _ _ _ _ _) as [b' cr].
    destruct (negb (lo_validate lo)); [intros H; inversion H; reflexivity|].
    intros H. apply lc_validate_reqs in H. rewrite H. rsimpl. rewrite app_nil_r. reflexivity.
Qed.

Lemma load_chunk_nested rl s oe s' : lx_chunk s <> None ->
  load_chunk lo dstream rl s = (oe, s') -> s' = s.
Proof.
  intros Hc. unfold load_chunk. destruct (lx_chunk s); [|contradiction].
  intros H; inversion H; reflexivity.
Qed.

Lemma bufcap_set_cur r s : lx_bufcap (set_cur r s) = lx_bufcap s.
Proof. unfold set_cur. destruct (lx_chunk s); reflexivity. Qed.
Lemma ubuf_set_cur r s : lx_ubuf (set_cur r s) = lx_ubuf s.
Proof. unfold set_cur. destruct (lx_chunk s); reflexivity. Qed.

(* THE per-step statement: the log grows by rec_reqs of (pcap, the sizes of the two retained
   buffers, whether a chunk is open, the bytes in front of the current reader) *)
Theorem lex_step_requests pcap s evs :
  lx_allocs (step_state (lex_step lo dstream pcap s evs)) =
  rec_reqs pcap (lx_bufcap s) (lx_ubuf s) (is_in_chunk s) (r_buf (cur s)) ++ lx_allocs s.
Proof.
  unfold lex_step, rec_reqs, rec_len, rec_op. rewrite (rd_full_pos 9) by reflexivity.
  set (b := r_buf (cur s)).
  destruct (9 <=? blen b) eqn:E9.
  2:{ cbn [app]. destruct (_ && (_ || _)); cbn [step_state].
      - rsimpl. apply allocs_set_cur.
      - destruct (_ || _); [destruct (_ && _)|]; cbn [step_state]; apply allocs_set_cur. }
  set (r1 := {| r_buf := drop 9 b; r_end := r_end (cur s); r_seek := r_seek (cur s) |}).
  set (rlen := unle (skipn 1 (take 9 b))).
  destruct ((0 <? lo_max_record lo) && (lo_max_record lo <? rlen)); [apply allocs_set_cur|].
  destruct (Byte.eqb _ OpChunk && negb (lo_emit_chunks lo)).
  { destruct (load_chunk lo dstream rlen (set_cur r1 s)) as [oe s2] eqn:El.
    assert (G : lx_allocs s2 = (if is_in_chunk s then [] else
                 chunk_reqs rlen (lx_bufcap s) (lx_ubuf s) (drop 9 b)) ++ lx_allocs s).
    { unfold is_in_chunk. destruct (lx_chunk s) eqn:Ec.
      - apply load_chunk_nested in El; [|rewrite chunk_set_cur, Ec; discriminate].
        subst s2. apply allocs_set_cur.
      - apply load_chunk_reqs in El; [|rewrite chunk_set_cur, Ec; reflexivity].
        rewrite El, bufcap_set_cur, ubuf_set_cur, base_set_cur, Ec, allocs_set_cur. reflexivity. }
    destruct oe as [x|]; [destruct (lo_emit_invalid lo && _)|]; exact G. }
  destruct (Byte.eqb _ OpAttachment).
  { destruct (9223372036854775807 <? rlen); [apply allocs_set_cur|].
    destruct (do_attachment lo rlen (cur (set_cur r1 s))) as [[ev e2] r2].
    destruct e2; cbn [step_state]; rewrite !allocs_set_cur; reflexivity. }
  destruct (pcap <? rlen); cbn [andb].
  - destruct (rlen <? max_int32); cbn [negb]; [|apply allocs_set_cur].
    destruct (rd_full rlen _) as [[body e3] r3].
    assert (G : lx_allocs (set_cur r3 (set_cur r1 s <| lx_allocs := rlen :: lx_allocs (set_cur r1 s) |>))
                = [rlen] ++ lx_allocs s).
    { rewrite allocs_set_cur. rsimpl. rewrite allocs_set_cur. reflexivity. }
    destruct e3 as [e3|]; [destruct e3; exact G|].
    destruct (known_op _); [exact G|]. destruct (Byte.eqb _ x00); exact G.
  - destruct (rd_full rlen _) as [[body e3] r3].
    assert (G : lx_allocs (set_cur r3 (set_cur r1 s)) = [] ++ lx_allocs s).
    { rewrite !allocs_set_cur. reflexivity. }
    destruct e3 as [e3|]; [destruct e3; exact G|].
    destruct (known_op _); [exact G|]. destruct (Byte.eqb _ x00); exact G.
Qed.

End Reqs.

(* ---------- how many, how large ---------- *)
Section Bounds.
Variable lo : lopts.

(* what a request of one step can be: (1) the buffer for the body of the record being read (only
   when the caller's buffer is too small), (2) the scratch buffer for a chunk's compression name
   plus the 8-byte payload length (only when the retained 32-byte scratch is too small; it fits in the
   record), (3) the buffer for the decompressed chunk of a validating lexer, twice the declared
   uncompressed size (only when the retained one is too small) *)
Definition req_ok (pcap bufcap ubuf : N) (b : bytes) (n : N) : Prop :=
  n < max_int32 /\
  ((n = rec_len b /\ pcap < n /\ rec_op b <> OpAttachment) \/
   (rec_op b = OpChunk /\ lo_emit_chunks lo = false /\
    n = chunk_clen (drop 9 b) + 8 /\ n + 32 <= rec_len b /\ bufcap < n) \/
   (rec_op b = OpChunk /\ lo_emit_chunks lo = false /\ lo_validate lo = true /\
    n = 2 * chunk_usize (drop 9 b) /\ ubuf < chunk_usize (drop 9 b) /\
    (0 < lo_max_chunk lo -> chunk_usize (drop 9 b) <= lo_max_chunk lo))).

Lemma ubuf_reqs_cases ubuf usize :
  ubuf_reqs lo ubuf usize = [] \/
  (ubuf_reqs lo ubuf usize = [usize * 2] /\ ubuf < usize /\ usize * 2 < max_int32 /\
   (0 < lo_max_chunk lo -> usize <= lo_max_chunk lo)).
Proof.
  unfold ubuf_reqs.
  destruct ((0 <? lo_max_chunk lo) && (lo_max_chunk lo <? usize)) eqn:E1; [left; reflexivity|].
  destruct ((ubuf <? usize) && (max_int32 <? usize)) eqn:E2; [left; reflexivity|].
  destruct ((ubuf <? usize) && negb (usize * 2 <? max_int32)) eqn:E3; [left; reflexivity|].
  destruct (ubuf <? usize) eqn:E4; [right|left; reflexivity].
  split; [reflexivity|]. repeat split; lia.
Qed.

(* chunk_reqs = (chunk buffer request)? ++ (scratch request)? *)
Lemma chunk_reqs_cases rl bufcap ubuf c :
  exists u g, chunk_reqs lo rl bufcap ubuf c = u ++ g /\
    (g = [] \/ (g = [chunk_clen c + 8] /\ chunk_clen c + 8 < max_int32 /\ chunk_clen c + 8 + 32 <= rl /\
                bufcap < chunk_clen c + 8)) /\
    (u = [] \/ (u = [chunk_usize c * 2] /\ lo_validate lo = true /\ ubuf < chunk_usize c /\
                chunk_usize c * 2 < max_int32 /\ (0 < lo_max_chunk lo -> chunk_usize c <= lo_max_chunk lo))).
Proof.
  unfold chunk_reqs.
  destruct (32 <=? blen c); [|exists [], []; auto].
  set (need := chunk_clen c + 8).
  destruct (rl <? 32 + need) eqn:Erl; [exists [], []; auto|].
  destruct ((bufcap <? need) && negb (need <? max_int32)) eqn:Eg; [exists [], []; auto|].
  set (g := if bufcap <? need then [need] else []).
  assert (Hg : g = [] \/ (g = [need] /\ need < max_int32 /\ need + 32 <= rl /\ bufcap < need)).
  { subst g. destruct (bufcap <? need) eqn:Eb; [right|left; reflexivity].
    split; [reflexivity|]. cbn [andb] in Eg. repeat split; lia. }
  clearbody g.
  destruct (need <=? blen (drop 32 c)); [|exists [], g; auto].
  destruct (negb (lc_supported lo _)); [exists [], g; auto|].
  destruct (negb (lo_validate lo)) eqn:Ev; [exists [], g; auto|].
  exists (ubuf_reqs lo ubuf (chunk_usize c)), g. split; [reflexivity|]. split; [exact Hg|].
  destruct (ubuf_reqs_cases ubuf (chunk_usize c)) as [H|[H1 [H2 [H3 H4]]]]; [left; exact H|right].
  split; [exact H1|]. split; [destruct (lo_validate lo); [reflexivity|discriminate]|]. auto.
Qed.

Theorem rec_reqs_ok pcap bufcap ubuf inck b :
  Forall (req_ok pcap bufcap ubuf b) (rec_reqs lo pcap bufcap ubuf inck b).
Proof.
  unfold rec_reqs.
  destruct (9 <=? blen b); [|constructor].
  destruct ((0 <? lo_max_record lo) && (lo_max_record lo <? rec_len b)); [constructor|].
  destruct (Byte.eqb (rec_op b) OpChunk && negb (lo_emit_chunks lo)) eqn:Eck.
  { destruct inck; [constructor|].
    apply andb_true_iff in Eck. destruct Eck as [Eop Eem]. apply byte_eqb_eq in Eop.
    assert (Hem : lo_emit_chunks lo = false) by (destruct (lo_emit_chunks lo); [discriminate|reflexivity]).
    destruct (chunk_reqs_cases (rec_len b) bufcap ubuf (drop 9 b)) as (u & g & -> & Hg & Hu).
    apply Forall_app. split.
    - destruct Hu as [->|(-> & H1 & H2 & H3 & H4)]; [constructor|].
      apply Forall_cons; [|constructor]. split; [lia|]. right; right. repeat split; auto; lia.
    - destruct Hg as [->|(-> & H1 & H2 & H3)]; [constructor|].
      apply Forall_cons; [|constructor]. split; [lia|]. right; left. repeat split; auto; lia. }
  destruct (Byte.eqb (rec_op b) OpAttachment) eqn:Eat; [constructor|].
  destruct ((pcap <? rec_len b) && (rec_len b <? max_int32)) eqn:Ep; [|constructor].
  apply Forall_cons; [|constructor]. split; [lia|]. left. split; [reflexivity|]. split; [lia|].
  intros H. rewrite H in Eat. discriminate.
Qed.

(* at most two requests per step; at most one unless a validating lexer opens a chunk; none for an
   attachment record; a non-validating (streaming) lexer opening a chunk asks at most for the scratch *)
Theorem rec_reqs_count pcap bufcap ubuf inck b :
  (length (rec_reqs lo pcap bufcap ubuf inck b) <= 2)%nat /\
  (rec_op b <> OpChunk \/ lo_emit_chunks lo = true \/ lo_validate lo = false ->
     (length (rec_reqs lo pcap bufcap ubuf inck b) <= 1)%nat) /\
  (rec_op b = OpAttachment -> rec_reqs lo pcap bufcap ubuf inck b = []) /\
  (rec_op b = OpChunk -> lo_emit_chunks lo = false -> lo_validate lo = false ->
     Forall (fun n => n = chunk_clen (drop 9 b) + 8) (rec_reqs lo pcap bufcap ubuf inck b)).
Proof.
  unfold rec_reqs.
  destruct (9 <=? blen b); [|cbn; repeat split; auto; lia].
  destruct ((0 <? lo_max_record lo) && (lo_max_record lo <? rec_len b)); [cbn; repeat split; auto; lia|].
  destruct (Byte.eqb (rec_op b) OpChunk && negb (lo_emit_chunks lo)) eqn:Eck.
  { apply andb_true_iff in Eck. destruct Eck as [Eop Eem]. apply byte_eqb_eq in Eop.
    assert (Hem : lo_emit_chunks lo = false) by (destruct (lo_emit_chunks lo); [discriminate|reflexivity]).
    destruct inck; [cbn; repeat split; auto; lia|].
    destruct (chunk_reqs_cases (rec_len b) bufcap ubuf (drop 9 b)) as (u & g & -> & Hg & Hu).
    assert (Lg : (length g <= 1)%nat) by (destruct Hg as [->|[-> _]]; cbn; lia).
    assert (Lu : (length u <= 1)%nat) by (destruct Hu as [->|[-> _]]; cbn; lia).
    rewrite app_length. split; [lia|]. split; [|split].
    - intros [H|[H|H]]; [contradiction|congruence|].
      destruct Hu as [->|(_ & Hv & _)]; [cbn; lia|congruence].
    - intros H. rewrite H in Eop. discriminate.
    - intros _ _ Hv. destruct Hu as [->|(_ & Hv' & _)]; [|congruence]. cbn [app].
      destruct Hg as [->|[-> _]]; repeat constructor. }
  destruct (Byte.eqb (rec_op b) OpAttachment) eqn:Eat; [cbn; repeat split; auto; lia|].
  assert (Hop : rec_op b <> OpAttachment).
  { intros H. rewrite H in Eat. discriminate. }
  destruct ((pcap <? rec_len b) && (rec_len b <? max_int32)); cbn [length]; repeat split; auto; try lia;
    try contradiction.
  intros Hop2 Hem _. rewrite Hop2, Hem in Eck. discriminate.
Qed.

End Bounds.

(* ---------- the requests of a step depend on the bytes of the CURRENT record only ---------- *)
Lemma blen_take n b : blen (take n b) = N.min n (blen b).
Proof. unfold blen. rewrite Source.take_length. unfold blen. lia. Qed.

Lemma take_take n m b : take n (take m b) = take (N.min n m) b.
Proof.
  assert (H : blen (firstn (N.to_nat (N.min m (blen b))) b) = N.min m (blen b))
    by (unfold blen; rewrite firstn_length; lia).
  unfold take. rewrite H, firstn_firstn. f_equal. lia.
Qed.

Lemma drop_take n m b : drop n (take m b) = take (m - n) (drop n b).
Proof.
  destruct (N.le_gt_cases n m) as [L|L].
  - assert (H : blen (firstn (N.to_nat (N.min m (blen b))) b) = N.min m (blen b))
      by (unfold blen; rewrite firstn_length; lia).
    assert (H2 : blen (skipn (N.to_nat (N.min n (blen b))) b) = blen b - N.min n (blen b))
      by (unfold blen; rewrite skipn_length; lia).
    unfold take, drop. rewrite H, H2, skipn_firstn_comm.
    replace (N.to_nat (N.min n (N.min m (blen b)))) with (N.to_nat (N.min n (blen b))) by lia.
    f_equal. lia.
  - rewrite drop_ge by (rewrite blen_take; lia).
    replace (m - n) with 0 by lia. unfold take. rewrite N.min_l by lia. reflexivity.
Qed.

Section Trunc.
Variable lo : lopts.

Lemma chunk_reqs_trunc rl bufcap ubuf c :
  chunk_reqs lo rl bufcap ubuf (take rl c) = chunk_reqs lo rl bufcap ubuf c.
Proof.
  unfold chunk_reqs, chunk_clen, chunk_usize.
  destruct (N.lt_ge_cases rl 32) as [L|L].
  - replace (32 <=? blen (take rl c)) with false by (rewrite blen_take; lia).
    destruct (32 <=? blen c); [|reflexivity].
    set (need := unle _ + 8). replace (rl <? 32 + need) with true by lia. reflexivity.
  - replace (32 <=? blen (take rl c)) with (32 <=? blen c) by (rewrite blen_take; lia).
    rewrite take_take, (N.min_l 32 rl) by lia.
    destruct (32 <=? blen c); [|reflexivity].
    set (need := unle (sub (take 32 c) 28 4) + 8).
    destruct (rl <? 32 + need) eqn:Erl; [reflexivity|].
    destruct ((bufcap <? need) && negb (need <? max_int32)); [reflexivity|].
    rewrite drop_take.
    replace (need <=? blen (take (rl - 32) (drop 32 c))) with (need <=? blen (drop 32 c))
      by (rewrite blen_take; lia).
    rewrite (take_take need (rl - 32)), (N.min_l need (rl - 32)) by lia. reflexivity.
Qed.

(* the record at the front of b is its first 9 + rec_len b bytes: cutting everything behind it off
   (all later records) leaves the requests of the step unchanged *)
Theorem rec_reqs_trunc pcap bufcap ubuf inck b :
  rec_reqs lo pcap bufcap ubuf inck (take (9 + rec_len b) b) = rec_reqs lo pcap bufcap ubuf inck b.
Proof.
  destruct (N.lt_ge_cases (blen b) 9) as [L|L].
  { rewrite Source.take_all by lia. reflexivity. }
  set (rl := rec_len b).
  assert (H1 : rec_len (take (9 + rl) b) = rl).
  { unfold rec_len. rewrite take_take, N.min_l by lia. reflexivity. }
  assert (H2 : rec_op (take (9 + rl) b) = rec_op b).
  { unfold rec_op. rewrite take_take, N.min_l by lia. reflexivity. }
  unfold rec_reqs. rewrite H1, H2. fold rl.
  replace (9 <=? blen (take (9 + rl) b)) with (9 <=? blen b) by (rewrite blen_take; lia).
  rewrite drop_take. replace (9 + rl - 9) with rl by lia. rewrite chunk_reqs_trunc. reflexivity.
Qed.

End Trunc.

(* ====================================================================================== *)
(* Part B: attachments through the lexer                                                   *)
(* ====================================================================================== *)

(* result of a call of Next without the event list *)
Definition next_forget (x : outcome (list event * nres * lstate)) : outcome (nres * lstate) :=
  match x with
  | Ok (_, r, s) => Ok (r, s)
  | Err e => Err e | Panic p => Panic p | Exit p => Exit p | OutOfFuel => OutOfFuel
  end.
Definition sres_forget (x : sres) : option nres * lstate :=
  match x with SDone _ r s => (Some r, s) | SCont s _ => (None, s) end.

Section AttLex.
Variable lo : lopts.
Variable dstream : doracle.

(* B1: an attachment record adds NO request to the log, whatever its declared length, its content,
   the callback mode and the state of the source *)
Theorem att_step_no_request pcap s evs :
  rec_op (r_buf (cur s)) = OpAttachment ->
  lx_allocs (step_state (lex_step lo dstream pcap s evs)) = lx_allocs s.
Proof.
  intros H. rewrite lex_step_requests.
  destruct (rec_reqs_count lo pcap (lx_bufcap s) (lx_ubuf s) (is_in_chunk s) (r_buf (cur s))) as (_ & _ & H3 & _).
  rewrite (H3 H). reflexivity.
Qed.

(* B2: the data bytes handed to the callback are the ones it asked for: at most k under CbPartial k,
   no callback at all under CbNone *)
Lemma att_cb_partial_data k lim lt ct name media ds o5 :
  blen (ao_data (fst (att_cb lo (CbPartial k) lim lt ct name media ds o5))) <= N.of_nat k.
Proof.
  unfold att_cb. cbv zeta.
  match goal with |- context[let '(_, _) := ?X in _] => destruct X as [pc pos'] end.
  cbn [fst ao_data]. unfold blen. rewrite Source.take_length. lia.
Qed.

Lemma do_attachment_partial_data rl r k ev oe r' :
  lo_cb lo = CbPartial k -> do_attachment lo rl r = (ev, oe, r') ->
  match ev with Some (EvAttachment ob) => blen (ao_data ob) <= N.of_nat k | _ => True end.
Proof.
  intros Hcb. rewrite do_attachment_cb by congruence.
  destruct (att_parse (limited rl r)) as [[[[[[lt ct] name] media] ds] o5]| | | |];
    try (intros H; inversion H; exact I).
  rewrite Hcb. pose proof (att_cb_partial_data k (limited rl r) lt ct name media ds o5) as Hk.
  destruct (att_cb _ _ _ _ _ _ _ _ _) as [ob consumed]. cbn [fst] in Hk. cbv zeta.
  destruct (rd_skip _ _) as [e2 r2]. intros H; inversion H; subst; clear H. exact Hk.
Qed.

(* B3: after an attachment record the lexer is in the same state whatever the record contained *)
Definition att_body_ok (body : bytes) : Prop :=
  blen body < two63 /\ len_ok lo (blen body) /\
  (lo_cb lo = CbNone \/ exists v, att_parse (body, None) = Ok v).

Lemma skipn_app_le {A} n (a t : list A) : (n <= length a)%nat -> skipn n (a ++ t) = skipn n a ++ t.
Proof. intros H. rewrite skipn_app. replace (n - length a)%nat with 0%nat by lia. reflexivity. Qed.

Lemma do_attachment_whole body rest e sk : lo_cb lo <> CbFail -> att_body_ok body ->
  exists ev, do_attachment lo (blen body) (rd (body ++ rest) e sk) = (ev, None, rd rest e sk).
Proof.
  intros Hnf (_ & _ & Hp). destruct Hp as [Hcb|[v Hv]].
  { rewrite do_attachment_none by exact Hcb. rewrite rd_skip_exact. eexists; reflexivity. }
  destruct (lo_cb lo) eqn:Ecb.
  { rewrite do_attachment_none by exact Ecb. rewrite rd_skip_exact. eexists; reflexivity. }
  3:{ contradiction. }
  all: rewrite do_attachment_cb by congruence;
    assert (Hlim : limited (blen body) (rd (body ++ rest) e sk) = (body, None))
      by (unfold limited, rd; cbn [r_buf r_end]; rewrite LexerFactsB.blen_app;
          destruct (N.leb_spec (blen body) (blen body + blen rest)); [|lia];
          rewrite take_app_exact; reflexivity);
    rewrite Hlim, Hv; destruct v as [[[[[lt ct] name] media] ds] o5]; rewrite Ecb;
    pose proof (att_parse_ok _ _ _ _ _ _ _ _ Hv) as Ho;
    pose proof (att_cb_consumed lo (lo_cb lo) body None lt ct name media ds o5 Ho) as Hc;
    rewrite Ecb in Hc;
    match goal with |- context[att_cb ?a ?b ?c ?d ?f ?g ?h ?i ?j] =>
      destruct (att_cb a b c d f g h i j) as [ob consumed] eqn:Ea end;
    assert (Hc' : (consumed <= length body)%nat)
      by (change consumed with (snd (ob, consumed)); rewrite <- Ea; exact Hc);
    clear Hc; rename Hc' into Hc; cbv zeta; unfold rd at 1; cbn [r_buf r_end r_seek];
    rewrite skipn_app_le by exact Hc;
    replace (blen body - N.of_nat consumed) with (blen (skipn consumed body))
      by (unfold blen; rewrite skipn_length; lia);
    fold (rd (skipn consumed body ++ rest) e sk); rewrite rd_skip_exact; eexists; reflexivity.
Qed.

Lemma set_cur_set_cur r r' s : set_cur r' (set_cur r s) = set_cur r' s.
Proof. unfold set_cur. destruct (lx_chunk s) eqn:E; rsimpl; rewrite ?E; reflexivity. Qed.

Lemma lex_step_attachment pcap s evs body rest e sk :
  lo_cb lo <> CbFail -> att_body_ok body ->
  cur s = rd (frame OpAttachment body ++ rest) e sk ->
  exists ev, lex_step lo dstream pcap s evs = SCont (set_cur (rd rest e sk) s) (evs ++ ev).
Proof.
  intros Hnf Hok Hcur. pose proof Hok as (Hlen & Hmax & _).
  destruct (do_attachment_whole body rest e sk Hnf Hok) as [ev Hd].
  unfold lex_step. rewrite Hcur. unfold frame. rewrite <- app_assoc.
  rewrite (rd_full_exact 9 (frame_head OpAttachment (blen body))) by (symmetry; apply frame_head_blen).
  unfold frame_head. cbv beta iota zeta. cbn [skipn].
  rewrite unle_u64 by (unfold two63, two64 in *; lia).
  unfold len_ok in Hmax. rewrite Hmax.
  change (Byte.eqb OpAttachment OpChunk) with false. cbn [andb].
  change (Byte.eqb OpAttachment OpAttachment) with true. cbv iota.
  destruct (N.ltb_spec 9223372036854775807 (blen body)); [unfold two63 in Hlen; lia|].
  rewrite cur_set_cur, Hd, set_cur_set_cur.
  destruct ev as [ev|]; [exists [ev]|exists []; rewrite app_nil_r]; reflexivity.
Qed.

Theorem att_step_same_state pcap s evs body1 body2 rest e sk :
  lo_cb lo <> CbFail -> att_body_ok body1 -> att_body_ok body2 ->
  exists ev1 ev2,
    lex_step lo dstream pcap (set_cur (rd (frame OpAttachment body1 ++ rest) e sk) s) evs
      = SCont (set_cur (rd rest e sk) s) (evs ++ ev1) /\
    lex_step lo dstream pcap (set_cur (rd (frame OpAttachment body2 ++ rest) e sk) s) evs
      = SCont (set_cur (rd rest e sk) s) (evs ++ ev2) /\
    lx_allocs (set_cur (rd rest e sk) s) = lx_allocs s.
Proof.
  intros Hnf H1 H2.
  destruct (lex_step_attachment pcap (set_cur (rd (frame OpAttachment body1 ++ rest) e sk) s) evs
              body1 rest e sk Hnf H1 (cur_set_cur _ _)) as [ev1 E1].
  destruct (lex_step_attachment pcap (set_cur (rd (frame OpAttachment body2 ++ rest) e sk) s) evs
              body2 rest e sk Hnf H2 (cur_set_cur _ _)) as [ev2 E2].
  rewrite set_cur_set_cur in E1, E2. exists ev1, ev2. split; [exact E1|]. split; [exact E2|].
  apply allocs_set_cur.
Qed.

(* the events collected so far do not influence anything but the event list *)
Lemma lex_step_forget pcap s evs evs0 :
  sres_forget (lex_step lo dstream pcap s evs) = sres_forget (lex_step lo dstream pcap s evs0).
Proof.
  unfold lex_step. destruct (rd_full 9 (cur s)) as [[hd x] r1].
  destruct x as [x|].
  { destruct (_ && (_ || _)); [reflexivity|]. destruct (_ || _); [destruct (_ && _)|]; reflexivity. }
  destruct (_ && (_ <? _)); [reflexivity|].
  destruct (_ && negb (lo_emit_chunks lo)).
  { destruct (load_chunk _ _ _ _) as [[x|] s2]; [destruct (lo_emit_invalid lo && _)|]; reflexivity. }
  destruct (Byte.eqb _ OpAttachment).
  { destruct (9223372036854775807 <? _); [reflexivity|].
    destruct (do_attachment _ _ _) as [[ev e2] r2]. destruct e2; reflexivity. }
  destruct (_ && negb _); [reflexivity|].
  destruct (rd_full _ _) as [[body x] r3].
  destruct x as [x|]; [destruct x; reflexivity|].
  destruct (known_op _); [reflexivity|]. destruct (Byte.eqb _ x00); reflexivity.
Qed.

Lemma lex_next_forget : forall f pcap s evs evs0,
  next_forget (lex_next lo dstream f pcap s evs) = next_forget (lex_next lo dstream f pcap s evs0).
Proof.
  induction f as [|f IH]; intros pcap s evs evs0; [reflexivity|].
  rewrite !lex_next_S. pose proof (lex_step_forget pcap s evs evs0) as H.
  destruct (lex_step lo dstream pcap s evs) as [a b c|s1 e1];
    destruct (lex_step lo dstream pcap s evs0) as [a' b' c'|s1' e1']; cbn [sres_forget] in H;
    inversion H; subst; [reflexivity|apply IH].
Qed.

(* a whole call of Next positioned at either record: same result, same final state - in particular
   the same allocation log - only the attachment event differs *)
Theorem att_next_same f pcap s evs body1 body2 rest e sk :
  lo_cb lo <> CbFail -> att_body_ok body1 -> att_body_ok body2 ->
  next_forget (lex_next lo dstream f pcap (set_cur (rd (frame OpAttachment body1 ++ rest) e sk) s) evs) =
  next_forget (lex_next lo dstream f pcap (set_cur (rd (frame OpAttachment body2 ++ rest) e sk) s) evs).
Proof.
  intros Hnf H1 H2. destruct f as [|f]; [reflexivity|].
  destruct (att_step_same_state pcap s evs body1 body2 rest e sk Hnf H1 H2) as (ev1 & ev2 & E1 & E2 & _).
  rewrite !lex_next_S, E1, E2. apply lex_next_forget.
Qed.

Corollary att_next_same_allocs f pcap s evs body1 body2 rest e sk evs1 res1 t1 evs2 res2 t2 :
  lo_cb lo <> CbFail -> att_body_ok body1 -> att_body_ok body2 ->
  lex_next lo dstream f pcap (set_cur (rd (frame OpAttachment body1 ++ rest) e sk) s) evs = Ok (evs1, res1, t1) ->
  lex_next lo dstream f pcap (set_cur (rd (frame OpAttachment body2 ++ rest) e sk) s) evs = Ok (evs2, res2, t2) ->
  res1 = res2 /\ t1 = t2 /\ lx_allocs t1 = lx_allocs t2.
Proof.
  intros Hnf H1 H2 E1 E2.
  pose proof (att_next_same f pcap s evs body1 body2 rest e sk Hnf H1 H2) as H.
  rewrite E1, E2 in H. cbn [next_forget] in H. inversion H; subst. auto.
Qed.

(* well-formed attachment records satisfy att_body_ok: any data, any crc, any declared data size *)
Definition att_fields_ok (a : attachment) : Prop :=
  a_log a < two64 /\ a_create a < two64 /\ blen (a_name a) < two32 /\ blen (a_media a) < two32 /\
  a_size a < two64.

Lemma att_parse_fields a tail en : att_fields_ok a ->
  att_parse ((enc_attachment_fields a ++ tail) : bytes, en) =
  Ok (a_log a, a_create a, a_name a, a_media a, a_size a, length (enc_attachment_fields a)).
Proof.
  intros (W1 & W2 & W3 & W4 & W5).
  set (body := (enc_attachment_fields a ++ tail) : bytes).
  assert (H : skipn 0 body = u64 (a_log a) ++ u64 (a_create a) ++ pstr (a_name a) ++ pstr (a_media a)
                             ++ u64 (a_size a) ++ tail).
  { unfold body, enc_attachment_fields. rewrite <- !app_assoc. reflexivity. }
  destruct (lim_read_step 8 body en _ _ _ H (u64_length _)) as [E1 S1]; [lia|].
  destruct (lim_read_step 8 body en _ _ _ S1 (u64_length _)) as [E2 S2]; [lia|].
  destruct (lim_pstr_step body en _ _ _ S2 W3) as [E3 S3].
  destruct (lim_pstr_step body en _ _ _ S3 W4) as [E4 S4].
  destruct (lim_read_step 8 body en _ _ _ S4 (u64_length _)) as [E5 S5]; [lia|].
  unfold att_parse. rewrite E1. cbn [bind]. rewrite E2. cbn [bind]. rewrite E3. cbn [bind].
  rewrite E4. cbn [bind]. rewrite E5. cbn [bind].
  rewrite !unle_u64 by assumption.
  replace (length (enc_attachment_fields a))
    with (0 + 8 + 8 + 4 + length (a_name a) + 4 + length (a_media a) + 8)%nat; [reflexivity|].
  unfold enc_attachment_fields. rewrite !app_length, !pstr_length, !u64_length. lia.
Qed.

Lemma attach_body_ok a data crc : att_fields_ok a ->
  blen (attach_body a data crc) < two63 -> len_ok lo (blen (attach_body a data crc)) ->
  att_body_ok (attach_body a data crc).
Proof.
  intros Hf Hl Hm. split; [exact Hl|]. split; [exact Hm|]. right.
  unfold attach_body. eexists. apply att_parse_fields, Hf.
Qed.

(* B4: two attachment records with arbitrary data (and arbitrary other fields): the call of Next that
   meets one or the other ends with the same result and the same lexer state *)
Theorem att_data_independent f pcap s evs a1 data1 crc1 a2 data2 crc2 rest e sk :
  lo_cb lo <> CbFail ->
  att_fields_ok a1 -> att_fields_ok a2 ->
  blen (attach_body a1 data1 crc1) < two63 -> blen (attach_body a2 data2 crc2) < two63 ->
  len_ok lo (blen (attach_body a1 data1 crc1)) -> len_ok lo (blen (attach_body a2 data2 crc2)) ->
  next_forget (lex_next lo dstream f pcap
     (set_cur (rd (frame OpAttachment (attach_body a1 data1 crc1) ++ rest) e sk) s) evs) =
  next_forget (lex_next lo dstream f pcap
     (set_cur (rd (frame OpAttachment (attach_body a2 data2 crc2) ++ rest) e sk) s) evs).
Proof.
  intros Hnf F1 F2 L1 L2 M1 M2.
  apply att_next_same; [exact Hnf|apply attach_body_ok; assumption|apply attach_body_ok; assumption].
Qed.

End AttLex.

(* ====================================================================================== *)
(* Part C: attachments through the writer                                                  *)
(* ====================================================================================== *)

Definition max_blen (l : list bytes) : N := fold_right (fun p m => N.max (blen p) m) 0 l.
Lemma max_blen_in p l : In p l -> blen p <= max_blen l.
Proof.
  induction l as [|x r IH]; intros H; [destruct H|]. cbn [max_blen fold_right].
  destruct H as [->|H]; [lia|]. specialize (IH H). unfold max_blen in IH. lia.
Qed.

Lemma enc_attachment_fields_blen a :
  blen (enc_attachment_fields a) = 32 + blen (a_name a) + blen (a_media a).
Proof.
  unfold enc_attachment_fields, blen. rewrite !app_length, !pstr_length, !u64_length. lia.
Qed.

(* the destination writes of one successful WriteAttachment call, oldest first *)
Definition att_writes (a : attachment) (src : asrc) : list bytes :=
  [frame_head OpAttachment ((blen (enc_attachment_fields a) + a_size a + 4) mod two64);
   enc_attachment_fields a]
  ++ as_frags src
  ++ [u32 (crc32 (enc_attachment_fields a ++ concat (as_frags src)))].

Section AttWriter.
Variable o : wopts.
Variable flt : option fault.

Lemma dst_write_ok p s s' : dst_write o flt p s = (s', None) ->
  w_out s' = p :: w_out s /\ w_nw s' = S (w_nw s).
Proof.
  unfold dst_write. destruct (match flt with Some _ => _ | None => false end); [discriminate|].
  intros H; inversion H; subst. split; reflexivity.
Qed.

Lemma copy_frags_ok fr : forall n s s' n', copy_frags o flt fr n s = (s', None, n') ->
  w_out s' = rev fr ++ w_out s /\ w_nw s' = (w_nw s + length fr)%nat.
Proof.
  induction fr as [|p r IH]; intros n s s' n' H; cbn [copy_frags] in H.
  - inversion H; subst. cbn. split; [reflexivity|lia].
  - destruct (dst_write o flt p s) as [s1 [e|]] eqn:E; [discriminate|].
    apply dst_write_ok in E. destruct E as [E1 E2].
    apply IH in H. destruct H as [H1 H2]. rewrite H1, H2, E1, E2. cbn [rev length].
    rewrite <- app_assoc. split; [reflexivity|lia].
Qed.

Lemma wa_final_out (s4 : wstate) x y z :
  w_out (s4 <| w_trace := x |> <| w_att_indexes := y |> <| w_st_attachments := z |>) = w_out s4.
Proof. reflexivity. Qed.
Lemma wa_final_nw (s4 : wstate) x y z :
  w_nw (s4 <| w_trace := x |> <| w_att_indexes := y |> <| w_st_attachments := z |>) = w_nw s4.
Proof. reflexivity. Qed.

(* C1: every fragment of the source is handed to the destination as it is - one Write per fragment,
   never concatenated - between two fixed-size writes and the 4-byte CRC *)
Theorem write_attachment_writes a src s s' :
  write_attachment o flt a src s = (s', None) ->
  rev (w_out s') = rev (w_out s) ++ att_writes a src /\
  w_nw s' = (w_nw s + 3 + length (as_frags src))%nat /\
  a_size a = blen (concat (as_frags src)) /\ as_fail src = false.
Proof.
  unfold write_attachment.
  destruct (dst_write o flt (frame_head OpAttachment _) s) as [s1 [e|]] eqn:E1; cbn [bindw]; [discriminate|].
  destruct (dst_write o flt (enc_attachment_fields a) s1) as [s2 [e|]] eqn:E2; cbn [bindw]; [discriminate|].
  destruct (copy_frags o flt (as_frags src) 0 s2) as [[s3 [e|]] n] eqn:E3; [discriminate|].
  destruct (as_fail src) eqn:Ef; [discriminate|].
  destruct (negb (n =? a_size a)) eqn:En; [discriminate|].
  destruct (dst_write o flt (u32 _) s3) as [s4 [e|]] eqn:E4; cbn [bindw]; [discriminate|].
  unfold log. cbn [bindw]. intros H. apply (f_equal fst) in H. cbn [fst] in H. rewrite <- H. clear H s'.
  rewrite wa_final_out, wa_final_nw.
  pose proof (copy_frags_count _ _ _ _ _ _ _ E3) as Hn.
  apply dst_write_ok in E1, E2, E4. apply copy_frags_ok in E3.
  destruct E1 as [A1 B1], E2 as [A2 B2], E3 as [A3 B3], E4 as [A4 B4].
  rewrite A4, A3, A2, A1, B4, B3, B2, B1. unfold att_writes.
  cbn [rev]. rewrite !rev_app_distr, rev_involutive. cbn [rev app]. rewrite <- !app_assoc. cbn [app].
  split; [reflexivity|]. split; [lia|]. split; [lia|reflexivity].
Qed.

(* C2: the sizes of those writes: 9, the header fields (32 + name + media type), one per fragment with
   exactly the fragment's length, 4.  Hence no single write is larger than
   max (32 + name + media type) (largest fragment) *)
Theorem att_writes_sizes a src :
  map blen (att_writes a src) =
  [9; 32 + blen (a_name a) + blen (a_media a)] ++ map blen (as_frags src) ++ [4].
Proof.
  unfold att_writes. rewrite !map_app. cbn [map]. rewrite frame_head_blen, enc_attachment_fields_blen.
  unfold blen at 4. rewrite u32_length. reflexivity.
Qed.

Theorem att_writes_max a src :
  Forall (fun p => blen p <= N.max (32 + blen (a_name a) + blen (a_media a)) (max_blen (as_frags src)))
         (att_writes a src).
Proof.
  unfold att_writes. apply Forall_app. split; [|apply Forall_app; split].
  - repeat constructor; [rewrite frame_head_blen; lia|rewrite enc_attachment_fields_blen; lia].
  - apply Forall_forall. intros p Hp. apply max_blen_in in Hp. lia.
  - repeat constructor. unfold blen at 1. rewrite u32_length. lia.
Qed.

(* the log of accepted writes only grows *)
Lemma steps_out_ext s s' : steps o flt s s' -> exists l, w_out s' = l ++ w_out s.
Proof.
  induction 1 as [s s' H|p s|s1 s2 s3 _ IH1 _ IH2].
  - exists []. destruct H as [H _]. exact H.
  - unfold dst_write. destruct (match flt with Some _ => _ | None => false end); cbn [fst];
      eexists [_]; reflexivity.
  - destruct IH1 as [l1 E1], IH2 as [l2 E2]. exists (l2 ++ l1). rewrite E2, E1. apply app_assoc.
Qed.

End AttWriter.

Section AttWriterRun.
Variable o : wopts.
Variable lib_id : bytes.
Variable compress : nat -> bytes -> bytes.
Variable flt : option fault.

Lemma run_att_writes cs : forall s i a src n, length (w_out s) = w_nw s ->
  nth_error cs i = Some (CAttachment a src) ->
  nth_error (run_res o lib_id compress flt cs s) i = Some (None, n) ->
  let m := writes_before (w_nw s) (run_res o lib_id compress flt cs s) i in
  n = (m + 3 + length (as_frags src))%nat /\
  firstn (n - m) (skipn m (rev (w_out (run_st o lib_id compress flt cs s)))) = att_writes a src /\
  a_size a = blen (concat (as_frags src)).
Proof.
  induction cs as [|c r IH]; intros s i a src n HL Hc Hn; [destruct i; discriminate|].
  cbn [run_res run_st] in *.
  destruct i as [|i]; cbn [nth_error writes_before] in *.
  - inversion Hc; subst c; clear Hc. cbn [step] in *.
    destruct (write_attachment o flt a src s) as [s1 e1] eqn:E. cbn [fst snd] in *.
    inversion Hn; subst; clear Hn.
    apply write_attachment_writes in E. destruct E as (E1 & E2 & E3 & _).
    split; [exact E2|]. split; [|exact E3].
    destruct (steps_out_ext o flt _ _ (steps_run_st o lib_id compress flt r s1)) as [l El].
    rewrite El, rev_app_distr, E1, <- app_assoc.
    replace (w_nw s) with (length (rev (w_out s))) by (rewrite rev_length; exact HL).
    rewrite skipn_app_exact.
    replace (w_nw s1 - length (rev (w_out s)))%nat with (length (att_writes a src)).
    + apply firstn_app_exact.
    + rewrite rev_length, HL, E2. unfold att_writes. rewrite !app_length. cbn [length]. lia.
  - pose proof (J_step o lib_id compress flt c s) as HJ.
    assert (HL' : length (w_out (fst (step o lib_id compress flt c s))) = w_nw (fst (step o lib_id compress flt c s))).
    { eapply steps_out_len; [apply J_steps, HJ|exact HL]. }
    specialize (IH (fst (step o lib_id compress flt c s)) i a src n HL' Hc Hn).
    destruct i as [|i]; cbn [writes_before nth_error] in *; exact IH.
Qed.

End AttWriterRun.

(* C3: the same at the level of W: the destination writes made by the i-th call, when that call is a
   WriteAttachment that returned nil *)
Theorem W_attachment_writes o lib comp flt cs i a src n :
  let R := W o lib comp flt cs in
  let n0 := w_nw (fst (new_writer (effective_opts o) flt)) in
  nth_error cs i = Some (CAttachment a src) ->
  nth_error (r_calls R) i = Some (None, n) ->
  let m := writes_before n0 (r_calls R) i in
  n = (m + 3 + length (as_frags src))%nat /\
  firstn (n - m) (skipn m (r_writes R)) = att_writes a src /\
  a_size a = blen (concat (as_frags src)).
Proof.
  intros R n0 Hc Hn m. subst R n0 m. revert Hn. rewrite W_unfold.
  pose proof (J_new_writer (effective_opts o) flt) as HJ.
  destruct (new_writer (effective_opts o) flt) as [s [e|]] eqn:E; cbn [fst r_new r_calls r_writes].
  { destruct i; discriminate. }
  intros Hn.
  assert (HL : length (w_out s) = w_nw s).
  { apply J_steps in HJ. cbn [fst] in HJ. eapply steps_out_len; [exact HJ|reflexivity]. }
  exact (run_att_writes (effective_opts o) lib comp flt cs s i a src n HL Hc Hn).
Qed.

(* ====================================================================================== *)
(* Part D: concrete inputs for the examples of properties/C20_seq.v                        *)
(* ====================================================================================== *)

(* an attachment with n data bytes; name "na", media type "m" *)
Definition sq_att (n : nat) : attachment :=
  {| a_log := 1; a_create := 2; a_name := [x6e; x61]; a_media := [x6d]; a_size := N.of_nat n; a_data := [] |}.
Definition sq_data (n : nat) : bytes := repeat x41 n.
Definition sq_att_body (n : nat) : bytes :=
  attach_body (sq_att n) (sq_data n) (crc32 (enc_attachment_fields (sq_att n) ++ sq_data n)).
(* what follows the attachment: a chunk with two messages, a message, footer, magic *)
Definition sq_tail : bytes :=
  frame OpChunk (ex_chunk_body (blen ex_records) 0 [] (blen ex_records) ex_records)
  ++ LexerFactsA.ex_msg [x64]
  ++ frame OpFooter (enc_footer {| f_summary_start := 0; f_summary_offset_start := 0; f_crc := 0 |})
  ++ magic.
Definition sq_file (n : nat) : bytes := magic ++ ex_hdr ++ frame OpAttachment (sq_att_body n) ++ sq_tail.
Definition sq_run (cb : cbmode) (n : nat) : outcome (list event * err * lstate) :=
  lex_all (ex_lo true cb 0 0) id_oracle 500 (ex_rdr (sq_file n) None false).
(* lengths of the data seen by the attachment callbacks of a run *)
Definition sq_att_data_lens (x : outcome (list event * err * lstate)) : list N :=
  match x with
  | Ok (evs, _, _) => flat_map (fun ev => match ev with EvAttachment ob => [blen (ao_data ob)] | _ => [] end) evs
  | _ => []
  end.
Definition sq_state0 : lstate :=
  {| lx_base := ex_rdr [] None false; lx_chunk := None; lx_ubuf := 0; lx_bufcap := 32; lx_allocs := [7] |}.

(* a chunk record with a 30-byte compression name handled by a caller-supplied decompressor *)
Definition sq_comp : bytes := repeat x63 30.
Definition sq_lo_custom (validate : bool) : lopts :=
  {| lo_skip_magic := false; lo_validate := validate; lo_compute_acrc := false;
     lo_emit_chunks := false; lo_emit_invalid := false; lo_max_record := 0;
     lo_max_chunk := 0; lo_cb := CbNone; lo_custom := [sq_comp] |}.
Definition sq_chunk_rec : bytes :=
  frame OpChunk (ex_chunk_body (blen ex_records) 0 sq_comp (blen ex_records) ex_records).

(* writer: an attachment whose 13 data bytes arrive as three fragments of 5, 1 and 7 bytes *)
Definition sq_watt : attachment :=
  {| a_log := 7; a_create := 8; a_name := [x61; x62]; a_media := [x63]; a_size := 13; a_data := [] |}.
Definition sq_src3 : asrc :=
  {| as_frags := [repeat x01 5; [x02]; repeat x03 7]; as_fail := false |}.
Definition sq_cs : list wcall :=
  [CHeader {| h_profile := []; h_library := [] |}; CAttachment sq_watt sq_src3; CClose].
Definition sq_R : wresult := W ex_o ex_lib ex_comp None sq_cs.
