(* SeqMemFacts.v - memory behaviour of a sequential read and of attachment streaming (C20, second half):
   "a sequential read keeps at most one chunk or record, and attachments of any size stream through
    both the reader and the writer in constant memory".

   Part A: the allocation requests of ONE iteration of Lexer.Next (lex_step) as an explicit function
           rec_reqs of the sizes of the two retained buffers and of the bytes of the record being read.
   Part B: attachments through the lexer: no request at all, whatever the data; two attachment records
           leave the lexer in the same state.
   Part C: attachments through the writer: the destination writes of one WriteAttachment call. *)
From Coq Require Import List NArith ZArith Bool Lia ZifyN ZifyNat ZifyBool.
From Coq.Strings Require Import Byte.
From RecordUpdate Require Import RecordSet.
From Mcap Require Import Bytes BytesFacts GoSem Crc32 Records RecordsFacts Writer Lexer Source LexSpec
  LexerFactsA LexerFactsB WriterFactsB.
Import ListNotations RecordSetNotations.
Open Scope N_scope.

(* ====================================================================================== *)
(* Part A: the requests of one step                                                        *)
(* ====================================================================================== *)

Definition step_state (x : sres) : lstate := match x with SDone _ _ s | SCont s _ => s end.
Definition is_in_chunk (s : lstate) : bool := match lx_chunk s with Some _ => true | None => false end.

Section Reqs.
Variable lo : lopts.

(* the buffer for the decompressed chunk (validating lexer only): reused when large enough *)
Definition ubuf_reqs (ubuf usize : N) : list N :=
  if (0 <? lo_max_chunk lo) && (lo_max_chunk lo <? usize) then [] else
  if (ubuf <? usize) && (max_int32 <? usize) then [] else
  if (ubuf <? usize) && negb (usize * 2 <? max_int32) then [] else
  if ubuf <? usize then [usize * 2] else [].

(* accessors of a chunk record body c (the bytes after the 9-byte record head) *)
Definition chunk_usize (c : bytes) : N := unle (sub (take 32 c) 16 8).
Definition chunk_clen (c : bytes) : N := unle (sub (take 32 c) 28 4).

(* loadChunk on a chunk record of declared length rl whose body starts c; newest request first *)
Definition chunk_reqs (rl bufcap ubuf : N) (c : bytes) : list N :=
  if 32 <=? blen c then
    let need := chunk_clen c + 8 in
    if rl <? 32 + need then [] else
    let grow := bufcap <? need in
    if grow && negb (need <? max_int32) then [] else
    let g := if grow then [need] else [] in
    if need <=? blen (drop 32 c) then
      let comp := take (chunk_clen c) (take need (drop 32 c)) in
      if negb (lc_supported lo comp) then g else
      if negb (lo_validate lo) then g else
      ubuf_reqs ubuf (chunk_usize c) ++ g
    else g
  else [].

(* accessors of the record at the front of b *)
Definition rec_op (b : bytes) : byte := match take 9 b with x :: _ => x | [] => x00 end.
Definition rec_len (b : bytes) : N := unle (skipn 1 (take 9 b)).

(* one iteration of Lexer.Next with the current reader holding b *)
Definition rec_reqs (pcap bufcap ubuf : N) (inck : bool) (b : bytes) : list N :=
  if 9 <=? blen b then
    let rlen := rec_len b in
    if (0 <? lo_max_record lo) && (lo_max_record lo <? rlen) then [] else
    if Byte.eqb (rec_op b) OpChunk && negb (lo_emit_chunks lo) then
      if inck then [] else chunk_reqs rlen bufcap ubuf (drop 9 b)
    else if Byte.eqb (rec_op b) OpAttachment then []
    else if (pcap <? rlen) && (rlen <? max_int32) then [rlen] else []
  else [].

Variable dstream : doracle.

Lemma rd_full_pos n r : (n =? 0) = false ->
  rd_full n r =
  if n <=? blen (r_buf r)
  then (take n (r_buf r), None, {| r_buf := drop n (r_buf r); r_end := r_end r; r_seek := r_seek r |})
  else (r_buf r, Some (match r_end r with
                       | None => match r_buf r with [] => EEOF | _ => EUnexpectedEOF end
                       | Some e => e end), {| r_buf := []; r_end := r_end r; r_seek := r_seek r |}).
Proof. intros H. unfold rd_full. rewrite H. reflexivity. Qed.

Lemma lc_validate_reqs usize ucrc comp b cr s oe s' :
  lc_validate lo usize ucrc comp b cr s = (oe, s') ->
  lx_allocs s' = ubuf_reqs (lx_ubuf s) usize ++ lx_allocs s.
Proof.
  unfold lc_validate, ubuf_reqs.
  destruct ((0 <? lo_max_chunk lo) && (lo_max_chunk lo <? usize)); [intros H; inversion H; reflexivity|].
  destruct ((lx_ubuf s <? usize) && (max_int32 <? usize)); [intros H; inversion H; reflexivity|].
  destruct ((lx_ubuf s <? usize) && negb (usize * 2 <? max_int32)); [intros H; inversion H; reflexivity|].
  match goal with |- context[rd_full usize cr] => destruct (rd_full usize cr) as [[data e] r1] end.
  set (sa := if lx_ubuf s <? usize then _ else s).
  assert (Ga : lx_allocs sa = (if lx_ubuf s <? usize then [usize * 2] else []) ++ lx_allocs s).
  { subst sa. destruct (lx_ubuf s <? usize); reflexivity. }
  clearbody sa. rewrite <- Ga.
  destruct e as [e|]; [intros H; inversion H; reflexivity|].
  set (sb := if bytes_eqb comp _ then set lx_chunk _ _ else _).
  assert (Gb : lx_allocs sb = lx_allocs sa).
  { subst sb. destruct (bytes_eqb comp _); reflexivity. }
  clearbody sb. rewrite <- Gb.
  destruct (if bytes_eqb comp _ then _ else None) as [x|]; [intros H; inversion H; reflexivity|].
  destruct ((0 <? ucrc) && negb (crc32 data =? ucrc)); [intros H; inversion H; reflexivity|].
  intros H; inversion H; subst; clear H.
  destruct (_ || _); reflexivity.
Qed.

Lemma load_chunk_reqs rl s oe s' : lx_chunk s = None ->
  load_chunk lo dstream rl s = (oe, s') ->
  lx_allocs s' = chunk_reqs rl (lx_bufcap s) (lx_ubuf s) (r_buf (lx_base s)) ++ lx_allocs s.
Proof.
  intros Hc. rewrite LexerFactsA.load_chunk_eq, Hc. unfold lc_head, chunk_reqs, chunk_clen, chunk_usize.
  rewrite (rd_full_pos 32) by reflexivity.
  set (c := r_buf (lx_base s)).
  destruct (32 <=? blen c) eqn:E32.
  2:{ destruct (r_end (lx_base s)) as [x|]; [destruct x|destruct c];
        intros H; inversion H; reflexivity. }
  set (need := unle (sub (take 32 c) 28 4) + 8).
  destruct (rl <? 32 + need); [intros H; inversion H; reflexivity|].
  rsimpl.
  destruct (lx_bufcap s <? need) eqn:Eg; cbn [andb].
  - destruct (need <? max_int32); cbn [negb]; [|intros H; inversion H; reflexivity].
    rsimpl. rewrite (rd_full_pos need) by lia. rsimpl.
    destruct (need <=? blen (drop 32 c)) eqn:En.
    2:{ destruct (r_end (lx_base s)) as [x|]; [destruct x|destruct (drop 32 c)];
          intros H; inversion H; reflexivity. }
    destruct (negb (lc_supported lo _)); [intros H; inversion H; reflexivity|].
    cbv zeta. destruct (lc_open _ _ _ _ _) as [b' cr].
    destruct (negb (lo_validate lo)); [intros H; inversion H; reflexivity|].
    intros H. apply lc_validate_reqs in H. rewrite H. rsimpl. rewrite <- app_assoc. reflexivity.
  - rewrite (rd_full_pos need) by lia. rsimpl.
    destruct (need <=? blen (drop 32 c)) eqn:En.
    2:{ destruct (r_end (lx_base s)) as [x|]; [destruct x|destruct (drop 32 c)];
          intros H; inversion H; reflexivity. }
    destruct (negb (lc_supported lo _)); [intros H; inversion H; reflexivity|].
    cbv zeta. destruct (lc_open _ _ _ _ _) as [b' cr].
    destruct (negb (lo_validate lo)); [intros H; inversion H; reflexivity|].
    intros H. apply lc_validate_reqs in H. rewrite H. rsimpl. rewrite app_nil_r. reflexivity.
Qed.

Lemma load_chunk_nested rl s oe s' : lx_chunk s <> None ->
  load_chunk lo dstream rl s = (oe, s') -> s' = s.
Proof.
  intros Hc. unfold load_chunk. destruct (lx_chunk s); [|contradiction].
  intros H; inversion H; reflexivity.
Qed.

Lemma bufcap_set_cur r s : lx_bufcap (set_cur r s) = lx_bufcap s.
Proof. unfold set_cur. destruct (lx_chunk s); reflexivity. Qed.
Lemma ubuf_set_cur r s : lx_ubuf (set_cur r s) = lx_ubuf s.
Proof. unfold set_cur. destruct (lx_chunk s); reflexivity. Qed.

(* THE per-step statement: the log grows by rec_reqs of (pcap, the sizes of the two retained
   buffers, whether a chunk is open, the bytes in front of the current reader) *)
Theorem lex_step_requests pcap s evs :
  lx_allocs (step_state (lex_step lo dstream pcap s evs)) =
  rec_reqs pcap (lx_bufcap s) (lx_ubuf s) (is_in_chunk s) (r_buf (cur s)) ++ lx_allocs s.
Proof.
  unfold lex_step, rec_reqs, rec_len, rec_op. rewrite (rd_full_pos 9) by reflexivity.
  set (b := r_buf (cur s)).
  destruct (9 <=? blen b) eqn:E9.
  2:{ cbn [app]. destruct (_ && (_ || _)); cbn [step_state].
      - rsimpl. apply allocs_set_cur.
      - destruct (_ || _); [destruct (_ && _)|]; cbn [step_state]; apply allocs_set_cur. }
  set (r1 := {| r_buf := drop 9 b; r_end := r_end (cur s); r_seek := r_seek (cur s) |}).
  set (rlen := unle (skipn 1 (take 9 b))).
  destruct ((0 <? lo_max_record lo) && (lo_max_record lo <? rlen)); [apply allocs_set_cur|].
  destruct (Byte.eqb _ OpChunk && negb (lo_emit_chunks lo)).
  { destruct (load_chunk lo dstream rlen (set_cur r1 s)) as [oe s2] eqn:El.
    assert (G : lx_allocs s2 = (if is_in_chunk s then [] else
                 chunk_reqs rlen (lx_bufcap s) (lx_ubuf s) (drop 9 b)) ++ lx_allocs s).
    { unfold is_in_chunk. destruct (lx_chunk s) eqn:Ec.
      - apply load_chunk_nested in El; [|rewrite chunk_set_cur, Ec; discriminate].
        subst s2. apply allocs_set_cur.
      - apply load_chunk_reqs in El; [|rewrite chunk_set_cur, Ec; reflexivity].
        rewrite El, bufcap_set_cur, ubuf_set_cur, base_set_cur, Ec, allocs_set_cur. reflexivity. }
    destruct oe as [x|]; [destruct (lo_emit_invalid lo && _)|]; exact G. }
  destruct (Byte.eqb _ OpAttachment).
  { destruct (9223372036854775807 <? rlen); [apply allocs_set_cur|].
    destruct (do_attachment lo rlen (cur (set_cur r1 s))) as [[ev e2] r2].
    destruct e2; cbn [step_state]; rewrite !allocs_set_cur; reflexivity. }
  destruct (pcap <? rlen); cbn [andb].
  - destruct (rlen <? max_int32); cbn [negb]; [|apply allocs_set_cur].
    destruct (rd_full rlen _) as [[body e3] r3].
    assert (G : lx_allocs (set_cur r3 (set_cur r1 s <| lx_allocs := rlen :: lx_allocs (set_cur r1 s) |>))
                = [rlen] ++ lx_allocs s).
    { rewrite allocs_set_cur. rsimpl. rewrite allocs_set_cur. reflexivity. }
    destruct e3 as [e3|]; [destruct e3; exact G|].
    destruct (known_op _); [exact G|]. destruct (Byte.eqb _ x00); exact G.
  - destruct (rd_full rlen _) as [[body e3] r3].
    assert (G : lx_allocs (set_cur r3 (set_cur r1 s)) = [] ++ lx_allocs s).
    { rewrite !allocs_set_cur. reflexivity. }
    destruct e3 as [e3|]; [destruct e3; exact G|].
    destruct (known_op _); [exact G|]. destruct (Byte.eqb _ x00); exact G.
Qed.

End Reqs.
