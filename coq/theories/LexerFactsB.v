(* LexerFactsB.v - what the lexer model returns on well-formed, truncated and damaged files
   (lex_render, C09, C07). *)
From Coq Require Import List NArith ZArith Lia ZifyN ZifyNat ZifyBool Bool.
From Coq.Strings Require Import Byte.
From RecordUpdate Require Import RecordSet.
From Mcap Require Import Bytes BytesFacts GoSem Crc32 Crc32Facts Records RecordsFacts Writer Lexer LexSpec.
Import ListNotations RecordSetNotations.
Open Scope N_scope.
Ltac Zify.zify_post_hook ::= Z.div_mod_to_equations.

(* ====================================================================== *)
(** * 1. readers *)

Definition rd (b : bytes) (e : option err) (sk : bool) : rdr := {| r_buf := b; r_end := e; r_seek := sk |}.

Lemma blen_app a b : blen (a ++ b) = blen a + blen b.
Proof. unfold blen. rewrite app_length. lia. Qed.

Lemma take_app_exact a r : take (blen a) (a ++ r) = a.
Proof.
  unfold take. rewrite blen_app, N.min_l by lia. unfold blen. rewrite Nat2N.id. apply firstn_app_exact.
Qed.
Lemma drop_app_exact a r : drop (blen a) (a ++ r) = r.
Proof.
  unfold drop. rewrite blen_app, N.min_l by lia. unfold blen. rewrite Nat2N.id. apply skipn_app_exact.
Qed.
Lemma take_ge n b : blen b <= n -> take n b = b.
Proof. intro H. unfold take. rewrite N.min_r by lia. unfold blen. rewrite Nat2N.id. apply firstn_all. Qed.
Lemma drop_ge n b : blen b <= n -> drop n b = [].
Proof. intro H. unfold drop. rewrite N.min_r by lia. unfold blen. rewrite Nat2N.id. apply skipn_all. Qed.
Lemma drop_0 b : drop 0 b = b.
Proof. unfold drop. rewrite N.min_l by lia. reflexivity. Qed.
Lemma take_all b : take (blen b) b = b.
Proof. apply take_ge. lia. Qed.
Lemma drop_all b : drop (blen b) b = [].
Proof. apply drop_ge. lia. Qed.

Lemma rd_full_exact n a rest e sk :
  n = blen a -> rd_full n (rd (a ++ rest) e sk) = (a, None, rd rest e sk).
Proof.
  intros ->. unfold rd_full, rd. cbn [r_buf r_end r_seek].
  destruct (N.eqb_spec (blen a) 0) as [E|E].
  - destruct a; [reflexivity | unfold blen in E; cbn [length] in E; lia].
  - rewrite blen_app. destruct (N.leb_spec (blen a) (blen a + blen rest)); [|lia].
    rewrite take_app_exact, drop_app_exact. reflexivity.
Qed.

Definition short_err (b : bytes) (e : option err) : err :=
  match e with
  | None => match b with [] => EEOF | _ => EUnexpectedEOF end
  | Some e => e
  end.

Lemma rd_full_short n b e sk :
  blen b < n -> rd_full n (rd b e sk) = (b, Some (short_err b e), rd [] e sk).
Proof.
  intro H. unfold rd_full, rd. cbn [r_buf r_end r_seek].
  destruct (N.eqb_spec n 0); [lia|].
  destruct (N.leb_spec n (blen b)); [lia|]. reflexivity.
Qed.

Lemma byte_eqb_refl b : Byte.eqb b b = true.
Proof. apply byte_eqb_eq. reflexivity. Qed.
Lemma byte_eqb_neq a b : a <> b -> Byte.eqb a b = false.
Proof. intro H. destruct (Byte.eqb a b) eqn:E; [|reflexivity]. apply byte_eqb_eq in E. contradiction. Qed.

Lemma frame_head_blen op n : blen (frame_head op n) = 9.
Proof. unfold blen, frame_head. cbn [length]. rewrite u64_length. reflexivity. Qed.

Lemma max_int32_lt_two64 n : n < max_int32 -> n < two64.
Proof. unfold max_int32, two64. lia. Qed.


(* ====================================================================== *)
(** * 2. one iteration of Lexer.Next *)

Section Steps.
Variable lo : lopts.
Variable ds : doracle.
Definition at_top (s : lstate) (b : rdr) : Prop := lx_chunk s = None /\ lx_base s = b.
Definition in_chunk (s : lstate) (c b : rdr) : Prop := lx_chunk s = Some c /\ lx_base s = b.

(* the part of Lexer.Next after a complete 9-byte record head (opcode op, length rlen) *)
Definition after_head (f : nat) (pcap : N) (s1 : lstate) (evs : list event) (op : byte) (rlen : N)
  : outcome (list event * nres * lstate) :=
  if (0 <? lo_max_record lo) && (lo_max_record lo <? rlen) then Ok (evs, NErr ERecordTooLarge, s1) else
  if Byte.eqb op OpChunk && negb (lo_emit_chunks lo) then
    match load_chunk lo ds rlen s1 with
    | (None, s2) => lex_next lo ds f pcap s2 evs
    | (Some e, s2) =>
      if lo_emit_invalid lo && err_eqb e EInvalidChunkCrc then Ok (evs, NTok EvInvalidChunk, s2)
      else Ok (evs, NErr e, s2)
    end
  else if Byte.eqb op OpAttachment then
    if 9223372036854775807 <? rlen then Ok (evs, NErr EOther, s1) else
    let '(ev, e, r2) := do_attachment lo rlen (cur s1) in
    let s2 := set_cur r2 s1 in
    let evs := match ev with Some ev => evs ++ [ev] | None => evs end in
    match e with
    | Some e => Ok (evs, NErr e, s2)
    | None => lex_next lo ds f pcap s2 evs
    end
  else
    match (if pcap <? rlen then make_safe rlen s1 else Ok s1) with
    | Err e => Ok (evs, NErr e, s1)
    | Panic p => Panic p | Exit p => Exit p | OutOfFuel => OutOfFuel
    | Ok s1 =>
      let '(body, e, r2) := rd_full rlen (cur s1) in
      let s2 := set_cur r2 s1 in
      match e with
      | Some EUnexpectedEOF => Ok (evs, NErr ETruncated, s2)
      | Some e => Ok (evs, NErr e, s2)
      | None =>
        if known_op op then Ok (evs, NTok (EvToken op body), s2)
        else if Byte.eqb op x00 then Ok (evs, NErr EInvalidZeroOpcode, s2)
        else lex_next lo ds f pcap s2 evs
      end
    end.

Lemma lex_next_head f pcap s evs op n rest e sk :
  cur s = rd (frame_head op n ++ rest) e sk -> n < two64 ->
  lex_next lo ds (S f) pcap s evs = after_head f pcap (set_cur (rd rest e sk) s) evs op n.
Proof.
  intros Hcur Hn. cbn [lex_next]. rewrite Hcur.
  rewrite (rd_full_exact 9 (frame_head op n)) by (symmetry; apply frame_head_blen).
  unfold frame_head. cbv beta iota zeta. cbn [skipn]. rewrite unle_u64 by exact Hn. reflexivity.
Qed.

(* the part of Lexer.Next when the 9-byte head cannot be read completely *)
Definition head_short (f : nat) (pcap : N) (s : lstate) (evs : list event) (hd : bytes) (e : err) (r1 : rdr)
  : outcome (list event * nres * lstate) :=
  let in_chunk := match lx_chunk s with Some _ => true | None => false end in
  let s1 := set_cur r1 s in
  let ueof := err_eqb e EUnexpectedEOF || err_eqb e ETruncated in
  let eof := err_eqb e EEOF in
  if in_chunk && (eof || ueof) then lex_next lo ds f pcap (s1 <| lx_chunk := None |>) evs
  else if ueof then
    if Nat.eqb (length hd) 8 && bytes_eqb hd magic then Ok (evs, NErr EEOF, s1)
    else Ok (evs, NErr ETruncated, s1)
  else Ok (evs, NErr e, s1).

Lemma lex_next_short f pcap s evs b e sk :
  cur s = rd b e sk -> blen b < 9 ->
  lex_next lo ds (S f) pcap s evs = head_short f pcap s evs b (short_err b e) (rd [] e sk).
Proof.
  intros Hcur Hb. cbn [lex_next]. rewrite Hcur, rd_full_short by exact Hb. reflexivity.
Qed.

Definition moved (s : lstate) (r : rdr) (s2 : lstate) : Prop :=
  match lx_chunk s with
  | None => lx_chunk s2 = None /\ lx_base s2 = r
  | Some _ => lx_chunk s2 = Some r /\ lx_base s2 = lx_base s
  end.

Lemma moved_set_cur s r : moved s r (set_cur r s).
Proof. unfold moved, set_cur. destruct (lx_chunk s) eqn:E; cbn; rewrite ?E; auto. Qed.
Lemma moved_cur s r s2 : moved s r s2 -> cur s2 = r.
Proof. unfold moved, cur. destruct (lx_chunk s); intros [E1 E2]; rewrite E1; auto. Qed.
Lemma moved_trans s r1 s1 r2 s2 : moved s r1 s1 -> moved s1 r2 s2 -> moved s r2 s2.
Proof. unfold moved. destruct (lx_chunk s); intros [E1 E2]; rewrite E1; intros [E3 E4]; split; congruence. Qed.
Lemma moved_allocs s r s2 al : moved s r s2 -> moved s r (s2 <| lx_allocs := al |>).
Proof. unfold moved. destruct (lx_chunk s); intros [E1 E2]; cbn; auto. Qed.
Lemma moved_top s b r s2 : at_top s b -> moved s r s2 -> at_top s2 r.
Proof. unfold at_top, moved. intros [-> _]. auto. Qed.
Lemma moved_in_chunk s c b r s2 : in_chunk s c b -> moved s r s2 -> in_chunk s2 r b.
Proof. unfold in_chunk, moved. intros [-> <-]. auto. Qed.

Lemma after_head_plain pcap s1 op body rest e sk :
  cur s1 = rd (body ++ rest) e sk ->
  Byte.eqb op OpChunk && negb (lo_emit_chunks lo) = false ->
  op <> OpAttachment -> op <> x00 ->
  blen body < max_int32 -> len_ok lo (blen body) ->
  exists s2, moved s1 (rd rest e sk) s2 /\ forall f evs,
    after_head f pcap s1 evs op (blen body) =
      if known_op op then Ok (evs, NTok (EvToken op body), s2) else lex_next lo ds f pcap s2 evs.
Proof.
  intros Hcur Hck Hat H0 Hlen Hlim.
  assert (Hms : exists s1', (if pcap <? blen body then make_safe (blen body) s1 else Ok s1) = Ok s1'
                        /\ moved s1 (rd (body ++ rest) e sk) s1').
  { destruct (pcap <? blen body).
    - unfold make_safe. destruct (N.ltb_spec (blen body) max_int32); [|lia].
      eexists; split; [reflexivity|]. apply moved_allocs. rewrite <- Hcur.
      unfold moved, cur. destruct (lx_chunk s1); auto.
    - exists s1. split; [reflexivity|]. rewrite <- Hcur. unfold moved, cur. destruct (lx_chunk s1); auto. }
  destruct Hms as (s1' & Hms & Hm).
  exists (set_cur (rd rest e sk) s1'). split.
  - eapply moved_trans; [exact Hm | apply moved_set_cur].
  - intros f evs. unfold after_head.
    unfold len_ok in Hlim. rewrite Hlim, Hck, (byte_eqb_neq _ _ Hat), Hms.
    rewrite (moved_cur _ _ _ Hm), rd_full_exact by reflexivity.
    cbv beta iota zeta. rewrite (byte_eqb_neq _ _ H0). reflexivity.
Qed.

Lemma lex_next_plain pcap s op body rest e sk :
  cur s = rd (frame op body ++ rest) e sk ->
  Byte.eqb op OpChunk && negb (lo_emit_chunks lo) = false ->
  op <> OpAttachment -> op <> x00 ->
  blen body < max_int32 -> len_ok lo (blen body) ->
  exists s2, moved s (rd rest e sk) s2 /\ forall f evs,
    lex_next lo ds (S f) pcap s evs =
      if known_op op then Ok (evs, NTok (EvToken op body), s2) else lex_next lo ds f pcap s2 evs.
Proof.
  intros Hcur Hck Hat H0 Hlen Hlim.
  unfold frame in Hcur. rewrite <- app_assoc in Hcur.
  set (s1 := set_cur (rd (body ++ rest) e sk) s).
  destruct (after_head_plain pcap s1 op body rest e sk) as (s2 & Hm & Heq); try assumption.
  { unfold s1. apply (moved_cur s). apply moved_set_cur. }
  exists s2. split.
  - eapply moved_trans; [apply moved_set_cur | exact Hm].
  - intros f evs. rewrite (lex_next_head f pcap s evs op (blen body) _ e sk Hcur) by (apply max_int32_lt_two64, Hlen).
    apply Heq.
Qed.

(* ----- loadChunk ----- *)
(* loadChunk is cut into three parts; load_chunk_head / payload_part_eq / finish_chunk_* show that the
   model's load_chunk is their composition *)

(* 3. validation, once the buffer for the decompressed chunk has been allocated (state s,
      chunk reader chunk_rdr installed, b = base reader in front of the payload) *)
Definition check_part (s : lstate) (b : rdr) (usize ucrc : N) (comp : bytes) (chunk_rdr : rdr)
  : option err * lstate :=
  let '(data, e, r1) := rd_full usize chunk_rdr in
  let lazy := bytes_eqb comp [] || mem_bytes comp (lo_custom lo) in
  let s := s <| lx_chunk := Some r1 |> in
  match e with
  | Some e => (Some e, s)
  | None =>
    let is_lz4 := drains_chunk comp in
    let extra_bad := if is_lz4 then
                       match r_buf r1, r_end r1 with
                       | [], None => None
                       | _, Some e => Some e
                       | _ :: _, None => Some EOther
                       end
                     else None in
    let s := if is_lz4 then s <| lx_chunk := Some {| r_buf := []; r_end := r_end r1; r_seek := false |} |> else s in
    match extra_bad with
    | Some e => (Some e, s)
    | None =>
      if (0 <? ucrc) && negb (crc32 data =? ucrc) then (Some EInvalidChunkCrc, s)
      else
        let s := if lazy then s <| lx_base := {| r_buf := drop (blen data) (r_buf b); r_end := r_end b; r_seek := r_seek b |} |>
                 else s in
        (None, s <| lx_chunk := Some {| r_buf := data; r_end := None; r_seek := true |} |>)
    end
  end.

(* 2. the chunk reader delivering (plain, pend) is installed; s already has the base reader behind
      the payload *)
Definition finish_chunk (s : lstate) (b : rdr) (usize ucrc : N) (comp plain : bytes) (pend : option err)
  : option err * lstate :=
  let chunk_rdr := {| r_buf := plain; r_end := pend; r_seek := false |} in
  let s := s <| lx_chunk := Some chunk_rdr |> in
  if negb (lo_validate lo) then (None, s) else
  if (0 <? lo_max_chunk lo) && (lo_max_chunk lo <? usize) then (Some EChunkTooLarge, s) else
  match (if lx_ubuf s <? usize
         then (if max_int32 <? usize then Err ELengthOutOfRange
               else match make_safe (usize * 2) s with
                    | Ok s' => Ok (s' <| lx_ubuf := usize * 2 |>)
                    | Err e => Err e | Panic p => Panic p | Exit p => Exit p | OutOfFuel => OutOfFuel end)
         else Ok s) with
  | Err e => (Some e, s)
  | Panic _ | Exit _ | OutOfFuel => (Some EOther, s)
  | Ok s => check_part s b usize ucrc comp chunk_rdr
  end.

(* 1. after the chunk header (32 fixed bytes, compression name, records length) has been read *)
Definition payload_part (s : lstate) (usize ucrc : N) (comp : bytes) (rlen0 : N) : option err * lstate :=
  let rlen := if 9223372036854775807 <? rlen0 then 0 else rlen0 in
  let supported := mem_bytes comp (lo_custom lo) || bytes_eqb comp [] || bytes_eqb comp [x7a; x73; x74; x64]
                   || bytes_eqb comp [x6c; x7a; x34] in
  if negb supported then (Some EOther, s) else
  let b := lx_base s in
  let complete := rlen <=? blen (r_buf b) in
  let avail := take rlen (r_buf b) in
  let avail_end := if complete then None else r_end b in
  let b' := {| r_buf := drop rlen (r_buf b); r_end := r_end b; r_seek := r_seek b |} in
  let '(plain, pend) := if bytes_eqb comp [] && negb (mem_bytes comp (lo_custom lo))
                        then (avail, avail_end) else ds comp avail avail_end in
  finish_chunk (s <| lx_base := b' |>) b usize ucrc comp plain pend.

Definition chunk_fixed (st en us crc clen : N) : bytes := u64 st ++ u64 en ++ u64 us ++ u32 crc ++ u32 clen.

Lemma chunk_fixed_blen st en us crc clen : blen (chunk_fixed st en us crc clen) = 32.
Proof. unfold blen, chunk_fixed. rewrite !app_length, !u64_length, !u32_length. reflexivity. Qed.

Lemma chunk_fixed_usize st en us crc clen : us < two64 -> unle (sub (chunk_fixed st en us crc clen) 16 8) = us.
Proof.
  intro H. unfold chunk_fixed, sub.
  rewrite (app_assoc (u64 st)), skipn_app_exact' by (rewrite app_length, !u64_length; reflexivity).
  rewrite firstn_app_exact' by (rewrite u64_length; reflexivity). apply unle_u64, H.
Qed.
Lemma chunk_fixed_crc st en us crc clen : crc < two32 -> unle (sub (chunk_fixed st en us crc clen) 24 4) = crc.
Proof.
  intro H. unfold chunk_fixed, sub.
  rewrite (app_assoc (u64 st)), (app_assoc (u64 st ++ u64 en)), skipn_app_exact' by (rewrite !app_length, !u64_length; reflexivity).
  rewrite firstn_app_exact' by (rewrite u32_length; reflexivity). apply unle_u32, H.
Qed.
Lemma chunk_fixed_clen st en us crc clen : clen < two32 -> unle (sub (chunk_fixed st en us crc clen) 28 4) = clen.
Proof.
  intro H. unfold chunk_fixed, sub.
  rewrite (app_assoc (u64 st)), (app_assoc (u64 st ++ u64 en)), (app_assoc ((u64 st ++ u64 en) ++ u64 us)),
    skipn_app_exact' by (rewrite !app_length, !u64_length, u32_length; reflexivity).
  rewrite firstn_all2 by (rewrite u32_length; lia). apply unle_u32, H.
Qed.

Lemma load_chunk_head rlen s1 st en us crc comp rl X e sk :
  at_top s1 (rd (chunk_fixed st en us crc (blen comp) ++ comp ++ u64 rl ++ X) e sk) ->
  us < two64 -> crc < two32 -> blen comp < two32 -> rl < two64 ->
  blen comp + 8 < max_int32 -> 32 + (blen comp + 8) <= rlen ->
  exists s', at_top s' (rd X e sk) /\ load_chunk lo ds rlen s1 = payload_part s' us crc comp rl.
Proof.
  intros [Hc Hb] Hus Hcrc Hcomp Hrl Hneed Hrlen.
  unfold load_chunk. rewrite Hc, Hb.
  rewrite (rd_full_exact 32 (chunk_fixed st en us crc (blen comp))) by (symmetry; apply chunk_fixed_blen).
  cbv beta iota zeta.
  rewrite chunk_fixed_usize, chunk_fixed_crc, chunk_fixed_clen by assumption.
  destruct (N.ltb_spec rlen (32 + (blen comp + 8))); [lia|].
  set (s1a := s1 <| lx_base := rd (comp ++ u64 rl ++ X) e sk |>).
  assert (Hg : exists s1b, (if lx_bufcap s1a <? blen comp + 8 then make_safe (blen comp + 8) s1a else Ok s1a) = Ok s1b
               /\ at_top (if lx_bufcap s1a <? blen comp + 8 then s1b <| lx_bufcap := blen comp + 8 |> else s1b) (rd (comp ++ u64 rl ++ X) e sk)).
  { destruct (lx_bufcap s1a <? blen comp + 8).
    - unfold make_safe. destruct (N.ltb_spec (blen comp + 8) max_int32); [|lia].
      eexists; split; [reflexivity|]. split; cbn; auto.
    - exists s1a. split; [reflexivity|]. split; cbn; auto. }
  destruct Hg as (s1b & -> & [Hc2 Hb2]).
  set (s1c := if lx_bufcap s1a <? blen comp + 8 then _ else _) in *.
  rewrite Hb2.
  rewrite (app_assoc comp), (rd_full_exact (blen comp + 8) (comp ++ u64 rl))
    by (rewrite blen_app; f_equal; unfold blen; rewrite u64_length; reflexivity).
  cbv beta iota zeta.
  rewrite take_app_exact, drop_app_exact, unle_u64 by assumption.
  exists (s1c <| lx_base := rd X e sk |>). split; [split; cbn; auto | reflexivity].
Qed.


Lemma payload_part_eq s us crc comp rl X e sk :
  at_top s (rd X e sk) -> rl < two63 -> comp_supported lo comp = true ->
  exists s', at_top s' (rd (drop rl X) e sk) /\
    payload_part s us crc comp rl =
      let cs := chunk_stream lo ds comp (take rl X) (if rl <=? blen X then None else e) in
      finish_chunk s' (rd X e sk) us crc comp (fst cs) (snd cs).
Proof.
  intros [Hc Hb] Hrl Hsup. unfold payload_part.
  destruct (N.ltb_spec 9223372036854775807 rl); [unfold two63 in Hrl; lia|].
  unfold comp_supported in Hsup. rewrite Hsup. cbv beta iota zeta. cbn [negb].
  rewrite Hb. cbn [rd r_buf r_end r_seek].
  exists (s <| lx_base := rd (drop rl X) e sk |>). split; [split; cbn; auto|].
  unfold chunk_stream. destruct (if bytes_eqb comp [] && negb (mem_bytes comp (lo_custom lo)) then _ else _) as [p pe].
  reflexivity.
Qed.

Lemma finish_chunk_stream s b us crc comp plain pend :
  lo_validate lo = false ->
  exists s', in_chunk s' (rd plain pend false) (lx_base s) /\ finish_chunk s b us crc comp plain pend = (None, s').
Proof.
  intro Hv. unfold finish_chunk. rewrite Hv. cbn [negb]. cbv beta iota zeta.
  eexists; split; [|reflexivity]. split; cbn; auto.
Qed.

Lemma finish_chunk_val s b us crc comp plain pend :
  lo_validate lo = true ->
  ((0 <? lo_max_chunk lo) && (lo_max_chunk lo <? us)) = false ->
  2 * us < max_int32 ->
  exists s', in_chunk s' (rd plain pend false) (lx_base s) /\
     finish_chunk s b us crc comp plain pend = check_part s' b us crc comp (rd plain pend false).
Proof.
  intros Hv Hlim Hus. unfold finish_chunk. rewrite Hv, Hlim. cbn [negb]. cbv beta iota zeta.
  set (s0 := s <| lx_chunk := _ |>).
  destruct (lx_ubuf s0 <? us).
  - destruct (N.ltb_spec max_int32 us); [lia|]. unfold make_safe.
    destruct (N.ltb_spec (us * 2) max_int32); [|lia].
    eexists; split; [|reflexivity]. split; cbn; auto.
  - exists s0; split; [|reflexivity]. split; cbn; auto.
Qed.

Definition is_lz4 (comp : bytes) : bool := drains_chunk comp.
Definition is_lazy (comp : bytes) : bool := bytes_eqb comp [] || mem_bytes comp (lo_custom lo).

Lemma check_part_ok s c0 base b us crc comp data extra pend :
  in_chunk s c0 base -> us = blen data ->
  (is_lz4 comp = true -> extra = [] /\ pend = None) ->
  (crc = 0 \/ crc = crc32 data) ->
  exists s',
    in_chunk s' (rd data None true)
      (if is_lazy comp then rd (drop (blen data) (r_buf b)) (r_end b) (r_seek b) else base)
    /\ check_part s b us crc comp (rd (data ++ extra) pend false) = (None, s').
Proof.
  intros [Hc Hb] -> Hlz Hcrc. unfold check_part.
  rewrite rd_full_exact by reflexivity. cbv beta iota zeta.
  fold (is_lz4 comp). fold (is_lazy comp).
  assert (Hx : (0 <? crc) && negb (crc32 data =? crc) = false).
  { destruct Hcrc as [-> | ->]; [reflexivity|]. rewrite N.eqb_refl. apply andb_false_r. }
  rewrite Hx.
  destruct (is_lz4 comp).
  - destruct (Hlz eq_refl) as [-> ->]. cbn [rd r_buf r_end].
    destruct (is_lazy comp); eexists; (split; [|reflexivity]); split; cbn; auto.
  - destruct (is_lazy comp); eexists; (split; [|reflexivity]); split; cbn; auto.
Qed.

Lemma load_chunk_eq rlen s1 st en us crc comp rl X e sk :
  at_top s1 (rd (chunk_fixed st en us crc (blen comp) ++ comp ++ u64 rl ++ X) e sk) ->
  us < two64 -> crc < two32 -> blen comp < two32 -> rl < two63 ->
  blen comp + 8 < max_int32 -> 32 + (blen comp + 8) <= rlen ->
  comp_supported lo comp = true ->
  exists s', at_top s' (rd (drop rl X) e sk) /\
    load_chunk lo ds rlen s1 =
      let cs := chunk_stream lo ds comp (take rl X) (if rl <=? blen X then None else e) in
      finish_chunk s' (rd X e sk) us crc comp (fst cs) (snd cs).
Proof.
  intros Htop Hus Hcrc Hcomp Hrl Hneed Hrlen Hsup.
  destruct (load_chunk_head rlen s1 st en us crc comp rl X e sk) as (s' & Htop' & ->); try assumption.
  { unfold two63 in Hrl. unfold two64. lia. }
  apply payload_part_eq; assumption.
Qed.

Lemma enc_chunk_split k rest :
  enc_chunk k ++ rest =
  chunk_fixed (k_start k) (k_end k) (k_usize k) (k_crc k) (blen (k_comp k)) ++ k_comp k
    ++ u64 (blen (k_records k)) ++ k_records k ++ rest.
Proof. unfold enc_chunk, enc_chunk_top, chunk_fixed, pstr. rewrite <- !app_assoc. reflexivity. Qed.

Lemma enc_chunk_blen k : blen (enc_chunk k) = 32 + (blen (k_comp k) + 8) + blen (k_records k).
Proof.
  rewrite <- (app_nil_r (enc_chunk k)), enc_chunk_split, !blen_app, chunk_fixed_blen.
  replace (blen (u64 (blen (k_records k)))) with 8 by (unfold blen; rewrite u64_length; reflexivity).
  change (blen []) with 0. lia.
Qed.

(* a well-formed chunk: loadChunk installs a reader over the decompressed records *)
Lemma load_chunk_ok s1 k inner rest e sk :
  at_top s1 (rd (enc_chunk k ++ rest) e sk) ->
  wf_chunk k -> blen (k_records k) < two63 ->
  comp_supported lo (k_comp k) = true -> blen (k_comp k) + 8 < max_int32 ->
  chunk_stream lo ds (k_comp k) (k_records k) None = (frames inner, None) ->
  k_usize k = blen (frames inner) ->
  (k_crc k = 0 \/ k_crc k = crc32 (frames inner)) ->
  (lo_validate lo = true ->
     2 * k_usize k < max_int32
     /\ ((0 <? lo_max_chunk lo) && (lo_max_chunk lo <? k_usize k)) = false
     /\ (mem_bytes (k_comp k) (lo_custom lo) = true -> k_usize k = blen (k_records k))) ->
  exists s2, in_chunk s2 (rd (frames inner) None (lo_validate lo)) (rd rest e sk)
             /\ load_chunk lo ds (blen (enc_chunk k)) s1 = (None, s2).
Proof.
  intros Htop (W1 & W2 & W3 & W4 & W5 & W6) Hrecs Hsup Hneed Hstream Hus Hcrc Hval.
  rewrite enc_chunk_split in Htop.
  destruct (load_chunk_eq (blen (enc_chunk k)) s1 _ _ _ _ _ _ _ _ _ Htop) as (s' & [Hc' Hb'] & ->); try assumption.
  { rewrite enc_chunk_blen. lia. }
  rewrite take_app_exact, drop_app_exact in *.
  rewrite blen_app. destruct (N.leb_spec (blen (k_records k)) (blen (k_records k) + blen rest)); [|lia].
  rewrite Hstream. cbv zeta. cbn [fst snd].
  destruct (lo_validate lo) eqn:Hv.
  - destruct (Hval eq_refl) as (V1 & V2 & V3).
    destruct (finish_chunk_val s' (rd (k_records k ++ rest) e sk) (k_usize k) (k_crc k) (k_comp k) (frames inner) None Hv V2 V1)
      as (s'' & Hin & ->).
    replace (rd (frames inner) None false) with (rd (frames inner ++ []) None false) by (rewrite app_nil_r; reflexivity).
    destruct (check_part_ok s'' _ _ (rd (k_records k ++ rest) e sk) (k_usize k) (k_crc k) (k_comp k) (frames inner) [] None Hin Hus)
      as (s3 & Hin3 & ->); auto.
    exists s3. split; [|reflexivity].
    rewrite Hb' in Hin3. cbn [rd r_buf r_end r_seek] in Hin3.
    destruct (is_lazy (k_comp k)) eqn:Hl; [|exact Hin3].
    assert (Hlen : blen (frames inner) = blen (k_records k)).
    { unfold is_lazy in Hl. unfold chunk_stream in Hstream.
      destruct (mem_bytes (k_comp k) (lo_custom lo)) eqn:Hm.
      - rewrite <- Hus. apply V3. reflexivity.
      - rewrite orb_false_r in Hl. rewrite Hl in Hstream. cbn in Hstream. congruence. }
    rewrite Hlen, drop_app_exact in Hin3. exact Hin3.
  - destruct (finish_chunk_stream s' (rd (k_records k ++ rest) e sk) (k_usize k) (k_crc k) (k_comp k) (frames inner) None Hv)
      as (s'' & Hin & ->).
    exists s''. split; [|reflexivity]. rewrite Hb' in Hin. exact Hin.
Qed.

(* ----- attachments ----- *)
Lemma rd_skip_exact a rest e sk : rd_skip (blen a) (rd (a ++ rest) e sk) = (None, rd rest e sk).
Proof.
  unfold rd_skip, rd. cbn [r_seek r_buf r_end]. rewrite drop_app_exact.
  destruct sk; [reflexivity|]. rewrite blen_app.
  destruct (N.ltb_spec (blen a + blen rest) (blen a)); [lia|]. reflexivity.
Qed.

Lemma lim_read_step n (buf : bytes) en off (x : bytes) post :
  skipn off buf = x ++ post -> length x = n -> (0 < n)%nat ->
  lim_read n (buf, en) off = Ok (x, (off + n)%nat) /\ skipn (off + n) buf = post.
Proof.
  intros H Hn Hpos. pose proof (skipn_length_sub _ _ _ H) as L. rewrite app_length in L.
  split.
  - unfold lim_read. destruct (Nat.leb_spec (off + n) (length buf)); [|lia].
    unfold sub. rewrite H, firstn_app_exact' by (symmetry; exact Hn). reflexivity.
  - rewrite skipn_add, H. apply skipn_app_exact'. symmetry; exact Hn.
Qed.

Lemma lim_pstr_step (buf : bytes) en off (s : bytes) post :
  skipn off buf = pstr s ++ post -> blen s < two32 ->
  lim_pstr (buf, en) off = Ok (s, (off + 4 + length s)%nat) /\ skipn (off + 4 + length s) buf = post.
Proof.
  intros H Hs. unfold pstr in H. rewrite <- app_assoc in H.
  destruct (lim_read_step 4 buf en off (u32 (blen s)) (s ++ post) H (u32_length _)) as [E S4]; [lia|].
  pose proof (skipn_length_sub _ _ _ S4) as L. rewrite app_length in L.
  pose proof (skipn_length_sub _ _ _ H) as L0. rewrite !app_length, u32_length in L0.
  split.
  - unfold lim_pstr. rewrite E. rewrite unle_u32 by exact Hs.
    destruct (N.leb_spec (N.of_nat (off + 4) + blen s) (blen buf)); [|unfold blen in *; lia].
    unfold sub, blen. rewrite Nat2N.id, S4, firstn_app_exact. reflexivity.
  - rewrite skipn_add, S4. apply skipn_app_exact.
Qed.

Lemma do_attachment_ok a data crc rest e sk :
  wf_attach_item lo a data crc ->
  do_attachment lo (blen (attach_body a data crc)) (rd (attach_body a data crc ++ rest) e sk)
  = (match lo_cb lo with CbFull => Some (EvAttachment (attach_obs lo a data crc)) | _ => None end,
     None, rd rest e sk).
Proof.
  intros (W1 & W2 & W3 & W4 & W5 & W6 & W7 & _ & Wcb).
  unfold do_attachment. destruct Wcb as [Hcb | Hcb]; rewrite Hcb; cbv beta iota zeta.
  - rewrite rd_skip_exact. reflexivity.
  - set (body := attach_body a data crc).
    assert (Hlim : limited (blen body) (rd (body ++ rest) e sk) = (body, None)).
    { unfold limited, rd. cbn [r_buf r_end]. rewrite blen_app.
      destruct (N.leb_spec (blen body) (blen body + blen rest)); [|lia]. rewrite take_app_exact. reflexivity. }
    rewrite Hlim. cbn [fst snd].
    assert (H : skipn 0 body = u64 (a_log a) ++ u64 (a_create a) ++ pstr (a_name a) ++ pstr (a_media a)
                               ++ u64 (a_size a) ++ data ++ u32 crc).
    { unfold body, attach_body, enc_attachment_fields. rewrite <- !app_assoc. reflexivity. }
    destruct (lim_read_step 8 body None _ _ _ H (u64_length _)) as [E1 S1]; [lia|]. rewrite E1. cbn [bind].
    destruct (lim_read_step 8 body None _ _ _ S1 (u64_length _)) as [E2 S2]; [lia|]. rewrite E2. cbn [bind].
    destruct (lim_pstr_step body None _ _ _ S2 W3) as [E3 S3]. rewrite E3. cbn [bind].
    destruct (lim_pstr_step body None _ _ _ S3 W4) as [E4 S4]. rewrite E4. cbn [bind].
    destruct (lim_read_step 8 body None _ _ _ S4 (u64_length _)) as [E5 S5]; [lia|]. rewrite E5. cbn [bind].
    set (o5 := (0 + 8 + 8 + 4 + length (a_name a) + 4 + length (a_media a) + 8)%nat) in *.
    assert (Hsz : a_size a < two63).
    { rewrite W5. unfold body, attach_body in W7. rewrite !blen_app in W7. lia. }
    rewrite !unle_u64 by (try assumption; unfold two63, two64 in *; lia).
    destruct (N.ltb_spec 9223372036854775807 (a_size a)); [unfold two63 in Hsz; lia|].
    rewrite S5. rewrite W5, take_app_exact.
    rewrite N.ltb_irrefl.
    assert (Ho5 : (o5 + length data)%nat = length (enc_attachment_fields a ++ data)).
    { pose proof (skipn_length_sub _ _ _ S5) as L. rewrite app_length, u32_length in L.
      unfold body, attach_body in L. rewrite !app_length, u32_length in L. rewrite app_length. lia. }
    rewrite Ho5.
    assert (S6 : skipn (length (enc_attachment_fields a ++ data)) body = u32 crc ++ []).
    { unfold body, attach_body. rewrite app_assoc, app_nil_r. apply skipn_app_exact. }
    destruct (lim_read_step 4 body None _ _ _ S6 (u32_length _)) as [E6 _]; [lia|]. rewrite E6.
    rewrite unle_u32 by exact W6.
    replace (firstn (length (enc_attachment_fields a ++ data)) body) with (enc_attachment_fields a ++ data)
      by (unfold body, attach_body; rewrite app_assoc, firstn_app_exact; reflexivity).
    assert (Hcons : (length (enc_attachment_fields a ++ data) + 4)%nat = length body).
    { unfold body, attach_body. rewrite (app_assoc _ data), (app_length _ (u32 crc)), u32_length. reflexivity. }
    rewrite Hcons. cbn [rd r_buf r_end r_seek]. rewrite skipn_app_exact.
    replace (blen body - N.of_nat (length body)) with (blen []) by (unfold blen; cbn [length]; lia).
    change (rd_skip (blen []) {| r_buf := rest; r_end := e; r_seek := sk |}) with (rd_skip (blen []) (rd ([] ++ rest) e sk)).
    rewrite rd_skip_exact.
    unfold attach_obs. rewrite <- W5. reflexivity.
Qed.

(* ====================================================================== *)
(** * 3. driving Next: lex_loop *)

Definition lres := outcome (list event * err * lstate).

(* lex_loop entered in the middle of a call of Next: inner fuel f, events evs already collected by
   this call, acc collected by earlier calls *)
Definition loop_from (n fuel f : nat) (s : lstate) (evs acc : list event) : lres :=
  match lex_next lo ds f 0 s evs with
  | Ok (evs', NTok ev, s') => lex_loop lo ds n fuel s' (acc ++ evs' ++ [ev])
  | Ok (evs', NErr e, s') => Ok (acc ++ evs', e, s')
  | Err e => Err e
  | Panic p => Panic p | Exit p => Exit p | OutOfFuel => OutOfFuel
  end.

Lemma lex_loop_S n fuel s acc : lex_loop lo ds (S n) fuel s acc = loop_from n fuel fuel s [] acc.
Proof. reflexivity. Qed.

(* from state s with the events tot delivered so far, R more iterations are enough, and the final
   result satisfies P *)
Definition runs (fuel R : nat) (s : lstate) (tot : list event) (P : lres -> Prop) : Prop :=
  forall n f evs acc, (R < n)%nat -> (R < f)%nat -> tot = acc ++ evs -> P (loop_from n fuel f s evs acc).

Lemma runs_mono fuel R R' s tot P : runs fuel R s tot P -> (R <= R')%nat -> runs fuel R' s tot P.
Proof. intros H L n f evs acc Hn Hf Ht. apply H; try lia; exact Ht. Qed.

Lemma runs_silent fuel R s s' tot new P :
  (forall f evs, lex_next lo ds (S f) 0 s evs = lex_next lo ds f 0 s' (evs ++ new)) ->
  runs fuel R s' (tot ++ new) P -> runs fuel (S R) s tot P.
Proof.
  intros Hstep H n f evs acc Hn Hf Ht. destruct f as [|f]; [lia|].
  unfold loop_from. rewrite Hstep.
  apply (H n f (evs ++ new) acc); try lia. rewrite Ht, app_assoc. reflexivity.
Qed.

Lemma runs_token fuel R s s' tot ev P :
  (forall f evs, lex_next lo ds (S f) 0 s evs = Ok (evs, NTok ev, s')) ->
  (R < fuel)%nat ->
  runs fuel R s' (tot ++ [ev]) P -> runs fuel (S R) s tot P.
Proof.
  intros Hstep Hfuel H n f evs acc Hn Hf Ht. destruct f as [|f]; [lia|]. destruct n as [|n]; [lia|].
  unfold loop_from. rewrite Hstep, lex_loop_S.
  apply (H n fuel [] (acc ++ evs ++ [ev])); try lia. rewrite Ht, app_nil_r, app_assoc. reflexivity.
Qed.

Lemma runs_end fuel R s s' tot new e (P : lres -> Prop) :
  (forall f evs, lex_next lo ds (S f) 0 s evs = Ok (evs ++ new, NErr e, s')) ->
  P (Ok (tot ++ new, e, s')) -> runs fuel R s tot P.
Proof.
  intros Hstep HP n f evs acc Hn Hf Ht. destruct f as [|f]; [lia|].
  unfold loop_from. rewrite Hstep. subst tot. rewrite <- app_assoc in HP. exact HP.
Qed.

(* ====================================================================== *)
(** * 4. items *)

Lemma run_plain fuel R s tot P op body rest e sk :
  cur s = rd (frame op body ++ rest) e sk ->
  Byte.eqb op OpChunk && negb (lo_emit_chunks lo) = false ->
  op <> OpAttachment -> op <> x00 ->
  blen body < max_int32 -> len_ok lo (blen body) ->
  (R < fuel)%nat ->
  (forall s', moved s (rd rest e sk) s' -> runs fuel R s' (tot ++ rec_events (op, body)) P) ->
  runs fuel (S R) s tot P.
Proof.
  intros Hcur Hck Hat H0 Hlen Hlim Hfuel Hk.
  destruct (lex_next_plain 0 s op body rest e sk) as (s2 & Hm & Heq); try assumption.
  specialize (Hk s2 Hm). unfold rec_events in Hk. cbn [fst snd] in Hk.
  destruct (known_op op).
  - eapply runs_token; [exact Heq | exact Hfuel | exact Hk].
  - eapply runs_silent; [|exact Hk]. intros f evs. rewrite app_nil_r. apply Heq.
Qed.

Lemma frames_cons r l : frames (r :: l) = frame (fst r) (snd r) ++ frames l.
Proof. reflexivity. Qed.

(* the records of a chunk, read through the chunk reader *)
Lemma run_inner fuel P base ce csk crest : forall inner R s tot,
  Forall (plain_rec_ok lo) inner ->
  in_chunk s (rd (frames inner ++ crest) ce csk) base ->
  (length inner + R < fuel)%nat ->
  (forall s', in_chunk s' (rd crest ce csk) base ->
              runs fuel R s' (tot ++ concat (map rec_events inner)) P) ->
  runs fuel (length inner + R) s tot P.
Proof.
  induction inner as [|[op body] inner IH]; intros R s tot Hwf Hin Hfuel Hk.
  - cbn [length Nat.add]. cbn [map concat] in Hk. rewrite app_nil_r in Hk. apply Hk. exact Hin.
  - inversion Hwf as [|x l (Hc & Ha & H0 & Hl & Hlim) Hwf']; subst x l. cbn [fst snd] in *.
    cbn [length Nat.add] in *.
    rewrite frames_cons in Hin. cbn [fst snd] in Hin. rewrite <- app_assoc in Hin.
    eapply run_plain; try eassumption.
    + destruct Hin as [Hc' _]. unfold cur. rewrite Hc'. reflexivity.
    + rewrite (byte_eqb_neq _ _ Hc). reflexivity.
    + lia.
    + intros s' Hm. apply IH; try assumption.
      * eapply moved_in_chunk; eassumption.
      * lia.
      * intros s'' Hin''. cbn [map concat] in Hk. rewrite app_assoc in Hk. apply Hk. exact Hin''.
Qed.

(* the chunk reader is exhausted: back to the base reader *)
Lemma lex_next_pop pcap s csk base :
  in_chunk s (rd [] None csk) base ->
  exists s', at_top s' base /\ forall f evs, lex_next lo ds (S f) pcap s evs = lex_next lo ds f pcap s' evs.
Proof.
  intros [Hc Hb].
  exists (set_cur (rd [] None csk) s <| lx_chunk := None |>). split.
  - split; [reflexivity|]. unfold set_cur. rewrite Hc. cbn. exact Hb.
  - intros f evs. rewrite (lex_next_short f pcap s evs [] None csk).
    + unfold head_short. rewrite Hc. reflexivity.
    + unfold cur. rewrite Hc. reflexivity.
    + reflexivity.
Qed.

Lemma split_records_frames : forall inner fuel,
  Forall (fun r => blen (snd r) < two64) inner ->
  (length (frames inner) <= fuel)%nat ->
  split_records fuel (frames inner) = inner.
Proof.
  induction inner as [|[op body] inner IH]; intros fuel Hwf Hfuel.
  - destruct fuel; reflexivity.
  - inversion Hwf as [|x l Hb Hwf']; subst x l. cbn [snd] in Hb.
    rewrite frames_cons in *. cbn [fst snd] in *. rewrite frame_cons in *. cbn [app length] in Hfuel.
    destruct fuel as [|fuel]; [lia|]. cbn [app split_records].
    rewrite <- app_assoc. rewrite firstn_app_exact' by (rewrite u64_length; reflexivity).
    rewrite unle_u64 by exact Hb. rewrite skipn_app_exact' by (rewrite u64_length; reflexivity).
    rewrite take_app_exact, drop_app_exact. f_equal. apply IH; [exact Hwf'|].
    rewrite !app_length in Hfuel. lia.
Qed.

Lemma plain_rec_ok_two64 inner :
  Forall (plain_rec_ok lo) inner -> Forall (fun r => blen (snd r) < two64) inner.
Proof.
  intro H. eapply Forall_impl; [|exact H]. intros r (_ & _ & _ & Hl & _). apply max_int32_lt_two64, Hl.
Qed.

Lemma chunk_inner_eq k inner :
  chunk_stream lo ds (k_comp k) (k_records k) None = (frames inner, None) ->
  Forall (plain_rec_ok lo) inner ->
  chunk_inner lo ds k = inner.
Proof.
  intros Hs Hwf. unfold chunk_inner, chunk_plain. rewrite Hs. cbn [fst].
  apply split_records_frames; [apply plain_rec_ok_two64, Hwf | lia].
Qed.

Lemma at_top_cur s b : at_top s b -> cur s = b.
Proof. intros [Hc Hb]. unfold cur. rewrite Hc. exact Hb. Qed.
Lemma at_top_set_cur s b r : at_top s b -> at_top (set_cur r s) r.
Proof. intro H. eapply moved_top; [exact H | apply moved_set_cur]. Qed.

Lemma run_chunk fuel R s tot P k rest e sk :
  at_top s (rd (frame OpChunk (enc_chunk k) ++ rest) e sk) ->
  wf_chunk_item lo ds k -> lo_emit_chunks lo = false ->
  (item_steps lo ds (IChunk k) + R < fuel)%nat ->
  (forall s', at_top s' (rd rest e sk) -> runs fuel R s' (tot ++ item_events lo ds (IChunk k)) P) ->
  runs fuel (item_steps lo ds (IChunk k) + R) s tot P.
Proof.
  intros Htop (Wk & Wlen & W) Hemit Hfuel Hk. rewrite Hemit in W.
  destruct W as (Wsup & Wneed & Wrecs & inner & Wstream & Wus & Winner & Wcrc & Wval).
  cbn [item_steps item_events] in *. rewrite Hemit in *.
  rewrite (chunk_inner_eq k inner Wstream Winner) in *.
  assert (Hb64 : blen (enc_chunk k) < two64).
  { rewrite enc_chunk_blen. destruct Wk as (_ & _ & _ & _ & Wc & _). unfold two63, two32, two64 in *. lia. }
  set (s1 := set_cur (rd (enc_chunk k ++ rest) e sk) s).
  assert (Htop1 : at_top s1 (rd (enc_chunk k ++ rest) e sk)) by (eapply at_top_set_cur; exact Htop).
  destruct (load_chunk_ok s1 k inner rest e sk Htop1 Wk Wrecs Wsup Wneed Wstream Wus Wcrc Wval) as (s2 & Hin2 & Hload).
  cbn [Nat.add].
  eapply (runs_silent _ _ s s2 tot []).
  { intros f evs. rewrite app_nil_r.
    unfold frame in Htop. rewrite <- app_assoc in Htop.
    rewrite (lex_next_head f 0 s evs OpChunk (blen (enc_chunk k)) _ e sk (at_top_cur _ _ Htop) Hb64).
    fold s1. unfold after_head. unfold len_ok in Wlen. rewrite Wlen, Hemit, byte_eqb_refl, Hload. reflexivity. }
  rewrite app_nil_r.
  replace (S (length inner + R)) with (length inner + S R)%nat by lia.
  eapply (run_inner fuel P (rd rest e sk) None (lo_validate lo) []); try eassumption.
  - rewrite app_nil_r. exact Hin2.
  - lia.
  - intros s3 Hin3.
    destruct (lex_next_pop 0 s3 _ _ Hin3) as (s4 & Htop4 & Hpop).
    eapply (runs_silent _ _ s3 s4 _ []).
    + intros f evs. rewrite app_nil_r. apply Hpop.
    + rewrite app_nil_r. apply Hk. exact Htop4.
Qed.

Lemma run_attach fuel R s tot P a data crc rest e sk :
  at_top s (rd (frame OpAttachment (attach_body a data crc) ++ rest) e sk) ->
  wf_attach_item lo a data crc ->
  (forall s', at_top s' (rd rest e sk) -> runs fuel R s' (tot ++ item_events lo ds (IAttach a data crc)) P) ->
  runs fuel (S R) s tot P.
Proof.
  intros Htop W Hk.
  pose proof W as (_ & _ & _ & _ & _ & _ & W7 & Wlen & _).
  set (body := attach_body a data crc) in *.
  set (s1 := set_cur (rd (body ++ rest) e sk) s).
  assert (Htop1 : at_top s1 (rd (body ++ rest) e sk)) by (eapply at_top_set_cur; exact Htop).
  set (s2 := set_cur (rd rest e sk) s1).
  eapply (runs_silent _ _ s s2 tot (item_events lo ds (IAttach a data crc))).
  - intros f evs. unfold frame in Htop. rewrite <- app_assoc in Htop.
    rewrite (lex_next_head f 0 s evs OpAttachment (blen body) _ e sk (at_top_cur _ _ Htop))
      by (unfold two63, two64 in *; lia).
    fold s1. unfold after_head. unfold len_ok in Wlen. rewrite Wlen.
    change (Byte.eqb OpAttachment OpChunk) with false. cbn [andb]. rewrite byte_eqb_refl.
    destruct (N.ltb_spec 9223372036854775807 (blen body)); [unfold two63 in W7; lia|].
    rewrite (at_top_cur _ _ Htop1). unfold body. rewrite do_attachment_ok by exact W.
    cbv beta iota zeta. fold body. fold s2. cbn [item_events].
    destruct (lo_cb lo); try rewrite app_nil_r; reflexivity.
  - apply Hk. eapply at_top_set_cur; exact Htop1.
Qed.

Lemma run_item fuel R s tot P it rest e sk :
  at_top s (rd (render_item it ++ rest) e sk) ->
  wf_item lo ds it ->
  (item_steps lo ds it + R < fuel)%nat ->
  (forall s', at_top s' (rd rest e sk) -> runs fuel R s' (tot ++ item_events lo ds it) P) ->
  runs fuel (item_steps lo ds it + R) s tot P.
Proof.
  intros Htop W Hfuel Hk. destruct it as [|op body|k|a data crc|ss sos crc]; cbn [render_item] in Htop.
  - destruct W.
  - destruct W as (Hc & Ha & H0 & Hl & Hlim). cbn [fst snd] in *. cbn [item_steps Nat.add] in *.
    eapply run_plain; try eassumption.
    + apply at_top_cur, Htop.
    + rewrite (byte_eqb_neq _ _ Hc). reflexivity.
    + lia.
    + intros s' Hm. apply Hk. eapply moved_top; eassumption.
  - destruct (lo_emit_chunks lo) eqn:Hemit.
    + destruct W as (Wk & Wlen & W). rewrite Hemit in W.
      cbn [item_steps item_events] in *. rewrite Hemit in *. cbn [Nat.add] in *.
      eapply run_plain; try eassumption.
      * apply at_top_cur, Htop.
      * rewrite Hemit. apply andb_false_r.
      * discriminate.
      * discriminate.
      * lia.
      * intros s' Hm. apply Hk. eapply moved_top; eassumption.
    + apply run_chunk with (rest := rest) (e := e) (sk := sk); assumption.
  - cbn [item_steps Nat.add] in *. eapply run_attach; eassumption.
  - destruct W as (W1 & W2 & W3 & Wlim). cbn [item_steps item_events Nat.add] in *.
    set (body := enc_footer _) in *.
    assert (Hb : blen body = 20).
    { unfold body, enc_footer, blen. rewrite !app_length, !u64_length, u32_length. reflexivity. }
    eapply run_plain; try eassumption.
    + apply at_top_cur, Htop.
    + reflexivity.
    + discriminate.
    + discriminate.
    + rewrite Hb. reflexivity.
    + rewrite Hb. exact Wlim.
    + lia.
    + intros s' Hm. apply Hk. eapply moved_top; eassumption.
Qed.

Lemma run_items fuel P e sk : forall items R s tot rest,
  Forall (wf_item lo ds) items ->
  at_top s (rd (render items ++ rest) e sk) ->
  (file_steps lo ds items + R < fuel)%nat ->
  (forall s', at_top s' (rd rest e sk) -> runs fuel R s' (tot ++ file_events lo ds items) P) ->
  runs fuel (file_steps lo ds items + R) s tot P.
Proof.
  induction items as [|it items IH]; intros R s tot rest Hwf Htop Hfuel Hk.
  - cbn in *. rewrite app_nil_r in Hk. apply Hk, Htop.
  - inversion Hwf as [|x l W Hwf']; subst x l.
    unfold render in Htop. cbn [map concat] in Htop. rewrite <- app_assoc in Htop. fold (render items) in Htop.
    cbn [file_steps fold_right] in *. fold (file_steps lo ds items) in *.
    rewrite <- Nat.add_assoc. eapply run_item; try eassumption; [lia|].
    intros s' Htop'. apply IH with (rest := rest); try assumption; [lia|].
    intros s'' Htop''. unfold file_events in *. cbn [map concat] in Hk. rewrite app_assoc in Hk. apply Hk, Htop''.
Qed.

(* the trailing magic: 8 bytes and then EOF is a clean end *)
Lemma lex_next_magic pcap s sk :
  at_top s (rd magic None sk) ->
  exists s', forall f evs, lex_next lo ds (S f) pcap s evs = Ok (evs, NErr EEOF, s').
Proof.
  intros Htop. exists (set_cur (rd [] None sk) s). intros f evs.
  rewrite (lex_next_short f pcap s evs magic None sk (at_top_cur _ _ Htop)) by reflexivity.
  unfold head_short. destruct Htop as [Hc _]. rewrite Hc. reflexivity.
Qed.

Lemma new_lexer_ok rest sk :
  exists s, at_top s (rd rest None sk)
            /\ new_lexer lo (rd (render (lead_magic lo) ++ rest) None sk) = Ok s.
Proof.
  unfold new_lexer, lead_magic. destruct (lo_skip_magic lo).
  - eexists; split; [|reflexivity]. split; reflexivity.
  - unfold render. cbn [map concat render_item]. rewrite app_nil_r.
    rewrite (rd_full_exact 8 magic) by reflexivity. cbv beta iota zeta.
    rewrite bytes_eqb_refl. eexists; split; [|reflexivity]. split; reflexivity.
Qed.

Definition ends_with (evs : list event) (e : err) : lres -> Prop :=
  fun r => exists st, r = Ok (evs, e, st).

Lemma lex_all_runs fuel R s src P :
  new_lexer lo src = Ok s -> runs fuel R s [] P -> (R + 2 <= fuel)%nat -> P (lex_all lo ds fuel src).
Proof.
  intros Hnew Hr Hf. unfold lex_all. rewrite Hnew. destruct fuel as [|n]; [lia|].
  rewrite lex_loop_S. apply Hr; try lia. reflexivity.
Qed.

Lemma render_app a b : render (a ++ b) = render a ++ render b.
Proof. unfold render. rewrite map_app, concat_app. reflexivity. Qed.
Lemma file_events_app a b : file_events lo ds (a ++ b) = file_events lo ds a ++ file_events lo ds b.
Proof. unfold file_events. rewrite map_app, concat_app. reflexivity. Qed.
Lemma file_steps_app a b : file_steps lo ds (a ++ b) = (file_steps lo ds a + file_steps lo ds b)%nat.
Proof. induction a as [|x a IH]; [reflexivity|]. cbn [app file_steps fold_right] in *. fold (file_steps lo ds (a ++ b)). fold (file_steps lo ds a). rewrite IH. lia. Qed.

Lemma lead_magic_events : file_events lo ds (lead_magic lo) = [].
Proof. unfold lead_magic. destruct (lo_skip_magic lo); reflexivity. Qed.

Theorem lex_render_thm items sk :
  wf_file lo ds items ->
  forall fuel, (file_steps lo ds items + 1 <= fuel)%nat ->
  exists st, lex_all lo ds fuel (src_of (render items) sk) = Ok (file_events lo ds items, EEOF, st).
Proof.
  intros (recs & -> & Hwf) fuel Hfuel.
  rewrite render_app. destruct (new_lexer_ok (render (recs ++ [IMagic])) sk) as (s & Htop & Hnew).
  rewrite !file_events_app, lead_magic_events. cbn [app].
  change (file_events lo ds [IMagic]) with (@nil event). rewrite app_nil_r.
  rewrite !file_steps_app in Hfuel. change (file_steps lo ds [IMagic]) with 1%nat in Hfuel.
  apply (lex_all_runs fuel (file_steps lo ds recs + 0) s _ (ends_with (file_events lo ds recs) EEOF) Hnew); [|lia].
  rewrite render_app in Htop.
  apply run_items with (e := None) (sk := sk) (rest := render [IMagic]); try assumption; [lia|].
  intros s' Htop'. unfold render in Htop'. cbn [map concat render_item] in Htop'. rewrite app_nil_r in Htop'.
  destruct (lex_next_magic 0 s' sk Htop') as (s'' & Hend).
  eapply (runs_end _ _ s' s'' _ []).
  - intros f evs. rewrite app_nil_r. apply Hend.
  - rewrite app_nil_r. cbn [app]. exists s''. reflexivity.
Qed.
End Steps.

(* ====================================================================== *)
(** * 5. truncated files (C09) *)
Section Trunc.
Variable lo : lopts.
Variable ds : doracle.

Definition stops (tot : list event) : lres -> Prop :=
  fun r => exists fin st, r = Ok (tot, fin, st).

Lemma runs_weaken fuel R s tot (P Q : lres -> Prop) :
  (forall r, P r -> Q r) -> runs lo ds fuel R s tot P -> runs lo ds fuel R s tot Q.
Proof. intros H Hr n f evs acc Hn Hf Ht. apply H, Hr; assumption. Qed.

(* the head of a record cannot be read completely, at top level *)
Lemma top_head_short pcap s b sk :
  at_top s (rd b None sk) -> blen b < 9 ->
  exists fin s', forall f evs, lex_next lo ds (S f) pcap s evs = Ok (evs, NErr fin, s').
Proof.
  intros Htop Hb.
  pose proof (fun f evs => lex_next_short lo ds f pcap s evs b None sk (at_top_cur _ _ Htop) Hb) as E.
  destruct Htop as [Hc _]. unfold head_short in E. rewrite Hc in E. cbn [andb] in E.
  destruct (err_eqb (short_err b None) EUnexpectedEOF || err_eqb (short_err b None) ETruncated).
  - destruct (Nat.eqb (length b) 8 && bytes_eqb b magic); eexists; eexists; intros f evs; rewrite E; reflexivity.
  - eexists; eexists; intros f evs; rewrite E; reflexivity.
Qed.

Lemma run_top_short fuel R s tot b sk :
  at_top s (rd b None sk) -> blen b < 9 -> runs lo ds fuel R s tot (stops tot).
Proof.
  intros Htop Hb. destruct (top_head_short 0 s b sk Htop Hb) as (fin & s' & E).
  eapply (runs_end lo ds _ _ s s' tot []).
  - intros f evs. rewrite app_nil_r. apply E.
  - rewrite app_nil_r. exists fin, s'. reflexivity.
Qed.

(* the body of a plain record cannot be read completely *)
Lemma after_head_plain_short pcap s1 op n b pe sk :
  cur s1 = rd b pe sk -> blen b < n ->
  Byte.eqb op OpChunk && negb (lo_emit_chunks lo) = false ->
  op <> OpAttachment ->
  n < max_int32 -> len_ok lo n ->
  exists fin s2, forall f evs, after_head lo ds f pcap s1 evs op n = Ok (evs, NErr fin, s2).
Proof.
  intros Hcur Hb Hck Hat Hn Hlim.
  assert (Hms : exists s1', (if pcap <? n then make_safe n s1 else Ok s1) = Ok s1' /\ cur s1' = rd b pe sk).
  { destruct (pcap <? n).
    - unfold make_safe. destruct (N.ltb_spec n max_int32); [|lia].
      eexists; split; [reflexivity|]. rewrite <- Hcur. unfold cur. cbn. reflexivity.
    - exists s1. auto. }
  destruct Hms as (s1' & Hms & Hcur').
  unfold after_head. unfold len_ok in Hlim. rewrite Hlim, Hck, (byte_eqb_neq _ _ Hat), Hms, Hcur'.
  rewrite rd_full_short by exact Hb. cbv beta iota zeta.
  destruct (short_err b pe); eexists; eexists; intros f evs; reflexivity.
Qed.

Lemma firstn_app_ge {A} j (a b : list A) : (length a <= j)%nat -> firstn j (a ++ b) = a ++ firstn (j - length a) b.
Proof. intro H. rewrite firstn_app, firstn_all2 by exact H. reflexivity. Qed.
Lemma firstn_app_lt {A} j (a b : list A) : (j <= length a)%nat -> firstn j (a ++ b) = firstn j a.
Proof. intro H. rewrite firstn_app. replace (j - length a)%nat with 0%nat by lia. cbn. apply app_nil_r. Qed.
Lemma blen_firstn j (b : bytes) : (j <= length b)%nat -> blen (firstn j b) = N.of_nat j.
Proof. intro H. unfold blen. rewrite firstn_length. lia. Qed.
Lemma frame_head_length op n : length (frame_head op n) = 9%nat.
Proof. unfold frame_head. cbn [length]. rewrite u64_length. reflexivity. Qed.

Lemma run_plain_body_cut fuel R s tot op body j pe sk :
  cur s = rd (frame_head op (blen body) ++ firstn j body) pe sk -> (j < length body)%nat ->
  Byte.eqb op OpChunk && negb (lo_emit_chunks lo) = false ->
  op <> OpAttachment ->
  blen body < max_int32 -> len_ok lo (blen body) ->
  runs lo ds fuel R s tot (stops tot).
Proof.
  intros Hcur Hj Hck Hat Hl Hlim.
  set (s1 := set_cur (rd (firstn j body) pe sk) s).
  destruct (after_head_plain_short 0 s1 op (blen body) (firstn j body) pe sk) as (fin & s2 & E); try assumption.
  { unfold s1. apply (moved_cur s). apply moved_set_cur. }
  { rewrite blen_firstn by lia. unfold blen. lia. }
  eapply (runs_end lo ds _ _ s s2 tot []).
  - intros f evs. rewrite app_nil_r.
    rewrite (lex_next_head lo ds f 0 s evs op (blen body) _ pe sk Hcur) by (apply max_int32_lt_two64, Hl).
    apply E.
  - rewrite app_nil_r. exists fin, s2. reflexivity.
Qed.

Lemma run_plain_cut_top fuel R s tot op body j sk :
  at_top s (rd (firstn j (frame op body)) None sk) -> (j < length (frame op body))%nat ->
  Byte.eqb op OpChunk && negb (lo_emit_chunks lo) = false ->
  op <> OpAttachment ->
  blen body < max_int32 -> len_ok lo (blen body) ->
  runs lo ds fuel R s tot (stops tot).
Proof.
  intros Htop Hj Hck Hat Hl Hlim. rewrite frame_length in Hj.
  destruct (Nat.lt_ge_cases j 9) as [H9 | H9].
  - eapply run_top_short; [exact Htop|]. rewrite blen_firstn by (rewrite frame_length; lia). lia.
  - unfold frame in Htop. rewrite firstn_app_ge in Htop by (rewrite frame_head_length; exact H9).
    rewrite frame_head_length in Htop.
    eapply run_plain_body_cut; try eassumption; [apply at_top_cur; exact Htop | lia].
Qed.

(* the chunk reader ends (cleanly or not) inside a record head; the base reader is exhausted *)
Lemma run_chunk_end fuel R s tot b pe csk sk :
  in_chunk s (rd b pe csk) (rd [] None sk) -> blen b < 9 ->
  runs lo ds fuel (S R) s tot (stops tot).
Proof.
  intros [Hc Hb] Hlen.
  assert (Hcur : cur s = rd b pe csk) by (unfold cur; rewrite Hc; reflexivity).
  pose proof (fun f evs => lex_next_short lo ds f 0 s evs b pe csk Hcur Hlen) as E.
  unfold head_short in E. rewrite Hc in E. cbn [andb] in E.
  set (e0 := short_err b pe) in *.
  destruct (err_eqb e0 EEOF || (err_eqb e0 EUnexpectedEOF || err_eqb e0 ETruncated)) eqn:Hpop.
  - set (s' := set_cur (rd [] pe csk) s <| lx_chunk := None |>) in *.
    eapply (runs_silent lo ds _ _ s s' tot []).
    + intros f evs. rewrite app_nil_r. apply E.
    + rewrite app_nil_r. apply run_top_short with (b := []) (sk := sk); [|reflexivity].
      split; [reflexivity|]. unfold s', set_cur. rewrite Hc. cbn. exact Hb.
  - apply orb_false_iff in Hpop. destruct Hpop as [_ Hu]. rewrite Hu in E.
    eapply (runs_end lo ds _ _ s _ tot []).
    + intros f evs. rewrite app_nil_r. apply E.
    + rewrite app_nil_r. eexists; eexists; reflexivity.
Qed.

Definition stops_within (tot full : list event) : lres -> Prop :=
  fun r => exists partial fin st, r = Ok (tot ++ partial, fin, st) /\ is_prefix partial full.

(* a chunk reader that delivers only a prefix of the chunk's records *)
Lemma run_inner_cut fuel pe csk sk : forall inner m R s tot,
  Forall (plain_rec_ok lo) inner ->
  in_chunk s (rd (firstn m (frames inner)) pe csk) (rd [] None sk) ->
  (length inner + R < fuel)%nat ->
  runs lo ds fuel (length inner + S R) s tot (stops_within tot (concat (map rec_events inner))).
Proof.
  induction inner as [|[op body] inner IH]; intros m R s tot Hwf Hin Hfuel.
  - cbn [length Nat.add]. eapply runs_weaken; [|eapply run_chunk_end with (b := firstn m (frames [])); [exact Hin|]].
    + intros r (fin & st & ->). exists [], fin, st. rewrite app_nil_r. split; [reflexivity|]. exists []. reflexivity.
    + rewrite firstn_nil. reflexivity.
  - inversion Hwf as [|x l (Hc & Ha & H0 & Hl & Hlim) Hwf']; subst x l. cbn [fst snd] in *.
    rewrite frames_cons in Hin. cbn [fst snd] in Hin.
    assert (Hck : Byte.eqb op OpChunk && negb (lo_emit_chunks lo) = false) by (rewrite (byte_eqb_neq _ _ Hc); reflexivity).
    destruct (Nat.lt_ge_cases m (length (frame op body))) as [Hm | Hm].
    + (* cut inside this record *)
      rewrite firstn_app_lt in Hin by lia.
      eapply runs_weaken with (P := stops tot).
      { intros r (fin & st & ->). exists [], fin, st. rewrite app_nil_r. split; [reflexivity|]. eexists. reflexivity. }
      rewrite frame_length in Hm.
      destruct (Nat.lt_ge_cases m 9) as [H9 | H9].
      * apply runs_mono with (R := 1%nat); [|cbn [length]; lia].
        eapply run_chunk_end; [exact Hin|].
        rewrite blen_firstn by (rewrite frame_length; lia). lia.
      * unfold frame in Hin. rewrite firstn_app_ge in Hin by (rewrite frame_head_length; exact H9).
        rewrite frame_head_length in Hin.
        eapply run_plain_body_cut with (j := (m - 9)%nat); try eassumption; [|lia].
        destruct Hin as [Hc' _]. unfold cur. rewrite Hc'. reflexivity.
    + (* this record is complete *)
      rewrite firstn_app_ge in Hin by exact Hm.
      cbn [length Nat.add] in *.
      eapply run_plain; try eassumption.
      * destruct Hin as [Hc' _]. unfold cur. rewrite Hc'. reflexivity.
      * lia.
      * intros s' Hmv.
        eapply runs_weaken; [|eapply IH; [exact Hwf' | eapply moved_in_chunk; eassumption | lia]].
        intros r (partial & fin & st & -> & (more & Hmore)).
        exists (rec_events (op, body) ++ partial), fin, st. split; [rewrite app_assoc; reflexivity|].
        exists more. cbn [map concat]. rewrite Hmore, app_assoc. reflexivity.
Qed.

Lemma err_eqb_neq a b : a <> b -> err_eqb a b = false.
Proof. intro H. destruct a, b; try reflexivity; exfalso; apply H; reflexivity. Qed.

Lemma after_head_chunk_err pcap s1 rlen e s2 :
  load_chunk lo ds rlen s1 = (Some e, s2) -> e <> EInvalidChunkCrc ->
  len_ok lo rlen -> lo_emit_chunks lo = false ->
  forall f evs, after_head lo ds f pcap s1 evs OpChunk rlen = Ok (evs, NErr e, s2).
Proof.
  intros Hl He Hlim Hemit f evs. unfold after_head. unfold len_ok in Hlim.
  rewrite Hlim, Hemit, byte_eqb_refl, Hl. cbn [andb negb]. rewrite (err_eqb_neq _ _ He), andb_false_r. reflexivity.
Qed.

Lemma load_chunk_fixed_short rlen s1 b sk :
  at_top s1 (rd b None sk) -> blen b < 32 ->
  exists e s2, load_chunk lo ds rlen s1 = (Some e, s2) /\ e <> EInvalidChunkCrc.
Proof.
  intros [Hc Hb] Hlen. unfold load_chunk. rewrite Hc, Hb, rd_full_short by exact Hlen.
  cbv beta iota zeta. destruct b; cbn [short_err]; eexists; eexists; (split; [reflexivity | discriminate]).
Qed.

Lemma load_chunk_name_short rlen s1 st en us crc clen b sk :
  at_top s1 (rd (chunk_fixed st en us crc clen ++ b) None sk) ->
  clen < two32 -> clen + 8 < max_int32 -> 32 + (clen + 8) <= rlen ->
  blen b < clen + 8 ->
  exists s2, load_chunk lo ds rlen s1 = (Some ETruncated, s2).
Proof.
  intros [Hc Hb] Hcl Hneed Hrlen Hlen.
  unfold load_chunk. rewrite Hc, Hb.
  rewrite (rd_full_exact 32 (chunk_fixed st en us crc clen)) by (symmetry; apply chunk_fixed_blen).
  cbv beta iota zeta.
  rewrite chunk_fixed_clen by assumption.
  destruct (N.ltb_spec rlen (32 + (clen + 8))); [lia|].
  set (s1a := s1 <| lx_base := rd b None sk |>).
  assert (Hg : exists s1b, (if lx_bufcap s1a <? clen + 8 then make_safe (clen + 8) s1a else Ok s1a) = Ok s1b
               /\ lx_base (if lx_bufcap s1a <? clen + 8 then s1b <| lx_bufcap := clen + 8 |> else s1b) = rd b None sk).
  { destruct (lx_bufcap s1a <? clen + 8).
    - unfold make_safe. destruct (N.ltb_spec (clen + 8) max_int32); [|lia].
      eexists; split; [reflexivity|]. reflexivity.
    - exists s1a. split; reflexivity. }
  destruct Hg as (s1b & -> & Hb2). rewrite Hb2, rd_full_short by exact Hlen.
  cbv beta iota zeta. destruct b; cbn [short_err]; eexists; reflexivity.
Qed.

Lemma after_head_chunk_ok pcap s1 rlen s2 :
  load_chunk lo ds rlen s1 = (None, s2) -> len_ok lo rlen -> lo_emit_chunks lo = false ->
  forall f evs, after_head lo ds f pcap s1 evs OpChunk rlen = lex_next lo ds f pcap s2 evs.
Proof.
  intros Hl Hlim Hemit f evs. unfold after_head. unfold len_ok in Hlim.
  rewrite Hlim, Hemit, byte_eqb_refl, Hl. reflexivity.
Qed.

Lemma check_part_short s b us crc comp plain pe :
  blen plain < us ->
  exists s', check_part lo s b us crc comp (rd plain pe false) = (Some (short_err plain pe), s').
Proof. intro H. unfold check_part. rewrite rd_full_short by exact H. eexists. reflexivity. Qed.

Lemma check_part_lz4_bad s b us crc comp data e :
  is_lz4 comp = true -> us = blen data ->
  exists s', check_part lo s b us crc comp (rd data (Some e) false) = (Some e, s').
Proof.
  intros Hlz ->. unfold check_part.
  replace (rd data (Some e) false) with (rd (data ++ []) (Some e) false) by (rewrite app_nil_r; reflexivity).
  rewrite rd_full_exact by reflexivity. cbv beta iota zeta. fold (is_lz4 comp). rewrite Hlz.
  cbn [rd r_buf r_end]. eexists. reflexivity.
Qed.

Lemma lazy_len comp recs plain us :
  is_lazy lo comp = true -> chunk_stream lo ds comp recs None = (plain, None) ->
  (mem_bytes comp (lo_custom lo) = true -> us = blen recs) -> us = blen plain ->
  blen plain = blen recs.
Proof.
  intros Hl Hs Hc Hus. unfold is_lazy in Hl. unfold chunk_stream in Hs.
  destruct (mem_bytes comp (lo_custom lo)) eqn:Hm.
  - rewrite <- Hus. apply Hc. reflexivity.
  - rewrite orb_false_r in Hl. rewrite Hl in Hs. cbn in Hs. congruence.
Qed.

Lemma chunk_stream_prefix comp payload plain j :
  codec_prefix_ok ds -> chunk_stream lo ds comp payload None = (plain, None) -> (j < length payload)%nat ->
  exists n pe, chunk_stream lo ds comp (firstn j payload) None = (firstn n plain, pe) /\ pe <> Some EInvalidChunkCrc.
Proof.
  intros Hc Hs Hj. unfold chunk_stream in *.
  destruct (bytes_eqb comp [] && negb (mem_bytes comp (lo_custom lo))).
  - inversion Hs; subst. exists j, None. split; [reflexivity | discriminate].
  - apply (Hc comp payload plain j Hs Hj).
Qed.

Lemma enc_chunk_split0 k :
  enc_chunk k =
  chunk_fixed (k_start k) (k_end k) (k_usize k) (k_crc k) (blen (k_comp k)) ++ k_comp k
    ++ u64 (blen (k_records k)) ++ k_records k.
Proof. rewrite <- (app_nil_r (enc_chunk k)), enc_chunk_split, app_nil_r. reflexivity. Qed.

Lemma chunk_fixed_length st en us crc clen : length (chunk_fixed st en us crc clen) = 32%nat.
Proof. unfold chunk_fixed. rewrite !app_length, !u64_length, !u32_length. reflexivity. Qed.

Lemma stops_stops_within tot full r : stops tot r -> stops_within tot full r.
Proof. intros (fin & st & ->). exists [], fin, st. rewrite app_nil_r. split; [reflexivity|]. exists full. reflexivity. Qed.

Lemma run_chunk_cut fuel s tot k j sk :
  at_top s (rd (firstn j (frame OpChunk (enc_chunk k))) None sk) ->
  (j < length (frame OpChunk (enc_chunk k)))%nat ->
  wf_chunk_item lo ds k -> lo_emit_chunks lo = false -> codec_prefix_ok ds ->
  (item_steps lo ds (IChunk k) + 1 < fuel)%nat ->
  runs lo ds fuel (item_steps lo ds (IChunk k) + 1) s tot (stops_within tot (item_events lo ds (IChunk k))).
Proof.
  intros Htop Hj (Wk & Wlen & W) Hemit Hcodec Hfuel. rewrite Hemit in W.
  destruct W as (Wsup & Wneed & Wrecs & inner & Wstream & Wus & Winner & Wcrc & Wval).
  cbn [item_steps item_events] in *. rewrite Hemit in *.
  rewrite (chunk_inner_eq lo ds k inner Wstream Winner) in *.
  pose proof Wk as (_ & _ & Wu64 & Wc32 & Wcl & _).
  assert (Hb64 : blen (enc_chunk k) < two64).
  { rewrite enc_chunk_blen. unfold two63, two32, two64 in *. lia. }
  rewrite frame_length in Hj.
  destruct (Nat.lt_ge_cases j 9) as [H9 | H9].
  { eapply runs_weaken; [apply stops_stops_within|].
    eapply run_top_short; [exact Htop|]. rewrite blen_firstn by (rewrite frame_length; lia). lia. }
  unfold frame in Htop. rewrite firstn_app_ge in Htop by (rewrite frame_head_length; exact H9).
  rewrite frame_head_length in Htop.
  set (j1 := (j - 9)%nat) in *.
  set (s1 := set_cur (rd (firstn j1 (enc_chunk k)) None sk) s).
  assert (Htop1 : at_top s1 (rd (firstn j1 (enc_chunk k)) None sk)) by (eapply at_top_set_cur; exact Htop).
  assert (Hhead : forall f evs, lex_next lo ds (S f) 0 s evs = after_head lo ds f 0 s1 evs OpChunk (blen (enc_chunk k))).
  { intros f evs. apply (lex_next_head lo ds f 0 s evs OpChunk (blen (enc_chunk k)) _ None sk (at_top_cur _ _ Htop) Hb64). }
  (* an error of loadChunk ends the read *)
  assert (Herr : forall e s2, load_chunk lo ds (blen (enc_chunk k)) s1 = (Some e, s2) -> e <> EInvalidChunkCrc ->
                 runs lo ds fuel (S (S (length inner)) + 1) s tot (stops_within tot (concat (map rec_events inner)))).
  { intros e s2 Hl He. eapply runs_weaken; [apply stops_stops_within|].
    eapply (runs_end lo ds _ _ s s2 tot [] e).
    - intros f evs. rewrite app_nil_r, Hhead. apply after_head_chunk_err; assumption.
    - rewrite app_nil_r. eexists; eexists; reflexivity. }
  rewrite enc_chunk_split0 in Htop1.
  destruct (Nat.lt_ge_cases j1 32) as [H32 | H32].
  { destruct (load_chunk_fixed_short (blen (enc_chunk k)) s1 _ sk Htop1) as (e & s2 & Hl & He).
    - rewrite <- enc_chunk_split0. rewrite blen_firstn; [lia|]. unfold j1. lia.
    - eapply Herr; eassumption. }
  rewrite firstn_app_ge in Htop1 by (rewrite chunk_fixed_length; exact H32).
  rewrite chunk_fixed_length in Htop1.
  set (j2 := (j1 - 32)%nat) in *.
  assert (Hlen_enc : length (enc_chunk k) = (32 + (length (k_comp k) + 8) + length (k_records k))%nat).
  { pose proof (enc_chunk_blen k) as E. unfold blen in E. lia. }
  assert (Hrl : 32 + (blen (k_comp k) + 8) <= blen (enc_chunk k)) by (rewrite enc_chunk_blen; lia).
  destruct (Nat.lt_ge_cases j2 (length (k_comp k) + 8)) as [Hn | Hn].
  { destruct (load_chunk_name_short (blen (enc_chunk k)) s1 _ _ _ _ _ _ sk Htop1) as (s2 & Hl); try assumption.
    - rewrite blen_firstn.
      + unfold blen. lia.
      + rewrite !app_length, u64_length. lia.
    - eapply Herr; [exact Hl | discriminate]. }
  rewrite (app_assoc (k_comp k)), firstn_app_ge in Htop1 by (rewrite app_length, u64_length; exact Hn).
  rewrite <- app_assoc in Htop1. rewrite app_length, u64_length in Htop1.
  set (j3 := (j2 - (length (k_comp k) + 8))%nat) in *.
  assert (Hj3 : (j3 < length (k_records k))%nat) by (unfold j3, j2, j1; lia).
  set (X := firstn j3 (k_records k)) in *.
  assert (HX : blen X < blen (k_records k)) by (unfold X; rewrite blen_firstn by lia; unfold blen; lia).
  destruct (load_chunk_eq lo ds (blen (enc_chunk k)) s1 _ _ _ _ _ _ X None sk Htop1) as (s' & [Hc' Hb'] & Hload); try assumption.
  rewrite (take_ge _ X), (drop_ge _ X) in * by lia.
  replace (if blen (k_records k) <=? blen X then None else None) with (@None err) in Hload by (destruct (_ <=? _); reflexivity).
  destruct (chunk_stream_prefix _ _ _ j3 Hcodec Wstream Hj3) as (n & pe & Hcs & Hpe). fold X in Hcs.
  rewrite Hcs in Hload. cbv zeta in Hload. cbn [fst snd] in Hload.
  destruct (lo_validate lo) eqn:Hv.
  - (* validating *)
    destruct (Wval eq_refl) as (V1 & V2 & V3).
    destruct (finish_chunk_val lo s' (rd X None sk) (k_usize k) (k_crc k) (k_comp k) (firstn n (frames inner)) pe Hv V2 V1)
      as (s'' & Hin & Hfin).
    rewrite Hfin in Hload. rewrite Hb' in Hin.
    destruct (Nat.lt_ge_cases n (length (frames inner))) as [Hn' | Hn'].
    + destruct (check_part_short s'' (rd X None sk) (k_usize k) (k_crc k) (k_comp k) (firstn n (frames inner)) pe) as (s3 & Hcp).
      { rewrite blen_firstn by lia. rewrite Wus. unfold blen. lia. }
      rewrite Hcp in Hload. eapply Herr; [exact Hload|].
      destruct pe as [e|]; cbn [short_err]; [congruence | destruct (firstn n (frames inner)); discriminate].
    + rewrite firstn_all2 in * by exact Hn'.
      assert (Hgood : (is_lz4 (k_comp k) = true -> pe = None) ->
                runs lo ds fuel (S (S (length inner)) + 1) s tot (stops_within tot (concat (map rec_events inner)))).
      { intro Hlzok.
        replace (rd (frames inner) pe false) with (rd (frames inner ++ []) pe false) in Hload by (rewrite app_nil_r; reflexivity).
        destruct (check_part_ok lo s'' _ _ (rd X None sk) (k_usize k) (k_crc k) (k_comp k) (frames inner) [] pe Hin Wus)
          as (s3 & Hin3 & Hcp); auto.
        rewrite Hcp in Hload.
        assert (Hin3' : in_chunk s3 (rd (frames inner ++ []) None true) (rd [] None sk)).
        { rewrite app_nil_r. destruct (is_lazy lo (k_comp k)) eqn:Hl; [|exact Hin3].
          cbn [rd r_buf r_end r_seek] in Hin3. rewrite drop_ge in Hin3; [exact Hin3|].
          rewrite (lazy_len _ _ _ _ Hl Wstream V3 Wus). lia. }
        apply runs_mono with (R := S (length inner + 2)); [|lia].
        eapply (runs_silent lo ds _ _ s s3 tot []).
        { intros f evs. rewrite app_nil_r, Hhead. apply after_head_chunk_ok; assumption. }
        rewrite app_nil_r.
        eapply (run_inner lo ds fuel _ (rd [] None sk) None true []); try eassumption; [lia|].
        intros s4 Hin4.
        destruct (lex_next_pop lo ds 0 s4 _ _ Hin4) as (s5 & Htop5 & Hpop).
        eapply (runs_silent lo ds _ _ s4 s5 _ []).
        { intros f evs. rewrite app_nil_r. apply Hpop. }
        rewrite app_nil_r.
        eapply runs_weaken; [|eapply run_top_short with (b := []); [exact Htop5 | reflexivity]].
        intros r (fin & st & ->). exists (concat (map rec_events inner)), fin, st. split; [reflexivity|].
        exists []. rewrite app_nil_r. reflexivity. }
      destruct (is_lz4 (k_comp k)) eqn:Hlz; [destruct pe as [e|]|].
      * destruct (check_part_lz4_bad s'' (rd X None sk) (k_usize k) (k_crc k) (k_comp k) (frames inner) e Hlz Wus) as (s3 & Hcp).
        rewrite Hcp in Hload. eapply Herr; [exact Hload | congruence].
      * apply Hgood. reflexivity.
      * apply Hgood. discriminate.
  - (* streaming *)
    destruct (finish_chunk_stream lo s' (rd X None sk) (k_usize k) (k_crc k) (k_comp k) (firstn n (frames inner)) pe Hv)
      as (s'' & Hin & Hfin).
    rewrite Hfin in Hload. rewrite Hb' in Hin.
    apply runs_mono with (R := S (length inner + 2)); [|lia].
    eapply (runs_silent lo ds _ _ s s'' tot []).
    { intros f evs. rewrite app_nil_r, Hhead. apply after_head_chunk_ok; assumption. }
    rewrite app_nil_r. apply (run_inner_cut fuel pe false sk inner n 1%nat s'' tot); try assumption. lia.
Qed.

(* ----- attachments cut ----- *)
Lemma rd_skip_short n b sk :
  blen b < n -> rd_skip n (rd b None sk) = (if sk then None else Some EEOF, rd [] None sk).
Proof.
  intro H. unfold rd_skip, rd. cbn [r_seek r_buf r_end]. destruct sk.
  - rewrite drop_ge by lia. reflexivity.
  - destruct (N.ltb_spec (blen b) n); [|lia]. reflexivity.
Qed.

Lemma sub_firstn (full : bytes) j off n : (off + n <= j)%nat -> sub (firstn j full) off n = sub full off n.
Proof.
  intro H. unfold sub. replace j with (off + (j - off))%nat by lia.
  rewrite <- firstn_skipn_comm, firstn_firstn. f_equal. lia.
Qed.

Lemma lim_read_cut_ok n (full : bytes) pe0 pe off x off' j :
  lim_read n (full, pe0) off = Ok (x, off') -> (off' <= j)%nat -> (j <= length full)%nat ->
  lim_read n (firstn j full, pe) off = Ok (x, off').
Proof.
  unfold lim_read. intros H Hj Hl.
  destruct (Nat.leb_spec (off + n) (length full)); [|discriminate]. inversion H; subst.
  rewrite firstn_length, Nat.min_l by exact Hl.
  destruct (Nat.leb_spec (off + n) j); [|lia]. rewrite sub_firstn by lia. reflexivity.
Qed.

Lemma lim_read_cut_fail n (full : bytes) pe0 off x off' j :
  lim_read n (full, pe0) off = Ok (x, off') -> (j < off')%nat -> (j <= length full)%nat ->
  exists e, lim_read n (firstn j full, None) off = Err e.
Proof.
  unfold lim_read. intros H Hj Hl.
  destruct (Nat.leb_spec (off + n) (length full)); [|discriminate]. inversion H; subst.
  rewrite firstn_length, Nat.min_l by exact Hl.
  destruct (Nat.leb_spec (off + n) j); [lia|]. eexists. reflexivity.
Qed.

Lemma lim_pstr_cut_ok (full : bytes) pe0 pe off x off' j :
  lim_pstr (full, pe0) off = Ok (x, off') -> (off' <= j)%nat -> (j <= length full)%nat ->
  lim_pstr (firstn j full, pe) off = Ok (x, off').
Proof.
  unfold lim_pstr. intros H Hj Hl.
  destruct (lim_read 4 (full, pe0) off) as [[lb off1]| | | |] eqn:E; try discriminate.
  assert (Hoff1 : (off1 = off + 4)%nat).
  { unfold lim_read in E. destruct (Nat.leb (off + 4) (length full)); inversion E; reflexivity. }
  destruct (N.leb_spec (N.of_nat off1 + unle lb) (blen full)); [|discriminate]. inversion H; subst x off'.
  rewrite (lim_read_cut_ok 4 full pe0 pe off lb off1 j E) by lia.
  rewrite blen_firstn by exact Hl.
  destruct (N.leb_spec (N.of_nat off1 + unle lb) (N.of_nat j)); [|lia].
  rewrite sub_firstn by lia. reflexivity.
Qed.

Lemma lim_pstr_cut_fail (full : bytes) pe0 off x off' j :
  lim_pstr (full, pe0) off = Ok (x, off') -> (j < off')%nat -> (j <= length full)%nat ->
  exists e, lim_pstr (firstn j full, None) off = Err e.
Proof.
  unfold lim_pstr. intros H Hj Hl.
  destruct (lim_read 4 (full, pe0) off) as [[lb off1]| | | |] eqn:E; try discriminate.
  destruct (N.leb_spec (N.of_nat off1 + unle lb) (blen full)); [|discriminate]. inversion H; subst x off'.
  destruct (Nat.lt_ge_cases j off1) as [Hc | Hc].
  - destruct (lim_read_cut_fail 4 full pe0 off lb off1 j E Hc Hl) as (e & ->). eexists. reflexivity.
  - rewrite (lim_read_cut_ok 4 full pe0 None off lb off1 j E Hc Hl).
    rewrite blen_firstn by exact Hl.
    destruct (N.leb_spec (N.of_nat off1 + unle lb) (N.of_nat j)); [lia|]. eexists. reflexivity.
Qed.

Definition att_o3 (a : attachment) : nat := (0 + 8 + 8 + 4 + length (a_name a))%nat.
Definition att_o4 (a : attachment) : nat := (att_o3 a + 4 + length (a_media a))%nat.
Definition att_o5 (a : attachment) : nat := (att_o4 a + 8)%nat.

Lemma att_parse_full a data crc :
  wf_attach_item lo a data crc ->
  let body := attach_body a data crc in
  lim_read 8 (body, None) 0 = Ok (u64 (a_log a), (0 + 8)%nat)
  /\ lim_read 8 (body, None) (0 + 8) = Ok (u64 (a_create a), (0 + 8 + 8)%nat)
  /\ lim_pstr (body, None) (0 + 8 + 8) = Ok (a_name a, att_o3 a)
  /\ lim_pstr (body, None) (att_o3 a) = Ok (a_media a, att_o4 a)
  /\ lim_read 8 (body, None) (att_o4 a) = Ok (u64 (a_size a), att_o5 a)
  /\ skipn (att_o5 a) body = data ++ u32 crc
  /\ att_o5 a = length (enc_attachment_fields a).
Proof.
  intros (W1 & W2 & W3 & W4 & W5 & W6 & W7 & _ & Wcb) body.
  assert (H : skipn 0 body = u64 (a_log a) ++ u64 (a_create a) ++ pstr (a_name a) ++ pstr (a_media a)
                             ++ u64 (a_size a) ++ data ++ u32 crc).
  { unfold body, attach_body, enc_attachment_fields. rewrite <- !app_assoc. reflexivity. }
  destruct (lim_read_step 8 body None _ _ _ H (u64_length _)) as [E1 S1]; [lia|].
  destruct (lim_read_step 8 body None _ _ _ S1 (u64_length _)) as [E2 S2]; [lia|].
  destruct (lim_pstr_step body None _ _ _ S2 W3) as [E3 S3].
  destruct (lim_pstr_step body None _ _ _ S3 W4) as [E4 S4].
  destruct (lim_read_step 8 body None _ _ _ S4 (u64_length _)) as [E5 S5]; [lia|].
  repeat split; try assumption.
  unfold att_o5, att_o4, att_o3, enc_attachment_fields.
  rewrite !app_length, !pstr_length, !u64_length. lia.
Qed.

Lemma do_attachment_cut a data crc j sk :
  wf_attach_item lo a data crc ->
  (j < length (attach_body a data crc))%nat ->
  exists ev e,
    do_attachment lo (blen (attach_body a data crc)) (rd (firstn j (attach_body a data crc)) None sk)
      = (ev, e, rd [] None sk)
    /\ match ev with
       | None => True
       | Some ev => exists c, ev = EvAttachment c /\ lo_cb lo = CbFull /\ att_cut c (attach_obs lo a data crc)
       end.
Proof.
  intros W Hj. pose proof (att_parse_full a data crc W) as (E1 & E2 & E3 & E4 & E5 & S5 & Ho5).
  pose proof W as (W1 & W2 & W3 & W4 & W5 & W6 & W7 & _ & Wcb).
  set (body := attach_body a data crc) in *.
  set (X := firstn j body).
  assert (HX : blen X < blen body) by (unfold X; rewrite blen_firstn by lia; unfold blen; lia).
  assert (Hlen : length body = (att_o5 a + length data + 4)%nat).
  { rewrite Ho5. unfold body, attach_body. rewrite !app_length, u32_length. lia. }
  unfold do_attachment. destruct Wcb as [Hcb | Hcb]; rewrite Hcb; cbv beta iota zeta.
  - rewrite rd_skip_short by exact HX. eexists; eexists; split; [reflexivity | exact I].
  - assert (Hlim : limited (blen body) (rd X None sk) = (X, None)).
    { unfold limited, rd. cbn [r_buf r_end]. destruct (N.leb_spec (blen body) (blen X)); [lia|]. reflexivity. }
    rewrite Hlim. cbn [fst snd].
    assert (Hjl : (j <= length body)%nat) by lia.
    destruct (Nat.lt_ge_cases j (att_o5 a)) as [Hshort | Hfields].
    + (* cut inside the fields: parseAttachmentReader fails *)
      assert (Hfail : exists e, (let* (lt, o1) := lim_read 8 (X, None) 0 in
                                 let* (ct, o2) := lim_read 8 (X, None) o1 in
                                 let* (name, o3) := lim_pstr (X, None) o2 in
                                 let* (media, o4) := lim_pstr (X, None) o3 in
                                 let* (ds0, o5) := lim_read 8 (X, None) o4 in
                                 Ok (unle lt, unle ct, name, media, unle ds0, o5)) = Err e).
      { unfold X.
        destruct (Nat.lt_ge_cases j (0 + 8)) as [C1 | C1].
        { destruct (lim_read_cut_fail _ _ _ _ _ _ j E1 C1 Hjl) as (e & ->). eexists; reflexivity. }
        rewrite (lim_read_cut_ok _ _ _ None _ _ _ j E1 C1 Hjl). cbn [bind].
        destruct (Nat.lt_ge_cases j (0 + 8 + 8)) as [C2 | C2].
        { destruct (lim_read_cut_fail _ _ _ _ _ _ j E2 C2 Hjl) as (e & ->). eexists; reflexivity. }
        rewrite (lim_read_cut_ok _ _ _ None _ _ _ j E2 C2 Hjl). cbn [bind].
        destruct (Nat.lt_ge_cases j (att_o3 a)) as [C3 | C3].
        { destruct (lim_pstr_cut_fail _ _ _ _ _ j E3 C3 Hjl) as (e & ->). eexists; reflexivity. }
        rewrite (lim_pstr_cut_ok _ _ None _ _ _ j E3 C3 Hjl). cbn [bind].
        destruct (Nat.lt_ge_cases j (att_o4 a)) as [C4 | C4].
        { destruct (lim_pstr_cut_fail _ _ _ _ _ j E4 C4 Hjl) as (e & ->). eexists; reflexivity. }
        rewrite (lim_pstr_cut_ok _ _ None _ _ _ j E4 C4 Hjl). cbn [bind].
        destruct (lim_read_cut_fail _ _ _ _ _ _ j E5 Hshort Hjl) as (e & ->). eexists; reflexivity. }
      destruct Hfail as (e & ->).
      rewrite drop_all. eexists; eexists; split; [reflexivity | exact I].
    + unfold X at 1 2 3 4 5.
      assert (C3 : (att_o3 a <= j)%nat) by (unfold att_o5, att_o4 in Hfields; lia).
      assert (C4 : (att_o4 a <= j)%nat) by (unfold att_o5 in Hfields; lia).
      rewrite (lim_read_cut_ok _ _ _ None _ _ _ j E1) by (unfold att_o3 in C3; lia). cbn [bind].
      rewrite (lim_read_cut_ok _ _ _ None _ _ _ j E2) by (unfold att_o3 in C3; lia). cbn [bind].
      rewrite (lim_pstr_cut_ok _ _ None _ _ _ j E3 C3 Hjl). cbn [bind].
      rewrite (lim_pstr_cut_ok _ _ None _ _ _ j E4 C4 Hjl). cbn [bind].
      rewrite (lim_read_cut_ok _ _ _ None _ _ _ j E5 Hfields Hjl). cbn [bind].
      assert (Hsz : a_size a < two63).
      { rewrite W5. unfold body, attach_body in W7. rewrite !blen_app in W7. lia. }
      rewrite !unle_u64 by (try assumption; unfold two63, two64 in *; lia).
      destruct (N.ltb_spec 9223372036854775807 (a_size a)); [unfold two63 in Hsz; lia|].
      assert (Hrest : skipn (att_o5 a) X = firstn (j - att_o5 a) (data ++ u32 crc)).
      { unfold X. replace j with (att_o5 a + (j - att_o5 a))%nat at 1 by lia.
        rewrite <- firstn_skipn_comm, S5. reflexivity. }
      rewrite Hrest.
      assert (HXlen : length X = j) by (unfold X; rewrite firstn_length; lia).
      destruct (Nat.lt_ge_cases (j - att_o5 a) (length data)) as [Hd | Hd].
      * (* cut inside the data *)
        rewrite firstn_app_lt by lia.
        set (got := firstn (j - att_o5 a) data).
        assert (Hgot : blen got < a_size a) by (unfold got; rewrite blen_firstn by lia; rewrite W5; unfold blen; lia).
        rewrite (take_ge (a_size a) got) by lia.
        destruct (N.ltb_spec (blen got) (a_size a)); [|lia].
        assert (Hpos : (att_o5 a + length got)%nat = j) by (unfold got; rewrite firstn_length; lia).
        rewrite Hpos. cbn [rd r_buf r_end r_seek].
        replace (skipn j X) with (@nil byte) by (symmetry; apply skipn_all2; lia).
        change {| r_buf := []; r_end := None; r_seek := sk |} with (rd [] None sk).
        rewrite rd_skip_short by (change (blen []) with 0; unfold blen in *; lia).
        eexists; eexists; split; [reflexivity|].
        eexists; split; [reflexivity|]. split; [reflexivity|].
        unfold att_cut, attach_obs. cbn. repeat split; try reflexivity.
        -- exists (skipn (j - att_o5 a) data). unfold got. symmetry. apply firstn_skipn.
        -- eexists; reflexivity.
      * (* the data is complete, the stored CRC is cut *)
        rewrite firstn_app_ge by exact Hd.
        rewrite W5, take_app_exact.
        rewrite N.ltb_irrefl.
        assert (Hcrcfail : exists e, lim_read 4 (X, None) (att_o5 a + length data) = Err e).
        { unfold lim_read. rewrite HXlen. destruct (Nat.leb_spec (att_o5 a + length data + 4) j); [lia|]. eexists; reflexivity. }
        destruct Hcrcfail as (e & ->).
        cbn [rd r_buf r_end r_seek fst]. rewrite HXlen.
        replace (skipn j X) with (@nil byte) by (symmetry; apply skipn_all2; lia).
        change {| r_buf := []; r_end := None; r_seek := sk |} with (rd [] None sk).
        rewrite rd_skip_short by (change (blen []) with 0; unfold blen in *; lia).
        eexists; eexists; split; [reflexivity|].
        eexists; split; [reflexivity|]. split; [reflexivity|].
        unfold att_cut, attach_obs. cbn. repeat split; try reflexivity.
        -- symmetry; exact W5.
        -- exists []. rewrite app_nil_r. reflexivity.
        -- eexists; reflexivity.
Qed.

Definition cut_result (tot full : list event) : lres -> Prop :=
  fun r => exists partial fin st, r = Ok (tot ++ partial, fin, st) /\ event_prefix partial full.

Lemma stops_within_cut_result tot full r : stops_within tot full r -> cut_result tot full r.
Proof. intros (p & fin & st & -> & Hp). exists p, fin, st. split; [reflexivity|]. left. exact Hp. Qed.
Lemma stops_cut_result tot full r : stops tot r -> cut_result tot full r.
Proof. intro H. apply stops_within_cut_result, stops_stops_within, H. Qed.

Lemma run_attach_cut fuel R s tot a data crc j sk :
  at_top s (rd (firstn j (frame OpAttachment (attach_body a data crc))) None sk) ->
  (j < length (frame OpAttachment (attach_body a data crc)))%nat ->
  wf_attach_item lo a data crc ->
  runs lo ds fuel (S R) s tot (cut_result tot (item_events lo ds (IAttach a data crc))).
Proof.
  intros Htop Hj W.
  pose proof W as (_ & _ & _ & _ & _ & _ & W7 & Wlen & _).
  set (body := attach_body a data crc) in *.
  rewrite frame_length in Hj.
  destruct (Nat.lt_ge_cases j 9) as [H9 | H9].
  { eapply runs_weaken; [apply stops_cut_result|].
    eapply run_top_short; [exact Htop|]. rewrite blen_firstn by (rewrite frame_length; lia). lia. }
  unfold frame in Htop. rewrite firstn_app_ge in Htop by (rewrite frame_head_length; exact H9).
  rewrite frame_head_length in Htop.
  set (j1 := (j - 9)%nat) in *.
  set (s1 := set_cur (rd (firstn j1 body) None sk) s).
  assert (Htop1 : at_top s1 (rd (firstn j1 body) None sk)) by (eapply at_top_set_cur; exact Htop).
  destruct (do_attachment_cut a data crc j1 sk W) as (ev & e & Hdo & Hev); [unfold j1; fold body; lia|].
  fold body in Hdo.
  set (s2 := set_cur (rd [] None sk) s1).
  assert (Htop2 : at_top s2 (rd [] None sk)) by (eapply at_top_set_cur; exact Htop1).
  set (new := match ev with Some ev => [ev] | None => [] end).
  assert (Hhead : forall f evs, lex_next lo ds (S f) 0 s evs =
            match e with Some e => Ok (evs ++ new, NErr e, s2) | None => lex_next lo ds f 0 s2 (evs ++ new) end).
  { intros f evs.
    rewrite (lex_next_head lo ds f 0 s evs OpAttachment (blen body) _ None sk (at_top_cur _ _ Htop))
      by (unfold two63, two64 in *; lia).
    fold s1. unfold after_head. unfold len_ok in Wlen. rewrite Wlen.
    change (Byte.eqb OpAttachment OpChunk) with false. cbn [andb]. rewrite byte_eqb_refl.
    destruct (N.ltb_spec 9223372036854775807 (blen body)); [unfold two63 in W7; lia|].
    rewrite (at_top_cur _ _ Htop1), Hdo. cbv beta iota zeta. fold s2. unfold new.
    destruct ev; [|rewrite app_nil_r]; reflexivity. }
  assert (Hnew : event_prefix new (item_events lo ds (IAttach a data crc))).
  { unfold new. destruct ev as [ev|].
    - destruct Hev as (c & -> & Hcb & Hcut). cbn [item_events]. rewrite Hcb.
      right. exists [], c, (attach_obs lo a data crc), []. split; [reflexivity|]. split; [reflexivity | exact Hcut].
    - left. eexists. reflexivity. }
  destruct e as [e|].
  - eapply (runs_end lo ds _ _ s s2 tot new e); [exact Hhead|].
    exists new, e, s2. split; [reflexivity | exact Hnew].
  - eapply (runs_silent lo ds _ _ s s2 tot new); [exact Hhead|].
    eapply runs_weaken; [|eapply run_top_short with (b := []); [exact Htop2 | reflexivity]].
    intros r (fin & st & ->). exists new, fin, st. split; [reflexivity | exact Hnew].
Qed.

Lemma run_item_cut fuel s tot it j sk :
  at_top s (rd (firstn j (render_item it)) None sk) -> (j < length (render_item it))%nat ->
  wf_item lo ds it -> codec_prefix_ok ds ->
  (item_steps lo ds it + 1 < fuel)%nat ->
  runs lo ds fuel (item_steps lo ds it + 1) s tot (cut_result tot (item_events lo ds it)).
Proof.
  intros Htop Hj W Hcodec Hfuel.
  destruct it as [|op body|k|a data crc|ss sos crc]; cbn [render_item] in *.
  - destruct W.
  - destruct W as (Hc & Ha & H0 & Hl & Hlim). cbn [fst snd] in *.
    eapply runs_weaken; [apply stops_cut_result|].
    eapply run_plain_cut_top; try eassumption. rewrite (byte_eqb_neq _ _ Hc). reflexivity.
  - destruct (lo_emit_chunks lo) eqn:Hemit.
    + destruct W as (Wk & Wlen & W). rewrite Hemit in W.
      eapply runs_weaken; [apply stops_cut_result|].
      eapply run_plain_cut_top; try eassumption; [rewrite Hemit; apply andb_false_r | discriminate].
    + eapply runs_weaken; [apply stops_within_cut_result|].
      eapply run_chunk_cut; eassumption.
  - cbn [item_steps Nat.add]. eapply run_attach_cut; eassumption.
  - destruct W as (W1 & W2 & W3 & Wlim).
    set (body := enc_footer _) in *.
    assert (Hb : blen body = 20).
    { unfold body, enc_footer, blen. rewrite !app_length, !u64_length, u32_length. reflexivity. }
    eapply runs_weaken; [apply stops_cut_result|].
    eapply run_plain_cut_top; try eassumption; try discriminate; try reflexivity.
Qed.

Definition cut_at (items : list item) (j : nat) (tot : list event) : lres -> Prop :=
  fun r => exists done it post partial fin st,
    items = done ++ it :: post
    /\ (length (render done) <= j < length (render (done ++ [it])))%nat
    /\ r = Ok (tot ++ file_events lo ds done ++ partial, fin, st)
    /\ event_prefix partial (item_events lo ds it).

Lemma run_items_cut fuel sk : codec_prefix_ok ds -> forall items j s tot,
  Forall (wf_item lo ds) items ->
  (j < length (render (items ++ [IMagic])))%nat ->
  at_top s (rd (firstn j (render (items ++ [IMagic]))) None sk) ->
  (file_steps lo ds items + 2 < fuel)%nat ->
  runs lo ds fuel (file_steps lo ds items + 2) s tot (cut_at (items ++ [IMagic]) j tot).
Proof.
  intros Hcodec. induction items as [|it items IH]; intros j s tot Hwf Hj Htop Hfuel.
  - cbn [app] in *. unfold render in Hj, Htop. cbn [map concat render_item] in Hj, Htop. rewrite app_nil_r in Hj, Htop.
    eapply runs_weaken; [|eapply run_top_short; [exact Htop|]].
    + intros r (fin & st & ->). exists [], IMagic, [], [], fin, st.
      split; [reflexivity|]. split; [|split; [rewrite app_nil_r; reflexivity | left; exists []; reflexivity]].
      split; [cbn; lia|]. unfold render. cbn [app map concat render_item]. rewrite app_nil_r. exact Hj.
    + rewrite blen_firstn by (cbn in *; lia). cbn in Hj. lia.
  - inversion Hwf as [|x l W Hwf']; subst x l.
    cbn [app] in *. change (render (it :: items ++ [IMagic])) with (render_item it ++ render (items ++ [IMagic])) in *.
    cbn [file_steps fold_right] in *. fold (file_steps lo ds items) in *.
    rewrite app_length in Hj.
    destruct (Nat.lt_ge_cases j (length (render_item it))) as [Hc | Hc].
    + rewrite firstn_app_lt in Htop by lia.
      apply runs_mono with (R := (item_steps lo ds it + 1)%nat); [|lia].
      eapply runs_weaken; [|eapply run_item_cut; try eassumption; lia].
      intros r (partial & fin & st & -> & Hp).
      exists [], it, (items ++ [IMagic]), partial, fin, st.
      split; [reflexivity|]. split; [|split; [reflexivity | exact Hp]].
      split; [cbn; lia|]. unfold render. cbn [app map concat]. rewrite app_nil_r. exact Hc.
    + rewrite firstn_app_ge in Htop by exact Hc.
      replace (item_steps lo ds it + file_steps lo ds items + 2)%nat
        with (item_steps lo ds it + (file_steps lo ds items + 2))%nat by lia.
      eapply run_item; try eassumption; [lia|].
      intros s' Htop'.
      eapply runs_weaken; [|eapply IH; try eassumption; lia].
      intros r (done & it' & post & partial & fin & st & Hsplit & Hrange & -> & Hp).
      exists (it :: done), it', post, partial, fin, st.
      split; [cbn [app]; rewrite Hsplit; reflexivity|]. split; [|split; [|exact Hp]].
      * change (render (it :: done)) with (render_item it ++ render done).
        change (render ((it :: done) ++ [it'])) with (render_item it ++ render (done ++ [it'])).
        rewrite !app_length. lia.
      * change (file_events lo ds (it :: done)) with (item_events lo ds it ++ file_events lo ds done).
        rewrite <- !app_assoc. reflexivity.
Qed.

Lemma event_prefix_ctx pre partial full post :
  event_prefix partial full -> event_prefix (pre ++ partial) (pre ++ full ++ post).
Proof.
  intros [(more & ->) | (common & c & f & more & -> & -> & Hcut)].
  - left. exists (more ++ post). rewrite <- !app_assoc. reflexivity.
  - right. exists (pre ++ common), c, f, (more ++ post). split; [rewrite app_assoc; reflexivity|].
    split; [|exact Hcut]. rewrite <- !app_assoc. reflexivity.
Qed.

(* where the cut falls and what is delivered: everything of the items before the cut item,
   then a (possibly cut) prefix of the events of the cut item *)
Definition cut_outcome (items : list item) (k : nat) (r : lres) : Prop :=
  exists done it post partial fin st,
    items = done ++ it :: post
    /\ (length (render done) <= k < length (render (done ++ [it])))%nat
    /\ r = Ok (file_events lo ds done ++ partial, fin, st)
    /\ event_prefix partial (item_events lo ds it).

Theorem C09_cut_thm items k sk :
  wf_file lo ds items -> codec_prefix_ok ds -> (k < length (render items))%nat ->
  forall fuel, (file_steps lo ds items + 3 <= fuel)%nat ->
  let r := lex_all lo ds fuel (src_of (firstn k (render items)) sk) in
  (lo_skip_magic lo = false /\ (k < 8)%nat /\ r = Err EBadMagic) \/ cut_outcome items k r.
Proof.
  intros (recs & -> & Hwf) Hcodec Hk fuel Hfuel r. subst r.
  rewrite render_app in *. rewrite !file_steps_app in Hfuel. change (file_steps lo ds [IMagic]) with 1%nat in Hfuel.
  set (R := render (recs ++ [IMagic])) in *.
  destruct (Nat.lt_ge_cases k (length (render (lead_magic lo)))) as [Hlead | Hlead].
  - left. unfold lead_magic in *. destruct (lo_skip_magic lo) eqn:Hskip; [cbn in Hlead; lia|].
    unfold render in Hlead. cbn [map concat render_item] in Hlead. rewrite app_nil_r in Hlead. cbn [length magic] in Hlead.
    split; [reflexivity|]. split; [exact Hlead|].
    unfold lex_all, new_lexer, src_of. rewrite Hskip.
    fold (rd (firstn k (render [IMagic] ++ R)) None sk).
    rewrite rd_full_short; [reflexivity|].
    rewrite blen_firstn by lia. lia.
  - right. rewrite firstn_app_ge by exact Hlead.
    destruct (new_lexer_ok lo (firstn (k - length (render (lead_magic lo))) R) sk) as (s & Htop & Hnew).
    set (k' := (k - length (render (lead_magic lo)))%nat) in *.
    rewrite app_length in Hk.
    apply (lex_all_runs lo ds fuel (file_steps lo ds recs + 2) s _ _ Hnew); [|lia].
    eapply runs_weaken; [|eapply (run_items_cut fuel sk Hcodec recs k' s []); try assumption; [unfold k'; fold R; lia | lia]].
    intros r (done & it & post & partial & fin & st & Hsplit & Hrange & -> & Hp).
    exists (lead_magic lo ++ done), it, post, partial, fin, st.
    split; [rewrite Hsplit, <- app_assoc; reflexivity|]. split; [|split; [|exact Hp]].
    + rewrite <- app_assoc, !render_app, !app_length in *. unfold k' in Hrange. lia.
    + rewrite file_events_app, lead_magic_events. reflexivity.
Qed.

Lemma app_eq_prefix {A} : forall (a b x y : list A),
  a ++ x = b ++ y -> (length a <= length b)%nat -> exists m, b = a ++ m.
Proof.
  induction a as [|h a IH]; intros b x y H L.
  - exists b. reflexivity.
  - destruct b as [|h' b]; cbn in L; [lia|]. cbn in H. inversion H; subst h'.
    destruct (IH b x y) as (m & ->); [assumption | lia|]. exists m. reflexivity.
Qed.

Theorem C09_lexer_thm items k sk :
  wf_file lo ds items -> codec_prefix_ok ds -> (k < length (render items))%nat ->
  forall fuel, (file_steps lo ds items + 3 <= fuel)%nat ->
  let r := lex_all lo ds fuel (src_of (firstn k (render items)) sk) in
  (lo_skip_magic lo = false /\ (k < 8)%nat /\ r = Err EBadMagic)
  \/ exists evs fin st,
       r = Ok (evs, fin, st)
       /\ event_prefix evs (file_events lo ds items)
       /\ (forall pre it post, items = pre ++ it :: post ->
             (length (render (pre ++ [it])) <= k)%nat ->
             is_prefix (file_events lo ds (pre ++ [it])) evs).
Proof.
  intros Hwf Hcodec Hk fuel Hfuel r.
  destruct (C09_cut_thm items k sk Hwf Hcodec Hk fuel Hfuel) as [Hbad | Hcut]; [left; exact Hbad|].
  right. destruct Hcut as (done & it & post & partial & fin & st & Hsplit & Hrange & Hr & Hp).
  exists (file_events lo ds done ++ partial), fin, st. split; [exact Hr|]. split.
  - rewrite Hsplit. change (done ++ it :: post) with (done ++ [it] ++ post).
    rewrite !file_events_app. change (file_events lo ds [it]) with (item_events lo ds it ++ []). rewrite app_nil_r.
    apply event_prefix_ctx. exact Hp.
  - intros pre it' post' Hsplit' Hlen.
    destruct (Nat.le_gt_cases (length (pre ++ [it'])) (length done)) as [Hc | Hc].
    + destruct (app_eq_prefix (pre ++ [it']) done post' (it :: post)) as (m & Hm).
      { rewrite <- app_assoc. cbn [app]. rewrite <- Hsplit', <- Hsplit. reflexivity. }
      { exact Hc. }
      rewrite Hm, (file_events_app lo ds (pre ++ [it']) m), <- app_assoc. eexists. reflexivity.
    + exfalso.
      destruct (app_eq_prefix (done ++ [it]) (pre ++ [it']) post post') as (m & Hm).
      { rewrite <- !app_assoc. cbn [app]. rewrite <- Hsplit', <- Hsplit. reflexivity. }
      { rewrite !app_length in *. cbn [length] in *. lia. }
      rewrite Hm, render_app, app_length in Hlen. lia.
Qed.
End Trunc.

(* ====================================================================== *)
(** * 6. events are only ever appended; Next never panics *)
Section Mono.
Variable lo : lopts.
Variable ds : doracle.

Lemma is_prefix_refl {A} (a : list A) : is_prefix a a.
Proof. exists []. rewrite app_nil_r. reflexivity. Qed.
Lemma is_prefix_trans {A} (a b c : list A) : is_prefix a b -> is_prefix b c -> is_prefix a c.
Proof. intros (m1 & ->) (m2 & ->). exists (m1 ++ m2). rewrite app_assoc. reflexivity. Qed.
Lemma is_prefix_app {A} (a m : list A) : is_prefix a (a ++ m).
Proof. exists m. reflexivity. Qed.

Definition extends (evs : list event) (r : outcome (list event * nres * lstate)) : Prop :=
  match r with
  | Ok (evs', _, _) => is_prefix evs evs'
  | OutOfFuel => True
  | _ => False
  end.

Lemma extends_weaken a b r : is_prefix a b -> extends b r -> extends a r.
Proof.
  intros H. destruct r as [[[evs' n] s]| | | |]; cbn; auto. intro H2. eapply is_prefix_trans; eassumption.
Qed.

Lemma lex_next_extends : forall f pcap s evs, extends evs (lex_next lo ds f pcap s evs).
Proof.
  induction f as [|f IH]; intros pcap s evs; [exact I|].
  cbn [lex_next]. destruct (rd_full 9 (cur s)) as [[hd e] r1]. destruct e as [e|].
  - destruct (_ && _); [apply IH|]. destruct (_ || _); [destruct (_ && _)|]; apply is_prefix_refl.
  - destruct (_ && _); [apply is_prefix_refl|].
    destruct (_ && _).
    { destruct (load_chunk _ _ _ _) as [[e|] s2]; [|apply IH]. destruct (_ && _); apply is_prefix_refl. }
    destruct (Byte.eqb _ OpAttachment).
    { destruct (_ <? _); [apply is_prefix_refl|].
      destruct (do_attachment _ _ _) as [[ev e] r2].
      destruct e as [e|]; destruct ev as [ev|]; cbn; try apply is_prefix_refl; try apply is_prefix_app; try apply IH.
      eapply extends_weaken; [|apply IH]. apply is_prefix_app. }
    assert (Hms : forall s1, (exists s1', (if pcap <? unle (skipn 1 hd) then make_safe (unle (skipn 1 hd)) s1 else Ok s1) = Ok s1')
                   \/ (exists e, (if pcap <? unle (skipn 1 hd) then make_safe (unle (skipn 1 hd)) s1 else Ok s1) = Err e)).
    { intro s1. destruct (pcap <? _); [|left; eexists; reflexivity]. unfold make_safe.
      destruct (_ <? max_int32); [left | right]; eexists; reflexivity. }
    destruct (Hms (set_cur r1 s)) as [(s1' & ->) | (e & ->)]; [|apply is_prefix_refl].
    destruct (rd_full _ (cur s1')) as [[body e] r2]. destruct e as [e|].
    + destruct e; apply is_prefix_refl.
    + destruct (known_op _); [apply is_prefix_refl|]. destruct (Byte.eqb _ x00); [apply is_prefix_refl | apply IH].
Qed.

Definition lextends (acc : list event) (r : lres) : Prop :=
  match r with
  | Ok (evs, _, _) => is_prefix acc evs
  | OutOfFuel => True
  | _ => False
  end.

Lemma lex_loop_extends fuel : forall n s acc, lextends acc (lex_loop lo ds n fuel s acc).
Proof.
  induction n as [|n IH]; intros s acc; [exact I|].
  cbn [lex_loop]. pose proof (lex_next_extends fuel 0 s []) as H.
  destruct (lex_next lo ds fuel 0 s []) as [[[evs r] s']| | | |]; cbn in H; try contradiction; try exact I.
  destruct r as [ev | e].
  - specialize (IH s' (acc ++ evs ++ [ev])).
    destruct (lex_loop lo ds n fuel s' (acc ++ evs ++ [ev])) as [[[evs2 e2] st]| | | |]; cbn in *; auto.
    eapply is_prefix_trans; [|exact IH]. apply is_prefix_app.
  - cbn. apply is_prefix_app.
Qed.
End Mono.

(* ====================================================================== *)
(** * 7. damaged chunks and attachments (C07) *)
Section Damage.
Variable lo : lopts.
Variable ds : doracle.

Lemma lex_all_no_crash fuel src :
  match lex_all lo ds fuel src with
  | Ok _ | OutOfFuel | Err EBadMagic => True
  | _ => False
  end.
Proof.
  unfold lex_all, new_lexer. destruct (lo_skip_magic lo).
  - pose proof (lex_loop_extends lo ds fuel fuel {| lx_base := src; lx_chunk := None; lx_ubuf := 0; lx_bufcap := 32; lx_allocs := [] |} []) as H.
    destruct (lex_loop _ _ _ _ _ _) as [[[? ?] ?]| | | |]; cbn in H |- *; try exact I; contradiction.
  - destruct (rd_full 8 src) as [[m e] r1]. destruct e; [exact I|]. destruct (bytes_eqb m magic); [|exact I].
    match goal with |- match lex_loop lo ds fuel fuel ?s [] with _ => _ end =>
      pose proof (lex_loop_extends lo ds fuel fuel s []) as H; destruct (lex_loop lo ds fuel fuel s []) as [[[? ?] ?]| | | |] end;
      cbn in H |- *; try exact I; contradiction.
Qed.

(* decomposition of a well-formed file around one chunk *)
Lemma app_snoc_split {A} (recs a post : list A) x y :
  recs ++ [x] = a ++ y :: post -> y <> x -> exists post', post = post' ++ [x] /\ recs = a ++ y :: post'.
Proof.
  intros H Hne. destruct (exists_last (l := post)) as (post' & z & ->).
  - intros ->. change (a ++ [y]) with (a ++ [y]) in H. apply app_inj_tail in H. destruct H as [_ H]. congruence.
  - change (a ++ y :: post' ++ [z]) with (a ++ (y :: post') ++ [z]) in H. rewrite app_assoc in H.
    apply app_inj_tail in H. destruct H as [H1 H2]. subst z. exists post'. split; [reflexivity | exact H1].
Qed.

Lemma wf_file_split pre k post :
  wf_file lo ds (pre ++ IChunk k :: post) ->
  exists pre' post', pre = lead_magic lo ++ pre' /\ post = post' ++ [IMagic]
    /\ Forall (wf_item lo ds) pre' /\ wf_chunk_item lo ds k /\ Forall (wf_item lo ds) post'.
Proof.
  intros (recs & Heq & Hwf). unfold lead_magic in *.
  assert (Hgen : forall pre0, recs ++ [IMagic] = pre0 ++ IChunk k :: post ->
            exists post', post = post' ++ [IMagic] /\ Forall (wf_item lo ds) pre0 /\ wf_chunk_item lo ds k /\ Forall (wf_item lo ds) post').
  { intros pre0 H. destruct (app_snoc_split recs pre0 post IMagic (IChunk k) H) as (post' & -> & ->); [discriminate|].
    exists post'. split; [reflexivity|]. apply Forall_app in Hwf. destruct Hwf as [H1 H2].
    inversion H2; subst. auto. }
  destruct (lo_skip_magic lo).
  - cbn [app] in Heq. destruct (Hgen pre (eq_sym Heq)) as (post' & -> & H1 & H2 & H3).
    exists pre, post'. auto.
  - destruct pre as [|p pre0]; cbn [app] in Heq; [discriminate|]. inversion Heq; subst p.
    destruct (Hgen pre0 (eq_sym H1)) as (post' & -> & H2 & H3 & H4).
    exists pre0, post'. auto.
Qed.

Lemma check_part_crc_bad s c0 base b us crc comp data extra pend :
  in_chunk s c0 base -> us = blen data ->
  (is_lz4 comp = true -> extra = [] /\ pend = None) ->
  0 < crc -> crc32 data <> crc ->
  exists s', check_part lo s b us crc comp (rd (data ++ extra) pend false) = (Some EInvalidChunkCrc, s')
             /\ in_chunk s' (rd (if is_lz4 comp then [] else extra) pend false) base.
Proof.
  intros [Hc Hb] -> Hlz Hpos Hne. unfold check_part.
  rewrite rd_full_exact by reflexivity. cbv beta iota zeta. fold (is_lz4 comp).
  destruct (N.ltb_spec 0 crc); [|lia]. destruct (N.eqb_spec (crc32 data) crc); [contradiction|]. cbn [andb negb].
  destruct (is_lz4 comp).
  - destruct (Hlz eq_refl) as [-> ->]. cbn [rd r_buf r_end]. eexists; split; [reflexivity|]. split; cbn; auto.
  - eexists; split; [reflexivity|]. split; cbn; auto.
Qed.

Lemma with_records_blen k r : blen r = blen (k_records k) -> blen (enc_chunk (with_records k r)) = blen (enc_chunk k).
Proof. intro H. rewrite !enc_chunk_blen. cbn [with_records k_comp k_records]. lia. Qed.

(* reading the header of a chunk whose payload was replaced by one of the same length, with
   validation on: everything up to the check of the decompressed bytes *)
Lemma damaged_chunk_load s k recs' rest e sk :
  at_top s (rd (frame OpChunk (enc_chunk (with_records k recs')) ++ rest) e sk) ->
  wf_chunk_item lo ds k -> lo_emit_chunks lo = false -> lo_validate lo = true ->
  blen recs' = blen (k_records k) ->
  let rlen := blen (enc_chunk k) in
  let cs := chunk_stream lo ds (k_comp k) recs' None in
  exists s1 s'',
    (forall f evs, lex_next lo ds (S f) 0 s evs = after_head lo ds f 0 s1 evs OpChunk rlen)
    /\ in_chunk s'' (rd (fst cs) (snd cs) false) (rd rest e sk)
    /\ load_chunk lo ds rlen s1
       = check_part lo s'' (rd (recs' ++ rest) e sk) (k_usize k) (k_crc k) (k_comp k) (rd (fst cs) (snd cs) false).
Proof.
  intros Htop (Wk & Wlen & W) Hemit Hv Hlen rlen cs. rewrite Hemit in W.
  destruct W as (Wsup & Wneed & Wrecs & inner & Wstream & Wus & Winner & Wcrc & Wval).
  destruct (Wval Hv) as (V1 & V2 & V3).
  pose proof Wk as (_ & _ & Wu64 & Wc32 & Wcl & _).
  set (k' := with_records k recs') in *.
  assert (Hbl : blen (enc_chunk k') = rlen) by (apply with_records_blen; exact Hlen).
  assert (Hb64 : rlen < two64).
  { unfold rlen. rewrite enc_chunk_blen. unfold two63, two32, two64 in *. lia. }
  set (s1 := set_cur (rd (enc_chunk k' ++ rest) e sk) s).
  assert (Htop1 : at_top s1 (rd (enc_chunk k' ++ rest) e sk)) by (eapply at_top_set_cur; exact Htop).
  rewrite enc_chunk_split in Htop1. cbn [k' with_records k_start k_end k_usize k_crc k_comp k_records] in Htop1.
  destruct (load_chunk_eq lo ds rlen s1 _ _ _ _ _ _ _ _ _ Htop1) as (s' & [Hc' Hb'] & Hload); try assumption.
  { rewrite Hlen. exact Wrecs. }
  { unfold rlen. rewrite enc_chunk_blen. lia. }
  rewrite take_app_exact, drop_app_exact in *.
  rewrite blen_app in Hload. destruct (N.leb_spec (blen recs') (blen recs' + blen rest)); [|lia].
  fold cs in Hload. cbv zeta in Hload.
  destruct (finish_chunk_val lo s' (rd (recs' ++ rest) e sk) (k_usize k) (k_crc k) (k_comp k) (fst cs) (snd cs) Hv V2 V1)
    as (s'' & Hin & Hfin).
  exists s1, s''. split; [|split].
  - intros f evs. unfold frame in Htop. rewrite <- app_assoc in Htop. rewrite Hbl in Htop.
    apply (lex_next_head lo ds f 0 s evs OpChunk rlen _ e sk (at_top_cur _ _ Htop) Hb64).
  - rewrite Hb' in Hin. exact Hin.
  - rewrite Hload. exact Hfin.
Qed.

Lemma chunk_error_step s s1 rlen e s3 :
  (forall f evs, lex_next lo ds (S f) 0 s evs = after_head lo ds f 0 s1 evs OpChunk rlen) ->
  load_chunk lo ds rlen s1 = (Some e, s3) -> len_ok lo rlen -> lo_emit_chunks lo = false ->
  forall f evs, lex_next lo ds (S f) 0 s evs =
    if lo_emit_invalid lo && err_eqb e EInvalidChunkCrc then Ok (evs, NTok EvInvalidChunk, s3)
    else Ok (evs, NErr e, s3).
Proof.
  intros Hhead Hl Hlim Hemit f evs. rewrite Hhead. unfold after_head. unfold len_ok in Hlim.
  rewrite Hlim, Hemit, byte_eqb_refl, Hl. reflexivity.
Qed.

Lemma chunk_stream_none recs pend :
  mem_bytes [] (lo_custom lo) = false -> chunk_stream lo ds [] recs pend = (recs, pend).
Proof. intro H. unfold chunk_stream. rewrite H. reflexivity. Qed.

(* the rest of a file after a position at top level: items, trailing magic *)
Lemma run_tail fuel s tot post sk :
  Forall (wf_item lo ds) post ->
  at_top s (rd (render (post ++ [IMagic])) None sk) ->
  (file_steps lo ds post < fuel)%nat ->
  runs lo ds fuel (file_steps lo ds post) s tot (ends_with (tot ++ file_events lo ds post) EEOF).
Proof.
  intros Hwf Htop Hfuel. rewrite render_app in Htop.
  replace (file_steps lo ds post) with (file_steps lo ds post + 0)%nat by lia.
  apply run_items with (e := None) (sk := sk) (rest := render [IMagic]); try assumption; [lia|].
  intros s' Htop'. unfold render in Htop'. cbn [map concat render_item] in Htop'. rewrite app_nil_r in Htop'.
  destruct (lex_next_magic lo ds 0 s' sk Htop') as (s'' & Hend).
  eapply (runs_end lo ds _ _ s' s'' _ []).
  - intros f evs. rewrite app_nil_r. apply Hend.
  - rewrite app_nil_r. exists s''. reflexivity.
Qed.

Theorem C07_uncompressed_byte_thm pre k post p1 b b' p2 sk :
  wf_file lo ds (pre ++ IChunk k :: post) ->
  lo_validate lo = true -> lo_emit_chunks lo = false ->
  k_comp k = [] -> mem_bytes [] (lo_custom lo) = false -> k_crc k <> 0 ->
  k_records k = p1 ++ b :: p2 -> b <> b' ->
  let items' := pre ++ IChunk (with_records k (p1 ++ b' :: p2)) :: post in
  forall fuel, (file_steps lo ds (pre ++ IChunk k :: post) + 1 <= fuel)%nat ->
  exists st, lex_all lo ds fuel (src_of (render items') sk) =
    if lo_emit_invalid lo
    then Ok (file_events lo ds pre ++ EvInvalidChunk :: file_events lo ds post, EEOF, st)
    else Ok (file_events lo ds pre, EInvalidChunkCrc, st).
Proof.
  intros Hwf Hv Hemit Hcomp Hcust Hcrc Hrecs Hne items' fuel Hfuel.
  destruct (wf_file_split pre k post Hwf) as (pre' & post' & -> & -> & Hpre & Wk & Hpost).
  set (recs' := p1 ++ b' :: p2) in *.
  assert (Hlen : blen recs' = blen (k_records k)).
  { unfold recs'. rewrite Hrecs, !blen_app. unfold blen. cbn [length]. reflexivity. }
  pose proof Wk as (Wk0 & Wlen & W). rewrite Hemit in W.
  destruct W as (Wsup & Wneed & Wrecs & inner & Wstream & Wus & Winner & Wcrcs & Wval).
  rewrite Hcomp, chunk_stream_none in Wstream by exact Hcust. inversion Wstream as [Hplain].
  assert (Hsteps : item_steps lo ds (IChunk k) = (2 + length inner)%nat).
  { cbn [item_steps]. rewrite Hemit. f_equal. f_equal. apply chunk_inner_eq; [|exact Winner].
    rewrite Hcomp, chunk_stream_none by exact Hcust. rewrite Hplain. reflexivity. }
  rewrite !file_steps_app in Hfuel. cbn [file_steps fold_right] in Hfuel. fold (file_steps lo ds (post' ++ [IMagic])) in Hfuel.
  rewrite file_steps_app, Hsteps in Hfuel. change (file_steps lo ds [IMagic]) with 1%nat in Hfuel.
  unfold items'. rewrite <- app_assoc, render_app.
  destruct (new_lexer_ok lo (render (pre' ++ IChunk (with_records k recs') :: post' ++ [IMagic])) sk) as (s & Htop & Hnew).
  rewrite !file_events_app, lead_magic_events. cbn [app].
  change (file_events lo ds [IMagic]) with (@nil event). rewrite app_nil_r.
  set (P := fun r : lres => exists st, r = if lo_emit_invalid lo
              then Ok (file_events lo ds pre' ++ EvInvalidChunk :: file_events lo ds post', EEOF, st)
              else Ok (file_events lo ds pre', EInvalidChunkCrc, st)).
  apply (lex_all_runs lo ds fuel (file_steps lo ds pre' + (1 + (1 + file_steps lo ds post'))) s _ P Hnew); [|lia].
  rewrite render_app in Htop. change (render (IChunk (with_records k recs') :: post' ++ [IMagic]))
    with (frame OpChunk (enc_chunk (with_records k recs')) ++ render (post' ++ [IMagic])) in Htop.
  eapply run_items; try eassumption; [lia|].
  intros s0 Htop0. cbn [app].
  destruct (damaged_chunk_load s0 k recs' _ None sk Htop0 Wk Hemit Hv Hlen) as (s1 & s'' & Hhead & Hin & Hload).
  rewrite Hcomp, chunk_stream_none in Hin, Hload by exact Hcust. cbn [fst snd] in Hin, Hload.
  replace (rd recs' None false) with (rd (recs' ++ []) None false) in Hload by (rewrite app_nil_r; reflexivity).
  destruct (check_part_crc_bad s'' _ _ (rd (recs' ++ render (post' ++ [IMagic])) None sk) (k_usize k) (k_crc k) [] recs' [] None Hin)
    as (s3 & Hcp & Hin3).
  { rewrite Wus, <- Hplain. symmetry. exact Hlen. }
  { discriminate. }
  { lia. }
  { destruct Wcrcs as [Hz | Hc]; [contradiction|]. rewrite Hc, <- Hplain, Hrecs. unfold recs'.
    intro E. symmetry in E. revert E. apply crc_detects_byte_error. exact Hne. }
  rewrite Hcp in Hload.
  pose proof (chunk_error_step s0 s1 _ _ s3 Hhead Hload Wlen Hemit) as Hstep.
  unfold P. destruct (lo_emit_invalid lo); cbn [andb err_eqb] in Hstep.
  - eapply runs_token; [exact Hstep | lia |].
    change (is_lz4 []) with false in Hin3. cbv iota in Hin3.
    destruct (lex_next_pop lo ds 0 s3 _ _ Hin3) as (s4 & Htop4 & Hpop).
    eapply (runs_silent lo ds _ _ s3 s4 _ []).
    { intros f evs. rewrite app_nil_r. apply Hpop. }
    rewrite app_nil_r.
    eapply runs_weaken; [|apply run_tail with (sk := sk); try eassumption; lia].
    intros r (st & ->). exists st. rewrite <- app_assoc. reflexivity.
  - eapply (runs_end lo ds _ _ s0 s3 _ []).
    + intros f evs. rewrite app_nil_r. apply Hstep.
    + rewrite app_nil_r. exists s3. reflexivity.
Qed.

Lemma take_drop n (b : bytes) : take n b ++ drop n b = b.
Proof. unfold take, drop. apply firstn_skipn. Qed.
Lemma blen_take n (b : bytes) : n <= blen b -> blen (take n b) = n.
Proof. intro H. unfold take. rewrite N.min_l by exact H. unfold blen in *. rewrite firstn_length. lia. Qed.

Lemma check_part_cases s c0 base b us crc comp plain' pend' :
  in_chunk s c0 base -> 0 < crc ->
  (exists e s', check_part lo s b us crc comp (rd plain' pend' false) = (Some e, s')
                /\ (e = EEOF -> pend' = Some EEOF \/ (pend' = None /\ plain' = [])))
  \/ (exists data extra s',
        plain' = data ++ extra /\ us = blen data /\ crc32 data = crc
        /\ check_part lo s b us crc comp (rd plain' pend' false) = (None, s')
        /\ in_chunk s' (rd data None true)
             (if is_lazy lo comp then rd (drop (blen data) (r_buf b)) (r_end b) (r_seek b) else base)).
Proof.
  intros [Hc Hb] Hpos.
  destruct (N.ltb_spec (blen plain') us) as [Hs | Hs].
  { left. destruct (check_part_short lo s b us crc comp plain' pend' Hs) as (s' & E). eexists; eexists; split; [exact E|].
    destruct pend' as [pe|]; cbn [short_err]; [intros ->; left; reflexivity|].
    destruct plain'; [right; split; reflexivity | discriminate]. }
  set (data := take us plain'). set (extra := drop us plain').
  assert (Hsplit : plain' = data ++ extra) by (symmetry; apply take_drop).
  assert (Hus : us = blen data) by (symmetry; apply blen_take; exact Hs).
  rewrite Hsplit. unfold check_part. rewrite rd_full_exact by exact Hus. cbv beta iota zeta.
  fold (is_lz4 comp). fold (is_lazy lo comp). cbn [rd r_buf r_end].
  destruct (N.ltb_spec 0 crc); [|lia]. cbn [andb].
  assert (Hfin : forall s0 : lstate, lx_chunk s0 <> None -> lx_base s0 = base ->
     (exists e s', (if negb (crc32 data =? crc) then (Some EInvalidChunkCrc, s0)
        else (None, (if is_lazy lo comp then s0 <| lx_base := {| r_buf := drop (blen data) (r_buf b); r_end := r_end b; r_seek := r_seek b |} |> else s0)
                     <| lx_chunk := Some {| r_buf := data; r_end := None; r_seek := true |} |>)) = (Some e, s') /\ e <> EEOF)
     \/ (exists s', crc32 data = crc /\
          (if negb (crc32 data =? crc) then (Some EInvalidChunkCrc, s0)
        else (None, (if is_lazy lo comp then s0 <| lx_base := {| r_buf := drop (blen data) (r_buf b); r_end := r_end b; r_seek := r_seek b |} |> else s0)
                     <| lx_chunk := Some {| r_buf := data; r_end := None; r_seek := true |} |>)) = (None, s')
          /\ in_chunk s' (rd data None true)
             (if is_lazy lo comp then rd (drop (blen data) (r_buf b)) (r_end b) (r_seek b) else base))).
  { intros s0 _ Hb0. destruct (N.eqb_spec (crc32 data) crc) as [Ec | Ec]; cbn [negb].
    - right. eexists. split; [exact Ec|]. split; [reflexivity|].
      destruct (is_lazy lo comp); split; cbn; auto.
    - left. eexists; eexists; split; [reflexivity | discriminate]. }
  destruct (is_lz4 comp).
  - destruct extra as [|x extra]; destruct pend' as [pe|];
      try (left; eexists; eexists; split; [reflexivity|]; first [discriminate | intros ->; left; reflexivity]).
    destruct (Hfin (s <| lx_chunk := Some (rd [] None false) |> <| lx_chunk := Some {| r_buf := []; r_end := None; r_seek := false |} |>))
      as [(e & s' & E & Hne) | (s' & Ec & E & Hin)]; try (cbn; congruence); try (cbn; assumption).
    + left. exists e, s'. split; [exact E | intro; contradiction].
    + right. exists data, [], s'. repeat split; try assumption; apply Hin.
  - destruct (Hfin (s <| lx_chunk := Some (rd extra pend' false) |>))
      as [(e & s' & E & Hne) | (s' & Ec & E & Hin)]; try (cbn; congruence); try (cbn; assumption).
    + left. exists e, s'. split; [exact E | intro; contradiction].
    + right. exists data, extra, s'. repeat split; try assumption; apply Hin.
Qed.

Lemma runs_token_any fuel R s s' tot ev :
  (forall f evs, lex_next lo ds (S f) 0 s evs = Ok (evs, NTok ev, s')) ->
  runs lo ds fuel R s tot (lextends (tot ++ [ev])).
Proof.
  intros Hstep n f evs acc Hn Hf Ht. destruct f as [|f]; [lia|].
  unfold loop_from. rewrite Hstep. subst tot. rewrite <- app_assoc. apply lex_loop_extends.
Qed.

Theorem C07_chunk_general_thm pre k post recs' sk :
  wf_file lo ds (pre ++ IChunk k :: post) ->
  lo_validate lo = true -> lo_emit_chunks lo = false -> k_crc k <> 0 ->
  blen recs' = blen (k_records k) ->
  let items := pre ++ IChunk k :: post in
  let items' := pre ++ IChunk (with_records k recs') :: post in
  forall fuel, (file_steps lo ds items + 1 <= fuel)%nat ->
  let r := lex_all lo ds fuel (src_of (render items') sk) in
  (exists st, r = Ok (file_events lo ds items, EEOF, st))
  \/ (exists e st, r = Ok (file_events lo ds pre, e, st) /\ (e = EEOF -> codec_reports_eof lo ds k recs'))
  \/ (lo_emit_invalid lo = true /\ lextends (file_events lo ds pre ++ [EvInvalidChunk]) r)
  \/ crc_collision lo ds k recs'.
Proof.
  intros Hwf Hv Hemit Hcrc Hlen items items' fuel Hfuel r. subst r items items'.
  destruct (wf_file_split pre k post Hwf) as (pre' & post' & -> & -> & Hpre & Wk & Hpost).
  pose proof Wk as (Wk0 & Wlen & W). rewrite Hemit in W.
  destruct W as (Wsup & Wneed & Wrecs & inner & Wstream & Wus & Winner & Wcrcs & Wval).
  destruct (Wval Hv) as (V1 & V2 & V3).
  assert (Hinner : chunk_inner lo ds k = inner) by (apply chunk_inner_eq; assumption).
  assert (Hsteps : item_steps lo ds (IChunk k) = (2 + length inner)%nat).
  { cbn [item_steps]. rewrite Hemit, Hinner. reflexivity. }
  assert (Hevk : item_events lo ds (IChunk k) = concat (map rec_events inner)).
  { cbn [item_events]. rewrite Hemit, Hinner. reflexivity. }
  rewrite !file_steps_app in Hfuel. cbn [file_steps fold_right] in Hfuel. fold (file_steps lo ds (post' ++ [IMagic])) in Hfuel.
  rewrite file_steps_app, Hsteps in Hfuel. change (file_steps lo ds [IMagic]) with 1%nat in Hfuel.
  set (evpre := file_events lo ds pre').
  set (evall := evpre ++ concat (map rec_events inner) ++ file_events lo ds post').
  assert (E1 : file_events lo ds (lead_magic lo ++ pre') = evpre).
  { rewrite file_events_app, lead_magic_events. reflexivity. }
  assert (E2 : file_events lo ds ((lead_magic lo ++ pre') ++ IChunk k :: post' ++ [IMagic]) = evall).
  { rewrite file_events_app, E1. change (IChunk k :: post' ++ [IMagic]) with ([IChunk k] ++ post' ++ [IMagic]).
    rewrite !file_events_app. change (file_events lo ds [IMagic]) with (@nil event).
    change (file_events lo ds [IChunk k]) with (item_events lo ds (IChunk k) ++ []).
    rewrite Hevk, !app_nil_r. reflexivity. }
  rewrite E1, E2.
  set (rest := render (post' ++ [IMagic])).
  assert (E3 : render ((lead_magic lo ++ pre') ++ IChunk (with_records k recs') :: post' ++ [IMagic])
               = render (lead_magic lo) ++ render pre' ++ frame OpChunk (enc_chunk (with_records k recs')) ++ rest).
  { rewrite <- app_assoc, !render_app. reflexivity. }
  rewrite E3.
  destruct (new_lexer_ok lo (render pre' ++ frame OpChunk (enc_chunk (with_records k recs')) ++ rest) sk) as (s & Htop & Hnew).
  set (src := src_of _ sk) in *.
  set (P := fun r : lres =>
     (exists st, r = Ok (evall, EEOF, st))
     \/ (exists e st, r = Ok (evpre, e, st) /\ (e = EEOF -> codec_reports_eof lo ds k recs'))
     \/ (lo_emit_invalid lo = true /\ lextends (evpre ++ [EvInvalidChunk]) r)
     \/ crc_collision lo ds k recs').
  change (P (lex_all lo ds fuel src)).
  set (Rn := (file_steps lo ds pre' + (1 + (length inner + (1 + file_steps lo ds post'))))%nat).
  apply (lex_all_runs lo ds fuel Rn s src P Hnew); [|unfold Rn; lia].
  unfold Rn. eapply run_items with (e := None) (sk := sk); try eassumption; [lia|].
  intros s0 Htop0. cbn [app]. fold evpre.
  destruct (damaged_chunk_load s0 k recs' _ None sk Htop0 Wk Hemit Hv Hlen) as (s1 & s'' & Hhead & Hin & Hload).
  set (cs := chunk_stream lo ds (k_comp k) recs' None) in *.
  destruct (check_part_cases s'' _ _ (rd (recs' ++ rest) None sk) (k_usize k) (k_crc k) (k_comp k) (fst cs) (snd cs) Hin)
    as [(e & s3 & Hcp & Heof) | (data & extra & s3 & Hsplit & Husd & Hcrcd & Hcp & Hin3)]; [lia| |].
  - (* an error of loadChunk *)
    rewrite Hcp in Hload.
    pose proof (chunk_error_step s0 s1 _ _ s3 Hhead Hload Wlen Hemit) as Hstep.
    destruct (lo_emit_invalid lo && err_eqb e EInvalidChunkCrc) eqn:Hinv.
    + apply andb_true_iff in Hinv. destruct Hinv as [Hinv _].
      eapply runs_weaken; [|eapply runs_token_any; exact Hstep].
      intros r Hr. right. right. left. split; [exact Hinv | exact Hr].
    + eapply (runs_end lo ds _ _ s0 s3 _ [] e).
      * intros f evs. rewrite app_nil_r. apply Hstep.
      * rewrite app_nil_r. right. left. exists e, s3. split; [reflexivity|]. exact Heof.
  - (* the decompressed bytes pass the CRC check *)
    destruct (list_eq_dec Byte.byte_eq_dec data (frames inner)) as [Hsame | Hdiff].
    + (* same bytes: the read is identical *)
      subst data. rewrite Hcp in Hload.
      assert (Hin3' : in_chunk s3 (rd (frames inner ++ []) None true) (rd rest None sk)).
      { rewrite app_nil_r. destruct (is_lazy lo (k_comp k)) eqn:Hl; [|exact Hin3].
        cbn [rd r_buf r_end r_seek] in Hin3.
        rewrite (lazy_len lo ds _ _ _ _ Hl Wstream V3 Wus), <- Hlen, drop_app_exact in Hin3. exact Hin3. }
      eapply (runs_silent lo ds _ _ s0 s3 _ []).
      { intros f evs. rewrite app_nil_r, Hhead. apply after_head_chunk_ok; assumption. }
      rewrite app_nil_r.
      eapply (run_inner lo ds fuel _ (rd rest None sk) None true []); try eassumption; [lia|].
      intros s4 Hin4.
      destruct (lex_next_pop lo ds 0 s4 _ _ Hin4) as (s5 & Htop5 & Hpop).
      eapply (runs_silent lo ds _ _ s4 s5 _ []).
      { intros f evs. rewrite app_nil_r. apply Hpop. }
      rewrite app_nil_r.
      eapply runs_weaken; [|apply run_tail with (sk := sk); try eassumption; lia].
      intros r (st & ->). left. exists st. unfold evall. rewrite <- !app_assoc. reflexivity.
    + (* different bytes with the same length and CRC *)
      intros n f evs acc _ _ _. right. right. right.
      exists data, extra. unfold chunk_plain. rewrite Wstream. cbn [fst]. fold cs.
      split; [exact Hsplit|]. split; [exact Hdiff|]. split; [rewrite <- Husd; exact Wus|].
      destruct Wcrcs as [Hz | Hc]; [contradiction | rewrite Hcrcd; exact Hc].
Qed.

(* an altered attachment that still frames (no length prefix was hit): the callback sees a computed
   CRC that differs from the stored one *)
Theorem C07_attachment_thm pre a data a' data' post p1 b b' p2 sk :
  let crc := crc32 (enc_attachment_fields a ++ data) in
  wf_file lo ds (pre ++ IAttach a' data' crc :: post) ->
  lo_cb lo = CbFull -> lo_compute_acrc lo = true ->
  enc_attachment_fields a ++ data = p1 ++ b :: p2 ->
  enc_attachment_fields a' ++ data' = p1 ++ b' :: p2 ->
  b <> b' ->
  forall fuel, (file_steps lo ds (pre ++ IAttach a' data' crc :: post) + 1 <= fuel)%nat ->
  exists st ob c1 c2,
    lex_all lo ds fuel (src_of (render (pre ++ IAttach a' data' crc :: post)) sk)
      = Ok (file_events lo ds pre ++ EvAttachment ob :: file_events lo ds post, EEOF, st)
    /\ ao_name ob = a_name a' /\ ao_data ob = data'
    /\ ao_computed ob = Ok c1 /\ ao_parsed ob = Ok c2 /\ c1 <> c2.
Proof.
  intros crc Hwf Hcb Hacrc Hold Hnew Hne fuel Hfuel.
  destruct (lex_render_thm lo ds _ sk Hwf fuel Hfuel) as (st & Hr).
  exists st, (attach_obs lo a' data' crc), (crc32 (enc_attachment_fields a' ++ data')), crc.
  split.
  - rewrite Hr. change (pre ++ IAttach a' data' crc :: post) with (pre ++ [IAttach a' data' crc] ++ post).
    rewrite !file_events_app. unfold file_events at 2. cbn [map concat item_events]. rewrite Hcb. reflexivity.
  - unfold attach_obs. cbn [ao_name ao_data ao_computed ao_parsed]. rewrite Hacrc. repeat split.
    unfold crc. rewrite Hold, Hnew. intro E. symmetry in E. revert E. apply crc_detects_byte_error. exact Hne.
Qed.
End Damage.

(* ====================================================================== *)
(** * 8. one content byte of an attachment replaced *)
Section Flip.
Variable lo : lopts.
Variable ds : doracle.

Lemma wf_file_split_item pre it post :
  it <> IMagic ->
  wf_file lo ds (pre ++ it :: post) ->
  exists pre' post', pre = lead_magic lo ++ pre' /\ post = post' ++ [IMagic]
    /\ Forall (wf_item lo ds) pre' /\ wf_item lo ds it /\ Forall (wf_item lo ds) post'.
Proof.
  intros Hit (recs & Heq & Hwf). unfold lead_magic in *.
  assert (Hgen : forall pre0, recs ++ [IMagic] = pre0 ++ it :: post ->
            exists post', post = post' ++ [IMagic] /\ Forall (wf_item lo ds) pre0 /\ wf_item lo ds it /\ Forall (wf_item lo ds) post').
  { intros pre0 H. destruct (app_snoc_split recs pre0 post IMagic it H) as (post' & -> & ->); [exact Hit|].
    exists post'. split; [reflexivity|]. apply Forall_app in Hwf. destruct Hwf as [H1 H2].
    inversion H2; subst. auto. }
  destruct (lo_skip_magic lo).
  - cbn [app] in Heq. destruct (Hgen pre (eq_sym Heq)) as (post' & -> & H1 & H2 & H3).
    exists pre, post'. auto.
  - destruct pre as [|p pre0]; cbn [app] in Heq.
    + inversion Heq. congruence.
    + inversion Heq; subst p.
      destruct (Hgen pre0 (eq_sym H1)) as (post' & -> & H2 & H3 & H4).
      exists pre0, post'. auto.
Qed.

Lemma wf_file_replace pre it it' post :
  it <> IMagic -> wf_file lo ds (pre ++ it :: post) -> wf_item lo ds it' -> wf_file lo ds (pre ++ it' :: post).
Proof.
  intros Hit Hwf Hit'.
  destruct (wf_file_split_item pre it post Hit Hwf) as (pre' & post' & -> & -> & H1 & H2 & H3).
  exists (pre' ++ it' :: post'). split.
  - rewrite <- !app_assoc. reflexivity.
  - apply Forall_app. split; [exact H1|]. constructor; assumption.
Qed.

Lemma blen_flip (p1 p2 : bytes) x y : blen (p1 ++ y :: p2) = blen (p1 ++ x :: p2).
Proof. rewrite !blen_app. unfold blen. cbn [length]. reflexivity. Qed.

Lemma u64_unle_flip v q1 x y q2 : u64 v = q1 ++ x :: q2 -> u64 (unle (q1 ++ y :: q2)) = q1 ++ y :: q2.
Proof.
  intro H. assert (L : length (q1 ++ y :: q2) = 8%nat).
  { apply (f_equal (@length byte)) in H. rewrite u64_length in H. rewrite app_length in *. cbn [length] in *. lia. }
  unfold u64. rewrite <- L. apply le_unle.
Qed.

Lemma unle_flip_bound v q1 x y q2 : u64 v = q1 ++ x :: q2 -> unle (q1 ++ y :: q2) < two64.
Proof.
  intro H. assert (L : length (q1 ++ y :: q2) = 8%nat).
  { apply (f_equal (@length byte)) in H. rewrite u64_length in H. rewrite app_length in *. cbn [length] in *. lia. }
  pose proof (unle_bound (q1 ++ y :: q2)) as B. rewrite L in B. exact B.
Qed.

Lemma att_content_flip_spec a data a' data' crc :
  att_content_flip a data a' data' -> wf_attach_item lo a data crc ->
  wf_attach_item lo a' data' crc
  /\ exists p1 b b' p2,
       enc_attachment_fields a ++ data = p1 ++ b :: p2
       /\ enc_attachment_fields a' ++ data' = p1 ++ b' :: p2
       /\ b <> b'.
Proof.
  intros Hf (W1 & W2 & W3 & W4 & W5 & W6 & W7 & W8 & W9).
  assert (Hgoal : forall p1 b b' p2,
     enc_attachment_fields a ++ data = p1 ++ b :: p2 ->
     enc_attachment_fields a' ++ data' = p1 ++ b' :: p2 -> b <> b' ->
     a_log a' < two64 -> a_create a' < two64 -> blen (a_name a') < two32 -> blen (a_media a') < two32 ->
     a_size a' = blen data' ->
     wf_attach_item lo a' data' crc /\ exists p1 b b' p2,
       enc_attachment_fields a ++ data = p1 ++ b :: p2 /\ enc_attachment_fields a' ++ data' = p1 ++ b' :: p2 /\ b <> b').
  { intros p1 b b' p2 E1 E2 Hne G1 G2 G3 G4 G5.
    assert (Hbl : blen (attach_body a' data' crc) = blen (attach_body a data crc)).
    { unfold attach_body. rewrite !app_assoc, (blen_app (_ ++ data')), (blen_app (_ ++ data)), E1, E2, (blen_flip p1 p2 b b'). reflexivity. }
    split; [|exists p1, b, b', p2; auto].
    unfold wf_attach_item. rewrite Hbl. repeat split; assumption. }
  destruct Hf as [d1 x y d2 Hd Hne | n1 x y n2 Hn Hne | m1 x y m2 Hm Hne | q1 x y q2 Hq Hne | q1 x y q2 Hq Hne];
    unfold att_with, enc_attachment_fields; cbn [a_log a_create a_name a_media a_size].
  - subst data.
    apply (Hgoal (enc_attachment_fields a ++ d1) x y d2); unfold att_with; cbn [a_log a_create a_name a_media a_size]; try assumption.
    + rewrite <- app_assoc. reflexivity.
    + unfold enc_attachment_fields. cbn [a_log a_create a_name a_media a_size]. rewrite <- !app_assoc. reflexivity.
    + rewrite W5. symmetry. apply blen_flip.
  - apply (Hgoal (u64 (a_log a) ++ u64 (a_create a) ++ u32 (blen (a_name a)) ++ n1) x y
                 (n2 ++ pstr (a_media a) ++ u64 (a_size a) ++ data)); unfold att_with; cbn [a_log a_create a_name a_media a_size]; try assumption.
    + unfold enc_attachment_fields, pstr. rewrite Hn, <- !app_assoc. reflexivity.
    + unfold enc_attachment_fields, pstr. cbn [a_log a_create a_name a_media a_size].
      rewrite blen_flip with (x := x), <- Hn, <- !app_assoc. reflexivity.
    + rewrite blen_flip with (x := x), <- Hn. exact W3.
  - apply (Hgoal (u64 (a_log a) ++ u64 (a_create a) ++ pstr (a_name a) ++ u32 (blen (a_media a)) ++ m1) x y
                 (m2 ++ u64 (a_size a) ++ data)); unfold att_with; cbn [a_log a_create a_name a_media a_size]; try assumption.
    + unfold enc_attachment_fields. unfold pstr at 2. rewrite Hm, <- !app_assoc. reflexivity.
    + unfold enc_attachment_fields. cbn [a_log a_create a_name a_media a_size]. unfold pstr at 2.
      rewrite blen_flip with (x := x), <- Hm, <- !app_assoc. reflexivity.
    + rewrite blen_flip with (x := x), <- Hm. exact W4.
  - apply (Hgoal q1 x y (q2 ++ u64 (a_create a) ++ pstr (a_name a) ++ pstr (a_media a) ++ u64 (a_size a) ++ data));
      unfold att_with; cbn [a_log a_create a_name a_media a_size]; try assumption.
    + unfold enc_attachment_fields. rewrite Hq, <- !app_assoc. reflexivity.
    + unfold enc_attachment_fields. cbn [a_log a_create a_name a_media a_size].
      rewrite (u64_unle_flip _ _ _ _ _ Hq), <- !app_assoc. reflexivity.
    + apply (unle_flip_bound _ _ _ _ _ Hq).
  - apply (Hgoal (u64 (a_log a) ++ q1) x y (q2 ++ pstr (a_name a) ++ pstr (a_media a) ++ u64 (a_size a) ++ data));
      unfold att_with; cbn [a_log a_create a_name a_media a_size]; try assumption.
    + unfold enc_attachment_fields. rewrite Hq, <- !app_assoc. reflexivity.
    + unfold enc_attachment_fields. cbn [a_log a_create a_name a_media a_size].
      rewrite (u64_unle_flip _ _ _ _ _ Hq), <- !app_assoc. reflexivity.
    + apply (unle_flip_bound _ _ _ _ _ Hq).
Qed.

(* the damaged record is the original one with exactly one byte replaced, strictly between the
   9-byte record head and the 4-byte stored CRC *)
Lemma att_content_flip_render a data a' data' crc :
  att_content_flip a data a' data' -> wf_attach_item lo a data crc ->
  exists hd p1 b b' p2,
    render_item (IAttach a data crc) = hd ++ p1 ++ b :: p2 ++ u32 crc
    /\ render_item (IAttach a' data' crc) = hd ++ p1 ++ b' :: p2 ++ u32 crc
    /\ b <> b' /\ length hd = 9%nat.
Proof.
  intros Hf W. destruct (att_content_flip_spec a data a' data' crc Hf W) as (W' & p1 & b & b' & p2 & E1 & E2 & Hne).
  exists (frame_head OpAttachment (blen (attach_body a data crc))), p1, b, b', p2.
  assert (Hbl : blen (attach_body a' data' crc) = blen (attach_body a data crc)).
  { unfold attach_body. rewrite !app_assoc, (blen_app (_ ++ data')), (blen_app (_ ++ data)), E1, E2, (blen_flip p1 p2 b b'). reflexivity. }
  cbn [render_item]. fold (attach_body a data crc). fold (attach_body a' data' crc). unfold frame. rewrite Hbl.
  unfold attach_body.
  rewrite (app_assoc (enc_attachment_fields a) data), (app_assoc (enc_attachment_fields a') data'), E1, E2.
  rewrite <- !app_assoc. cbn [app].
  repeat split; try assumption; apply frame_head_length.
Qed.

Theorem C07_attachment_flip_thm pre a data a' data' post sk :
  let crc := crc32 (enc_attachment_fields a ++ data) in
  wf_file lo ds (pre ++ IAttach a data crc :: post) ->
  lo_cb lo = CbFull -> lo_compute_acrc lo = true ->
  att_content_flip a data a' data' ->
  forall fuel, (file_steps lo ds (pre ++ IAttach a data crc :: post) + 1 <= fuel)%nat ->
  exists st ob c1 c2,
    lex_all lo ds fuel (src_of (render (pre ++ IAttach a' data' crc :: post)) sk)
      = Ok (file_events lo ds pre ++ EvAttachment ob :: file_events lo ds post, EEOF, st)
    /\ ao_name ob = a_name a' /\ ao_data ob = data'
    /\ ao_computed ob = Ok c1 /\ ao_parsed ob = Ok c2 /\ c1 <> c2.
Proof.
  intros crc Hwf Hcb Hacrc Hf fuel Hfuel.
  assert (Hnm : IAttach a data crc <> IMagic) by discriminate.
  destruct (wf_file_split_item pre _ post Hnm Hwf) as (pre' & post' & Ep & Eq & H1 & W & H3).
  destruct (att_content_flip_spec a data a' data' crc Hf W) as (W' & p1 & b & b' & p2 & E1 & E2 & Hne).
  apply (C07_attachment_thm lo ds pre a data a' data' post p1 b b' p2 sk); try assumption.
  - apply (wf_file_replace pre (IAttach a data crc)); [discriminate | exact Hwf | exact W'].
  - rewrite file_steps_app in *. exact Hfuel.
Qed.

(* the stored CRC itself altered *)
Theorem C07_attachment_crc_thm pre a data crc' post sk :
  wf_file lo ds (pre ++ IAttach a data crc' :: post) ->
  lo_cb lo = CbFull -> lo_compute_acrc lo = true ->
  crc' <> crc32 (enc_attachment_fields a ++ data) ->
  forall fuel, (file_steps lo ds (pre ++ IAttach a data crc' :: post) + 1 <= fuel)%nat ->
  exists st ob c1 c2,
    lex_all lo ds fuel (src_of (render (pre ++ IAttach a data crc' :: post)) sk)
      = Ok (file_events lo ds pre ++ EvAttachment ob :: file_events lo ds post, EEOF, st)
    /\ ao_computed ob = Ok c1 /\ ao_parsed ob = Ok c2 /\ c1 <> c2.
Proof.
  intros Hwf Hcb Hacrc Hne fuel Hfuel.
  destruct (lex_render_thm lo ds _ sk Hwf fuel Hfuel) as (st & Hr).
  exists st, (attach_obs lo a data crc'), (crc32 (enc_attachment_fields a ++ data)), crc'.
  split.
  - rewrite Hr. change (pre ++ IAttach a data crc' :: post) with (pre ++ [IAttach a data crc'] ++ post).
    rewrite !file_events_app. unfold file_events at 2. cbn [map concat item_events]. rewrite Hcb. reflexivity.
  - unfold attach_obs. cbn [ao_computed ao_parsed]. rewrite Hacrc. repeat split. congruence.
Qed.
End Flip.

(* ====================================================================== *)
(** * 9. a small concrete file (non-vacuity of the theorems above) *)

(* the identity codec: only consulted for compressed chunks *)
Definition ds_id : doracle := fun _ avail pend => (avail, pend).

Definition ex_lopts (validate emit_invalid : bool) (cb : cbmode) : lopts :=
  {| lo_skip_magic := false; lo_validate := validate; lo_compute_acrc := true; lo_emit_chunks := false;
     lo_emit_invalid := emit_invalid; lo_max_record := 0; lo_max_chunk := 0; lo_cb := cb; lo_custom := [] |}.

Definition ex_m1 : bytes := enc_message {| m_chan := 1; m_seq := 2; m_log := 3; m_pub := 4; m_data := [x61; x62] |}.
Definition ex_m2 : bytes := enc_message {| m_chan := 1; m_seq := 3; m_log := 5; m_pub := 6; m_data := [] |}.
Definition ex_inner : list (byte * bytes) := [(OpMessage, ex_m1); (OpMessage, ex_m2)].
Definition ex_k : chunk :=
  {| k_start := 3; k_end := 5; k_usize := blen (frames ex_inner); k_crc := crc32 (frames ex_inner);
     k_comp := []; k_records := frames ex_inner |}.
Definition ex_att : attachment :=
  {| a_log := 7; a_create := 8; a_name := [x6e]; a_media := [x6d; x6d]; a_size := 3; a_data := [] |}.
Definition ex_adata : bytes := [x01; x02; x03].
Definition ex_acrc : N := crc32 (enc_attachment_fields ex_att ++ ex_adata).
Definition ex_pre : list item := [IMagic; IRec OpHeader (enc_header {| h_profile := []; h_library := [x6c] |})].
Definition ex_mid : list item := [IRec x81 [x00; x01]].
Definition ex_post : list item := [IRec OpDataEnd (u32 0); IFooter 0 0 0; IMagic].
Definition ex_items : list item := ex_pre ++ IChunk ex_k :: ex_mid ++ IAttach ex_att ex_adata ex_acrc :: ex_post.

Lemma ex_wf_chunk validate emit_invalid cb : wf_chunk_item (ex_lopts validate emit_invalid cb) ds_id ex_k.
Proof.
  split; [repeat split; reflexivity|]. split; [reflexivity|].
  cbn [lo_emit_chunks ex_lopts]. split; [reflexivity|]. split; [reflexivity|]. split; [reflexivity|].
  exists ex_inner. split; [reflexivity|]. split; [reflexivity|]. split.
  - repeat apply Forall_cons; try apply Forall_nil; (repeat split; try discriminate; reflexivity).
  - split; [right; reflexivity|]. intros _. split; [reflexivity|]. split; [reflexivity|]. discriminate.
Qed.

Lemma ex_wf_attach validate emit_invalid cb :
  cb = CbNone \/ cb = CbFull -> wf_attach_item (ex_lopts validate emit_invalid cb) ex_att ex_adata ex_acrc.
Proof.
  intro Hcb. unfold wf_attach_item. repeat split; try reflexivity; exact Hcb.
Qed.

Lemma ex_wf_file validate emit_invalid cb :
  cb = CbNone \/ cb = CbFull -> wf_file (ex_lopts validate emit_invalid cb) ds_id ex_items.
Proof.
  intro Hcb.
  exists [IRec OpHeader (enc_header {| h_profile := []; h_library := [x6c] |}); IChunk ex_k; IRec x81 [x00; x01];
          IAttach ex_att ex_adata ex_acrc; IRec OpDataEnd (u32 0); IFooter 0 0 0].
  split; [reflexivity|].
  repeat apply Forall_cons; try apply Forall_nil.
  - repeat split; try discriminate; reflexivity.
  - apply ex_wf_chunk.
  - repeat split; try discriminate; reflexivity.
  - apply ex_wf_attach, Hcb.
  - repeat split; try discriminate; reflexivity.
  - repeat split; reflexivity.
Qed.

Lemma ds_id_prefix_ok : codec_prefix_ok ds_id.
Proof.
  intros comp payload plain j H Hj. unfold ds_id in *. inversion H; subst.
  exists j, None. split; [reflexivity | discriminate].
Qed.

(* lex_render on the example, all four combinations of validate / callback, both source kinds *)
Example ex_lex_render :
  forall validate sk cb, cb = CbNone \/ cb = CbFull ->
  exists st, lex_all (ex_lopts validate false cb) ds_id 20 (src_of (render ex_items) sk)
             = Ok (file_events (ex_lopts validate false cb) ds_id ex_items, EEOF, st).
Proof.
  intros validate sk cb Hcb. apply lex_render_thm; [apply ex_wf_file, Hcb|].
  destruct Hcb as [-> | ->]; vm_compute; lia.
Qed.

Example ex_events :
  file_events (ex_lopts true false CbFull) ds_id ex_items =
  [EvToken OpHeader (enc_header {| h_profile := []; h_library := [x6c] |});
   EvToken OpMessage ex_m1; EvToken OpMessage ex_m2;
   EvAttachment (attach_obs (ex_lopts true false CbFull) ex_att ex_adata ex_acrc);
   EvToken OpDataEnd (u32 0);
   EvToken OpFooter (enc_footer {| f_summary_start := 0; f_summary_offset_start := 0; f_crc := 0 |})].
Proof. vm_compute. reflexivity. Qed.

(* C09: cut inside the second message of the chunk (streaming): header and first message are
   delivered, then the read stops with an error *)
Example ex_cut_in_chunk :
  exists st, lex_all (ex_lopts false false CbFull) ds_id 30 (src_of (firstn 120 (render ex_items)) false)
  = Ok ([EvToken OpHeader (enc_header {| h_profile := []; h_library := [x6c] |}); EvToken OpMessage ex_m1], ETruncated, st).
Proof. eexists. vm_compute. reflexivity. Qed.

(* the same cut with CRC validation: nothing of the incomplete chunk is delivered *)
Example ex_cut_in_chunk_validating :
  exists st, lex_all (ex_lopts true false CbFull) ds_id 30 (src_of (firstn 120 (render ex_items)) false)
  = Ok ([EvToken OpHeader (enc_header {| h_profile := []; h_library := [x6c] |})], EUnexpectedEOF, st).
Proof. eexists. vm_compute. reflexivity. Qed.

(* cut inside the attachment data: the callback sees 1 of 3 data bytes and both CRC accessors fail *)
Example ex_cut_in_attachment :
  exists st ob, lex_all (ex_lopts true false CbFull) ds_id 30 (src_of (firstn 195 (render ex_items)) false)
  = Ok ([EvToken OpHeader (enc_header {| h_profile := []; h_library := [x6c] |});
         EvToken OpMessage ex_m1; EvToken OpMessage ex_m2; EvAttachment ob], EEOF, st)
  /\ ao_data ob = [x01] /\ ao_size ob = 3 /\ ao_parsed ob = Err EOther /\ ao_computed ob = Err EOther.
Proof. eexists. eexists. split; [vm_compute; reflexivity|]. repeat split. Qed.

Example ex_C09_hyps :
  wf_file (ex_lopts false false CbFull) ds_id ex_items /\ codec_prefix_ok ds_id
  /\ (120 < length (render ex_items))%nat
  /\ (file_steps (ex_lopts false false CbFull) ds_id ex_items + 3 <= 30)%nat.
Proof. split; [apply ex_wf_file; right; reflexivity|]. split; [exact ds_id_prefix_ok|]. split; vm_compute; lia. Qed.

(* C07: one byte of the chunk payload replaced *)
Definition ex_p1 : bytes := firstn 10 (k_records ex_k).
Definition ex_b : byte := nth 10 (k_records ex_k) x00.
Definition ex_p2 : bytes := skipn 11 (k_records ex_k).
Definition ex_b' : byte := xff.
Definition ex_items_damaged : list item :=
  ex_pre ++ IChunk (with_records ex_k (ex_p1 ++ ex_b' :: ex_p2)) :: ex_mid ++ IAttach ex_att ex_adata ex_acrc :: ex_post.

Example ex_C07_chunk_hyps emit_invalid :
  wf_file (ex_lopts true emit_invalid CbFull) ds_id (ex_pre ++ IChunk ex_k :: ex_mid ++ IAttach ex_att ex_adata ex_acrc :: ex_post)
  /\ k_comp ex_k = [] /\ mem_bytes [] (lo_custom (ex_lopts true emit_invalid CbFull)) = false /\ k_crc ex_k <> 0
  /\ k_records ex_k = ex_p1 ++ ex_b :: ex_p2 /\ ex_b <> ex_b'
  /\ blen (ex_p1 ++ ex_b' :: ex_p2) = blen (k_records ex_k).
Proof.
  split; [apply (ex_wf_file true emit_invalid CbFull); right; reflexivity|].
  repeat split; try reflexivity; vm_compute; discriminate.
Qed.

Example ex_C07_chunk_error :
  exists st, lex_all (ex_lopts true false CbFull) ds_id 30 (src_of (render ex_items_damaged) false)
  = Ok ([EvToken OpHeader (enc_header {| h_profile := []; h_library := [x6c] |})], EInvalidChunkCrc, st).
Proof. eexists. vm_compute. reflexivity. Qed.

Example ex_C07_chunk_marker :
  exists st, lex_all (ex_lopts true true CbFull) ds_id 30 (src_of (render ex_items_damaged) false)
  = Ok ([EvToken OpHeader (enc_header {| h_profile := []; h_library := [x6c] |}); EvInvalidChunk;
         EvAttachment (attach_obs (ex_lopts true true CbFull) ex_att ex_adata ex_acrc);
         EvToken OpDataEnd (u32 0);
         EvToken OpFooter (enc_footer {| f_summary_start := 0; f_summary_offset_start := 0; f_crc := 0 |})], EEOF, st).
Proof. eexists. vm_compute. reflexivity. Qed.

(* without validation the same damage goes unnoticed by the lexer: the altered bytes are delivered *)
Example ex_C07_not_validating :
  exists st body, lex_all (ex_lopts false false CbNone) ds_id 30 (src_of (render ex_items_damaged) false)
  = Ok ([EvToken OpHeader (enc_header {| h_profile := []; h_library := [x6c] |});
         EvToken OpMessage body; EvToken OpMessage ex_m2;
         EvToken OpDataEnd (u32 0);
         EvToken OpFooter (enc_footer {| f_summary_start := 0; f_summary_offset_start := 0; f_crc := 0 |})], EEOF, st)
  /\ body <> ex_m1.
Proof. eexists. eexists. split; [vm_compute; reflexivity|]. vm_compute. discriminate. Qed.

(* C07: one data byte of the attachment replaced *)
Example ex_C07_attachment_hyps :
  wf_file (ex_lopts true false CbFull) ds_id ((ex_pre ++ IChunk ex_k :: ex_mid) ++ IAttach ex_att ex_adata ex_acrc :: ex_post)
  /\ ex_acrc = crc32 (enc_attachment_fields ex_att ++ ex_adata)
  /\ att_content_flip ex_att ex_adata (att_with ex_att (a_log ex_att) (a_create ex_att) (a_name ex_att) (a_media ex_att)) [x01; xff; x03].
Proof.
  split; [rewrite <- app_assoc; apply (ex_wf_file true false CbFull); right; reflexivity|].
  split; [reflexivity|].
  apply (ACF_data ex_att ex_adata [x01] x02 xff [x03]); [reflexivity | discriminate].
Qed.

Example ex_C07_attachment_mismatch :
  exists st ob c1 c2,
    lex_all (ex_lopts true false CbFull) ds_id 30
      (src_of (render ((ex_pre ++ IChunk ex_k :: ex_mid) ++ IAttach ex_att [x01; xff; x03] ex_acrc :: ex_post)) false)
    = Ok ([EvToken OpHeader (enc_header {| h_profile := []; h_library := [x6c] |});
           EvToken OpMessage ex_m1; EvToken OpMessage ex_m2; EvAttachment ob;
           EvToken OpDataEnd (u32 0);
           EvToken OpFooter (enc_footer {| f_summary_start := 0; f_summary_offset_start := 0; f_crc := 0 |})], EEOF, st)
    /\ ao_computed ob = Ok c1 /\ ao_parsed ob = Ok c2 /\ c1 <> c2.
Proof. eexists. eexists. eexists. eexists. split; [vm_compute; reflexivity|]. repeat split. vm_compute. discriminate. Qed.
