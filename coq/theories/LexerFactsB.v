(* LexerFactsB.v - what the lexer model returns on well-formed, truncated and damaged files
   (lex_render, C09, C07). *)
From Coq Require Import List NArith ZArith Lia ZifyN ZifyNat ZifyBool Bool.
From Coq.Strings Require Import Byte.
From RecordUpdate Require Import RecordSet.
From Mcap Require Import Bytes BytesFacts GoSem Crc32 Crc32Facts Records RecordsFacts Writer Lexer LexSpec.
Import ListNotations RecordSetNotations.
Open Scope N_scope.
Ltac Zify.zify_post_hook ::= Z.div_mod_to_equations.

(* ====================================================================== *)
(** * 1. readers *)

Definition rd (b : bytes) (e : option err) (sk : bool) : rdr := {| r_buf := b; r_end := e; r_seek := sk |}.

Lemma blen_app a b : blen (a ++ b) = blen a + blen b.
Proof. unfold blen. rewrite app_length. lia. Qed.

Lemma take_app_exact a r : take (blen a) (a ++ r) = a.
Proof.
  unfold take. rewrite blen_app, N.min_l by lia. unfold blen. rewrite Nat2N.id. apply firstn_app_exact.
Qed.
Lemma drop_app_exact a r : drop (blen a) (a ++ r) = r.
Proof.
  unfold drop. rewrite blen_app, N.min_l by lia. unfold blen. rewrite Nat2N.id. apply skipn_app_exact.
Qed.
Lemma take_ge n b : blen b <= n -> take n b = b.
Proof. intro H. unfold take. rewrite N.min_r by lia. unfold blen. rewrite Nat2N.id. apply firstn_all. Qed.
Lemma drop_ge n b : blen b <= n -> drop n b = [].
Proof. intro H. unfold drop. rewrite N.min_r by lia. unfold blen. rewrite Nat2N.id. apply skipn_all. Qed.
Lemma drop_0 b : drop 0 b = b.
Proof. unfold drop. rewrite N.min_l by lia. reflexivity. Qed.
Lemma take_all b : take (blen b) b = b.
Proof. apply take_ge. lia. Qed.
Lemma drop_all b : drop (blen b) b = [].
Proof. apply drop_ge. lia. Qed.

Lemma rd_full_exact n a rest e sk :
  n = blen a -> rd_full n (rd (a ++ rest) e sk) = (a, None, rd rest e sk).
Proof.
  intros ->. unfold rd_full, rd. cbn [r_buf r_end r_seek].
  destruct (N.eqb_spec (blen a) 0) as [E|E].
  - destruct a; [reflexivity | unfold blen in E; cbn [length] in E; lia].
  - rewrite blen_app. destruct (N.leb_spec (blen a) (blen a + blen rest)); [|lia].
    rewrite take_app_exact, drop_app_exact. reflexivity.
Qed.

Definition short_err (b : bytes) (e : option err) : err :=
  match e with
  | None => match b with [] => EEOF | _ => EUnexpectedEOF end
  | Some e => e
  end.

Lemma rd_full_short n b e sk :
  blen b < n -> rd_full n (rd b e sk) = (b, Some (short_err b e), rd [] e sk).
Proof.
  intro H. unfold rd_full, rd. cbn [r_buf r_end r_seek].
  destruct (N.eqb_spec n 0); [lia|].
  destruct (N.leb_spec n (blen b)); [lia|]. reflexivity.
Qed.

Lemma byte_eqb_refl b : Byte.eqb b b = true.
Proof. apply byte_eqb_eq. reflexivity. Qed.
Lemma byte_eqb_neq a b : a <> b -> Byte.eqb a b = false.
Proof. intro H. destruct (Byte.eqb a b) eqn:E; [|reflexivity]. apply byte_eqb_eq in E. contradiction. Qed.

Lemma frame_head_blen op n : blen (frame_head op n) = 9.
Proof. unfold blen, frame_head. cbn [length]. rewrite u64_length. reflexivity. Qed.

Lemma max_int32_lt_two64 n : n < max_int32 -> n < two64.
Proof. unfold max_int32, two64. lia. Qed.


(* ====================================================================== *)
(** * 2. one iteration of Lexer.Next *)

Section Steps.
Variable lo : lopts.
Variable ds : doracle.
Definition at_top (s : lstate) (b : rdr) : Prop := lx_chunk s = None /\ lx_base s = b.
Definition in_chunk (s : lstate) (c b : rdr) : Prop := lx_chunk s = Some c /\ lx_base s = b.

(* the part of Lexer.Next after a complete 9-byte record head (opcode op, length rlen) *)
Definition after_head (f : nat) (pcap : N) (s1 : lstate) (evs : list event) (op : byte) (rlen : N)
  : outcome (list event * nres * lstate) :=
  if (0 <? lo_max_record lo) && (lo_max_record lo <? rlen) then Ok (evs, NErr ERecordTooLarge, s1) else
  if Byte.eqb op OpChunk && negb (lo_emit_chunks lo) then
    match load_chunk lo ds rlen s1 with
    | (None, s2) => lex_next lo ds f pcap s2 evs
    | (Some e, s2) =>
      if lo_emit_invalid lo && err_eqb e EInvalidChunkCrc then Ok (evs, NTok EvInvalidChunk, s2)
      else Ok (evs, NErr e, s2)
    end
  else if Byte.eqb op OpAttachment then
    if 9223372036854775807 <? rlen then Ok (evs, NErr EOther, s1) else
    let '(ev, e, r2) := do_attachment lo rlen (cur s1) in
    let s2 := set_cur r2 s1 in
    let evs := match ev with Some ev => evs ++ [ev] | None => evs end in
    match e with
    | Some e => Ok (evs, NErr e, s2)
    | None => lex_next lo ds f pcap s2 evs
    end
  else
    match (if pcap <? rlen then make_safe rlen s1 else Ok s1) with
    | Err e => Ok (evs, NErr e, s1)
    | Panic p => Panic p | Exit p => Exit p | OutOfFuel => OutOfFuel
    | Ok s1 =>
      let '(body, e, r2) := rd_full rlen (cur s1) in
      let s2 := set_cur r2 s1 in
      match e with
      | Some EUnexpectedEOF => Ok (evs, NErr ETruncated, s2)
      | Some e => Ok (evs, NErr e, s2)
      | None =>
        if known_op op then Ok (evs, NTok (EvToken op body), s2)
        else if Byte.eqb op x00 then Ok (evs, NErr EInvalidZeroOpcode, s2)
        else lex_next lo ds f pcap s2 evs
      end
    end.

Lemma lex_next_head f pcap s evs op n rest e sk :
  cur s = rd (frame_head op n ++ rest) e sk -> n < two64 ->
  lex_next lo ds (S f) pcap s evs = after_head f pcap (set_cur (rd rest e sk) s) evs op n.
Proof.
  intros Hcur Hn. cbn [lex_next]. rewrite Hcur.
  rewrite (rd_full_exact 9 (frame_head op n)) by (symmetry; apply frame_head_blen).
  unfold frame_head. cbv beta iota zeta. cbn [skipn]. rewrite unle_u64 by exact Hn. reflexivity.
Qed.

(* the part of Lexer.Next when the 9-byte head cannot be read completely *)
Definition head_short (f : nat) (pcap : N) (s : lstate) (evs : list event) (hd : bytes) (e : err) (r1 : rdr)
  : outcome (list event * nres * lstate) :=
  let in_chunk := match lx_chunk s with Some _ => true | None => false end in
  let s1 := set_cur r1 s in
  let ueof := err_eqb e EUnexpectedEOF || err_eqb e ETruncated in
  let eof := err_eqb e EEOF in
  if in_chunk && (eof || ueof) then lex_next lo ds f pcap (s1 <| lx_chunk := None |>) evs
  else if ueof then
    if Nat.eqb (length hd) 8 && bytes_eqb hd magic then Ok (evs, NErr EEOF, s1)
    else Ok (evs, NErr ETruncated, s1)
  else Ok (evs, NErr e, s1).

Lemma lex_next_short f pcap s evs b e sk :
  cur s = rd b e sk -> blen b < 9 ->
  lex_next lo ds (S f) pcap s evs = head_short f pcap s evs b (short_err b e) (rd [] e sk).
Proof.
  intros Hcur Hb. cbn [lex_next]. rewrite Hcur, rd_full_short by exact Hb. reflexivity.
Qed.

Definition moved (s : lstate) (r : rdr) (s2 : lstate) : Prop :=
  match lx_chunk s with
  | None => lx_chunk s2 = None /\ lx_base s2 = r
  | Some _ => lx_chunk s2 = Some r /\ lx_base s2 = lx_base s
  end.

Lemma moved_set_cur s r : moved s r (set_cur r s).
Proof. unfold moved, set_cur. destruct (lx_chunk s) eqn:E; cbn; rewrite ?E; auto. Qed.
Lemma moved_cur s r s2 : moved s r s2 -> cur s2 = r.
Proof. unfold moved, cur. destruct (lx_chunk s); intros [E1 E2]; rewrite E1; auto. Qed.
Lemma moved_trans s r1 s1 r2 s2 : moved s r1 s1 -> moved s1 r2 s2 -> moved s r2 s2.
Proof. unfold moved. destruct (lx_chunk s); intros [E1 E2]; rewrite E1; intros [E3 E4]; split; congruence. Qed.
Lemma moved_allocs s r s2 al : moved s r s2 -> moved s r (s2 <| lx_allocs := al |>).
Proof. unfold moved. destruct (lx_chunk s); intros [E1 E2]; cbn; auto. Qed.
Lemma moved_top s b r s2 : at_top s b -> moved s r s2 -> at_top s2 r.
Proof. unfold at_top, moved. intros [-> _]. auto. Qed.
Lemma moved_in_chunk s c b r s2 : in_chunk s c b -> moved s r s2 -> in_chunk s2 r b.
Proof. unfold in_chunk, moved. intros [-> <-]. auto. Qed.

Lemma after_head_plain pcap s1 op body rest e sk :
  cur s1 = rd (body ++ rest) e sk ->
  Byte.eqb op OpChunk && negb (lo_emit_chunks lo) = false ->
  op <> OpAttachment -> op <> x00 ->
  blen body < max_int32 -> len_ok lo (blen body) ->
  exists s2, moved s1 (rd rest e sk) s2 /\ forall f evs,
    after_head f pcap s1 evs op (blen body) =
      if known_op op then Ok (evs, NTok (EvToken op body), s2) else lex_next lo ds f pcap s2 evs.
Proof.
  intros Hcur Hck Hat H0 Hlen Hlim.
  assert (Hms : exists s1', (if pcap <? blen body then make_safe (blen body) s1 else Ok s1) = Ok s1'
                        /\ moved s1 (rd (body ++ rest) e sk) s1').
  { destruct (pcap <? blen body).
    - unfold make_safe. destruct (N.ltb_spec (blen body) max_int32); [|lia].
      eexists; split; [reflexivity|]. apply moved_allocs. rewrite <- Hcur.
      unfold moved, cur. destruct (lx_chunk s1); auto.
    - exists s1. split; [reflexivity|]. rewrite <- Hcur. unfold moved, cur. destruct (lx_chunk s1); auto. }
  destruct Hms as (s1' & Hms & Hm).
  exists (set_cur (rd rest e sk) s1'). split.
  - eapply moved_trans; [exact Hm | apply moved_set_cur].
  - intros f evs. unfold after_head.
    unfold len_ok in Hlim. rewrite Hlim, Hck, (byte_eqb_neq _ _ Hat), Hms.
    rewrite (moved_cur _ _ _ Hm), rd_full_exact by reflexivity.
    cbv beta iota zeta. rewrite (byte_eqb_neq _ _ H0). reflexivity.
Qed.

Lemma lex_next_plain pcap s op body rest e sk :
  cur s = rd (frame op body ++ rest) e sk ->
  Byte.eqb op OpChunk && negb (lo_emit_chunks lo) = false ->
  op <> OpAttachment -> op <> x00 ->
  blen body < max_int32 -> len_ok lo (blen body) ->
  exists s2, moved s (rd rest e sk) s2 /\ forall f evs,
    lex_next lo ds (S f) pcap s evs =
      if known_op op then Ok (evs, NTok (EvToken op body), s2) else lex_next lo ds f pcap s2 evs.
Proof.
  intros Hcur Hck Hat H0 Hlen Hlim.
  unfold frame in Hcur. rewrite <- app_assoc in Hcur.
  set (s1 := set_cur (rd (body ++ rest) e sk) s).
  destruct (after_head_plain pcap s1 op body rest e sk) as (s2 & Hm & Heq); try assumption.
  { unfold s1. apply (moved_cur s). apply moved_set_cur. }
  exists s2. split.
  - eapply moved_trans; [apply moved_set_cur | exact Hm].
  - intros f evs. rewrite (lex_next_head f pcap s evs op (blen body) _ e sk Hcur) by (apply max_int32_lt_two64, Hlen).
    apply Heq.
Qed.

(* ----- loadChunk ----- *)
(* loadChunk is cut into three parts; load_chunk_head / payload_part_eq / finish_chunk_* show that the
   model's load_chunk is their composition *)

(* 3. validation, once the buffer for the decompressed chunk has been allocated (state s,
      chunk reader chunk_rdr installed, b = base reader in front of the payload) *)
Definition check_part (s : lstate) (b : rdr) (usize ucrc : N) (comp : bytes) (chunk_rdr : rdr)
  : option err * lstate :=
  let '(data, e, r1) := rd_full usize chunk_rdr in
  let lazy := bytes_eqb comp [] || mem_bytes comp (lo_custom lo) in
  let s := s <| lx_chunk := Some r1 |> in
  match e with
  | Some e => (Some e, s)
  | None =>
    let is_lz4 := bytes_eqb comp [x6c; x7a; x34] in
    let extra_bad := if is_lz4 then
                       match r_buf r1, r_end r1 with
                       | [], None => None
                       | _, Some e => Some e
                       | _ :: _, None => Some EOther
                       end
                     else None in
    let s := if is_lz4 then s <| lx_chunk := Some {| r_buf := []; r_end := r_end r1; r_seek := false |} |> else s in
    match extra_bad with
    | Some e => (Some e, s)
    | None =>
      if (0 <? ucrc) && negb (crc32 data =? ucrc) then (Some EInvalidChunkCrc, s)
      else
        let s := if lazy then s <| lx_base := {| r_buf := drop (blen data) (r_buf b); r_end := r_end b; r_seek := r_seek b |} |>
                 else s in
        (None, s <| lx_chunk := Some {| r_buf := data; r_end := None; r_seek := true |} |>)
    end
  end.

(* 2. the chunk reader delivering (plain, pend) is installed; s already has the base reader behind
      the payload *)
Definition finish_chunk (s : lstate) (b : rdr) (usize ucrc : N) (comp plain : bytes) (pend : option err)
  : option err * lstate :=
  let chunk_rdr := {| r_buf := plain; r_end := pend; r_seek := false |} in
  let s := s <| lx_chunk := Some chunk_rdr |> in
  if negb (lo_validate lo) then (None, s) else
  if (0 <? lo_max_chunk lo) && (lo_max_chunk lo <? usize) then (Some EChunkTooLarge, s) else
  match (if lx_ubuf s <? usize
         then (if max_int32 <? usize then Err ELengthOutOfRange
               else match make_safe (usize * 2) s with
                    | Ok s' => Ok (s' <| lx_ubuf := usize * 2 |>)
                    | Err e => Err e | Panic p => Panic p | Exit p => Exit p | OutOfFuel => OutOfFuel end)
         else Ok s) with
  | Err e => (Some e, s)
  | Panic _ | Exit _ | OutOfFuel => (Some EOther, s)
  | Ok s => check_part s b usize ucrc comp chunk_rdr
  end.

(* 1. after the chunk header (32 fixed bytes, compression name, records length) has been read *)
Definition payload_part (s : lstate) (usize ucrc : N) (comp : bytes) (rlen0 : N) : option err * lstate :=
  let rlen := if 9223372036854775807 <? rlen0 then 0 else rlen0 in
  let supported := mem_bytes comp (lo_custom lo) || bytes_eqb comp [] || bytes_eqb comp [x7a; x73; x74; x64]
                   || bytes_eqb comp [x6c; x7a; x34] in
  if negb supported then (Some EOther, s) else
  let b := lx_base s in
  let complete := rlen <=? blen (r_buf b) in
  let avail := take rlen (r_buf b) in
  let avail_end := if complete then None else r_end b in
  let b' := {| r_buf := drop rlen (r_buf b); r_end := r_end b; r_seek := r_seek b |} in
  let '(plain, pend) := if bytes_eqb comp [] && negb (mem_bytes comp (lo_custom lo))
                        then (avail, avail_end) else ds comp avail avail_end in
  finish_chunk (s <| lx_base := b' |>) b usize ucrc comp plain pend.

Definition chunk_fixed (st en us crc clen : N) : bytes := u64 st ++ u64 en ++ u64 us ++ u32 crc ++ u32 clen.

Lemma chunk_fixed_blen st en us crc clen : blen (chunk_fixed st en us crc clen) = 32.
Proof. unfold blen, chunk_fixed. rewrite !app_length, !u64_length, !u32_length. reflexivity. Qed.

Lemma chunk_fixed_usize st en us crc clen : us < two64 -> unle (sub (chunk_fixed st en us crc clen) 16 8) = us.
Proof.
  intro H. unfold chunk_fixed, sub.
  rewrite (app_assoc (u64 st)), skipn_app_exact' by (rewrite app_length, !u64_length; reflexivity).
  rewrite firstn_app_exact' by (rewrite u64_length; reflexivity). apply unle_u64, H.
Qed.
Lemma chunk_fixed_crc st en us crc clen : crc < two32 -> unle (sub (chunk_fixed st en us crc clen) 24 4) = crc.
Proof.
  intro H. unfold chunk_fixed, sub.
  rewrite (app_assoc (u64 st)), (app_assoc (u64 st ++ u64 en)), skipn_app_exact' by (rewrite !app_length, !u64_length; reflexivity).
  rewrite firstn_app_exact' by (rewrite u32_length; reflexivity). apply unle_u32, H.
Qed.
Lemma chunk_fixed_clen st en us crc clen : clen < two32 -> unle (sub (chunk_fixed st en us crc clen) 28 4) = clen.
Proof.
  intro H. unfold chunk_fixed, sub.
  rewrite (app_assoc (u64 st)), (app_assoc (u64 st ++ u64 en)), (app_assoc ((u64 st ++ u64 en) ++ u64 us)),
    skipn_app_exact' by (rewrite !app_length, !u64_length, u32_length; reflexivity).
  rewrite firstn_all2 by (rewrite u32_length; lia). apply unle_u32, H.
Qed.

Lemma load_chunk_head rlen s1 st en us crc comp rl X e sk :
  at_top s1 (rd (chunk_fixed st en us crc (blen comp) ++ comp ++ u64 rl ++ X) e sk) ->
  us < two64 -> crc < two32 -> blen comp < two32 -> rl < two64 ->
  blen comp + 8 < max_int32 -> 32 + (blen comp + 8) <= rlen ->
  exists s', at_top s' (rd X e sk) /\ load_chunk lo ds rlen s1 = payload_part s' us crc comp rl.
Proof.
  intros [Hc Hb] Hus Hcrc Hcomp Hrl Hneed Hrlen.
  unfold load_chunk. rewrite Hc, Hb.
  rewrite (rd_full_exact 32 (chunk_fixed st en us crc (blen comp))) by (symmetry; apply chunk_fixed_blen).
  cbv beta iota zeta.
  rewrite chunk_fixed_usize, chunk_fixed_crc, chunk_fixed_clen by assumption.
  destruct (N.ltb_spec rlen (32 + (blen comp + 8))); [lia|].
  set (s1a := s1 <| lx_base := rd (comp ++ u64 rl ++ X) e sk |>).
  assert (Hg : exists s1b, (if lx_bufcap s1a <? blen comp + 8 then make_safe (blen comp + 8) s1a else Ok s1a) = Ok s1b
               /\ at_top (if lx_bufcap s1a <? blen comp + 8 then s1b <| lx_bufcap := blen comp + 8 |> else s1b) (rd (comp ++ u64 rl ++ X) e sk)).
  { destruct (lx_bufcap s1a <? blen comp + 8).
    - unfold make_safe. destruct (N.ltb_spec (blen comp + 8) max_int32); [|lia].
      eexists; split; [reflexivity|]. split; cbn; auto.
    - exists s1a. split; [reflexivity|]. split; cbn; auto. }
  destruct Hg as (s1b & -> & [Hc2 Hb2]).
  set (s1c := if lx_bufcap s1a <? blen comp + 8 then _ else _) in *.
  rewrite Hb2.
  rewrite (app_assoc comp), (rd_full_exact (blen comp + 8) (comp ++ u64 rl))
    by (rewrite blen_app; f_equal; unfold blen; rewrite u64_length; reflexivity).
  cbv beta iota zeta.
  rewrite take_app_exact, drop_app_exact, unle_u64 by assumption.
  exists (s1c <| lx_base := rd X e sk |>). split; [split; cbn; auto | reflexivity].
Qed.


Lemma payload_part_eq s us crc comp rl X e sk :
  at_top s (rd X e sk) -> rl < two63 -> comp_supported lo comp = true ->
  exists s', at_top s' (rd (drop rl X) e sk) /\
    payload_part s us crc comp rl =
      let cs := chunk_stream lo ds comp (take rl X) (if rl <=? blen X then None else e) in
      finish_chunk s' (rd X e sk) us crc comp (fst cs) (snd cs).
Proof.
  intros [Hc Hb] Hrl Hsup. unfold payload_part.
  destruct (N.ltb_spec 9223372036854775807 rl); [unfold two63 in Hrl; lia|].
  unfold comp_supported in Hsup. rewrite Hsup. cbv beta iota zeta. cbn [negb].
  rewrite Hb. cbn [rd r_buf r_end r_seek].
  exists (s <| lx_base := rd (drop rl X) e sk |>). split; [split; cbn; auto|].
  unfold chunk_stream. destruct (if bytes_eqb comp [] && negb (mem_bytes comp (lo_custom lo)) then _ else _) as [p pe].
  reflexivity.
Qed.

Lemma finish_chunk_stream s b us crc comp plain pend :
  lo_validate lo = false ->
  exists s', in_chunk s' (rd plain pend false) (lx_base s) /\ finish_chunk s b us crc comp plain pend = (None, s').
Proof.
  intro Hv. unfold finish_chunk. rewrite Hv. cbn [negb]. cbv beta iota zeta.
  eexists; split; [|reflexivity]. split; cbn; auto.
Qed.

Lemma finish_chunk_val s b us crc comp plain pend :
  lo_validate lo = true ->
  ((0 <? lo_max_chunk lo) && (lo_max_chunk lo <? us)) = false ->
  2 * us < max_int32 ->
  exists s', in_chunk s' (rd plain pend false) (lx_base s) /\
     finish_chunk s b us crc comp plain pend = check_part s' b us crc comp (rd plain pend false).
Proof.
  intros Hv Hlim Hus. unfold finish_chunk. rewrite Hv, Hlim. cbn [negb]. cbv beta iota zeta.
  set (s0 := s <| lx_chunk := _ |>).
  destruct (lx_ubuf s0 <? us).
  - destruct (N.ltb_spec max_int32 us); [lia|]. unfold make_safe.
    destruct (N.ltb_spec (us * 2) max_int32); [|lia].
    eexists; split; [|reflexivity]. split; cbn; auto.
  - exists s0; split; [|reflexivity]. split; cbn; auto.
Qed.

Definition is_lz4 (comp : bytes) : bool := bytes_eqb comp [x6c; x7a; x34].
Definition is_lazy (comp : bytes) : bool := bytes_eqb comp [] || mem_bytes comp (lo_custom lo).

Lemma check_part_ok s c0 base b us crc comp data extra pend :
  in_chunk s c0 base -> us = blen data ->
  (is_lz4 comp = true -> extra = [] /\ pend = None) ->
  (crc = 0 \/ crc = crc32 data) ->
  exists s',
    in_chunk s' (rd data None true)
      (if is_lazy comp then rd (drop (blen data) (r_buf b)) (r_end b) (r_seek b) else base)
    /\ check_part s b us crc comp (rd (data ++ extra) pend false) = (None, s').
Proof.
  intros [Hc Hb] -> Hlz Hcrc. unfold check_part.
  rewrite rd_full_exact by reflexivity. cbv beta iota zeta.
  fold (is_lz4 comp). fold (is_lazy comp).
  assert (Hx : (0 <? crc) && negb (crc32 data =? crc) = false).
  { destruct Hcrc as [-> | ->]; [reflexivity|]. rewrite N.eqb_refl. apply andb_false_r. }
  rewrite Hx.
  destruct (is_lz4 comp).
  - destruct (Hlz eq_refl) as [-> ->]. cbn [rd r_buf r_end].
    destruct (is_lazy comp); eexists; (split; [|reflexivity]); split; cbn; auto.
  - destruct (is_lazy comp); eexists; (split; [|reflexivity]); split; cbn; auto.
Qed.

Lemma load_chunk_eq rlen s1 st en us crc comp rl X e sk :
  at_top s1 (rd (chunk_fixed st en us crc (blen comp) ++ comp ++ u64 rl ++ X) e sk) ->
  us < two64 -> crc < two32 -> blen comp < two32 -> rl < two63 ->
  blen comp + 8 < max_int32 -> 32 + (blen comp + 8) <= rlen ->
  comp_supported lo comp = true ->
  exists s', at_top s' (rd (drop rl X) e sk) /\
    load_chunk lo ds rlen s1 =
      let cs := chunk_stream lo ds comp (take rl X) (if rl <=? blen X then None else e) in
      finish_chunk s' (rd X e sk) us crc comp (fst cs) (snd cs).
Proof.
  intros Htop Hus Hcrc Hcomp Hrl Hneed Hrlen Hsup.
  destruct (load_chunk_head rlen s1 st en us crc comp rl X e sk) as (s' & Htop' & ->); try assumption.
  { unfold two63 in Hrl. unfold two64. lia. }
  apply payload_part_eq; assumption.
Qed.

Lemma enc_chunk_split k rest :
  enc_chunk k ++ rest =
  chunk_fixed (k_start k) (k_end k) (k_usize k) (k_crc k) (blen (k_comp k)) ++ k_comp k
    ++ u64 (blen (k_records k)) ++ k_records k ++ rest.
Proof. unfold enc_chunk, enc_chunk_top, chunk_fixed, pstr. rewrite <- !app_assoc. reflexivity. Qed.

Lemma enc_chunk_blen k : blen (enc_chunk k) = 32 + (blen (k_comp k) + 8) + blen (k_records k).
Proof.
  rewrite <- (app_nil_r (enc_chunk k)), enc_chunk_split, !blen_app, chunk_fixed_blen.
  replace (blen (u64 (blen (k_records k)))) with 8 by (unfold blen; rewrite u64_length; reflexivity).
  change (blen []) with 0. lia.
Qed.

(* a well-formed chunk: loadChunk installs a reader over the decompressed records *)
Lemma load_chunk_ok s1 k inner rest e sk :
  at_top s1 (rd (enc_chunk k ++ rest) e sk) ->
  wf_chunk k -> blen (k_records k) < two63 ->
  comp_supported lo (k_comp k) = true -> blen (k_comp k) + 8 < max_int32 ->
  chunk_stream lo ds (k_comp k) (k_records k) None = (frames inner, None) ->
  k_usize k = blen (frames inner) ->
  (k_crc k = 0 \/ k_crc k = crc32 (frames inner)) ->
  (lo_validate lo = true ->
     2 * k_usize k < max_int32
     /\ ((0 <? lo_max_chunk lo) && (lo_max_chunk lo <? k_usize k)) = false
     /\ (mem_bytes (k_comp k) (lo_custom lo) = true -> k_usize k = blen (k_records k))) ->
  exists s2, in_chunk s2 (rd (frames inner) None (lo_validate lo)) (rd rest e sk)
             /\ load_chunk lo ds (blen (enc_chunk k)) s1 = (None, s2).
Proof.
  intros Htop (W1 & W2 & W3 & W4 & W5 & W6) Hrecs Hsup Hneed Hstream Hus Hcrc Hval.
  rewrite enc_chunk_split in Htop.
  destruct (load_chunk_eq (blen (enc_chunk k)) s1 _ _ _ _ _ _ _ _ _ Htop) as (s' & [Hc' Hb'] & ->); try assumption.
  { rewrite enc_chunk_blen. lia. }
  rewrite take_app_exact, drop_app_exact in *.
  rewrite blen_app. destruct (N.leb_spec (blen (k_records k)) (blen (k_records k) + blen rest)); [|lia].
  rewrite Hstream. cbv zeta. cbn [fst snd].
  destruct (lo_validate lo) eqn:Hv.
  - destruct (Hval eq_refl) as (V1 & V2 & V3).
    destruct (finish_chunk_val s' (rd (k_records k ++ rest) e sk) (k_usize k) (k_crc k) (k_comp k) (frames inner) None Hv V2 V1)
      as (s'' & Hin & ->).
    replace (rd (frames inner) None false) with (rd (frames inner ++ []) None false) by (rewrite app_nil_r; reflexivity).
    destruct (check_part_ok s'' _ _ (rd (k_records k ++ rest) e sk) (k_usize k) (k_crc k) (k_comp k) (frames inner) [] None Hin Hus)
      as (s3 & Hin3 & ->); auto.
    exists s3. split; [|reflexivity].
    rewrite Hb' in Hin3. cbn [rd r_buf r_end r_seek] in Hin3.
    destruct (is_lazy (k_comp k)) eqn:Hl; [|exact Hin3].
    assert (Hlen : blen (frames inner) = blen (k_records k)).
    { unfold is_lazy in Hl. unfold chunk_stream in Hstream.
      destruct (mem_bytes (k_comp k) (lo_custom lo)) eqn:Hm.
      - rewrite <- Hus. apply V3. reflexivity.
      - rewrite orb_false_r in Hl. rewrite Hl in Hstream. cbn in Hstream. congruence. }
    rewrite Hlen, drop_app_exact in Hin3. exact Hin3.
  - destruct (finish_chunk_stream s' (rd (k_records k ++ rest) e sk) (k_usize k) (k_crc k) (k_comp k) (frames inner) None Hv)
      as (s'' & Hin & ->).
    exists s''. split; [|reflexivity]. rewrite Hb' in Hin. exact Hin.
Qed.

(* ----- attachments ----- *)
Lemma rd_skip_exact a rest e sk : rd_skip (blen a) (rd (a ++ rest) e sk) = (None, rd rest e sk).
Proof.
  unfold rd_skip, rd. cbn [r_seek r_buf r_end]. rewrite drop_app_exact.
  destruct sk; [reflexivity|]. rewrite blen_app.
  destruct (N.ltb_spec (blen a + blen rest) (blen a)); [lia|]. reflexivity.
Qed.

Lemma lim_read_step n (buf : bytes) en off (x : bytes) post :
  skipn off buf = x ++ post -> length x = n -> (0 < n)%nat ->
  lim_read n (buf, en) off = Ok (x, (off + n)%nat) /\ skipn (off + n) buf = post.
Proof.
  intros H Hn Hpos. pose proof (skipn_length_sub _ _ _ H) as L. rewrite app_length in L.
  split.
  - unfold lim_read. destruct (Nat.leb_spec (off + n) (length buf)); [|lia].
    unfold sub. rewrite H, firstn_app_exact' by (symmetry; exact Hn). reflexivity.
  - rewrite skipn_add, H. apply skipn_app_exact'. symmetry; exact Hn.
Qed.

Lemma lim_pstr_step (buf : bytes) en off (s : bytes) post :
  skipn off buf = pstr s ++ post -> blen s < two32 ->
  lim_pstr (buf, en) off = Ok (s, (off + 4 + length s)%nat) /\ skipn (off + 4 + length s) buf = post.
Proof.
  intros H Hs. unfold pstr in H. rewrite <- app_assoc in H.
  destruct (lim_read_step 4 buf en off (u32 (blen s)) (s ++ post) H (u32_length _)) as [E S4]; [lia|].
  pose proof (skipn_length_sub _ _ _ S4) as L. rewrite app_length in L.
  pose proof (skipn_length_sub _ _ _ H) as L0. rewrite !app_length, u32_length in L0.
  split.
  - unfold lim_pstr. rewrite E. rewrite unle_u32 by exact Hs.
    destruct (N.leb_spec (N.of_nat (off + 4) + blen s) (blen buf)); [|unfold blen in *; lia].
    unfold sub, blen. rewrite Nat2N.id, S4, firstn_app_exact. reflexivity.
  - rewrite skipn_add, S4. apply skipn_app_exact.
Qed.

Lemma do_attachment_ok a data crc rest e sk :
  wf_attach_item lo a data crc ->
  do_attachment lo (blen (attach_body a data crc)) (rd (attach_body a data crc ++ rest) e sk)
  = (match lo_cb lo with CbFull => Some (EvAttachment (attach_obs lo a data crc)) | _ => None end,
     None, rd rest e sk).
Proof.
  intros (W1 & W2 & W3 & W4 & W5 & W6 & W7 & _ & Wcb).
  unfold do_attachment. destruct Wcb as [Hcb | Hcb]; rewrite Hcb; cbv beta iota zeta.
  - rewrite rd_skip_exact. reflexivity.
  - set (body := attach_body a data crc).
    assert (Hlim : limited (blen body) (rd (body ++ rest) e sk) = (body, None)).
    { unfold limited, rd. cbn [r_buf r_end]. rewrite blen_app.
      destruct (N.leb_spec (blen body) (blen body + blen rest)); [|lia]. rewrite take_app_exact. reflexivity. }
    rewrite Hlim. cbn [fst snd].
    assert (H : skipn 0 body = u64 (a_log a) ++ u64 (a_create a) ++ pstr (a_name a) ++ pstr (a_media a)
                               ++ u64 (a_size a) ++ data ++ u32 crc).
    { unfold body, attach_body, enc_attachment_fields. rewrite <- !app_assoc. reflexivity. }
    destruct (lim_read_step 8 body None _ _ _ H (u64_length _)) as [E1 S1]; [lia|]. rewrite E1. cbn [bind].
    destruct (lim_read_step 8 body None _ _ _ S1 (u64_length _)) as [E2 S2]; [lia|]. rewrite E2. cbn [bind].
    destruct (lim_pstr_step body None _ _ _ S2 W3) as [E3 S3]. rewrite E3. cbn [bind].
    destruct (lim_pstr_step body None _ _ _ S3 W4) as [E4 S4]. rewrite E4. cbn [bind].
    destruct (lim_read_step 8 body None _ _ _ S4 (u64_length _)) as [E5 S5]; [lia|]. rewrite E5. cbn [bind].
    set (o5 := (0 + 8 + 8 + 4 + length (a_name a) + 4 + length (a_media a) + 8)%nat) in *.
    assert (Hsz : a_size a < two63).
    { rewrite W5. unfold body, attach_body in W7. rewrite !blen_app in W7. lia. }
    rewrite !unle_u64 by (try assumption; unfold two63, two64 in *; lia).
    destruct (N.ltb_spec 9223372036854775807 (a_size a)); [unfold two63 in Hsz; lia|].
    rewrite S5. rewrite W5, take_app_exact.
    rewrite N.ltb_irrefl.
    assert (Ho5 : (o5 + length data)%nat = length (enc_attachment_fields a ++ data)).
    { pose proof (skipn_length_sub _ _ _ S5) as L. rewrite app_length, u32_length in L.
      unfold body, attach_body in L. rewrite !app_length, u32_length in L. rewrite app_length. lia. }
    rewrite Ho5.
    assert (S6 : skipn (length (enc_attachment_fields a ++ data)) body = u32 crc ++ []).
    { unfold body, attach_body. rewrite app_assoc, app_nil_r. apply skipn_app_exact. }
    destruct (lim_read_step 4 body None _ _ _ S6 (u32_length _)) as [E6 _]; [lia|]. rewrite E6.
    rewrite unle_u32 by exact W6.
    replace (firstn (length (enc_attachment_fields a ++ data)) body) with (enc_attachment_fields a ++ data)
      by (unfold body, attach_body; rewrite app_assoc, firstn_app_exact; reflexivity).
    assert (Hcons : (length (enc_attachment_fields a ++ data) + 4)%nat = length body).
    { unfold body, attach_body. rewrite (app_assoc _ data), (app_length _ (u32 crc)), u32_length. reflexivity. }
    rewrite Hcons. cbn [rd r_buf r_end r_seek]. rewrite skipn_app_exact.
    replace (blen body - N.of_nat (length body)) with (blen []) by (unfold blen; cbn [length]; lia).
    change (rd_skip (blen []) {| r_buf := rest; r_end := e; r_seek := sk |}) with (rd_skip (blen []) (rd ([] ++ rest) e sk)).
    rewrite rd_skip_exact.
    unfold attach_obs. rewrite <- W5. reflexivity.
Qed.

(* ====================================================================== *)
(** * 3. driving Next: lex_loop *)

Definition lres := outcome (list event * err * lstate).

(* lex_loop entered in the middle of a call of Next: inner fuel f, events evs already collected by
   this call, acc collected by earlier calls *)
Definition loop_from (n fuel f : nat) (s : lstate) (evs acc : list event) : lres :=
  match lex_next lo ds f 0 s evs with
  | Ok (evs', NTok ev, s') => lex_loop lo ds n fuel s' (acc ++ evs' ++ [ev])
  | Ok (evs', NErr e, s') => Ok (acc ++ evs', e, s')
  | Err e => Err e
  | Panic p => Panic p | Exit p => Exit p | OutOfFuel => OutOfFuel
  end.

Lemma lex_loop_S n fuel s acc : lex_loop lo ds (S n) fuel s acc = loop_from n fuel fuel s [] acc.
Proof. reflexivity. Qed.

(* from state s with the events tot delivered so far, R more iterations are enough, and the final
   result satisfies P *)
Definition runs (fuel R : nat) (s : lstate) (tot : list event) (P : lres -> Prop) : Prop :=
  forall n f evs acc, (R < n)%nat -> (R < f)%nat -> tot = acc ++ evs -> P (loop_from n fuel f s evs acc).

Lemma runs_mono fuel R R' s tot P : runs fuel R s tot P -> (R <= R')%nat -> runs fuel R' s tot P.
Proof. intros H L n f evs acc Hn Hf Ht. apply H; try lia; exact Ht. Qed.

Lemma runs_silent fuel R s s' tot new P :
  (forall f evs, lex_next lo ds (S f) 0 s evs = lex_next lo ds f 0 s' (evs ++ new)) ->
  runs fuel R s' (tot ++ new) P -> runs fuel (S R) s tot P.
Proof.
  intros Hstep H n f evs acc Hn Hf Ht. destruct f as [|f]; [lia|].
  unfold loop_from. rewrite Hstep.
  apply (H n f (evs ++ new) acc); try lia. rewrite Ht, app_assoc. reflexivity.
Qed.

Lemma runs_token fuel R s s' tot ev P :
  (forall f evs, lex_next lo ds (S f) 0 s evs = Ok (evs, NTok ev, s')) ->
  (R < fuel)%nat ->
  runs fuel R s' (tot ++ [ev]) P -> runs fuel (S R) s tot P.
Proof.
  intros Hstep Hfuel H n f evs acc Hn Hf Ht. destruct f as [|f]; [lia|]. destruct n as [|n]; [lia|].
  unfold loop_from. rewrite Hstep, lex_loop_S.
  apply (H n fuel [] (acc ++ evs ++ [ev])); try lia. rewrite Ht, app_nil_r, app_assoc. reflexivity.
Qed.

Lemma runs_end fuel R s s' tot new e (P : lres -> Prop) :
  (forall f evs, lex_next lo ds (S f) 0 s evs = Ok (evs ++ new, NErr e, s')) ->
  P (Ok (tot ++ new, e, s')) -> runs fuel R s tot P.
Proof.
  intros Hstep HP n f evs acc Hn Hf Ht. destruct f as [|f]; [lia|].
  unfold loop_from. rewrite Hstep. subst tot. rewrite <- app_assoc in HP. exact HP.
Qed.

(* ====================================================================== *)
(** * 4. items *)

Lemma run_plain fuel R s tot P op body rest e sk :
  cur s = rd (frame op body ++ rest) e sk ->
  Byte.eqb op OpChunk && negb (lo_emit_chunks lo) = false ->
  op <> OpAttachment -> op <> x00 ->
  blen body < max_int32 -> len_ok lo (blen body) ->
  (R < fuel)%nat ->
  (forall s', moved s (rd rest e sk) s' -> runs fuel R s' (tot ++ rec_events (op, body)) P) ->
  runs fuel (S R) s tot P.
Proof.
  intros Hcur Hck Hat H0 Hlen Hlim Hfuel Hk.
  destruct (lex_next_plain 0 s op body rest e sk) as (s2 & Hm & Heq); try assumption.
  specialize (Hk s2 Hm). unfold rec_events in Hk. cbn [fst snd] in Hk.
  destruct (known_op op).
  - eapply runs_token; [exact Heq | exact Hfuel | exact Hk].
  - eapply runs_silent; [|exact Hk]. intros f evs. rewrite app_nil_r. apply Heq.
Qed.

Lemma frames_cons r l : frames (r :: l) = frame (fst r) (snd r) ++ frames l.
Proof. reflexivity. Qed.

(* the records of a chunk, read through the chunk reader *)
Lemma run_inner fuel P base ce csk crest : forall inner R s tot,
  Forall (plain_rec_ok lo) inner ->
  in_chunk s (rd (frames inner ++ crest) ce csk) base ->
  (length inner + R < fuel)%nat ->
  (forall s', in_chunk s' (rd crest ce csk) base ->
              runs fuel R s' (tot ++ concat (map rec_events inner)) P) ->
  runs fuel (length inner + R) s tot P.
Proof.
  induction inner as [|[op body] inner IH]; intros R s tot Hwf Hin Hfuel Hk.
  - cbn [length Nat.add]. cbn [map concat] in Hk. rewrite app_nil_r in Hk. apply Hk. exact Hin.
  - inversion Hwf as [|x l (Hc & Ha & H0 & Hl & Hlim) Hwf']; subst x l. cbn [fst snd] in *.
    cbn [length Nat.add] in *.
    rewrite frames_cons in Hin. cbn [fst snd] in Hin. rewrite <- app_assoc in Hin.
    eapply run_plain; try eassumption.
    + destruct Hin as [Hc' _]. unfold cur. rewrite Hc'. reflexivity.
    + rewrite (byte_eqb_neq _ _ Hc). reflexivity.
    + lia.
    + intros s' Hm. apply IH; try assumption.
      * eapply moved_in_chunk; eassumption.
      * lia.
      * intros s'' Hin''. cbn [map concat] in Hk. rewrite app_assoc in Hk. apply Hk. exact Hin''.
Qed.

(* the chunk reader is exhausted: back to the base reader *)
Lemma lex_next_pop pcap s csk base :
  in_chunk s (rd [] None csk) base ->
  exists s', at_top s' base /\ forall f evs, lex_next lo ds (S f) pcap s evs = lex_next lo ds f pcap s' evs.
Proof.
  intros [Hc Hb].
  exists (set_cur (rd [] None csk) s <| lx_chunk := None |>). split.
  - split; [reflexivity|]. unfold set_cur. rewrite Hc. cbn. exact Hb.
  - intros f evs. rewrite (lex_next_short f pcap s evs [] None csk).
    + unfold head_short. rewrite Hc. reflexivity.
    + unfold cur. rewrite Hc. reflexivity.
    + reflexivity.
Qed.

Lemma split_records_frames : forall inner fuel,
  Forall (fun r => blen (snd r) < two64) inner ->
  (length (frames inner) <= fuel)%nat ->
  split_records fuel (frames inner) = inner.
Proof.
  induction inner as [|[op body] inner IH]; intros fuel Hwf Hfuel.
  - destruct fuel; reflexivity.
  - inversion Hwf as [|x l Hb Hwf']; subst x l. cbn [snd] in Hb.
    rewrite frames_cons in *. cbn [fst snd] in *. rewrite frame_cons in *. cbn [app length] in Hfuel.
    destruct fuel as [|fuel]; [lia|]. cbn [app split_records].
    rewrite <- app_assoc. rewrite firstn_app_exact' by (rewrite u64_length; reflexivity).
    rewrite unle_u64 by exact Hb. rewrite skipn_app_exact' by (rewrite u64_length; reflexivity).
    rewrite take_app_exact, drop_app_exact. f_equal. apply IH; [exact Hwf'|].
    rewrite !app_length in Hfuel. lia.
Qed.

Lemma plain_rec_ok_two64 inner :
  Forall (plain_rec_ok lo) inner -> Forall (fun r => blen (snd r) < two64) inner.
Proof.
  intro H. eapply Forall_impl; [|exact H]. intros r (_ & _ & _ & Hl & _). apply max_int32_lt_two64, Hl.
Qed.

Lemma chunk_inner_eq k inner :
  chunk_stream lo ds (k_comp k) (k_records k) None = (frames inner, None) ->
  Forall (plain_rec_ok lo) inner ->
  chunk_inner lo ds k = inner.
Proof.
  intros Hs Hwf. unfold chunk_inner, chunk_plain. rewrite Hs. cbn [fst].
  apply split_records_frames; [apply plain_rec_ok_two64, Hwf | lia].
Qed.

Lemma at_top_cur s b : at_top s b -> cur s = b.
Proof. intros [Hc Hb]. unfold cur. rewrite Hc. exact Hb. Qed.
Lemma at_top_set_cur s b r : at_top s b -> at_top (set_cur r s) r.
Proof. intro H. eapply moved_top; [exact H | apply moved_set_cur]. Qed.

Lemma run_chunk fuel R s tot P k rest e sk :
  at_top s (rd (frame OpChunk (enc_chunk k) ++ rest) e sk) ->
  wf_chunk_item lo ds k -> lo_emit_chunks lo = false ->
  (item_steps lo ds (IChunk k) + R < fuel)%nat ->
  (forall s', at_top s' (rd rest e sk) -> runs fuel R s' (tot ++ item_events lo ds (IChunk k)) P) ->
  runs fuel (item_steps lo ds (IChunk k) + R) s tot P.
Proof.
  intros Htop (Wk & Wlen & W) Hemit Hfuel Hk. rewrite Hemit in W.
  destruct W as (Wsup & Wneed & Wrecs & inner & Wstream & Wus & Winner & Wcrc & Wval).
  cbn [item_steps item_events] in *. rewrite Hemit in *.
  rewrite (chunk_inner_eq k inner Wstream Winner) in *.
  assert (Hb64 : blen (enc_chunk k) < two64).
  { rewrite enc_chunk_blen. destruct Wk as (_ & _ & _ & _ & Wc & _). unfold two63, two32, two64 in *. lia. }
  set (s1 := set_cur (rd (enc_chunk k ++ rest) e sk) s).
  assert (Htop1 : at_top s1 (rd (enc_chunk k ++ rest) e sk)) by (eapply at_top_set_cur; exact Htop).
  destruct (load_chunk_ok s1 k inner rest e sk Htop1 Wk Wrecs Wsup Wneed Wstream Wus Wcrc Wval) as (s2 & Hin2 & Hload).
  cbn [Nat.add].
  eapply (runs_silent _ _ s s2 tot []).
  { intros f evs. rewrite app_nil_r.
    unfold frame in Htop. rewrite <- app_assoc in Htop.
    rewrite (lex_next_head f 0 s evs OpChunk (blen (enc_chunk k)) _ e sk (at_top_cur _ _ Htop) Hb64).
    fold s1. unfold after_head. unfold len_ok in Wlen. rewrite Wlen, Hemit, byte_eqb_refl, Hload. reflexivity. }
  rewrite app_nil_r.
  replace (S (length inner + R)) with (length inner + S R)%nat by lia.
  eapply (run_inner fuel P (rd rest e sk) None (lo_validate lo) []); try eassumption.
  - rewrite app_nil_r. exact Hin2.
  - lia.
  - intros s3 Hin3.
    destruct (lex_next_pop 0 s3 _ _ Hin3) as (s4 & Htop4 & Hpop).
    eapply (runs_silent _ _ s3 s4 _ []).
    + intros f evs. rewrite app_nil_r. apply Hpop.
    + rewrite app_nil_r. apply Hk. exact Htop4.
Qed.

Lemma run_attach fuel R s tot P a data crc rest e sk :
  at_top s (rd (frame OpAttachment (attach_body a data crc) ++ rest) e sk) ->
  wf_attach_item lo a data crc ->
  (forall s', at_top s' (rd rest e sk) -> runs fuel R s' (tot ++ item_events lo ds (IAttach a data crc)) P) ->
  runs fuel (S R) s tot P.
Proof.
  intros Htop W Hk.
  pose proof W as (_ & _ & _ & _ & _ & _ & W7 & Wlen & _).
  set (body := attach_body a data crc) in *.
  set (s1 := set_cur (rd (body ++ rest) e sk) s).
  assert (Htop1 : at_top s1 (rd (body ++ rest) e sk)) by (eapply at_top_set_cur; exact Htop).
  set (s2 := set_cur (rd rest e sk) s1).
  eapply (runs_silent _ _ s s2 tot (item_events lo ds (IAttach a data crc))).
  - intros f evs. unfold frame in Htop. rewrite <- app_assoc in Htop.
    rewrite (lex_next_head f 0 s evs OpAttachment (blen body) _ e sk (at_top_cur _ _ Htop))
      by (unfold two63, two64 in *; lia).
    fold s1. unfold after_head. unfold len_ok in Wlen. rewrite Wlen.
    change (Byte.eqb OpAttachment OpChunk) with false. cbn [andb]. rewrite byte_eqb_refl.
    destruct (N.ltb_spec 9223372036854775807 (blen body)); [unfold two63 in W7; lia|].
    rewrite (at_top_cur _ _ Htop1). unfold body. rewrite do_attachment_ok by exact W.
    cbv beta iota zeta. fold body. fold s2. cbn [item_events].
    destruct (lo_cb lo); try rewrite app_nil_r; reflexivity.
  - apply Hk. eapply at_top_set_cur; exact Htop1.
Qed.

Lemma run_item fuel R s tot P it rest e sk :
  at_top s (rd (render_item it ++ rest) e sk) ->
  wf_item lo ds it ->
  (item_steps lo ds it + R < fuel)%nat ->
  (forall s', at_top s' (rd rest e sk) -> runs fuel R s' (tot ++ item_events lo ds it) P) ->
  runs fuel (item_steps lo ds it + R) s tot P.
Proof.
  intros Htop W Hfuel Hk. destruct it as [|op body|k|a data crc|ss sos crc]; cbn [render_item] in Htop.
  - destruct W.
  - destruct W as (Hc & Ha & H0 & Hl & Hlim). cbn [fst snd] in *. cbn [item_steps Nat.add] in *.
    eapply run_plain; try eassumption.
    + apply at_top_cur, Htop.
    + rewrite (byte_eqb_neq _ _ Hc). reflexivity.
    + lia.
    + intros s' Hm. apply Hk. eapply moved_top; eassumption.
  - destruct (lo_emit_chunks lo) eqn:Hemit.
    + destruct W as (Wk & Wlen & W). rewrite Hemit in W.
      cbn [item_steps item_events] in *. rewrite Hemit in *. cbn [Nat.add] in *.
      eapply run_plain; try eassumption.
      * apply at_top_cur, Htop.
      * rewrite Hemit. apply andb_false_r.
      * discriminate.
      * discriminate.
      * lia.
      * intros s' Hm. apply Hk. eapply moved_top; eassumption.
    + apply run_chunk with (rest := rest) (e := e) (sk := sk); assumption.
  - cbn [item_steps Nat.add] in *. eapply run_attach; eassumption.
  - destruct W as (W1 & W2 & W3 & Wlim). cbn [item_steps item_events Nat.add] in *.
    set (body := enc_footer _) in *.
    assert (Hb : blen body = 20).
    { unfold body, enc_footer, blen. rewrite !app_length, !u64_length, u32_length. reflexivity. }
    eapply run_plain; try eassumption.
    + apply at_top_cur, Htop.
    + reflexivity.
    + discriminate.
    + discriminate.
    + rewrite Hb. reflexivity.
    + rewrite Hb. exact Wlim.
    + lia.
    + intros s' Hm. apply Hk. eapply moved_top; eassumption.
Qed.

Lemma run_items fuel P e sk : forall items R s tot rest,
  Forall (wf_item lo ds) items ->
  at_top s (rd (render items ++ rest) e sk) ->
  (file_steps lo ds items + R < fuel)%nat ->
  (forall s', at_top s' (rd rest e sk) -> runs fuel R s' (tot ++ file_events lo ds items) P) ->
  runs fuel (file_steps lo ds items + R) s tot P.
Proof.
  induction items as [|it items IH]; intros R s tot rest Hwf Htop Hfuel Hk.
  - cbn in *. rewrite app_nil_r in Hk. apply Hk, Htop.
  - inversion Hwf as [|x l W Hwf']; subst x l.
    unfold render in Htop. cbn [map concat] in Htop. rewrite <- app_assoc in Htop. fold (render items) in Htop.
    cbn [file_steps fold_right] in *. fold (file_steps lo ds items) in *.
    rewrite <- Nat.add_assoc. eapply run_item; try eassumption; [lia|].
    intros s' Htop'. apply IH with (rest := rest); try assumption; [lia|].
    intros s'' Htop''. unfold file_events in *. cbn [map concat] in Hk. rewrite app_assoc in Hk. apply Hk, Htop''.
Qed.

(* the trailing magic: 8 bytes and then EOF is a clean end *)
Lemma lex_next_magic pcap s sk :
  at_top s (rd magic None sk) ->
  exists s', forall f evs, lex_next lo ds (S f) pcap s evs = Ok (evs, NErr EEOF, s').
Proof.
  intros Htop. exists (set_cur (rd [] None sk) s). intros f evs.
  rewrite (lex_next_short f pcap s evs magic None sk (at_top_cur _ _ Htop)) by reflexivity.
  unfold head_short. destruct Htop as [Hc _]. rewrite Hc. reflexivity.
Qed.

Lemma new_lexer_ok rest sk :
  exists s, at_top s (rd rest None sk)
            /\ new_lexer lo (rd (render (lead_magic lo) ++ rest) None sk) = Ok s.
Proof.
  unfold new_lexer, lead_magic. destruct (lo_skip_magic lo).
  - eexists; split; [|reflexivity]. split; reflexivity.
  - unfold render. cbn [map concat render_item]. rewrite app_nil_r.
    rewrite (rd_full_exact 8 magic) by reflexivity. cbv beta iota zeta.
    rewrite bytes_eqb_refl. eexists; split; [|reflexivity]. split; reflexivity.
Qed.

Definition ends_with (evs : list event) (e : err) : lres -> Prop :=
  fun r => exists st, r = Ok (evs, e, st).

Lemma lex_all_runs fuel R s src P :
  new_lexer lo src = Ok s -> runs fuel R s [] P -> (R + 2 <= fuel)%nat -> P (lex_all lo ds fuel src).
Proof.
  intros Hnew Hr Hf. unfold lex_all. rewrite Hnew. destruct fuel as [|n]; [lia|].
  rewrite lex_loop_S. apply Hr; try lia. reflexivity.
Qed.

Lemma render_app a b : render (a ++ b) = render a ++ render b.
Proof. unfold render. rewrite map_app, concat_app. reflexivity. Qed.
Lemma file_events_app a b : file_events lo ds (a ++ b) = file_events lo ds a ++ file_events lo ds b.
Proof. unfold file_events. rewrite map_app, concat_app. reflexivity. Qed.
Lemma file_steps_app a b : file_steps lo ds (a ++ b) = (file_steps lo ds a + file_steps lo ds b)%nat.
Proof. induction a as [|x a IH]; [reflexivity|]. cbn [app file_steps fold_right] in *. fold (file_steps lo ds (a ++ b)). fold (file_steps lo ds a). rewrite IH. lia. Qed.

Lemma lead_magic_events : file_events lo ds (lead_magic lo) = [].
Proof. unfold lead_magic. destruct (lo_skip_magic lo); reflexivity. Qed.

Theorem lex_render_thm items sk :
  wf_file lo ds items ->
  forall fuel, (file_steps lo ds items + 1 <= fuel)%nat ->
  exists st, lex_all lo ds fuel (src_of (render items) sk) = Ok (file_events lo ds items, EEOF, st).
Proof.
  intros (recs & -> & Hwf) fuel Hfuel.
  rewrite render_app. destruct (new_lexer_ok (render (recs ++ [IMagic])) sk) as (s & Htop & Hnew).
  rewrite !file_events_app, lead_magic_events. cbn [app].
  change (file_events lo ds [IMagic]) with (@nil event). rewrite app_nil_r.
  rewrite !file_steps_app in Hfuel. change (file_steps lo ds [IMagic]) with 1%nat in Hfuel.
  apply (lex_all_runs fuel (file_steps lo ds recs + 0) s _ (ends_with (file_events lo ds recs) EEOF) Hnew); [|lia].
  rewrite render_app in Htop.
  apply run_items with (e := None) (sk := sk) (rest := render [IMagic]); try assumption; [lia|].
  intros s' Htop'. unfold render in Htop'. cbn [map concat render_item] in Htop'. rewrite app_nil_r in Htop'.
  destruct (lex_next_magic 0 s' sk Htop') as (s'' & Hend).
  eapply (runs_end _ _ s' s'' _ []).
  - intros f evs. rewrite app_nil_r. apply Hend.
  - rewrite app_nil_r. cbn [app]. exists s''. reflexivity.
Qed.
End Steps.
