(* WriterFactsA.v - facts about the writer model (Writer.v):
   part 1: map encoding is independent of insertion order (C13);
   part 2: simulation between runs whose map arguments are permuted (C13);
   part 3: the statistics kept by the writer are the true aggregates of the calls (C08). *)
From Coq Require Import List NArith ZArith Bool Lia ZifyN ZifyNat ZifyBool Permutation Sorted.
From Coq.Strings Require Import Byte.
From RecordUpdate Require Import RecordSet.
From Mcap Require Import Bytes BytesFacts GoSem Crc32 Records Writer.
Import ListNotations RecordSetNotations.
Open Scope N_scope.

(* ====================================================================== *)
(* Part 1: kv_sort / enc_map                                               *)
(* ====================================================================== *)

Definition kv_lt (a b : bytes * bytes) : Prop := bytes_ltb (fst a) (fst b) = true.
Definition ssorted (l : kvs) : Prop := StronglySorted kv_lt l.

Lemma kv_insert_perm kv l : Permutation (kv_insert kv l) (kv :: l).
Proof.
  induction l as [|x r IH]; cbn [kv_insert].
  - apply Permutation_refl.
  - destruct (bytes_ltb (fst x) (fst kv)).
    + eapply perm_trans; [apply perm_skip, IH | apply perm_swap].
    + apply Permutation_refl.
Qed.

Lemma kv_sort_perm l : Permutation (kv_sort l) l.
Proof.
  induction l as [|a l IH]; cbn [kv_sort fold_right].
  - apply perm_nil.
  - eapply perm_trans; [apply kv_insert_perm | apply perm_skip, IH].
Qed.

Lemma kv_insert_sorted kv l :
  ssorted l -> ~ In (fst kv) (map fst l) -> ssorted (kv_insert kv l).
Proof.
  unfold ssorted.
  induction l as [|x r IH]; intros Hs Hn; cbn [kv_insert].
  - constructor; constructor.
  - apply StronglySorted_inv in Hs. destruct Hs as [Hr Hx].
    destruct (bytes_ltb (fst x) (fst kv)) eqn:E.
    + constructor.
      * apply IH; [exact Hr | intro H; apply Hn; right; exact H].
      * eapply Permutation_Forall; [apply Permutation_sym, kv_insert_perm |].
        constructor; [exact E | exact Hx].
    + assert (L : bytes_ltb (fst kv) (fst x) = true).
      { destruct (bytes_ltb (fst kv) (fst x)) eqn:E2; auto.
        exfalso. apply Hn. left. apply bytes_ltb_total; assumption. }
      constructor.
      * constructor; assumption.
      * constructor; [exact L |].
        rewrite Forall_forall in Hx |- *. intros y Hy.
        unfold kv_lt in *. eapply bytes_ltb_trans; [exact L | apply Hx, Hy].
Qed.

Lemma kv_sort_sorted l : NoDup (map fst l) -> ssorted (kv_sort l).
Proof.
  induction l as [|a l IH]; intro Hd; cbn [kv_sort fold_right].
  - constructor.
  - cbn [map] in Hd. apply NoDup_cons_iff in Hd. destruct Hd as [Hn Hd].
    apply kv_insert_sorted; [apply IH, Hd |].
    intro H. apply Hn.
    eapply Permutation_in; [apply Permutation_map, kv_sort_perm | exact H].
Qed.

Lemma ssorted_perm_eq l : forall l', ssorted l -> ssorted l' -> Permutation l l' -> l = l'.
Proof.
  unfold ssorted.
  induction l as [|a r IH]; intros l' Hs Hs' Hp.
  - apply Permutation_nil in Hp. auto.
  - destruct l' as [|a' r'].
    + apply Permutation_sym, Permutation_nil in Hp. discriminate.
    + apply StronglySorted_inv in Hs. destruct Hs as [Hr Ha].
      apply StronglySorted_inv in Hs'. destruct Hs' as [Hr' Ha'].
      rewrite Forall_forall in Ha, Ha'.
      assert (Eq : a = a').
      { assert (I1 : In a (a' :: r')) by (eapply Permutation_in; [exact Hp | left; reflexivity]).
        assert (I2 : In a' (a :: r)) by (eapply Permutation_in; [apply Permutation_sym, Hp | left; reflexivity]).
        destruct I1 as [I1|I1]; [auto|].
        destruct I2 as [I2|I2]; [auto|].
        exfalso. specialize (Ha _ I2). specialize (Ha' _ I1). unfold kv_lt in *.
        apply bytes_ltb_asym in Ha. congruence. }
      subst a'. f_equal. apply IH; auto.
      eapply Permutation_cons_inv; exact Hp.
Qed.

Lemma kv_sort_perm_eq m m' : NoDup (map fst m) -> Permutation m m' -> kv_sort m = kv_sort m'.
Proof.
  intros Hd Hp. apply ssorted_perm_eq.
  - apply kv_sort_sorted, Hd.
  - apply kv_sort_sorted. eapply Permutation_NoDup; [apply Permutation_map, Hp | exact Hd].
  - eapply perm_trans; [apply kv_sort_perm |].
    eapply perm_trans; [exact Hp | apply Permutation_sym, kv_sort_perm].
Qed.

Lemma enc_map_perm : forall m m', NoDup (map fst m) -> Permutation m m' -> enc_map m = enc_map m'.
Proof.
  intros m m' Hd Hp. unfold enc_map. rewrite (kv_sort_perm_eq m m' Hd Hp). reflexivity.
Qed.
