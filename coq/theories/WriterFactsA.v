(* WriterFactsA.v - facts about the writer model (Writer.v):
   part 1: map encoding is independent of insertion order (C13);
   part 2: restructuring lemmas (summary section as a chain of groups, named sub-steps);
   part 3: frame lemmas for the functions that do not touch w_channels;
   part 4: simulation between runs whose map arguments are permuted (C13);
   part 5: the statistics kept by the writer are the true aggregates of the calls (C08);
   part 6: the top-level statements about W. *)
From Coq Require Import List NArith ZArith Bool Lia ZifyN ZifyNat ZifyBool Permutation Sorted.
From Coq.Strings Require Import Byte.
From RecordUpdate Require Import RecordSet.
From Mcap Require Import Bytes BytesFacts GoSem Crc32 Records Writer.
Import ListNotations RecordSetNotations.
Open Scope N_scope.

(* ====================================================================== *)
(* Part 1: kv_sort / enc_map                                               *)
(* ====================================================================== *)

Definition kv_lt (a b : bytes * bytes) : Prop := bytes_ltb (fst a) (fst b) = true.
Definition ssorted (l : kvs) : Prop := StronglySorted kv_lt l.

Lemma kv_insert_perm kv l : Permutation (kv_insert kv l) (kv :: l).
Proof.
  induction l as [|x r IH]; cbn [kv_insert].
  - apply Permutation_refl.
  - destruct (bytes_ltb (fst x) (fst kv)).
    + eapply perm_trans; [apply perm_skip, IH | apply perm_swap].
    + apply Permutation_refl.
Qed.

Lemma kv_sort_perm l : Permutation (kv_sort l) l.
Proof.
  induction l as [|a l IH]; cbn [kv_sort fold_right].
  - apply perm_nil.
  - eapply perm_trans; [apply kv_insert_perm | apply perm_skip, IH].
Qed.

Lemma kv_insert_sorted kv l :
  ssorted l -> ~ In (fst kv) (map fst l) -> ssorted (kv_insert kv l).
Proof.
  unfold ssorted.
  induction l as [|x r IH]; intros Hs Hn; cbn [kv_insert].
  - constructor; constructor.
  - apply StronglySorted_inv in Hs. destruct Hs as [Hr Hx].
    destruct (bytes_ltb (fst x) (fst kv)) eqn:E.
    + constructor.
      * apply IH; [exact Hr | intro H; apply Hn; right; exact H].
      * eapply Permutation_Forall; [apply Permutation_sym, kv_insert_perm |].
        constructor; [exact E | exact Hx].
    + assert (L : bytes_ltb (fst kv) (fst x) = true).
      { destruct (bytes_ltb (fst kv) (fst x)) eqn:E2; auto.
        exfalso. apply Hn. left. apply bytes_ltb_total; assumption. }
      constructor.
      * constructor; assumption.
      * constructor; [exact L |].
        rewrite Forall_forall in Hx |- *. intros y Hy.
        unfold kv_lt in *. eapply bytes_ltb_trans; [exact L | apply Hx, Hy].
Qed.

Lemma kv_sort_sorted l : NoDup (map fst l) -> ssorted (kv_sort l).
Proof.
  induction l as [|a l IH]; intro Hd; cbn [kv_sort fold_right].
  - constructor.
  - cbn [map] in Hd. apply NoDup_cons_iff in Hd. destruct Hd as [Hn Hd].
    apply kv_insert_sorted; [apply IH, Hd |].
    intro H. apply Hn.
    eapply Permutation_in; [apply Permutation_map, kv_sort_perm | exact H].
Qed.

Lemma ssorted_perm_eq l : forall l', ssorted l -> ssorted l' -> Permutation l l' -> l = l'.
Proof.
  unfold ssorted.
  induction l as [|a r IH]; intros l' Hs Hs' Hp.
  - apply Permutation_nil in Hp. auto.
  - destruct l' as [|a' r'].
    + apply Permutation_sym, Permutation_nil in Hp. discriminate.
    + apply StronglySorted_inv in Hs. destruct Hs as [Hr Ha].
      apply StronglySorted_inv in Hs'. destruct Hs' as [Hr' Ha'].
      rewrite Forall_forall in Ha, Ha'.
      assert (Eq : a = a').
      { assert (I1 : In a (a' :: r')) by (eapply Permutation_in; [exact Hp | left; reflexivity]).
        assert (I2 : In a' (a :: r)) by (eapply Permutation_in; [apply Permutation_sym, Hp | left; reflexivity]).
        destruct I1 as [I1|I1]; [auto|].
        destruct I2 as [I2|I2]; [auto|].
        exfalso. specialize (Ha _ I2). specialize (Ha' _ I1). unfold kv_lt in *.
        apply bytes_ltb_asym in Ha. congruence. }
      subst a'. f_equal. apply IH; auto.
      eapply Permutation_cons_inv; exact Hp.
Qed.

Lemma kv_sort_perm_eq m m' : NoDup (map fst m) -> Permutation m m' -> kv_sort m = kv_sort m'.
Proof.
  intros Hd Hp. apply ssorted_perm_eq.
  - apply kv_sort_sorted, Hd.
  - apply kv_sort_sorted. eapply Permutation_NoDup; [apply Permutation_map, Hp | exact Hd].
  - eapply perm_trans; [apply kv_sort_perm |].
    eapply perm_trans; [exact Hp | apply Permutation_sym, kv_sort_perm].
Qed.

Lemma enc_map_perm : forall m m', NoDup (map fst m) -> Permutation m m' -> enc_map m = enc_map m'.
Proof.
  intros m m' Hd Hp. unfold enc_map. rewrite (kv_sort_perm_eq m m' Hd Hp). reflexivity.
Qed.

(* ====================================================================== *)
(* Part 2: common restructuring lemmas for the writer functions            *)
(* ====================================================================== *)

Section Facts.
Variable o : wopts.
Variable lib_id : bytes.
Variable compress : nat -> bytes -> bytes.
Variable flt : option fault.

(* --- summary section as a chain of groups --- *)
Definition sres := (wstate * option err * list sumoffset)%type.
Definition grp (cond : wstate -> bool) (op : byte) (w : wstate -> wres) (x : sres) : sres :=
  let '(s, e, offs) := x in
  match e with
  | Some e => (s, Some e, offs)
  | None => if cond s then
      match w s with
      | (s1, None) => (s1, None, offs ++ [group op (w_size s) s1])
      | (s1, Some e) => (s1, Some e, offs)
      end else (s, None, offs)
  end.
Definition nonnil {A} (l : list A) : bool := negb (match l with [] => true | _ => false end).
Definition c_sch s := negb (o_skip_rsh o) && nonnil (w_schemas s).
Definition c_chn s := negb (o_skip_rch o) && nonnil (w_channels s).
Definition c_sta (s : wstate) := negb (o_skip_stats o).
Definition c_cix s := negb (o_skip_ci o) && nonnil (w_chunk_indexes s).
Definition c_aix s := negb (o_skip_ai o) && nonnil (w_att_indexes s).
Definition c_mdx s := negb (o_skip_mdi o) && nonnil (w_md_indexes s).
Definition g_sch s := write_all (write_schema o flt) (map snd (w_schemas s)) s.
Definition g_chn s := write_all (write_channel o flt) (map snd (w_channels s)) s.
Definition g_sta s := write_record_dst o flt OpStatistics (enc_statistics (stats_record s)) s.
Definition g_cix s := write_all (fun ci => write_record_dst o flt OpChunkIndex (enc_chunkindex ci)) (w_chunk_indexes s) s.
Definition g_aix s := write_all (fun ai => write_record_dst o flt OpAttachmentIndex (enc_attindex ai)) (w_att_indexes s) s.
Definition g_mdx s := write_all (fun mx => write_record_dst o flt OpMetadataIndex (enc_mdindex mx)) (w_md_indexes s) s.

Definition esc (x : sres) (K : wstate -> list sumoffset -> sres) : sres :=
  let '(s, e, offs) := x in match e with Some e => (s, Some e, offs) | None => K s offs end.

Lemma write_summary_nested s :
  write_summary o flt s =
  esc (grp c_sch OpSchema g_sch (s, None, [])) (fun s offs =>
  esc (grp c_chn OpChannel g_chn (s, None, offs)) (fun s offs =>
  esc (grp c_sta OpStatistics g_sta (s, None, offs)) (fun s offs =>
  esc (grp c_cix OpChunkIndex g_cix (s, None, offs)) (fun s offs =>
  esc (grp c_aix OpAttachmentIndex g_aix (s, None, offs)) (fun s offs =>
  grp c_mdx OpMetadataIndex g_mdx (s, None, offs)))))).
Proof. reflexivity. Qed.

Lemma esc_grp x cond op w : esc x (fun s offs => grp cond op w (s, None, offs)) = grp cond op w x.
Proof. destruct x as [[s [e|]] offs]; reflexivity. Qed.

Lemma esc_esc x K K' : esc (esc x K) K' = esc x (fun s offs => esc (K s offs) K').
Proof. destruct x as [[s [e|]] offs]; reflexivity. Qed.

Lemma write_summary_grp s :
  write_summary o flt s =
  grp c_mdx OpMetadataIndex g_mdx (grp c_aix OpAttachmentIndex g_aix (grp c_cix OpChunkIndex g_cix
   (grp c_sta OpStatistics g_sta (grp c_chn OpChannel g_chn (grp c_sch OpSchema g_sch (s, None, [])))))).
Proof.
  rewrite write_summary_nested.
  rewrite <- !esc_grp. rewrite !esc_esc. reflexivity.
Qed.

(* --- flushActiveChunk --- *)
Definition fl_chunk (s : wstate) : chunk :=
  {| k_start := if w_cur_count s =? 0 then 0 else w_cur_start s;
     k_end := if w_cur_count s =? 0 then 0 else w_cur_end s;
     k_usize := blen (w_cbuf s);
     k_crc := if o_crc o then crc32 (w_cbuf s) else 0;
     k_comp := o_comp o;
     k_records := compress (w_nchunks s) (w_cbuf s) |}.
Definition fl_mis (s : wstate) : list msgindex :=
  if o_skip_mi o then [] else
    flat_map (fun ch => match assoc_get ch (w_msgidx s) with
                        | Some (e :: es) => [{| mi_chan := ch; mi_entries := e :: es |}]
                        | _ => [] end) (w_channel_ids s).
Definition fl_start (s : wstate) : wstate := s <| w_cbuf := [] |> <| w_nchunks := S (w_nchunks s) |>.
Definition fl_reset (s : wstate) : wstate :=
  s <| w_msgidx := mi_reset (w_msgidx s) |> <| w_cur_start := max_u64 |> <| w_cur_end := 0 |> <| w_cur_count := 0 |>.

Lemma flush_eq s :
  flush_active_chunk o compress flt s =
  match w_cbuf s with
  | [] => (s, None)
  | _ => do* s1 := write_chunk_with_indexes o flt (fl_chunk s) (fl_mis s) (fl_start s) in (fl_reset s1, None)
  end.
Proof.
  unfold flush_active_chunk, fl_chunk, fl_mis, fl_start.
  destruct (w_cbuf s) eqn:E; [reflexivity|].
  destruct (w_cur_count s =? 0); reflexivity.
Qed.

(* --- WriteChunkWithIndexes --- *)
Definition ci_add (k : chunk) (chunk_start chunk_end : N) (offs : list (N * N)) (s : wstate) : wstate :=
  s <| w_chunk_indexes := w_chunk_indexes s ++
        [{| ci_start := k_start k; ci_end := k_end k; ci_offset := chunk_start;
            ci_length := chunk_end - chunk_start; ci_mioffsets := offs;
            ci_milength := w_size s - chunk_end; ci_comp := k_comp k;
            ci_csize := blen (k_records k); ci_usize := k_usize k |}] |>
    <| w_st_chunks := w_st_chunks s + 1 |>.
Definition wc_indexes (mis : list msgindex) (s : wstate) :=
  if negb (o_skip_mi o) then write_msgindexes o flt mis [] s else (s, None, []).
Lemma wcwi_eq k mis s :
  write_chunk_with_indexes o flt k mis s =
  if k_usize k =? 0 then (s, None) else
  do* s1 := dst_write o flt (frame_head OpChunk (blen (enc_chunk_top k) + blen (k_records k)) ++ enc_chunk_top k) s in
  do* s2 := dst_write o flt (k_records k) s1 in
  do* s3 := log (IChunk k) s2 in
  let '(s4, e, offs) := wc_indexes mis s3 in
  match e with
  | Some e => (s4, Some e)
  | None => (ci_add k (w_size s) (w_size s3) offs s4, None)
  end.
Proof. reflexivity. Qed.

(* --- WriteMessage --- *)
Definition wm_bump (m : message) (s : wstate) : wstate :=
  s <| w_st_counts := bump_count (m_chan m) (w_st_counts s) |> <| w_st_messages := w_st_messages s + 1 |>.
Definition wm_idx (m : message) (s : wstate) : wstate :=
  s <| w_msgidx := mi_add (m_chan m) (m_log m, blen (w_cbuf s)) (w_msgidx s) |>.
Definition wm_cur (m : message) (s : wstate) : wstate :=
  let s := s <| w_cur_count := w_cur_count s + 1 |> in
  let s := if w_cur_end s <? m_log m then s <| w_cur_end := m_log m |> else s in
  if m_log m <? w_cur_start s then s <| w_cur_start := m_log m |> else s.
Definition wm_flush (s : wstate) : wres :=
  if (o_chunksize o <? Z.of_N (blen (w_cbuf s)))%Z then flush_active_chunk o compress flt s else (s, None).
Definition wm_body (m : message) (s : wstate) : wres :=
  if in_chunk o s then
    do* s := write_record_chunk OpMessage (enc_message m) (wm_idx m s) in
    do* s := wm_flush (wm_cur m s) in
    (stats_time (m_log m) s, None)
  else
    do* s := write_record_dst o flt OpMessage (enc_message m) s in
    (stats_time (m_log m) s, None).
Lemma write_message_eq m s :
  write_message o compress flt m s =
  match assoc_get (m_chan m) (w_channels s) with
  | None => (s, Some EOther)
  | Some _ => wm_body m (wm_bump m s)
  end.
Proof. reflexivity. Qed.

(* --- WriteAttachment --- *)
Definition wa_idx (a : attachment) (off : N) (s : wstate) : wstate :=
  s <| w_att_indexes := w_att_indexes s ++
       [{| ai_offset := off; ai_length := (9 + blen (enc_attachment_fields a) + a_size a + 4) mod two64;
           ai_log := a_log a; ai_create := a_create a; ai_size := a_size a;
           ai_name := a_name a; ai_media := a_media a |}] |>
    <| w_st_attachments := w_st_attachments s + 1 |>.
Definition wa_tail (a : attachment) (src : asrc) (off n : N) (s : wstate) : wres :=
  if as_fail src then (s, Some EInjected) else
  if negb (n =? a_size a) then (s, Some EAttachmentSize) else
  let crc := crc32 (enc_attachment_fields a ++ concat (as_frags src)) in
  do* s := dst_write o flt (u32 crc) s in
  do* s := log (IAttach a (concat (as_frags src)) crc) s in
  (wa_idx a off s, None).
Lemma write_attachment_eq a src s :
  write_attachment o flt a src s =
  do* s1 := dst_write o flt (frame_head OpAttachment ((blen (enc_attachment_fields a) + a_size a + 4) mod two64)) s in
  do* s2 := dst_write o flt (enc_attachment_fields a) s1 in
  let '(s3, e, n) := copy_frags o flt (as_frags src) 0 s2 in
  match e with
  | Some e => (s3, Some e)
  | None => wa_tail a src (w_size s) n s3
  end.
Proof. reflexivity. Qed.

(* --- WriteMetadata --- *)
Definition wmd_idx (name : bytes) (body : bytes) (off : N) (s : wstate) : wstate :=
  s <| w_md_indexes := w_md_indexes s ++ [{| mx_offset := off; mx_length := 9 + blen body; mx_name := name |}] |>
    <| w_st_metadata := w_st_metadata s + 1 |>.
Lemma write_metadata_eq m s :
  write_metadata o flt m s =
  do* s1 := write_record_dst o flt OpMetadata (enc_metadata m) s in
  (wmd_idx (md_name m) (enc_metadata m) (w_size s) s1, None).
Proof. reflexivity. Qed.

(* --- Close --- *)
Definition close_end (start : N) (offs : list sumoffset) (s : wstate) : wres :=
  let ss := match offs with [] => 0 | _ => start end in
  let write_offsets := negb (o_skip_so o) && negb (match offs with [] => true | _ => false end) in
  let sos := if write_offsets then w_size s else 0 in
  do* s := (if write_offsets
            then write_all (fun so => write_record_dst o flt OpSummaryOffset (enc_sumoffset so)) offs s
            else (s, None)) in
  do* s := write_footer o flt ss sos s in
  do* s := dst_write o flt magic s in log IMagic s.
Definition close_sum (s : wstate) : wres :=
  let '(s1, e, offs) := write_summary o flt s in
  match e with
  | Some e => (s1, Some e)
  | None => close_end (w_size s) offs s1
  end.
Definition set_closed (s : wstate) : wstate := s <| w_closed := true |>.
Definition reset_crc (s : wstate) : wstate := s <| w_crc := crc_init |>.
Definition close_tail (s : wstate) : wres :=
  do* s := write_record_dst o flt OpDataEnd (enc_dataend {| de_crc := checksum o (set_closed s) |}) (set_closed s) in
  close_sum (reset_crc s).
Lemma close_eq s :
  close o compress flt s =
  do* s := (if o_chunked o then flush_active_chunk o compress flt s else (s, None)) in close_tail s.
Proof. reflexivity. Qed.


(* ====================================================================== *)
(* Part 3: frame lemmas - functions that neither read nor write w_channels *)
(* ====================================================================== *)

Definition setch (ch : list (N * channel)) (s : wstate) : wstate := s <| w_channels := ch |>.
Definition lift (ch : list (N * channel)) (r : wres) : wres := (setch ch (fst r), snd r).
Definition lift3 {A} (ch : list (N * channel)) (r : wstate * option err * A) : wstate * option err * A :=
  let '(s, e, x) := r in (setch ch s, e, x).

Lemma setch_w_trace ch s : w_trace (setch ch s) = w_trace s. Proof. reflexivity. Qed.
Lemma setch_w_out ch s : w_out (setch ch s) = w_out s. Proof. reflexivity. Qed.
Lemma setch_w_nw ch s : w_nw (setch ch s) = w_nw s. Proof. reflexivity. Qed.
Lemma setch_w_failed ch s : w_failed (setch ch s) = w_failed s. Proof. reflexivity. Qed.
Lemma setch_w_size ch s : w_size (setch ch s) = w_size s. Proof. reflexivity. Qed.
Lemma setch_w_crc ch s : w_crc (setch ch s) = w_crc s. Proof. reflexivity. Qed.
Lemma setch_w_cbuf ch s : w_cbuf (setch ch s) = w_cbuf s. Proof. reflexivity. Qed.
Lemma setch_w_nchunks ch s : w_nchunks (setch ch s) = w_nchunks s. Proof. reflexivity. Qed.
Lemma setch_w_cur_start ch s : w_cur_start (setch ch s) = w_cur_start s. Proof. reflexivity. Qed.
Lemma setch_w_cur_end ch s : w_cur_end (setch ch s) = w_cur_end s. Proof. reflexivity. Qed.
Lemma setch_w_cur_count ch s : w_cur_count (setch ch s) = w_cur_count s. Proof. reflexivity. Qed.
Lemma setch_w_msgidx ch s : w_msgidx (setch ch s) = w_msgidx s. Proof. reflexivity. Qed.
Lemma setch_w_channel_ids ch s : w_channel_ids (setch ch s) = w_channel_ids s. Proof. reflexivity. Qed.
Lemma setch_w_schema_ids ch s : w_schema_ids (setch ch s) = w_schema_ids s. Proof. reflexivity. Qed.
Lemma setch_w_channels ch s : w_channels (setch ch s) = ch. Proof. reflexivity. Qed.
Lemma setch_w_schemas ch s : w_schemas (setch ch s) = w_schemas s. Proof. reflexivity. Qed.
Lemma setch_w_chunk_indexes ch s : w_chunk_indexes (setch ch s) = w_chunk_indexes s. Proof. reflexivity. Qed.
Lemma setch_w_att_indexes ch s : w_att_indexes (setch ch s) = w_att_indexes s. Proof. reflexivity. Qed.
Lemma setch_w_md_indexes ch s : w_md_indexes (setch ch s) = w_md_indexes s. Proof. reflexivity. Qed.
Lemma setch_w_st_messages ch s : w_st_messages (setch ch s) = w_st_messages s. Proof. reflexivity. Qed.
Lemma setch_w_st_schemas ch s : w_st_schemas (setch ch s) = w_st_schemas s. Proof. reflexivity. Qed.
Lemma setch_w_st_channels ch s : w_st_channels (setch ch s) = w_st_channels s. Proof. reflexivity. Qed.
Lemma setch_w_st_attachments ch s : w_st_attachments (setch ch s) = w_st_attachments s. Proof. reflexivity. Qed.
Lemma setch_w_st_metadata ch s : w_st_metadata (setch ch s) = w_st_metadata s. Proof. reflexivity. Qed.
Lemma setch_w_st_chunks ch s : w_st_chunks (setch ch s) = w_st_chunks s. Proof. reflexivity. Qed.
Lemma setch_w_st_start ch s : w_st_start (setch ch s) = w_st_start s. Proof. reflexivity. Qed.
Lemma setch_w_st_end ch s : w_st_end (setch ch s) = w_st_end s. Proof. reflexivity. Qed.
Lemma setch_w_st_counts ch s : w_st_counts (setch ch s) = w_st_counts s. Proof. reflexivity. Qed.
Lemma setch_w_closed ch s : w_closed (setch ch s) = w_closed s. Proof. reflexivity. Qed.
Hint Rewrite setch_w_trace setch_w_out setch_w_nw setch_w_failed setch_w_size setch_w_crc setch_w_cbuf setch_w_nchunks setch_w_cur_start setch_w_cur_end setch_w_cur_count setch_w_msgidx setch_w_channel_ids setch_w_schema_ids setch_w_channels setch_w_schemas setch_w_chunk_indexes setch_w_att_indexes setch_w_md_indexes setch_w_st_messages setch_w_st_schemas setch_w_st_channels setch_w_st_attachments setch_w_st_metadata setch_w_st_chunks setch_w_st_start setch_w_st_end setch_w_st_counts setch_w_closed : setch.


Lemma setch_id s : setch (w_channels s) s = s.
Proof. destruct s; reflexivity. Qed.
Lemma setch_setch ch ch' s : setch ch (setch ch' s) = setch ch s.
Proof. reflexivity. Qed.

Lemma frame_bind ch x x' k k' :
  x' = lift ch x -> (forall s1, k' (setch ch s1) = lift ch (k s1)) -> bindw x' k' = lift ch (bindw x k).
Proof.
  intros -> H. destruct x as [s [e|]]; cbn [lift fst snd bindw]; [reflexivity | apply H].
Qed.

Ltac fb lem := apply frame_bind; [apply lem | let s := fresh "s" in intro s; cbv beta zeta].

Lemma dst_write_frame p ch s : dst_write o flt p (setch ch s) = lift ch (dst_write o flt p s).
Proof.
  unfold dst_write, lift. autorewrite with setch.
  match goal with |- (if ?c then _ else _) = _ => destruct c end; reflexivity.
Qed.

Lemma chunk_write_frame p ch s : chunk_write p (setch ch s) = lift ch (chunk_write p s).
Proof. reflexivity. Qed.
Lemma log_frame it ch s : log it (setch ch s) = lift ch (log it s).
Proof. reflexivity. Qed.

Lemma write_record_dst_frame op body ch s :
  write_record_dst o flt op body (setch ch s) = lift ch (write_record_dst o flt op body s).
Proof.
  unfold write_record_dst. fb dst_write_frame. fb dst_write_frame. apply log_frame.
Qed.

Lemma write_record_chunk_frame op body ch s :
  write_record_chunk op body (setch ch s) = lift ch (write_record_chunk op body s).
Proof. unfold write_record_chunk. fb chunk_write_frame. apply chunk_write_frame. Qed.

Lemma in_chunk_setch ch s : in_chunk o (setch ch s) = in_chunk o s.
Proof. reflexivity. Qed.

Lemma write_record_auto_frame op body ch s :
  write_record_auto o flt op body (setch ch s) = lift ch (write_record_auto o flt op body s).
Proof.
  unfold write_record_auto. rewrite in_chunk_setch.
  destruct (in_chunk o s); [apply write_record_chunk_frame | apply write_record_dst_frame].
Qed.

Lemma write_header_frame h ch s :
  write_header o lib_id flt h (setch ch s) = lift ch (write_header o lib_id flt h s).
Proof. unfold write_header. apply write_record_dst_frame. Qed.

Lemma add_schema_setch sc ch s : add_schema sc (setch ch s) = setch ch (add_schema sc s).
Proof.
  unfold add_schema. autorewrite with setch.
  destruct (assoc_get (s_id sc) (w_schemas s)); reflexivity.
Qed.

Lemma write_schema_frame sc ch s :
  write_schema o flt sc (setch ch s) = lift ch (write_schema o flt sc s).
Proof.
  unfold write_schema. destruct (s_id sc =? 0); [reflexivity|].
  fb write_record_auto_frame. rewrite add_schema_setch. reflexivity.
Qed.

Lemma write_msgindexes_frame l : forall offs ch s,
  write_msgindexes o flt l offs (setch ch s) = lift3 ch (write_msgindexes o flt l offs s).
Proof.
  induction l as [|mi r IH]; intros offs ch s; cbn [write_msgindexes]; [reflexivity|].
  destruct (mi_entries mi); [apply IH|].
  autorewrite with setch. unfold write_msgindex. rewrite write_record_dst_frame.
  destruct (write_record_dst o flt OpMessageIndex (enc_msgindex mi) s) as [s1 [e|]]; cbn [lift fst snd];
    [reflexivity | apply IH].
Qed.

Lemma ci_add_setch k a b offs ch s : ci_add k a b offs (setch ch s) = setch ch (ci_add k a b offs s).
Proof. reflexivity. Qed.

Lemma wcwi_frame k mis ch s :
  write_chunk_with_indexes o flt k mis (setch ch s) = lift ch (write_chunk_with_indexes o flt k mis s).
Proof.
  rewrite !wcwi_eq. destruct (k_usize k =? 0); [reflexivity|].
  autorewrite with setch.
  fb dst_write_frame. fb dst_write_frame. fb log_frame.
  autorewrite with setch. unfold wc_indexes.
  destruct (negb (o_skip_mi o)).
  - rewrite write_msgindexes_frame.
    destruct (write_msgindexes o flt mis [] s2) as [[s4 [e|]] offs]; cbn [lift3]; reflexivity.
  - reflexivity.
Qed.

Lemma fl_chunk_setch ch s : fl_chunk (setch ch s) = fl_chunk s.
Proof. reflexivity. Qed.
Lemma fl_mis_setch ch s : fl_mis (setch ch s) = fl_mis s.
Proof. reflexivity. Qed.
Lemma fl_start_setch ch s : fl_start (setch ch s) = setch ch (fl_start s).
Proof. reflexivity. Qed.
Lemma fl_reset_setch ch s : fl_reset (setch ch s) = setch ch (fl_reset s).
Proof. reflexivity. Qed.

Lemma flush_frame ch s :
  flush_active_chunk o compress flt (setch ch s) = lift ch (flush_active_chunk o compress flt s).
Proof.
  rewrite !flush_eq. autorewrite with setch.
  destruct (w_cbuf s); [reflexivity|].
  rewrite fl_chunk_setch, fl_mis_setch, fl_start_setch.
  fb wcwi_frame. rewrite fl_reset_setch. reflexivity.
Qed.

Lemma stats_time_setch lt ch s : stats_time lt (setch ch s) = setch ch (stats_time lt s).
Proof.
  unfold stats_time. autorewrite with setch.
  destruct (w_st_end s <? lt).
  - change (w_st_start (setch ch s <| w_st_end := lt |>)) with (w_st_start s).
    change (w_st_messages (setch ch s <| w_st_end := lt |>)) with (w_st_messages s).
    change (w_st_start (s <| w_st_end := lt |>)) with (w_st_start s).
    change (w_st_messages (s <| w_st_end := lt |>)) with (w_st_messages s).
    destruct ((lt <? w_st_start s) || (w_st_messages s <=? 1)); reflexivity.
  - autorewrite with setch.
    destruct ((lt <? w_st_start s) || (w_st_messages s <=? 1)); reflexivity.
Qed.

Lemma wm_bump_setch m ch s : wm_bump m (setch ch s) = setch ch (wm_bump m s).
Proof. reflexivity. Qed.
Lemma wm_idx_setch m ch s : wm_idx m (setch ch s) = setch ch (wm_idx m s).
Proof. reflexivity. Qed.
Ltac norm_proj p s :=
  repeat match goal with
  | |- context [p ?x] => lazymatch x with s => fail | _ => change (p x) with (p s) end
  end.

Lemma wm_cur_setch m ch s : wm_cur m (setch ch s) = setch ch (wm_cur m s).
Proof.
  unfold wm_cur. cbv zeta.
  norm_proj w_cur_end s. destruct (w_cur_end s <? m_log m);
  norm_proj w_cur_start s; destruct (m_log m <? w_cur_start s); reflexivity.
Qed.

Lemma wm_flush_frame ch s : wm_flush (setch ch s) = lift ch (wm_flush s).
Proof.
  unfold wm_flush. autorewrite with setch.
  destruct (o_chunksize o <? Z.of_N (blen (w_cbuf s)))%Z; [apply flush_frame | reflexivity].
Qed.

Lemma wm_body_frame m ch s : wm_body m (setch ch s) = lift ch (wm_body m s).
Proof.
  unfold wm_body. rewrite in_chunk_setch. destruct (in_chunk o s).
  - rewrite wm_idx_setch. fb write_record_chunk_frame.
    rewrite wm_cur_setch. fb wm_flush_frame.
    rewrite stats_time_setch. reflexivity.
  - fb write_record_dst_frame. rewrite stats_time_setch. reflexivity.
Qed.

Lemma copy_frags_frame fr : forall n ch s,
  copy_frags o flt fr n (setch ch s) = lift3 ch (copy_frags o flt fr n s).
Proof.
  induction fr as [|p r IH]; intros n ch s; cbn [copy_frags]; [reflexivity|].
  rewrite dst_write_frame.
  destruct (dst_write o flt p s) as [s1 [e|]]; cbn [lift fst snd]; [reflexivity | apply IH].
Qed.

Lemma wa_tail_frame a src off n ch s : wa_tail a src off n (setch ch s) = lift ch (wa_tail a src off n s).
Proof.
  unfold wa_tail. destruct (as_fail src); [reflexivity|].
  destruct (negb (n =? a_size a)); [reflexivity|]. cbv zeta.
  fb dst_write_frame. fb log_frame. reflexivity.
Qed.

Lemma write_attachment_frame a src ch s :
  write_attachment o flt a src (setch ch s) = lift ch (write_attachment o flt a src s).
Proof.
  rewrite !write_attachment_eq. autorewrite with setch.
  fb dst_write_frame. fb dst_write_frame.
  rewrite copy_frags_frame.
  destruct (copy_frags o flt (as_frags src) 0 s1) as [[s3 [e|]] n]; cbn [lift3]; [reflexivity|].
  apply wa_tail_frame.
Qed.

Lemma write_metadata_frame m ch s :
  write_metadata o flt m (setch ch s) = lift ch (write_metadata o flt m s).
Proof.
  rewrite !write_metadata_eq. autorewrite with setch.
  fb write_record_dst_frame. reflexivity.
Qed.

Lemma write_all_frame {A} (f : A -> wstate -> wres) :
  (forall x ch s, f x (setch ch s) = lift ch (f x s)) ->
  forall l ch s, write_all f l (setch ch s) = lift ch (write_all f l s).
Proof.
  intros Hf. induction l as [|x r IH]; intros ch s; cbn [write_all]; [reflexivity|].
  apply frame_bind; [apply Hf | intro s1; apply IH].
Qed.

Lemma write_footer_frame ss sos ch s :
  write_footer o flt ss sos (setch ch s) = lift ch (write_footer o flt ss sos s).
Proof.
  unfold write_footer. cbv zeta. fb dst_write_frame.
  change (checksum o (setch ch s0)) with (checksum o s0).
  fb dst_write_frame. apply log_frame.
Qed.

Lemma close_end_frame start offs ch s : close_end start offs (setch ch s) = lift ch (close_end start offs s).
Proof.
  unfold close_end. cbv zeta. autorewrite with setch.
  apply frame_bind.
  - destruct (negb (o_skip_so o) && negb (match offs with [] => true | _ => false end)); [|reflexivity].
    apply write_all_frame. intros; apply write_record_dst_frame.
  - intro s1. fb write_footer_frame. fb dst_write_frame. apply log_frame.
Qed.

(* ====================================================================== *)
(* Part 4: simulation between two runs whose states differ only in the     *)
(* stored channel records (C13)                                            *)
(* ====================================================================== *)

Definition chan_sim (c c' : channel) : Prop :=
  c_id c = c_id c' /\ c_schema c = c_schema c' /\ enc_channel c = enc_channel c'.
Definition chsim (l l' : list (N * channel)) : Prop :=
  Forall2 (fun a b => fst a = fst b /\ chan_sim (snd a) (snd b)) l l'.
Definition sim (s s' : wstate) : Prop := exists ch', s' = setch ch' s /\ chsim (w_channels s) ch'.
Definition simres (r r' : wres) : Prop := sim (fst r) (fst r') /\ snd r = snd r'.
Definition sim3 {A} (r r' : wstate * option err * A) : Prop :=
  sim (fst (fst r)) (fst (fst r')) /\ snd (fst r) = snd (fst r') /\ snd r = snd r'.

Lemma chan_sim_refl c : chan_sim c c.
Proof. repeat split. Qed.
Lemma chsim_refl l : chsim l l.
Proof. induction l; constructor; auto. split; [reflexivity | apply chan_sim_refl]. Qed.
Lemma sim_refl s : sim s s.
Proof. exists (w_channels s). split; [symmetry; apply setch_id | apply chsim_refl]. Qed.

Definition has {A} (k : N) (l : list (N * A)) : bool :=
  match assoc_get k l with Some _ => true | None => false end.

Lemma chsim_has l l' k : chsim l l' -> has k l = has k l'.
Proof.
  unfold has. induction 1 as [|a b l l' [Hk _] _ IH]; cbn [assoc_get]; [reflexivity|].
  rewrite <- Hk. destruct (fst a =? k); [reflexivity | exact IH].
Qed.

Lemma chsim_nonnil l l' : chsim l l' -> nonnil l = nonnil l'.
Proof. destruct 1; reflexivity. Qed.

Lemma chsim_vals l l' : chsim l l' -> Forall2 chan_sim (map snd l) (map snd l').
Proof. induction 1 as [|a b l l' [_ H] _ IH]; cbn [map]; constructor; auto. Qed.

Lemma sim_proj s s' : sim s s' -> s' = setch (w_channels s') s /\ chsim (w_channels s) (w_channels s').
Proof. intros [ch [-> H]]. autorewrite with setch. auto. Qed.

Lemma framed_channels (f : wstate -> wres) :
  (forall ch s, f (setch ch s) = lift ch (f s)) -> forall s, w_channels (fst (f s)) = w_channels s.
Proof.
  intros Hf s. pose proof (Hf (w_channels s) s) as H. rewrite setch_id in H.
  rewrite H at 1. reflexivity.
Qed.

Lemma framed_sim (f : wstate -> wres) :
  (forall ch s, f (setch ch s) = lift ch (f s)) -> forall s s', sim s s' -> simres (f s) (f s').
Proof.
  intros Hf s s' [ch [-> H]]. rewrite Hf. split; [|reflexivity].
  exists ch. split; [reflexivity|]. cbn [lift fst]. rewrite (framed_channels f Hf). exact H.
Qed.

Lemma framed3_sim {A} (f : wstate -> wstate * option err * A) :
  (forall ch s, f (setch ch s) = lift3 ch (f s)) -> forall s s', sim s s' -> sim3 (f s) (f s').
Proof.
  intros Hf s s' [ch [-> H]]. rewrite Hf.
  assert (Hc : w_channels (fst (fst (f s))) = w_channels s).
  { pose proof (Hf (w_channels s) s) as E. rewrite setch_id in E.
    destruct (f s) as [[t e] x]. cbn [lift3] in E. cbn [fst].
    injection E as E1. rewrite E1. reflexivity. }
  destruct (f s) as [[t e] x]. unfold sim3. cbn [lift3 fst snd] in *.
  repeat split. exists ch. split; [reflexivity|]. rewrite Hc. exact H.
Qed.

Lemma simres_bind x x' k k' :
  simres x x' -> (forall t t', sim t t' -> simres (k t) (k' t')) -> simres (bindw x k) (bindw x' k').
Proof.
  destruct x as [t e], x' as [t' e']. intros [Hs He] Hk. cbn [fst snd] in *. subst e'.
  destruct e as [e|]; cbn [bindw]; [split; auto | apply Hk, Hs].
Qed.

Lemma sim_upd (u : wstate -> wstate) :
  (forall ch s, u (setch ch s) = setch ch (u s)) -> forall s s', sim s s' -> sim (u s) (u s').
Proof.
  intros Hu s s' H.
  pose proof (framed_sim (fun s => (u s, None)) (fun ch s => f_equal (fun x => (x, None)) (Hu ch s)) s s' H) as [H1 _].
  exact H1.
Qed.

Lemma add_channel_sim c c' s s' : chan_sim c c' -> sim s s' -> sim (add_channel c s) (add_channel c' s').
Proof.
  intros (Hid & Hsc & Henc) [ch [-> H]]. unfold add_channel. autorewrite with setch. rewrite <- Hid.
  pose proof (chsim_has _ _ (c_id c) H) as Hh. unfold has in Hh.
  destruct (assoc_get (c_id c) (w_channels s)), (assoc_get (c_id c) ch); try discriminate.
  - exists ch. auto.
  - exists (ch ++ [(c_id c, c')]). split; [reflexivity|].
    change (chsim (w_channels s ++ [(c_id c, c)]) (ch ++ [(c_id c, c')])).
    apply Forall2_app; [exact H|]. constructor; [|constructor].
    cbn [fst snd]. repeat split; auto.
Qed.

Lemma write_channel_sim c c' s s' :
  chan_sim c c' -> sim s s' -> simres (write_channel o flt c s) (write_channel o flt c' s').
Proof.
  intros Hc Hs. pose proof Hc as (Hid & Hsc & Henc).
  unfold write_channel. rewrite <- Hsc, <- Henc.
  assert (E : w_schemas s' = w_schemas s) by (destruct Hs as [ch [-> _]]; reflexivity).
  rewrite E.
  destruct ((0 <? c_schema c) &&
            negb (match assoc_get (c_schema c) (w_schemas s) with Some _ => true | None => false end)).
  - split; [exact Hs | reflexivity].
  - apply simres_bind.
    + apply framed_sim; [intros; apply write_record_auto_frame | exact Hs].
    + intros t t' Ht. split; [|reflexivity]. cbn [fst]. apply add_channel_sim; assumption.
Qed.

Lemma write_all_channel_sim l l' :
  Forall2 chan_sim l l' -> forall s s', sim s s' ->
  simres (write_all (write_channel o flt) l s) (write_all (write_channel o flt) l' s').
Proof.
  induction 1 as [|c c' l l' Hc _ IH]; intros s s' Hs; cbn [write_all].
  - split; [exact Hs | reflexivity].
  - apply simres_bind; [apply write_channel_sim; assumption | exact IH].
Qed.

Lemma write_message_sim m s s' :
  sim s s' -> simres (write_message o compress flt m s) (write_message o compress flt m s').
Proof.
  intro Hs. rewrite !write_message_eq.
  pose proof (sim_proj _ _ Hs) as [_ Hc].
  pose proof (chsim_has _ _ (m_chan m) Hc) as Hh. unfold has in Hh.
  destruct (assoc_get (m_chan m) (w_channels s)), (assoc_get (m_chan m) (w_channels s')); try discriminate.
  - apply (framed_sim (fun s => wm_body m (wm_bump m s))); [|exact Hs].
    intros ch t. rewrite wm_bump_setch. apply wm_body_frame.
  - split; [exact Hs | reflexivity].
Qed.

(* summary *)
Lemma grp_sim cond op w x x' :
  sim3 x x' ->
  (forall s s', sim s s' -> cond s = cond s') ->
  (forall s s', sim s s' -> simres (w s) (w s')) ->
  sim3 (grp cond op w x) (grp cond op w x').
Proof.
  destruct x as [[s e] offs], x' as [[s' e'] offs']. intros (Hs & He & Ho) Hc Hw.
  cbn [fst snd] in *. subst e' offs'. unfold grp.
  destruct e as [e|]; [repeat split; auto|].
  rewrite <- (Hc _ _ Hs). destruct (cond s); [|repeat split; auto].
  pose proof (Hw _ _ Hs) as [H1 H2].
  assert (Hz : w_size s' = w_size s) by (destruct Hs as [ch [-> _]]; reflexivity).
  destruct (w s) as [t r], (w s') as [t' r']. cbn [fst snd] in *. subst r'.
  destruct r as [r|]; cbn [fst snd]; repeat split; auto.
  rewrite Hz. unfold group.
  assert (Hz' : w_size t' = w_size t) by (destruct H1 as [ch [-> _]]; reflexivity).
  rewrite Hz'. reflexivity.
Qed.

Lemma cond_sim_simple (c : wstate -> bool) :
  (forall ch s, c (setch ch s) = c s) -> forall s s', sim s s' -> c s = c s'.
Proof. intros H s s' [ch [-> _]]. symmetry. apply H. Qed.

Lemma write_summary_sim s s' : sim s s' -> sim3 (write_summary o flt s) (write_summary o flt s').
Proof.
  intro Hs. rewrite !write_summary_grp.
  apply grp_sim; [apply grp_sim; [apply grp_sim; [apply grp_sim; [apply grp_sim; [apply grp_sim|..]|..]|..]|..]|..].
  - repeat split; auto.
  - apply cond_sim_simple. reflexivity.
  - apply framed_sim. intros ch t. unfold g_sch. autorewrite with setch.
    apply write_all_frame. intros; apply write_schema_frame.
  - intros t t' Ht. unfold c_chn. apply sim_proj in Ht. destruct Ht as [_ Ht].
    rewrite (chsim_nonnil _ _ Ht). reflexivity.
  - intros t t' Ht. unfold g_chn. apply write_all_channel_sim; [|exact Ht].
    apply chsim_vals. apply sim_proj in Ht. apply Ht.
  - apply cond_sim_simple. reflexivity.
  - apply framed_sim. intros ch t. unfold g_sta.
    change (stats_record (setch ch t)) with (stats_record t). apply write_record_dst_frame.
  - apply cond_sim_simple. reflexivity.
  - apply framed_sim. intros ch t. unfold g_cix. autorewrite with setch.
    apply write_all_frame. intros; apply write_record_dst_frame.
  - apply cond_sim_simple. reflexivity.
  - apply framed_sim. intros ch t. unfold g_aix. autorewrite with setch.
    apply write_all_frame. intros; apply write_record_dst_frame.
  - apply cond_sim_simple. reflexivity.
  - apply framed_sim. intros ch t. unfold g_mdx. autorewrite with setch.
    apply write_all_frame. intros; apply write_record_dst_frame.
Qed.

Lemma close_sim s s' : sim s s' -> simres (close o compress flt s) (close o compress flt s').
Proof.
  intro Hs. rewrite !close_eq. apply simres_bind.
  - apply (framed_sim (fun s => if o_chunked o then flush_active_chunk o compress flt s else (s, None))); [|exact Hs].
    intros ch t. destruct (o_chunked o); [apply flush_frame | reflexivity].
  - clear s s' Hs. intros s s' Hs. unfold close_tail. apply simres_bind.
    + apply (framed_sim (fun s => write_record_dst o flt OpDataEnd
                (enc_dataend {| de_crc := checksum o (set_closed s) |}) (set_closed s))); [|exact Hs].
      intros ch t. change (checksum o (set_closed (setch ch t))) with (checksum o (set_closed t)).
      change (set_closed (setch ch t)) with (setch ch (set_closed t)). apply write_record_dst_frame.
    + clear s s' Hs. intros s s' Hs. unfold close_sum.
      assert (Hr : sim (reset_crc s) (reset_crc s')) by (apply sim_upd; [reflexivity | exact Hs]).
      assert (Hz : w_size (reset_crc s') = w_size (reset_crc s)) by (destruct Hr as [ch [-> _]]; reflexivity).
      rewrite Hz.
      pose proof (write_summary_sim _ _ Hr) as (H1 & H2 & H3).
      destruct (write_summary o flt (reset_crc s)) as [[t e] offs].
      destruct (write_summary o flt (reset_crc s')) as [[t' e'] offs'].
      cbn [fst snd] in *. subst e' offs'.
      destruct e as [e|]; [split; auto|].
      apply framed_sim; [intros; apply close_end_frame | exact H1].
Qed.

Inductive call_equiv : wcall -> wcall -> Prop :=
| ce_refl c : call_equiv c c
| ce_channel c c' : c_id c = c_id c' -> c_schema c = c_schema c' -> c_topic c = c_topic c' -> c_menc c = c_menc c' ->
    NoDup (map fst (c_meta c)) -> Permutation (c_meta c) (c_meta c') -> call_equiv (CChannel c) (CChannel c')
| ce_metadata m m' : md_name m = md_name m' -> NoDup (map fst (md_meta m)) -> Permutation (md_meta m) (md_meta m') ->
    call_equiv (CMetadata m) (CMetadata m').

Lemma step_sim_refl c s s' :
  sim s s' -> simres (step o lib_id compress flt c s) (step o lib_id compress flt c s').
Proof.
  intro Hs. destruct c as [h|sc|c|m|a src|m|]; cbn [step].
  - apply framed_sim; [intros; apply write_header_frame | exact Hs].
  - apply framed_sim; [intros; apply write_schema_frame | exact Hs].
  - apply write_channel_sim; [apply chan_sim_refl | exact Hs].
  - apply write_message_sim, Hs.
  - apply framed_sim; [intros; apply write_attachment_frame | exact Hs].
  - apply framed_sim; [intros; apply write_metadata_frame | exact Hs].
  - apply close_sim, Hs.
Qed.

Lemma step_sim c c' s s' :
  call_equiv c c' -> sim s s' -> simres (step o lib_id compress flt c s) (step o lib_id compress flt c' s').
Proof.
  intros Hc Hs. destruct Hc as [c | c c' H1 H2 H3 H4 Hd Hp | m m' H1 Hd Hp].
  - apply step_sim_refl, Hs.
  - cbn [step]. apply write_channel_sim; [|exact Hs].
    repeat split; auto. unfold enc_channel.
    rewrite H1, H2, H3, H4, (enc_map_perm _ _ Hd Hp). reflexivity.
  - cbn [step]. rewrite !write_metadata_eq.
    assert (E : enc_metadata m' = enc_metadata m).
    { unfold enc_metadata. rewrite H1, (enc_map_perm _ _ Hd Hp). reflexivity. }
    rewrite E, <- H1. rewrite <- !write_metadata_eq.
    apply framed_sim; [intros; apply write_metadata_frame | exact Hs].
Qed.

Lemma run_calls_sim cs cs' :
  Forall2 call_equiv cs cs' -> forall s s' acc, sim s s' ->
  sim (fst (run_calls o lib_id compress flt cs s acc)) (fst (run_calls o lib_id compress flt cs' s' acc)) /\
  snd (run_calls o lib_id compress flt cs s acc) = snd (run_calls o lib_id compress flt cs' s' acc).
Proof.
  induction 1 as [|c c' cs cs' Hc _ IH]; intros s s' acc Hs; cbn [run_calls].
  - split; [exact Hs | reflexivity].
  - pose proof (step_sim _ _ _ _ Hc Hs) as [H1 H2].
    destruct (step o lib_id compress flt c s) as [t e], (step o lib_id compress flt c' s') as [t' e'].
    cbn [fst snd] in *. subst e'.
    assert (Hn : w_nw t' = w_nw t) by (destruct H1 as [ch [-> _]]; reflexivity).
    rewrite Hn. apply IH, H1.
Qed.

(* ====================================================================== *)
(* Part 5: statistics (C08)                                                *)
(* ====================================================================== *)

(* ---- the true aggregates of a list of calls ---- *)
Definition is_message (c : wcall) : bool := match c with CMessage _ => true | _ => false end.
Definition is_message_on (ch : N) (c : wcall) : bool := match c with CMessage m => m_chan m =? ch | _ => false end.
Definition is_attachment (c : wcall) : bool := match c with CAttachment _ _ => true | _ => false end.
Definition is_metadata (c : wcall) : bool := match c with CMetadata _ => true | _ => false end.
Definition count_calls (p : wcall -> bool) (cs : list wcall) : N := N.of_nat (length (filter p cs)).
Definition schema_ids (cs : list wcall) : list N :=
  flat_map (fun c => match c with CSchema sc => [s_id sc] | _ => [] end) cs.
Definition channel_ids (cs : list wcall) : list N :=
  flat_map (fun c => match c with CChannel c => [c_id c] | _ => [] end) cs.
Definition log_times (cs : list wcall) : list N :=
  flat_map (fun c => match c with CMessage m => [m_log m] | _ => [] end) cs.
Definition distinct (l : list N) : N := N.of_nat (length (nodup N.eq_dec l)).
Definition min_of (l : list N) : N := match l with [] => 0 | t :: r => fold_left N.min r t end.
Definition max_of (l : list N) : N := match l with [] => 0 | t :: r => fold_left N.max r t end.

Record aggregates := {
  ag_messages : N;                (* number of WriteMessage calls *)
  ag_messages_on : N -> N;        (* ... per channel id *)
  ag_schemas : N;                 (* distinct schema ids written *)
  ag_channels : N;                (* distinct channel ids written *)
  ag_attachments : N;
  ag_metadata : N;
  ag_start : N;                   (* earliest log time, 0 when there is no message *)
  ag_end : N                      (* latest log time, 0 when there is no message *)
}.
Definition true_stats (cs : list wcall) : aggregates :=
  {| ag_messages := count_calls is_message cs;
     ag_messages_on := fun ch => count_calls (is_message_on ch) cs;
     ag_schemas := distinct (schema_ids cs);
     ag_channels := distinct (channel_ids cs);
     ag_attachments := count_calls is_attachment cs;
     ag_metadata := count_calls is_metadata cs;
     ag_start := min_of (log_times cs);
     ag_end := max_of (log_times cs) |}.

Definition on_opt (n : N) : option N := if n =? 0 then None else Some n.

Definition stats_correct (cs : list wcall) (s : wstate) : Prop :=
  let a := true_stats cs in
  w_st_messages s = ag_messages a /\
  (forall ch, nn_get ch (w_st_counts s) = on_opt (ag_messages_on a ch)) /\
  w_st_schemas s = ag_schemas a /\
  w_st_channels s = ag_channels a /\
  w_st_attachments s = ag_attachments a /\
  w_st_metadata s = ag_metadata a /\
  w_st_chunks s = N.of_nat (length (w_chunk_indexes s)) /\
  w_st_start s = ag_start a /\
  w_st_end s = ag_end a.

(* ---- snoc lemmas for the aggregates ---- *)
Lemma count_calls_snoc p pre c : count_calls p (pre ++ [c]) = count_calls p pre + (if p c then 1 else 0).
Proof.
  unfold count_calls. rewrite filter_app, app_length. cbn [filter].
  destruct (p c); cbn [length]; lia.
Qed.
Lemma schema_ids_snoc pre c :
  schema_ids (pre ++ [c]) = schema_ids pre ++ match c with CSchema sc => [s_id sc] | _ => [] end.
Proof. unfold schema_ids. rewrite flat_map_app. cbn [flat_map]. rewrite app_nil_r. reflexivity. Qed.
Lemma channel_ids_snoc pre c :
  channel_ids (pre ++ [c]) = channel_ids pre ++ match c with CChannel c => [c_id c] | _ => [] end.
Proof. unfold channel_ids. rewrite flat_map_app. cbn [flat_map]. rewrite app_nil_r. reflexivity. Qed.
Lemma log_times_snoc pre c :
  log_times (pre ++ [c]) = log_times pre ++ match c with CMessage m => [m_log m] | _ => [] end.
Proof. unfold log_times. rewrite flat_map_app. cbn [flat_map]. rewrite app_nil_r. reflexivity. Qed.

Lemma nodup_snoc_length (l : list N) x :
  length (nodup N.eq_dec (l ++ [x])) = (length (nodup N.eq_dec l) + (if in_dec N.eq_dec x l then 0 else 1))%nat.
Proof.
  induction l as [|a l IH]; cbn [app nodup].
  - destruct (in_dec N.eq_dec x []) as [[]|]; reflexivity.
  - destruct (in_dec N.eq_dec a (l ++ [x])) as [Hi|Hi]; destruct (in_dec N.eq_dec a l) as [Hi'|Hi'];
      cbn [length]; rewrite IH;
      destruct (in_dec N.eq_dec x l) as [Hx|Hx]; destruct (in_dec N.eq_dec x (a :: l)) as [Hy|Hy];
      try lia; exfalso; rewrite ?in_app_iff in *; cbn [In] in *; intuition (subst; auto).
Qed.

Lemma distinct_snoc l x : distinct (l ++ [x]) = distinct l + (if in_dec N.eq_dec x l then 0 else 1).
Proof. unfold distinct. rewrite nodup_snoc_length. destruct (in_dec N.eq_dec x l); lia. Qed.

Lemma min_of_snoc l x : min_of (l ++ [x]) = match l with [] => x | _ => N.min (min_of l) x end.
Proof. destruct l as [|t r]; [reflexivity|]. cbn [app min_of]. rewrite fold_left_app. reflexivity. Qed.
Lemma max_of_snoc l x : max_of (l ++ [x]) = match l with [] => x | _ => N.max (max_of l) x end.
Proof. destruct l as [|t r]; [reflexivity|]. cbn [app max_of]. rewrite fold_left_app. reflexivity. Qed.

Lemma log_times_nil_iff cs : log_times cs = [] <-> count_calls is_message cs = 0.
Proof.
  unfold log_times, count_calls. induction cs as [|c cs IH]; cbn [flat_map filter]; [split; reflexivity|].
  destruct c; cbn [is_message app length]; try exact IH. split; [discriminate | lia].
Qed.

(* ---- nn_get / nn_set ---- *)
Lemma nn_get_set_same k v l : nn_get k (nn_set k v l) = Some v.
Proof.
  induction l as [|x r IH]; cbn [nn_set nn_get fst snd].
  - rewrite N.eqb_refl. reflexivity.
  - destruct (fst x =? k) eqn:E; cbn [nn_get fst snd].
    + rewrite N.eqb_refl. reflexivity.
    + destruct (k <? fst x); cbn [nn_get fst snd].
      * rewrite N.eqb_refl. reflexivity.
      * rewrite E. exact IH.
Qed.
Lemma nn_get_set_other k k' v l : k' <> k -> nn_get k' (nn_set k v l) = nn_get k' l.
Proof.
  intro Hne. assert (Hk : (k =? k') = false) by (apply N.eqb_neq; congruence).
  induction l as [|x r IH]; cbn [nn_set nn_get fst snd].
  - rewrite Hk. reflexivity.
  - destruct (fst x =? k) eqn:E; cbn [nn_get fst snd].
    + rewrite Hk. apply N.eqb_eq in E. rewrite E, Hk. reflexivity.
    + destruct (k <? fst x); cbn [nn_get fst snd].
      * rewrite Hk. reflexivity.
      * destruct (fst x =? k'); [reflexivity | exact IH].
Qed.

(* ---- assoc lists ---- *)
Lemma has_app {A} k (l : list (N * A)) x :
  has k (l ++ [x]) = has k l || (fst x =? k).
Proof.
  unfold has. induction l as [|a l IH]; cbn [app assoc_get].
  - destruct (fst x =? k); reflexivity.
  - destruct (fst a =? k); [reflexivity | exact IH].
Qed.
Lemma in_has {A} k (v : A) l : In (k, v) l -> has k l = true.
Proof.
  unfold has. induction l as [|a l IH]; [intros []|]. intros [H|H]; cbn [assoc_get].
  - subst a. cbn [fst]. rewrite N.eqb_refl. reflexivity.
  - destruct (fst a =? k); [reflexivity | apply IH, H].
Qed.

(* ---- the part of the state the statistics proof looks at ---- *)
Definition vA (s : wstate) :=
  (w_st_messages s, w_st_counts s, w_st_schemas s, w_st_channels s, w_st_attachments s, w_st_metadata s,
   w_st_start s, w_st_end s, w_channels s, w_schemas s, w_channel_ids s).
Definition vC (s : wstate) := (w_st_chunks s, w_chunk_indexes s).
Definition ck (s : wstate) : Prop := w_st_chunks s = N.of_nat (length (w_chunk_indexes s)).
(* strong preservation: all of it, and the ghost trace only grows *)
Definition pres (s t : wstate) : Prop := vA t = vA s /\ vC t = vC s /\ incl (w_trace s) (w_trace t).
(* weak preservation: chunk count and chunk index list may grow together *)
Definition rel (s t : wstate) : Prop := vA t = vA s /\ (ck s -> ck t).

Lemma pres_refl s : pres s s.
Proof. repeat split. apply incl_refl. Qed.
Lemma pres_trans s t u : pres s t -> pres t u -> pres s u.
Proof. intros (A1 & C1 & T1) (A2 & C2 & T2). repeat split; try congruence. eapply incl_tran; eassumption. Qed.
Lemma rel_refl s : rel s s.
Proof. split; auto. Qed.
Lemma rel_trans s t u : rel s t -> rel t u -> rel s u.
Proof. intros (A1 & C1) (A2 & C2). split; [congruence | auto]. Qed.
Lemma pres_rel s t : pres s t -> rel s t.
Proof. intros (A1 & C1 & _). split; [exact A1|]. unfold ck, vC in *. injection C1 as -> ->. auto. Qed.

Lemma vA_fields s t : vA t = vA s ->
  w_st_messages t = w_st_messages s /\ w_st_counts t = w_st_counts s /\ w_st_schemas t = w_st_schemas s /\
  w_st_channels t = w_st_channels s /\ w_st_attachments t = w_st_attachments s /\
  w_st_metadata t = w_st_metadata s /\ w_st_start t = w_st_start s /\ w_st_end t = w_st_end s /\
  w_channels t = w_channels s /\ w_schemas t = w_schemas s /\ w_channel_ids t = w_channel_ids s.
Proof. unfold vA. intro H. injection H as -> -> -> -> -> -> -> -> -> -> ->. repeat split. Qed.

Lemma bindw_ok x k t : bindw x k = (t, None) -> exists s1, x = (s1, None) /\ k s1 = (t, None).
Proof. destruct x as [s1 [e|]]; cbn [bindw]; [discriminate | eauto]. Qed.

Lemma pres_bind s x k : pres s (fst x) -> (forall s1, pres s1 (fst (k s1))) -> pres s (fst (bindw x k)).
Proof.
  destruct x as [s1 [e|]]; cbn [bindw fst]; intros H Hk; [exact H|].
  eapply pres_trans; [exact H | apply Hk].
Qed.
Lemma rel_bind s x k : rel s (fst x) -> (forall s1, rel s1 (fst (k s1))) -> rel s (fst (bindw x k)).
Proof.
  destruct x as [s1 [e|]]; cbn [bindw fst]; intros H Hk; [exact H|].
  eapply rel_trans; [exact H | apply Hk].
Qed.

Ltac pb lem := apply pres_bind; [apply lem | let s := fresh "s" in intro s; cbv beta zeta].

Lemma dst_write_pres p s : pres s (fst (dst_write o flt p s)).
Proof.
  unfold dst_write.
  match goal with |- context [if ?c then _ else _] => destruct c end; cbn [fst]; repeat split; apply incl_refl.
Qed.
Lemma chunk_write_pres p s : pres s (fst (chunk_write p s)).
Proof. repeat split. apply incl_refl. Qed.
Lemma log_pres it s : pres s (fst (log it s)).
Proof. repeat split. apply incl_tl, incl_refl. Qed.
Lemma write_record_dst_pres op body s : pres s (fst (write_record_dst o flt op body s)).
Proof. unfold write_record_dst. pb dst_write_pres. pb dst_write_pres. apply log_pres. Qed.
Lemma write_record_chunk_pres op body s : pres s (fst (write_record_chunk op body s)).
Proof. unfold write_record_chunk. pb chunk_write_pres. apply chunk_write_pres. Qed.
Lemma write_record_auto_pres op body s : pres s (fst (write_record_auto o flt op body s)).
Proof.
  unfold write_record_auto. destruct (in_chunk o s); [apply write_record_chunk_pres | apply write_record_dst_pres].
Qed.
Lemma write_header_pres h s : pres s (fst (write_header o lib_id flt h s)).
Proof. apply write_record_dst_pres. Qed.
Lemma write_all_pres {A} (f : A -> wstate -> wres) :
  (forall x s, pres s (fst (f x s))) -> forall l s, pres s (fst (write_all f l s)).
Proof.
  intros Hf. induction l as [|x r IH]; intro s; cbn [write_all]; [apply pres_refl|].
  apply pres_bind; [apply Hf | exact IH].
Qed.
Lemma write_footer_pres ss sos s : pres s (fst (write_footer o flt ss sos s)).
Proof. unfold write_footer. cbv zeta. pb dst_write_pres. pb dst_write_pres. apply log_pres. Qed.
Lemma close_end_pres start offs s : pres s (fst (close_end start offs s)).
Proof.
  unfold close_end. cbv zeta. apply pres_bind.
  - destruct (negb (o_skip_so o) && negb (match offs with [] => true | _ => false end)); [|apply pres_refl].
    apply write_all_pres. intros; apply write_record_dst_pres.
  - intro s1. pb write_footer_pres. pb dst_write_pres. apply log_pres.
Qed.
Lemma write_msgindexes_pres l : forall offs s, pres s (fst (fst (write_msgindexes o flt l offs s))).
Proof.
  induction l as [|mi r IH]; intros offs s; cbn [write_msgindexes]; [apply pres_refl|].
  destruct (mi_entries mi); [apply IH|].
  pose proof (write_record_dst_pres OpMessageIndex (enc_msgindex mi) s) as H. unfold write_msgindex.
  destruct (write_record_dst o flt OpMessageIndex (enc_msgindex mi) s) as [s1 [e|]]; cbn [fst] in *; [exact H|].
  eapply pres_trans; [exact H | apply IH].
Qed.
Lemma copy_frags_pres fr : forall n s, pres s (fst (fst (copy_frags o flt fr n s))).
Proof.
  induction fr as [|p r IH]; intros n s; cbn [copy_frags]; [apply pres_refl|].
  pose proof (dst_write_pres p s) as H.
  destruct (dst_write o flt p s) as [s1 [e|]]; cbn [fst] in *; [exact H|].
  eapply pres_trans; [exact H | apply IH].
Qed.

(* chunks *)
Lemma ci_add_rel k a b offs s : rel s (ci_add k a b offs s).
Proof.
  split; [reflexivity|]. unfold ck, ci_add. cbn. intro H. rewrite H, app_length. cbn [length]. lia.
Qed.
Lemma wcwi_rel k mis s : rel s (fst (write_chunk_with_indexes o flt k mis s)).
Proof.
  rewrite wcwi_eq. destruct (k_usize k =? 0); [apply rel_refl|].
  apply rel_bind; [apply pres_rel, dst_write_pres | intro s1].
  apply rel_bind; [apply pres_rel, dst_write_pres | intro s2].
  apply rel_bind; [apply pres_rel, log_pres | intro s3].
  assert (H : pres s3 (fst (fst (wc_indexes mis s3)))).
  { unfold wc_indexes. destruct (negb (o_skip_mi o)); [apply write_msgindexes_pres | apply pres_refl]. }
  destruct (wc_indexes mis s3) as [[s4 [e|]] offs]; cbn [fst] in *.
  - apply pres_rel, H.
  - eapply rel_trans; [apply pres_rel, H | apply ci_add_rel].
Qed.
Lemma flush_rel s : rel s (fst (flush_active_chunk o compress flt s)).
Proof.
  rewrite flush_eq. destruct (w_cbuf s); [apply rel_refl|].
  apply (rel_trans _ (fl_start s)); [split; [reflexivity | auto]|].
  apply rel_bind; [apply wcwi_rel | intro s1]. split; [reflexivity | auto].
Qed.

(* ---- effect of each successful call ---- *)
Lemma write_schema_ok sc s t :
  write_schema o flt sc s = (t, None) -> exists s1, pres s s1 /\ t = add_schema sc s1.
Proof.
  unfold write_schema. destruct (s_id sc =? 0); [discriminate|]. intro H.
  apply bindw_ok in H. destruct H as (s1 & H1 & H2). exists s1. split.
  - pose proof (write_record_auto_pres OpSchema (enc_schema sc) s) as P. rewrite H1 in P. exact P.
  - congruence.
Qed.
Lemma add_schema_present sc s : has (s_id sc) (w_schemas s) = true -> add_schema sc s = s.
Proof. unfold has, add_schema. destruct (assoc_get (s_id sc) (w_schemas s)); [reflexivity | discriminate]. Qed.
Lemma write_schema_present sc s :
  has (s_id sc) (w_schemas s) = true -> pres s (fst (write_schema o flt sc s)).
Proof.
  intro Hh. unfold write_schema. destruct (s_id sc =? 0); [apply pres_refl|].
  pose proof (write_record_auto_pres OpSchema (enc_schema sc) s) as P.
  destruct (write_record_auto o flt OpSchema (enc_schema sc) s) as [s1 [e|]]; cbn [bindw fst] in *; [exact P|].
  rewrite add_schema_present; [exact P|].
  destruct P as (PA & _). apply vA_fields in PA. destruct PA as (_&_&_&_&_&_&_&_&_&E&_). rewrite E. exact Hh.
Qed.

Lemma write_channel_ok c s t :
  write_channel o flt c s = (t, None) -> exists s1, pres s s1 /\ t = add_channel c s1.
Proof.
  unfold write_channel.
  destruct ((0 <? c_schema c) && negb (match assoc_get (c_schema c) (w_schemas s) with Some _ => true | None => false end));
    [discriminate|]. intro H.
  apply bindw_ok in H. destruct H as (s1 & H1 & H2). exists s1. split.
  - pose proof (write_record_auto_pres OpChannel (enc_channel c) s) as P. rewrite H1 in P. exact P.
  - congruence.
Qed.
Lemma add_channel_present c s : has (c_id c) (w_channels s) = true -> add_channel c s = s.
Proof. unfold has, add_channel. destruct (assoc_get (c_id c) (w_channels s)); [reflexivity | discriminate]. Qed.
Lemma write_channel_present c s :
  has (c_id c) (w_channels s) = true -> pres s (fst (write_channel o flt c s)).
Proof.
  intro Hh. unfold write_channel.
  destruct ((0 <? c_schema c) && negb (match assoc_get (c_schema c) (w_schemas s) with Some _ => true | None => false end));
    [apply pres_refl|].
  pose proof (write_record_auto_pres OpChannel (enc_channel c) s) as P.
  destruct (write_record_auto o flt OpChannel (enc_channel c) s) as [s1 [e|]]; cbn [bindw fst] in *; [exact P|].
  rewrite add_channel_present; [exact P|].
  destruct P as (PA & _). apply vA_fields in PA. destruct PA as (_&_&_&_&_&_&_&_&E&_&_). rewrite E. exact Hh.
Qed.

Lemma wm_body_ok m s t :
  wm_body m s = (t, None) -> exists s2, rel s s2 /\ t = stats_time (m_log m) s2.
Proof.
  unfold wm_body. destruct (in_chunk o s); intro H.
  - apply bindw_ok in H. destruct H as (s1 & H1 & H).
    apply bindw_ok in H. destruct H as (s2 & H2 & H).
    exists s2. split; [|congruence].
    apply (rel_trans _ (wm_idx m s)); [split; [reflexivity | auto]|].
    apply (rel_trans _ s1).
    { pose proof (write_record_chunk_pres OpMessage (enc_message m) (wm_idx m s)) as P. rewrite H1 in P.
      apply pres_rel, P. }
    apply (rel_trans _ (wm_cur m s1)).
    { unfold wm_cur. cbv zeta.
      repeat match goal with |- context [if ?c then _ else _] => destruct c end; split; try reflexivity; auto. }
    unfold wm_flush in H2.
    destruct (o_chunksize o <? Z.of_N (blen (w_cbuf (wm_cur m s1))))%Z.
    + pose proof (flush_rel (wm_cur m s1)) as P. rewrite H2 in P. exact P.
    + injection H2 as <-. apply rel_refl.
  - apply bindw_ok in H. destruct H as (s1 & H1 & H). exists s1. split; [|congruence].
    pose proof (write_record_dst_pres OpMessage (enc_message m) s) as P. rewrite H1 in P. apply pres_rel, P.
Qed.

Lemma write_message_ok m s t :
  write_message o compress flt m s = (t, None) ->
  has (m_chan m) (w_channels s) = true /\ exists s2, rel (wm_bump m s) s2 /\ t = stats_time (m_log m) s2.
Proof.
  rewrite write_message_eq. unfold has.
  destruct (assoc_get (m_chan m) (w_channels s)); [|discriminate].
  intro H. split; [reflexivity | apply wm_body_ok, H].
Qed.

Lemma write_attachment_ok a src s t :
  write_attachment o flt a src s = (t, None) -> exists s5, pres s s5 /\ t = wa_idx a (w_size s) s5.
Proof.
  rewrite write_attachment_eq. intro H.
  apply bindw_ok in H. destruct H as (s1 & H1 & H).
  apply bindw_ok in H. destruct H as (s2 & H2 & H).
  pose proof (dst_write_pres (frame_head OpAttachment ((blen (enc_attachment_fields a) + a_size a + 4) mod two64)) s) as P1.
  rewrite H1 in P1.
  pose proof (dst_write_pres (enc_attachment_fields a) s1) as P2. rewrite H2 in P2.
  pose proof (copy_frags_pres (as_frags src) 0 s2) as P3.
  destruct (copy_frags o flt (as_frags src) 0 s2) as [[s3 [e|]] n]; [discriminate|]. cbn [fst] in *.
  unfold wa_tail in H. destruct (as_fail src); [discriminate|].
  destruct (negb (n =? a_size a)); [discriminate|]. cbv zeta in H.
  apply bindw_ok in H. destruct H as (s4 & H4 & H).
  apply bindw_ok in H. destruct H as (s5 & H5 & H).
  match type of H4 with dst_write _ _ ?p _ = _ => pose proof (dst_write_pres p s3) as P4 end. rewrite H4 in P4.
  match type of H5 with log ?it _ = _ => pose proof (log_pres it s4) as P5 end. rewrite H5 in P5.
  exists s5. split; [|congruence].
  eapply pres_trans; [exact P1|]. eapply pres_trans; [exact P2|]. eapply pres_trans; [exact P3|].
  eapply pres_trans; [exact P4 | exact P5].
Qed.

Lemma write_metadata_ok m s t :
  write_metadata o flt m s = (t, None) ->
  exists s1, pres s s1 /\ t = wmd_idx (md_name m) (enc_metadata m) (w_size s) s1.
Proof.
  rewrite write_metadata_eq. intro H. apply bindw_ok in H. destruct H as (s1 & H1 & H).
  exists s1. split; [|congruence].
  pose proof (write_record_dst_pres OpMetadata (enc_metadata m) s) as P. rewrite H1 in P. exact P.
Qed.

(* ---- Close ---- *)
Definition wfkeys (s : wstate) : Prop :=
  Forall (fun p => fst p = s_id (snd p)) (w_schemas s) /\ Forall (fun p => fst p = c_id (snd p)) (w_channels s).

Lemma wfkeys_pres s t : pres s t -> wfkeys s -> wfkeys t.
Proof.
  intros (PA & _) [H1 H2]. apply vA_fields in PA. destruct PA as (_&_&_&_&_&_&_&_&E1&E2&_).
  unfold wfkeys. rewrite E1, E2. auto.
Qed.

Lemma write_all_schema_pres l : forall s,
  (forall sc, In sc l -> has (s_id sc) (w_schemas s) = true) ->
  pres s (fst (write_all (write_schema o flt) l s)).
Proof.
  induction l as [|sc r IH]; intros s Hl; cbn [write_all]; [apply pres_refl|].
  pose proof (write_schema_present sc s (Hl sc (or_introl eq_refl))) as P.
  destruct (write_schema o flt sc s) as [s1 [e|]]; cbn [bindw fst] in *; [exact P|].
  eapply pres_trans; [exact P|]. apply IH. intros sc' Hi.
  destruct P as (PA & _). apply vA_fields in PA. destruct PA as (_&_&_&_&_&_&_&_&_&E&_). rewrite E.
  apply Hl. right. exact Hi.
Qed.
Lemma write_all_channel_pres l : forall s,
  (forall c, In c l -> has (c_id c) (w_channels s) = true) ->
  pres s (fst (write_all (write_channel o flt) l s)).
Proof.
  induction l as [|c r IH]; intros s Hl; cbn [write_all]; [apply pres_refl|].
  pose proof (write_channel_present c s (Hl c (or_introl eq_refl))) as P.
  destruct (write_channel o flt c s) as [s1 [e|]]; cbn [bindw fst] in *; [exact P|].
  eapply pres_trans; [exact P|]. apply IH. intros c' Hi.
  destruct P as (PA & _). apply vA_fields in PA. destruct PA as (_&_&_&_&_&_&_&_&E&_&_). rewrite E.
  apply Hl. right. exact Hi.
Qed.

Lemma g_sch_pres s : wfkeys s -> pres s (fst (g_sch s)).
Proof.
  intros [H _]. unfold g_sch. apply write_all_schema_pres. intros sc Hi.
  apply in_map_iff in Hi. destruct Hi as ([k sc'] & E & Hi). cbn [snd] in E. subst sc'.
  rewrite Forall_forall in H. pose proof (H _ Hi) as Hk. cbn [fst snd] in Hk. subst k.
  eapply in_has; exact Hi.
Qed.
Lemma g_chn_pres s : wfkeys s -> pres s (fst (g_chn s)).
Proof.
  intros [_ H]. unfold g_chn. apply write_all_channel_pres. intros c Hi.
  apply in_map_iff in Hi. destruct Hi as ([k c'] & E & Hi). cbn [snd] in E. subst c'.
  rewrite Forall_forall in H. pose proof (H _ Hi) as Hk. cbn [fst snd] in Hk. subst k.
  eapply in_has; exact Hi.
Qed.

Lemma grp_pres cond op w s0 x :
  (forall s, wfkeys s -> pres s (fst (w s))) ->
  wfkeys s0 -> pres s0 (fst (fst x)) -> pres s0 (fst (fst (grp cond op w x))).
Proof.
  intros Hw Hk Hx. destruct x as [[s [e|]] offs]; cbn [grp fst] in *; [exact Hx|].
  destruct (cond s); [|exact Hx].
  pose proof (Hw s (wfkeys_pres _ _ Hx Hk)) as P.
  destruct (w s) as [s1 [e|]]; cbn [fst] in *; eapply pres_trans; eassumption.
Qed.

Lemma write_summary_pres s : wfkeys s -> pres s (fst (fst (write_summary o flt s))).
Proof.
  intro Hk. rewrite write_summary_grp.
  repeat (apply grp_pres; [| exact Hk |]).
  7: apply pres_refl.
  - intros; unfold g_mdx; apply write_all_pres; intros; apply write_record_dst_pres.
  - intros; unfold g_aix; apply write_all_pres; intros; apply write_record_dst_pres.
  - intros; unfold g_cix; apply write_all_pres; intros; apply write_record_dst_pres.
  - intros; unfold g_sta; apply write_record_dst_pres.
  - intros; apply g_chn_pres; assumption.
  - intros; apply g_sch_pres; assumption.
Qed.


Lemma wfkeys_vA s t : vA t = vA s -> wfkeys s -> wfkeys t.
Proof.
  intros PA [H1 H2]. apply vA_fields in PA. destruct PA as (_&_&_&_&_&_&_&_&E1&E2&_).
  unfold wfkeys. rewrite E1, E2. auto.
Qed.

Lemma close_tail_pres s : wfkeys s -> pres s (fst (close_tail s)).
Proof.
  intro Hk. unfold close_tail.
  assert (P0 : pres s (set_closed s)) by (repeat split; apply incl_refl).
  pose proof (write_record_dst_pres OpDataEnd (enc_dataend {| de_crc := checksum o (set_closed s) |}) (set_closed s)) as P1.
  destruct (write_record_dst o flt OpDataEnd (enc_dataend {| de_crc := checksum o (set_closed s) |}) (set_closed s))
    as [s1 [e|]]; cbn [bindw fst] in *; [exact (pres_trans _ _ _ P0 P1)|].
  assert (P2 : pres s1 (reset_crc s1)) by (repeat split; apply incl_refl).
  assert (P : pres s (reset_crc s1)) by (exact (pres_trans _ _ _ P0 (pres_trans _ _ _ P1 P2))).
  unfold close_sum.
  pose proof (write_summary_pres (reset_crc s1) (wfkeys_pres _ _ P Hk)) as P3.
  destruct (write_summary o flt (reset_crc s1)) as [[s2 [e|]] offs]; cbn [fst] in *.
  - exact (pres_trans _ _ _ P P3).
  - eapply pres_trans; [exact P|]. eapply pres_trans; [exact P3 | apply close_end_pres].
Qed.

Lemma close_rel s : wfkeys s -> rel s (fst (close o compress flt s)).
Proof.
  intro Hk. rewrite close_eq. destruct (o_chunked o).
  - pose proof (flush_rel s) as R.
    destruct (flush_active_chunk o compress flt s) as [s1 [e|]]; cbn [bindw fst] in *; [exact R|].
    eapply rel_trans; [exact R|]. apply pres_rel, close_tail_pres.
    destruct R as [RA _]. eapply wfkeys_vA; eassumption.
  - cbn [bindw]. apply pres_rel, close_tail_pres, Hk.
Qed.

(* the statistics record written by Close *)
Lemma stats_record_pres s t : pres s t -> stats_record t = stats_record s.
Proof.
  intros (PA & PC & _). apply vA_fields in PA.
  destruct PA as (E1&E2&E3&E4&E5&E6&E7&E8&E9&E10&E11).
  unfold vC in PC. injection PC as C1 C2.
  unfold stats_record. rewrite E1, E2, E3, E4, E5, E6, E7, E8, E11, C1. reflexivity.
Qed.

Lemma write_record_dst_ok op body s t :
  write_record_dst o flt op body s = (t, None) -> In (IRec op body) (w_trace t) /\ pres s t.
Proof.
  intro H. split.
  - unfold write_record_dst in H.
    apply bindw_ok in H. destruct H as (s1 & _ & H).
    apply bindw_ok in H. destruct H as (s2 & _ & H).
    unfold log in H. injection H as <-. left. reflexivity.
  - pose proof (write_record_dst_pres op body s) as P. rewrite H in P. exact P.
Qed.

Lemma grp_ok cond op w x t offs' :
  grp cond op w x = (t, None, offs') ->
  exists s offs, x = (s, None, offs) /\ ((cond s = true /\ w s = (t, None)) \/ (cond s = false /\ t = s)).
Proof.
  destruct x as [[s [e|]] offs]; cbn [grp]; [discriminate|]. intro H. exists s, offs. split; [reflexivity|].
  destruct (cond s).
  - left. split; [reflexivity|]. destruct (w s) as [s1 [e|]]; [discriminate|]. congruence.
  - right. split; [reflexivity|]. congruence.
Qed.

Lemma grp_ok_pres cond op w x t offs' :
  (forall s, pres s (fst (w s))) ->
  grp cond op w x = (t, None, offs') -> exists s offs, x = (s, None, offs) /\ pres s t.
Proof.
  intros Hw H. apply grp_ok in H. destruct H as (s & offs & Hx & [[_ H]|[_ H]]); exists s, offs; split; auto.
  - pose proof (Hw s) as P. rewrite H in P. exact P.
  - subst t. apply pres_refl.
Qed.

Lemma write_summary_stats s t offs :
  o_skip_stats o = false ->
  write_summary o flt s = (t, None, offs) ->
  In (IRec OpStatistics (enc_statistics (stats_record t))) (w_trace t).
Proof.
  intros Hskip H. rewrite write_summary_grp in H.
  apply grp_ok_pres in H; [|intros; unfold g_mdx; apply write_all_pres; intros; apply write_record_dst_pres].
  destruct H as (s5 & o5 & H & P5).
  apply grp_ok_pres in H; [|intros; unfold g_aix; apply write_all_pres; intros; apply write_record_dst_pres].
  destruct H as (s4 & o4 & H & P4).
  apply grp_ok_pres in H; [|intros; unfold g_cix; apply write_all_pres; intros; apply write_record_dst_pres].
  destruct H as (s3 & o3 & H & P3).
  apply grp_ok in H. destruct H as (sb & ob & _ & [[_ H]|[Hc _]]).
  - unfold g_sta in H. apply write_record_dst_ok in H. destruct H as [Hin Pb].
    assert (P : pres s3 t) by (eapply pres_trans; [exact P3 | eapply pres_trans; eassumption]).
    rewrite (stats_record_pres _ _ (pres_trans _ _ _ Pb P)).
    destruct P as (_ & _ & Pt). apply Pt, Hin.
  - unfold c_sta in Hc. rewrite Hskip in Hc. discriminate.
Qed.

Lemma close_stats s t :
  o_skip_stats o = false -> close o compress flt s = (t, None) ->
  In (IRec OpStatistics (enc_statistics (stats_record t))) (w_trace t).
Proof.
  intros Hskip H. rewrite close_eq in H.
  apply bindw_ok in H. destruct H as (s1 & _ & H). unfold close_tail in H.
  apply bindw_ok in H. destruct H as (s2 & _ & H). unfold close_sum in H.
  destruct (write_summary o flt (reset_crc s2)) as [[s4 [e|]] offs] eqn:WS; [discriminate|].
  pose proof (close_end_pres (w_size (reset_crc s2)) offs s4) as P. rewrite H in P. cbn [fst] in P.
  rewrite (stats_record_pres _ _ P). destruct P as (_ & _ & Pt). apply Pt.
  eapply write_summary_stats; eassumption.
Qed.

(* ---- the invariant ---- *)
Definition P_msg (n : N) (cnts : list (N * N)) (st en : N) (pre : list wcall) : Prop :=
  n = count_calls is_message pre /\
  (forall ch, nn_get ch cnts = on_opt (count_calls (is_message_on ch) pre)) /\
  st = min_of (log_times pre) /\ en = max_of (log_times pre).
Definition P_sch (n : N) (l : list (N * schema)) (ids : list N) : Prop :=
  n = distinct ids /\ (forall k, has k l = true <-> In k ids) /\ Forall (fun p => fst p = s_id (snd p)) l.
Definition P_chn (n : N) (l : list (N * channel)) (cids : list N) (ids : list N) : Prop :=
  n = distinct ids /\ (forall k, has k l = true <-> In k ids) /\ Forall (fun p => fst p = c_id (snd p)) l /\
  (forall k, In k cids <-> In k ids) /\ NoDup cids.
Definition Inv (pre : list wcall) (s : wstate) : Prop :=
  P_msg (w_st_messages s) (w_st_counts s) (w_st_start s) (w_st_end s) pre /\
  P_sch (w_st_schemas s) (w_schemas s) (schema_ids pre) /\
  P_chn (w_st_channels s) (w_channels s) (w_channel_ids s) (channel_ids pre) /\
  w_st_attachments s = count_calls is_attachment pre /\
  w_st_metadata s = count_calls is_metadata pre /\
  ck s /\
  (forall ch, count_calls (is_message_on ch) pre <> 0 -> In ch (channel_ids pre)).

Definition not_message (c : wcall) : Prop := match c with CMessage _ => False | _ => True end.

Lemma P_msg_skip n cnts st en pre c : not_message c -> P_msg n cnts st en pre -> P_msg n cnts st en (pre ++ [c]).
Proof.
  intros Hc (H1 & H2 & H3 & H4). unfold P_msg.
  rewrite log_times_snoc, !count_calls_snoc.
  destruct c; try contradiction; cbn [is_message]; rewrite app_nil_r, N.add_0_r; repeat split; auto;
    intro ch; rewrite count_calls_snoc; cbn [is_message_on]; rewrite N.add_0_r; apply H2.
Qed.

Lemma on_opt_0 : on_opt 0 = None. Proof. reflexivity. Qed.
Lemma on_opt_pos n : n <> 0 -> on_opt n = Some n.
Proof. intro H. unfold on_opt. destruct (N.eqb_spec n 0); [contradiction | reflexivity]. Qed.

Lemma P_msg_step n cnts st en pre m :
  P_msg n cnts st en pre ->
  P_msg (n + 1) (bump_count (m_chan m) cnts)
        (if (m_log m <? st) || (n + 1 <=? 1) then m_log m else st)
        (if en <? m_log m then m_log m else en)
        (pre ++ [CMessage m]).
Proof.
  intros (H1 & H2 & H3 & H4). unfold P_msg.
  rewrite log_times_snoc, count_calls_snoc, min_of_snoc, max_of_snoc. cbn [is_message].
  split; [lia|]. split.
  - intro ch. rewrite count_calls_snoc. cbn [is_message_on]. unfold bump_count.
    destruct (N.eqb_spec (m_chan m) ch) as [->|Hne].
    + rewrite nn_get_set_same, H2. unfold on_opt.
      destruct (N.eqb_spec (count_calls (is_message_on ch) pre) 0) as [->|Hz].
      * reflexivity.
      * destruct (N.eqb_spec (count_calls (is_message_on ch) pre + 1) 0); [lia | reflexivity].
    + rewrite nn_get_set_other by congruence. rewrite N.add_0_r. apply H2.
  - pose proof (log_times_nil_iff pre) as Hnil. rewrite <- H1 in Hnil.
    destruct (log_times pre) as [|t0 r] eqn:EL.
    + assert (Hn : n = 0) by (apply Hnil; reflexivity). cbn [min_of max_of] in *. rewrite H3, H4, Hn.
      split; [destruct (m_log m <? 0); reflexivity|]. destruct (N.ltb_spec 0 (m_log m)); lia.
    + assert (n <> 0) by (intro Hz; apply Hnil in Hz; discriminate).
      rewrite <- H3, <- H4. split.
      * destruct (N.ltb_spec (m_log m) st), (N.leb_spec (n + 1) 1); cbn [orb]; lia.
      * destruct (N.ltb_spec en (m_log m)); lia.
Qed.

Lemma P_sch_same n l ids id : P_sch n l ids -> has id l = true -> P_sch n l (ids ++ [id]).
Proof.
  intros (H1 & H2 & H3) Hh. unfold P_sch. rewrite distinct_snoc.
  assert (Hi : In id ids) by (apply H2, Hh).
  destruct (in_dec N.eq_dec id ids); [|contradiction]. repeat split; auto; try lia.
  - intro H. apply in_or_app. left. apply H2, H.
  - intro H. apply in_app_or in H. destruct H as [H|[<-|[]]]; [apply H2, H | exact Hh].
Qed.
Lemma P_sch_add n l ids sc :
  P_sch n l ids -> has (s_id sc) l = false -> P_sch (n + 1) (l ++ [(s_id sc, sc)]) (ids ++ [s_id sc]).
Proof.
  intros (H1 & H2 & H3) Hh. unfold P_sch. rewrite distinct_snoc.
  assert (Hi : ~ In (s_id sc) ids) by (intro Hi; apply H2 in Hi; congruence).
  destruct (in_dec N.eq_dec (s_id sc) ids); [contradiction|]. repeat split; try lia.
  - rewrite has_app. cbn [fst]. intro H. apply in_or_app. apply orb_true_iff in H.
    destruct H as [H|H]; [left; apply H2, H | right; left; apply N.eqb_eq, H].
  - rewrite has_app. cbn [fst]. intro H. apply orb_true_iff. apply in_app_or in H.
    destruct H as [H|[<-|[]]]; [left; apply H2, H | right; apply N.eqb_refl].
  - apply Forall_app. split; [exact H3|]. constructor; [reflexivity | constructor].
Qed.
Lemma P_chn_same n l cids ids id : P_chn n l cids ids -> has id l = true -> P_chn n l cids (ids ++ [id]).
Proof.
  intros (H1 & H2 & H3 & H4 & H5) Hh. unfold P_chn. rewrite distinct_snoc.
  assert (Hi : In id ids) by (apply H2, Hh).
  destruct (in_dec N.eq_dec id ids); [|contradiction]. repeat split; auto; try lia.
  - intro H. apply in_or_app. left. apply H2, H.
  - intro H. apply in_app_or in H. destruct H as [H|[<-|[]]]; [apply H2, H | exact Hh].
  - intro H. apply in_or_app. left. apply H4, H.
  - intro H. apply in_app_or in H. destruct H as [H|[<-|[]]]; apply H4; assumption.
Qed.
Lemma NoDup_snoc {A} (l : list A) x : NoDup l -> ~ In x l -> NoDup (l ++ [x]).
Proof.
  induction 1 as [|a l Ha Hl IH]; intro Hx; cbn [app].
  - constructor; [intros [] | constructor].
  - constructor.
    + intro H. apply in_app_or in H. destruct H as [H|[H|[]]]; [contradiction|].
      subst. apply Hx. left. reflexivity.
    + apply IH. intro H. apply Hx. right. exact H.
Qed.
Lemma P_chn_add n l cids ids c :
  P_chn n l cids ids -> has (c_id c) l = false ->
  P_chn (n + 1) (l ++ [(c_id c, c)]) (cids ++ [c_id c]) (ids ++ [c_id c]).
Proof.
  intros (H1 & H2 & H3 & H4 & H5) Hh. unfold P_chn. rewrite distinct_snoc.
  assert (Hi : ~ In (c_id c) ids) by (intro Hi; apply H2 in Hi; congruence).
  destruct (in_dec N.eq_dec (c_id c) ids); [contradiction|]. repeat split; try lia.
  - rewrite has_app. cbn [fst]. intro H. apply in_or_app. apply orb_true_iff in H.
    destruct H as [H|H]; [left; apply H2, H | right; left; apply N.eqb_eq, H].
  - rewrite has_app. cbn [fst]. intro H. apply orb_true_iff. apply in_app_or in H.
    destruct H as [H|[<-|[]]]; [left; apply H2, H | right; apply N.eqb_refl].
  - apply Forall_app. split; [exact H3|]. constructor; [reflexivity | constructor].
  - intro H. apply in_or_app. apply in_app_or in H. destruct H as [H|H]; [left; apply H4, H | right; exact H].
  - intro H. apply in_or_app. apply in_app_or in H. destruct H as [H|H]; [left; apply H4, H | right; exact H].
  - apply NoDup_snoc; [exact H5|]. intro H. apply Hi, H4, H.
Qed.

Lemma stats_time_fields lt s :
  w_st_messages (stats_time lt s) = w_st_messages s /\ w_st_counts (stats_time lt s) = w_st_counts s /\
  w_st_schemas (stats_time lt s) = w_st_schemas s /\ w_st_channels (stats_time lt s) = w_st_channels s /\
  w_st_attachments (stats_time lt s) = w_st_attachments s /\ w_st_metadata (stats_time lt s) = w_st_metadata s /\
  w_st_start (stats_time lt s) = (if (lt <? w_st_start s) || (w_st_messages s <=? 1) then lt else w_st_start s) /\
  w_st_end (stats_time lt s) = (if w_st_end s <? lt then lt else w_st_end s) /\
  w_channels (stats_time lt s) = w_channels s /\ w_schemas (stats_time lt s) = w_schemas s /\
  w_channel_ids (stats_time lt s) = w_channel_ids s /\ vC (stats_time lt s) = vC s.
Proof.
  unfold stats_time. destruct (w_st_end s <? lt).
  - norm_proj w_st_start s. norm_proj w_st_messages s.
    destruct ((lt <? w_st_start s) || (w_st_messages s <=? 1)); repeat split.
  - destruct ((lt <? w_st_start s) || (w_st_messages s <=? 1)); repeat split.
Qed.

Definition neutral (c : wcall) : Prop := match c with CHeader _ | CClose => True | _ => False end.

Ltac inv_split := refine (conj _ (conj _ (conj _ (conj _ (conj _ (conj _ _)))))).
Ltac snoc_norm :=
  rewrite ?schema_ids_snoc, ?channel_ids_snoc, ?count_calls_snoc;
  cbn [is_attachment is_metadata]; rewrite ?app_nil_r, ?N.add_0_r.

Lemma Inv_vA pre s t : Inv pre s -> vA t = vA s -> (ck s -> ck t) -> Inv pre t.
Proof.
  intros (H1&H2&H3&H4&H5&H6&H7) HA HC. apply vA_fields in HA.
  destruct HA as (E1&E2&E3&E4&E5&E6&E7&E8&E9&E10&E11).
  unfold Inv. rewrite E1, E2, E3, E4, E5, E6, E7, E8, E9, E10, E11.
  exact (conj H1 (conj H2 (conj H3 (conj H4 (conj H5 (conj (HC H6) H7)))))).
Qed.
Lemma Inv_rel pre s t : Inv pre s -> rel s t -> Inv pre t.
Proof. intros H [HA HC]. eapply Inv_vA; eassumption. Qed.

Lemma on_skip pre c :
  not_message c ->
  (forall ch, count_calls (is_message_on ch) pre <> 0 -> In ch (channel_ids pre)) ->
  forall ch, count_calls (is_message_on ch) (pre ++ [c]) <> 0 -> In ch (channel_ids (pre ++ [c])).
Proof.
  intros Hc H ch. rewrite count_calls_snoc, channel_ids_snoc.
  destruct c; try contradiction; cbn [is_message_on]; rewrite N.add_0_r; intro Hn;
    apply in_or_app; left; apply H, Hn.
Qed.

Lemma Inv_neutral pre c s : neutral c -> Inv pre s -> Inv (pre ++ [c]) s.
Proof.
  intros Hc (H1&H2&H3&H4&H5&H6&H7). unfold Inv.
  destruct c; try contradiction; (inv_split; [apply P_msg_skip; [exact I | exact H1] | snoc_norm; assumption ..
                                             | apply on_skip; [exact I | exact H7]]).
Qed.

Lemma Inv_add_schema pre s sc : Inv pre s -> Inv (pre ++ [CSchema sc]) (add_schema sc s).
Proof.
  intros (H1&H2&H3&H4&H5&H6&H7).
  unfold add_schema. destruct (assoc_get (s_id sc) (w_schemas s)) eqn:E.
  - unfold Inv. inv_split; [apply P_msg_skip; [exact I | exact H1] | snoc_norm .. | apply on_skip; [exact I | exact H7]];
      try assumption.
    apply P_sch_same; [exact H2|]. unfold has. rewrite E. reflexivity.
  - unfold Inv. cbn.
    inv_split; [apply P_msg_skip; [exact I | exact H1] | snoc_norm .. | apply on_skip; [exact I | exact H7]];
      try assumption.
    apply P_sch_add; [exact H2|]. unfold has. rewrite E. reflexivity.
Qed.

Lemma Inv_add_channel pre s c : Inv pre s -> Inv (pre ++ [CChannel c]) (add_channel c s).
Proof.
  intros (H1&H2&H3&H4&H5&H6&H7).
  unfold add_channel. destruct (assoc_get (c_id c) (w_channels s)) eqn:E.
  - unfold Inv. inv_split; [apply P_msg_skip; [exact I | exact H1] | snoc_norm .. | apply on_skip; [exact I | exact H7]];
      try assumption.
    apply P_chn_same; [exact H3|]. unfold has. rewrite E. reflexivity.
  - unfold Inv. cbn.
    inv_split; [apply P_msg_skip; [exact I | exact H1] | snoc_norm .. | apply on_skip; [exact I | exact H7]];
      try assumption.
    apply P_chn_add; [exact H3|]. unfold has. rewrite E. reflexivity.
Qed.

Lemma Inv_message pre s s2 m :
  Inv pre s -> has (m_chan m) (w_channels s) = true -> rel (wm_bump m s) s2 ->
  Inv (pre ++ [CMessage m]) (stats_time (m_log m) s2).
Proof.
  intros (H1&H2&H3&H4&H5&H6&H7) Hh [HA HC].
  apply vA_fields in HA. cbn in HA. destruct HA as (E1&E2&E3&E4&E5&E6&E7&E8&E9&E10&E11).
  pose proof (stats_time_fields (m_log m) s2) as (F1&F2&F3&F4&F5&F6&F7&F8&F9&F10&F11&F12).
  unfold Inv. rewrite F1, F2, F3, F4, F5, F6, F7, F8, F9, F10, F11.
  rewrite E1, E2, E3, E4, E5, E6, E7, E8, E9, E10, E11.
  inv_split; [apply P_msg_step, H1 | snoc_norm; assumption .. | | ].
  - unfold ck. unfold vC in F12. injection F12 as -> ->. apply HC, H6.
  - intro ch. rewrite count_calls_snoc, channel_ids_snoc, app_nil_r. cbn [is_message_on].
    destruct (N.eqb_spec (m_chan m) ch) as [<-|Hne].
    + intros _. destruct H3 as (_ & Hk & _). apply Hk, Hh.
    + rewrite N.add_0_r. apply H7.
Qed.

Lemma Inv_attachment pre s a src off : Inv pre s -> Inv (pre ++ [CAttachment a src]) (wa_idx a off s).
Proof.
  intros (H1&H2&H3&H4&H5&H6&H7). unfold Inv, wa_idx. cbn.
  inv_split; [apply P_msg_skip; [exact I | exact H1] | snoc_norm .. | apply on_skip; [exact I | exact H7]];
    try assumption.
  congruence.
Qed.

Lemma Inv_metadata pre s m name body off : Inv pre s -> Inv (pre ++ [CMetadata m]) (wmd_idx name body off s).
Proof.
  intros (H1&H2&H3&H4&H5&H6&H7). unfold Inv, wmd_idx. cbn.
  inv_split; [apply P_msg_skip; [exact I | exact H1] | snoc_norm .. | apply on_skip; [exact I | exact H7]];
    try assumption.
  congruence.
Qed.

Lemma Inv_wfkeys pre s : Inv pre s -> wfkeys s.
Proof. intros (_&(_&_&H2)&(_&_&H3&_)&_). split; assumption. Qed.

Lemma Inv_step pre s c t :
  Inv pre s -> step o lib_id compress flt c s = (t, None) -> Inv (pre ++ [c]) t.
Proof.
  intros HI H. destruct c as [h|sc|c|m|a src|m|]; cbn [step] in H.
  - pose proof (write_header_pres h s) as P. rewrite H in P.
    apply Inv_neutral; [exact I|]. eapply Inv_rel; [exact HI | apply pres_rel, P].
  - apply write_schema_ok in H. destruct H as (s1 & P & ->).
    apply Inv_add_schema. eapply Inv_rel; [exact HI | apply pres_rel, P].
  - apply write_channel_ok in H. destruct H as (s1 & P & ->).
    apply Inv_add_channel. eapply Inv_rel; [exact HI | apply pres_rel, P].
  - apply write_message_ok in H. destruct H as (Hh & s2 & R & ->).
    eapply Inv_message; eassumption.
  - apply write_attachment_ok in H. destruct H as (s5 & P & ->).
    apply Inv_attachment. eapply Inv_rel; [exact HI | apply pres_rel, P].
  - apply write_metadata_ok in H. destruct H as (s1 & P & ->).
    apply Inv_metadata. eapply Inv_rel; [exact HI | apply pres_rel, P].
  - pose proof (close_rel s (Inv_wfkeys _ _ HI)) as R. rewrite H in R.
    apply Inv_neutral; [exact I|]. eapply Inv_rel; eassumption.
Qed.

(* ---- runs ---- *)
Fixpoint run_states (cs : list wcall) (s : wstate) : wstate :=
  match cs with [] => s | c :: r => run_states r (fst (step o lib_id compress flt c s)) end.
Fixpoint run_results (cs : list wcall) (s : wstate) : list (option err * nat) :=
  match cs with
  | [] => []
  | c :: r => let x := step o lib_id compress flt c s in (snd x, w_nw (fst x)) :: run_results r (fst x)
  end.
Lemma run_calls_spec cs : forall s acc,
  run_calls o lib_id compress flt cs s acc = (run_states cs s, rev acc ++ run_results cs s).
Proof.
  induction cs as [|c r IH]; intros s acc; cbn [run_calls run_states run_results].
  - rewrite app_nil_r. reflexivity.
  - destruct (step o lib_id compress flt c s) as [s' e]. rewrite IH. cbn [rev fst snd].
    rewrite <- app_assoc. reflexivity.
Qed.
Lemma run_states_snoc cs c s :
  run_states (cs ++ [c]) s = fst (step o lib_id compress flt c (run_states cs s)).
Proof. revert s. induction cs as [|a r IH]; intro s; cbn [app run_states]; [reflexivity | apply IH]. Qed.
Lemma run_results_snoc cs c s :
  run_results (cs ++ [c]) s =
  run_results cs s ++ [(snd (step o lib_id compress flt c (run_states cs s)),
                        w_nw (fst (step o lib_id compress flt c (run_states cs s))))].
Proof.
  revert s. induction cs as [|a r IH]; intro s; cbn [app run_states run_results]; [reflexivity|].
  rewrite IH. reflexivity.
Qed.

Lemma run_inv cs : forall pre s,
  Inv pre s -> Forall (fun r => fst r = None) (run_results cs s) -> Inv (pre ++ cs) (run_states cs s).
Proof.
  induction cs as [|c r IH]; intros pre s HI HF; cbn [run_states run_results] in *.
  - rewrite app_nil_r. exact HI.
  - apply Forall_cons_iff in HF. destruct HF as [He HF]. cbn [fst] in He.
    replace (pre ++ c :: r) with ((pre ++ [c]) ++ r) by (rewrite <- app_assoc; reflexivity).
    apply IH; [|exact HF]. apply Inv_step with (s := s); [exact HI|].
    destruct (step o lib_id compress flt c s) as [t e]. cbn [fst snd] in *. subst e. reflexivity.
Qed.

Lemma Inv_init : Inv [] init_state.
Proof.
  unfold Inv, P_msg, P_sch, P_chn, ck. cbn.
  repeat split; auto; try discriminate; try contradiction; try constructor.
Qed.

Lemma new_writer_inv s : new_writer o flt = (s, None) -> Inv [] s.
Proof.
  unfold new_writer. intro H. apply bindw_ok in H. destruct H as (s1 & H1 & H).
  assert (s = s1).
  { repeat match type of H with context [if ?c then _ else _] => destruct c end; congruence. }
  subst s1. clear H.
  assert (P : pres init_state s).
  { destruct (o_skip_magic o).
    - injection H1 as <-. apply pres_refl.
    - apply bindw_ok in H1. destruct H1 as (s1 & H1 & H2).
      pose proof (dst_write_pres magic init_state) as P1. rewrite H1 in P1.
      pose proof (log_pres IMagic s1) as P2. rewrite H2 in P2.
      eapply pres_trans; eassumption. }
  eapply Inv_rel; [apply Inv_init | apply pres_rel, P].
Qed.

Lemma Inv_stats_correct cs s : Inv cs s -> stats_correct cs s.
Proof.
  intros ((A1&A2&A3&A4)&(B1&_)&(C1&_)&D&E&F&_). unfold stats_correct, true_stats. cbn.
  repeat split; auto.
Qed.

(* the per-channel counts of the statistics record *)
Lemma counts_nodup (f : N -> option N) (l : list N) :
  NoDup l -> NoDup (map fst (flat_map (fun ch => match f ch with Some v => [(ch, v)] | None => [] end) l)).
Proof.
  induction 1 as [|a l Ha Hl IH]; cbn [flat_map map]; [constructor|].
  destruct (f a); cbn [app map fst]; [|exact IH]. constructor; [|exact IH].
  intro H. apply in_map_iff in H. destruct H as ([k v] & Hk & H). cbn [fst] in Hk. subst k.
  apply in_flat_map in H. destruct H as (k & Hk & H). destruct (f k); [|contradiction].
  destruct H as [H|[]]. injection H as -> _. contradiction.
Qed.

Definition record_correct (cs : list wcall) (nchunks : N) (st : statistics) : Prop :=
  let a := true_stats cs in
  st_messages st = ag_messages a /\ st_schemas st = ag_schemas a /\ st_channels st = ag_channels a /\
  st_attachments st = ag_attachments a /\ st_metadata st = ag_metadata a /\ st_chunks st = nchunks /\
  st_start st = ag_start a /\ st_end st = ag_end a /\
  (forall ch n, In (ch, n) (st_counts st) <-> n = ag_messages_on a ch /\ n <> 0) /\
  NoDup (map fst (st_counts st)).

Lemma Inv_record_correct cs s :
  Inv cs s -> record_correct cs (N.of_nat (length (w_chunk_indexes s))) (stats_record s).
Proof.
  intros ((A1&A2&A3&A4)&(B1&_)&(C1&C2&_&C4&C5)&D&E&F&G).
  unfold record_correct, true_stats, stats_record. cbn.
  repeat split; auto.
  - apply in_flat_map in H. destruct H as (k & Hk & H).
    destruct (nn_get k (w_st_counts s)) eqn:Eg; [|contradiction].
    destruct H as [H|[]]. injection H as -> ->. rewrite A2 in Eg. unfold on_opt in Eg.
    destruct (count_calls (is_message_on ch) cs =? 0); [discriminate | congruence].
  - apply in_flat_map in H. destruct H as (k & Hk & H).
    destruct (nn_get k (w_st_counts s)) eqn:Eg; [|contradiction].
    destruct H as [H|[]]. injection H as -> ->. rewrite A2 in Eg. unfold on_opt in Eg.
    destruct (N.eqb_spec (count_calls (is_message_on ch) cs) 0); [discriminate|]. congruence.
  - intros [-> Hn]. apply in_flat_map. exists ch. split.
    + apply C4, G, Hn.
    + rewrite A2, on_opt_pos by exact Hn. left. reflexivity.
  - apply counts_nodup, C5.
Qed.

End Facts.

(* ====================================================================== *)
(* Part 6: top-level statements about W                                    *)
(* ====================================================================== *)

Lemma skip_stats_effective o : o_skip_stats (effective_opts o) = o_skip_stats o.
Proof. unfold effective_opts. destruct (o_chunked o && (o_chunksize o =? 0)%Z); reflexivity. Qed.

(* C13: the output does not depend on the insertion order of the map arguments *)
Theorem C13_map_order_proof : forall o lib comp flt cs cs', Forall2 call_equiv cs cs' ->
  let R := W o lib comp flt cs in let R' := W o lib comp flt cs' in
  r_new R = r_new R' /\ r_calls R = r_calls R' /\ r_writes R = r_writes R'.
Proof.
  intros o lib comp flt cs cs' H. cbv zeta. unfold W.
  destruct (new_writer (effective_opts o) flt) as [s [e|]]; [repeat split|].
  pose proof (run_calls_sim (effective_opts o) lib comp flt cs cs' H s s [] (sim_refl s)) as [H1 H2].
  destruct (run_calls (effective_opts o) lib comp flt cs s []) as [t rs].
  destruct (run_calls (effective_opts o) lib comp flt cs' s []) as [t' rs'].
  cbn [fst snd] in *. subst rs'. cbn [r_new r_calls r_writes]. repeat split.
  destruct H1 as [ch [-> _]]. reflexivity.
Qed.

(* C08 (writer half): for runs in which NewWriter and every call succeed, the statistics
   fields of the final state are the true aggregates of the calls.  (Holds for any fault
   setting, in particular flt = None: a triggered fault makes some call fail.) *)
Theorem C08_writer_statistics_proof : forall o lib comp flt cs,
  let R := W o lib comp flt cs in
  r_new R = None -> Forall (fun r => fst r = None) (r_calls R) ->
  stats_correct cs (r_final R).
Proof.
  intros o lib comp flt cs. cbv zeta. unfold W.
  destruct (new_writer (effective_opts o) flt) as [s [e|]] eqn:NW; [cbn; discriminate|].
  rewrite run_calls_spec. cbn [r_new r_calls r_final rev app]. intros _ HF.
  apply Inv_stats_correct.
  apply (run_inv (effective_opts o) lib comp flt cs [] s); [|exact HF].
  eapply new_writer_inv; exact NW.
Qed.

(* ... and when the last call is Close, the Statistics record it emits is stats_record of
   the final state, whose fields are those aggregates. *)
Theorem C08_statistics_record_proof : forall o lib comp flt cs0,
  let cs := cs0 ++ [CClose] in
  let R := W o lib comp flt cs in
  r_new R = None -> Forall (fun r => fst r = None) (r_calls R) -> o_skip_stats o = false ->
  let st := stats_record (r_final R) in
  In (IRec OpStatistics (enc_statistics st)) (w_trace (r_final R)) /\
  record_correct cs (N.of_nat (length (w_chunk_indexes (r_final R)))) st.
Proof.
  intros o lib comp flt cs0. cbv zeta. unfold W.
  destruct (new_writer (effective_opts o) flt) as [s [e|]] eqn:NW; [cbn; discriminate|].
  rewrite run_calls_spec. cbn [r_new r_calls r_final rev app]. intros _ HF Hskip. split.
  - rewrite run_states_snoc.
    rewrite run_results_snoc in HF. apply Forall_app in HF. destruct HF as [_ HF].
    apply Forall_cons_iff in HF. destruct HF as [He _]. cbn [fst step] in *.
    destruct (close (effective_opts o) comp flt (run_states (effective_opts o) lib comp flt cs0 s)) as [t e] eqn:CL.
    cbn [fst snd] in *. subst e.
    eapply close_stats; [rewrite skip_stats_effective; exact Hskip | exact CL].
  - apply Inv_record_correct.
    apply (run_inv (effective_opts o) lib comp flt (cs0 ++ [CClose]) [] s); [|exact HF].
    eapply new_writer_inv; exact NW.
Qed.
