(* ReaderTotal.v - totality of the reader model (Reader.v) for ALL inputs (property C10, reader part).

   What can go wrong in the model: `Panic` / `Exit` (explicit constructors at slice / index / makeslice
   sites: the only one is `get_pstr` in Records.v, guarded in every parser, see LexerFactsA.v), and
   `OutOfFuel` (a fuelled loop did not finish).  Reader.v itself contains no `Panic` / `Exit`
   constructor: it only propagates those of the lexer and of the parsers.

   Results (every theorem quantifies over every file source, every failure position, every option list
   and every oracle, with the hypotheses stated):
   - never Panic / Exit: everything, from any state, with any fuel, any oracle;
   - never OutOfFuel with the fuel the model passes:
       new_reader, get_metadata, get_attachment: unconditionally;
       info, messages_dispatch, the sequential read: when the streaming decoder delivers at most
         9 * (|input| + 47) bytes (`oracle9`; the constant is tight for the measure used: one unit of fuel
         per 9 delivered bytes, and a chunk record costs at least 49 bytes of the file);
       the indexed read: additionally when the number of messages the chunk indexes make the iterator
         yield (`index_load`, chunks counted as often as they are indexed) is at most the file size.
     Both hypotheses are necessary for the model as it stands: `ex_bomb_*` / `ex_dup_*` below are concrete
     inputs where the model returns OutOfFuel (a model artefact: the fuel is tied to the file size; the
     Go code terminates on them). *)
From Coq Require Import List NArith ZArith Bool Lia ZifyN ZifyNat ZifyBool.
From Coq.Strings Require Import Byte.
From RecordUpdate Require Import RecordSet.
From Mcap Require Import Bytes BytesFacts GoSem Crc32 Records Lexer Source LexerFactsA Reader.
Import ListNotations RecordSetNotations.
Open Scope N_scope.
Open Scope go_scope.
Ltac Zify.zify_post_hook ::= Z.div_mod_to_equations.

(* ====================================================================================== *)
(* Part 0: postconditions on outcomes                                                      *)
(* ====================================================================================== *)

(* `post Q F x`: x is never Panic / Exit; it is OutOfFuel only if F holds; an Ok result satisfies Q.
   F = False gives "Ok or Err" (okerr / no_crash), F = True gives "never Panic / Exit" (no_pe). *)
Definition post {A} (Q : A -> Prop) (F : Prop) (x : outcome A) : Prop :=
  match x with
  | Ok a => Q a
  | Err _ => True
  | OutOfFuel => F
  | Panic _ | Exit _ => False
  end.

Lemma post_bind {A B} (Q1 : A -> Prop) (Q : B -> Prop) F (x : outcome A) (f : A -> outcome B) :
  post Q1 F x -> (forall a, Q1 a -> post Q F (f a)) -> post Q F (bind x f).
Proof. destruct x; cbn; auto. Qed.

Lemma post_weaken {A} (Q Q' : A -> Prop) (F F' : Prop) (x : outcome A) :
  post Q F x -> (forall a, Q a -> Q' a) -> (F -> F') -> post Q' F' x.
Proof. destruct x; cbn; auto. Qed.

Lemma okerr_post {A} F (x : outcome A) : okerr x -> post (fun _ => True) F x.
Proof. destruct x; cbn; auto; contradiction. Qed.

Lemma post_okerr {A} (Q : A -> Prop) (x : outcome A) : post Q False x -> okerr x.
Proof. destruct x; cbn; auto. Qed.

Lemma post_no_pe {A} (Q : A -> Prop) F (x : outcome A) : post Q F x -> no_pe x.
Proof. destruct x; cbn; auto. Qed.

Lemma no_pe_sites {A} (x : outcome A) : no_pe x -> forall site, x <> Panic site /\ x <> Exit site.
Proof. intros H site. destruct x; cbn in H; try contradiction; split; discriminate. Qed.

Lemma okerr_bind' {A B} (x : outcome A) (f : A -> outcome B) :
  okerr x -> (forall a, okerr (f a)) -> okerr (bind x f).
Proof. destruct x; cbn; auto. Qed.

(* ====================================================================================== *)
(* Part 1: a tight progress measure for Lexer.Next                                         *)
(* ====================================================================================== *)

(* the streaming decoder delivers at most 9 * (|input| + 47) bytes *)
Definition oracle9 (ds : doracle) : Prop :=
  forall c a e, (length (fst (ds c a e)) <= 9 * (length a + 47))%nat.

(* one unit per byte of the base reader, one per 9 bytes of the chunk reader, one for leaving the chunk *)
Definition cl9 (s : lstate) : nat :=
  match lx_chunk s with None => 0%nat | Some r => S (length (r_buf r) / 9) end.
Definition nu (s : lstate) : nat := (Lb s + cl9 s)%nat.

Section Nu.
Variable lo : lopts.
Variable ds : doracle.

(* the lexer never calls the decoder, or the decoder is bounded *)
Definition lex_bounded : Prop := lo_emit_chunks lo = true \/ oracle9 ds.

Lemma lc_head_len rl s :
  match lc_head rl s with
  | LC1Err _ s' => (Lb s' <= Lb s)%nat /\ lx_chunk s' = lx_chunk s
  | LC1Ok _ _ _ _ s' => (Lb s' + 40 <= Lb s)%nat /\ lx_chunk s' = lx_chunk s
  end.
Proof.
  pose proof (lc_head_spec rl s) as Hs. unfold lc_head in *.
  destruct (rd_full 32 (lx_base s)) as [[hd e] b1] eqn:E1.
  destruct e as [e|].
  { assert (G : (Lb (s <| lx_base := b1 |>) <= Lb s)%nat /\ lx_chunk (s <| lx_base := b1 |>) = lx_chunk s).
    { destruct e; destruct Hs as [[_ [_ Ha]] [Hc _]]; split; auto. }
    destruct e; exact G. }
  apply rd_full_ok in E1. destruct E1 as [E1a [E1b _]].
  assert (L1 : (length (r_buf b1) + 32 = Lb s)%nat).
  { unfold Lb. rewrite E1b, app_length. unfold blen in E1a. lia. }
  destruct (rl <? _) eqn:Erl.
  { destruct Hs as [[_ [_ Ha]] [Hc _]]; split; auto. }
  match goal with |- context[lx_bufcap ?s <? ?n] => destruct (lx_bufcap s <? n) eqn:Eg end; cbn [andb] in *.
  - destruct (_ <? max_int32) eqn:Em; cbn [negb] in *.
    2:{ destruct Hs as [[_ [_ Ha]] [Hc _]]; split; auto. }
    destruct (rd_full _ _) as [[cb e2] b2] eqn:E2. rsimpl_in E2.
    destruct e2 as [e2|].
    { apply rd_full_adv in E2. destruct E2 as [_ [_ E2]]. unfold Lb in *.
      destruct e2; (split; [rsimpl; lia|reflexivity]). }
    apply rd_full_ok in E2. destruct E2 as [E2a [E2b _]].
    split; [|reflexivity]. unfold Lb in *. rsimpl.
    rewrite E2b, app_length in L1. unfold blen in E2a. lia.
  - destruct (rd_full _ _) as [[cb e2] b2] eqn:E2. rsimpl_in E2.
    destruct e2 as [e2|].
    { apply rd_full_adv in E2. destruct E2 as [_ [_ E2]]. unfold Lb in *.
      destruct e2; (split; [rsimpl; lia|reflexivity]). }
    apply rd_full_ok in E2. destruct E2 as [E2a [E2b _]].
    split; [|reflexivity]. unfold Lb in *. rsimpl.
    rewrite E2b, app_length in L1. unfold blen in E2a. lia.
Qed.

Section Bounded.
Hypothesis H9 : oracle9 ds.

Lemma lc_open_nu comp rlen b b' cr : lc_open lo ds comp rlen b = (b', cr) ->
  (length (r_buf b') <= length (r_buf b))%nat /\
  (length (r_buf b') + length (r_buf cr) / 9 <= length (r_buf b) + 47)%nat.
Proof.
  unfold lc_open.
  match goal with |- context[let '(_, _) := ?X in _] => destruct X as [plain pend] eqn:E end.
  intros H; inversion H; subst; clear H. cbn [r_buf].
  assert (length plain <= 9 * (length (take rlen (r_buf b)) + 47))%nat.
  { destruct (_ && _).
    - inversion E; subst. lia.
    - pose proof (H9 comp (take rlen (r_buf b)) (if rlen <=? blen (r_buf b) then None else r_end b)) as H.
      rewrite E in H. exact H. }
  rewrite take_length in H. rewrite drop_length. unfold blen in *. split; lia.
Qed.

Lemma lc_validate_nu usize ucrc comp b cr s oe s' :
  lx_chunk s = Some cr ->
  (Lb s <= length (r_buf b))%nat ->
  (Lb s + length (r_buf cr) / 9 <= length (r_buf b) + 47)%nat ->
  lc_validate lo usize ucrc comp b cr s = (oe, s') ->
  (nu s' <= length (r_buf b) + 48)%nat.
Proof.
  intros Hc H1 H2. unfold lc_validate.
  assert (G0 : (nu s <= length (r_buf b) + 48)%nat).
  { unfold nu, cl9. rewrite Hc. lia. }
  destruct ((0 <? lo_max_chunk lo) && (lo_max_chunk lo <? usize)) eqn:Emc; [intros H; inversion H; subst; exact G0|].
  destruct ((lx_ubuf s <? usize) && (max_int32 <? usize)) eqn:Em1; [intros H; inversion H; subst; exact G0|].
  destruct ((lx_ubuf s <? usize) && negb (usize * 2 <? max_int32)) eqn:Em2; [intros H; inversion H; subst; exact G0|].
  match goal with |- context[rd_full usize cr] => destruct (rd_full usize cr) as [[data e] r1] eqn:Er end.
  pose proof (rd_full_adv _ _ _ _ _ Er) as Ha. destruct Ha as [_ [_ Ha]].
  set (sa := if lx_ubuf s <? usize then _ else s).
  assert (Gl : Lb sa = Lb s).
  { subst sa. destruct (lx_ubuf s <? usize) eqn:Eu; reflexivity. }
  clearbody sa.
  destruct e as [e|].
  { intros H; inversion H; subst; clear H. unfold nu, Lb, cl9 in *. rsimpl. lia. }
  apply rd_full_ok in Er. destruct Er as [Ed [Eb _]].
  assert (Hd : (length data <= length (r_buf cr))%nat) by (rewrite Eb, app_length; lia).
  set (sb := if drains_chunk comp then set lx_chunk _ _ else _).
  assert (Gsb : Lb sb = Lb s /\ (cl9 sb <= S (length (r_buf cr) / 9))%nat).
  { subst sb. destruct (drains_chunk comp); unfold Lb, cl9 in *; rsimpl; cbn [length]; split; lia. }
  destruct Gsb as [Gl2 Gc2]. clearbody sb.
  destruct (if drains_chunk comp then _ else None) as [x|].
  { intros H; inversion H; subst; clear H. unfold nu. lia. }
  destruct ((0 <? ucrc) && negb (crc32 data =? ucrc)).
  { intros H; inversion H; subst; clear H. unfold nu. lia. }
  intros H; inversion H; subst; clear H.
  destruct (_ || _); unfold nu, Lb, cl9 in *; rsimpl.
  - rewrite drop_length. unfold blen. lia.
  - lia.
Qed.

Lemma load_chunk_nu rl s oe s' : load_chunk lo ds rl s = (oe, s') ->
  match lx_chunk s with
  | Some _ => s' = s
  | None => (nu s' <= Lb s + 8)%nat
  end.
Proof.
  rewrite load_chunk_eq. destruct (lx_chunk s) eqn:Ec.
  { intros H; inversion H; subst. reflexivity. }
  pose proof (lc_head_len rl s) as Hh.
  destruct (lc_head rl s) as [e s1|usize ucrc comp rlen s1].
  { destruct Hh as [Ha Hc]. intros H; inversion H; subst.
    unfold nu, cl9. rewrite Hc, Ec. lia. }
  destruct Hh as [Ha Hc].
  destruct (negb (lc_supported lo comp)).
  { intros H; inversion H; subst. unfold nu, cl9. rewrite Hc, Ec. lia. }
  cbv zeta. destruct (lc_open lo ds comp rlen (lx_base s1)) as [b' cr] eqn:Eo.
  apply lc_open_nu in Eo. destruct Eo as [Ho1 Ho2].
  destruct (negb (lo_validate lo)) eqn:Ev.
  { intros H; inversion H; subst. unfold nu, Lb, cl9 in *. rsimpl. lia. }
  intros H. eapply lc_validate_nu in H.
  - unfold Lb in *; lia.
  - reflexivity.
  - unfold Lb. rsimpl. lia.
  - unfold Lb. rsimpl. lia.
Qed.
End Bounded.

Lemma nu_set_cur_le r s : (length (r_buf r) <= length (r_buf (cur s)))%nat ->
  (nu (set_cur r s) <= nu s)%nat.
Proof.
  unfold nu, Lb, cl9, cur, set_cur. destruct (lx_chunk s) eqn:E; rsimpl; rewrite ?E; intros H; lia.
Qed.
Lemma nu_set_cur_9 r s : (length (r_buf r) + 9 <= length (r_buf (cur s)))%nat ->
  (nu (set_cur r s) + 1 <= nu s)%nat.
Proof.
  unfold nu, Lb, cl9, cur, set_cur. destruct (lx_chunk s) eqn:E; rsimpl; rewrite ?E; intros H; lia.
Qed.

Hypothesis HB : lex_bounded.

Lemma lex_step_nu pcap s evs :
  match lex_step lo ds pcap s evs with
  | SCont s' _ => (nu s' < nu s)%nat
  | SDone _ (NTok _) s' => (nu s' < nu s)%nat
  | SDone _ (NErr _) s' => (nu s' <= nu s)%nat
  end.
Proof.
  unfold lex_step.
  destruct (rd_full 9 (cur s)) as [[hd e] r1] eqn:E9.
  pose proof (rd_full_adv _ _ _ _ _ E9) as [_ [_ Ha]].
  destruct e as [e|].
  { assert (M1 : (nu (set_cur r1 s) <= nu s)%nat) by (apply nu_set_cur_le; exact Ha).
    destruct (lx_chunk s) eqn:Ec.
    - destruct (true && _).
      + unfold nu, Lb, cl9, set_cur. rewrite Ec. rsimpl. lia.
      + destruct (_ || _); [destruct (_ && _)|]; auto.
    - cbn [andb]. destruct (_ || _); [destruct (_ && _)|]; auto. }
  apply rd_full_ok in E9. destruct E9 as [E9a [E9b _]].
  assert (L9 : (length (r_buf r1) + 9 = length (r_buf (cur s)))%nat).
  { rewrite E9b, app_length. unfold blen in E9a. lia. }
  assert (M1 : (nu (set_cur r1 s) + 1 <= nu s)%nat) by (apply nu_set_cur_9; lia).
  set (rlen := unle (skipn 1 hd)).
  destruct ((0 <? lo_max_record lo) && (lo_max_record lo <? rlen)) eqn:Emr; [lia|].
  destruct (_ && negb (lo_emit_chunks lo)) eqn:Eck.
  { destruct HB as [HB1|H9]; [rewrite HB1, andb_false_r in Eck; discriminate|].
    destruct (load_chunk lo ds rlen (set_cur r1 s)) as [oe s2] eqn:El.
    apply (load_chunk_nu H9) in El.
    assert (M2 : (nu s2 < nu s)%nat).
    { rewrite chunk_set_cur in El. destruct (lx_chunk s) eqn:Ec.
      - subst s2. lia.
      - unfold Lb in El. rewrite base_set_cur, Ec in El.
        unfold cur in L9. rewrite Ec in L9. unfold nu at 2. unfold Lb, cl9. rewrite Ec. lia. }
    destruct oe as [x|]; [destruct (lo_emit_invalid lo && _)|]; auto; lia. }
  destruct (Byte.eqb _ OpAttachment).
  { destruct (9223372036854775807 <? rlen); [lia|].
    destruct (do_attachment lo rlen (cur (set_cur r1 s))) as [[ev e2] r2] eqn:Ed.
    apply do_attachment_adv in Ed. destruct Ed as [_ [_ Ed]].
    assert (M2 : (nu (set_cur r2 (set_cur r1 s)) <= nu (set_cur r1 s))%nat) by (apply nu_set_cur_le; exact Ed).
    destruct e2; lia. }
  destruct ((pcap <? rlen) && negb (rlen <? max_int32)) eqn:Ems; [lia|].
  set (s1 := if pcap <? rlen then _ else _).
  assert (G1 : cur s1 = r1 /\ (nu s1 + 1 <= nu s)%nat).
  { subst s1. destruct (pcap <? rlen) eqn:Ep.
    - split; [|exact M1]. rewrite <- (cur_set_cur r1 s) at 2. reflexivity.
    - split; [apply cur_set_cur|exact M1]. }
  destruct G1 as [G1 G2]. clearbody s1.
  destruct (rd_full rlen (cur s1)) as [[body e3] r3] eqn:E3.
  apply rd_full_adv in E3. destruct E3 as [_ [_ E3]].
  assert (M2 : (nu (set_cur r3 s1) <= nu s1)%nat) by (apply nu_set_cur_le; exact E3).
  destruct e3 as [e3|]; [destruct e3; lia|].
  destruct (known_op _); [lia|].
  destruct (Byte.eqb _ x00); lia.
Qed.

Lemma lex_next_total_nu : forall fuel pcap s evs, (nu s < fuel)%nat ->
  exists evs' res s', lex_next lo ds fuel pcap s evs = Ok (evs', res, s') /\
    match res with NTok _ => (nu s' < nu s)%nat | NErr _ => (nu s' <= nu s)%nat end.
Proof.
  induction fuel as [|f IH]; intros pcap s evs Hf; [lia|].
  rewrite lex_next_S. pose proof (lex_step_nu pcap s evs) as Hs.
  destruct (lex_step _ _ _ _ _) as [a b c|s1 evs1].
  - exists a, b, c. split; [reflexivity|exact Hs].
  - destruct (IH pcap s1 evs1) as [evs' [res [s' [E1 E2]]]]; [lia|].
    exists evs', res, s'. split; [exact E1|]. destruct res; lia.
Qed.

End Nu.

(* ====================================================================================== *)
(* Part 2: Lexer.Next, both readings at once                                               *)
(* ====================================================================================== *)

Definition lex_dec (s : lstate) (x : list event * nres * lstate) : Prop :=
  let '(_, res, s') := x in
  match res with NTok _ => (nu s' < nu s)%nat | NErr _ => (nu s' <= nu s)%nat end.

Lemma lex_next_post lo ds (F : Prop) fuel pcap s evs :
  F \/ (lex_bounded lo ds /\ (nu s < fuel)%nat) ->
  post (fun x => F \/ lex_dec s x) F (lex_next lo ds fuel pcap s evs).
Proof.
  intros [HF|[HB Hn]].
  - pose proof (lex_next_no_pe lo ds fuel pcap s evs) as H.
    destruct (lex_next lo ds fuel pcap s evs); cbn in *; auto.
  - destruct (lex_next_total_nu lo ds HB fuel pcap s evs Hn) as [evs' [res [s' [E D]]]].
    rewrite E. cbn. right. exact D.
Qed.

Lemma new_lexer_nu lo src s : new_lexer lo src = Ok s ->
  lx_chunk s = None /\ (nu s <= length (r_buf src))%nat.
Proof.
  unfold new_lexer. destruct (lo_skip_magic lo).
  { intros H; inversion H; subst. unfold nu, Lb, cl9. rsimpl. split; [reflexivity|lia]. }
  destruct (rd_full 8 src) as [[m e] r1] eqn:E. apply rd_full_adv in E. destruct E as [_ [_ E]].
  destruct e; [discriminate|].
  destruct (bytes_eqb m magic); [|discriminate]. intros H; inversion H; subst.
  unfold nu, Lb, cl9. rsimpl. split; [reflexivity|lia].
Qed.

(* ====================================================================================== *)
(* Part 3: the seekable source, the summary section, Info, Messages dispatch               *)
(* ====================================================================================== *)

Lemma fs_stream_len f off sk : (length (r_buf (fs_stream f off sk)) <= N.to_nat (fs_size f))%nat.
Proof.
  unfold fs_stream, fs_size. destruct (fs_fail f) as [p|]; [destruct (p <=? _)|]; cbn [r_buf];
    rewrite ?drop_length, ?take_length; unfold blen; lia.
Qed.

Lemma seek_ok_okerr size off : okerr (seek_ok size off).
Proof. unfold seek_ok. destruct (_ <? _); [exact I|]. destruct (_ <=? _); exact I. Qed.

Lemma ci_insert_length o x l : length (ci_insert o x l) = S (length l).
Proof. induction l as [|y r IH]; cbn; [reflexivity|]. destruct (ci_before o x y); cbn; [reflexivity|]. rewrite IH. reflexivity. Qed.
Lemma ci_sort_length o l : length (ci_sort o l) = length l.
Proof. unfold ci_sort. induction l as [|y r IH]; cbn; [reflexivity|]. rewrite ci_insert_length, IH. reflexivity. Qed.
Lemma filter_len {A} (p : A -> bool) l : (length (filter p l) <= length l)%nat.
Proof. induction l as [|y r IH]; cbn; [lia|]. destruct (p y); cbn; lia. Qed.

Ltac ssimpl := unfold set; cbn [sm_schemas sm_channels sm_stats sm_cis sm_ais sm_mxs sm_footer].

Section Summ.
Variable ds : doracle.
Variable F : Prop.

Lemma summ_loop_post : forall fuel ro im l sm,
  F \/ (oracle9 ds /\ (nu l < fuel)%nat) ->
  post (fun sm' => (length (sm_cis sm') <= length (sm_cis sm) + fuel)%nat) F (summ_loop ds fuel ro im l sm).
Proof.
  induction fuel as [|f IH]; intros ro im l sm H.
  { cbn. destruct H as [H|[_ H]]; [exact H|lia]. }
  cbn [summ_loop].
  assert (H' : F \/ (lex_bounded summary_lopts ds /\ (nu l < S f)%nat)).
  { destruct H as [H|[H1 H2]]; [left; exact H|right; split; [right; exact H1|exact H2]]. }
  pose proof (lex_next_post summary_lopts ds F (S f) 0 l [] H') as P.
  destruct (lex_next summary_lopts ds (S f) 0 l []) as [[[evs res] l']| | | |];
    cbn [post] in P |- *; try exact P; try exact I.
  destruct res as [ev|e]; [|exact I].
  assert (K : F \/ (oracle9 ds /\ (nu l' < f)%nat)).
  { destruct P as [P|P]; [left; exact P|]. destruct H as [H|[H1 H2]]; [left; exact H|].
    right. split; [exact H1|]. cbn in P. lia. }
  assert (R : forall sm2, (length (sm_cis sm2) <= length (sm_cis sm) + 1)%nat ->
     post (fun sm' => (length (sm_cis sm') <= length (sm_cis sm) + S f)%nat) F (summ_loop ds f ro im l' sm2)).
  { intros sm2 Hl. eapply post_weaken; [apply IH; exact K| |auto]. cbn beta. intros; lia. }
  destruct ev as [op body| |a]; [|apply R; lia|apply R; lia].
  destruct (Byte.eqb op OpSchema).
  { eapply post_bind; [apply okerr_post, parse_schema_total|]. intros sc _. apply R. ssimpl. lia. }
  destruct (Byte.eqb op OpChannel).
  { eapply post_bind; [apply okerr_post, parse_channel_total|]. intros c _.
    destruct (topic_selected _ _); apply R; ssimpl; lia. }
  destruct (Byte.eqb op OpAttachmentIndex).
  { eapply post_bind; [apply okerr_post, parse_attindex_total|]. intros x _. apply R. ssimpl. lia. }
  destruct (Byte.eqb op OpMetadataIndex).
  { eapply post_bind; [apply okerr_post, parse_mdindex_total|]. intros x _. apply R. ssimpl. lia. }
  destruct (Byte.eqb op OpChunkIndex).
  { eapply post_bind; [apply okerr_post, parse_chunkindex_total|]. intros ci _.
    destruct (ci_time_ok _ _ _); apply R; ssimpl; rewrite ?app_length; cbn [length]; lia. }
  destruct (Byte.eqb op OpStatistics).
  { eapply post_bind; [apply okerr_post, parse_statistics_total|]. intros st _. apply R. ssimpl. lia. }
  destruct (Byte.eqb op OpFooter).
  { cbn [post]. ssimpl. rewrite ci_sort_length.
    destruct (ro_topics ro); [lia|]. pose proof (filter_len (ci_topic_ok (sm_channels sm)) (sm_cis sm)). lia. }
  apply R. lia.
Qed.

Lemma parse_summary_post f ro im :
  F \/ oracle9 ds ->
  post (fun sm => (length (sm_cis sm) <= S (N.to_nat (fs_size f)))%nat) F (parse_summary ds f ro im).
Proof.
  intros H. unfold parse_summary. cbv zeta.
  destruct (fs_size f <? 28); [exact I|].
  destruct (rd_full 28 _) as [[tail e] r1].
  destruct e as [e|]; [exact I|].
  destruct (negb _); [exact I|].
  eapply post_bind; [apply okerr_post, parse_footer_total|]. intros ft _.
  destruct (f_summary_start ft =? 0).
  { cbn [post]. unfold empty_summ. ssimpl. cbn [length]. lia. }
  eapply post_bind; [apply okerr_post, seek_ok_okerr|]. intros _ _.
  eapply post_weaken; [apply summ_loop_post| |auto].
  - destruct H as [H|H]; [left; exact H|right; split; [exact H|]].
    unfold nu, Lb, cl9. cbn [lx_base lx_chunk].
    pose proof (fs_stream_len f (f_summary_start ft) false). lia.
  - cbn beta. intros sm'. unfold empty_summ. ssimpl. cbn [length]. lia.
Qed.

Lemma info_post f :
  F \/ oracle9 ds ->
  post (fun sm => (length (sm_cis sm) <= S (N.to_nat (fs_size f)))%nat) F (info ds f).
Proof. apply parse_summary_post. Qed.

Lemma apply_opt_okerr o r : okerr (apply_opt o r).
Proof.
  destruct o; cbn [apply_opt]; try exact I;
    match goal with |- context[if ?c then _ else _] => destruct c end; exact I.
Qed.
Lemma apply_opts_okerr os : forall r, okerr (apply_opts os r).
Proof.
  induction os as [|o os IH]; intros r; cbn [apply_opts]; [exact I|].
  apply okerr_bind'; [apply apply_opt_okerr|apply IH].
Qed.

Lemma messages_dispatch_post f os :
  F \/ oracle9 ds -> post (fun _ => True) F (messages_dispatch ds f os).
Proof.
  intros H. unfold messages_dispatch.
  eapply post_bind; [apply okerr_post, apply_opts_okerr|]. intros r _. cbv zeta.
  destruct (ro_use_index (finalize r)); [|exact I].
  eapply post_bind; [apply info_post; exact H|]. intros sm _.
  destruct (can_use_index sm); [exact I|]. destruct (negb _); exact I.
Qed.

End Summ.

(* ====================================================================================== *)
(* Part 4: NewReader, GetMetadata, GetAttachmentReader: total for every oracle             *)
(* ====================================================================================== *)

Lemma reader_lopts_bounded ds : lex_bounded reader_lopts ds.
Proof. left. reflexivity. Qed.

Lemma new_reader_ok_nu ds f sk h l : new_reader ds f sk = Ok (h, l) ->
  (nu l < N.to_nat (fs_size f))%nat.
Proof.
  unfold new_reader.
  destruct (new_lexer reader_lopts (fs_stream f 0 sk)) as [l0| | | |] eqn:En; cbn [bind]; try discriminate.
  apply new_lexer_nu in En. destruct En as [Ec En].
  pose proof (fs_stream_len f 0 sk) as Hl.
  assert (Hf : False \/ (lex_bounded reader_lopts ds /\ (nu l0 < S (N.to_nat (fs_size f)))%nat)).
  { right. split; [apply reader_lopts_bounded|lia]. }
  pose proof (lex_next_post reader_lopts ds False _ 0 l0 [] Hf) as P.
  destruct (lex_next reader_lopts ds _ 0 l0 []) as [[[evs res] l']| | | |]; cbn [post] in P; try discriminate.
  destruct P as [[]|P]. cbn in P.
  destruct res as [ev|e]; [|discriminate].
  destruct ev as [op body| |a]; try discriminate.
  destruct (Byte.eqb op OpHeader); [|discriminate].
  destruct (parse_header body); cbn [bind]; try discriminate.
  intros H; inversion H; subst. lia.
Qed.

Lemma new_reader_okerr ds f sk : okerr (new_reader ds f sk).
Proof.
  unfold new_reader.
  apply okerr_bind; [apply new_lexer_okerr|]. intros l0 En.
  apply new_lexer_nu in En. destruct En as [Ec En].
  pose proof (fs_stream_len f 0 sk) as Hl.
  assert (Hf : False \/ (lex_bounded reader_lopts ds /\ (nu l0 < S (N.to_nat (fs_size f)))%nat)).
  { right. split; [apply reader_lopts_bounded|lia]. }
  pose proof (lex_next_post reader_lopts ds False _ 0 l0 [] Hf) as P.
  destruct (lex_next reader_lopts ds _ 0 l0 []) as [[[evs res] l']| | | |]; cbn [post] in P; try contradiction; try exact I.
  destruct res as [ev|e]; [|exact I].
  destruct ev as [op body| |a]; try exact I.
  destruct (Byte.eqb op OpHeader); [|exact I].
  apply okerr_bind'; [apply parse_header_total|]. intros; exact I.
Qed.

Lemma get_metadata_okerr ds f off : okerr (get_metadata ds f off).
Proof.
  unfold get_metadata. destruct (_ <? off); [exact I|]. cbv zeta.
  match goal with |- context[lex_next _ _ _ _ ?l0 _] => set (l := l0) end.
  assert (Hf : False \/ (lex_bounded reader_lopts ds /\ (nu l < S (N.to_nat (fs_size f)))%nat)).
  { right. split; [apply reader_lopts_bounded|]. subst l. unfold nu, Lb, cl9. cbn [lx_base lx_chunk].
    pose proof (fs_stream_len f off true). lia. }
  pose proof (lex_next_post reader_lopts ds False _ 0 l [] Hf) as P.
  destruct (lex_next reader_lopts ds _ 0 l []) as [[[evs res] l']| | | |]; cbn [post] in P; try contradiction; try exact I.
  destruct res as [ev|e]; [|exact I].
  destruct ev as [op body| |a]; try exact I.
  destruct (Byte.eqb op OpMetadata); [|exact I].
  apply parse_metadata_total.
Qed.

Lemma get_attachment_okerr f off : okerr (get_attachment f off).
Proof.
  unfold get_attachment. destruct (_ <? _); [exact I|]. cbv zeta.
  apply okerr_bind'; [apply lim_read_okerr|]. intros [lt o1].
  apply okerr_bind'; [apply lim_read_okerr|]. intros [ct o2].
  apply okerr_bind'; [apply lim_pstr_okerr|]. intros [name o3].
  apply okerr_bind'; [apply lim_pstr_okerr|]. intros [media o4].
  apply okerr_bind'; [apply lim_read_okerr|]. intros [dsz o5].
  exact I.
Qed.

(* ====================================================================================== *)
(* Part 5: the unindexed iterator, from any state                                          *)
(* ====================================================================================== *)

Definition u_dec (s : ustate) (x : list metadata * ures * ustate) : Prop :=
  let '(_, res, s') := x in
  match res with
  | UMsg _ => (nu (u_lex s') < nu (u_lex s))%nat
  | UMeta _ => False                 (* NextInto never returns a metadata record *)
  | UEnd _ => (nu (u_lex s') <= nu (u_lex s))%nat
  end.

Definition u_alloc (lo : lopts) (s : ustate) (x : list metadata * ures * ustate) : Prop :=
  let '(_, _, s') := x in allocs_ext (step_alloc_ok lo) (u_lex s) (u_lex s').

Section UNext.
Variable lo : lopts.
Variable ds : doracle.
Variable ro : ropts.
Variable F : Prop.

Lemma u_next_post : forall fuel s mds,
  F \/ (lex_bounded lo ds /\ (nu (u_lex s) < fuel)%nat) ->
  post (fun x => (F \/ u_dec s x) /\ u_alloc lo s x) F (u_next lo ds ro fuel s mds).
Proof.
  induction fuel as [|f IH]; intros s mds H.
  { cbn. destruct H as [H|[_ H]]; [exact H|lia]. }
  cbn [u_next].
  pose proof (lex_next_post lo ds F (S f) (u_reccap s) (u_lex s) [] H) as P.
  destruct (lex_next lo ds (S f) (u_reccap s) (u_lex s) []) as [[[evs res] l']| | | |] eqn:El;
    cbn [post] in P |- *; try exact P; try exact I.
  apply lex_next_allocs in El.
  destruct res as [ev|e].
  2:{ cbn [post]. split; [|exact El]. destruct P as [P|P]; [left; exact P|right; cbn in P |- *; exact P]. }
  assert (K : F \/ (lex_bounded lo ds /\ (nu l' < f)%nat /\ (nu l' < nu (u_lex s))%nat)).
  { destruct P as [P|P]; [left; exact P|]. destruct H as [H|[H1 H2]]; [left; exact H|].
    right. cbn in P. repeat split; [exact H1|lia|lia]. }
  assert (R : forall s2 mds2, u_lex s2 = l' ->
     post (fun x => (F \/ u_dec s x) /\ u_alloc lo s x) F (u_next lo ds ro f s2 mds2)).
  { intros s2 mds2 E. eapply post_weaken; [apply IH| |auto].
    - rewrite E. destruct K as [K|[K1 [K2 K3]]]; [left; exact K|right; split; assumption].
    - intros [[m r] s3] [D A]. split.
      + destruct D as [HF|D]; [left; exact HF|].
        destruct K as [K|[K1 [K2 K3]]]; [left; exact K|right].
        unfold u_dec in *. rewrite E in D. destruct r; try lia; contradiction.
      + unfold u_alloc in *. rewrite E in A. eapply allocs_ext_trans; eassumption. }
  assert (D : forall m r s2, u_lex s2 = l' -> (forall x, r <> UMeta x) ->
     (F \/ u_dec s (m, r, s2)) /\ u_alloc lo s (m, r, s2)).
  { intros m r s2 E Hr. split; [|unfold u_alloc; rewrite E; exact El].
    destruct K as [K|[K1 [K2 K3]]]; [left; exact K|right].
    unfold u_dec. rewrite E. destruct r; try lia. exact (Hr m0 eq_refl). }
  destruct ev as [op body| |a];
    [|cbn [post]; (apply D; [reflexivity|discriminate])|cbn [post]; (apply D; [reflexivity|discriminate])].
  cbv zeta.
  destruct (Byte.eqb op OpSchema).
  { pose proof (parse_schema_total body) as T. destruct (parse_schema body); cbn in T; try contradiction.
    - apply R. reflexivity.
    - cbn [post]. (apply D; [reflexivity|discriminate]). }
  destruct (Byte.eqb op OpChannel).
  { pose proof (parse_channel_total body) as T. destruct (parse_channel body); cbn in T; try contradiction.
    - destruct (topic_selected _ _); apply R; reflexivity.
    - cbn [post]. (apply D; [reflexivity|discriminate]). }
  destruct (Byte.eqb op OpMessage).
  { pose proof (parse_message_total body) as T. destruct (parse_message body) as [m| | | |]; cbn in T; try contradiction.
    - destruct (tab_get (m_chan m) (u_channels s)) as [c|]; [|apply R; reflexivity].
      destruct (in_window ro (m_log m)); [|apply R; reflexivity].
      destruct (tab_get (c_schema c) (u_schemas s)); [cbn [post]; (apply D; [reflexivity|discriminate])|].
      destruct (c_schema c =? 0); cbn [post]; (apply D; [reflexivity|discriminate]).
    - cbn [post]. (apply D; [reflexivity|discriminate]). }
  destruct (Byte.eqb op OpMetadata && ro_md_cb ro).
  { pose proof (parse_metadata_total body) as T. destruct (parse_metadata body); cbn in T; try contradiction.
    - apply R. reflexivity.
    - cbn [post]. (apply D; [reflexivity|discriminate]). }
  apply R. reflexivity.
Qed.

End UNext.

Lemma scan_lopts_bounded ds : oracle9 ds -> lex_bounded scan_lopts ds.
Proof. intros H. right. exact H. Qed.

Lemma scan_all_post ds F : forall n fuel ro s acc mds,
  F \/ (oracle9 ds /\ (nu (u_lex s) < fuel)%nat /\ (nu (u_lex s) < n)%nat) ->
  post (fun _ => True) F (scan_all ds fuel n ro s acc mds).
Proof.
  induction n as [|n IH]; intros fuel ro s acc mds H.
  { cbn. destruct H as [H|[_ [_ H]]]; [exact H|lia]. }
  cbn [scan_all].
  assert (H' : F \/ (lex_bounded scan_lopts ds /\ (nu (u_lex s) < fuel)%nat)).
  { destruct H as [H|[H1 [H2 H3]]]; [left; exact H|right; split; [right; exact H1|exact H2]]. }
  pose proof (u_next_post scan_lopts ds ro F fuel s [] H') as P.
  destruct (u_next scan_lopts ds ro fuel s []) as [[[md r] s']| | | |]; cbn [post] in P |- *; try exact P; try exact I.
  destruct r as [t|m|e]; [| |exact I]; apply IH;
    (destruct P as [[P|P] _]; [left; exact P|]; destruct H as [H|[H1 [H2 H3]]]; [left; exact H|right];
     cbn in P; repeat split; [exact H1|lia|lia]).
Qed.

(* ====================================================================================== *)
(* Part 6: the indexed iterator, from any state                                            *)
(* ====================================================================================== *)

Section Idx.
Variable dall : dalloracle.
Variable ro : ropts.
Variable sm : summ.
Variable f : fsrc.

Lemma walk_post (F : Prop) : forall fuel buf off slot acc,
  F \/ (length buf - N.to_nat off < fuel)%nat ->
  post (fun l => (length l <= length acc + fuel)%nat) F (walk ro sm fuel buf off slot acc).
Proof.
  induction fuel as [|fu IH]; intros buf off slot acc H.
  { cbn. destruct H as [H|H]; [exact H|lia]. }
  cbn [walk]. cbv zeta.
  destruct (blen buf <=? off) eqn:E0; [cbn [post]; lia|].
  destruct (blen buf <? off + 9) eqn:E1; [exact I|].
  destruct (two64 <=? _) eqn:E2; [exact I|].
  match goal with |- context[if blen buf <? ?x then Err EOther else _] => destruct (blen buf <? x) eqn:E3; [exact I|] end.
  assert (K : forall acc2, (length acc2 <= length acc + 1)%nat ->
     post (fun l => (length l <= length acc + S fu)%nat) F
       (walk ro sm fu buf (off + 9 + unle (skipn 1 (take 9 (drop off buf)))) slot acc2)).
  { intros acc2 Ha. eapply post_weaken; [apply IH| |auto].
    - destruct H as [H|H]; [left; exact H|right]. unfold blen in *. lia.
    - cbn beta. intros; lia. }
  destruct (Byte.eqb _ OpMessage); [|apply K; lia].
  eapply post_bind; [apply okerr_post, parse_message_total|]. intros m _.
  apply K. destruct (match tab_get _ _ with Some _ => _ | None => _ end); rewrite ?app_length; cbn [length]; lia.
Qed.


(* the result of a walk depends on the slot number only through the en_slot fields *)
Definition olen {A} (x : outcome (list A)) : outcome nat :=
  match x with
  | Ok l => Ok (length l) | Err e => Err e | Panic p => Panic p | Exit p => Exit p | OutOfFuel => OutOfFuel
  end.

Lemma walk_slot : forall fuel buf off slot slot' acc acc', length acc = length acc' ->
  olen (walk ro sm fuel buf off slot acc) = olen (walk ro sm fuel buf off slot' acc').
Proof.
  induction fuel as [|fu IH]; intros buf off slot slot' acc acc' Ha; [reflexivity|].
  cbn [walk]. cbv zeta.
  destruct (blen buf <=? off); [cbn; rewrite Ha; reflexivity|].
  destruct (blen buf <? off + 9); [reflexivity|].
  destruct (two64 <=? _); [reflexivity|].
  match goal with |- context[if blen buf <? ?x then Err EOther else _] => destruct (blen buf <? x); [reflexivity|] end.
  destruct (Byte.eqb _ OpMessage); [|apply IH; exact Ha].
  destruct (parse_message _) as [m| | | |]; cbn [bind]; try reflexivity.
  apply IH. destruct (match tab_get _ _ with Some _ => _ | None => _ end); rewrite ?app_length; cbn [length]; lia.
Qed.

(* the part of loadChunk that does not depend on the iterator state: the chunk and its plain records *)
Definition chunk_plain (ci : chunkindex) : outcome (chunk * bytes) :=
  let size := fs_size f in
  let* _ := seek_ok size (ci_offset ci) in
  if ci_length ci <? 9 then Err EOther else
  if size - ci_offset ci <? ci_length ci then Err EBadOffset else
  let '(rec, e, _) := rd_full (ci_length ci) (fs_stream f (ci_offset ci) true) in
  match e with
  | Some e => Err e
  | None =>
    let* k := parse_chunk (skipn 9 rec) in
    let* plain :=
      (if max_int32 <=? k_usize k then Err ELengthOutOfRange else
       if bytes_eqb (k_comp k) [] then
         (if blen (k_records k) =? k_usize k then Ok (k_records k) else Err EOther)
       else if bytes_eqb (k_comp k) [x7a; x73; x74; x64] || bytes_eqb (k_comp k) [x6c; x7a; x34] then
         match dall (k_comp k) (k_records k) (k_usize k) with
         | Some p => if blen p =? k_usize k then Ok p else Err EOther
         | None => Err EOther
         end
       else Err EOther) in
    Ok (k, plain)
  end.

Definition i_grow (ci : chunkindex) (s : istate) : istate :=
  if i_reccap s <? ci_length ci
  then s <| i_reccap := ci_length ci |> <| i_allocs := ci_length ci :: i_allocs s |> else s.

Lemma load_chunk_i_eq ci s :
  load_chunk_i dall ro sm f ci s =
  let* (k, plain) := chunk_plain ci in
  let s1 := i_grow ci s in
  let slot := match find_free (i_slots s1) 0 with Some i => i | None => length (i_slots s1) end in
  let s2 := s1 <| i_allocs := k_usize k :: i_allocs s1 |> in
  let* new := walk ro sm (S (length plain)) plain 0 slot [] in
  Ok (s2 <| i_slots := slot_set (i_slots s2) slot (N.of_nat (length new), plain) |>
         <| i_queue := merge_queue (ro_order ro) (i_queue s2) new |>).
Proof.
  unfold load_chunk_i, chunk_plain, i_grow. cbv zeta.
  destruct (seek_ok _ _); cbn [bind]; try reflexivity.
  destruct (ci_length ci <? 9); [reflexivity|].
  destruct (_ - _ <? _); [reflexivity|].
  destruct (rd_full _ _) as [[rec e] r1]. destruct e as [e|]; [reflexivity|].
  destruct (parse_chunk _) as [k| | | |]; cbn [bind]; try reflexivity.
  destruct (max_int32 <=? k_usize k); [reflexivity|].
  destruct (bytes_eqb (k_comp k) []); [destruct (_ =? _); reflexivity|].
  destruct (_ || _); [|reflexivity].
  destruct (dall _ _ _); [destruct (_ =? _)|]; reflexivity.
Qed.

Lemma chunk_plain_okerr ci : okerr (chunk_plain ci).
Proof.
  unfold chunk_plain. cbv zeta.
  apply okerr_bind'; [apply seek_ok_okerr|]. intros _.
  destruct (ci_length ci <? 9); [exact I|].
  destruct (_ - _ <? _); [exact I|].
  destruct (rd_full _ _) as [[rec e] r1]. destruct e as [e|]; [exact I|].
  apply okerr_bind'; [apply parse_chunk_total|]. intros k.
  destruct (max_int32 <=? k_usize k); [exact I|].
  destruct (bytes_eqb (k_comp k) []); [destruct (_ =? _); exact I|].
  destruct (_ || _); [|exact I].
  destruct (dall _ _ _); [destruct (_ =? _)|]; exact I.
Qed.

(* loadChunk is total from every state *)
Lemma load_chunk_i_okerr ci s : okerr (load_chunk_i dall ro sm f ci s).
Proof.
  rewrite load_chunk_i_eq.
  apply okerr_bind'; [apply chunk_plain_okerr|]. intros [k plain]. cbv zeta.
  apply okerr_bind'; [|intros; exact I].
  eapply post_okerr, (walk_post False). right. lia.
Qed.

(* number of messages loading the chunk of ci puts into the queue *)
Definition chunk_msgs (ci : chunkindex) : nat :=
  match chunk_plain ci with
  | Ok (_, plain) => match walk ro sm (S (length plain)) plain 0 O [] with Ok new => length new | _ => O end
  | _ => O
  end.

Lemma en_insert_asc_length x l : length (en_insert_asc x l) = S (length l).
Proof. induction l as [|y r IH]; cbn; [reflexivity|]. destruct (_ <? _); cbn; [reflexivity|]. rewrite IH; reflexivity. Qed.
Lemma en_insert_desc_length x l : length (en_insert_desc x l) = S (length l).
Proof. induction l as [|y r IH]; cbn; [reflexivity|]. destruct (_ <? _); cbn; [reflexivity|]. rewrite IH; reflexivity. Qed.
Lemma en_sort_asc_length l : length (en_sort_asc l) = length l.
Proof.
  unfold en_sort_asc. assert (G : forall l acc, length (fold_left (fun acc x => en_insert_asc x acc) l acc) = (length l + length acc)%nat).
  { induction l0 as [|y r IH]; intros acc; cbn; [reflexivity|]. rewrite IH, en_insert_asc_length. lia. }
  rewrite G. cbn. lia.
Qed.
Lemma en_sort_desc_length l : length (en_sort_desc l) = length l.
Proof.
  unfold en_sort_desc. assert (G : forall l acc, length (fold_left (fun acc x => en_insert_desc x acc) l acc) = (length l + length acc)%nat).
  { induction l0 as [|y r IH]; intros acc; cbn; [reflexivity|]. rewrite IH, en_insert_desc_length. lia. }
  rewrite G. cbn. lia.
Qed.
Lemma merge_queue_length o a b : length (merge_queue o a b) = (length a + length b)%nat.
Proof.
  destruct o; cbn [merge_queue]; rewrite ?en_sort_asc_length, ?en_sort_desc_length, !app_length, ?rev_length; reflexivity.
Qed.

Ltac isimpl := unfold set; cbn [i_cis i_queue i_slots i_reccap i_allocs].

Lemma i_grow_frame ci s : i_queue (i_grow ci s) = i_queue s /\ i_slots (i_grow ci s) = i_slots s /\ i_cis (i_grow ci s) = i_cis s.
Proof. unfold i_grow. destruct (_ <? _); repeat split; reflexivity. Qed.

Lemma load_chunk_i_queue ci s s' : load_chunk_i dall ro sm f ci s = Ok s' ->
  length (i_queue s') = (length (i_queue s) + chunk_msgs ci)%nat.
Proof.
  rewrite load_chunk_i_eq. unfold chunk_msgs.
  destruct (chunk_plain ci) as [[k plain]| | | |]; cbn [bind]; try discriminate. cbv zeta.
  match goal with |- context[walk ro sm _ plain 0 ?sl []] => set (slot := sl) end.
  pose proof (walk_slot (S (length plain)) plain 0 slot O [] [] eq_refl) as W.
  destruct (walk ro sm (S (length plain)) plain 0 slot []) as [new| | | |]; cbn [bind]; try discriminate.
  destruct (walk ro sm (S (length plain)) plain 0 O []) as [new0| | | |]; cbn [olen] in W; try discriminate.
  inversion W as [W1]. intros H; inversion H; subst s'; clear H. isimpl.
  rewrite merge_queue_length. destruct (i_grow_frame ci s) as [-> _]. lia.
Qed.

Definition sumn (l : list nat) : nat := fold_right Nat.add O l.
(* messages the iterator will yield for these chunk indexes; a chunk counts once per index that points to it *)
Definition index_load (cis : list chunkindex) : nat := sumn (map chunk_msgs cis).
Definition pot (s : istate) : nat := (length (i_queue s) + index_load (i_cis s))%nat.

(* allocation requests of the indexed iterator: the record buffer (chunk length, checked against the file
   size before it is requested) and the decompressed chunk (checked against MaxInt32) *)
Definition i_alloc_ok (n : N) : Prop := n < max_int32 \/ n <= fs_size f.
Definition i_allocs_ext (s s' : istate) : Prop :=
  exists l, i_allocs s' = l ++ i_allocs s /\ Forall i_alloc_ok l.
Lemma i_allocs_ext_refl s : i_allocs_ext s s.
Proof. exists []. split; [reflexivity|constructor]. Qed.
Lemma i_allocs_ext_trans a b c : i_allocs_ext a b -> i_allocs_ext b c -> i_allocs_ext a c.
Proof.
  intros [l1 [E1 F1]] [l2 [E2 F2]]. exists (l2 ++ l1). split.
  - rewrite E2, E1. apply app_assoc.
  - apply Forall_app; auto.
Qed.

Lemma chunk_plain_ok ci k plain : chunk_plain ci = Ok (k, plain) ->
  k_usize k < max_int32 /\ ci_length ci <= fs_size f /\ blen plain = k_usize k.
Proof.
  unfold chunk_plain. cbv zeta.
  destruct (seek_ok _ _); cbn [bind]; try discriminate.
  destruct (ci_length ci <? 9); [discriminate|].
  destruct (_ - _ <? _) eqn:E1; [discriminate|].
  destruct (rd_full _ _) as [[rec e] r1]. destruct e as [e|]; [discriminate|].
  destruct (parse_chunk _) as [k0| | | |]; cbn [bind]; try discriminate.
  destruct (max_int32 <=? k_usize k0) eqn:E2; [discriminate|].
  destruct (bytes_eqb (k_comp k0) []).
  { destruct (_ =? _) eqn:E3; [|discriminate]. cbn [bind]. intros H; inversion H; subst. lia. }
  destruct (_ || _); [|discriminate].
  destruct (dall _ _ _) as [p|]; [|discriminate].
  destruct (_ =? _) eqn:E3; [|discriminate]. cbn [bind]. intros H; inversion H; subst. lia.
Qed.

Lemma load_chunk_i_allocs ci s s' : load_chunk_i dall ro sm f ci s = Ok s' -> i_allocs_ext s s'.
Proof.
  rewrite load_chunk_i_eq.
  destruct (chunk_plain ci) as [[k plain]| | | |] eqn:Ep; cbn [bind]; try discriminate. cbv zeta.
  apply chunk_plain_ok in Ep. destruct Ep as [P1 [P2 _]].
  destruct (walk _ _ _ _ _ _ _) as [new| | | |]; cbn [bind]; try discriminate.
  intros H; inversion H; subst s'; clear H. unfold i_allocs_ext. isimpl.
  unfold i_grow. destruct (_ <? _); isimpl.
  - exists [k_usize k; ci_length ci]. split; [reflexivity|].
    constructor; [left; assumption|constructor; [right; assumption|constructor]].
  - exists [k_usize k]. split; [reflexivity|]. constructor; [left; assumption|constructor].
Qed.

Definition i_dec (s : istate) (x : ires * istate) : Prop :=
  let '(r, s') := x in
  (length (i_cis s') <= length (i_cis s))%nat /\
  match r with IMsg _ => (pot s' < pot s)%nat | IEnd _ => (pot s' <= pot s)%nat end /\
  i_allocs_ext s s'.

Lemma yield_dec e q s : i_queue s = e :: q -> i_dec s (yield sm e s).
Proof.
  intros Eq. unfold yield.
  assert (G0 : forall x, i_dec s (IEnd x, s)) by (intros; cbn; repeat split; try lia; apply i_allocs_ext_refl).
  destruct (nth_error _ _) as [[n buf]|]; [|apply G0].
  destruct (parse_message _) as [m| | | |]; try apply G0.
  assert (G1 : forall r, i_dec s (r, s <| i_slots := slot_dec (i_slots s) (en_slot e) |> <| i_queue := tl (i_queue s) |>)).
  { intros r. unfold i_dec, pot. isimpl. rewrite Eq. cbn [tl length]. split; [lia|].
    split; [destruct r; lia|]. exists []. split; [reflexivity|constructor]. }
  destruct (tab_get _ (sm_channels sm)) as [c|]; [|apply G1].
  destruct (tab_get _ (sm_schemas sm)); [apply G1|]. destruct (_ =? 0); apply G1.
Qed.

Lemma i_next_post (F : Prop) : forall fuel s,
  F \/ (length (i_cis s) < fuel)%nat ->
  post (i_dec s) F (i_next dall ro sm f fuel s).
Proof.
  induction fuel as [|fu IH]; intros s H.
  { cbn. destruct H as [H|H]; [exact H|lia]. }
  cbn [i_next].
  assert (G0 : forall x, i_dec s (IEnd x, s)) by (intros; cbn; repeat split; try lia; apply i_allocs_ext_refl).
  assert (L : forall ci rest, i_cis s = ci :: rest ->
     post (i_dec s) F
       match load_chunk_i dall ro sm f ci s with
       | Ok s' => i_next dall ro sm f fu (s' <| i_cis := rest |>)
       | Err e => Ok (IEnd e, s)
       | Panic p => Panic p | Exit p => Exit p | OutOfFuel => OutOfFuel
       end).
  { intros ci rest Ec. pose proof (load_chunk_i_okerr ci s) as T.
    destruct (load_chunk_i dall ro sm f ci s) as [s'| | | |] eqn:El; cbn in T; try contradiction; [|apply G0].
    pose proof (load_chunk_i_allocs _ _ _ El) as Al.
    apply load_chunk_i_queue in El.
    eapply post_weaken; [apply IH| |auto].
    - isimpl. rewrite Ec in H. cbn [length] in H. destruct H as [H|H]; [left; exact H|right; lia].
    - intros [r s2]. unfold i_dec, pot. isimpl. rewrite Ec, El. unfold index_load, sumn. cbn [map fold_right length].
      intros [D1 [D2 D3]]. split; [lia|]. split; [destruct r; lia|].
      eapply i_allocs_ext_trans; [exact Al|]. exact D3. }
  destruct (i_queue s) as [|e q] eqn:Eq.
  - destruct (i_cis s) as [|ci rest] eqn:Ec; [apply G0|]. apply L. reflexivity.
  - destruct (i_cis s) as [|ci rest] eqn:Ec.
    + cbn [post]. eapply yield_dec; exact Eq.
    + destruct (match ro_order ro with FileOrder => _ | LogTimeOrder => _ | ReverseLogTimeOrder => _ end).
      * apply L. reflexivity.
      * cbn [post]. eapply yield_dec; exact Eq.
Qed.

Lemma indexed_all_post (F : Prop) : forall n fuel s acc st,
  F \/ ((length (i_cis s) < fuel)%nat /\ (pot s < n)%nat) ->
  post (fun _ => True) F (indexed_all dall fuel n ro sm f s acc st).
Proof.
  induction n as [|n IH]; intros fuel s acc st H.
  { cbn. destruct H as [H|[_ H]]; [exact H|lia]. }
  cbn [indexed_all].
  assert (H' : F \/ (length (i_cis s) < fuel)%nat) by (destruct H as [H|[H _]]; auto).
  pose proof (i_next_post F fuel s H') as P.
  destruct (i_next dall ro sm f fuel s) as [[r s']| | | |]; cbn [post] in P |- *; try exact P; try exact I.
  destruct r as [t|e]; [|exact I].
  apply IH. destruct H as [H|[H1 H2]]; [left; exact H|right]. destruct P as [P1 [P2 _]]. lia.
Qed.

End Idx.

(* ====================================================================================== *)
(* Part 7: a complete read                                                                 *)
(* ====================================================================================== *)

(* the indexed read yields at most as many messages as the file has bytes *)
Definition index_load_ok (ds : doracle) (dall : dalloracle) (f : fsrc) (os : list ropt) : Prop :=
  forall r sm, messages_dispatch ds f os = Ok (MIndexed, r) -> parse_summary ds f r false = Ok sm ->
    (index_load dall r sm f (sm_cis sm) <= N.to_nat (fs_size f))%nat.

Lemma read_messages_post ds dall f os (F : Prop) :
  F \/ (oracle9 ds /\ index_load_ok ds dall f os) ->
  post (fun _ => True) F (read_messages ds dall f os).
Proof.
  intros H. unfold read_messages. cbv zeta.
  assert (H9 : F \/ oracle9 ds) by (destruct H as [H|[H _]]; auto).
  pose proof (new_reader_okerr ds f true) as Tn.
  destruct (new_reader ds f true) as [[h l]| | | |] eqn:En; cbn in Tn; try contradiction; cbn [bind]; [|exact I].
  apply new_reader_ok_nu in En.
  pose proof (messages_dispatch_post ds F f os H9) as Pd.
  destruct (messages_dispatch ds f os) as [[m r]| | | |] eqn:Ed; cbn [post] in Pd |- *; try exact Pd; try exact I.
  destruct m.
  - eapply post_bind; [apply scan_all_post|].
    + destruct H as [H|[H _]]; [left; exact H|right]. cbn [u_lex]. repeat split; [exact H|lia|lia].
    + intros [[ms mds] e] _. exact I.
  - pose proof (parse_summary_post ds F f r false H9) as Ps.
    destruct (parse_summary ds f r false) as [sm| | | |] eqn:Es; cbn [post] in Ps |- *; try exact Ps; try exact I.
    destruct (if ro_md_cb r then _ else _) as [mds e]. destruct e as [e|]; [exact I|].
    eapply post_bind; [apply indexed_all_post|].
    + destruct H as [H|[_ H]]; [left; exact H|right]. specialize (H r sm Ed Es).
      unfold pot. cbn [i_cis i_queue length]. lia.
    + intros [[ms e] st] _. exact I.
Qed.

(* ====================================================================================== *)
(* Part 8: the statements                                                                  *)
(* ====================================================================================== *)

Definition never_pe {A} (x : outcome A) : Prop := forall site, x <> Panic site /\ x <> Exit site.

Lemma post_never_pe {A} (Q : A -> Prop) (x : outcome A) : post Q True x -> never_pe x.
Proof. intros H site. apply no_pe_sites. eapply post_no_pe; exact H. Qed.
Lemma post_no_crash {A} (Q : A -> Prop) (x : outcome A) : post Q False x -> no_crash x = true.
Proof. intros H. apply okerr_no_crash. eapply post_okerr; exact H. Qed.
Lemma post_ok {A} (Q : A -> Prop) F (x : outcome A) a : post Q F x -> x = Ok a -> Q a.
Proof. intros H E. rewrite E in H. exact H. Qed.

(* ---------- 1. entry points ---------- *)
Theorem new_reader_total : forall ds f sk, no_crash (new_reader ds f sk) = true.
Proof. intros. apply okerr_no_crash, new_reader_okerr. Qed.

Theorem get_metadata_total : forall ds f off, no_crash (get_metadata ds f off) = true.
Proof. intros. apply okerr_no_crash, get_metadata_okerr. Qed.

Theorem get_attachment_total : forall f off, no_crash (get_attachment f off) = true.
Proof. intros. apply okerr_no_crash, get_attachment_okerr. Qed.

Theorem parse_summary_no_panic : forall ds f ro im, never_pe (parse_summary ds f ro im).
Proof. intros. eapply post_never_pe, parse_summary_post. left; exact I. Qed.

Theorem parse_summary_total : forall ds, oracle9 ds ->
  forall f ro im, no_crash (parse_summary ds f ro im) = true.
Proof. intros ds H f ro im. eapply post_no_crash, parse_summary_post. right; exact H. Qed.

(* whatever the oracle does, a parsed summary holds at most size+1 chunk indexes *)
Theorem parse_summary_chunk_indexes : forall ds f ro im sm,
  parse_summary ds f ro im = Ok sm -> (length (sm_cis sm) <= S (N.to_nat (fs_size f)))%nat.
Proof.
  intros ds f ro im sm E.
  exact (post_ok _ _ _ _ (parse_summary_post ds True f ro im (or_introl I)) E).
Qed.

Theorem info_no_panic : forall ds f, never_pe (info ds f).
Proof. intros. apply parse_summary_no_panic. Qed.
Theorem info_total : forall ds, oracle9 ds -> forall f, no_crash (info ds f) = true.
Proof. intros ds H f. apply parse_summary_total; exact H. Qed.

Theorem messages_dispatch_no_panic : forall ds f os, never_pe (messages_dispatch ds f os).
Proof. intros. eapply post_never_pe, messages_dispatch_post. left; exact I. Qed.
Theorem messages_dispatch_total : forall ds, oracle9 ds ->
  forall f os, no_crash (messages_dispatch ds f os) = true.
Proof. intros ds H f os. eapply post_no_crash, messages_dispatch_post. right; exact H. Qed.

(* ---------- 3. step level, from ANY state ---------- *)
Theorem u_next_no_panic : forall lo ds ro fuel s mds, never_pe (u_next lo ds ro fuel s mds).
Proof. intros. eapply post_never_pe, u_next_post. left; exact I. Qed.

Theorem u_next_total : forall lo ds ro fuel s mds,
  lex_bounded lo ds -> (nu (u_lex s) < fuel)%nat ->
  no_crash (u_next lo ds ro fuel s mds) = true /\
  (forall x, u_next lo ds ro fuel s mds = Ok x -> u_dec s x).
Proof.
  intros lo ds ro fuel s mds H1 H2.
  assert (P : post (fun x => (False \/ u_dec s x) /\ u_alloc lo s x) False (u_next lo ds ro fuel s mds)).
  { apply u_next_post. right. split; assumption. }
  split; [eapply post_no_crash; exact P|].
  intros x E. destruct (post_ok _ _ _ _ P E) as [[[]|D] _]. exact D.
Qed.

Theorem u_next_allocs : forall lo ds ro fuel s mds mds' r s',
  u_next lo ds ro fuel s mds = Ok (mds', r, s') ->
  allocs_ext (step_alloc_ok lo) (u_lex s) (u_lex s').
Proof.
  intros lo ds ro fuel s mds mds' r s' E.
  exact (proj2 (post_ok _ _ _ _ (u_next_post lo ds ro True fuel s mds (or_introl I)) E)).
Qed.

Theorem scan_all_no_panic : forall ds fuel n ro s acc mds, never_pe (scan_all ds fuel n ro s acc mds).
Proof. intros. eapply post_never_pe, scan_all_post. left; exact I. Qed.

Theorem scan_all_total : forall ds fuel n ro s acc mds,
  oracle9 ds -> (nu (u_lex s) < fuel)%nat -> (nu (u_lex s) < n)%nat ->
  no_crash (scan_all ds fuel n ro s acc mds) = true.
Proof. intros. eapply post_no_crash, scan_all_post. right. repeat split; assumption. Qed.

Theorem walk_no_panic : forall ro sm fuel buf off slot acc, never_pe (walk ro sm fuel buf off slot acc).
Proof. intros. eapply post_never_pe, walk_post. left; exact I. Qed.
Theorem walk_total : forall ro sm fuel buf off slot acc,
  (length buf - N.to_nat off < fuel)%nat -> no_crash (walk ro sm fuel buf off slot acc) = true.
Proof. intros. eapply post_no_crash, walk_post. right; assumption. Qed.

Theorem load_chunk_i_total : forall dall ro sm f ci s, no_crash (load_chunk_i dall ro sm f ci s) = true.
Proof. intros. apply okerr_no_crash, load_chunk_i_okerr. Qed.

Theorem i_next_no_panic : forall dall ro sm f fuel s, never_pe (i_next dall ro sm f fuel s).
Proof. intros. eapply post_never_pe, i_next_post. left; exact I. Qed.

Theorem i_next_total : forall dall ro sm f fuel s,
  (length (i_cis s) < fuel)%nat -> no_crash (i_next dall ro sm f fuel s) = true.
Proof. intros. eapply post_no_crash, i_next_post. right; assumption. Qed.

(* every successful step: no new chunk indexes, the potential (queued + still indexed messages) drops with
   every message, the allocation log grows by admissible requests only *)
Theorem i_next_progress : forall dall ro sm f fuel s x,
  i_next dall ro sm f fuel s = Ok x -> i_dec dall ro sm f s x.
Proof.
  intros dall ro sm f fuel s x E.
  exact (post_ok _ _ _ _ (i_next_post dall ro sm f True fuel s (or_introl I)) E).
Qed.

Theorem indexed_all_no_panic : forall dall fuel n ro sm f s acc st,
  never_pe (indexed_all dall fuel n ro sm f s acc st).
Proof. intros. eapply post_never_pe, indexed_all_post. left; exact I. Qed.

Theorem indexed_all_total : forall dall fuel n ro sm f s acc st,
  (length (i_cis s) < fuel)%nat -> (pot dall ro sm f s < n)%nat ->
  no_crash (indexed_all dall fuel n ro sm f s acc st) = true.
Proof. intros. eapply post_no_crash, indexed_all_post. right; split; assumption. Qed.

(* ---------- 2. a complete read ---------- *)
Theorem read_messages_no_panic : forall ds dall f os, never_pe (read_messages ds dall f os).
Proof. intros. eapply post_never_pe, read_messages_post. left; exact I. Qed.

Theorem read_messages_total : forall ds dall f os,
  oracle9 ds -> index_load_ok ds dall f os ->
  no_crash (read_messages ds dall f os) = true.
Proof. intros. eapply post_no_crash, read_messages_post. right; split; assumption. Qed.

(* the sequential read needs the bound on the streaming decoder only *)
Theorem read_messages_scan_total : forall ds dall f os,
  oracle9 ds -> (forall r, messages_dispatch ds f os <> Ok (MIndexed, r)) ->
  no_crash (read_messages ds dall f os) = true.
Proof.
  intros ds dall f os H1 H2. apply read_messages_total; [exact H1|].
  intros r sm Hd. destruct (H2 r Hd).
Qed.

(* the statements that are FALSE of the model as it stands (see ex_bomb_info, ex_zbomb_read, ex_dup_read) *)
Definition info_total_full_statement : Prop :=
  forall ds f, no_crash (info ds f) = true.
Definition read_messages_total_full_statement : Prop :=
  forall ds dall f os, no_crash (read_messages ds dall f os) = true.

(* ---------- 4. allocation ceilings ---------- *)
Theorem new_reader_alloc_ceiling : forall ds f sk h l,
  new_reader ds f sk = Ok (h, l) -> Forall (fun n => n < max_int32) (lx_allocs l).
Proof.
  intros ds f sk h l. unfold new_reader.
  destruct (new_lexer reader_lopts (fs_stream f 0 sk)) as [l0| | | |] eqn:En; cbn [bind]; try discriminate.
  apply new_lexer_allocs in En.
  destruct (lex_next reader_lopts ds _ 0 l0 []) as [[[evs res] l']| | | |] eqn:El; try discriminate.
  apply lex_next_allocs in El.
  destruct res as [ev|e]; [|discriminate].
  destruct ev as [op body| |a]; try discriminate.
  destruct (Byte.eqb op OpHeader); [|discriminate].
  destruct (parse_header body); cbn [bind]; try discriminate.
  intros H; inversion H; subst.
  eapply Forall_impl; [|eapply allocs_ext_forall; [exact El|rewrite En; constructor]].
  intros n [Hn _]. exact Hn.
Qed.

Theorem u_next_alloc_ceiling : forall lo ds ro fuel s mds mds' r s',
  Forall (fun n => n < max_int32) (lx_allocs (u_lex s)) ->
  u_next lo ds ro fuel s mds = Ok (mds', r, s') ->
  Forall (fun n => n < max_int32) (lx_allocs (u_lex s')).
Proof.
  intros lo ds ro fuel s mds mds' r s' Hs E. apply u_next_allocs in E.
  destruct E as [l [E Fl]]. rewrite E. apply Forall_app. split; [|exact Hs].
  eapply Forall_impl; [|exact Fl]. intros n [Hn _]. exact Hn.
Qed.

Theorem load_chunk_i_alloc_ceiling : forall dall ro sm f ci s s',
  load_chunk_i dall ro sm f ci s = Ok s' ->
  exists l, i_allocs s' = l ++ i_allocs s /\ Forall (fun n => n < max_int32 \/ n <= fs_size f) l.
Proof. intros. eapply load_chunk_i_allocs; eassumption. Qed.

Theorem i_next_alloc_ceiling : forall dall ro sm f fuel s r s',
  Forall (fun n => n < max_int32 \/ n <= fs_size f) (i_allocs s) ->
  i_next dall ro sm f fuel s = Ok (r, s') ->
  Forall (fun n => n < max_int32 \/ n <= fs_size f) (i_allocs s').
Proof.
  intros dall ro sm f fuel s r s' Hs E. apply i_next_progress in E.
  destruct E as [_ [_ [l [E Fl]]]]. rewrite E. apply Forall_app. split; [exact Fl|exact Hs].
Qed.

(* ---------- 2b. a size-based sufficient condition for the indexed read ---------- *)
(* a selected message costs at least 31 bytes of decompressed chunk (9 bytes of record head, 22 of body) *)
Lemma parse_message_ok_len b m : parse_message b = Ok m -> (22 <= length b)%nat.
Proof.
  unfold parse_message.
  destruct (get_u16 b 0) as [[ch o1]| | | |] eqn:E1; cbn [bind]; try discriminate.
  destruct (get_u32 b o1) as [[sq o2]| | | |] eqn:E2; cbn [bind]; try discriminate.
  destruct (get_u64 b o2) as [[lt o3]| | | |] eqn:E3; cbn [bind]; try discriminate.
  destruct (get_u64 b o3) as [[pt o4]| | | |] eqn:E4; cbn [bind]; try discriminate.
  intros _. apply get_u_ok in E1, E2, E3, E4. lia.
Qed.

Section IdxBytes.
Variable dall : dalloracle.
Variable ro : ropts.
Variable sm : summ.
Variable f : fsrc.

Lemma walk_count : forall fuel buf off slot acc l,
  walk ro sm fuel buf off slot acc = Ok l ->
  (31 * length l + N.to_nat (N.min off (blen buf)) <= 31 * length acc + length buf)%nat.
Proof.
  induction fuel as [|fu IH]; intros buf off slot acc l H; [discriminate|].
  cbn [walk] in H. cbv zeta in H.
  destruct (blen buf <=? off) eqn:E0; [inversion H; subst; unfold blen in *; lia|].
  destruct (blen buf <? off + 9) eqn:E1; [discriminate|].
  destruct (two64 <=? _) eqn:E2; [discriminate|].
  match type of H with context[if blen buf <? ?x then Err EOther else _] => destruct (blen buf <? x) eqn:E3; [discriminate|] end.
  destruct (Byte.eqb _ OpMessage).
  - destruct (parse_message _) as [m| | | |] eqn:Ep; cbn [bind] in H; try discriminate.
    apply parse_message_ok_len in Ep. rewrite take_length in Ep.
    apply IH in H.
    assert (Ha : (length (if match tab_get (m_chan m) (sm_channels sm) with Some _ => in_window ro (m_log m) | None => false end
                          then acc ++ [{| en_ts := m_log m; en_off := off; en_slot := slot |}] else acc) <= length acc + 1)%nat).
    { destruct (match tab_get _ _ with Some _ => _ | None => _ end); rewrite ?app_length; cbn [length]; lia. }
    unfold blen in *. lia.
  - apply IH in H. unfold blen in *. lia.
Qed.

(* decompressed size of the chunk a chunk index points to (0 when loading it fails) *)
Definition chunk_usize (ci : chunkindex) : nat :=
  match chunk_plain dall f ci with Ok (_, plain) => length plain | _ => O end.
Definition index_bytes (cis : list chunkindex) : nat := sumn (map chunk_usize cis).

Lemma chunk_msgs_le ci : (31 * chunk_msgs dall ro sm f ci <= chunk_usize ci)%nat.
Proof.
  unfold chunk_msgs, chunk_usize.
  destruct (chunk_plain dall f ci) as [[k plain]| | | |]; try lia.
  destruct (walk ro sm (S (length plain)) plain 0 O []) as [new| | | |] eqn:W; try lia.
  apply walk_count in W. cbn [length] in W. lia.
Qed.

Lemma index_load_le cis : (31 * index_load dall ro sm f cis <= index_bytes cis)%nat.
Proof.
  unfold index_load, index_bytes, sumn. induction cis as [|ci r IH]; cbn [map fold_right]; [lia|].
  pose proof (chunk_msgs_le ci). lia.
Qed.

End IdxBytes.

(* the decompressed sizes of the indexed chunks (a chunk counts once per index pointing to it) add up to at
   most 31 times the file size *)
Definition index_bytes_ok (ds : doracle) (dall : dalloracle) (f : fsrc) (os : list ropt) : Prop :=
  forall r sm, messages_dispatch ds f os = Ok (MIndexed, r) -> parse_summary ds f r false = Ok sm ->
    (index_bytes dall f (sm_cis sm) <= 31 * N.to_nat (fs_size f))%nat.

Theorem read_messages_total_bytes : forall ds dall f os,
  oracle9 ds -> index_bytes_ok ds dall f os ->
  no_crash (read_messages ds dall f os) = true.
Proof.
  intros ds dall f os H1 H2. apply read_messages_total; [exact H1|].
  intros r sm Hd Hs. specialize (H2 r sm Hd Hs).
  pose proof (index_load_le dall r sm f (sm_cis sm)). lia.
Qed.

(* ====================================================================================== *)
(* Part 9: examples - non-vacuity, hostile inputs, and the inputs on which the fuel runs out *)
(* ====================================================================================== *)

Definition ex_mem (b : bytes) : fsrc := {| fs_data := b; fs_fail := None |}.
Definition ex_zstd : bytes := [x7a; x73; x74; x64].
Definition ex_chunk_body (usize : N) (comp recs : bytes) : bytes :=
  u64 0 ++ u64 0 ++ u64 usize ++ u32 0 ++ pstr comp ++ u64 (blen recs) ++ recs.
Definition ex_footer (summary_start : N) : bytes := frame OpFooter (u64 summary_start ++ u64 0 ++ u32 0).
Fixpoint ex_rep {A} (n : nat) (l : list A) : list A := match n with O => [] | S k => l ++ ex_rep k l end.
Definition ex_no_dall : dalloracle := fun _ _ _ => None.
Definition ex_header : bytes := frame OpHeader (enc_header {| h_profile := []; h_library := [] |}).
Definition ex_chan : bytes :=
  frame OpChannel (enc_channel {| c_id := 1; c_schema := 0; c_topic := [x74]; c_menc := []; c_meta := [] |}).
Definition ex_cix (off len : N) : bytes := frame OpChunkIndex (enc_chunkindex
  {| ci_start := 0; ci_end := 0; ci_offset := off; ci_length := len; ci_mioffsets := []; ci_milength := 0;
     ci_comp := []; ci_csize := 0; ci_usize := 0 |}).
Definition ex_message : bytes :=
  frame OpMessage (enc_message {| m_chan := 1; m_seq := 0; m_log := 0; m_pub := 0; m_data := [] |}).
(* data section `pre`, then the summary section, the footer pointing at it, the closing magic *)
Definition ex_with_summary (pre summary : bytes) : bytes := pre ++ summary ++ ex_footer (blen pre) ++ magic.
(* an uncompressed chunk of a channel record and m messages, indexed c times *)
Definition ex_plain_chunk (m : nat) : bytes :=
  let recs := ex_chan ++ ex_rep m ex_message in frame OpChunk (ex_chunk_body (blen recs) [] recs).
Definition ex_dup_file (m c : nat) : bytes :=
  ex_with_summary (magic ++ ex_header ++ ex_plain_chunk m) (ex_chan ++ ex_rep c (ex_cix 25 (blen (ex_plain_chunk m)))).
Definition ex_strip (x : outcome readres) : outcome (option mode * nat * err) :=
  match x with
  | Ok r => Ok (rr_mode r, length (rr_msgs r), rr_end r)
  | Err e => Err e | Panic p => Panic p | Exit p => Exit p | OutOfFuel => OutOfFuel
  end.

(* ----- the hypotheses are satisfiable ----- *)
Example ex_oracle9_id : oracle9 id_oracle.
Proof. intros c a e. cbn. lia. Qed.
(* a decoder that triples its input *)
Example ex_oracle9_expanding : oracle9 (fun _ a e => (a ++ a ++ a, e)).
Proof. intros c a e. cbn [fst]. rewrite !app_length. lia. Qed.

(* a well-formed indexed file: 3 messages, one chunk index; and the same chunk indexed 4 times (12 messages
   from a file of 548 bytes): index_load_ok holds, the read succeeds *)
Example ex_index_load_ok_1 : index_load_ok id_oracle ex_no_dall (ex_mem (ex_dup_file 3 1)) [].
Proof.
  intros r sm Hd Hs. vm_compute in Hd. inversion Hd; subst r; clear Hd.
  vm_compute in Hs. inversion Hs; subst sm; clear Hs.
  apply Nat.leb_le. vm_compute. reflexivity.
Qed.
Example ex_index_load_ok_4 : index_load_ok id_oracle ex_no_dall (ex_mem (ex_dup_file 3 4)) [].
Proof.
  intros r sm Hd Hs. vm_compute in Hd. inversion Hd; subst r; clear Hd.
  vm_compute in Hs. inversion Hs; subst sm; clear Hs.
  apply Nat.leb_le. vm_compute. reflexivity.
Qed.
Example ex_read_ok :
  ex_strip (read_messages id_oracle ex_no_dall (ex_mem (ex_dup_file 3 1)) []) = Ok (Some MIndexed, 3%nat, EEOF) /\
  ex_strip (read_messages id_oracle ex_no_dall (ex_mem (ex_dup_file 3 4)) []) = Ok (Some MIndexed, 12%nat, EEOF) /\
  ex_strip (read_messages id_oracle ex_no_dall (ex_mem (ex_dup_file 3 4)) [OUsingIndex false]) = Ok (Some MScan, 3%nat, EEOF).
Proof. vm_compute. repeat split; reflexivity. Qed.

Example ex_index_bytes_ok_4 : index_bytes_ok id_oracle ex_no_dall (ex_mem (ex_dup_file 3 4)) [].
Proof.
  intros r sm Hd Hs. vm_compute in Hd. inversion Hd; subst r; clear Hd.
  vm_compute in Hs. inversion Hs; subst sm; clear Hs.
  apply Nat.leb_le. vm_compute. reflexivity.
Qed.
Example ex_scan_dispatch : forall r,
  messages_dispatch id_oracle (ex_mem (ex_dup_file 3 4)) [OUsingIndex false] <> Ok (MIndexed, r).
Proof. intros r H. vm_compute in H. discriminate H. Qed.

(* step level: the lexer state NewReader leaves behind satisfies the fuel hypotheses of u_next_total and
   scan_all_total with the fuel read_messages passes; the initial state of the indexed iterator satisfies
   those of i_next_total and indexed_all_total *)
Example ex_step_hyps :
  match new_reader id_oracle (ex_mem (ex_dup_file 3 1)) true with
  | Ok (_, l) => Nat.ltb (nu l) 329 && Nat.ltb 0 (nu l)
  | _ => false
  end = true /\
  fs_size (ex_mem (ex_dup_file 3 1)) = 329 /\
  lex_bounded scan_lopts id_oracle /\
  match info id_oracle (ex_mem (ex_dup_file 3 1)) with
  | Ok sm => Nat.ltb (length (sm_cis sm)) 330 && Nat.eqb (length (sm_cis sm)) 1 &&
             Nat.eqb (index_load ex_no_dall (finalize default_ropts) sm (ex_mem (ex_dup_file 3 1)) (sm_cis sm)) 3
  | _ => false
  end = true.
Proof.
  split; [vm_compute; reflexivity|]. split; [vm_compute; reflexivity|].
  split; [right; exact ex_oracle9_id|]. vm_compute. reflexivity.
Qed.

(* allocation logs of real steps: NewReader (header body), the first NextInto of the sequential read (channel
   and message bodies; the chunk is streamed, not buffered), the first step of the indexed read (record buffer
   of the chunk length 168, decompressed chunk 119) *)
Example ex_alloc_logs :
  let f := ex_mem (ex_dup_file 3 1) in
  let ro := finalize default_ropts in
  match new_reader id_oracle f true with
  | Ok (_, l) =>
    (lx_allocs l,
     match u_next scan_lopts id_oracle ro 700 {| u_lex := l; u_schemas := []; u_channels := []; u_reccap := 0 |} [] with
     | Ok (_, UMsg _, s') => lx_allocs (u_lex s') | _ => [] end)
  | _ => ([], [])
  end = ([8], [22; 17; 8]) /\
  match info id_oracle f with
  | Ok sm =>
    match i_next ex_no_dall ro sm f 700 {| i_cis := sm_cis sm; i_queue := []; i_slots := []; i_reccap := 0; i_allocs := [] |} with
    | Ok (IMsg _, s') => i_allocs s' | _ => [] end
  | _ => []
  end = [119; 168].
Proof. vm_compute. split; reflexivity. Qed.
(* walk with exactly the fuel load_chunk_i passes *)
Example ex_walk_hyp :
  (length (ex_rep 4 ex_message) - N.to_nat 0 < S (length (ex_rep 4 ex_message)))%nat /\
  is_ok (walk (finalize default_ropts) empty_summ (S (length (ex_rep 4 ex_message))) (ex_rep 4 ex_message) 0 0 []) = true.
Proof. split; [apply Nat.ltb_lt; vm_compute; reflexivity|vm_compute; reflexivity]. Qed.

(* ----- hostile inputs: errors, not crashes ----- *)
(* a chunk index whose chunk length is 5 *)
Definition ex_short_ci_file : bytes := ex_with_summary (magic ++ ex_header) (ex_chan ++ ex_cix 8 5).
(* footers pointing past the end of the file, and at 2^63 *)
Definition ex_past_end_file : bytes := magic ++ ex_header ++ ex_footer 1000 ++ magic.
Definition ex_two63_file : bytes := magic ++ ex_header ++ ex_footer 9223372036854775808 ++ magic.

Example ex_hostile_footer :
  info id_oracle (ex_mem ex_past_end_file) = Err EBadOffset /\
  info id_oracle (ex_mem ex_two63_file) = Err EBadOffset /\
  messages_dispatch id_oracle (ex_mem ex_two63_file) [] = Err EBadOffset /\
  ex_strip (read_messages id_oracle ex_no_dall (ex_mem ex_two63_file) []) = Ok (None, O, EBadOffset).
Proof. vm_compute. repeat split; reflexivity. Qed.

Example ex_hostile_chunk_index :
  messages_dispatch id_oracle (ex_mem ex_short_ci_file) [] = Ok (MIndexed, finalize default_ropts) /\
  ex_strip (read_messages id_oracle ex_no_dall (ex_mem ex_short_ci_file) []) = Ok (Some MIndexed, O, EOther) /\
  (* the same file with a source that fails at byte 140 (inside the summary) *)
  info id_oracle {| fs_data := ex_short_ci_file; fs_fail := Some 140 |} = Err EInjected.
Proof. vm_compute. repeat split; reflexivity. Qed.

(* offsets at and beyond 2^63; offset + 9 wraps around 2^64 as in Go *)
Example ex_hostile_offsets :
  get_attachment (ex_mem (magic ++ ex_header)) 18446744073709551607 = Err EUnexpectedEOF /\
  get_attachment (ex_mem ex_short_ci_file) 18446744073709551615 = Err EUnexpectedEOF /\
  get_attachment (ex_mem ex_short_ci_file) 9223372036854775808 = Err EOther /\
  get_attachment (ex_mem ex_short_ci_file) 1000 = Err EEOF /\
  get_metadata id_oracle (ex_mem ex_short_ci_file) 9223372036854775808 = Err EOther /\
  get_metadata id_oracle (ex_mem ex_short_ci_file) 1000 = Err EEOF /\
  get_metadata id_oracle (ex_mem ex_short_ci_file) 8 = Err EUnexpectedToken.
Proof. vm_compute. repeat split; reflexivity. Qed.

(* ----- inputs on which the model's fuel runs out (model artefacts, not Go behaviour) ----- *)
(* 1. Info: a chunk record inside the summary section, a streaming decoder that turns its empty payload into
      200 records of an unknown opcode.  98 bytes of file, fuel 99. *)
Definition ex_bomb_file : bytes :=
  magic ++ frame OpChunk (ex_chunk_body 0 ex_zstd []) ++ ex_footer 8 ++ magic.
Definition ex_bomb_ds : doracle := fun _ _ _ => (ex_rep 200 (x80 :: u64 0), None).

Example ex_bomb_info :
  fs_size (ex_mem ex_bomb_file) = 98 /\
  info ex_bomb_ds (ex_mem ex_bomb_file) = OutOfFuel /\
  messages_dispatch ex_bomb_ds (ex_mem ex_bomb_file) [] = OutOfFuel /\
  is_ok (info id_oracle (ex_mem ex_bomb_file)) = true.
Proof. vm_compute. repeat split; reflexivity. Qed.
Example ex_bomb_not_oracle9 : ~ oracle9 ex_bomb_ds.
Proof.
  intros H. specialize (H [] [] None). apply Nat.leb_le in H. vm_compute in H. discriminate.
Qed.
Theorem info_total_full_statement_false : ~ info_total_full_statement.
Proof.
  intros H. specialize (H ex_bomb_ds (ex_mem ex_bomb_file)).
  destruct ex_bomb_info as [_ [E _]]. rewrite E in H. cbn [no_crash] in H. discriminate H.
Qed.

(* 2. the sequential read: a chunk whose streaming decoder delivers a channel and 400 messages; 107 bytes *)
Definition ex_sbomb_file : bytes :=
  magic ++ ex_header ++ frame OpChunk (ex_chunk_body 0 ex_zstd []) ++ ex_footer 0 ++ magic.
Definition ex_sbomb_ds : doracle := fun _ _ _ => (ex_chan ++ ex_rep 400 ex_message, None).
Example ex_sbomb_read :
  read_messages ex_sbomb_ds ex_no_dall (ex_mem ex_sbomb_file) [OUsingIndex false] = OutOfFuel.
Proof. vm_compute. reflexivity. Qed.

(* 3. the indexed read: a compressed chunk whose decoder delivers 400 messages; 214 bytes *)
Definition ex_zchunk : bytes := frame OpChunk (ex_chunk_body (31 * 400) ex_zstd []).
Definition ex_zbomb_file : bytes :=
  ex_with_summary (magic ++ ex_header ++ ex_zchunk) (ex_chan ++ ex_cix 25 (blen ex_zchunk)).
Definition ex_zbomb_dall : dalloracle := fun _ _ _ => Some (ex_rep 400 ex_message).
Example ex_zbomb_read :
  fs_size (ex_mem ex_zbomb_file) = 214 /\
  read_messages id_oracle ex_zbomb_dall (ex_mem ex_zbomb_file) [] = OutOfFuel.
Proof. vm_compute. split; reflexivity. Qed.

(* 4. the indexed read WITHOUT any compression: one chunk of 125 messages, 80 chunk indexes that all point
      to it: 10000 messages from a file of 9878 bytes *)
Example ex_dup_read :
  fs_size (ex_mem (ex_dup_file 125 80)) = 9878 /\
  read_messages id_oracle ex_no_dall (ex_mem (ex_dup_file 125 80)) [] = OutOfFuel.
Proof. vm_compute. split; reflexivity. Qed.

Theorem read_messages_total_full_statement_false : ~ read_messages_total_full_statement.
Proof.
  intros H. specialize (H id_oracle ex_zbomb_dall (ex_mem ex_zbomb_file) []).
  destruct ex_zbomb_read as [_ E]. rewrite E in H. cbn [no_crash] in H. discriminate H.
Qed.
