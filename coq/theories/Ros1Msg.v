(* Ros1Msg.v - executable model of go/ros/ros1msg/ros1msg_parser.go (ParseMessageDefinition).
   Strings are byte lists.  strings.TrimSpace is modelled with Go's full Unicode white-space set
   (as UTF-8 byte sequences); the single regular expression
       ([^ \t]+)[ \t]* [ \t]*([a-zA-Z][a-zA-Z0-9_]* )
   is specialised by hand to its leftmost-first semantics (see field_match). *)
From Coq Require Import List NArith ZArith Bool.
From Coq.Strings Require Import Byte.
From Mcap Require Import Bytes GoSem.
Import ListNotations.
Open Scope N_scope.
Open Scope go_scope.

(* ---------- strings helpers ---------- *)
Definition bN (b : byte) : N := Byte.to_N b.
Definition is_byte (b : byte) (n : N) : bool := bN b =? n.

Fixpoint starts_with (p s : bytes) : bool :=
  match p, s with
  | [], _ => true
  | _ :: _, [] => false
  | a :: p', b :: s' => Byte.eqb a b && starts_with p' s'
  end.

(* strings.Split(s, sep) for a one-byte separator *)
Fixpoint split_byte_aux (sep : N) (s : bytes) (cur : bytes) : list bytes :=
  match s with
  | [] => [rev cur]
  | b :: r => if is_byte b sep then rev cur :: split_byte_aux sep r [] else split_byte_aux sep r (b :: cur)
  end.
Definition split_byte (sep : N) (s : bytes) : list bytes := split_byte_aux sep s [].

Fixpoint contains_byte (c : N) (s : bytes) : bool :=
  match s with [] => false | b :: r => is_byte b c || contains_byte c r end.

(* strings.Index(s, one byte): position of first occurrence *)
Fixpoint index_byte_aux (c : N) (s : bytes) (i : nat) : option nat :=
  match s with [] => None | b :: r => if is_byte b c then Some i else index_byte_aux c r (S i) end.
Definition index_byte (c : N) (s : bytes) : option nat := index_byte_aux c s 0.

Fixpoint join_nl (l : list bytes) : bytes :=
  match l with
  | [] => []
  | [x] => x
  | x :: r => x ++ x0a :: join_nl r
  end.

(* Unicode white space (unicode.IsSpace) as UTF-8 byte sequences *)
Definition spaces : list bytes :=
  [[x09]; [x0a]; [x0b]; [x0c]; [x0d]; [x20]; [xc2; x85]; [xc2; xa0]; [xe1; x9a; x80];
   [xe2; x80; x80]; [xe2; x80; x81]; [xe2; x80; x82]; [xe2; x80; x83]; [xe2; x80; x84]; [xe2; x80; x85];
   [xe2; x80; x86]; [xe2; x80; x87]; [xe2; x80; x88]; [xe2; x80; x89]; [xe2; x80; x8a];
   [xe2; x80; xa8]; [xe2; x80; xa9]; [xe2; x80; xaf]; [xe2; x81; x9f]; [xe3; x80; x80]].

Fixpoint strip_one (sp : list bytes) (s : bytes) : option bytes :=
  match sp with
  | [] => None
  | p :: r => if starts_with p s then Some (skipn (length p) s) else strip_one r s
  end.
Fixpoint trim_left (fuel : nat) (s : bytes) : bytes :=
  match fuel with
  | O => s
  | S f => match strip_one spaces s with Some s' => trim_left f s' | None => s end
  end.
(* trailing: the same sequences reversed, on the reversed string *)
Definition trim_space (s : bytes) : bytes :=
  let l := trim_left (length s) s in
  let r := rev l in
  let fix tr (fuel : nat) (x : bytes) : bytes :=
      match fuel with
      | O => x
      | S f => match strip_one (map (@rev byte) spaces) x with Some x' => tr f x' | None => x end
      end in
  rev (tr (length r) r).

(* ---------- the regular expression ---------- *)
Definition is_sp_tab (b : byte) : bool := is_byte b 32 || is_byte b 9.
Definition is_alpha (b : byte) : bool :=
  let n := bN b in ((65 <=? n) && (n <=? 90)) || ((97 <=? n) && (n <=? 122)).
Definition is_alnum_us (b : byte) : bool :=
  let n := bN b in is_alpha b || ((48 <=? n) && (n <=? 57)) || (n =? 95).

Fixpoint span (p : byte -> bool) (s : bytes) : bytes * bytes :=
  match s with
  | [] => ([], [])
  | b :: r => if p b then let '(a, c) := span p r in (b :: a, c) else ([], s)
  end.

(* leftmost match: the first maximal run T of non-blank bytes that is followed by a blank run
   containing at least one space and then a byte in [a-zA-Z]; groups: T and the identifier prefix *)
Fixpoint field_match (fuel : nat) (s : bytes) : option (bytes * bytes) :=
  match fuel with
  | O => None
  | S f =>
    let '(_, s1) := span is_sp_tab s in
    match s1 with
    | [] => None
    | _ =>
      let '(tok, s2) := span (fun b => negb (is_sp_tab b)) s1 in
      let '(ws, s3) := span is_sp_tab s2 in
      match s3 with
      | c :: _ =>
        if existsb (fun b => is_byte b 32) ws && is_alpha c
        then Some (tok, fst (span is_alnum_us s3))
        else field_match f s2
      | [] => None
      end
    end
  end.

(* ---------- strconv.Atoi ---------- *)
Definition is_digit (b : byte) : bool := let n := bN b in (48 <=? n) && (n <=? 57).
Definition atoi (s : bytes) : option Z :=
  let '(neg, ds) := match s with
                    | b :: r => if is_byte b 45 then (true, r) else if is_byte b 43 then (false, r) else (false, s)
                    | [] => (false, []) end in
  match ds with
  | [] => None
  | _ =>
    if forallb is_digit ds then
      let v := fold_left (fun acc b => (acc * 10 + Z.of_N (bN b - 48))%Z) ds 0%Z in
      let v := if neg then (- v)%Z else v in
      if ((-9223372036854775808 <=? v) && (v <=? 9223372036854775807))%Z then Some v else None
    else None
  end.

(* parseArrayType (after the fix: a ']' before the '[' is not an array suffix) *)
Definition parse_array_type (s : bytes) : bool * bytes * Z :=
  match index_byte 91 s, index_byte 93 s with
  | Some l, Some r =>
    if Nat.ltb r l then (false, [], 0%Z) else
    let base := firstn l s in
    let size := firstn (r - (l + 1)) (skipn (l + 1) s) in
    match size with
    | [] => (true, base, 0%Z)
    | _ => match atoi size with Some n => (true, base, n) | None => (false, [], 0%Z) end
    end
  | _, _ => (false, [], 0%Z)
  end.

(* ---------- types ---------- *)
Inductive ty :=
| Ty (base : bytes) (is_array : bool) (fixed : Z) (is_record : bool) (items : option ty) (fields : list field)
with field :=
| Fld (name : bytes) (t : ty).

Definition str (l : list N) : bytes := map byte_of_N l.
Definition primitives : list bytes :=
  [str [98;111;111;108]; str [105;110;116;56]; str [117;105;110;116;56]; str [105;110;116;49;54];
   str [117;105;110;116;49;54]; str [105;110;116;51;50]; str [117;105;110;116;51;50]; str [105;110;116;54;52];
   str [117;105;110;116;54;52]; str [102;108;111;97;116;51;50]; str [102;108;111;97;116;54;52];
   str [115;116;114;105;110;103]; str [116;105;109;101]; str [100;117;114;97;116;105;111;110];
   str [99;104;97;114]; str [98;121;116;101]].
Fixpoint mem_b (x : bytes) (l : list bytes) : bool :=
  match l with [] => false | y :: r => bytes_eqb x y || mem_b x r end.

(* Go map lookup: last assignment wins *)
Fixpoint dep_get (k : bytes) (deps : list (bytes * bytes)) : option bytes :=
  match deps with
  | [] => None
  | (k', v) :: r => match dep_get k r with Some x => Some x | None => if bytes_eqb k k' then Some v else None end
  end.

Definition s_header : bytes := str [72;101;97;100;101;114].
Definition s_std_header : bytes := str [115;116;100;95;109;115;103;115;47;72;101;97;100;101;114].
Definition s_msg_prefix : bytes := str [77;83;71;58;32].

Inductive line_kind := LSkip | LField (ftype fname : bytes) | LBad.
Definition classify_line (raw : bytes) : line_kind :=
  let line := trim_space raw in
  match line with
  | [] => LSkip
  | b :: _ =>
    if is_byte b 35 then LSkip
    else if contains_byte 61 (hd [] (split_byte 35 line)) then LSkip
    else match field_match (S (length line)) line with
         | Some (t, n) => LField t n
         | None => LBad
         end
  end.

(* resolveDependentFields; `visiting` holds the dependency keys on the current resolution path
   (after the fix a type that contains itself is an error instead of unbounded recursion) *)
Fixpoint resolve (fuel : nat) (pkg : bytes) (deps : list (bytes * bytes)) (visiting : list bytes) (def : bytes)
  : outcome (list field) :=
  match fuel with
  | O => OutOfFuel
  | S fu =>
    let fix go (lines : list bytes) (acc : list field) : outcome (list field) :=
      match lines with
      | [] => Ok acc
      | raw :: rest =>
        match classify_line raw with
        | LSkip => go rest acc
        | LBad => Err EOther
        | LField ftype fname =>
          let '(is_arr, base, fixed) := parse_array_type ftype in
          let ft := if is_arr then base else ftype in
          let* (is_rec, rfields) :=
            (if mem_b ft primitives then Ok (false, [])
             else
               let qualified := contains_byte 47 ft in
               let fpkg := if qualified then hd [] (split_byte 47 ft) else pkg in
               let* (key, sub) :=
                 (match dep_get ft deps with
                  | Some d => Ok (ft, d)
                  | None =>
                    if bytes_eqb ft s_header then
                      match dep_get s_std_header deps with Some d => Ok (s_std_header, d) | None => Err EOther end
                    else if negb qualified then
                      let q := fpkg ++ x2f :: ft in
                      match dep_get q deps with Some d => Ok (q, d) | None => Err EOther end
                    else Ok (ft, [])
                  end) in
               if mem_b key visiting then Err EOther else
               let* fs := resolve fu fpkg deps (key :: visiting) sub in
               Ok (true, fs)) in
          let f := if is_arr
                   then Fld fname (Ty ftype true fixed false (Some (Ty ft false 0%Z is_rec None rfields)) [])
                   else Fld fname (Ty ftype false fixed is_rec None rfields) in
          go rest (acc ++ [f])
        end
      end in
    go (split_byte 10 def) []
  end.

(* splitLines(s, line starts with '=' after TrimSpace) *)
Fixpoint split_sections (lines : list bytes) (cur : bytes) (acc : list bytes) : list bytes :=
  match lines with
  | [] => match cur with [] => acc | _ => acc ++ [cur] end
  | l :: r =>
    if starts_with [x3d] (trim_space l) then split_sections r [] (acc ++ [cur])
    else split_sections r (cur ++ l ++ [x0a]) acc
  end.

Definition strip_prefix (p s : bytes) : bytes := if starts_with p s then skipn (length p) s else s.

Definition parse_msgdef (pkg : bytes) (data : bytes) : outcome (list field) :=
  let secs := split_sections (split_byte 10 data) [] [] in
  let def := hd [] secs in
  let deps := map (fun sub =>
                     let ls := split_byte 10 sub in
                     (strip_prefix s_msg_prefix (trim_space (hd [] ls)), join_nl (tl ls))) (tl secs) in
  resolve (length deps + 3) pkg deps [] def.
