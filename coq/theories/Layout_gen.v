(* Layout_gen.v - GENERATED on every run by tools/gen_layout.py (Go AST translator tools/gotrans) from
   /repo/go/mcap/parse.go and writer.go. Do not edit. *)
From Coq Require Import List String.
Import ListNotations.
Open Scope string_scope.

Inductive prim := U8 | U16 | U32 | U64 | PStr | PBytes | PMap | PCopy | PUnknown.

(* per Parse function: (variable, primitive, offset argument, inside a loop) in source order *)
Definition parse_reads : list (string * list (string * prim * string * bool)) := [
  ("ParseHeader", [("profile", PStr, "0", false); ("library", PStr, "offset", false)]);
  ("ParseFooter", [("summaryStart", U64, "0", false); ("summaryOffsetStart", U64, "offset", false); ("summaryCrc", U32, "offset", false)]);
  ("ParseSchema", [("schemaID", U16, "0", false); ("name", PStr, "offset", false); ("encoding", PStr, "offset", false); ("data", PBytes, "offset", false)]);
  ("ParseChannel", [("channelID", U16, "0", false); ("schemaID", U16, "offset", false); ("topic", PStr, "offset", false); ("messageEncoding", PStr, "offset", false); ("metadata", PMap, "offset", false)]);
  ("PopulateFrom", [("channelID", U16, "0", false); ("sequence", U32, "offset", false); ("logTime", U64, "offset", false); ("publishTime", U64, "offset", false)]);
  ("ParseMessage", []);
  ("ParseChunk", [("messageStartTime", U64, "0", false); ("messageEndTime", U64, "offset", false); ("uncompressedSize", U64, "offset", false); ("uncompressedCRC", U32, "offset", false); ("compression", PStr, "offset", false); ("recordsLength", U64, "offset", false)]);
  ("ParseMessageIndex", [("channelID", U16, "0", false); ("entriesByteLength", U32, "offset", false); ("stamp", U64, "offset", true); ("value", U64, "offset", true)]);
  ("ParseChunkIndex", [("messageStartTime", U64, "0", false); ("messageEndTime", U64, "offset", false); ("chunkStartOffset", U64, "offset", false); ("chunkLength", U64, "offset", false); ("msgIndexOffsetsLen", U32, "offset", false); ("channelID", U16, "inset", true); ("indexOffset", U64, "inset", true); ("msgIndexLength", U64, "offset", false); ("compression", PStr, "offset", false); ("compressedSize", U64, "offset", false); ("uncompressedSize", U64, "offset", false)]);
  ("ParseAttachmentIndex", [("attachmentOffset", U64, "0", false); ("length", U64, "offset", false); ("logTime", U64, "offset", false); ("createTime", U64, "offset", false); ("dataSize", U64, "offset", false); ("name", PStr, "offset", false); ("mediaType", PStr, "offset", false)]);
  ("ParseStatistics", [("messageCount", U64, "0", false); ("schemaCount", U16, "offset", false); ("channelCount", U32, "offset", false); ("attachmentCount", U32, "offset", false); ("metadataCount", U32, "offset", false); ("chunkCount", U32, "offset", false); ("messageStartTime", U64, "offset", false); ("messageEndTime", U64, "offset", false); ("channelMessageCountLength", U32, "offset", false); ("chanID", U16, "offset", true); ("channelMessageCount", U64, "offset", true)]);
  ("ParseMetadata", [("name", PStr, "0", false); ("metadata", PMap, "offset", false)]);
  ("ParseMetadataIndex", [("recordOffset", U64, "0", false); ("length", U64, "offset", false); ("name", PStr, "offset", false)]);
  ("ParseSummaryOffset", [("groupStart", U64, "offset", false); ("groupLength", U64, "offset", false)]);
  ("ParseDataEnd", [("crc", U32, "0", false)])].

(* per Parse function: struct field -> the variable read that it is built from (first read variable occurring in the
   expression; "" when none), in source order *)
Definition parse_fields : list (string * list (string * string)) := [
  ("ParseHeader", [("Profile", "profile"); ("Library", "library")]);
  ("ParseFooter", [("SummaryStart", "summaryStart"); ("SummaryOffsetStart", "summaryOffsetStart"); ("SummaryCRC", "summaryCrc")]);
  ("ParseSchema", [("ID", "schemaID"); ("Name", "name"); ("Encoding", "encoding"); ("Data", "data")]);
  ("ParseChannel", [("ID", "channelID"); ("SchemaID", "schemaID"); ("Topic", "topic"); ("MessageEncoding", "messageEncoding"); ("Metadata", "metadata")]);
  ("PopulateFrom", [("ChannelID", "channelID"); ("Sequence", "sequence"); ("LogTime", "logTime"); ("PublishTime", "publishTime"); ("Data", ""); ("Data", "")]);
  ("ParseMessage", []);
  ("ParseChunk", [("MessageStartTime", "messageStartTime"); ("MessageEndTime", "messageEndTime"); ("UncompressedSize", "uncompressedSize"); ("UncompressedCRC", "uncompressedCRC"); ("Compression", "compression"); ("Records", "")]);
  ("ParseMessageIndex", [("ChannelID", "channelID"); ("Records", ""); ("currentIndex", "")]);
  ("ParseChunkIndex", [("MessageStartTime", "messageStartTime"); ("MessageEndTime", "messageEndTime"); ("ChunkStartOffset", "chunkStartOffset"); ("ChunkLength", "chunkLength"); ("MessageIndexOffsets", ""); ("MessageIndexLength", "msgIndexLength"); ("Compression", "compression"); ("CompressedSize", "compressedSize"); ("UncompressedSize", "uncompressedSize")]);
  ("ParseAttachmentIndex", [("Offset", "attachmentOffset"); ("Length", "length"); ("LogTime", "logTime"); ("CreateTime", "createTime"); ("DataSize", "dataSize"); ("Name", "name"); ("MediaType", "mediaType")]);
  ("ParseStatistics", [("MessageCount", "messageCount"); ("SchemaCount", "schemaCount"); ("ChannelCount", "channelCount"); ("AttachmentCount", "attachmentCount"); ("MetadataCount", "metadataCount"); ("ChunkCount", "chunkCount"); ("MessageStartTime", "messageStartTime"); ("MessageEndTime", "messageEndTime"); ("ChannelMessageCounts", "")]);
  ("ParseMetadata", [("Name", "name"); ("Metadata", "metadata")]);
  ("ParseMetadataIndex", [("Offset", "recordOffset"); ("Length", "length"); ("Name", "name")]);
  ("ParseSummaryOffset", [("GroupOpcode", ""); ("GroupStart", "groupStart"); ("GroupLength", "groupLength")]);
  ("ParseDataEnd", [("DataSectionCRC", "crc")])].

(* per Write function: (primitive, expression written, inside a loop) in source order, and the opcodes passed to writeRecord *)
Definition write_puts : list (string * list (prim * string * bool)) := [
  ("WriteHeader", [(PStr, ".Profile", false); (PStr, "library", false)]);
  ("WriteFooter", [(U64, "uint64(msglen)", false); (U64, ".SummaryStart", false); (U64, ".SummaryOffsetStart", false); (U32, "w.w.Checksum()", false)]);
  ("WriteSchema", [(U16, ".ID", false); (PStr, ".Name", false); (PStr, ".Encoding", false); (PBytes, ".Data", false)]);
  ("WriteChannel", [(U16, ".ID", false); (U16, ".SchemaID", false); (PStr, ".Topic", false); (PStr, ".MessageEncoding", false); (PCopy, "userdata", false)]);
  ("WriteMessage", [(U16, ".ChannelID", false); (U32, ".Sequence", false); (U64, ".LogTime", false); (U64, ".PublishTime", false); (PCopy, ".Data", false)]);
  ("WriteMessageIndex", [(U16, ".ChannelID", false); (U32, "uint32(datalen)", false); (U64, ".Timestamp", true); (U64, ".Offset", true)]);
  ("WriteAttachment", [(U8, "byte(OpAttachment)", false); (U64, "uint64(bufferLen) + .DataSize + 4 - 9", false); (U64, ".LogTime", false); (U64, ".CreateTime", false); (PStr, ".Name", false); (PStr, ".MediaType", false); (U64, ".DataSize", false); (U32, "crcWriter.Checksum()", false)]);
  ("WriteAttachmentIndex", [(U64, ".Offset", false); (U64, ".Length", false); (U64, ".LogTime", false); (U64, ".CreateTime", false); (U64, ".DataSize", false); (PStr, ".Name", false); (PStr, ".MediaType", false)]);
  ("WriteStatistics", [(U64, ".MessageCount", false); (U16, ".SchemaCount", false); (U32, ".ChannelCount", false); (U32, ".AttachmentCount", false); (U32, ".MetadataCount", false); (U32, ".ChunkCount", false); (U64, ".MessageStartTime", false); (U64, ".MessageEndTime", false); (U32, "uint32(lenMessageCounts * (2 + 8))", false); (U16, "chanID", true); (U64, "messageCount", true)]);
  ("WriteMetadata", [(PStr, ".Name", false); (PCopy, "data", false)]);
  ("WriteMetadataIndex", [(U64, ".Offset", false); (U64, ".Length", false); (PStr, ".Name", false)]);
  ("WriteSummaryOffset", [(U64, ".GroupStart", false); (U64, ".GroupLength", false)]);
  ("WriteDataEnd", [(U32, ".DataSectionCRC", false)]);
  ("WriteChunkWithIndexes", []);
  ("writeChunkWithIndexes", [(U8, "byte(OpChunk)", false); (U64, "uint64(msglen)", false); (U64, ".MessageStartTime", false); (U64, ".MessageEndTime", false); (U64, "uncompressedlen", false); (U32, ".UncompressedCRC", false); (PStr, ".Compression", false); (U64, "uint64(compressedlen)", false)]);
  ("WriteChunkIndex", [(U64, ".MessageStartTime", false); (U64, ".MessageEndTime", false); (U64, ".ChunkStartOffset", false); (U64, ".ChunkLength", false); (U32, "uint32(messageIndexLength)", false); (U16, "chanID", true); (U64, "v", true); (U64, ".MessageIndexLength", false); (PStr, "string(.Compression)", false); (U64, ".CompressedSize", false); (U64, ".UncompressedSize", false)])].

Definition write_opcodes : list (string * list string) := [
  ("WriteHeader", ["OpHeader"]);
  ("WriteFooter", []);
  ("WriteSchema", ["OpSchema"; "OpSchema"]);
  ("WriteChannel", ["OpChannel"; "OpChannel"]);
  ("WriteMessage", ["OpMessage"; "OpMessage"]);
  ("WriteMessageIndex", ["OpMessageIndex"]);
  ("WriteAttachment", []);
  ("WriteAttachmentIndex", ["OpAttachmentIndex"]);
  ("WriteStatistics", ["OpStatistics"]);
  ("WriteMetadata", ["OpMetadata"]);
  ("WriteMetadataIndex", ["OpMetadataIndex"]);
  ("WriteSummaryOffset", ["OpSummaryOffset"]);
  ("WriteDataEnd", ["OpDataEnd"]);
  ("WriteChunkWithIndexes", []);
  ("writeChunkWithIndexes", []);
  ("WriteChunkIndex", ["OpChunkIndex"])].

Definition fn_loops : list (string * nat) := [
  ("ParseHeader", 0);
  ("ParseFooter", 0);
  ("ParseSchema", 0);
  ("ParseChannel", 0);
  ("PopulateFrom", 0);
  ("ParseMessage", 0);
  ("ParseChunk", 0);
  ("ParseMessageIndex", 1);
  ("ParseChunkIndex", 1);
  ("ParseAttachmentIndex", 0);
  ("ParseStatistics", 1);
  ("ParseMetadata", 0);
  ("ParseMetadataIndex", 0);
  ("ParseSummaryOffset", 0);
  ("ParseDataEnd", 0);
  ("WriteHeader", 0);
  ("WriteFooter", 0);
  ("WriteSchema", 0);
  ("WriteChannel", 0);
  ("WriteMessage", 0);
  ("WriteMessageIndex", 1);
  ("WriteAttachment", 0);
  ("WriteAttachmentIndex", 0);
  ("WriteStatistics", 2);
  ("WriteMetadata", 0);
  ("WriteMetadataIndex", 0);
  ("WriteSummaryOffset", 0);
  ("WriteDataEnd", 0);
  ("WriteChunkWithIndexes", 0);
  ("writeChunkWithIndexes", 1);
  ("WriteChunkIndex", 1)].
