(* Reader.v - executable model of go/mcap/reader.go, reader_options.go,
   unindexed_message_iterator.go, indexed_message_iterator.go and Info (mcap.go).

   The seekable source is a byte string plus an optional position at which every read fails
   (fault injection); every read is an io.ReadFull (directly or through bufio / the lexer).

   The indexed iterator is written over an abstract *chunk loader* so that the queue/slot
   algorithm (Iter section) is literally the same function in the abstract proofs (C03, C04, C20)
   and in the byte-level reader. *)
From Coq Require Import List NArith ZArith Bool.
From Coq.Strings Require Import Byte.
From RecordUpdate Require Import RecordSet.
From Mcap Require Import Bytes GoSem Crc32 Records Lexer.
Import ListNotations RecordSetNotations.
Open Scope N_scope.
Open Scope go_scope.

(* ================= read options (reader_options.go, Reader.Messages) ================= *)
Inductive rorder := FileOrder | LogTimeOrder | ReverseLogTimeOrder.
Definition rorder_eqb (a b : rorder) : bool :=
  match a, b with
  | FileOrder, FileOrder | LogTimeOrder, LogTimeOrder | ReverseLogTimeOrder, ReverseLogTimeOrder => true
  | _, _ => false end.

Record ropts := {
  ro_start : Z; ro_end : Z;                (* deprecated int64 Start / End *)
  ro_topics : list bytes;
  ro_use_index : bool;
  ro_order : rorder;
  ro_md_cb : bool;                         (* a metadata callback is installed *)
  ro_start_n : N; ro_end_n : N;            (* StartNanos / EndNanos *)
  ro_unbounded : bool                      (* no upper bound was requested *)
}.
#[export] Instance eta_ropts : Settable _ := settable! Build_ropts
  < ro_start; ro_end; ro_topics; ro_use_index; ro_order; ro_md_cb; ro_start_n; ro_end_n; ro_unbounded >.

Inductive ropt :=
| OAfter (x : Z) | OBefore (x : Z) | OAfterNanos (x : N) | OBeforeNanos (x : N)
| OTopics (l : list bytes) | OInOrder (o : rorder) | OUsingIndex (b : bool) | OMetadataCb.

Definition default_ropts : ropts :=
  {| ro_start := 0; ro_end := 0; ro_topics := []; ro_use_index := true; ro_order := FileOrder;
     ro_md_cb := false; ro_start_n := 0; ro_end_n := max_u64; ro_unbounded := true |}.

Definition apply_opt (o : ropt) (r : ropts) : outcome ropts :=
  match o with
  | OAfter x => if (0 <? ro_end r)%Z && (ro_end r <? x)%Z then Err EOther else Ok (r <| ro_start := x |>)
  | OBefore x => if (x <? ro_start r)%Z then Err EOther else Ok (r <| ro_end := x |>)
  | OAfterNanos x => if negb (ro_unbounded r) && (ro_end_n r <? x) then Err EOther else Ok (r <| ro_start_n := x |>)
  | OBeforeNanos x => if x <? ro_start_n r then Err EOther else Ok (r <| ro_end_n := x |> <| ro_unbounded := false |>)
  | OTopics l => Ok (r <| ro_topics := l |>)
  | OInOrder o => if negb (ro_use_index r) && negb (rorder_eqb o FileOrder) then Err EOther else Ok (r <| ro_order := o |>)
  | OUsingIndex b => if negb (rorder_eqb (ro_order r) FileOrder) && negb b then Err EOther else Ok (r <| ro_use_index := b |>)
  | OMetadataCb => Ok (r <| ro_md_cb := true |>)
  end.

Fixpoint apply_opts (os : list ropt) (r : ropts) : outcome ropts :=
  match os with
  | [] => Ok r
  | o :: rest => let* r' := apply_opt o r in apply_opts rest r'
  end.

Definition finalize (r : ropts) : ropts :=
  let r := if (ro_start_n r =? 0) && (0 <? ro_start r)%Z then r <| ro_start_n := Z.to_N (ro_start r) |> else r in
  if ((ro_end_n r =? 0) || ro_unbounded r) && (0 <? ro_end r)%Z
  then r <| ro_end_n := Z.to_N (ro_end r) |> <| ro_unbounded := false |> else r.

(* the window test applied to every message *)
Definition in_window (r : ropts) (t : N) : bool :=
  (ro_start_n r <=? t) && ((t <? ro_end_n r) || ro_unbounded r).

(* ================= tables (slicemap) ================= *)
Fixpoint tab_set {A} (k : N) (v : A) (l : list (N * A)) : list (N * A) :=
  match l with
  | [] => [(k, v)]
  | x :: r => if fst x =? k then (k, v) :: r else if k <? fst x then (k, v) :: l else x :: tab_set k v r
  end.
Fixpoint tab_get {A} (k : N) (l : list (N * A)) : option A :=
  match l with [] => None | x :: r => if fst x =? k then Some (snd x) else tab_get k r end.

Definition topic_selected (topics : list bytes) (t : bytes) : bool :=
  match topics with [] => true | _ => mem_bytes t topics end.

(* a yielded message: schema (None when the channel has schema id 0), channel, message *)
Definition triple := (option schema * channel * message)%type.

(* ================= unindexed iterator ================= *)
Record ustate := {
  u_lex : lstate;
  u_schemas : list (N * schema);
  u_channels : list (N * channel);
  u_reccap : N                      (* cap(it.recordBuf) *)
}.

Inductive ures :=
| UMsg (t : triple)
| UMeta (m : metadata)               (* metadata callback invoked *)
| UEnd (e : err).                    (* iteration ended with error e (EEOF = normal end) *)

Section Unindexed.
Variable lo : lopts.
Variable dstream : doracle.
Variable ro : ropts.

(* one call of NextInto; metadata callbacks observed on the way are returned in order *)
Fixpoint u_next (fuel : nat) (s : ustate) (mds : list metadata) : outcome (list metadata * ures * ustate) :=
  match fuel with
  | O => OutOfFuel
  | S f =>
    match lex_next lo dstream fuel (u_reccap s) (u_lex s) [] with
    | Ok (_, NErr e, l') => Ok (mds, UEnd e, {| u_lex := l'; u_schemas := u_schemas s; u_channels := u_channels s; u_reccap := u_reccap s |})
    | Ok (_, NTok EvInvalidChunk, l') => Ok (mds, UEnd EInvalidChunkCrc, {| u_lex := l'; u_schemas := u_schemas s; u_channels := u_channels s; u_reccap := u_reccap s |})
    | Ok (_, NTok (EvAttachment _), l') => Ok (mds, UEnd EOther, {| u_lex := l'; u_schemas := u_schemas s; u_channels := u_channels s; u_reccap := u_reccap s |})
    | Ok (_, NTok (EvToken op body), l') =>
      let cap' := N.max (u_reccap s) (blen body) in
      let s1 := {| u_lex := l'; u_schemas := u_schemas s; u_channels := u_channels s; u_reccap := cap' |} in
      if Byte.eqb op OpSchema then
        match parse_schema body with
        | Ok sc => u_next f {| u_lex := l'; u_schemas := tab_set (s_id sc) sc (u_schemas s); u_channels := u_channels s; u_reccap := cap' |} mds
        | Err e => Ok (mds, UEnd e, s1)
        | Panic p => Panic p | Exit p => Exit p | OutOfFuel => OutOfFuel
        end
      else if Byte.eqb op OpChannel then
        match parse_channel body with
        | Ok c =>
          if topic_selected (ro_topics ro) (c_topic c)
          then u_next f {| u_lex := l'; u_schemas := u_schemas s; u_channels := tab_set (c_id c) c (u_channels s); u_reccap := cap' |} mds
          else u_next f s1 mds
        | Err e => Ok (mds, UEnd e, s1)
        | Panic p => Panic p | Exit p => Exit p | OutOfFuel => OutOfFuel
        end
      else if Byte.eqb op OpMessage then
        match parse_message body with
        | Ok m =>
          match tab_get (m_chan m) (u_channels s) with
          | None => u_next f s1 mds
          | Some c =>
            if in_window ro (m_log m) then
              match tab_get (c_schema c) (u_schemas s) with
              | Some sc => Ok (mds, UMsg (Some sc, c, m), s1)
              | None => if c_schema c =? 0 then Ok (mds, UMsg (None, c, m), s1) else Ok (mds, UEnd EOther, s1)
              end
            else u_next f s1 mds
          end
        | Err e => Ok (mds, UEnd e, s1)
        | Panic p => Panic p | Exit p => Exit p | OutOfFuel => OutOfFuel
        end
      else if Byte.eqb op OpMetadata && ro_md_cb ro then
        match parse_metadata body with
        | Ok md => u_next f s1 (mds ++ [md])
        | Err e => Ok (mds, UEnd e, s1)
        | Panic p => Panic p | Exit p => Exit p | OutOfFuel => OutOfFuel
        end
      else u_next f s1 mds
    | Err e => Err e
    | Panic p => Panic p | Exit p => Exit p | OutOfFuel => OutOfFuel
    end
  end.

End Unindexed.

(* ================= seekable source ================= *)
Record fsrc := { fs_data : bytes; fs_fail : option N }.   (* reads reaching position fs_fail fail *)
Definition fs_size (f : fsrc) : N := blen (fs_data f).

(* the stream obtained by seeking to off and reading on *)
Definition fs_stream (f : fsrc) (off : N) (seekable : bool) : rdr :=
  match fs_fail f with
  | Some p => if p <=? fs_size f
              then {| r_buf := drop off (take p (fs_data f)); r_end := Some EInjected; r_seek := seekable |}
              else {| r_buf := drop off (fs_data f); r_end := None; r_seek := seekable |}
  | None => {| r_buf := drop off (fs_data f); r_end := None; r_seek := seekable |}
  end.

(* ================= summary section (parseSummarySection) ================= *)
Record summ := {
  sm_schemas : list (N * schema);
  sm_channels : list (N * channel);
  sm_stats : option statistics;
  sm_cis : list chunkindex;
  sm_ais : list attindex;
  sm_mxs : list mdindex;
  sm_footer : option footer
}.
#[export] Instance eta_summ : Settable _ := settable! Build_summ
  < sm_schemas; sm_channels; sm_stats; sm_cis; sm_ais; sm_mxs; sm_footer >.
Definition empty_summ : summ :=
  {| sm_schemas := []; sm_channels := []; sm_stats := None; sm_cis := []; sm_ais := []; sm_mxs := []; sm_footer := None |}.

(* order in which chunk indexes are loaded; stable insertion sort with the Go comparators *)
Definition ci_before (o : rorder) (a b : chunkindex) : bool :=
  match o with
  | FileOrder => ci_offset a <? ci_offset b
  | LogTimeOrder => if ci_start a =? ci_start b then ci_offset a <? ci_offset b else ci_start a <? ci_start b
  | ReverseLogTimeOrder => if ci_end a =? ci_end b then ci_offset b <? ci_offset a else ci_end b <? ci_end a
  end.
Fixpoint ci_insert (o : rorder) (x : chunkindex) (l : list chunkindex) : list chunkindex :=
  match l with
  | [] => [x]
  | y :: r => if ci_before o x y then x :: l else y :: ci_insert o x r
  end.
Definition ci_sort (o : rorder) (l : list chunkindex) : list chunkindex := fold_right (ci_insert o) [] l.

(* `(it.end == 0 && it.start == 0)` is how Info asks for every chunk index; a window [0,0) given by
   the caller takes the same branch *)
Definition ci_time_ok (ro : ropts) (info_mode : bool) (ci : chunkindex) : bool :=
  info_mode || ((ro_end_n ro =? 0) && (ro_start_n ro =? 0))
  || (((ci_start ci <? ro_end_n ro) || ro_unbounded ro) && (ro_start_n ro <=? ci_end ci)).

Definition ci_topic_ok (channels : list (N * channel)) (ci : chunkindex) : bool :=
  match ci_mioffsets ci with
  | [] => true
  | offs => existsb (fun kv => match tab_get (fst kv) channels with Some _ => true | None => false end) offs
  end.

Definition seek_ok (size off : N) : outcome unit :=
  if 9223372036854775807 <? off then Err EBadOffset
  else if size <=? off then Err EBadOffset else Ok tt.

Section Summary.
Variable dstream : doracle.

Definition summary_lopts : lopts :=
  {| lo_skip_magic := true; lo_validate := false; lo_compute_acrc := false; lo_emit_chunks := false;
     lo_emit_invalid := false; lo_max_record := 0; lo_max_chunk := 0; lo_cb := CbNone; lo_custom := [] |}.

Fixpoint summ_loop (fuel : nat) (ro : ropts) (info_mode : bool) (l : lstate) (sm : summ) : outcome summ :=
  match fuel with
  | O => OutOfFuel
  | S f =>
    match lex_next summary_lopts dstream fuel 0 l [] with
    | Ok (_, NErr e, _) => Err e
    | Ok (_, NTok (EvToken op body), l') =>
      if Byte.eqb op OpSchema then
        let* sc := parse_schema body in summ_loop f ro info_mode l' (sm <| sm_schemas := tab_set (s_id sc) sc (sm_schemas sm) |>)
      else if Byte.eqb op OpChannel then
        let* c := parse_channel body in
        if topic_selected (ro_topics ro) (c_topic c)
        then summ_loop f ro info_mode l' (sm <| sm_channels := tab_set (c_id c) c (sm_channels sm) |>)
        else summ_loop f ro info_mode l' sm
      else if Byte.eqb op OpAttachmentIndex then
        let* x := parse_attindex body in summ_loop f ro info_mode l' (sm <| sm_ais := sm_ais sm ++ [x] |>)
      else if Byte.eqb op OpMetadataIndex then
        let* x := parse_mdindex body in summ_loop f ro info_mode l' (sm <| sm_mxs := sm_mxs sm ++ [x] |>)
      else if Byte.eqb op OpChunkIndex then
        let* ci := parse_chunkindex body in
        if ci_time_ok ro info_mode ci
        then summ_loop f ro info_mode l' (sm <| sm_cis := sm_cis sm ++ [ci] |>)
        else summ_loop f ro info_mode l' sm
      else if Byte.eqb op OpStatistics then
        let* st := parse_statistics body in summ_loop f ro info_mode l' (sm <| sm_stats := Some st |>)
      else if Byte.eqb op OpFooter then
        (* chunk indexes are pruned by topic once every channel record of the summary is known *)
        let cis := match ro_topics ro with
                   | [] => sm_cis sm
                   | _ => filter (ci_topic_ok (sm_channels sm)) (sm_cis sm) end in
        Ok (sm <| sm_cis := ci_sort (ro_order ro) cis |>)
      else summ_loop f ro info_mode l' sm
    | Ok (_, NTok _, l') => summ_loop f ro info_mode l' sm
    | Err e => Err e
    | Panic p => Panic p | Exit p => Exit p | OutOfFuel => OutOfFuel
    end
  end.

Definition parse_summary (f : fsrc) (ro : ropts) (info_mode : bool) : outcome summ :=
  let size := fs_size f in
  if size <? 28 then Err EOther else
  let '(tail, e, _) := rd_full 28 (fs_stream f (size - 28) true) in
  match e with
  | Some e => Err e
  | None =>
    if negb (bytes_eqb (skipn 20 tail) magic) then Err EBadMagic else
    let* ft := parse_footer (firstn 20 tail) in
    let sm := empty_summ <| sm_footer := Some ft |> in
    if f_summary_start ft =? 0 then Ok sm else
    let* _ := seek_ok size (f_summary_start ft) in
    let l := {| lx_base := fs_stream f (f_summary_start ft) false; lx_chunk := None; lx_ubuf := 0;
                lx_bufcap := 32; lx_allocs := [] |} in
    summ_loop (S (N.to_nat size)) ro info_mode l sm
  end.

End Summary.

(* Info *)
Definition info_opts : ropts :=
  {| ro_start := 0; ro_end := 0; ro_topics := []; ro_use_index := true; ro_order := FileOrder;
     ro_md_cb := false; ro_start_n := 0; ro_end_n := 0; ro_unbounded := false |}.

Definition can_use_index (sm : summ) : bool :=
  (negb (match sm_cis sm with [] => true | _ => false end) && negb (match sm_channels sm with [] => true | _ => false end))
  || match sm_stats sm with Some st => st_messages st =? 0 | None => false end.

(* ================= indexed iterator ================= *)
(* whole-buffer decompression used by the indexed reader: None = the codec reported an error *)
Definition dalloracle := bytes -> bytes -> N -> option bytes.

Record entry := { en_ts : N; en_off : N; en_slot : nat }.

Record istate := {
  i_cis : list chunkindex;            (* chunk indexes not yet loaded, in load order *)
  i_queue : list entry;               (* unread message indexes, in yield order *)
  i_slots : list (N * bytes);         (* per slot: unread count, decompressed chunk *)
  i_reccap : N;                       (* cap(it.recordBuf) *)
  i_allocs : list N
}.
#[export] Instance eta_istate : Settable _ := settable! Build_istate
  < i_cis; i_queue; i_slots; i_reccap; i_allocs >.

(* stable insertion sorts on timestamps *)
Fixpoint en_insert_asc (x : entry) (l : list entry) : list entry :=
  match l with
  | [] => [x]
  | y :: r => if en_ts x <? en_ts y then x :: l else y :: en_insert_asc x r
  end.
Fixpoint en_insert_desc (x : entry) (l : list entry) : list entry :=
  match l with
  | [] => [x]
  | y :: r => if en_ts y <? en_ts x then x :: l else y :: en_insert_desc x r
  end.
(* stable: later elements are inserted after equal earlier ones *)
Definition en_sort_asc (l : list entry) : list entry := fold_left (fun acc x => en_insert_asc x acc) l [].
Definition en_sort_desc (l : list entry) : list entry := fold_left (fun acc x => en_insert_desc x acc) l [].

Definition merge_queue (o : rorder) (unread new : list entry) : list entry :=
  match o with
  | FileOrder => unread ++ new
  | LogTimeOrder => en_sort_asc (unread ++ new)
  | ReverseLogTimeOrder => en_sort_desc (unread ++ rev new)
  end.

(* first slot with no unread message, else a new one *)
Fixpoint find_free (l : list (N * bytes)) (i : nat) : option nat :=
  match l with
  | [] => None
  | x :: r => if fst x =? 0 then Some i else find_free r (S i)
  end.
Fixpoint slot_set (l : list (N * bytes)) (i : nat) (v : N * bytes) : list (N * bytes) :=
  match l, i with
  | [], _ => [v]
  | _ :: r, O => v :: r
  | x :: r, S j => x :: slot_set r j v
  end.

Section Indexed.
Variable dall : dalloracle.
Variable ro : ropts.
Variable sm : summ.
Variable f : fsrc.

(* walk the records of a decompressed chunk, collecting the selected messages *)
Fixpoint walk (fuel : nat) (buf : bytes) (off : N) (slot : nat) (acc : list entry) : outcome (list entry) :=
  match fuel with
  | O => OutOfFuel
  | S fu =>
    let size := blen buf in
    if size <=? off then Ok acc else
    if size <? off + 9 then Err EOther else
    let hd := take 9 (drop off buf) in
    let op := match hd with b :: _ => b | [] => x00 end in
    let rlen := unle (skipn 1 hd) in
    let rstart := off + 9 in
    if two64 <=? rstart + rlen then Err EOther else
    let rend := rstart + rlen in
    if size <? rend then Err EOther else
    if Byte.eqb op OpMessage then
      let* m := parse_message (take rlen (drop rstart buf)) in
      let sel := match tab_get (m_chan m) (sm_channels sm) with Some _ => in_window ro (m_log m) | None => false end in
      walk fu buf rend slot (if sel then acc ++ [{| en_ts := m_log m; en_off := off; en_slot := slot |}] else acc)
    else walk fu buf rend slot acc
  end.

Definition load_chunk_i (ci : chunkindex) (s : istate) : outcome istate :=
  let size := fs_size f in
  let* _ := seek_ok size (ci_offset ci) in
  (* chunk length must cover the record head and lie inside the file *)
  if ci_length ci <? 9 then Err EOther else
  if size - ci_offset ci <? ci_length ci then Err EBadOffset else
  let s := if i_reccap s <? ci_length ci
           then s <| i_reccap := ci_length ci |> <| i_allocs := ci_length ci :: i_allocs s |> else s in
  let '(rec, e, _) := rd_full (ci_length ci) (fs_stream f (ci_offset ci) true) in
  match e with
  | Some e => Err e
  | None =>
    let* k := parse_chunk (skipn 9 rec) in
    let slot := match find_free (i_slots s) 0 with Some i => i | None => length (i_slots s) end in
    let* plain :=
      (if max_int32 <=? k_usize k then Err ELengthOutOfRange else
       if bytes_eqb (k_comp k) [] then
         (if blen (k_records k) =? k_usize k then Ok (k_records k) else Err EOther)
       else if bytes_eqb (k_comp k) [x7a; x73; x74; x64] || bytes_eqb (k_comp k) [x6c; x7a; x34] then
         match dall (k_comp k) (k_records k) (k_usize k) with
         | Some p => if blen p =? k_usize k then Ok p else Err EOther
         | None => Err EOther
         end
       else Err EOther) in
    let s := s <| i_allocs := k_usize k :: i_allocs s |> in
    let* new := walk (S (length plain)) plain 0 slot [] in
    Ok (s <| i_slots := slot_set (i_slots s) slot (N.of_nat (length new), plain) |>
          <| i_queue := merge_queue (ro_order ro) (i_queue s) new |>)
  end.

Inductive ires :=
| IMsg (t : triple)
| IEnd (e : err).

Definition slot_dec (l : list (N * bytes)) (i : nat) : list (N * bytes) :=
  match nth_error l i with
  | Some (n, b) => slot_set l i (n - 1, b)
  | None => l
  end.

Definition yield (e : entry) (s : istate) : ires * istate :=
  match nth_error (i_slots s) (en_slot e) with
  | None => (IEnd EOther, s)
  | Some (_, buf) =>
    let len := unle (take 8 (drop (en_off e + 1) buf)) in
    let body := take len (drop (en_off e + 9) buf) in
    match parse_message body with
    | Ok m =>
      let s := s <| i_slots := slot_dec (i_slots s) (en_slot e) |> <| i_queue := tl (i_queue s) |> in
      match tab_get (m_chan m) (sm_channels sm) with
      | None => (IEnd EOther, s)
      | Some c =>
        match tab_get (c_schema c) (sm_schemas sm) with
        | Some sc => (IMsg (Some sc, c, m), s)
        | None => if c_schema c =? 0 then (IMsg (None, c, m), s) else (IEnd EOther, s)
        end
      end
    | Err er => (IEnd er, s)
    | _ => (IEnd EOther, s)
    end
  end.

Fixpoint i_next (fuel : nat) (s : istate) : outcome (ires * istate) :=
  match fuel with
  | O => OutOfFuel
  | S fu =>
    match i_queue s with
    | [] =>
      match i_cis s with
      | [] => Ok (IEnd EEOF, s)
      | ci :: rest =>
        match load_chunk_i ci s with
        | Ok s' => i_next fu (s' <| i_cis := rest |>)
        | Err e => Ok (IEnd e, s)
        | Panic p => Panic p | Exit p => Exit p | OutOfFuel => OutOfFuel
        end
      end
    | e :: _ =>
      match i_cis s with
      | ci :: rest =>
        let load_first := match ro_order ro with
                          | LogTimeOrder => ci_start ci <? en_ts e
                          | ReverseLogTimeOrder => en_ts e <? ci_end ci
                          | FileOrder => false end in
        if load_first then
          match load_chunk_i ci s with
          | Ok s' => i_next fu (s' <| i_cis := rest |>)
          | Err er => Ok (IEnd er, s)
          | Panic p => Panic p | Exit p => Exit p | OutOfFuel => OutOfFuel
          end
        else Ok (yield e s)
      | [] => Ok (yield e s)
      end
    end
  end.

End Indexed.

(* metadata records delivered to the callback by the indexed iterator (before the first message) *)
Definition read_record_at (f : fsrc) (off : N) : outcome (byte * bytes) :=
  let* _ := seek_ok (fs_size f) off in
  let st := fs_stream f off true in
  let '(hd, e, st1) := rd_full 9 st in
  match e with
  | Some e => Err e
  | None =>
    let op := match hd with b :: _ => b | [] => x00 end in
    let rlen := unle (skipn 1 hd) in
    if max_int32 <=? rlen then Err ELengthOutOfRange else
    let '(body, e, _) := rd_full rlen st1 in
    match e with Some e => Err e | None => Ok (op, body) end
  end.

Fixpoint md_callbacks (f : fsrc) (mxs : list mdindex) (acc : list metadata) : list metadata * option err :=
  match mxs with
  | [] => (acc, None)
  | x :: r =>
    match read_record_at f (mx_offset x) with
    | Ok (op, body) =>
      if negb (Byte.eqb op OpMetadata) then (acc, Some EOther) else
      match parse_metadata body with
      | Ok md => md_callbacks f r (acc ++ [md])
      | Err e => (acc, Some e)
      | _ => (acc, Some EOther)
      end
    | Err e => (acc, Some e)
    | _ => (acc, Some EOther)
    end
  end.

(* ================= Reader: NewReader, Info, Messages ================= *)
Definition reader_lopts : lopts :=
  {| lo_skip_magic := false; lo_validate := false; lo_compute_acrc := false; lo_emit_chunks := true;
     lo_emit_invalid := false; lo_max_record := 0; lo_max_chunk := 0; lo_cb := CbNone; lo_custom := [] |}.
Definition scan_lopts : lopts :=
  {| lo_skip_magic := false; lo_validate := false; lo_compute_acrc := false; lo_emit_chunks := false;
     lo_emit_invalid := false; lo_max_record := 0; lo_max_chunk := 0; lo_cb := CbNone; lo_custom := [] |}.

Section ReaderTop.
Variable dstream : doracle.
Variable dall : dalloracle.

(* NewReader: lexer with EmitChunks, first token must be a header *)
Definition new_reader (f : fsrc) (seekable : bool) : outcome (header * lstate) :=
  let* l := new_lexer reader_lopts (fs_stream f 0 seekable) in
  match lex_next reader_lopts dstream (S (N.to_nat (fs_size f))) 0 l [] with
  | Ok (_, NErr e, _) => Err e
  | Ok (_, NTok (EvToken op body), l') =>
    if Byte.eqb op OpHeader then let* h := parse_header body in Ok (h, l') else Err EUnexpectedToken
  | Ok (_, NTok _, _) => Err EUnexpectedToken
  | Err e => Err e
  | Panic p => Panic p | Exit p => Exit p | OutOfFuel => OutOfFuel
  end.

Definition info (f : fsrc) : outcome summ := parse_summary dstream f info_opts true.

Inductive mode := MScan | MIndexed.

(* Messages(opts...): which iterator is used, with which options *)
Definition messages_dispatch (f : fsrc) (os : list ropt) : outcome (mode * ropts) :=
  let* r := apply_opts os default_ropts in
  let r := finalize r in
  if ro_use_index r then
    let* sm := info f in
    if can_use_index sm then Ok (MIndexed, r)
    else if negb (rorder_eqb (ro_order r) FileOrder) then Err EOther
    else Ok (MScan, r)
  else Ok (MScan, r).

(* run a complete read: all messages until the iterator ends *)
Fixpoint scan_all (fuel : nat) (n : nat) (ro : ropts) (s : ustate) (acc : list triple) (mds : list metadata)
  : outcome (list triple * list metadata * err) :=
  match n with
  | O => OutOfFuel
  | S n' =>
    match u_next scan_lopts dstream ro fuel s [] with
    | Ok (md, UMsg t, s') => scan_all fuel n' ro s' (acc ++ [t]) (mds ++ md)
    | Ok (md, UMeta _, s') => scan_all fuel n' ro s' acc (mds ++ md)
    | Ok (md, UEnd e, _) => Ok (acc, mds ++ md, e)
    | Err e => Err e
    | Panic p => Panic p | Exit p => Exit p | OutOfFuel => OutOfFuel
    end
  end.

Definition slot_stats (s : istate) : nat * nat :=
  (length (i_slots s), length (filter (fun x => negb (fst x =? 0)) (i_slots s))).
Definition max2 (a b : nat * nat) : nat * nat := (Nat.max (fst a) (fst b), Nat.max (snd a) (snd b)).

Fixpoint indexed_all (fuel : nat) (n : nat) (ro : ropts) (sm : summ) (f : fsrc) (s : istate) (acc : list triple)
         (st : nat * nat) : outcome (list triple * err * (nat * nat)) :=
  match n with
  | O => OutOfFuel
  | S n' =>
    match i_next dall ro sm f fuel s with
    | Ok (IMsg t, s') => indexed_all fuel n' ro sm f s' (acc ++ [t]) (max2 st (slot_stats s'))
    | Ok (IEnd e, s') => Ok (acc, e, max2 st (slot_stats s'))
    | Err e => Err e
    | Panic p => Panic p | Exit p => Exit p | OutOfFuel => OutOfFuel
    end
  end.

Record readres := {
  rr_mode : option mode;
  rr_msgs : list triple;
  rr_mds : list metadata;
  rr_end : err;
  rr_slots : nat * nat               (* max slots allocated, max slots with unread messages *)
}.

Definition read_messages (f : fsrc) (os : list ropt) : outcome readres :=
  let size := N.to_nat (fs_size f) in
  let* (h, l) := new_reader f true in
  match messages_dispatch f os with
  | Err e => Ok {| rr_mode := None; rr_msgs := []; rr_mds := []; rr_end := e; rr_slots := (O, O) |}
  | Ok (MScan, r) =>
    let u := {| u_lex := l; u_schemas := []; u_channels := []; u_reccap := 0 |} in
    let* (ms, mds, e) := scan_all (S size + S size) (S size) r u [] [] in
    Ok {| rr_mode := Some MScan; rr_msgs := ms; rr_mds := mds; rr_end := e; rr_slots := (O, O) |}
  | Ok (MIndexed, r) =>
    match parse_summary dstream f r false with
    | Err e => Ok {| rr_mode := Some MIndexed; rr_msgs := []; rr_mds := []; rr_end := e; rr_slots := (O, O) |}
    | Ok sm =>
      let '(mds, e) := if ro_md_cb r then md_callbacks f (sm_mxs sm) [] else ([], None) in
      match e with
      | Some e => Ok {| rr_mode := Some MIndexed; rr_msgs := []; rr_mds := mds; rr_end := e; rr_slots := (O, O) |}
      | None =>
        let s0 := {| i_cis := sm_cis sm; i_queue := []; i_slots := []; i_reccap := 0; i_allocs := [] |} in
        let* (ms, e, st) := indexed_all (S size + S size) (S size) r sm f s0 [] (O, O) in
        Ok {| rr_mode := Some MIndexed; rr_msgs := ms; rr_mds := mds; rr_end := e; rr_slots := st |}
      end
    | Panic p => Panic p | Exit p => Exit p | OutOfFuel => OutOfFuel
    end
  | Panic p => Panic p | Exit p => Exit p | OutOfFuel => OutOfFuel
  end.

(* random access *)
Definition get_metadata (f : fsrc) (off : N) : outcome metadata :=
  if 9223372036854775807 <? off then Err EOther else
  let l := {| lx_base := fs_stream f off true; lx_chunk := None; lx_ubuf := 0; lx_bufcap := 32; lx_allocs := [] |} in
  match lex_next reader_lopts dstream (S (N.to_nat (fs_size f))) 0 l [] with
  | Ok (_, NErr e, _) => Err e
  | Ok (_, NTok (EvToken op body), _) =>
    if Byte.eqb op OpMetadata then parse_metadata body else Err EUnexpectedToken
  | Ok (_, NTok _, _) => Err EUnexpectedToken
  | Err e => Err e
  | Panic p => Panic p | Exit p => Exit p | OutOfFuel => OutOfFuel
  end.

(* GetAttachmentReader(offset) followed by reading all data, ComputedCRC, ParsedCRC *)
Definition get_attachment (f : fsrc) (off : N) : outcome attobs :=
  if 9223372036854775807 <? ((off + 9) mod two64) then Err EOther else
  let st := fs_stream f ((off + 9) mod two64) true in
  let lim := (r_buf st, r_end st) in
  let* (lt, o1) := lim_read 8 lim 0 in
  let* (ct, o2) := lim_read 8 lim o1 in
  let* (name, o3) := lim_pstr lim o2 in
  let* (media, o4) := lim_pstr lim o3 in
  let* (ds, o5) := lim_read 8 lim o4 in
  let ds := unle ds in
  let dn := if 9223372036854775807 <? ds then 0 else ds in
  let rest := skipn o5 (fst lim) in
  let got := take dn rest in
  let short := blen got <? dn in
  let n_left := short in
  let pos := (o5 + length got)%nat in
  let computed := if n_left then Err EOther else Ok (crc32 (firstn pos (fst lim))) in
  let parsed := if n_left then Err EOther else
                match lim_read 4 lim pos with Ok (c, _) => Ok (unle c) | Err e => Err e | _ => Err EOther end in
  Ok {| ao_log := unle lt; ao_create := unle ct; ao_name := name; ao_media := media; ao_size := ds;
        ao_data := got; ao_data_end := if short then snd lim else None;
        ao_computed := computed; ao_parsed := parsed |}.

End ReaderTop.
