(* Source.v - the io.Reader contract and io.ReadFull (io.ReadAtLeast) made explicit.

   A source is what successive calls of Read deliver: a list of fragments followed by an end
   marker.  `read_full_frags` is the Go loop of io.ReadAtLeast over such a source.  The theorem
   `read_full_norm` says that it returns exactly what `Lexer.rd_full` returns on the normalised
   in-memory reader: fragmentation (one byte at a time, arbitrary short reads, data returned
   together with io.EOF) is invisible to a consumer that reads through io.ReadFull only - which
   is how Lexer.v is written. *)
From Coq Require Import List NArith ZArith Bool Lia ZifyN ZifyNat ZifyBool.
From Coq.Strings Require Import Byte.
From Mcap Require Import Bytes GoSem Lexer.
Import ListNotations.
Open Scope N_scope.

(* ---------- sources ---------- *)
Inductive frag :=
| FData (bs : bytes)       (* Read returns these bytes with a nil error (an empty list models (0, nil)) *)
| FDataEOF (bs : bytes).   (* Read returns these bytes together with io.EOF: the source has ended *)

Record source := {
  s_frags : list frag;
  s_end : option err        (* after the fragments: None = (0, io.EOF) forever, Some e = (0, e) forever *)
}.

(* One call r.Read(p) with len(p) = k > 0: bytes returned, error returned, source afterwards.
   A fragment longer than p is delivered in pieces (the rest stays for the next call). *)
Definition read1 (k : N) (src : source) : bytes * option err * source :=
  match s_frags src with
  | [] => ([], Some (match s_end src with None => EEOF | Some e => e end), src)
  | FData bs :: rest =>
    if blen bs <=? k then (bs, None, {| s_frags := rest; s_end := s_end src |})
    else (take k bs, None, {| s_frags := FData (drop k bs) :: rest; s_end := s_end src |})
  | FDataEOF bs :: rest =>
    if blen bs <=? k then (bs, Some EEOF, {| s_frags := []; s_end := None |})
    else (take k bs, None, {| s_frags := FDataEOF (drop k bs) :: rest; s_end := s_end src |})
  end.

(* io.ReadAtLeast(r, buf, min) with len(buf) = min:
     for n < min && err == nil { nn, err = r.Read(buf[n:]); n += nn }
     if n >= min { err = nil } else if n > 0 && err == EOF { err = ErrUnexpectedEOF }
   `need` = min - n = len(buf[n:]); `got` = buf[:n]. *)
Fixpoint read_loop (fuel : nat) (need : N) (got : bytes) (src : source) : bytes * option err * source :=
  if need =? 0 then (got, None, src) else
  match fuel with
  | O => (got, None, src)      (* not reached: see read_full_frags *)
  | S f =>
    let '(bs, e, src') := read1 need src in
    let got' := got ++ bs in
    match e with
    | None => read_loop f (need - blen bs) got' src'
    | Some e =>
      if need <=? blen bs then (got', None, src')
      else (got', Some (match e, got' with EEOF, _ :: _ => EUnexpectedEOF | _, _ => e end), src')
    end
  end.

(* every Read either uses up a fragment or completes the request: one more than the number of
   fragments is enough fuel *)
Definition read_full_frags (n : N) (src : source) : bytes * option err * source :=
  read_loop (S (length (s_frags src))) n [] src.

(* ---------- normalisation ---------- *)
Fixpoint frags_data (fs : list frag) : bytes :=
  match fs with
  | [] => []
  | FData b :: r => b ++ frags_data r
  | FDataEOF b :: _ => b            (* what follows a data+EOF result is unreachable *)
  end.
Fixpoint frags_end (fs : list frag) (en : option err) : option err :=
  match fs with
  | [] => en
  | FData _ :: r => frags_end r en
  | FDataEOF _ :: _ => None
  end.
(* an end marker `Some EEOF` is the same thing as None *)
Definition canon (en : option err) : option err := match en with Some EEOF => None | x => x end.

Definition concat_data (src : source) : bytes := frags_data (s_frags src).
Definition src_end (src : source) : option err := canon (frags_end (s_frags src) (s_end src)).

Definition norm (sk : bool) (src : source) : rdr :=
  {| r_buf := concat_data src; r_end := src_end src; r_seek := sk |}.

(* ---------- take / drop ---------- *)
Lemma take_length n b : length (take n b) = N.to_nat (N.min n (blen b)).
Proof. unfold take, blen. rewrite firstn_length. lia. Qed.
Lemma take_all n b : blen b <= n -> take n b = b.
Proof. intros H. unfold take. rewrite N.min_r by exact H. unfold blen. rewrite Nat2N.id. apply firstn_all. Qed.
Lemma drop_all n b : blen b <= n -> drop n b = [].
Proof. intros H. unfold drop. rewrite N.min_r by exact H. unfold blen. rewrite Nat2N.id. apply skipn_all. Qed.
Lemma take_app_le n a t : n <= blen a -> take n (a ++ t) = take n a.
Proof.
  intros H. unfold take, blen in *. rewrite app_length.
  replace (N.min n (N.of_nat (length a + length t))) with n by lia.
  replace (N.min n (N.of_nat (length a))) with n by lia.
  rewrite firstn_app. replace (N.to_nat n - length a)%nat with 0%nat by lia.
  cbn. apply app_nil_r.
Qed.
Lemma drop_app_le n a t : n <= blen a -> drop n (a ++ t) = drop n a ++ t.
Proof.
  intros H. unfold drop, blen in *. rewrite app_length.
  replace (N.min n (N.of_nat (length a + length t))) with n by lia.
  replace (N.min n (N.of_nat (length a))) with n by lia.
  rewrite skipn_app. replace (N.to_nat n - length a)%nat with 0%nat by lia.
  reflexivity.
Qed.
Lemma take_app_ge n a t : blen a <= n -> take n (a ++ t) = a ++ take (n - blen a) t.
Proof.
  intros H. unfold take, blen in *. rewrite app_length, firstn_app.
  rewrite firstn_all2 by lia. f_equal. f_equal. lia.
Qed.
Lemma drop_app_ge n a t : blen a <= n -> drop n (a ++ t) = drop (n - blen a) t.
Proof.
  intros H. unfold drop, blen in *. rewrite app_length, skipn_app.
  rewrite skipn_all2 by lia. cbn. f_equal. lia.
Qed.
Lemma blen_app a b : blen (a ++ b) = blen a + blen b.
Proof. unfold blen. rewrite app_length. lia. Qed.
