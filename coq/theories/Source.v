(* Source.v - the io.Reader contract and io.ReadFull (io.ReadAtLeast) made explicit.

   A source is what successive calls of Read deliver: a list of fragments followed by an end
   marker.  `read_full_frags` is the Go loop of io.ReadAtLeast over such a source.  The theorem
   `read_full_norm` says that it returns exactly what `Lexer.rd_full` returns on the normalised
   in-memory reader: fragmentation (one byte at a time, arbitrary short reads, data returned
   together with io.EOF) is invisible to a consumer that reads through io.ReadFull only - which
   is how Lexer.v is written. *)
From Coq Require Import List NArith ZArith Bool Lia ZifyN ZifyNat ZifyBool.
From Coq.Strings Require Import Byte.
From Mcap Require Import Bytes GoSem Lexer.
Import ListNotations.
Open Scope N_scope.

(* ---------- sources ---------- *)
Inductive frag :=
| FData (bs : bytes)       (* Read returns these bytes with a nil error (an empty list models (0, nil)) *)
| FDataEOF (bs : bytes).   (* Read returns these bytes together with io.EOF: the source has ended *)

Record source := {
  s_frags : list frag;
  s_end : option err        (* after the fragments: None = (0, io.EOF) forever, Some e = (0, e) forever *)
}.

(* One call r.Read(p) with len(p) = k > 0: bytes returned, error returned, source afterwards.
   A fragment longer than p is delivered in pieces (the rest stays for the next call). *)
Definition read1 (k : N) (src : source) : bytes * option err * source :=
  match s_frags src with
  | [] => ([], Some (match s_end src with None => EEOF | Some e => e end), src)
  | FData bs :: rest =>
    if blen bs <=? k then (bs, None, {| s_frags := rest; s_end := s_end src |})
    else (take k bs, None, {| s_frags := FData (drop k bs) :: rest; s_end := s_end src |})
  | FDataEOF bs :: rest =>
    if blen bs <=? k then (bs, Some EEOF, {| s_frags := []; s_end := None |})
    else (take k bs, None, {| s_frags := FDataEOF (drop k bs) :: rest; s_end := s_end src |})
  end.

(* io.ReadAtLeast(r, buf, min) with len(buf) = min:
     for n < min && err == nil { nn, err = r.Read(buf[n:]); n += nn }
     if n >= min { err = nil } else if n > 0 && err == EOF { err = ErrUnexpectedEOF }
   `need` = min - n = len(buf[n:]); `got` = buf[:n]. *)
Fixpoint read_loop (fuel : nat) (need : N) (got : bytes) (src : source) : bytes * option err * source :=
  if need =? 0 then (got, None, src) else
  match fuel with
  | O => (got, None, src)      (* not reached: see read_full_frags *)
  | S f =>
    let '(bs, e, src') := read1 need src in
    let got' := got ++ bs in
    match e with
    | None => read_loop f (need - blen bs) got' src'
    | Some e =>
      if need <=? blen bs then (got', None, src')
      else (got', Some (match e, got' with EEOF, _ :: _ => EUnexpectedEOF | _, _ => e end), src')
    end
  end.

(* every Read either uses up a fragment or completes the request: one more than the number of
   fragments is enough fuel *)
Definition read_full_frags (n : N) (src : source) : bytes * option err * source :=
  read_loop (S (length (s_frags src))) n [] src.

(* ---------- normalisation ---------- *)
Fixpoint frags_data (fs : list frag) : bytes :=
  match fs with
  | [] => []
  | FData b :: r => b ++ frags_data r
  | FDataEOF b :: _ => b            (* what follows a data+EOF result is unreachable *)
  end.
Fixpoint frags_end (fs : list frag) (en : option err) : option err :=
  match fs with
  | [] => en
  | FData _ :: r => frags_end r en
  | FDataEOF _ :: _ => None
  end.
(* an end marker `Some EEOF` is the same thing as None *)
Definition canon (en : option err) : option err := match en with Some EEOF => None | x => x end.

Definition concat_data (src : source) : bytes := frags_data (s_frags src).
Definition src_end (src : source) : option err := canon (frags_end (s_frags src) (s_end src)).

Definition norm (sk : bool) (src : source) : rdr :=
  {| r_buf := concat_data src; r_end := src_end src; r_seek := sk |}.

(* ---------- take / drop ---------- *)
Lemma take_length n b : length (take n b) = N.to_nat (N.min n (blen b)).
Proof. unfold take, blen. rewrite firstn_length. lia. Qed.
Lemma take_all n b : blen b <= n -> take n b = b.
Proof. intros H. unfold take. rewrite N.min_r by exact H. unfold blen. rewrite Nat2N.id. apply firstn_all. Qed.
Lemma drop_all n b : blen b <= n -> drop n b = [].
Proof. intros H. unfold drop. rewrite N.min_r by exact H. unfold blen. rewrite Nat2N.id. apply skipn_all. Qed.
Lemma take_app_le n a t : n <= blen a -> take n (a ++ t) = take n a.
Proof.
  intros H. unfold take, blen in *. rewrite app_length.
  replace (N.min n (N.of_nat (length a + length t))) with n by lia.
  replace (N.min n (N.of_nat (length a))) with n by lia.
  rewrite firstn_app. replace (N.to_nat n - length a)%nat with 0%nat by lia.
  cbn. apply app_nil_r.
Qed.
Lemma drop_app_le n a t : n <= blen a -> drop n (a ++ t) = drop n a ++ t.
Proof.
  intros H. unfold drop, blen in *. rewrite app_length.
  replace (N.min n (N.of_nat (length a + length t))) with n by lia.
  replace (N.min n (N.of_nat (length a))) with n by lia.
  rewrite skipn_app. replace (N.to_nat n - length a)%nat with 0%nat by lia.
  reflexivity.
Qed.
Lemma take_app_ge n a t : blen a <= n -> take n (a ++ t) = a ++ take (n - blen a) t.
Proof.
  intros H. unfold take, blen in *. rewrite app_length, firstn_app.
  rewrite firstn_all2 by lia. f_equal. f_equal. lia.
Qed.
Lemma drop_app_ge n a t : blen a <= n -> drop n (a ++ t) = drop (n - blen a) t.
Proof.
  intros H. unfold drop, blen in *. rewrite app_length, skipn_app.
  rewrite skipn_all2 by lia. cbn. f_equal. lia.
Qed.
Lemma blen_app a b : blen (a ++ b) = blen a + blen b.
Proof. unfold blen. rewrite app_length. lia. Qed.

(* ---------- io.ReadFull over fragments = rd_full over the normalised reader ---------- *)
Definition adj (got : bytes) (e : option err) : option err :=
  match e, got with Some EEOF, _ :: _ => Some EUnexpectedEOF | _, _ => e end.

Lemma canon_not_eof en : canon en <> Some EEOF.
Proof. destruct en as [[]|]; cbn; congruence. Qed.

Lemma rd_full_0 r : rd_full 0 r = ([], None, r).
Proof. reflexivity. Qed.

Lemma read_loop_0 fuel got src : read_loop fuel 0 got src = (got, None, src).
Proof. destruct fuel; reflexivity. Qed.

Lemma read_loop_norm sk : forall fuel need got src bs e src' bs2 e2 r',
  (need = 0 \/ (length (s_frags src) < fuel)%nat) ->
  read_loop fuel need got src = (bs, e, src') ->
  rd_full need (norm sk src) = (bs2, e2, r') ->
  bs = got ++ bs2 /\ e = adj got e2 /\ norm sk src' = r'.
Proof.
  induction fuel as [|f IH]; intros need got src bs e src' bs2 e2 r' Hf.
  { destruct Hf as [->|Hf]; [|lia]. rewrite read_loop_0, rd_full_0.
    intros H1 H2; inversion H1; inversion H2; subst. rewrite app_nil_r. auto. }
  destruct (N.eq_dec need 0) as [->|Hn].
  { rewrite read_loop_0, rd_full_0.
    intros H1 H2; inversion H1; inversion H2; subst. rewrite app_nil_r. auto. }
  destruct Hf as [Hf|Hf]; [contradiction|].
  cbn [read_loop]. destruct (need =? 0) eqn:En0; [apply N.eqb_eq in En0; contradiction|].
  destruct src as [fs en]. cbn [s_frags] in Hf.
  destruct fs as [|[b0|b0] rest]; unfold read1; cbn [s_frags s_end].
  - (* no fragment left *)
    destruct (need <=? blen []) eqn:E1; [apply N.leb_le in E1; cbn in E1; lia|].
    unfold rd_full, norm, concat_data, src_end. cbn [s_frags s_end frags_data frags_end r_buf r_end r_seek].
    rewrite En0. replace (need <=? blen []) with false.
    intros H1 H2; inversion H1; inversion H2; subst; clear H1 H2.
    rewrite !app_nil_r. split; [reflexivity|split; [|reflexivity]].
    destruct en as [[]|]; destruct got; reflexivity.
  - (* a data fragment *)
    destruct (blen b0 <=? need) eqn:E1.
    + apply N.leb_le in E1. intros H1 H2.
      destruct (rd_full (need - blen b0) (norm sk {| s_frags := rest; s_end := en |})) as [[b3 e3] r3] eqn:E3.
      assert (Hf' : (length (s_frags {| s_frags := rest; s_end := en |}) < f)%nat) by (cbn [s_frags length] in *; lia).
      specialize (IH _ _ _ _ _ _ _ _ _ (or_intror Hf') H1 E3).
      destruct IH as [I1 [I2 I3]].
      revert H2 E3. unfold rd_full, norm, concat_data, src_end.
      cbn [s_frags s_end frags_data frags_end r_buf r_end r_seek].
      rewrite En0. rewrite blen_app.
      destruct (need - blen b0 =? 0) eqn:E4.
      * apply N.eqb_eq in E4. replace (need <=? blen b0 + blen (frags_data rest)) with true by lia.
        rewrite take_app_le, drop_app_le by lia. rewrite take_all, drop_all by lia.
        intros H2 H3; inversion H2; inversion H3; subst; clear H2 H3.
        rewrite app_nil_r. cbn [app]. auto.
      * destruct (need - blen b0 <=? blen (frags_data rest)) eqn:E5.
        -- replace (need <=? blen b0 + blen (frags_data rest)) with true by lia.
           rewrite take_app_ge, drop_app_ge by lia.
           intros H2 H3; inversion H2; inversion H3; subst; clear H2 H3.
           rewrite app_assoc. auto.
        -- replace (need <=? blen b0 + blen (frags_data rest)) with false by lia.
           intros H2 H3; inversion H2; inversion H3; subst; clear H2 H3.
           rewrite app_assoc. split; [reflexivity|split; [|symmetry; assumption]].
           pose proof (canon_not_eof (frags_end rest en)) as Hc.
           destruct (canon (frags_end rest en)) as [x|].
           ++ destruct x; try reflexivity. congruence.
           ++ destruct b0, (frags_data rest), got; reflexivity.
    + apply N.leb_gt in E1. assert (Ht : blen (take need b0) = need) by (unfold blen in *; rewrite take_length; unfold blen; lia).
      rewrite Ht, N.sub_diag, read_loop_0.
      unfold rd_full, norm, concat_data, src_end.
      cbn [s_frags s_end frags_data frags_end r_buf r_end r_seek].
      rewrite En0, blen_app. replace (need <=? blen b0 + blen (frags_data rest)) with true by lia.
      rewrite take_app_le, drop_app_le by lia.
      intros H1 H2; inversion H1; inversion H2; subst; clear H1 H2. auto.
  - (* data together with EOF *)
    destruct (blen b0 <=? need) eqn:E1.
    + apply N.leb_le in E1.
      unfold rd_full, norm, concat_data, src_end.
      cbn [s_frags s_end frags_data frags_end r_buf r_end r_seek canon]. rewrite En0.
      destruct (need <=? blen b0) eqn:E2.
      * apply N.leb_le in E2. rewrite take_all, drop_all by lia.
        intros H1 H2; inversion H1; inversion H2; subst; clear H1 H2. auto.
      * intros H1 H2; inversion H1; inversion H2; subst; clear H1 H2.
        split; [reflexivity|split; [|reflexivity]].
        destruct bs2, got; reflexivity.
    + apply N.leb_gt in E1. assert (Ht : blen (take need b0) = need) by (unfold blen in *; rewrite take_length; unfold blen; lia).
      rewrite Ht, N.sub_diag, read_loop_0.
      unfold rd_full, norm, concat_data, src_end.
      cbn [s_frags s_end frags_data frags_end r_buf r_end r_seek canon].
      rewrite En0. replace (need <=? blen b0) with true by lia.
      intros H1 H2; inversion H1; inversion H2; subst; clear H1 H2. auto.
Qed.

Theorem read_full_norm sk n src :
  let '(bs, e, src') := read_full_frags n src in
  let '(bs2, e2, r') := rd_full n (norm sk src) in
  bs = bs2 /\ e = e2 /\ norm sk src' = r'.
Proof.
  destruct (read_full_frags n src) as [[bs e] src'] eqn:E1.
  destruct (rd_full n (norm sk src)) as [[bs2 e2] r'] eqn:E2.
  unfold read_full_frags in E1.
  destruct (read_loop_norm sk _ _ _ _ _ _ _ _ _ _ (or_intror (Nat.lt_succ_diag_r _)) E1 E2) as [A [B C]].
  cbn [app] in A. split; [exact A|split; [|exact C]].
  rewrite B. destruct e2 as [[]|]; reflexivity.
Qed.

(* any sequence of ReadFull calls sees the same thing *)
Fixpoint reads_frags (ns : list N) (src : source) : list (bytes * option err) :=
  match ns with
  | [] => []
  | n :: ns' => let '(b, e, src') := read_full_frags n src in (b, e) :: reads_frags ns' src'
  end.
Fixpoint reads_rdr (ns : list N) (r : rdr) : list (bytes * option err) :=
  match ns with
  | [] => []
  | n :: ns' => let '(b, e, r') := rd_full n r in (b, e) :: reads_rdr ns' r'
  end.

Theorem reads_norm sk : forall ns src, reads_frags ns src = reads_rdr ns (norm sk src).
Proof.
  induction ns as [|n ns IH]; intros src; [reflexivity|]. cbn [reads_frags reads_rdr].
  pose proof (read_full_norm sk n src) as H.
  destruct (read_full_frags n src) as [[bs e] src'].
  destruct (rd_full n (norm sk src)) as [[bs2 e2] r'].
  destruct H as [-> [-> <-]]. rewrite IH. reflexivity.
Qed.

(* ---------- C15: the lexer cannot observe fragmentation ---------- *)
Definition lex_all_frags (lo : lopts) (dstream : doracle) (fuel : nat) (sk : bool) (src : source) :=
  lex_all lo dstream fuel (norm sk src).

Theorem lex_all_frags_indep lo dstream fuel sk src src' :
  concat_data src = concat_data src' -> src_end src = src_end src' ->
  lex_all_frags lo dstream fuel sk src = lex_all_frags lo dstream fuel sk src'.
Proof. intros H1 H2. unfold lex_all_frags, norm. rewrite H1, H2. reflexivity. Qed.

Theorem reads_frags_indep ns src src' :
  concat_data src = concat_data src' -> src_end src = src_end src' ->
  reads_frags ns src = reads_frags ns src'.
Proof.
  intros H1 H2. rewrite (reads_norm false ns src), (reads_norm false ns src').
  unfold norm. rewrite H1, H2. reflexivity.
Qed.

(* splitting a byte string into one-byte fragments *)
Definition one_byte_frags (b : bytes) : list frag := map (fun x => FData [x]) b.
Lemma one_byte_frags_data b : frags_data (one_byte_frags b) = b.
Proof. unfold one_byte_frags. induction b as [|x b IH]; [reflexivity|]. cbn [map frags_data app]. rewrite IH. reflexivity. Qed.
Lemma one_byte_frags_end b en : frags_end (one_byte_frags b) en = en.
Proof. unfold one_byte_frags. induction b as [|x b IH]; [reflexivity|]. cbn [map frags_end]. exact IH. Qed.

(* one byte at a time, or everything at once together with EOF: same normal form *)
Lemma norm_one_byte sk b en :
  norm sk {| s_frags := one_byte_frags b; s_end := en |} = {| r_buf := b; r_end := canon en; r_seek := sk |}.
Proof. unfold norm, concat_data, src_end. cbn [s_frags s_end]. rewrite one_byte_frags_data, one_byte_frags_end. reflexivity. Qed.
Lemma norm_data_eof sk b rest en :
  norm sk {| s_frags := FDataEOF b :: rest; s_end := en |} = {| r_buf := b; r_end := None; r_seek := sk |}.
Proof. reflexivity. Qed.
