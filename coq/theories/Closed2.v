(* Closed2.v - the lexer theorems C07, C09, C11, C12, C15, which are stated for an arbitrary
   well-formed item list (LexSpec.wf_file), restated for the files the WRITER model produces, with
   hypotheses about the writer's inputs only.  Every theorem here is a composition of the existing
   theorem with C01Closed.writer_trace_wf_thm / writer_trace_fuel_thm / C01_file_is_trace_thm.

   writer_ok o lib comp lo ds cs'   = the hypotheses of writer_trace_wf (the run
                                      R = W o lib comp None (cs' ++ [CClose]) is error free, the
                                      lexer's decoder undoes the writer's compressor, option
                                      compatibility, 64-bit times, size limits)
   content_ok o lib lo cs'          = the extra hypotheses of the C01 round trip (records small,
                                      well-formed calls, lexer not in TokenChunk mode)

   Part 1  writer_ok, what it gives (wf_file, file = render trace, fuel)
   Part 2  C09  truncation of a written file
   Part 3  C15  fragmented and failing sources over a written file
   Part 4  C07  damaged chunk payloads / attachments of a written file
   Part 5  C11 / C12  decorated written files; two layouts of the same calls
   Part 6  non-vacuity on the workloads of C01Closed *)
From Coq Require Import List NArith ZArith Bool Lia ZifyN ZifyNat ZifyBool.
From Coq.Strings Require Import Byte.
From Mcap Require Import Source.
From Mcap Require Import Bytes BytesFacts GoSem Crc32 Crc32Facts Records RecordsFacts Writer WriterFactsA WriterFactsB
  Lexer LexSpec LexerFactsB ComposeFacts C01Closed.
From Mcap Require LexerFactsA WriterFactsC.
Import ListNotations.
Open Scope N_scope.

(* ====================================================================== *)
(** * 1. the hypotheses, bundled *)

Definition writer_ok (o : wopts) (lib : bytes) (comp : nat -> bytes -> bytes) (lo : lopts) (ds : doracle)
  (cs' : list wcall) : Prop :=
  C06_hyps o lib comp cs' /\ codec_ok lo ds o comp /\
  lo_skip_magic lo = o_skip_magic o /\
  (o_chunked o = true -> comp_supported lo (o_comp o) = true) /\
  (lo_cb lo = CbNone \/ lo_cb lo = CbFull) /\
  (lo_validate lo = true -> mem_bytes (o_comp o) (lo_custom lo) = true -> forall n b, blen (comp n b) = blen b) /\
  Forall call_times_ok cs' /\
  lex_limits lo (blen (file_of (W o lib comp None (cs' ++ [CClose])))) (if o_chunked o then auto_bytes cs' else 0).

Definition content_ok (o : wopts) (lib : bytes) (lo : lopts) (cs' : list wcall) : Prop :=
  Forall call_small cs' /\ Forall (call_wf o lib) cs' /\ lo_emit_chunks lo = false.

Lemma writer_ok_of_closed_hyps o lib comp lo ds cs' :
  C01_closed_hyps o lib comp lo ds cs' -> writer_ok o lib comp lo ds cs' /\ content_ok o lib lo cs'.
Proof.
  intros (H1 & H2 & H3 & H4 & H5 & H6 & H7 & H8 & H9 & H10 & H11).
  split.
  - split; [exact H1|]. split; [exact H2|]. split; [exact H7|]. split; [exact H8|]. split; [exact H9|].
    split; [exact H10|]. split; [|exact H11].
    rewrite Forall_forall in *. intros c Hc. eapply call_times_of_wf; [apply H4, Hc|apply H5, Hc].
  - split; [exact H3|]. split; [exact H4|exact H6].
Qed.

(* what writer_ok gives: the three facts every composition below uses *)
Lemma writer_ok_facts o lib comp lo ds cs' :
  writer_ok o lib comp lo ds cs' ->
  let R := W o lib comp None (cs' ++ [CClose]) in
  let items := rev (w_trace (r_final R)) in
  wf_file lo ds items /\ file_of R = render items /\
  (file_steps lo ds items + 1 <= fuel_of (file_of R) cs')%nat.
Proof.
  intros (H1 & H2 & H3 & H4 & H5 & H6 & H7 & H8) R items.
  split; [exact (writer_trace_wf_thm o lib comp cs' lo ds H1 H2 H3 H4 H5 H6 H7 H8)|].
  split; [exact (C01_file_is_trace_thm o lib comp cs' H1)|].
  exact (writer_trace_fuel_thm o lib comp cs' lo ds H1 H2 H3 H4 H5 H6 H7 H8).
Qed.

(* every item of the trace other than the magic is one the writer logs (fgood) *)
Lemma writer_ok_item o lib comp lo ds cs' it :
  writer_ok o lib comp lo ds cs' ->
  let R := W o lib comp None (cs' ++ [CClose]) in
  In it (rev (w_trace (r_final R))) -> it = IMagic \/ fgood o comp (blen (file_of R)) it.
Proof.
  intros (H1 & _ & _ & _ & _ & _ & H7 & _) R Hin.
  destruct (writer_trace_struct o lib comp cs' H1 H7) as (recs & A & B & _). fold R in A, B.
  rewrite A in Hin. apply in_app_or in Hin. destruct Hin as [Hin|Hin].
  - left. destruct (o_skip_magic o); [destruct Hin|]. destruct Hin as [<-|[]]. reflexivity.
  - apply in_app_or in Hin. destruct Hin as [Hin|Hin].
    + right. rewrite Forall_forall in B. apply B, Hin.
    + left. destruct Hin as [<-|[]]. reflexivity.
Qed.

(* the full read of the written file (the lexer half of C01, for reference below) *)
Lemma writer_ok_lex o lib comp lo ds cs' sk :
  writer_ok o lib comp lo ds cs' ->
  let R := W o lib comp None (cs' ++ [CClose]) in
  forall fuel, (fuel_of (file_of R) cs' <= fuel)%nat ->
  exists st, lex_all lo ds fuel (src_of (file_of R) sk)
             = Ok (file_events lo ds (rev (w_trace (r_final R))), EEOF, st).
Proof.
  intros Hok R fuel Hf. destruct (writer_ok_facts _ _ _ _ _ _ Hok) as (Hwf & Hfile & Hfuel). fold R in Hwf, Hfile, Hfuel.
  rewrite Hfile. apply lex_render_thm; [exact Hwf|]. lia.
Qed.

(* ====================================================================== *)
(** * 2. C09: truncation of a written file *)

(* every cut position, the end of the file included *)
Theorem C09_closed_thm : forall o lib comp lo ds cs' sk n,
  writer_ok o lib comp lo ds cs' -> codec_prefix_ok ds ->
  let R := W o lib comp None (cs' ++ [CClose]) in
  let items := rev (w_trace (r_final R)) in
  forall fuel, (fuel_of (file_of R) cs' + 2 <= fuel)%nat ->
  let r := lex_all lo ds fuel (src_of (firstn n (file_of R)) sk) in
  (lo_skip_magic lo = false /\ (n < 8)%nat /\ r = Err EBadMagic)
  \/ exists evs fin st,
       r = Ok (evs, fin, st)
       /\ event_prefix evs (file_events lo ds items)
       /\ ((length (file_of R) <= n)%nat -> evs = file_events lo ds items /\ fin = EEOF)
       /\ (forall pre it post, items = pre ++ it :: post ->
             (length (render (pre ++ [it])) <= n)%nat ->
             is_prefix (file_events lo ds (pre ++ [it])) evs).
Proof.
  intros o lib comp lo ds cs' sk n Hok Hpre R items fuel Hf r. subst r.
  destruct (writer_ok_facts _ _ _ _ _ _ Hok) as (Hwf & Hfile & Hfuel). fold R in Hwf, Hfile, Hfuel. fold items in Hwf, Hfile, Hfuel.
  rewrite Hfile in *.
  destruct (Nat.lt_ge_cases n (length (render items))) as [Hlt|Hge].
  - destruct (C09_lexer_thm lo ds items n sk Hwf Hpre Hlt fuel) as [Hbad|(evs & fin & st & Hr & Hp & Hall)]; [lia|left; exact Hbad|].
    right. exists evs, fin, st. split; [exact Hr|]. split; [exact Hp|]. split; [intro; lia|exact Hall].
  - rewrite firstn_all2 by exact Hge.
    destruct (lex_render_thm lo ds items sk Hwf fuel) as (st & Hr); [lia|].
    right. exists (file_events lo ds items), EEOF, st. split; [exact Hr|].
    split; [left; exists []; rewrite app_nil_r; reflexivity|]. split; [intros _; split; reflexivity|].
    intros pre it post Hsplit _. exists (file_events lo ds post).
    rewrite Hsplit. change (pre ++ it :: post) with (pre ++ [it] ++ post).
    rewrite app_assoc, file_events_app. reflexivity.
Qed.

(* the sharper form for a cut strictly inside the file: the item the cut falls in *)
Theorem C09_closed_cut_thm : forall o lib comp lo ds cs' sk n,
  writer_ok o lib comp lo ds cs' -> codec_prefix_ok ds ->
  let R := W o lib comp None (cs' ++ [CClose]) in
  let items := rev (w_trace (r_final R)) in
  (n < length (file_of R))%nat ->
  forall fuel, (fuel_of (file_of R) cs' + 2 <= fuel)%nat ->
  let r := lex_all lo ds fuel (src_of (firstn n (file_of R)) sk) in
  (lo_skip_magic lo = false /\ (n < 8)%nat /\ r = Err EBadMagic)
  \/ exists done it post partial fin st,
       items = done ++ it :: post
       /\ (length (render done) <= n < length (render (done ++ [it])))%nat
       /\ r = Ok (file_events lo ds done ++ partial, fin, st)
       /\ event_prefix partial (item_events lo ds it).
Proof.
  intros o lib comp lo ds cs' sk n Hok Hpre R items Hlt fuel Hf r. subst r.
  destruct (writer_ok_facts _ _ _ _ _ _ Hok) as (Hwf & Hfile & Hfuel). fold R in Hwf, Hfile, Hfuel. fold items in Hwf, Hfile, Hfuel.
  rewrite Hfile in *.
  apply (C09_cut_thm lo ds items n sk Hwf Hpre Hlt fuel). lia.
Qed.

(* ---------- the content of what a truncated read returns ---------- *)
Lemma data_events_prefix a b : exists m, data_events (a ++ b) = data_events a ++ m.
Proof.
  induction a as [|e a (m & IH)]; [exists (data_events b); reflexivity|].
  cbn [app data_events]. destruct (ev_dataend e); [exists []; reflexivity|].
  exists m. rewrite IH. reflexivity.
Qed.

Lemma auto_data_prefix a b : exists m,
  filter ev_auto (data_events (a ++ b)) = filter ev_auto (data_events a) ++ m.
Proof.
  destruct (data_events_prefix a b) as (m & ->). exists (filter ev_auto m). apply filter_app.
Qed.

Lemma auto_data_snoc_att a c :
  filter ev_auto (data_events (a ++ [EvAttachment c])) = filter ev_auto (data_events a).
Proof.
  induction a as [|e a IH]; [reflexivity|]. cbn [app data_events]. destruct (ev_dataend e); [reflexivity|].
  cbn [filter]. rewrite IH. reflexivity.
Qed.

Lemma event_prefix_auto evs full : event_prefix evs full -> exists m,
  filter ev_auto (data_events full) = filter ev_auto (data_events evs) ++ m.
Proof.
  intros [(more & ->)|(common & c & f & more & -> & -> & _)].
  - apply auto_data_prefix.
  - rewrite auto_data_snoc_att. apply auto_data_prefix.
Qed.

Lemma firstn_length_app {A} (a b : list A) : firstn (length a) (a ++ b) = a.
Proof. induction a as [|x a IH]; [destruct b; reflexivity|]. cbn [length app firstn]. rewrite IH. reflexivity. Qed.

(* The schema, channel and message records a truncated read returns are, decoded, exactly the
   first j such records the calls wrote (in call order, with the written content), and j counts at
   least the records of every item - in particular of every chunk - that lies completely before the
   cut; the events of such an item are returned in full. *)
Theorem C09_closed_messages_thm : forall o lib comp lo ds cs' sk n,
  writer_ok o lib comp lo ds cs' -> content_ok o lib lo cs' -> codec_prefix_ok ds ->
  let R := W o lib comp None (cs' ++ [CClose]) in
  let items := rev (w_trace (r_final R)) in
  forall fuel, (fuel_of (file_of R) cs' + 2 <= fuel)%nat ->
  forall evs fin st,
    lex_all lo ds fuel (src_of (firstn n (file_of R)) sk) = Ok (evs, fin, st) ->
    let got := filter ev_auto (data_events evs) in
    map decode_event got
      = map Ok (firstn (length got) (flat_map (call_contents lo o lib) (filter call_auto cs')))
    /\ (forall pre it post, items = pre ++ it :: post ->
          (length (render (pre ++ [it])) <= n)%nat ->
          is_prefix (file_events lo ds (pre ++ [it])) evs
          /\ (length (filter ev_auto (data_events (file_events lo ds (pre ++ [it])))) <= length got)%nat).
Proof.
  intros o lib comp lo ds cs' sk n Hok (Hsm & Hcw & Hemit) Hpre R items fuel Hf evs fin st Hr got.
  destruct (C09_closed_thm o lib comp lo ds cs' sk n Hok Hpre fuel Hf) as [(_ & _ & Hbad)|(evs0 & fin0 & st0 & Hr0 & Hp & _ & Hall)].
  { fold R in Hbad. rewrite Hr in Hbad. discriminate Hbad. }
  fold R in Hr0, Hp, Hall. fold items in Hp, Hall. rewrite Hr in Hr0. injection Hr0 as <- <- <-.
  pose proof Hok as (H1 & H2 & _).
  destruct (C01_roundtrip_thm o lib comp lo ds cs' H1 H2 Hsm Hcw Hemit) as [_ HB]. fold R in HB. fold items in HB.
  destruct (event_prefix_auto _ _ Hp) as (m & Hm). fold got in Hm.
  split.
  - rewrite <- firstn_map, <- HB, Hm, map_app.
    rewrite <- (map_length decode_event got), firstn_length_app. reflexivity.
  - intros pre it post Hsplit Hlen. destruct (Hall pre it post Hsplit Hlen) as (more & Hmore).
    split; [exists more; exact Hmore|].
    destruct (auto_data_prefix (file_events lo ds (pre ++ [it])) more) as (m' & Hm').
    rewrite <- Hmore in Hm'. fold got in Hm'. rewrite Hm', app_length. lia.
Qed.

(* a chunk of the trace holds schema/channel/message records only, and its events are the tokens
   of these records: "the messages of a chunk" are events *)
Theorem writer_chunk_events_thm : forall o lib comp lo ds cs' k,
  writer_ok o lib comp lo ds cs' -> lo_emit_chunks lo = false ->
  let R := W o lib comp None (cs' ++ [CClose]) in
  In (IChunk k) (rev (w_trace (r_final R))) ->
  exists j inner,
    k_records k = comp j (frames inner) /\ Forall auto_rec inner /\
    k_crc k = (if o_crc o then crc32 (frames inner) else 0) /\
    item_events lo ds (IChunk k) = map (fun r => EvToken (fst r) (snd r)) inner.
Proof.
  intros o lib comp lo ds cs' k Hok Hemit R Hin.
  destruct (writer_ok_item _ _ _ _ _ _ _ Hok Hin) as [Hm|Hg]; [discriminate Hm|].
  cbn [fgood wgood] in Hg. destruct Hg as (_ & Hcomp & _ & _ & j & inner & Hauto & Hrecs & Hus & Hcrc).
  destruct (writer_ok_facts _ _ _ _ _ _ Hok) as ((recs & Hitems & Hwf) & _ & _). fold R in Hitems.
  assert (Hwk : wf_chunk_item lo ds k).
  { rewrite Hitems in Hin. apply in_app_or in Hin. destruct Hin as [Hin|Hin].
    - unfold lead_magic in Hin. destruct (lo_skip_magic lo); [destruct Hin|]. destruct Hin as [Hx|[]]. discriminate Hx.
    - apply in_app_or in Hin. destruct Hin as [Hin|[Hx|[]]]; [|discriminate Hx].
      rewrite Forall_forall in Hwf. exact (Hwf _ Hin). }
  destruct Hwk as ((_ & _ & Hus64 & _) & _ & Hw). rewrite Hemit in Hw.
  pose proof Hok as (_ & Hcodec & _).
  assert (Hs : chunk_stream lo ds (k_comp k) (k_records k) None = (frames inner, None)).
  { rewrite Hcomp, Hrecs. apply Hcodec. }
  assert (Hsz : Forall (fun r : byte * bytes => blen (snd r) < two64) inner).
  { apply Forall_forall. intros r Hr. pose proof (frames_body_le r inner Hr). lia. }
  assert (Hinner : chunk_inner lo ds k = inner).
  { unfold chunk_inner, chunk_plain. rewrite Hs. cbn [fst]. apply split_records_frames; [exact Hsz|lia]. }
  exists j, inner. split; [exact Hrecs|]. split; [exact Hauto|]. split; [exact Hcrc|].
  cbn [item_events]. rewrite Hemit, Hinner. clear - Hauto.
  induction Hauto as [|r inner Hr _ IH]; [reflexivity|]. cbn [map concat]. rewrite IH.
  unfold rec_events. rewrite (auto_op_known _ Hr). reflexivity.
Qed.

(* ====================================================================== *)
(** * 3. C15: fragmented and failing sources over a written file *)

Lemma norm_complete sk src b :
  concat_data src = b -> src_end src = None -> norm sk src = src_of b sk.
Proof. intros H1 H2. unfold norm, src_of. rewrite H1, H2. reflexivity. Qed.

(* every fragmentation of the written file into a source that ends cleanly: the lexer (which reads
   through io.ReadFull only, Source.read_full_norm) returns what the in-memory reader returns,
   i.e. all the events of the file and io.EOF *)
Theorem C15_closed_fragmentation_thm : forall o lib comp lo ds cs' sk src,
  writer_ok o lib comp lo ds cs' ->
  let R := W o lib comp None (cs' ++ [CClose]) in
  concat_data src = file_of R -> src_end src = None ->
  forall fuel, (fuel_of (file_of R) cs' <= fuel)%nat ->
  lex_all_frags lo ds fuel sk src = lex_all lo ds fuel (src_of (file_of R) sk) /\
  exists st, lex_all_frags lo ds fuel sk src
             = Ok (file_events lo ds (rev (w_trace (r_final R))), EEOF, st).
Proof.
  intros o lib comp lo ds cs' sk src Hok R Hd He fuel Hf.
  unfold lex_all_frags. rewrite (norm_complete sk src _ Hd He). split; [reflexivity|].
  exact (writer_ok_lex o lib comp lo ds cs' sk Hok fuel Hf).
Qed.

(* ... and these events decode to what the calls wrote (C01 through any fragmentation) *)
Theorem C15_closed_roundtrip_thm : forall o lib comp lo ds cs' sk src,
  writer_ok o lib comp lo ds cs' -> content_ok o lib lo cs' ->
  let R := W o lib comp None (cs' ++ [CClose]) in
  concat_data src = file_of R -> src_end src = None ->
  forall fuel, (fuel_of (file_of R) cs' <= fuel)%nat ->
  exists evs st,
    lex_all_frags lo ds fuel sk src = Ok (evs, EEOF, st) /\
    map decode_event (filter ev_direct (data_events evs))
      = map Ok (flat_map (call_contents lo o lib) (filter call_direct cs')) /\
    map decode_event (filter ev_auto (data_events evs))
      = map Ok (flat_map (call_contents lo o lib) (filter call_auto cs')).
Proof.
  intros o lib comp lo ds cs' sk src Hok (Hsm & Hcw & Hemit) R Hd He fuel Hf.
  destruct (C15_closed_fragmentation_thm o lib comp lo ds cs' sk src Hok Hd He fuel Hf) as (_ & st & Hr).
  fold R in Hr. exists (file_events lo ds (rev (w_trace (r_final R)))), st. split; [exact Hr|].
  pose proof Hok as (H1 & H2 & _).
  exact (C01_roundtrip_thm o lib comp lo ds cs' H1 H2 Hsm Hcw Hemit).
Qed.

Lemma norm_failing sk src b e :
  concat_data src = b -> src_end src = Some e -> norm sk src = {| r_buf := b; r_end := Some e; r_seek := sk |}.
Proof. intros H1 H2. unfold norm. rewrite H1, H2. reflexivity. Qed.

(* a source that delivers the first n bytes of the written file (in any fragmentation) and then
   fails with e: never a crash; the events are a prefix of the events of the file (the last one
   possibly an attachment observation with fewer data bytes) and the read ends with e - or the
   failure position was never reached and the run is the complete one (clean EOF, all events) *)
Theorem C15_closed_failing_thm : forall o lib comp lo ds cs' sk src e n,
  writer_ok o lib comp lo ds cs' ->
  e <> EEOF -> e <> EUnexpectedEOF -> e <> ETruncated -> e <> EInvalidChunkCrc ->
  (forall c a, snd (ds c a (Some e)) = Some e) ->
  (forall c a t, exists u, fst (ds c (a ++ t) None) = fst (ds c a (Some e)) ++ u) ->
  let R := W o lib comp None (cs' ++ [CClose]) in
  let full := file_events lo ds (rev (w_trace (r_final R))) in
  concat_data src = firstn n (file_of R) -> src_end src = Some e ->
  forall fuel,
  let r := lex_all_frags lo ds fuel sk src in
  (forall site, r <> Panic site /\ r <> Exit site) /\
  (forall evsF finF sF, r = Ok (evsF, finF, sF) ->
     LexerFactsA.events_prefix_upto_attachment evsF full /\
     (finF = e \/ (finF = EEOF /\ evsF = full))).
Proof.
  intros o lib comp lo ds cs' sk src e n Hok E1 E2 E3 E4 Hp Hm R full Hd He fuel r. subst r.
  unfold lex_all_frags. rewrite (norm_failing sk src _ e Hd He).
  split; [intro site; apply LexerFactsA.lex_all_no_panic|].
  intros evsF finF sF HF.
  destruct (writer_ok_lex o lib comp lo ds cs' sk Hok _ (Nat.le_refl _)) as (st & HC). fold R in HC. fold full in HC.
  unfold src_of in HC. rewrite <- (firstn_skipn n (file_of R)) in HC at 2.
  destruct (LexerFactsA.error_prefix_full_stmt lo ds e E1 E2 E3 E4 Hp Hm _ _ _ _ _ _ _ _ _ _ _ HF HC) as [A B].
  split; [exact A|]. destruct B as [B|[B1 B2]]; [left; exact B|right; split; assumption].
Qed.

(* without an attachment callback: a plain prefix; and a clean EOF on the failing source can only
   come from the reader of a chunk *)
Theorem C15_closed_failing_no_callback_thm : forall o lib comp lo ds cs' sk src e n,
  writer_ok o lib comp lo ds cs' -> lo_cb lo = CbNone ->
  e <> EEOF -> e <> EUnexpectedEOF -> e <> ETruncated -> e <> EInvalidChunkCrc ->
  (forall c a, snd (ds c a (Some e)) = Some e) ->
  (forall c a t, exists u, fst (ds c (a ++ t) None) = fst (ds c a (Some e)) ++ u) ->
  let R := W o lib comp None (cs' ++ [CClose]) in
  let full := file_events lo ds (rev (w_trace (r_final R))) in
  concat_data src = firstn n (file_of R) -> src_end src = Some e ->
  forall fuel evsF finF sF,
    lex_all_frags lo ds fuel sk src = Ok (evsF, finF, sF) ->
    (exists t, full = evsF ++ t) /\
    (finF = e \/ (finF = EEOF /\ evsF = full)) /\
    (finF = EEOF -> exists rc, lx_chunk sF = Some rc /\ end_err rc = EEOF).
Proof.
  intros o lib comp lo ds cs' sk src e n Hok Hcb E1 E2 E3 E4 Hp Hm R full Hd He fuel evsF finF sF HF.
  unfold lex_all_frags in HF. rewrite (norm_failing sk src _ e Hd He) in HF.
  destruct (writer_ok_lex o lib comp lo ds cs' sk Hok _ (Nat.le_refl _)) as (st & HC). fold R in HC. fold full in HC.
  unfold src_of in HC. rewrite <- (firstn_skipn n (file_of R)) in HC at 2.
  destruct (LexerFactsA.error_prefix_stmt lo ds e E1 E2 E3 E4 Hcb Hp Hm _ _ _ _ _ _ _ _ _ _ _ HF HC) as [A B].
  split; [exact A|]. split.
  - destruct B as [B|[B1 B2]]; [left; exact B|right; split; assumption].
  - intro Hfin. exact (LexerFactsA.error_not_eof_stmt lo ds e E1 E2 E3 Hcb _ _ _ _ _ _ HF Hfin).
Qed.

(* with a decoder that expands its input by at most B bytes, the run on the failing source does
   return: fuel (number of delivered bytes) * (B + 2) + 1 suffices *)
Theorem C15_closed_failing_total_thm : forall o lib comp lo ds cs' sk src e n (B : nat),
  (forall c a e0, (length (fst (ds c a e0)) <= length a + B)%nat) ->
  let R := W o lib comp None (cs' ++ [CClose]) in
  concat_data src = firstn n (file_of R) -> src_end src = Some e ->
  forall fuel, (n * (B + 2) < fuel)%nat ->
  let r := lex_all_frags lo ds fuel sk src in
  r = Err EBadMagic \/ exists evsF finF sF, r = Ok (evsF, finF, sF).
Proof.
  intros o lib comp lo ds cs' sk src e n B HB R Hd He fuel Hf r. subst r.
  unfold lex_all_frags. rewrite (norm_failing sk src _ e Hd He).
  set (rdr0 := {| r_buf := firstn n (file_of R); r_end := Some e; r_seek := sk |}).
  assert (Hlen : (length (r_buf rdr0) * (B + 2) < fuel)%nat).
  { cbn [rdr0 r_buf]. pose proof (firstn_le_length n (file_of R)). nia. }
  pose proof (LexerFactsA.lex_all_total lo ds B HB fuel rdr0 Hlen) as H1.
  pose proof (lex_all_no_crash lo ds fuel rdr0) as H2.
  destruct (lex_all lo ds fuel rdr0) as [[[evs fin] st]|x| | |]; cbn in H1, H2; try contradiction.
  - right. exists evs, fin, st. reflexivity.
  - left. destruct x; try contradiction. reflexivity.
Qed.

(* ====================================================================== *)
(** * 4. C07: damage to a written file *)

(* where the stored payload of a chunk lies in the file: everything in front of it (the items
   before the chunk, the 9-byte record head, the chunk header fields) does not depend on the
   payload bytes, only on their number *)
Definition chunk_front (pre : list item) (k : chunk) : bytes :=
  render pre ++ frame_head OpChunk (blen (enc_chunk k)) ++ enc_chunk_top k.

Lemma render_with_records pre k post r :
  blen r = blen (k_records k) ->
  render (pre ++ IChunk (with_records k r) :: post) = chunk_front pre k ++ r ++ render post.
Proof.
  intro Hl. rewrite render_app, render_cons'. cbn [render_item]. unfold frame, chunk_front.
  rewrite (with_records_blen k r Hl). unfold enc_chunk at 2, enc_chunk_top.
  cbn [with_records k_start k_end k_usize k_crc k_comp k_records]. rewrite Hl, <- !app_assoc. reflexivity.
Qed.

Lemma with_records_same k : with_records k (k_records k) = k.
Proof. destruct k; reflexivity. Qed.

Lemma chunk_front_length pre k :
  length (chunk_front pre k) = (length (render pre) + 9 + 40 + length (k_comp k))%nat.
Proof.
  unfold chunk_front, enc_chunk_top, pstr. rewrite !app_length, frame_head_length, !u64_length, !u32_length. lia.
Qed.

(* 4.1 an uncompressed chunk of a writer with CRCs on, validating lexer: one payload byte of the
   file replaced.  The side condition crc32 (payload) <> 0 cannot be dropped: a stored chunk CRC
   of 0 means "no CRC" to every reader. *)
Theorem C07_closed_chunk_byte_thm : forall o lib comp lo ds cs' sk pre k post,
  writer_ok o lib comp lo ds cs' ->
  o_crc o = true -> o_comp o = [] -> mem_bytes [] (lo_custom lo) = false ->
  lo_validate lo = true -> lo_emit_chunks lo = false ->
  let R := W o lib comp None (cs' ++ [CClose]) in
  rev (w_trace (r_final R)) = pre ++ IChunk k :: post ->
  crc32 (k_records k) <> 0 ->
  k_comp k = [] /\ k_crc k = crc32 (k_records k) /\
  file_of R = chunk_front pre k ++ k_records k ++ render post /\
  forall p1 b b' p2, k_records k = p1 ++ b :: p2 -> b <> b' ->
  forall fuel, (fuel_of (file_of R) cs' <= fuel)%nat ->
  exists st, lex_all lo ds fuel (src_of (chunk_front pre k ++ (p1 ++ b' :: p2) ++ render post) sk) =
    if lo_emit_invalid lo
    then Ok (file_events lo ds pre ++ EvInvalidChunk :: file_events lo ds post, EEOF, st)
    else Ok (file_events lo ds pre, EInvalidChunkCrc, st).
Proof.
  intros o lib comp lo ds cs' sk pre k post Hok Hcrc Hcomp Hcust Hv Hemit R Htr Hnz.
  destruct (writer_ok_facts _ _ _ _ _ _ Hok) as (Hwf & Hfile & Hfuel). fold R in Hwf, Hfile, Hfuel.
  assert (Hin : In (IChunk k) (rev (w_trace (r_final R)))) by (rewrite Htr; apply in_elt).
  destruct (writer_ok_item _ _ _ _ _ _ _ Hok Hin) as [Hm|Hg]; [discriminate Hm|].
  cbn [fgood wgood] in Hg. destruct Hg as (_ & Hkc & _ & _ & j & inner & _ & Hrecs & _ & Hkcrc).
  rewrite Hcomp in Hkc. rewrite Hcrc in Hkcrc.
  pose proof Hok as (_ & Hcodec & _).
  assert (Hid : comp j (frames inner) = frames inner).
  { specialize (Hcodec j (frames inner)). unfold chunk_stream in Hcodec. rewrite Hcomp, Hcust in Hcodec.
    cbn in Hcodec. injection Hcodec as Hc. exact Hc. }
  rewrite Hid in Hrecs. rewrite <- Hrecs in Hkcrc.
  split; [exact Hkc|]. split; [exact Hkcrc|]. split.
  { rewrite Hfile, Htr. rewrite <- (with_records_same k) at 1. apply render_with_records. reflexivity. }
  intros p1 b b' p2 Hsplit Hne fuel Hf.
  rewrite Htr in Hwf, Hfuel.
  assert (Hl : blen (p1 ++ b' :: p2) = blen (k_records k)) by (rewrite Hsplit; apply blen_flip).
  rewrite <- (render_with_records pre k post _ Hl).
  apply (C07_uncompressed_byte_thm lo ds pre k post p1 b b' p2 sk Hwf Hv Hemit Hkc Hcust); try assumption; [|lia].
  rewrite Hkcrc. exact Hnz.
Qed.

(* 4.2 any compression: the stored payload of a chunk of the file replaced by arbitrary bytes of
   the same length (C07_chunk_general on the written file) *)
Theorem C07_closed_chunk_general_thm : forall o lib comp lo ds cs' sk pre k post recs',
  writer_ok o lib comp lo ds cs' ->
  lo_validate lo = true -> lo_emit_chunks lo = false ->
  let R := W o lib comp None (cs' ++ [CClose]) in
  let items := rev (w_trace (r_final R)) in
  items = pre ++ IChunk k :: post ->
  k_crc k <> 0 -> blen recs' = blen (k_records k) ->
  file_of R = chunk_front pre k ++ k_records k ++ render post /\
  forall fuel, (fuel_of (file_of R) cs' <= fuel)%nat ->
  let r := lex_all lo ds fuel (src_of (chunk_front pre k ++ recs' ++ render post) sk) in
  (exists st, r = Ok (file_events lo ds items, EEOF, st))
  \/ (exists e st, r = Ok (file_events lo ds pre, e, st) /\ (e = EEOF -> codec_reports_eof lo ds k recs'))
  \/ (lo_emit_invalid lo = true /\ lextends (file_events lo ds pre ++ [EvInvalidChunk]) r)
  \/ crc_collision lo ds k recs'.
Proof.
  intros o lib comp lo ds cs' sk pre k post recs' Hok Hv Hemit R items Htr Hnz Hl.
  destruct (writer_ok_facts _ _ _ _ _ _ Hok) as (Hwf & Hfile & Hfuel). fold R in Hwf, Hfile, Hfuel. fold items in Hwf, Hfile, Hfuel.
  split.
  { rewrite Hfile, Htr. rewrite <- (with_records_same k) at 1. apply render_with_records. reflexivity. }
  intros fuel Hf r. subst r. rewrite <- (render_with_records pre k post _ Hl).
  rewrite Htr in *.
  apply (C07_chunk_general_thm lo ds pre k post recs' sk Hwf Hv Hemit Hnz Hl). lia.
Qed.

(* 4.3 one content byte of an attachment of the file replaced: the callback sees a computed CRC
   that differs from the stored one *)
Theorem C07_closed_attachment_thm : forall o lib comp lo ds cs' sk pre a data crc post a' data',
  writer_ok o lib comp lo ds cs' ->
  lo_cb lo = CbFull -> lo_compute_acrc lo = true ->
  let R := W o lib comp None (cs' ++ [CClose]) in
  rev (w_trace (r_final R)) = pre ++ IAttach a data crc :: post ->
  att_content_flip a data a' data' ->
  crc = crc32 (enc_attachment_fields a ++ data) /\
  (exists hd p1 b b' p2,
     file_of R = render pre ++ (hd ++ p1 ++ b :: p2 ++ u32 crc) ++ render post /\
     render (pre ++ IAttach a' data' crc :: post) = render pre ++ (hd ++ p1 ++ b' :: p2 ++ u32 crc) ++ render post /\
     b <> b' /\ length hd = 9%nat) /\
  forall fuel, (fuel_of (file_of R) cs' <= fuel)%nat ->
  exists st ob c1 c2,
    lex_all lo ds fuel (src_of (render (pre ++ IAttach a' data' crc :: post)) sk)
      = Ok (file_events lo ds pre ++ EvAttachment ob :: file_events lo ds post, EEOF, st)
    /\ ao_name ob = a_name a' /\ ao_data ob = data'
    /\ ao_computed ob = Ok c1 /\ ao_parsed ob = Ok c2 /\ c1 <> c2.
Proof.
  intros o lib comp lo ds cs' sk pre a data crc post a' data' Hok Hcb Hacrc R Htr Hflip.
  destruct (writer_ok_facts _ _ _ _ _ _ Hok) as (Hwf & Hfile & Hfuel). fold R in Hwf, Hfile, Hfuel.
  assert (Hin : In (IAttach a data crc) (rev (w_trace (r_final R)))) by (rewrite Htr; apply in_elt).
  destruct (writer_ok_item _ _ _ _ _ _ _ Hok Hin) as [Hm|Hg]; [discriminate Hm|].
  cbn [fgood wgood] in Hg. destruct Hg as (_ & Hc & _ & _).
  rewrite Htr in Hwf, Hfuel.
  split; [exact Hc|]. split.
  - assert (Hnm : IAttach a data crc <> IMagic) by discriminate.
    destruct (wf_file_split_item lo ds pre _ post Hnm Hwf) as (_ & _ & _ & _ & _ & W & _). cbn [wf_item] in W.
    destruct (att_content_flip_render lo a data a' data' crc Hflip W) as (hd & p1 & b & b' & p2 & E1 & E2 & Hne & Hhd).
    exists hd, p1, b, b', p2. split; [|split; [|split; assumption]].
    + rewrite Hfile, Htr, render_app, render_cons', E1. reflexivity.
    + rewrite render_app, render_cons', E2. reflexivity.
  - intros fuel Hf. subst crc.
    apply (C07_attachment_flip_thm lo ds pre a data a' data' post sk Hwf Hcb Hacrc Hflip). lia.
Qed.

(* ====================================================================== *)
(** * 5. C11 and C12 on written files *)

(* 5.1 a written file decorated with unknown records (top level and inside chunks): the lexer
   returns the same events for the written file and for the decorated one.  The bound on
   file_steps of the decorated file is about the decoration (the caller's input), not about the
   writer's output. *)
Theorem C11_closed_thm : forall o lib comp lo ds cs' items' sk sk',
  writer_ok o lib comp lo ds cs' ->
  let R := W o lib comp None (cs' ++ [CClose]) in
  let items := rev (w_trace (r_final R)) in
  decorate_file lo ds items items' ->
  forall fuel, (fuel_of (file_of R) cs' <= fuel)%nat -> (file_steps lo ds items' + 1 <= fuel)%nat ->
  exists st st',
    lex_all lo ds fuel (src_of (file_of R) sk) = Ok (file_events lo ds items, EEOF, st) /\
    lex_all lo ds fuel (src_of (render items') sk') = Ok (file_events lo ds items, EEOF, st').
Proof.
  intros o lib comp lo ds cs' items' sk sk' Hok R items Hdec fuel Hf Hf'.
  destruct (writer_ok_facts _ _ _ _ _ _ Hok) as (Hwf & Hfile & Hfuel). fold R in Hwf, Hfile, Hfuel. fold items in Hwf, Hfile, Hfuel.
  rewrite Hfile.
  apply (C11_unknown_records_skipped_thm lo ds items items' sk sk' Hwf Hdec fuel); [lia|exact Hf'].
Qed.

(* ... hence the decorated file reads back as what the calls wrote *)
Theorem C11_closed_roundtrip_thm : forall o lib comp lo ds cs' items' sk',
  writer_ok o lib comp lo ds cs' -> content_ok o lib lo cs' ->
  let R := W o lib comp None (cs' ++ [CClose]) in
  decorate_file lo ds (rev (w_trace (r_final R))) items' ->
  forall fuel, (fuel_of (file_of R) cs' <= fuel)%nat -> (file_steps lo ds items' + 1 <= fuel)%nat ->
  exists evs st',
    lex_all lo ds fuel (src_of (render items') sk') = Ok (evs, EEOF, st') /\
    map decode_event (filter ev_direct (data_events evs))
      = map Ok (flat_map (call_contents lo o lib) (filter call_direct cs')) /\
    map decode_event (filter ev_auto (data_events evs))
      = map Ok (flat_map (call_contents lo o lib) (filter call_auto cs')).
Proof.
  intros o lib comp lo ds cs' items' sk' Hok (Hsm & Hcw & Hemit) R Hdec fuel Hf Hf'.
  destruct (C11_closed_thm o lib comp lo ds cs' items' false sk' Hok Hdec fuel Hf Hf') as (_ & st' & _ & Hr).
  fold R in Hr. exists (file_events lo ds (rev (w_trace (r_final R)))), st'. split; [exact Hr|].
  pose proof Hok as (H1 & H2 & _).
  exact (C01_roundtrip_thm o lib comp lo ds cs' H1 H2 Hsm Hcw Hemit).
Qed.

(* 5.2 two writer configurations given the same calls, read by the same lexer: the actual runs on
   the two files deliver the same header/attachment/metadata events in the same order and the same
   schema/channel/message tokens in the same order *)
Theorem C12_closed_thm : forall o1 o2 lib comp1 comp2 lo ds cs' sk1 sk2,
  writer_ok o1 lib comp1 lo ds cs' -> writer_ok o2 lib comp2 lo ds cs' ->
  o_override_lib o1 = o_override_lib o2 ->
  Forall call_small cs' -> lo_emit_chunks lo = false ->
  let R1 := W o1 lib comp1 None (cs' ++ [CClose]) in
  let R2 := W o2 lib comp2 None (cs' ++ [CClose]) in
  exists evs1 evs2 st1 st2,
    lex_all lo ds (fuel_of (file_of R1) cs') (src_of (file_of R1) sk1) = Ok (evs1, EEOF, st1) /\
    lex_all lo ds (fuel_of (file_of R2) cs') (src_of (file_of R2) sk2) = Ok (evs2, EEOF, st2) /\
    filter ev_direct (data_events evs1) = filter ev_direct (data_events evs2) /\
    filter ev_auto (data_events evs1) = filter ev_auto (data_events evs2).
Proof.
  intros o1 o2 lib comp1 comp2 lo ds cs' sk1 sk2 Hok1 Hok2 Hov Hsm Hemit R1 R2.
  destruct (writer_ok_lex o1 lib comp1 lo ds cs' sk1 Hok1 _ (Nat.le_refl _)) as (st1 & Hr1).
  destruct (writer_ok_lex o2 lib comp2 lo ds cs' sk2 Hok2 _ (Nat.le_refl _)) as (st2 & Hr2).
  fold R1 in Hr1. fold R2 in Hr2.
  exists (file_events lo ds (rev (w_trace (r_final R1)))), (file_events lo ds (rev (w_trace (r_final R2)))), st1, st2.
  split; [exact Hr1|]. split; [exact Hr2|].
  pose proof Hok1 as (A1 & B1 & _). pose proof Hok2 as (A2 & B2 & _).
  exact (C12_writer_layouts_thm o1 o2 lib comp1 comp2 lo ds cs' A1 A2 B1 B2 Hov Hsm Hemit).
Qed.

(* the content_events form: when no attachment/metadata call is made, or for two layouts that
   interleave them identically, this is C12_lexer; in general the relative order of the two classes
   differs between layouts (ComposeFacts.ex_layouts), which is why 5.2 is stated per class *)

(* ====================================================================== *)
(** * 6. non-vacuity: the workloads of C01Closed (WriterFactsB.ex_cs_pre: header, schema, channel,
      three messages, an attachment, metadata; four writer configurations) *)

Example ex2_writer_ok :
  (writer_ok ex_o ex_lib ex_comp ex_lo ds_id ex_cs_pre /\ content_ok ex_o ex_lib ex_lo ex_cs_pre) /\
  (writer_ok ex_o_z ex_lib comp_z ex_lo ds_z ex_cs_pre /\ content_ok ex_o_z ex_lib ex_lo ex_cs_pre) /\
  (writer_ok ex_o_u ex_lib ex_comp ex_lo ds_z ex_cs_pre /\ content_ok ex_o_u ex_lib ex_lo ex_cs_pre) /\
  (writer_ok ex_o_big ex_lib ex_comp ex_lo ds_z ex_cs_pre /\ content_ok ex_o_big ex_lib ex_lo ex_cs_pre).
Proof.
  split; [exact (writer_ok_of_closed_hyps _ _ _ _ _ _ ex_closed_hyps)|].
  split; [exact (writer_ok_of_closed_hyps _ _ _ _ _ _ ex_closed_hyps_z)|].
  split; [exact (writer_ok_of_closed_hyps _ _ _ _ _ _ ex_closed_hyps_u)|].
  exact (writer_ok_of_closed_hyps _ _ _ _ _ _ ex_closed_hyps_big).
Qed.

(* the first workload under every lexer mode of LexerFactsB.ex_lopts *)
Example ex2_writer_ok_modes validate emit_invalid cb :
  cb = CbNone \/ cb = CbFull ->
  writer_ok ex_o ex_lib ex_comp (ex_lopts validate emit_invalid cb) ds_id ex_cs_pre /\
  content_ok ex_o ex_lib (ex_lopts validate emit_invalid cb) ex_cs_pre.
Proof.
  intro Hcb. split.
  - split; [exact ex_C06_hyps|]. split; [intros n plain; reflexivity|]. split; [reflexivity|].
    split; [intros _; reflexivity|]. split; [exact Hcb|]. split; [intros _ H; discriminate H|].
    split; [exact ex_call_times_ok|].
    apply lex_limitsb_ok. destruct validate; vm_compute; reflexivity.
  - split; [exact ex_call_small|]. split; [exact ex_call_wf|reflexivity].
Qed.

(* the uncompressed workload read through the toy decoder ds_z (which is not consulted for
   uncompressed chunks): used to compare layouts under one lexer configuration *)
Example ex2_writer_ok_n : writer_ok ex_o ex_lib ex_comp ex_lo ds_z ex_cs_pre.
Proof.
  destruct ex2_writer_ok as ((H & _) & _). destruct H as (H1 & _ & H3 & H4 & H5 & H6 & H7 & H8).
  split; [exact H1|]. split; [exact ex_codec_ok_n|]. repeat (split; [assumption|]). assumption.
Qed.

Lemma tl_firstn {A} j (l : list A) : tl (firstn j l) = firstn (pred j) (tl l).
Proof. destruct j as [|j]; [destruct l; reflexivity|]. destruct l as [|x l]; [destruct j; reflexivity|]. reflexivity. Qed.

Example ds_z_prefix_ok : codec_prefix_ok ds_z.
Proof.
  intros comp payload plain j H _. unfold ds_z in *. injection H as <-.
  exists (pred j), None. split; [rewrite tl_firstn; reflexivity|discriminate].
Qed.

(* a readable summary of a lexer run: the opcodes of the tokens (None for an attachment callback
   or an invalid-chunk marker) and the final error *)
Definition ev_tag (e : event) : option byte := match e with EvToken op _ => Some op | _ => None end.
Definition lex_tags (r : outcome (list event * err * lstate)) : option (list (option byte) * err) :=
  match r with Ok (evs, e, _) => Some (map ev_tag evs, e) | _ => None end.

(* notations, so that the instances are syntactically those of the theorems *)
Notation ex2_R := (W ex_o ex_lib ex_comp None (ex_cs_pre ++ [CClose])).
Notation ex2_file := (file_of ex2_R).

(* layout of ex2_file (1015 bytes): magic 0-8, header 8-27, chunk 27-163 (schema, channel, message
   10), message index 163-194, chunk 194-311 (messages 20 and 30), message index 311-358,
   attachment 358-408, metadata, DataEnd at 436, summary, footer, magic *)
Example ex2_layout :
  length ex2_file = 1015%nat /\ (fuel_of ex2_file ex_cs_pre + 2 = 1173)%nat /\
  map (fun it => length (render_item it)) (firstn 8 (rev (w_trace (r_final ex2_R))))
    = [8; 19; 136; 31; 117; 47; 50; 28]%nat.
Proof. vm_compute. repeat split. Qed.

(* ----- C09 ----- *)
Example ex2_C09_applies : forall validate cb sk n, cb = CbNone \/ cb = CbFull ->
  let lo := ex_lopts validate false cb in
  let items := rev (w_trace (r_final ex2_R)) in
  let r := lex_all lo ds_id 1173 (src_of (firstn n ex2_file) sk) in
  (lo_skip_magic lo = false /\ (n < 8)%nat /\ r = Err EBadMagic)
  \/ exists evs fin st,
       r = Ok (evs, fin, st)
       /\ event_prefix evs (file_events lo ds_id items)
       /\ ((length ex2_file <= n)%nat -> evs = file_events lo ds_id items /\ fin = EEOF)
       /\ (forall pre it post, items = pre ++ it :: post ->
             (length (render (pre ++ [it])) <= n)%nat ->
             is_prefix (file_events lo ds_id (pre ++ [it])) evs).
Proof.
  intros validate cb sk n Hcb lo items r.
  destruct (ex2_writer_ok_modes validate false cb Hcb) as [Hok _].
  apply (C09_closed_thm ex_o ex_lib ex_comp lo ds_id ex_cs_pre sk n Hok ds_id_prefix_ok).
  vm_compute. repeat constructor.
Qed.

(* computed, independently of the theorem: cut at byte 300, inside the second message of the
   second chunk.  Without chunk validation the first message of that chunk is delivered; with it,
   nothing of the incomplete chunk.  In both cases everything of the first chunk is there, and
   the decoded schema/channel/message records are the first 4 resp. 3 that were written. *)
Example ex2_C09_cut_300 :
  lex_tags (lex_all (ex_lopts false false CbFull) ds_id 1173 (src_of (firstn 300 ex2_file) false))
    = Some ([Some OpHeader; Some OpSchema; Some OpChannel; Some OpMessage; Some OpMessageIndex; Some OpMessage], ETruncated) /\
  lex_tags (lex_all (ex_lopts true false CbFull) ds_id 1173 (src_of (firstn 300 ex2_file) false))
    = Some ([Some OpHeader; Some OpSchema; Some OpChannel; Some OpMessage; Some OpMessageIndex], EUnexpectedEOF) /\
  lex_tags (lex_all (ex_lopts true false CbFull) ds_id 1173 (src_of (firstn 5 ex2_file) false)) = None /\
  match lex_all (ex_lopts false false CbFull) ds_id 1173 (src_of (firstn 300 ex2_file) false) with
  | Ok (evs, _, _) =>
    map decode_event (filter ev_auto (data_events evs))
    = map Ok (firstn 4 (flat_map (call_contents (ex_lopts false false CbFull) ex_o ex_lib) (filter call_auto ex_cs_pre)))
  | _ => False
  end.
Proof. vm_compute. repeat split. Qed.

(* ----- C15 ----- *)
Definition ex2_src_bytes : source := {| s_frags := one_byte_frags ex2_file; s_end := None |}.
Definition ex2_src_mixed : source :=
  {| s_frags := [FData (firstn 100 ex2_file); FData []; FDataEOF (skipn 100 ex2_file); FData [x09]];
     s_end := Some EInjected |}.
Definition ex2_src_fail (n : nat) : source :=
  {| s_frags := one_byte_frags (firstn n ex2_file); s_end := Some EInjected |}.

Example ex2_C15_hyps :
  concat_data ex2_src_bytes = ex2_file /\ src_end ex2_src_bytes = None /\
  concat_data ex2_src_mixed = ex2_file /\ src_end ex2_src_mixed = None /\
  (forall n, concat_data (ex2_src_fail n) = firstn n ex2_file /\ src_end (ex2_src_fail n) = Some EInjected) /\
  (forall c a, snd (ds_id c a (Some EInjected)) = Some EInjected) /\
  (forall c a t, exists u, fst (ds_id c (a ++ t) None) = fst (ds_id c a (Some EInjected)) ++ u) /\
  (forall c a e0, (length (fst (ds_id c a e0)) <= length a + 0)%nat).
Proof.
  split; [apply one_byte_frags_data|]. split; [unfold src_end; cbn [ex2_src_bytes s_frags s_end]; rewrite one_byte_frags_end; reflexivity|].
  split; [unfold concat_data; cbn [ex2_src_mixed s_frags frags_data app]; apply firstn_skipn|].
  split; [reflexivity|].
  split; [intro n; split; [apply one_byte_frags_data|unfold src_end; cbn [ex2_src_fail s_frags s_end]; rewrite one_byte_frags_end; reflexivity]|].
  split; [reflexivity|]. split; [intros c a t; exists t; reflexivity|].
  intros c a e0. cbn. lia.
Qed.

Example ex2_C15_err :
  EInjected <> EEOF /\ EInjected <> EUnexpectedEOF /\ EInjected <> ETruncated /\ EInjected <> EInvalidChunkCrc /\
  (300 * (0 + 2) < 1171)%nat.
Proof. repeat split; try discriminate. vm_compute. repeat constructor. Qed.

Example ex2_C15_applies : forall sk,
  lex_all_frags ex_lo ds_id 1171 sk ex2_src_bytes = lex_all ex_lo ds_id 1171 (src_of ex2_file sk) /\
  lex_all_frags ex_lo ds_id 1171 sk ex2_src_mixed = lex_all ex_lo ds_id 1171 (src_of ex2_file sk) /\
  exists st, lex_all_frags ex_lo ds_id 1171 sk ex2_src_mixed
             = Ok (file_events ex_lo ds_id (rev (w_trace (r_final ex2_R))), EEOF, st).
Proof.
  intro sk. destruct ex2_writer_ok as ((Hok & _) & _).
  destruct ex2_C15_hyps as (A1 & A2 & B1 & B2 & _).
  assert (Hf : (fuel_of (file_of ex2_R) ex_cs_pre <= 1171)%nat) by (vm_compute; repeat constructor).
  destruct (C15_closed_fragmentation_thm ex_o ex_lib ex_comp ex_lo ds_id ex_cs_pre sk ex2_src_bytes Hok A1 A2 1171%nat Hf) as (E1 & _).
  destruct (C15_closed_fragmentation_thm ex_o ex_lib ex_comp ex_lo ds_id ex_cs_pre sk ex2_src_mixed Hok B1 B2 1171%nat Hf) as (E2 & E3).
  split; [exact E1|]. split; [exact E2|exact E3].
Qed.

(* computed: the source fails after 300 bytes (one byte per Read): the same events as for the
   truncation at 300, but the read ends with the injected error; failing inside the closing magic,
   after all 25 events: still the injected error, not a clean end *)
Example ex2_C15_fail_300 :
  lex_tags (lex_all_frags (ex_lopts false false CbFull) ds_id 1171 false (ex2_src_fail 300))
    = Some ([Some OpHeader; Some OpSchema; Some OpChannel; Some OpMessage; Some OpMessageIndex; Some OpMessage], EInjected) /\
  lex_tags (lex_all_frags (ex_lopts true false CbFull) ds_id 1171 false (ex2_src_fail 300))
    = Some ([Some OpHeader; Some OpSchema; Some OpChannel; Some OpMessage; Some OpMessageIndex], EInjected) /\
  match lex_all_frags ex_lo ds_id 1171 false (ex2_src_fail 1010), lex_all ex_lo ds_id 1171 (src_of ex2_file false) with
  | Ok (evsF, finF, _), Ok (evsC, finC, _) => evsF = evsC /\ length evsF = 25%nat /\ finF = EInjected /\ finC = EEOF
  | _, _ => False
  end.
Proof. vm_compute. repeat split. Qed.

(* ----- C07 ----- *)
Definition ex2_items : list item := rev (w_trace (r_final ex2_R)).
Definition ex2_k : chunk :=
  match nth 2 ex2_items IMagic with
  | IChunk k => k
  | _ => {| k_start := 0; k_end := 0; k_usize := 0; k_crc := 0; k_comp := []; k_records := [] |}
  end.
Definition ex2_pre : list item := firstn 2 ex2_items.
Definition ex2_post : list item := skipn 3 ex2_items.
(* byte 84 of the 87 payload bytes: the first data byte of message 10 *)
Definition ex2_p1 : bytes := firstn 84 (k_records ex2_k).
Definition ex2_b : byte := nth 84 (k_records ex2_k) x00.
Definition ex2_p2 : bytes := skipn 85 (k_records ex2_k).
Definition ex2_damaged : bytes := chunk_front ex2_pre ex2_k ++ (ex2_p1 ++ xff :: ex2_p2) ++ render ex2_post.

Example ex2_C07_chunk_hyps : forall emit_invalid,
  writer_ok ex_o ex_lib ex_comp (ex_lopts true emit_invalid CbFull) ds_id ex_cs_pre /\
  o_crc ex_o = true /\ o_comp ex_o = [] /\ mem_bytes [] (lo_custom (ex_lopts true emit_invalid CbFull)) = false /\
  rev (w_trace (r_final ex2_R)) = ex2_pre ++ IChunk ex2_k :: ex2_post /\
  crc32 (k_records ex2_k) <> 0 /\
  k_records ex2_k = ex2_p1 ++ ex2_b :: ex2_p2 /\ ex2_b <> xff /\
  length (chunk_front ex2_pre ex2_k) = 76%nat /\ length (k_records ex2_k) = 87%nat.
Proof.
  intro emit_invalid. split; [apply ex2_writer_ok_modes; right; reflexivity|].
  split; [reflexivity|]. split; [reflexivity|]. split; [reflexivity|].
  split; [vm_compute; reflexivity|]. split; [vm_compute; discriminate|].
  split; [vm_compute; reflexivity|]. split; [vm_compute; discriminate|]. vm_compute. split; reflexivity.
Qed.

Example ex2_C07_general_hyps :
  In (IChunk ex2_k) (rev (w_trace (r_final ex2_R))) /\ k_crc ex2_k <> 0 /\
  blen (ex2_p1 ++ xff :: ex2_p2) = blen (k_records ex2_k).
Proof.
  split; [|split; [vm_compute; discriminate|vm_compute; reflexivity]].
  destruct (ex2_C07_chunk_hyps false) as (_ & _ & _ & _ & E & _). rewrite E. apply in_elt.
Qed.

Example ex2_C07_chunk_computed :
  ex2_damaged <> ex2_file /\ length ex2_damaged = length ex2_file /\
  firstn 160 ex2_damaged = firstn 160 ex2_file /\ skipn 161 ex2_damaged = skipn 161 ex2_file /\
  lex_tags (lex_all (ex_lopts true false CbFull) ds_id 1171 (src_of ex2_damaged false))
    = Some ([Some OpHeader], EInvalidChunkCrc) /\
  lex_tags (lex_all (ex_lopts true true CbFull) ds_id 1171 (src_of ex2_damaged false))
    = Some ([Some OpHeader; None; Some OpMessageIndex; Some OpMessage; Some OpMessage; Some OpMessageIndex; None;
             Some OpMetadata; Some OpDataEnd; Some OpSchema; Some OpChannel; Some OpStatistics;
             Some OpChunkIndex; Some OpChunkIndex; Some OpAttachmentIndex; Some OpMetadataIndex;
             Some OpSummaryOffset; Some OpSummaryOffset; Some OpSummaryOffset; Some OpSummaryOffset;
             Some OpSummaryOffset; Some OpSummaryOffset; Some OpFooter], EEOF) /\
  (* without validation the altered message comes back unnoticed *)
  lex_tags (lex_all (ex_lopts false false CbFull) ds_id 1171 (src_of ex2_damaged false))
    = lex_tags (lex_all (ex_lopts false false CbFull) ds_id 1171 (src_of ex2_file false)).
Proof.
  split; [vm_compute; discriminate|]. vm_compute. repeat split.
Qed.

Definition ex2_apre : list item := firstn 6 ex2_items.
Definition ex2_apost : list item := skipn 7 ex2_items.
Definition ex2_adata : bytes := [x0a; x0b; x0c].
Definition ex2_acrc : N := crc32 (enc_attachment_fields WriterFactsB.ex_att ++ ex2_adata).
Definition ex2_att' : attachment :=
  att_with WriterFactsB.ex_att (a_log WriterFactsB.ex_att) (a_create WriterFactsB.ex_att)
    (a_name WriterFactsB.ex_att) (a_media WriterFactsB.ex_att).

Example ex2_C07_attachment_hyps :
  writer_ok ex_o ex_lib ex_comp ex_lo ds_id ex_cs_pre /\ lo_cb ex_lo = CbFull /\ lo_compute_acrc ex_lo = true /\
  rev (w_trace (r_final ex2_R)) = ex2_apre ++ IAttach WriterFactsB.ex_att ex2_adata ex2_acrc :: ex2_apost /\
  att_content_flip WriterFactsB.ex_att ex2_adata ex2_att' [x0a; xff; x0c].
Proof.
  split; [exact (proj1 (proj1 ex2_writer_ok))|]. split; [reflexivity|]. split; [reflexivity|].
  split; [vm_compute; reflexivity|].
  exact (ACF_data WriterFactsB.ex_att ex2_adata [x0a] x0b xff [x0c] eq_refl ltac:(discriminate)).
Qed.

Example ex2_C07_attachment_computed :
  match lex_all ex_lo ds_id 1171
          (src_of (render (ex2_apre ++ IAttach ex2_att' [x0a; xff; x0c] ex2_acrc :: ex2_apost)) false) with
  | Ok (evs, EEOF, _) =>
    length evs = 25%nat /\
    match nth 8 evs EvInvalidChunk with
    | EvAttachment ob => ao_data ob = [x0a; xff; x0c] /\ ao_parsed ob = Ok ex2_acrc /\
                         exists c, ao_computed ob = Ok c /\ c <> ex2_acrc
    | _ => False
    end
  | _ => False
  end.
Proof. vm_compute. split; [reflexivity|]. split; [reflexivity|]. split; [reflexivity|]. eexists. split; [reflexivity|discriminate]. Qed.

(* ----- C11 ----- *)
Lemma decorate_refl lo ds l : decorate lo ds l l.
Proof. induction l; constructor; assumption. Qed.
Lemma decorate_app lo ds l1 l1' l2 l2' :
  decorate lo ds l1 l1' -> decorate lo ds l2 l2' -> decorate lo ds (l1 ++ l2) (l1' ++ l2').
Proof. induction 1; intro Hx; cbn [app]; [exact Hx| | |]; constructor; auto. Qed.

(* unknown records before the header, after the first chunk and after the footer *)
Definition ex2_recs : list item := middle ex2_items.
Definition ex2_recs_dec : list item :=
  (IRec x81 [x00; x01] :: firstn 2 ex2_recs) ++ (IRec x82 [] :: skipn 2 ex2_recs) ++ [IRec xfe [xde; xad]].
Definition ex2_items_dec : list item := [IMagic] ++ ex2_recs_dec ++ [IMagic].

Example ex2_C11_hyps : forall validate cb, cb = CbNone \/ cb = CbFull ->
  let lo := ex_lopts validate false cb in
  writer_ok ex_o ex_lib ex_comp lo ds_id ex_cs_pre /\ content_ok ex_o ex_lib lo ex_cs_pre /\
  decorate_file lo ds_id (rev (w_trace (r_final ex2_R))) ex2_items_dec /\
  (fuel_of (file_of ex2_R) ex_cs_pre <= 1171)%nat /\ (file_steps lo ds_id ex2_items_dec + 1 <= 1171)%nat /\
  length (render ex2_items_dec) = (length ex2_file + 11 + 9 + 11)%nat.
Proof.
  intros validate cb Hcb lo. destruct (ex2_writer_ok_modes validate false cb Hcb) as [H1 H2].
  split; [exact H1|]. split; [exact H2|]. split.
  - exists ex2_recs, ex2_recs_dec. split; [vm_compute; reflexivity|]. split; [reflexivity|].
    unfold ex2_recs_dec.
    assert (G : forall x y, decorate lo ds_id (x ++ y ++ [])
                ((IRec x81 [x00; x01] :: x) ++ (IRec x82 [] :: y) ++ [IRec xfe [xde; xad]])).
    { intros x y. apply decorate_app; [|apply decorate_app].
      + apply D_ins; [reflexivity| |apply decorate_refl].
        unfold plain_rec_ok. cbn [fst snd]. repeat split; try discriminate; vm_compute; reflexivity.
      + apply D_ins; [reflexivity| |apply decorate_refl].
        unfold plain_rec_ok. cbn [fst snd]. repeat split; try discriminate; vm_compute; reflexivity.
      + apply D_ins; [reflexivity| |constructor].
        unfold plain_rec_ok. cbn [fst snd]. repeat split; try discriminate; vm_compute; reflexivity. }
    specialize (G (firstn 2 ex2_recs) (skipn 2 ex2_recs)). rewrite app_nil_r, firstn_skipn in G. exact G.
  - split; [vm_compute; repeat constructor|]. split; [|vm_compute; reflexivity].
    apply Nat.leb_le. subst lo. destruct validate; destruct Hcb as [-> | ->]; vm_compute; reflexivity.
Qed.

Example ex2_C11_computed :
  match lex_all ex_lo ds_id 1171 (src_of ex2_file false),
        lex_all ex_lo ds_id 1171 (src_of (render ex2_items_dec) false) with
  | Ok (evs, EEOF, _), Ok (evs', EEOF, _) => evs = evs' /\ length evs = 25%nat
  | _, _ => False
  end.
Proof. vm_compute. split; reflexivity. Qed.

(* ----- C12 ----- *)
Example ex2_C12_hyps :
  writer_ok ex_o ex_lib ex_comp ex_lo ds_z ex_cs_pre /\ writer_ok ex_o_z ex_lib comp_z ex_lo ds_z ex_cs_pre /\
  writer_ok ex_o_u ex_lib ex_comp ex_lo ds_z ex_cs_pre /\ writer_ok ex_o_big ex_lib ex_comp ex_lo ds_z ex_cs_pre /\
  Forall call_small ex_cs_pre /\ lo_emit_chunks ex_lo = false /\
  o_override_lib ex_o = o_override_lib ex_o_z /\ o_override_lib ex_o = o_override_lib ex_o_u /\
  o_override_lib ex_o = o_override_lib ex_o_big.
Proof.
  destruct ex2_writer_ok as (_ & (Hz & _) & (Hu & _) & (Hb & _)).
  split; [exact ex2_writer_ok_n|]. split; [exact Hz|]. split; [exact Hu|]. split; [exact Hb|].
  split; [exact ex_call_small|]. repeat split.
Qed.

(* computed: the chunked+"compressed", the unchunked and the one-big-chunk file against the first
   one; the files differ, the per-class events do not *)
Definition ex2_run (o : wopts) (comp : nat -> bytes -> bytes) : outcome (list event * err * lstate) :=
  let f := file_of (W o ex_lib comp None (ex_cs_pre ++ [CClose])) in
  lex_all ex_lo ds_z (fuel_of f ex_cs_pre) (src_of f false).
Definition same_classes (r1 r2 : outcome (list event * err * lstate)) : Prop :=
  match r1, r2 with
  | Ok (evs1, EEOF, _), Ok (evs2, EEOF, _) =>
    filter ev_direct (data_events evs1) = filter ev_direct (data_events evs2) /\
    filter ev_auto (data_events evs1) = filter ev_auto (data_events evs2) /\
    length (filter ev_direct (data_events evs1)) = 3%nat /\ length (filter ev_auto (data_events evs1)) = 5%nat
  | _, _ => False
  end.
Example ex2_C12_computed :
  same_classes (ex2_run ex_o ex_comp) (ex2_run ex_o_z comp_z) /\
  same_classes (ex2_run ex_o ex_comp) (ex2_run ex_o_u ex_comp) /\
  same_classes (ex2_run ex_o ex_comp) (ex2_run ex_o_big ex_comp) /\
  file_of (W ex_o ex_lib ex_comp None (ex_cs_pre ++ [CClose])) <> file_of (W ex_o_big ex_lib ex_comp None (ex_cs_pre ++ [CClose])).
Proof. split; [|split; [|split]]; vm_compute; try (repeat split; reflexivity). discriminate. Qed.
