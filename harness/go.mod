module verifharness

go 1.21

require (
	github.com/foxglove/mcap/go/mcap v0.4.0
	github.com/foxglove/mcap/go/ros v0.0.0
	github.com/klauspost/compress v1.16.7
	github.com/mattn/go-sqlite3 v1.14.14
	github.com/pierrec/lz4/v4 v4.1.22
)

require (
	github.com/davecgh/go-spew v1.1.1 // indirect
	github.com/pmezard/go-difflib v1.0.0 // indirect
	github.com/stretchr/testify v1.9.0 // indirect
	gopkg.in/yaml.v3 v3.0.1 // indirect
)

replace github.com/foxglove/mcap/go/mcap => /repo/go/mcap

replace github.com/foxglove/mcap/go/ros => /repo/go/ros
