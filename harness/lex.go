package main

import (
	"bytes"
	"fmt"
	"io"
	"math/rand"
	"strings"

	"github.com/foxglove/mcap/go/mcap"
	"github.com/klauspost/compress/zstd"
	"github.com/pierrec/lz4/v4"
)

// srcReader is the configurable source: fragmentation of reads, an injected error at a byte
// position, optional data+EOF delivery, optional Seek support.
type srcReader struct {
	data    []byte
	pos     int
	fail    int // -1: none; otherwise reads at/after this position fail with errInjected
	frag    string
	rnd     *rand.Rand
	halving int
	mode    string // "" sticky: every read at/after fail errors; "once": one error, then the data continues; "theneof": one error, then io.EOF
	fired   bool
}

func (r *srcReader) limit() int {
	if r.fired && r.mode == "once" {
		return len(r.data)
	}
	if r.fail >= 0 && r.fail < len(r.data) {
		return r.fail
	}
	return len(r.data)
}

func (r *srcReader) Read(p []byte) (int, error) {
	if len(p) == 0 {
		return 0, nil
	}
	if r.fired && r.mode == "theneof" {
		return 0, io.EOF
	}
	lim := r.limit()
	if r.pos >= lim {
		if r.fail >= 0 && r.fail <= len(r.data) && r.pos >= r.fail && !(r.fired && r.mode == "once") {
			r.fired = true
			return 0, errInjected
		}
		return 0, io.EOF
	}
	n := len(p)
	switch {
	case r.frag == "one":
		n = 1
	case r.frag == "halving":
		if r.halving <= 1 {
			r.halving = 64
		}
		n = r.halving
		r.halving /= 2
	case strings.HasPrefix(r.frag, "rand"):
		n = 1 + r.rnd.Intn(17)
	}
	if n > len(p) {
		n = len(p)
	}
	if n > lim-r.pos {
		n = lim - r.pos
	}
	copy(p, r.data[r.pos:r.pos+n])
	r.pos += n
	if r.frag == "dataeof" && r.pos >= lim && !(r.fail >= 0 && r.fail <= len(r.data)) {
		return n, io.EOF
	}
	return n, nil
}

type srcSeeker struct{ *srcReader }

func (r srcSeeker) Seek(off int64, whence int) (int64, error) {
	var abs int64
	switch whence {
	case io.SeekStart:
		abs = off
	case io.SeekCurrent:
		abs = int64(r.pos) + off
	case io.SeekEnd:
		abs = int64(len(r.data)) + off
	}
	if abs < 0 {
		return 0, fmt.Errorf("negative position")
	}
	r.pos = int(abs)
	return abs, nil
}

func makeSource(m map[string]string, data []byte) io.Reader {
	fail := int(i64(def(m, "fail", "-1")))
	frag := def(m, "frag", "all")
	seek := m["seek"] == "1"
	if fail < 0 && frag == "all" {
		if seek {
			return bytes.NewReader(data)
		}
		return struct{ io.Reader }{bytes.NewReader(data)}
	}
	sr := &srcReader{data: data, fail: fail, frag: frag, mode: def(m, "failmode", ""), rnd: rand.New(rand.NewSource(int64(len(data))*31 + 7))}
	if seek {
		return srcSeeker{sr}
	}
	return sr
}

func def(m map[string]string, k, d string) string {
	if v, ok := m[k]; ok {
		return v
	}
	return d
}

// afterFirstError is set while the lexer harness keeps calling Next after the first error of a case.
var afterFirstError bool

func parseLopts(m map[string]string) *mcap.LexerOptions {
	b := func(k string) bool { return m[k] == "1" }
	lo := &mcap.LexerOptions{
		SkipMagic:                b("skipmagic"),
		ValidateChunkCRCs:        b("validate"),
		ComputeAttachmentCRCs:    b("acrc"),
		EmitChunks:               b("emitchunks"),
		EmitInvalidChunks:        b("emitinvalid"),
		MaxRecordSize:            int(i64(def(m, "maxrecord", "0"))),
		MaxDecompressedChunkSize: int(i64(def(m, "maxchunk", "0"))),
	}
	if b("custom") {
		lo.Decompressors = map[mcap.CompressionFormat]mcap.ResettableReader{"xor": &xorReader{}}
	}
	cb := def(m, "cb", "none")
	switch {
	case cb == "none":
	case cb == "fail":
		lo.AttachmentCallback = func(*mcap.AttachmentReader) error { return errCallback }
	default:
		limit := int64(-1)
		if strings.HasPrefix(cb, "partial:") {
			limit = i64(cb[8:])
		}
		lo.AttachmentCallback = func(ar *mcap.AttachmentReader) error {
			var data []byte
			var err error
			if limit >= 0 {
				data, err = io.ReadAll(io.LimitReader(ar.Data(), limit))
			} else {
				data, err = io.ReadAll(ar.Data())
			}
			var comp, parsed uint32
			var cerr, perr error
			if cb == "fullrev" {
				// the other legal call order: stored CRC first, computed CRC second
				parsed, perr = ar.ParsedCRC()
				comp, cerr = ar.ComputedCRC()
			} else {
				comp, cerr = ar.ComputedCRC()
				parsed, perr = ar.ParsedCRC()
			}
			cs, ps := fmt.Sprint(comp), fmt.Sprint(parsed)
			if cerr != nil {
				cs = "err:" + classify(cerr)
			}
			if perr != nil {
				ps = "err:" + classify(perr)
			}
			kind := "att"
			if afterFirstError {
				kind = "after att" // informational, like the other lines printed after the first error
			}
			fmt.Fprintf(out, "%s %d %d %s %s %d %s %s %s %s\n", kind, ar.LogTime, ar.CreateTime, hx([]byte(ar.Name)), hx([]byte(ar.MediaType)),
				ar.DataSize, hx(data), res(err), cs, ps)
			return nil
		}
	}
	return lo
}

func opName(t mcap.TokenType) int {
	switch t {
	case mcap.TokenHeader:
		return 1
	case mcap.TokenFooter:
		return 2
	case mcap.TokenSchema:
		return 3
	case mcap.TokenChannel:
		return 4
	case mcap.TokenMessage:
		return 5
	case mcap.TokenChunk:
		return 6
	case mcap.TokenMessageIndex:
		return 7
	case mcap.TokenChunkIndex:
		return 8
	case mcap.TokenAttachmentIndex:
		return 10
	case mcap.TokenStatistics:
		return 11
	case mcap.TokenMetadata:
		return 12
	case mcap.TokenMetadataIndex:
		return 13
	case mcap.TokenSummaryOffset:
		return 14
	case mcap.TokenDataEnd:
		return 15
	}
	return -1
}

func runLex(lines []string) {
	var lo *mcap.LexerOptions
	var srcm map[string]string
	var data []byte
	reuse := false
	for _, line := range lines {
		f := strings.Fields(line)
		switch f[0] {
		case "lopts":
			m := opt(f[1:])
			lo = parseLopts(m)
			reuse = m["reuse"] == "1"
		case "src":
			srcm = opt(f[1:])
		case "file":
			data = unhx(f[1])
		}
	}
	defer func() {
		if p := recover(); p != nil {
			fmt.Fprintf(out, "panic %s\n", strings.ReplaceAll(fmt.Sprint(p), "\n", " "))
		}
	}()
	lexer, err := mcap.NewLexer(makeSource(srcm, data), lo)
	fmt.Fprintln(out, "new", res(err))
	if err != nil {
		return
	}
	defer lexer.Close()
	var buf []byte
	if reuse {
		buf = make([]byte, 64)
	}
	type snap struct {
		t mcap.TokenType
		b []byte
	}
	for i := 0; i < 1000000; i++ {
		t, rec, err := lexer.Next(buf)
		if t == mcap.TokenInvalidChunk {
			fmt.Fprintln(out, "invalidchunk")
			continue
		}
		if err != nil || t == mcap.TokenError {
			fmt.Fprintln(out, "endtok", res(err))
			// a consumer may call Next again after an error (the object is still usable by its type): whatever
			// comes back must come back as a return value. Only done when a record size limit bounds what the
			// lexer may allocate for the garbage it may now be looking at; the lines are informational (the
			// model's run ends at the first error), a panic is not.
			if lo != nil && lo.MaxRecordSize > 0 && lo.MaxDecompressedChunkSize > 0 {
				afterFirstError = true
				defer func() { afterFirstError = false }()
				for k := 0; k < 3; k++ {
					t2, _, err2 := lexer.Next(buf)
					fmt.Fprintf(out, "after %d %d %s\n", k, opName(t2), res(err2))
				}
			}
			return
		}
		fmt.Fprintf(out, "tok %d %s\n", opName(t), hx(rec))
	}
	fmt.Fprintln(out, "endtok runaway")
}

// runDecomp answers oracle queries: what does the real decoder deliver for this input stream.
func runDecomp(lines []string) {
	for _, line := range lines {
		f := strings.Fields(line)
		if f[0] == "dall" {
			comp := string(unhx(f[1]))
			payload := unhx(f[2])
			usize := u64(f[3])
			plain, ok := directDecodeAll(comp, payload, usize)
			if ok {
				fmt.Fprintf(out, "dall %s %s %s ok %s\n", f[1], f[2], f[3], hx(plain))
			} else {
				fmt.Fprintf(out, "dall %s %s %s err -\n", f[1], f[2], f[3])
			}
			continue
		}
		if f[0] != "dec" {
			continue
		}
		comp := string(unhx(f[1]))
		avail := unhx(f[2])
		plain, end := directDecompressStream(comp, avail, f[3])
		fmt.Fprintf(out, "dec %s %s %s %s %s\n", f[1], f[2], f[3], hx(plain), end)
	}
}

type tailReader struct {
	r    io.Reader
	tail string
}

func (t *tailReader) Read(p []byte) (int, error) {
	n, err := t.r.Read(p)
	if err == io.EOF && t.tail != "eof" {
		if n > 0 {
			return n, nil
		}
		if t.tail == "injected" {
			return 0, errInjected
		}
		if t.tail == "unexpectedeof" {
			return 0, io.ErrUnexpectedEOF
		}
		return 0, fmt.Errorf("verif: other source error")
	}
	return n, err
}

// directDecodeAll mirrors what a whole-buffer decode delivers: zstd DecodeAll; lz4 ReadFull of usize bytes.
func directDecodeAll(comp string, payload []byte, usize uint64) ([]byte, bool) {
	switch comp {
	case "zstd":
		d, err := zstd.NewReader(nil)
		if err != nil {
			return nil, false
		}
		defer d.Close()
		outb, err := d.DecodeAll(payload, nil)
		if err != nil {
			return nil, false
		}
		return outb, true
	case "lz4":
		if usize > 1<<28 {
			return nil, false
		}
		buf := make([]byte, usize)
		_, err := io.ReadFull(lz4.NewReader(bytes.NewReader(payload)), buf)
		if err != nil {
			return nil, false
		}
		return buf, true
	}
	return nil, false
}
