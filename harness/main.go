// Command impl executes workload scripts on the real foxglove/mcap Go library and prints
// canonical observation lines; the extracted Coq model prints the same lines for the same
// scripts and tools/ compares them.
package main

import (
	"bufio"
	"encoding/hex"
	"errors"
	"fmt"
	"io"
	"os"
	"strconv"
	"strings"

	"github.com/foxglove/mcap/go/mcap"
)

var errInjected = errors.New("verif: injected fault")
var errCallback = errors.New("verif: callback error")

var out *bufio.Writer

func fatal(msg string) {
	out.Flush()
	fmt.Fprintln(os.Stderr, "harness fatal:", msg)
	os.Exit(3)
}

func hx(b []byte) string {
	if len(b) == 0 {
		return "-"
	}
	return hex.EncodeToString(b)
}

func unhx(s string) []byte {
	if s == "-" || s == "" {
		return []byte{}
	}
	b, err := hex.DecodeString(s)
	if err != nil {
		fatal("bad hex in script: " + s)
	}
	return b
}

func u64(s string) uint64 {
	v, err := strconv.ParseUint(s, 10, 64)
	if err != nil {
		fatal("bad uint in script: " + s)
	}
	return v
}

func i64(s string) int64 {
	v, err := strconv.ParseInt(s, 10, 64)
	if err != nil {
		fatal("bad int in script: " + s)
	}
	return v
}

func kvs(s string) map[string]string {
	m := map[string]string{}
	if s == "-" {
		return m
	}
	for _, kv := range strings.Split(s, ",") {
		p := strings.SplitN(kv, ":", 2)
		m[string(unhx(p[0]))] = string(unhx(p[1]))
	}
	return m
}

func opt(fields []string) map[string]string {
	m := map[string]string{}
	for _, f := range fields {
		p := strings.SplitN(f, "=", 2)
		if len(p) == 2 {
			m[p[0]] = p[1]
		}
	}
	return m
}

// classify maps a Go error to the small enum shared with the model (GoSem.err).
func classify(err error) string {
	if err == nil {
		return "ok"
	}
	var tr *mcap.ErrTruncatedRecord
	var bm *mcap.ErrBadMagic
	var ut *mcap.ErrUnexpectedToken
	switch {
	case errors.Is(err, errInjected):
		return "injected"
	case errors.Is(err, errCallback):
		return "callback"
	case errors.As(err, &tr):
		return "truncated"
	case errors.As(err, &bm):
		return "badmagic"
	case errors.Is(err, mcap.ErrRecordTooLarge):
		return "recordtoolarge"
	case errors.Is(err, mcap.ErrChunkTooLarge):
		return "chunktoolarge"
	case errors.Is(err, mcap.ErrNestedChunk):
		return "nestedchunk"
	case errors.Is(err, mcap.ErrInvalidZeroOpcode):
		return "zeroopcode"
	case errors.Is(err, mcap.ErrLengthOutOfRange):
		return "lengthoutofrange"
	case errors.Is(err, mcap.ErrBadOffset):
		return "badoffset"
	case errors.Is(err, mcap.ErrUnknownSchema):
		return "unknownschema"
	case errors.Is(err, mcap.ErrAttachmentDataSizeIncorrect):
		return "attachmentsize"
	case errors.Is(err, mcap.ErrMetadataNotFound):
		return "metadatanotfound"
	case strings.Contains(err.Error(), "invalid chunk CRC"):
		return "invalidchunkcrc"
	case errors.As(err, &ut):
		return "unexpectedtoken"
	case errors.Is(err, io.ErrShortBuffer):
		return "shortbuffer"
	case errors.Is(err, io.ErrUnexpectedEOF):
		return "unexpectedeof"
	case errors.Is(err, io.EOF):
		return "eof"
	}
	return "other"
}

func res(err error) string {
	if err == nil {
		return "ok"
	}
	return "err:" + classify(err)
}

// readCases splits the script into cases ("case <id>" ... "end").
func readCases(path string) [][]string {
	f, err := os.Open(path)
	if err != nil {
		panic(err)
	}
	defer f.Close()
	sc := bufio.NewScanner(f)
	sc.Buffer(make([]byte, 1<<20), 1<<30)
	var cases [][]string
	var cur []string
	for sc.Scan() {
		line := sc.Text()
		if line == "" {
			continue
		}
		if strings.HasPrefix(line, "case ") {
			cur = []string{line}
			continue
		}
		if line == "end" {
			cases = append(cases, cur)
			cur = nil
			continue
		}
		cur = append(cur, line)
	}
	return cases
}

func main() {
	if len(os.Args) < 3 {
		fmt.Fprintln(os.Stderr, "usage: impl <mode> <script>")
		os.Exit(2)
	}
	out = bufio.NewWriterSize(os.Stdout, 1<<20)
	defer out.Flush()
	mode := os.Args[1]
	cases := readCases(os.Args[2])
	if mode == "writeconc" {
		runWriteConc(cases)
		return
	}
	for _, c := range cases {
		fmt.Fprintln(out, c[0])
		out.Flush()
		alloc := allocDelta(func() {
			switch mode {
			case "write":
				runWrite(c[1:])
			default:
				if !dispatchMore(mode, c[1:]) {
					fmt.Fprintln(os.Stderr, "unknown mode", mode)
					os.Exit(2)
				}
			}
		})
		if os.Getenv("VERIF_ALLOC") == "1" {
			fmt.Fprintf(out, "allocated %d\n", alloc)
		}
		fmt.Fprintln(out, "end")
		out.Flush()
	}
}
