package main

func dispatchMore(mode string, lines []string) bool {
	switch mode {
	case "db3":
		runDB3(lines)
		return true
	case "bag":
		runBag(lines)
		return true
	case "compress":
		runCompress(lines)
		return true
	case "ros1msg":
		runRos1Msg(lines)
		return true
	case "parse":
		runParse(lines)
		return true
	case "read":
		runRead(lines)
		return true
	case "lex":
		runLex(lines)
		return true
	case "decomp":
		runDecomp(lines)
		return true
	case "schemas":
		runSchemas(lines)
		return true
	case "attmem":
		runAttMem(lines)
		runSeqMem(lines)
		return true
	case "writerep":
		runWriteRep(lines)
		return true
	}
	return false
}
