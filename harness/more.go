package main

func dispatchMore(mode string, lines []string) bool {
	switch mode {
	case "writerep":
		runWriteRep(lines)
		return true
	}
	return false
}
