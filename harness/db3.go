package main

import (
	"database/sql"
	"fmt"
	"sort"
	"strings"

	"github.com/foxglove/mcap/go/mcap"
	"github.com/foxglove/mcap/go/ros"
	_ "github.com/mattn/go-sqlite3"
)

// runDB3: convert a SQLite database with ros.DB3ToMCAP. Before converting, the harness logs the rows of the
// two queries the converter issues (in the order the engine returns them) and the assembled schemas: these
// are the inputs of the model.
func runDB3(lines []string) {
	var o *mcap.WriterOptions
	var dbpath, dir string
	for _, line := range lines {
		f := strings.Fields(line)
		switch f[0] {
		case "wopts":
			o = parseWopts(opt(f[1:]))
		case "db":
			dbpath = f[1]
		case "dir":
			dir = f[1]
		}
	}
	db, err := sql.Open("sqlite3", "file:"+dbpath+"?mode=ro")
	if err != nil {
		fmt.Fprintln(out, "db3 openerr")
		return
	}
	defer db.Close()
	hasQos := false
	var cnt int
	if err := db.QueryRow(`select count(*) from pragma_table_info('topics') where name = 'offered_qos_profiles'`).Scan(&cnt); err == nil && cnt > 0 {
		hasQos = true
	}
	q := `select id, name, type, serialization_format from topics`
	if hasQos {
		q = `select id, name, type, serialization_format, offered_qos_profiles from topics`
	}
	types := []string{}
	if rows, err := db.Query(q); err == nil {
		for rows.Next() {
			var id int64
			var name, typ, sf string
			var qos *string
			if hasQos {
				err = rows.Scan(&id, &name, &typ, &sf, &qos)
			} else {
				err = rows.Scan(&id, &name, &typ, &sf)
			}
			if err != nil {
				fmt.Fprintln(out, "topicrow scanerr")
				continue
			}
			qs := "NULL"
			if qos != nil {
				qs = "V" + hx([]byte(*qos))
			}
			fmt.Fprintf(out, "topicrow %d %s %s %s %s\n", id, hx([]byte(name)), hx([]byte(typ)), hx([]byte(sf)), qs)
			types = append(types, typ)
		}
		rows.Close()
	}
	if rows, err := db.Query(`select messages.topic_id, messages.timestamp, messages.data from messages inner join topics on messages.topic_id = topics.id order by messages.timestamp asc`); err == nil {
		for rows.Next() {
			var tid, ts int64
			var data []byte
			if err := rows.Scan(&tid, &ts, &data); err != nil {
				fmt.Fprintln(out, "msgrow scanerr")
				continue
			}
			fmt.Fprintf(out, "msgrow %d %d %s\n", tid, ts, hx(data))
		}
		rows.Close()
	}
	// schema assembly for the message-typed topics, as the converter does it
	mt := []string{}
	for _, t := range types {
		if isMessageType(t) {
			mt = append(mt, t)
		}
	}
	schemas, serr := ros.VerifGetSchemas([]string{dir}, mt)
	if serr != nil {
		fmt.Fprintln(out, "schemas err")
	} else {
		keys := []string{}
		for k := range schemas {
			keys = append(keys, k)
		}
		sort.Strings(keys)
		for _, k := range keys {
			fmt.Fprintf(out, "schema %s %s\n", hx([]byte(k)), hx(schemas[k]))
		}
		fmt.Fprintln(out, "schemas ok")
	}
	s := &sink{}
	func() {
		defer func() {
			if p := recover(); p != nil {
				fmt.Fprintf(out, "db3 panic %s\n", strings.ReplaceAll(fmt.Sprint(p), "\n", " "))
			}
		}()
		err := ros.DB3ToMCAP(s, db, o, []string{dir})
		fmt.Fprintln(out, "db3", res(err))
	}()
	var file []byte
	for _, p := range s.writes {
		fmt.Fprintln(out, "write", hx(p))
		file = append(file, p...)
	}
	for _, c := range walkChunks(file) {
		plain, end := directDecompress(c.comp, c.payload)
		fmt.Fprintln(out, "chunk", hx([]byte(c.comp)), hx(plain), hx(c.payload), end)
	}
}

func isMessageType(s string) bool {
	for i := 0; i < len(s); i++ {
		c := s[i]
		w := c == '_' || (c >= '0' && c <= '9') || (c >= 'a' && c <= 'z') || (c >= 'A' && c <= 'Z')
		if w && strings.HasPrefix(s[i+1:], "/msg/") {
			return true
		}
	}
	return false
}
