package main

import (
	"bytes"
	"compress/bzip2"
	"crypto/sha256"
	"encoding/binary"
	"encoding/hex"
	"fmt"
	"io"
	"os"
	"sort"
	"strings"
	"sync"

	"github.com/foxglove/mcap/go/mcap"
	"github.com/klauspost/compress/zstd"
	"github.com/pierrec/lz4/v4"
)

type faultSpec struct {
	k     int
	short bool
	perm  bool
}

type sink struct {
	writes [][]byte
	n      int
	fault  *faultSpec
	failed bool
}

func (s *sink) Write(p []byte) (int, error) {
	k := s.n
	s.n++
	if s.fault != nil && (k == s.fault.k || (s.fault.perm && s.failed)) {
		acc := 0
		if s.fault.short && k == s.fault.k {
			acc = len(p) / 2
		}
		s.writes = append(s.writes, append([]byte{}, p[:acc]...))
		s.failed = true
		return acc, errInjected
	}
	s.writes = append(s.writes, append([]byte{}, p...))
	return len(p), nil
}

// fragReader delivers the given fragments one Read at a time, then EOF or errInjected.
// It deliberately does not implement io.WriterTo.
type fragReader struct {
	frags [][]byte
	fail  bool
}

func (r *fragReader) Read(p []byte) (int, error) {
	for len(r.frags) > 0 && len(r.frags[0]) == 0 {
		r.frags = r.frags[1:]
	}
	if len(r.frags) == 0 {
		if r.fail {
			return 0, errInjected
		}
		return 0, io.EOF
	}
	n := copy(p, r.frags[0])
	r.frags[0] = r.frags[0][n:]
	return n, nil
}

// xorCodec is the caller-supplied compressor/decompressor pair (format "xor").
type xorWriter struct{ w io.Writer }

func (x *xorWriter) Write(p []byte) (int, error) {
	q := make([]byte, len(p))
	for i, b := range p {
		q[i] = b ^ 0x5a
	}
	return x.w.Write(q)
}
func (x *xorWriter) Close() error      { return nil }
func (x *xorWriter) Reset(w io.Writer) { x.w = w }

type xorReader struct{ r io.Reader }

func (x *xorReader) Read(p []byte) (int, error) {
	n, err := x.r.Read(p)
	for i := 0; i < n; i++ {
		p[i] ^= 0x5a
	}
	return n, err
}
func (x *xorReader) Reset(r io.Reader) error { x.r = r; return nil }

func parseWopts(m map[string]string) *mcap.WriterOptions {
	b := func(k string) bool { return m[k] == "1" }
	o := &mcap.WriterOptions{
		IncludeCRC:               b("crc"),
		Chunked:                  b("chunked"),
		ChunkSize:                i64(m["chunksize"]),
		SkipMessageIndexing:      b("skipmi"),
		SkipStatistics:           b("skipstats"),
		SkipRepeatedSchemas:      b("skiprsh"),
		SkipRepeatedChannelInfos: b("skiprch"),
		SkipAttachmentIndex:      b("skipai"),
		SkipMetadataIndex:        b("skipmdi"),
		SkipChunkIndex:           b("skipci"),
		SkipSummaryOffsets:       b("skipso"),
		OverrideLibrary:          b("overridelib"),
		SkipMagic:                b("skipmagic"),
		CompressionLevel:         mcap.CompressionLevel(i64(m["level"])),
	}
	comp := m["comp"]
	if comp == "-" {
		comp = ""
	}
	if b("custom") {
		o.Compressor = mcap.NewCustomCompressor(mcap.CompressionFormat(comp), &xorWriter{})
	} else {
		o.Compression = mcap.CompressionFormat(comp)
	}
	return o
}

// directDecompress calls the codec libraries directly (never through go/mcap).
// It returns the bytes delivered before the stream ended and how it ended.
func directDecompress(format string, payload []byte) ([]byte, string) {
	return directDecompressStream(format, payload, "eof")
}

func directDecompressStream(format string, payload []byte, tail string) ([]byte, string) {
	var r io.Reader
	var in io.Reader = &tailReader{r: bytes.NewReader(payload), tail: tail}
	switch format {
	case "":
		r = in
	case "zstd":
		d, err := zstd.NewReader(in)
		if err != nil {
			return nil, "other"
		}
		defer d.Close()
		r = d
	case "lz4":
		r = lz4.NewReader(in)
	case "xor":
		r = &xorReader{r: in}
	case "bz2":
		r = bzip2.NewReader(in)
	default:
		return nil, "unsupported"
	}
	var outb []byte
	buf := make([]byte, 4096)
	for {
		n, err := r.Read(buf)
		outb = append(outb, buf[:n]...)
		if err != nil {
			return outb, classify(err)
		}
	}
}

// walkChunks is the harness' own framing walker: it finds top-level chunk records in a
// byte string and returns (compression, payload, uncompressed size) for each.
type rawChunk struct {
	comp    string
	payload []byte
	usize   uint64
}

func walkChunks(file []byte) []rawChunk {
	var res []rawChunk
	pos := 0
	if len(file) >= 8 && bytes.Equal(file[:8], mcap.Magic) {
		pos = 8
	}
	for pos+9 <= len(file) {
		op := file[pos]
		l := binary.LittleEndian.Uint64(file[pos+1 : pos+9])
		if l > uint64(len(file)-pos-9) {
			break
		}
		body := file[pos+9 : pos+9+int(l)]
		if op == 0x06 && len(body) >= 32 {
			cl := binary.LittleEndian.Uint32(body[28:32])
			if uint64(len(body)) >= 32+uint64(cl)+8 {
				comp := string(body[32 : 32+cl])
				rl := binary.LittleEndian.Uint64(body[32+cl : 32+cl+8])
				rest := body[32+cl+8:]
				if rl <= uint64(len(rest)) {
					res = append(res, rawChunk{comp, rest[:rl], binary.LittleEndian.Uint64(body[16:24])})
				}
			}
		}
		pos += 9 + int(l)
	}
	return res
}

func statsLine(s *mcap.Statistics) string {
	keys := make([]int, 0)
	for k := range s.ChannelMessageCounts {
		keys = append(keys, int(k))
	}
	sort.Ints(keys)
	parts := []string{}
	for _, k := range keys {
		parts = append(parts, fmt.Sprintf("%d:%d", k, s.ChannelMessageCounts[uint16(k)]))
	}
	cs := strings.Join(parts, ",")
	if cs == "" {
		cs = "-"
	}
	return fmt.Sprintf("%d %d %d %d %d %d %d %d %s", s.MessageCount, s.SchemaCount, s.ChannelCount,
		s.AttachmentCount, s.MetadataCount, s.ChunkCount, s.MessageStartTime, s.MessageEndTime, cs)
}

func safeCall(f func() error) (r string) {
	defer func() {
		if p := recover(); p != nil {
			r = "panic"
			fmt.Fprintf(os.Stderr, "panic: %v\n", p)
		}
	}()
	return res(f())
}

func runWrite(lines []string) {
	var o *mcap.WriterOptions
	var flt *faultSpec
	var w *mcap.Writer
	s := &sink{}
	ncall := 0
	start := func() bool {
		if w != nil {
			return true
		}
		s.fault = flt
		var err error
		r := safeCall(func() error { w, err = mcap.NewWriter(s, o); return err })
		fmt.Fprintln(out, "new", r)
		return r == "ok"
	}
	dead := false
	for _, line := range lines {
		f := strings.Fields(line)
		switch f[0] {
		case "wopts":
			o = parseWopts(opt(f[1:]))
			continue
		case "fault":
			if f[1] != "none" {
				flt = &faultSpec{k: int(i64(f[1])), short: f[2] == "short", perm: f[3] == "perm"}
			}
			continue
		case "comp", "lib":
			continue
		}
		if dead {
			continue
		}
		if !start() {
			dead = true
			continue
		}
		var r string
		switch f[0] {
		case "H":
			r = safeCall(func() error {
				return w.WriteHeader(&mcap.Header{Profile: string(unhx(f[1])), Library: string(unhx(f[2]))})
			})
		case "S":
			r = safeCall(func() error {
				return w.WriteSchema(&mcap.Schema{ID: uint16(u64(f[1])), Name: string(unhx(f[2])), Encoding: string(unhx(f[3])), Data: unhx(f[4])})
			})
		case "C":
			r = safeCall(func() error {
				return w.WriteChannel(&mcap.Channel{ID: uint16(u64(f[1])), SchemaID: uint16(u64(f[2])), Topic: string(unhx(f[3])), MessageEncoding: string(unhx(f[4])), Metadata: kvs(f[5])})
			})
		case "M":
			r = safeCall(func() error {
				return w.WriteMessage(&mcap.Message{ChannelID: uint16(u64(f[1])), Sequence: uint32(u64(f[2])), LogTime: u64(f[3]), PublishTime: u64(f[4]), Data: unhx(f[5])})
			})
		case "A":
			var frags [][]byte
			if f[7] != "-" {
				for _, h := range strings.Split(f[7], ",") {
					frags = append(frags, unhx(h))
				}
			}
			r = safeCall(func() error {
				return w.WriteAttachment(&mcap.Attachment{LogTime: u64(f[1]), CreateTime: u64(f[2]), Name: string(unhx(f[3])), MediaType: string(unhx(f[4])), DataSize: u64(f[5]), Data: &fragReader{frags: frags, fail: f[6] == "1"}})
			})
		case "D":
			r = safeCall(func() error {
				return w.WriteMetadata(&mcap.Metadata{Name: string(unhx(f[1])), Metadata: kvs(f[2])})
			})
		case "X":
			r = safeCall(func() error { return w.Close() })
		default:
			fatal("bad script line: " + line)
		}
		fmt.Fprintf(out, "call %d %s %d\n", ncall, r, s.n)
		ncall++
	}
	if w == nil && !dead {
		start()
	}
	var file []byte
	for _, p := range s.writes {
		fmt.Fprintln(out, "write", hx(p))
		file = append(file, p...)
	}
	if w != nil {
		fmt.Fprintln(out, "stats", statsLine(w.Statistics))
		fmt.Fprintf(out, "indexes %d %d %d\n", len(w.ChunkIndexes), len(w.AttachmentIndexes), len(w.MetadataIndexes))
	}
	// oracle table for the model: (uncompressed records, stored payload) per chunk, obtained by
	// cutting the payloads out of the written bytes and decompressing them with the codec directly.
	if flt == nil {
		for _, c := range walkChunks(file) {
			plain, end := directDecompress(c.comp, c.payload)
			fmt.Fprintln(out, "chunk", hx([]byte(c.comp)), hx(plain), hx(c.payload), end)
		}
	}
}

// runWriteRep executes the same script VERIF_REPS times sequentially and once in each of
// VERIF_GOROUTINES concurrent goroutines, printing a hash of (segmentation, bytes) per run.
func runWriteRep(lines []string) {
	reps := int(i64(getenv("VERIF_REPS", "3")))
	gor := int(i64(getenv("VERIF_GOROUTINES", "16")))
	one := func() string {
		var o *mcap.WriterOptions
		var calls [][]string
		for _, line := range lines {
			f := strings.Fields(line)
			switch f[0] {
			case "wopts":
				o = parseWopts(opt(f[1:]))
			case "fault", "comp", "lib":
			default:
				calls = append(calls, f)
			}
		}
		s := &sink{}
		w, err := mcap.NewWriter(s, o)
		if err != nil {
			return "newerr"
		}
		for _, f := range calls {
			switch f[0] {
			case "H":
				_ = w.WriteHeader(&mcap.Header{Profile: string(unhx(f[1])), Library: string(unhx(f[2]))})
			case "S":
				_ = w.WriteSchema(&mcap.Schema{ID: uint16(u64(f[1])), Name: string(unhx(f[2])), Encoding: string(unhx(f[3])), Data: unhx(f[4])})
			case "C":
				_ = w.WriteChannel(&mcap.Channel{ID: uint16(u64(f[1])), SchemaID: uint16(u64(f[2])), Topic: string(unhx(f[3])), MessageEncoding: string(unhx(f[4])), Metadata: kvs(f[5])})
			case "M":
				_ = w.WriteMessage(&mcap.Message{ChannelID: uint16(u64(f[1])), Sequence: uint32(u64(f[2])), LogTime: u64(f[3]), PublishTime: u64(f[4]), Data: unhx(f[5])})
			case "A":
				var frags [][]byte
				if f[7] != "-" {
					for _, h := range strings.Split(f[7], ",") {
						frags = append(frags, unhx(h))
					}
				}
				_ = w.WriteAttachment(&mcap.Attachment{LogTime: u64(f[1]), CreateTime: u64(f[2]), Name: string(unhx(f[3])), MediaType: string(unhx(f[4])), DataSize: u64(f[5]), Data: &fragReader{frags: frags, fail: f[6] == "1"}})
			case "D":
				_ = w.WriteMetadata(&mcap.Metadata{Name: string(unhx(f[1])), Metadata: kvs(f[2])})
			case "X":
				_ = w.Close()
			}
		}
		h := sha256.New()
		for _, p := range s.writes {
			var l [8]byte
			binary.LittleEndian.PutUint64(l[:], uint64(len(p)))
			h.Write(l[:])
			h.Write(p)
		}
		return hex.EncodeToString(h.Sum(nil))
	}
	for i := 0; i < reps; i++ {
		fmt.Fprintf(out, "rep s%d %s\n", i, one())
	}
	res := make([]string, gor)
	var wg sync.WaitGroup
	for i := 0; i < gor; i++ {
		wg.Add(1)
		go func(i int) {
			defer wg.Done()
			res[i] = one()
		}(i)
	}
	wg.Wait()
	for i, r := range res {
		fmt.Fprintf(out, "rep g%d %s\n", i, r)
	}
}

func getenv(k, d string) string {
	if v := os.Getenv(k); v != "" {
		return v
	}
	return d
}


// ---- writeconc: different workloads written concurrently by independent writers ----
type preCall struct {
	kind string
	hdr  *mcap.Header
	sch  *mcap.Schema
	ch   *mcap.Channel
	msg  *mcap.Message
	att  *mcap.Attachment
	frag [][]byte
	fail bool
	md   *mcap.Metadata
}

type preCase struct {
	id    string
	opts  func() *mcap.WriterOptions
	calls []preCall
	ref   string
}

func parsePre(c []string) *preCase {
	pc := &preCase{id: strings.TrimPrefix(c[0], "case ")}
	for _, line := range c[1:] {
		f := strings.Fields(line)
		switch f[0] {
		case "wopts":
			o := opt(f[1:])
			if os.Getenv("VERIF_SHARE_OPTS") == "1" && o["custom"] != "1" {
				// (not with a caller-supplied compressor: that object is single-use state of its own)
				// one options value handed to every writer of this workload, as a caller that keeps its options around does
				shared := parseWopts(o)
				pc.opts = func() *mcap.WriterOptions { return shared }
			} else {
				pc.opts = func() *mcap.WriterOptions { return parseWopts(o) }
			}
		case "fault", "comp", "lib":
		case "H":
			pc.calls = append(pc.calls, preCall{kind: "H", hdr: &mcap.Header{Profile: string(unhx(f[1])), Library: string(unhx(f[2]))}})
		case "S":
			pc.calls = append(pc.calls, preCall{kind: "S", sch: &mcap.Schema{ID: uint16(u64(f[1])), Name: string(unhx(f[2])), Encoding: string(unhx(f[3])), Data: unhx(f[4])}})
		case "C":
			pc.calls = append(pc.calls, preCall{kind: "C", ch: &mcap.Channel{ID: uint16(u64(f[1])), SchemaID: uint16(u64(f[2])), Topic: string(unhx(f[3])), MessageEncoding: string(unhx(f[4])), Metadata: kvs(f[5])}})
		case "M":
			pc.calls = append(pc.calls, preCall{kind: "M", msg: &mcap.Message{ChannelID: uint16(u64(f[1])), Sequence: uint32(u64(f[2])), LogTime: u64(f[3]), PublishTime: u64(f[4]), Data: unhx(f[5])}})
		case "A":
			var frags [][]byte
			if f[7] != "-" {
				for _, h := range strings.Split(f[7], ",") {
					frags = append(frags, unhx(h))
				}
			}
			pc.calls = append(pc.calls, preCall{kind: "A", att: &mcap.Attachment{LogTime: u64(f[1]), CreateTime: u64(f[2]), Name: string(unhx(f[3])), MediaType: string(unhx(f[4])), DataSize: u64(f[5])}, frag: frags, fail: f[6] == "1"})
		case "D":
			pc.calls = append(pc.calls, preCall{kind: "D", md: &mcap.Metadata{Name: string(unhx(f[1])), Metadata: kvs(f[2])}})
		case "X":
			pc.calls = append(pc.calls, preCall{kind: "X"})
		}
	}
	return pc
}

func (pc *preCase) run() string {
	s := &sink{}
	w, err := mcap.NewWriter(s, pc.opts())
	if err != nil {
		return "newerr"
	}
	for i := range pc.calls {
		c := &pc.calls[i]
		switch c.kind {
		case "H":
			_ = w.WriteHeader(c.hdr)
		case "S":
			_ = w.WriteSchema(c.sch)
		case "C":
			_ = w.WriteChannel(c.ch)
		case "M":
			_ = w.WriteMessage(c.msg)
		case "A":
			a := *c.att
			a.Data = &fragReader{frags: append([][]byte(nil), c.frag...), fail: c.fail}
			_ = w.WriteAttachment(&a)
		case "D":
			_ = w.WriteMetadata(c.md)
		case "X":
			_ = w.Close()
		}
	}
	h := sha256.New()
	var file []byte
	for _, p := range s.writes {
		var l [8]byte
		binary.LittleEndian.PutUint64(l[:], uint64(len(p)))
		h.Write(l[:])
		h.Write(p)
		file = append(file, p...)
	}
	if os.Getenv("VERIF_CONC_READ") == "1" {
		h.Write([]byte(readBackHash(file)))
	}
	return hex.EncodeToString(h.Sum(nil))
}

// readBackHash reads a file with an independent lexer and an independent reader (default options: index when
// usable) and hashes everything they return, errors included.
func readBackHash(file []byte) string {
	h := sha256.New()
	lx, err := mcap.NewLexer(bytes.NewReader(file), &mcap.LexerOptions{ValidateChunkCRCs: true})
	if err != nil {
		fmt.Fprintf(h, "lexerr %v", err)
	} else {
		for i := 0; i < 1000000; i++ {
			tt, rec, err := lx.Next(nil)
			if err != nil {
				fmt.Fprintf(h, "end %v", err)
				break
			}
			fmt.Fprintf(h, "tok %d %d ", tt, len(rec))
			h.Write(rec)
		}
	}
	rd, err := mcap.NewReader(bytes.NewReader(file))
	if err != nil {
		fmt.Fprintf(h, "readerr %v", err)
		return hex.EncodeToString(h.Sum(nil))
	}
	defer rd.Close()
	it, err := rd.Messages()
	if err != nil {
		fmt.Fprintf(h, "msgerr %v", err)
		return hex.EncodeToString(h.Sum(nil))
	}
	for i := 0; i < 1000000; i++ {
		sc, ch, m, err := it.Next(nil)
		if err != nil {
			fmt.Fprintf(h, "end %v", err)
			break
		}
		if sc != nil {
			fmt.Fprintf(h, "s%d %s", sc.ID, sc.Name)
		}
		fmt.Fprintf(h, "c%d %s m%d %d %d ", ch.ID, ch.Topic, m.Sequence, m.LogTime, len(m.Data))
		h.Write(m.Data)
	}
	return hex.EncodeToString(h.Sum(nil))
}

// runWriteConc: every case of the script is first written alone (reference), then VERIF_GOROUTINES goroutines
// start together and each writes all cases VERIF_REPS times in its own rotation, so that independent
// writers of different workloads overlap. Output per case: the reference hash and the number of runs whose
// output differed from it.
func runWriteConc(cases [][]string) {
	reps := int(i64(getenv("VERIF_REPS", "3")))
	gor := int(i64(getenv("VERIF_GOROUTINES", "16")))
	var pcs []*preCase
	for _, c := range cases {
		pc := parsePre(c)
		if pc.opts == nil {
			continue
		}
		pc.ref = pc.run()
		pcs = append(pcs, pc)
	}
	bad := make([]int64, len(pcs))
	runs := make([]int64, len(pcs))
	var mu sync.Mutex
	var wg sync.WaitGroup
	start := make(chan struct{})
	for g := 0; g < gor; g++ {
		wg.Add(1)
		go func(g int) {
			defer wg.Done()
			<-start
			lb := make([]int64, len(pcs))
			lr := make([]int64, len(pcs))
			for r := 0; r < reps; r++ {
				for k := range pcs {
					i := (k + g*7 + r*3) % len(pcs)
					if pcs[i].run() != pcs[i].ref {
						lb[i]++
					}
					lr[i]++
				}
			}
			mu.Lock()
			for i := range pcs {
				bad[i] += lb[i]
				runs[i] += lr[i]
			}
			mu.Unlock()
		}(g)
	}
	close(start)
	wg.Wait()
	for i, pc := range pcs {
		fmt.Fprintf(out, "case %s\nconc ref=%s runs=%d differing=%d\nend\n", pc.id, pc.ref, runs[i], bad[i])
	}
}
