package main

import (
	"fmt"
	"runtime"
	"sort"
	"strings"

	"github.com/foxglove/mcap/go/mcap"
)

func nnString(m map[uint16]uint64) string {
	ks := []int{}
	for k := range m {
		ks = append(ks, int(k))
	}
	sort.Ints(ks)
	parts := []string{}
	for _, k := range ks {
		parts = append(parts, fmt.Sprintf("%d:%d", k, m[uint16(k)]))
	}
	if len(parts) == 0 {
		return "-"
	}
	return strings.Join(parts, ",")
}

func parseOne(kind string, b []byte) (s string) {
	defer func() {
		if p := recover(); p != nil {
			s = "panic"
		}
	}()
	switch kind {
	case "header":
		v, err := mcap.ParseHeader(b)
		if err != nil {
			return res(err)
		}
		return fmt.Sprintf("ok %s %s", hx([]byte(v.Profile)), hx([]byte(v.Library)))
	case "footer":
		v, err := mcap.ParseFooter(b)
		if err != nil {
			return res(err)
		}
		return fmt.Sprintf("ok %d %d %d", v.SummaryStart, v.SummaryOffsetStart, v.SummaryCRC)
	case "schema":
		v, err := mcap.ParseSchema(b)
		if err != nil {
			return res(err)
		}
		return "ok " + schemaString(v)
	case "channel":
		v, err := mcap.ParseChannel(b)
		if err != nil {
			return res(err)
		}
		return "ok " + channelString(v)
	case "message":
		v, err := mcap.ParseMessage(b)
		if err != nil {
			return res(err)
		}
		return "ok " + messageString(v)
	case "chunk":
		v, err := mcap.ParseChunk(b)
		if err != nil {
			return res(err)
		}
		return fmt.Sprintf("ok %d %d %d %d %s %s", v.MessageStartTime, v.MessageEndTime, v.UncompressedSize, v.UncompressedCRC, hx([]byte(v.Compression)), hx(v.Records))
	case "msgindex":
		v, err := mcap.ParseMessageIndex(b)
		if err != nil {
			return res(err)
		}
		parts := []string{}
		for _, e := range v.Entries() {
			parts = append(parts, fmt.Sprintf("%d:%d", e.Timestamp, e.Offset))
		}
		es := strings.Join(parts, ",")
		if es == "" {
			es = "-"
		}
		return fmt.Sprintf("ok %d %s", v.ChannelID, es)
	case "chunkindex":
		v, err := mcap.ParseChunkIndex(b)
		if err != nil {
			return res(err)
		}
		return fmt.Sprintf("ok %d %d %d %d %s %d %s %d %d", v.MessageStartTime, v.MessageEndTime, v.ChunkStartOffset, v.ChunkLength,
			nnString(v.MessageIndexOffsets), v.MessageIndexLength, hx([]byte(v.Compression)), v.CompressedSize, v.UncompressedSize)
	case "attindex":
		v, err := mcap.ParseAttachmentIndex(b)
		if err != nil {
			return res(err)
		}
		return fmt.Sprintf("ok %d %d %d %d %d %s %s", v.Offset, v.Length, v.LogTime, v.CreateTime, v.DataSize, hx([]byte(v.Name)), hx([]byte(v.MediaType)))
	case "statistics":
		v, err := mcap.ParseStatistics(b)
		if err != nil {
			return res(err)
		}
		return "ok " + statsLine(v)
	case "metadata":
		v, err := mcap.ParseMetadata(b)
		if err != nil {
			return res(err)
		}
		return fmt.Sprintf("ok %s %s", hx([]byte(v.Name)), kvString(v.Metadata))
	case "mdindex":
		v, err := mcap.ParseMetadataIndex(b)
		if err != nil {
			return res(err)
		}
		return fmt.Sprintf("ok %d %d %s", v.Offset, v.Length, hx([]byte(v.Name)))
	case "sumoffset":
		v, err := mcap.ParseSummaryOffset(b)
		if err != nil {
			return res(err)
		}
		return fmt.Sprintf("ok %d %d %d", v.GroupOpcode, v.GroupStart, v.GroupLength)
	case "dataend":
		v, err := mcap.ParseDataEnd(b)
		if err != nil {
			return res(err)
		}
		return fmt.Sprintf("ok %d", v.DataSectionCRC)
	}
	return "unknownkind"
}

func runParse(lines []string) {
	for _, line := range lines {
		f := strings.Fields(line)
		if f[0] != "parse" {
			continue
		}
		fmt.Fprintf(out, "parse %s %s\n", f[1], parseOne(f[1], unhx(f[2])))
	}
}

// allocDelta reports bytes allocated (cumulative) by f.
func allocDelta(f func()) uint64 {
	var a, b runtime.MemStats
	runtime.ReadMemStats(&a)
	f()
	runtime.ReadMemStats(&b)
	return b.TotalAlloc - a.TotalAlloc
}
