package main

import (
	"errors"
	"fmt"
	"io"
	"sort"
	"strings"

	"github.com/foxglove/mcap/go/mcap"
)

func kvString(m map[string]string) string {
	keys := make([]string, 0, len(m))
	for k := range m {
		keys = append(keys, k)
	}
	sort.Strings(keys)
	parts := make([]string, 0, len(keys))
	for _, k := range keys {
		parts = append(parts, fmt.Sprintf("%x:%x", k, m[k]))
	}
	if len(parts) == 0 {
		return "-"
	}
	return strings.Join(parts, ",")
}

func schemaString(s *mcap.Schema) string {
	if s == nil {
		return "noschema"
	}
	return fmt.Sprintf("schema %d %s %s %s", s.ID, hx([]byte(s.Name)), hx([]byte(s.Encoding)), hx(s.Data))
}

func channelString(c *mcap.Channel) string {
	if c == nil {
		return "nochannel"
	}
	return fmt.Sprintf("channel %d %d %s %s %s", c.ID, c.SchemaID, hx([]byte(c.Topic)), hx([]byte(c.MessageEncoding)), kvString(c.Metadata))
}

func messageString(m *mcap.Message) string {
	return fmt.Sprintf("message %d %d %d %d %s", m.ChannelID, m.Sequence, m.LogTime, m.PublishTime, hx(m.Data))
}

func parseRopts(tokens []string, mdcb func(*mcap.Metadata) error) []mcap.ReadOpt {
	var opts []mcap.ReadOpt
	for _, t := range tokens {
		p := strings.SplitN(t, ":", 2)
		switch p[0] {
		case "after":
			opts = append(opts, mcap.After(i64(p[1])))
		case "before":
			opts = append(opts, mcap.Before(i64(p[1])))
		case "afternanos":
			opts = append(opts, mcap.AfterNanos(u64(p[1])))
		case "beforenanos":
			opts = append(opts, mcap.BeforeNanos(u64(p[1])))
		case "topics":
			var ts []string
			if p[1] != "-" {
				for _, h := range strings.Split(p[1], ",") {
					ts = append(ts, string(unhx(h)))
				}
			}
			opts = append(opts, mcap.WithTopics(ts))
		case "order":
			o := mcap.FileOrder
			if p[1] == "log" {
				o = mcap.LogTimeOrder
			} else if p[1] == "rev" {
				o = mcap.ReverseLogTimeOrder
			}
			opts = append(opts, mcap.InOrder(o))
		case "index":
			opts = append(opts, mcap.UsingIndex(p[1] == "1"))
		case "mdcb":
			opts = append(opts, mcap.WithMetadataCallback(mdcb))
		}
	}
	return opts
}

func printInfo(info *mcap.Info) {
	if info.Footer != nil {
		fmt.Fprintf(out, "footer %d %d %d\n", info.Footer.SummaryStart, info.Footer.SummaryOffsetStart, info.Footer.SummaryCRC)
	} else {
		fmt.Fprintln(out, "nofooter")
	}
	if info.Statistics != nil {
		fmt.Fprintln(out, "stats", statsLine(info.Statistics))
	} else {
		fmt.Fprintln(out, "nostats")
	}
	ids := []int{}
	for k := range info.Schemas {
		ids = append(ids, int(k))
	}
	sort.Ints(ids)
	for _, k := range ids {
		fmt.Fprintln(out, "i"+schemaString(info.Schemas[uint16(k)]))
	}
	ids = ids[:0]
	for k := range info.Channels {
		ids = append(ids, int(k))
	}
	sort.Ints(ids)
	for _, k := range ids {
		fmt.Fprintln(out, "i"+channelString(info.Channels[uint16(k)]))
	}
	for _, ci := range info.ChunkIndexes {
		ks := []int{}
		for k := range ci.MessageIndexOffsets {
			ks = append(ks, int(k))
		}
		sort.Ints(ks)
		parts := []string{}
		for _, k := range ks {
			parts = append(parts, fmt.Sprintf("%d:%d", k, ci.MessageIndexOffsets[uint16(k)]))
		}
		offs := strings.Join(parts, ",")
		if offs == "" {
			offs = "-"
		}
		fmt.Fprintf(out, "ci %d %d %d %d %s %d %s %d %d\n", ci.MessageStartTime, ci.MessageEndTime, ci.ChunkStartOffset, ci.ChunkLength,
			offs, ci.MessageIndexLength, hx([]byte(ci.Compression)), ci.CompressedSize, ci.UncompressedSize)
	}
	for _, ai := range info.AttachmentIndexes {
		fmt.Fprintf(out, "ai %d %d %d %d %d %s %s\n", ai.Offset, ai.Length, ai.LogTime, ai.CreateTime, ai.DataSize, hx([]byte(ai.Name)), hx([]byte(ai.MediaType)))
	}
	for _, mx := range info.MetadataIndexes {
		fmt.Fprintf(out, "mx %d %d %s\n", mx.Offset, mx.Length, hx([]byte(mx.Name)))
	}
}

func runRead(lines []string) {
	var srcm map[string]string
	var data []byte
	var ops [][]string
	var roptTokens []string
	for _, line := range lines {
		f := strings.Fields(line)
		switch f[0] {
		case "ropts":
			roptTokens = f[1:]
		case "src":
			srcm = opt(f[1:])
		case "file":
			data = unhx(f[1])
		case "op":
			ops = append(ops, f[1:])
		}
	}
	if srcm == nil {
		srcm = map[string]string{}
	}
	if _, ok := srcm["seek"]; !ok {
		srcm["seek"] = "1"
	}
	for _, op := range ops {
		func() {
			defer func() {
				if p := recover(); p != nil {
					fmt.Fprintf(out, "panic %s\n", strings.ReplaceAll(fmt.Sprint(p), "\n", " "))
				}
			}()
			src := makeSource(srcm, data)
			r, err := mcap.NewReader(src)
			if err != nil {
				fmt.Fprintln(out, "newreader", res(err))
				return
			}
			defer r.Close()
			h := r.Header()
			fmt.Fprintf(out, "newreader ok %s %s\n", hx([]byte(h.Profile)), hx([]byte(h.Library)))
			switch op[0] {
			case "info":
				info, err := r.Info()
				fmt.Fprintln(out, "info", res(err))
				if err == nil {
					printInfo(info)
					cc := info.ChannelCounts()
					topics := []string{}
					for t := range cc {
						topics = append(topics, hx([]byte(t)))
					}
					sort.Strings(topics)
					fmt.Fprintln(out, "channelcounts", strings.Join(topics, ","))
				}
			case "getatt":
				ar, err := r.GetAttachmentReader(u64(op[1]))
				if err != nil {
					fmt.Fprintln(out, "getatt", res(err))
					return
				}
				dat, derr := io.ReadAll(ar.Data())
				var comp, parsed uint32
				var cerr, perr error
				if len(op) > 2 && op[2] == "rev" {
					// the other legal call order: stored CRC first, computed CRC second
					parsed, perr = ar.ParsedCRC()
					comp, cerr = ar.ComputedCRC()
				} else {
					comp, cerr = ar.ComputedCRC()
					parsed, perr = ar.ParsedCRC()
				}
				cs, ps := fmt.Sprint(comp), fmt.Sprint(parsed)
				if cerr != nil {
					cs = "err:" + classify(cerr)
				}
				if perr != nil {
					ps = "err:" + classify(perr)
				}
				fmt.Fprintf(out, "getatt ok %d %d %s %s %d %s %s %s %s\n", ar.LogTime, ar.CreateTime, hx([]byte(ar.Name)), hx([]byte(ar.MediaType)),
					ar.DataSize, hx(dat), res(derr), cs, ps)
			case "getmd":
				md, err := r.GetMetadata(u64(op[1]))
				if err != nil {
					fmt.Fprintln(out, "getmd", res(err))
					return
				}
				fmt.Fprintf(out, "getmd ok %s %s\n", hx([]byte(md.Name)), kvString(md.Metadata))
			case "messages":
				into := len(op) > 1 && op[1] == "into"
				viaRange := len(op) > 1 && op[1] == "range"
				cb := func(md *mcap.Metadata) error {
					fmt.Fprintf(out, "md %s %s\n", hx([]byte(md.Name)), kvString(md.Metadata))
					return nil
				}
				it, err := r.Messages(parseRopts(roptTokens, cb)...)
				if err != nil {
					fmt.Fprintln(out, "messages", res(err))
					return
				}
				_, _, _, indexed := mcap.VerifSlotStats(it)
				if indexed {
					fmt.Fprintln(out, "messages ok indexed")
				} else {
					fmt.Fprintln(out, "messages ok scan")
				}
				type held struct {
					s    *mcap.Schema
					c    *mcap.Channel
					m    *mcap.Message
					text string
				}
				var kept []held
				maxSlots, maxLive := 0, 0
				reused := &mcap.Message{}
				for i := 0; i < 10000000; i++ {
					var s *mcap.Schema
					var c *mcap.Channel
					var m *mcap.Message
					var err error
					if viaRange {
						// the library's own loop (mcap.Range): every message goes through the callback, the end of
						// the iteration is a nil return, any other error is returned
						n := 0
						err = mcap.Range(it, func(s *mcap.Schema, c *mcap.Channel, m *mcap.Message) error {
							n++
							if sl, live, _, ok := mcap.VerifSlotStats(it); ok {
								if sl > maxSlots {
									maxSlots = sl
								}
								if live > maxLive {
									maxLive = live
								}
							}
							fmt.Fprintln(out, "msg "+schemaString(s)+" "+channelString(c)+" "+messageString(m))
							return nil
						})
						if sl, live, _, ok := mcap.VerifSlotStats(it); ok {
							if sl > maxSlots {
								maxSlots = sl
							}
							if live > maxLive {
								maxLive = live
							}
						}
						if err == nil {
							fmt.Fprintln(out, "endmsg err:eof")
						} else {
							fmt.Fprintln(out, "endmsg", res(err))
						}
						break
					}
					if into && i%4 == 3 {
						// a nil message is allowed: the iterator then allocates one
						s, c, m, err = it.NextInto(nil)
					} else if into {
						s, c, m, err = it.NextInto(reused)
						if err == nil && m != reused {
							fmt.Fprintln(out, "endmsg err:nextinto-did-not-fill-the-message-passed-in")
							break
						}
					} else {
						s, c, m, err = it.Next(nil)
					}
					if sl, live, _, ok := mcap.VerifSlotStats(it); ok {
						if sl > maxSlots {
							maxSlots = sl
						}
						if live > maxLive {
							maxLive = live
						}
					}
					if err != nil {
						if errors.Is(err, io.EOF) {
							fmt.Fprintln(out, "endmsg err:eof")
						} else {
							fmt.Fprintln(out, "endmsg", res(err))
						}
						break
					}
					text := "msg " + schemaString(s) + " " + channelString(c) + " " + messageString(m)
					fmt.Fprintln(out, text)
					if !into {
						kept = append(kept, held{s, c, m, text})
					}
				}
				changed := 0
				for _, k := range kept {
					if "msg "+schemaString(k.s)+" "+channelString(k.c)+" "+messageString(k.m) != k.text {
						changed++
					}
				}
				fmt.Fprintf(out, "aliaschanged %d\n", changed)
				if indexed {
					fmt.Fprintf(out, "slots %d %d\n", maxSlots, maxLive)
				}
			}
		}()
	}
}
