package main

import (
	"bytes"
	"fmt"
	"github.com/klauspost/compress/zstd"
	"io"
	"strings"

	"github.com/foxglove/mcap/go/mcap"
	"github.com/foxglove/mcap/go/ros"
	"github.com/foxglove/mcap/go/ros/ros1msg"
	"github.com/pierrec/lz4/v4"
)

func typeString(t *ros1msg.Type) string {
	b := func(x bool) string {
		if x {
			return "1"
		}
		return "0"
	}
	items := "-"
	if t.Items != nil {
		items = "[" + typeString(t.Items) + "]"
	}
	fs := make([]string, 0, len(t.Fields))
	for i := range t.Fields {
		fs = append(fs, fieldString(&t.Fields[i]))
	}
	return fmt.Sprintf("%s:%s:%d:%s:%s:{%s}", hx([]byte(t.BaseType)), b(t.IsArray), t.FixedSize, b(t.IsRecord), items, strings.Join(fs, ","))
}

func fieldString(f *ros1msg.Field) string {
	return hx([]byte(f.Name)) + "=" + typeString(&f.Type)
}

func runRos1Msg(lines []string) {
	for _, line := range lines {
		f := strings.Fields(line)
		if f[0] != "msgdef" {
			continue
		}
		func() {
			defer func() {
				if p := recover(); p != nil {
					fmt.Fprintf(out, "msgdef panic %s\n", strings.ReplaceAll(fmt.Sprint(p), "\n", " "))
				}
			}()
			fields, err := ros1msg.ParseMessageDefinition(string(unhx(f[1])), unhx(f[2]))
			if err != nil {
				fmt.Fprintln(out, "msgdef err")
				return
			}
			fs := make([]string, 0, len(fields))
			for i := range fields {
				fs = append(fs, fieldString(&fields[i]))
			}
			fmt.Fprintf(out, "msgdef ok %s\n", strings.Join(fs, ","))
		}()
	}
}

// nonSeeker hides Seek so that the source is a plain io.Reader.
type nonSeeker struct{ r io.Reader }

func (n nonSeeker) Read(p []byte) (int, error) { return n.r.Read(p) }

func runBag(lines []string) {
	var o *mcap.WriterOptions
	var data []byte
	for _, line := range lines {
		f := strings.Fields(line)
		switch f[0] {
		case "wopts":
			o = parseWopts(opt(f[1:]))
		case "bag":
			data = unhx(f[1])
		}
	}
	s := &sink{}
	func() {
		defer func() {
			if p := recover(); p != nil {
				fmt.Fprintf(out, "bag panic %s\n", strings.ReplaceAll(fmt.Sprint(p), "\n", " "))
			}
		}()
		err := ros.Bag2MCAP(s, nonSeeker{bytes.NewReader(data)}, o)
		fmt.Fprintln(out, "bag", res(err))
	}()
	var file []byte
	for _, p := range s.writes {
		fmt.Fprintln(out, "write", hx(p))
		file = append(file, p...)
	}
	for _, c := range walkChunks(file) {
		plain, end := directDecompress(c.comp, c.payload)
		fmt.Fprintln(out, "chunk", hx([]byte(c.comp)), hx(plain), hx(c.payload), end)
	}
}

// runCompress is a helper for the generators: compress a byte string with lz4 (bag chunks).
func runCompress(lines []string) {
	for _, line := range lines {
		f := strings.Fields(line)
		if f[0] != "compress" {
			continue
		}
		var buf bytes.Buffer
		switch f[1] {
		case "lz4":
			w := lz4.NewWriter(&buf)
			_, _ = w.Write(unhx(f[2]))
			_ = w.Close()
		case "zstd":
			w, err := zstd.NewWriter(&buf)
			if err == nil {
				_, _ = w.Write(unhx(f[2]))
				_ = w.Close()
			}
		case "-", "none":
			buf.Write(unhx(f[2]))
		}
		fmt.Fprintln(out, "compressed", f[1], hx(buf.Bytes()))
	}
}
