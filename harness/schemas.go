package main

import (
	"encoding/hex"
	"fmt"
	"os"
	"path/filepath"
	"sort"
	"strings"

	"github.com/foxglove/mcap/go/ros"
)

// schemas mode: build the file tree of the script below a scratch directory and run the schema assembly of the
// db3 converter (getSchemas, through the verif hook) on it.
func runSchemas(lines []string) {
	root, err := os.MkdirTemp("", "verifschemas")
	if err != nil {
		fatal("mkdtemp: " + err.Error())
	}
	defer os.RemoveAll(root)
	real := func(p string) string {
		out := root
		for _, c := range strings.Split(p, "/") {
			if c == "" {
				continue
			}
			b, err := hex.DecodeString(c)
			if err != nil {
				fatal("bad path component")
			}
			out = filepath.Join(out, string(b))
		}
		return out
	}
	var dirs, types []string
	for _, line := range lines {
		f := strings.Fields(line)
		switch f[0] {
		case "dir":
			p := ""
			if len(f) > 1 {
				p = f[1]
			}
			d := real(p)
			_ = os.MkdirAll(d, 0o755)
			dirs = append(dirs, d)
		case "mkdir":
			_ = os.MkdirAll(real(f[1]), 0o755)
		case "file":
			p := real(f[1])
			_ = os.MkdirAll(filepath.Dir(p), 0o755)
			var content []byte
			if len(f) > 2 {
				content = unhx(f[2])
			}
			if err := os.WriteFile(p, content, 0o644); err != nil {
				fatal("write file: " + err.Error())
			}
		case "type":
			t := ""
			if len(f) > 1 {
				t = string(unhx(f[1]))
			}
			types = append(types, t)
		}
	}
	func() {
		defer func() {
			if p := recover(); p != nil {
				fmt.Fprintln(out, "schemas panic")
			}
		}()
		m, err := ros.VerifGetSchemas(dirs, types)
		if err != nil {
			fmt.Fprintln(out, "schemas err")
			return
		}
		keys := make([]string, 0, len(m))
		for k := range m {
			keys = append(keys, k)
		}
		sort.Slice(keys, func(i, j int) bool { return hx([]byte(keys[i])) < hx([]byte(keys[j])) })
		for _, k := range keys {
			fmt.Fprintf(out, "schema %s %s\n", hx([]byte(k)), hx(m[k]))
		}
		fmt.Fprintln(out, "schemas ok")
	}()
}
