"""chk_hostile.py - structured mutations of valid files and arbitrary bytes for C10."""
import struct

PARSE_KIND = {1: "header", 2: "footer", 3: "schema", 4: "channel", 5: "message", 6: "chunk", 7: "msgindex", 8: "chunkindex",
              10: "attindex", 11: "statistics", 12: "metadata", 13: "mdindex", 14: "sumoffset", 15: "dataend"}
VALUES64 = [0, 1, 2**31, 2**32 - 1, 2**63, 2**64 - 1]


def records(buf, base=0):
    res = []
    o = 0
    while o + 9 <= len(buf):
        op = buf[o]
        n = struct.unpack_from("<Q", buf, o + 1)[0]
        if o + 9 + n > len(buf):
            break
        res.append((base + o, op, n))
        o += 9 + n
    return res


def fields_of(data):
    """(offset, width, name) of every length / offset / size / count field of a valid file."""
    out = []
    body = data[8:-8] if data[:8] == b"\x89MCAP0\r\n" else data[:-8]
    base = 8 if data[:8] == b"\x89MCAP0\r\n" else 0
    for off, op, n in records(body, base):
        out.append((off + 1, 8, "reclen%d" % op))
        b = off + 9

        def pstr(p, name):
            out.append((p, 4, name))
            return p + 4 + struct.unpack_from("<I", data, p)[0]
        try:
            if op == 1:
                p = pstr(b, "profile_len"); pstr(p, "library_len")
            elif op == 2:
                out += [(b, 8, "summary_start"), (b + 8, 8, "summary_offset_start")]
            elif op == 3:
                p = pstr(b + 2, "schema_name_len"); p = pstr(p, "schema_enc_len"); pstr(p, "schema_data_len")
            elif op == 4:
                p = pstr(b + 4, "topic_len"); p = pstr(p, "menc_len"); out.append((p, 4, "chanmeta_len"))
            elif op == 6:
                out += [(b + 16, 8, "chunk_usize"), (b + 24, 4, "chunk_crc"), (b + 28, 4, "chunk_complen")]
                cl = struct.unpack_from("<I", data, b + 28)[0]
                out.append((b + 32 + cl, 8, "chunk_reclen"))
                if cl == 0:
                    inner_base = b + 32 + 8
                    rl = struct.unpack_from("<Q", data, b + 32)[0]
                    for ioff, iop, inn in records(data[inner_base:inner_base + rl], inner_base):
                        out.append((ioff + 1, 8, "inner_reclen%d" % iop))
            elif op == 7:
                out.append((b + 2, 4, "mi_len"))
            elif op == 8:
                out += [(b + 16, 8, "ci_offset"), (b + 24, 8, "ci_length"), (b + 32, 4, "ci_molen")]
                ml = struct.unpack_from("<I", data, b + 32)[0]
                p = b + 36 + ml
                out.append((p, 8, "ci_milength"))
                p = pstr(p + 8, "ci_complen")
                out += [(p, 8, "ci_csize"), (p + 8, 8, "ci_usize")]
            elif op == 9:
                p = pstr(b + 16, "att_name_len"); p = pstr(p, "att_media_len"); out.append((p, 8, "att_datasize"))
            elif op == 10:
                out += [(b, 8, "ai_offset"), (b + 8, 8, "ai_length"), (b + 32, 8, "ai_datasize")]
                p = pstr(b + 40, "ai_name_len"); pstr(p, "ai_media_len")
            elif op == 11:
                out += [(b, 8, "st_messages"), (b + 42, 4, "st_countlen")]
            elif op == 12:
                p = pstr(b, "md_name_len"); out.append((p, 4, "md_map_len"))
            elif op == 13:
                out += [(b, 8, "mx_offset"), (b + 8, 8, "mx_length")]; pstr(b + 16, "mx_name_len")
            elif op == 14:
                out += [(b + 1, 8, "so_start"), (b + 9, 8, "so_length")]
        except struct.error:
            pass
    return [f for f in out if f[0] + f[1] <= len(data)]


def set_field(data, off, width, val):
    b = bytearray(data)
    b[off:off + width] = (val % (1 << (8 * width))).to_bytes(width, "little")
    return bytes(b)


def mutations(r, data, per_field=3, extra=12):
    """yield (description, bytes)"""
    fs = fields_of(data)
    for off, width, name in fs:
        cur = int.from_bytes(data[off:off + width], "little")
        vals = VALUES64 + [cur + 1, max(0, cur - 1), len(data), len(data) - off]
        for v in r.sample(vals, min(per_field, len(vals))):
            if v % (1 << (8 * width)) != cur:
                yield ("%s@%d=%d" % (name, off, v), set_field(data, off, width, v))
    # two fields at once (a record length together with a length inside the record): guards that rely on an
    # earlier check of the other field only show under such pairs
    # (values between 2^28 and 2^31 make the library allocate up to 2 GiB per input, which is within its documented ceiling but
    # turns a parallel run into a memory benchmark: those boundaries are covered by a few corpus inputs instead)
    mids = [24, 25, 1000, 65535, 65537, 1 << 20, 1 << 27, (1 << 27) + 3, 1 << 31, (1 << 32) - 1, 1 << 40, (1 << 63) - 1, 1 << 63, (1 << 64) - 1]
    recl = [f for f in fs if f[2].startswith("reclen")]
    inner = [f for f in fs if not f[2].startswith("reclen") and ("len" in f[2] or "size" in f[2])]
    for _ in range(extra):
        if not recl or not inner:
            break
        (o1, w1, n1), (o2, w2, n2) = r.choice(recl), r.choice(inner)
        v1, v2 = r.choice(mids), r.choice(mids)
        yield ("%s@%d=%d+%s@%d=%d" % (n1, o1, v1, n2, o2, v2), set_field(set_field(data, o1, w1, v1), o2, w2, v2))
    recs = records(data[8:-8], 8)
    for _ in range(extra):
        k = r.random()
        if k < 0.25:
            cut = r.randrange(len(data))
            yield ("trunc@%d" % cut, data[:cut])
        elif k < 0.5 and len(recs) >= 2:
            a, b = r.choice(recs), r.choice(recs)
            seg = data[a[0]:a[0] + 9 + a[2]]
            yield ("splice%d->%d" % (a[0], b[0]), data[:b[0]] + seg + data[b[0]:])
        elif k < 0.6:
            # unknown compression name in the first chunk
            for off, op, n in recs:
                if op == 6:
                    b = bytearray(data)
                    cl = struct.unpack_from("<I", data, off + 9 + 28)[0]
                    if cl >= 1:
                        b[off + 9 + 32] ^= 0x20
                        yield ("unknowncomp@%d" % off, bytes(b))
                    break
        elif k < 0.7:
            # nested chunk: wrap a chunk record inside an uncompressed chunk
            for off, op, n in recs:
                if op == 6:
                    inner = data[off:off + 9 + n]
                    body = struct.pack("<QQQI", 0, 0, len(inner), 0) + struct.pack("<I", 0) + struct.pack("<Q", len(inner)) + inner
                    yield ("nested@%d" % off, data[:off] + bytes([6]) + struct.pack("<Q", len(body)) + body + data[off + 9 + n:])
                    break
        elif k < 0.85:
            b = bytearray(data)
            for _ in range(r.randint(1, 6)):
                b[r.randrange(len(b))] = r.randrange(256)
            yield ("noise", bytes(b))
        else:
            n = r.randint(0, 200)
            yield ("random%d" % n, (b"\x89MCAP0\r\n" if r.random() < 0.7 else b"") + bytes(r.randrange(256) for _ in range(n)))
