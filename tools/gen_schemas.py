#!/usr/bin/env python3
"""gen_schemas.py - generate ament-style schema trees (the input of the db3 converter's schema assembly), well-formed and
hostile, as script lines for the `schemas` mode, with an independent expectation for the well-formed ones."""
import random

PRIMS = ["bool", "int8", "uint8", "int16", "uint16", "int32", "uint32", "int64", "uint64", "float32", "float64", "string", "time", "duration", "char", "byte"]
SEP = b"=" * 80 + b"\n"


def hx(b):
    return bytes(b).hex() if b else "-"


def hp(comps):
    return "/".join(bytes(c).hex() for c in comps)


class Tree:
    def __init__(self, r, ndirs=1):
        self.r = r
        self.dirs = [[b"r0", b"d%d" % i] for i in range(ndirs)]
        self.files = {}          # tuple(comps) -> bytes
        self.mkdirs = []
        self.defs = {}           # (dir index, pkg, name) -> bytes

    def add_msg(self, di, pkg, name, content, sub=b"msg", listed=True):
        d = self.dirs[di]
        self.files[tuple(d + [b"share", pkg, sub, name + b".msg"])] = content
        idx = tuple(d + [b"share", b"ament_index", b"resource_index", b"rosidl_interfaces", pkg])
        if listed:
            line = sub + b"/" + name + b".msg\n"
            self.files[idx] = self.files.get(idx, b"") + line
        else:
            self.files.setdefault(idx, b"")

    def lines(self, types):
        out = ["dir " + hp(d) for d in self.dirs]
        out += ["mkdir " + hp(m) for m in self.mkdirs]
        out += ["file %s %s" % (hp(p), hx(c)) for p, c in self.files.items()]
        out += ["type " + (t.hex() if t else "") for t in types]
        return [l.rstrip() for l in out]


def wellformed(r):
    """an acyclic-or-cyclic but complete set of definitions with canonical lines; returns (tree, types, expected map)"""
    npk = r.randint(1, 3)
    pkgs = [b"pkg%d" % i for i in range(npk)]
    t = Tree(r, ndirs=r.choice([1, 1, 2]))
    names = {}
    for p in pkgs:
        names[p] = [b"T%d" % i for i in range(r.randint(1, 4))]
    content = {}
    for p in pkgs:
        for n in names[p]:
            ls = []
            for _ in range(r.randint(0, 5)):
                k = r.random()
                if k < 0.45:
                    ty = r.choice(PRIMS).encode() + r.choice([b"", b"", b"[]", b"[3]", b"<=7"])
                    ls.append(ty + b" f%d" % len(ls))
                elif k < 0.55:
                    ls.append(b"# a comment " + bytes(r.choice(b"abc xyz/=#") for _ in range(r.randint(0, 8))))
                elif k < 0.6:
                    ls.append(b"")
                elif k < 0.8:
                    ls.append(r.choice(names[p]) + r.choice([b"", b"[]", b"[2]"]) + b" g%d" % len(ls))
                else:
                    q = r.choice(pkgs)
                    ls.append(q + b"/" + r.choice(names[q]) + r.choice([b"", b"[]"]) + b" h%d" % len(ls))
            body = b"\n".join(r.choice([b"", b"", b"  ", b"\t"]) + l + r.choice([b"", b"", b" ", b"  # trailing"]) for l in ls)
            if r.random() < 0.7 and body:
                body += b"\n"
            content[(p, n)] = body
            t.add_msg(r.randrange(len(t.dirs)), p, n, body)
    types = []
    for _ in range(r.randint(1, 3)):
        p = r.choice(pkgs)
        types.append(p + b"/msg/" + r.choice(names[p]))
    # independent expectation: breadth-first, first occurrence only, separator + "MSG: pkg/Type" headers
    exp = {}
    for ty in types:
        p0 = ty.split(b"/")[0]
        queue = [(ty, content[(p0, ty.split(b"/")[2])])]
        seen = {ty}
        buf = b""
        first = True
        while queue:
            q, body = queue.pop(0)
            if not first:
                if not buf.endswith(b"\n"):
                    buf += b"\n"
                buf += SEP + b"MSG: " + q.replace(b"/msg/", b"/", 1) + b"\n"
            buf += body
            first = False
            par = q.split(b"/")[0]
            for line in body.split(b"\n"):
                line = line.strip()
                if not line or line.startswith(b"#"):
                    continue
                ft = line.split(b" ")[0]
                for ch in (b"[", b"<"):
                    i = ft.find(ch)
                    if i > 0:
                        ft = ft[:i]
                if ft.decode() in PRIMS:
                    continue
                parts = ft.split(b"/")
                qq = (par + b"/msg/" + ft) if len(parts) == 1 else (parts[0] + b"/msg/" + parts[1])
                if qq not in seen:
                    seen.add(qq)
                    queue.append((qq, content[(qq.split(b"/")[0], qq.split(b"/")[2])]))
        exp[ty] = buf
    return t, types, exp


HOSTILE_FIELDS = [b"/ x", b"// y", b"/", b".. a", b"./T0 a", b"a/../b x", b"[3] x", b"<5 y", b"pkg0/msg/T0 x", b"pkg0//T0 x", b"/T0 x", b"T0/ x",
                  b"pkg0/T0/extra x", b"\xc2\xa0T0 x", b"T0\tx", b"sequence<T0> s", b"string<=5 s", b"int32[", b"[", b"<", b"T0[3 x", b" ", b"\t#c",
                  b"NOPE x", b"pkg9/T0 x", b"\xe3\x80\x80", b"uint8 X=5", b"T0 x  # c", b"...", b"../T0 x", b".", b"T0\r", b"#", b"= x"]
HOSTILE_TYPES = [b"", b"/", b"pkg0", b"pkg0/T0", b"pkg0/msg", b"pkg0//msg//T0", b"/pkg0/msg/T0", b"pkg0/msg/T0/extra", b"../msg/T0", b"./msg/T0", b"pkg0/srv/T0",
                 b"pkg0/msg/..", b"pkg0/msg/.", b"pkg0/msg/NOPE", b"pkg9/msg/T0", b"..//T0", b"pkg0/msg/T0 ", b"ament_index/msg/T0", b"pkg0/msg/sub"]
HOSTILE_INDEX = [b"", b"\n\n", b"msg/T0.msg", b"T0.msg\n", b"/T0.msg\n", b"msg/../msg/T0.msg\n", b"../pkg0/msg/T0.msg\n", b"msg/sub/T0.msg\n", b"msg/T0.msg\r\n",
                 b"msg/T0.msgx\nmsg/T0.msg\n", b"msg//T0.msg\n", b"./msg/./T0.msg\n", b"nowhere/T0.msg\n", b"msg/\n", b"../../T0.msg\n", b"msg\n", b"T0\n"]


def hostile(r):
    t = Tree(r, ndirs=r.choice([1, 2, 2]))
    # a base of real definitions
    t.add_msg(0, b"pkg0", b"T0", b"int32 a\n")
    t.add_msg(len(t.dirs) - 1, b"pkg0", b"T1", b"T0 t\npkg1/U u\n")
    t.add_msg(0, b"pkg1", b"U", b"pkg0/T1 back\nstring s")
    t.add_msg(0, b"pkg0", b"sub", b"uint8 z\n", sub=b"msg")
    k = r.random()
    types = [b"pkg0/msg/T1"]
    if k < 0.45:
        body = b"\n".join(r.choice(HOSTILE_FIELDS + [b"int32 ok", b"T0 fine"]) for _ in range(r.randint(1, 4)))
        t.add_msg(0, b"pkg0", b"H", body + r.choice([b"", b"\n"]))
        types = [b"pkg0/msg/H"]
    elif k < 0.65:
        types = [r.choice(HOSTILE_TYPES) for _ in range(r.randint(1, 2))]
    elif k < 0.85:
        d = t.dirs[r.randrange(len(t.dirs))]
        t.files[tuple(d + [b"share", b"ament_index", b"resource_index", b"rosidl_interfaces", b"pkg0"])] = r.choice(HOSTILE_INDEX)
        types = [b"pkg0/msg/T0", b"pkg0/msg/T1"][: r.randint(1, 2)]
    else:
        x = r.random()
        d = t.dirs[0]
        if x < 0.3:
            # the index of a package is a directory
            t.mkdirs.append(d + [b"share", b"ament_index", b"resource_index", b"rosidl_interfaces", b"pkgdir"])
            types = [b"pkgdir/msg/T0"]
        elif x < 0.6:
            # a file where a directory is expected
            t.files[tuple(t.dirs[-1] + [b"share", b"pkg2"])] = b"not a directory"
            t.files[tuple(t.dirs[-1] + [b"share", b"ament_index", b"resource_index", b"rosidl_interfaces", b"pkg2"])] = b"msg/V.msg\n"
            types = [b"pkg2/msg/V"]
        else:
            # listed but missing definition file; empty definition; type listed twice
            t.files[tuple(d + [b"share", b"ament_index", b"resource_index", b"rosidl_interfaces", b"pkg3"])] = b"msg/Gone.msg\nmsg/Empty.msg\n"
            t.files[tuple(d + [b"share", b"pkg3", b"msg", b"Empty.msg"])] = b""
            types = [r.choice([b"pkg3/msg/Gone", b"pkg3/msg/Empty"]), b"pkg0/msg/T0", b"pkg0/msg/T0"]
    return t, types


def cases(seed, n_good, n_bad):
    r = random.Random(seed)
    out = []
    for i in range(n_good):
        t, types, exp = wellformed(r)
        out.append({"id": "sch_good%d" % i, "lines": t.lines(types), "expected": exp})
    for i in range(n_bad):
        t, types = hostile(r)
        out.append({"id": "sch_bad%d" % i, "lines": t.lines(types), "expected": None})
    return out


if __name__ == "__main__":
    import sys
    for c in cases(int(sys.argv[1]) if len(sys.argv) > 1 else 1, 3, 5):
        print("case " + c["id"])
        print("\n".join(c["lines"]))
        print("end")
