"""gen_write.py - generator of writer workloads (options + call sequences), serialisation to the
script format shared by the Go harness and the extracted model."""
import random

from common import hx

U64 = 2**64 - 1
TS_POOL = [0, 1, 2, 5, 100, 2**31, 2**32 - 1, 2**32, 2**63 - 1, 2**63, 2**64 - 2, 2**64 - 1]
STR_POOL = [b"", b"a", b"topic", b"/camera/image", "héllo wörld".encode(), "日本語テキスト".encode(), "🤖📦".encode(),
            b"ros1msg", b"json", b"protobuf", b"x" * 300, b"key with spaces", b"\x00", b"zz", b"Z", b"aa", b"ab", b"b"]
FLAGS = ["skipmi", "skipstats", "skiprsh", "skiprch", "skipai", "skipmdi", "skipci", "skipso", "overridelib", "skipmagic"]


class Gen:
    def __init__(self, seed, utf8_only=False):
        self.r = random.Random(seed)
        self.utf8_only = utf8_only

    def s(self, allow_bin=True):
        r = self.r
        x = r.random()
        if x < 0.6:
            return r.choice(STR_POOL)
        if x < 0.85:
            return bytes(r.choice(b"abcdefghijklmnopqrstuvwxyz/_0123456789") for _ in range(r.randint(1, 24)))
        if x < 0.93 or self.utf8_only or not allow_bin:
            return "".join(chr(r.choice([0x41, 0xe9, 0x4e2d, 0x1f600, 0x20, 0x7f])) for _ in range(r.randint(1, 8))).encode()
        return bytes(r.randrange(256) for _ in range(r.randint(1, 12)))

    def data(self, big_ok=True):
        r = self.r
        x = r.random()
        if x < 0.2:
            return b""
        if x < 0.7:
            return bytes(r.randrange(256) for _ in range(r.randint(1, 16)))
        if x < 0.95 or not big_ok:
            return bytes([r.randrange(256)]) * r.randint(17, 200)
        return bytes(r.randrange(256) for _ in range(r.randint(200, 1500)))

    def ts(self, state):
        r = self.r
        x = r.random()
        if x < 0.3:
            return r.choice(TS_POOL)
        if x < 0.5 and state.get("last_ts") is not None:
            return state["last_ts"]                       # repeated
        if x < 0.7 and state.get("last_ts"):
            return max(0, state["last_ts"] - r.randint(1, 10))   # descending
        if x < 0.9:
            return min(U64, (state.get("last_ts") or 1000) + r.randint(0, 50))
        return r.randrange(2**64)

    def kv(self, maxkeys=12):
        r = self.r
        if r.random() < 0.03:
            return [(b"", b"")]                      # the one map whose only (and last) entry is 8 zero bytes
        n = r.choice([0, 0, 1, 2, 3, 5, maxkeys])
        m = {}
        for _ in range(n):
            m[self.s()] = self.s()
        items = list(m.items())
        r.shuffle(items)
        return items

    def wopts(self, **force):
        r = self.r
        o = {"crc": r.random() < 0.7, "chunked": r.random() < 0.75,
             "chunksize": r.choice([0, 1, 7, 64, 64, 200, 1000, 1048576, 10**9, -1]),
             "comp": r.choice(["", "", "zstd", "lz4", "xor"]), "level": r.randint(0, 3), "custom": False}
        if o["comp"] == "xor":
            o["custom"] = True
        for f in FLAGS:
            o[f] = r.random() < 0.25
        if r.random() < 0.3:
            for f in FLAGS:
                o[f] = False
        o["skipmagic"] = o["skipmagic"] and r.random() < 0.3
        o.update(force)
        return o

    def calls(self, nmin=0, nmax=40, legal=True, attach=True):
        r = self.r
        calls = [("H", self.s(), self.s())]
        schemas = {}
        channels = {}
        state = {}
        n = r.randint(nmin, nmax)
        id_pool = [1, 2, 3, 65535, 7, 300]
        ch_pool = [0, 1, 2, 65535, 9, 1000]
        for _ in range(n):
            x = r.random()
            if x < 0.12 or not schemas and x < 0.3:
                sid = r.choice(id_pool)
                if sid not in schemas:
                    schemas[sid] = ("S", sid, self.s(), self.s(), self.data(big_ok=False))
                calls.append(schemas[sid])
            elif x < 0.3 or not channels:
                cid = r.choice(ch_pool)
                if cid not in channels:
                    sid = r.choice([0] + list(schemas)) if schemas else 0
                    channels[cid] = ("C", cid, sid, self.s(), self.s(), self.kv())
                calls.append(channels[cid])
            elif x < 0.82:
                cid = r.choice(list(channels))
                t = self.ts(state)
                state["last_ts"] = t
                calls.append(("M", cid, r.choice([0, 1, 2**32 - 1, r.randrange(2**32)]), t, self.ts({}), self.data()))
            elif x < 0.9 and attach:
                d = self.data()
                frags = []
                rest = d
                while rest:
                    k = r.randint(1, max(1, len(rest)))
                    frags.append(rest[:k]); rest = rest[k:]
                calls.append(("A", self.ts({}), self.ts({}), self.s(), self.s(), len(d), 0, frags))
            elif x < 0.97:
                calls.append(("D", self.s(), self.kv()))
            elif not legal:
                y = r.random()
                if y < 0.4:
                    calls.append(("M", r.choice([5, 77, 4242]), 0, 0, 0, b"x"))     # unknown channel
                elif y < 0.7:
                    calls.append(("S", 0, b"zero", b"", b""))                        # schema id 0
                else:
                    calls.append(("C", 4000 + r.randint(0, 9), 999, b"t", b"", []))  # unknown schema
        calls.append(("X",))
        return calls


def kvs_str(items):
    if not items:
        return "-"
    return ",".join("%s:%s" % (k.hex(), v.hex()) for k, v in items)


def wopts_line(o):
    keys = ["crc", "chunked", "skipmi", "skipstats", "skiprsh", "skiprch", "skipai", "skipmdi", "skipci", "skipso",
            "overridelib", "skipmagic", "custom"]
    parts = ["%s=%d" % (k, 1 if o.get(k) else 0) for k in keys]
    parts += ["chunksize=%d" % o["chunksize"], "comp=%s" % (o["comp"] or "-"), "level=%d" % o["level"]]
    return "wopts " + " ".join(parts)


def call_line(c):
    k = c[0]
    if k == "H":
        return "H %s %s" % (hx(c[1]), hx(c[2]))
    if k == "S":
        return "S %d %s %s %s" % (c[1], hx(c[2]), hx(c[3]), hx(c[4]))
    if k == "C":
        return "C %d %d %s %s %s" % (c[1], c[2], hx(c[3]), hx(c[4]), kvs_str(c[5]))
    if k == "M":
        return "M %d %d %d %d %s" % (c[1], c[2], c[3], c[4], hx(c[5]))
    if k == "A":
        frags = ",".join(f.hex() for f in c[7] if f) or "-"
        return "A %d %d %s %s %d %d %s" % (c[1], c[2], hx(c[3]), hx(c[4]), c[5], c[6], frags)
    if k == "D":
        return "D %s %s" % (hx(c[1]), kvs_str(c[2]))
    if k == "X":
        return "X"
    raise ValueError(c)


def script_lines(o, calls, fault=None, lib=None, comp_table=None):
    lines = [wopts_line(o)]
    if fault is None:
        lines.append("fault none")
    else:
        lines.append("fault %d %s %s" % (fault[0], fault[1], "perm" if fault[2] else "trans"))
    if lib is not None:
        lines.append("lib " + hx(lib))
    for plain, payload in (comp_table or []):
        lines.append("comp %s %s" % (hx(plain), hx(payload)))
    lines += [call_line(c) for c in calls]
    return lines


def expected_content(o, calls, results=None):
    """The logical content handed to the writer by the calls that succeeded (results: per-call 'ok'/...)."""
    schemas, channels, messages, attachments, metadata = {}, {}, [], [], []
    header = None
    for i, c in enumerate(calls):
        if results is not None and (i >= len(results) or results[i] != "ok"):
            continue
        k = c[0]
        if k == "H":
            header = (c[1], c[2])
        elif k == "S":
            schemas.setdefault(c[1], c)
        elif k == "C":
            channels.setdefault(c[1], c)
        elif k == "M":
            messages.append(c)
        elif k == "A":
            attachments.append(c)
        elif k == "D":
            metadata.append(c)
    return {"header": header, "schemas": schemas, "channels": channels, "messages": messages,
            "attachments": attachments, "metadata": metadata}
