#!/usr/bin/env python3
"""run_seeded.py - apply each seeded change (seeded/<id>/patch.diff) to /repo, run the checks named in its
meta.json (or all given on the command line), record which checks report a VIOLATION, undo the change.
Usage: tools/run_seeded.py [--only id,id] [--checks C01,C05]"""
import argparse
import json
import os
import subprocess
import sys
import time

VERIF = os.path.dirname(os.path.dirname(os.path.abspath(__file__)))
REPO = "/repo"


def sh(cmd, **kw):
    return subprocess.run(cmd, shell=True, stdout=subprocess.PIPE, stderr=subprocess.STDOUT, text=True, **kw)


def run_isolated_seed(sid, checks, tier):
    """Apply the change in a scratch worktree of /repo and run the checks from a scratch copy of /verif with VERIF_REPO
    pointing at it: same machinery, nothing shared with /repo or /verif, so several can run at once."""
    import shutil
    base = "/tmp/seedrun/%s" % sid
    wt, vc = base + "/repo", base + "/verif"
    sh("git -C %s worktree remove --force %s" % (REPO, wt))
    shutil.rmtree(base, ignore_errors=True)
    os.makedirs(base)
    res = {}
    try:
        r = sh("git -C %s worktree add -q --detach %s HEAD" % (REPO, wt))
        assert r.returncode == 0, r.stdout
        r = sh("git -C %s apply %s" % (wt, os.path.join(VERIF, "seeded", sid, "patch.diff")))
        if r.returncode != 0:
            return {"applies": False}
        sh("rsync -a --exclude .git --exclude .work --exclude replays --exclude seeded --exclude evidence %s/ %s/" % (VERIF, vc))
        for c in checks:
            t0 = time.time()
            p = sh("cd %s && VERIF_REPO=%s ./check %s --tier %s" % (vc, wt, c, tier))
            viol = [l for l in p.stdout.splitlines() if l.startswith("VIOLATION")]
            first = ""
            rp = os.path.join(vc, "replays", "%s-%s-1.replay" % (c, tier))
            if os.path.exists(rp):
                first = next((l for l in open(rp, errors="replace") if l.startswith("# case") or l.startswith("# data race") or l.startswith("# proof")), "")[:300].strip()
            res[c] = {"exit": p.returncode, "violation": [v.replace(vc, VERIF) for v in viol[:1]], "wall_s": round(time.time() - t0, 1), "first": first}
    finally:
        sh("git -C %s worktree remove --force %s" % (REPO, wt))
        shutil.rmtree(base, ignore_errors=True)
    return res


def record(sid, res):
    d = os.path.join(VERIF, "seeded", sid)
    meta = json.load(open(os.path.join(d, "meta.json"))) if os.path.exists(os.path.join(d, "meta.json")) else {}
    meta["detected_by"] = sorted(c for c, v in res.items() if isinstance(v, dict) and v.get("exit") == 1 and v["violation"] and "no-failing-input-found" not in v["violation"][0])
    meta["proof_or_correspondence_only"] = sorted(c for c, v in res.items() if isinstance(v, dict) and v.get("exit") == 1 and v["violation"] and "no-failing-input-found" in v["violation"][0])
    meta["last_run"] = res
    json.dump(meta, open(os.path.join(d, "meta.json"), "w"), indent=1)


def main():
    ap = argparse.ArgumentParser()
    ap.add_argument("--only")
    ap.add_argument("--checks")
    ap.add_argument("--tier", default="quick")
    ap.add_argument("--jobs", type=int, default=0, help="run N seeds at a time, each in its own scratch worktree and scratch copy of /verif")
    a = ap.parse_args()
    if a.jobs:
        from concurrent.futures import ThreadPoolExecutor
        ids = sorted(os.listdir(os.path.join(VERIF, "seeded")))
        if a.only:
            ids = [i for i in ids if i in a.only.split(",")]
        jobs = []
        for sid in ids:
            d = os.path.join(VERIF, "seeded", sid)
            if not os.path.exists(os.path.join(d, "patch.diff")):
                continue
            meta = json.load(open(os.path.join(d, "meta.json"))) if os.path.exists(os.path.join(d, "meta.json")) else {}
            jobs.append((sid, a.checks.split(",") if a.checks else meta.get("checks", [meta.get("property")])))
        with ThreadPoolExecutor(a.jobs) as ex:
            futs = {sid: ex.submit(run_isolated_seed, sid, checks, a.tier) for sid, checks in jobs}
            for sid, f in futs.items():
                res = f.result()
                record(sid, res)
                for c, v in res.items():
                    print(sid, c, "exit", v.get("exit") if isinstance(v, dict) else v, v.get("violation") if isinstance(v, dict) else "", flush=True)
        return
    ids = sorted(os.listdir(os.path.join(VERIF, "seeded")))
    if a.only:
        ids = [i for i in ids if i in a.only.split(",")]
    assert sh("git -C %s status --porcelain --untracked-files=no" % REPO).stdout.strip() == "", "repo has local changes"
    summary = {}
    for sid in ids:
        d = os.path.join(VERIF, "seeded", sid)
        patch = os.path.join(d, "patch.diff")
        if not os.path.exists(patch):
            continue
        meta = json.load(open(os.path.join(d, "meta.json"))) if os.path.exists(os.path.join(d, "meta.json")) else {}
        checks = a.checks.split(",") if a.checks else meta.get("checks", [meta.get("property")])
        r = sh("git -C %s apply %s" % (REPO, patch))
        if r.returncode != 0:
            print(sid, "PATCH DOES NOT APPLY:", r.stdout[-300:])
            summary[sid] = {"applies": False}
            continue
        res = {}
        try:
            for c in checks:
                t0 = time.time()
                p = sh("cd %s && ./check %s --tier %s" % (VERIF, c, a.tier))
                viol = [l for l in p.stdout.splitlines() if l.startswith("VIOLATION")]
                res[c] = {"exit": p.returncode, "violation": viol[:1], "wall_s": round(time.time() - t0, 1)}
                print(sid, c, "exit", p.returncode, viol[:1])
        finally:
            sh("git -C %s checkout -- ." % REPO)
        summary[sid] = res
        meta["detected_by"] = sorted(c for c, v in res.items() if v["exit"] == 1 and v["violation"] and "no-failing-input-found" not in v["violation"][0])
        meta["proof_or_correspondence_only"] = sorted(c for c, v in res.items() if v["exit"] == 1 and v["violation"] and "no-failing-input-found" in v["violation"][0])
        meta["last_run"] = res
        json.dump(meta, open(os.path.join(d, "meta.json"), "w"), indent=1)
    print(json.dumps(summary, indent=1))


if __name__ == "__main__":
    main()
