#!/usr/bin/env python3
"""run_seeded.py - apply each seeded change (seeded/<id>/patch.diff) to /repo, run the checks named in its
meta.json (or all given on the command line), record which checks report a VIOLATION, undo the change.
Usage: tools/run_seeded.py [--only id,id] [--checks C01,C05]"""
import argparse
import json
import os
import subprocess
import sys
import time

VERIF = os.path.dirname(os.path.dirname(os.path.abspath(__file__)))
REPO = "/repo"


def sh(cmd, **kw):
    return subprocess.run(cmd, shell=True, stdout=subprocess.PIPE, stderr=subprocess.STDOUT, text=True, **kw)


def main():
    ap = argparse.ArgumentParser()
    ap.add_argument("--only")
    ap.add_argument("--checks")
    ap.add_argument("--tier", default="quick")
    a = ap.parse_args()
    ids = sorted(os.listdir(os.path.join(VERIF, "seeded")))
    if a.only:
        ids = [i for i in ids if i in a.only.split(",")]
    assert sh("git -C %s status --porcelain --untracked-files=no" % REPO).stdout.strip() == "", "repo has local changes"
    summary = {}
    for sid in ids:
        d = os.path.join(VERIF, "seeded", sid)
        patch = os.path.join(d, "patch.diff")
        if not os.path.exists(patch):
            continue
        meta = json.load(open(os.path.join(d, "meta.json"))) if os.path.exists(os.path.join(d, "meta.json")) else {}
        checks = a.checks.split(",") if a.checks else meta.get("checks", [meta.get("property")])
        r = sh("git -C %s apply %s" % (REPO, patch))
        if r.returncode != 0:
            print(sid, "PATCH DOES NOT APPLY:", r.stdout[-300:])
            summary[sid] = {"applies": False}
            continue
        res = {}
        try:
            for c in checks:
                t0 = time.time()
                p = sh("cd %s && ./check %s --tier %s" % (VERIF, c, a.tier))
                viol = [l for l in p.stdout.splitlines() if l.startswith("VIOLATION")]
                res[c] = {"exit": p.returncode, "violation": viol[:1], "wall_s": round(time.time() - t0, 1)}
                print(sid, c, "exit", p.returncode, viol[:1])
        finally:
            sh("git -C %s checkout -- ." % REPO)
        summary[sid] = res
        meta["detected_by"] = sorted(c for c, v in res.items() if v["exit"] == 1 and v["violation"] and "no-failing-input-found" not in v["violation"][0])
        meta["proof_or_correspondence_only"] = sorted(c for c, v in res.items() if v["exit"] == 1 and v["violation"] and "no-failing-input-found" in v["violation"][0])
        meta["last_run"] = res
        json.dump(meta, open(os.path.join(d, "meta.json"), "w"), indent=1)
    print(json.dumps(summary, indent=1))


if __name__ == "__main__":
    main()
