#!/usr/bin/env python3
"""gen_decisions.py - turn the decision expressions extracted by tools/gotrans (decisions.go) from go/mcap's readers,
read options and writer into Gallina definitions (coq/theories/Decisions_gen.v). Every Go leaf expression is mapped to a
term of the model's state per site; anything unmapped becomes an unbound identifier, so that the generated file (and with
it DecisionTie.v) stops compiling when the code's decisions change shape."""
import os
import re

VERIF = os.path.dirname(os.path.dirname(os.path.abspath(__file__)))

CI = {"it.chunkIndexes[i].ChunkStartOffset": ("ci_offset a", "N"), "it.chunkIndexes[j].ChunkStartOffset": ("ci_offset b", "N"),
      "it.chunkIndexes[i].MessageStartTime": ("ci_start a", "N"), "it.chunkIndexes[j].MessageStartTime": ("ci_start b", "N"),
      "it.chunkIndexes[i].MessageEndTime": ("ci_end a", "N"), "it.chunkIndexes[j].MessageEndTime": ("ci_end b", "N")}
EN = {"unreadMessageIndexes[i].timestamp": ("en_ts a", "N"), "unreadMessageIndexes[j].timestamp": ("en_ts b", "N")}
WIN = {"it.start": ("ro_start_n ro", "N"), "it.end": ("ro_end_n ro", "N"), "it.endUnbounded": ("ro_unbounded ro", "bool")}
ORD = {"FileOrder": ("FileOrder", "order"), "LogTimeOrder": ("LogTimeOrder", "order"), "ReverseLogTimeOrder": ("ReverseLogTimeOrder", "order")}
RO = {"ro.Start": ("ro_start r", "Z"), "ro.End": ("ro_end r", "Z"), "ro.StartNanos": ("ro_start_n r", "N"), "ro.EndNanos": ("ro_end_n r", "N"),
      "ro.endUnbounded": ("ro_unbounded r", "bool"), "ro.UseIndex": ("ro_use_index r", "bool"), "ro.Order": ("ro_order r", "order")}
RO.update(ORD)
WM = {"m.LogTime": ("m_log m", "N"), "w.currentChunkEndTime": ("w_cur_end s", "N"), "w.currentChunkStartTime": ("w_cur_start s", "N"),
      "w.Statistics.MessageEndTime": ("w_st_end s", "N"), "w.Statistics.MessageStartTime": ("w_st_start s", "N"),
      "w.Statistics.MessageCount": ("w_st_messages s", "N"), "w.opts.Chunked": ("o_chunked o", "bool"), "w.closed": ("w_closed s", "bool"),
      "w.compressedWriter.Size()": ("Z.of_N (blen (w_cbuf s))", "Z"), "w.opts.ChunkSize": ("o_chunksize o", "Z"),
      "w.channels[m.ChannelID]": ("assoc_get (m_chan m) (w_channels s)", "option")}


def merged(*ds):
    out = {}
    for d in ds:
        out.update(d)
    return out


LX = {"l.inChunk": ("in_chunk", "bool"), "eof": ("eof", "bool"), "unexpectedEOF": ("ueof", "bool"),
      "readLength": ("N.of_nat (List.length hd)", "N"), "len(Magic)": ("8%N", "N"),
      "bytes.Equal(Magic, l.buf[:len(Magic)])": ("bytes_eqb hd magic", "bool"),
      "l.maxRecordSize": ("lo_max_record lo", "N"), "uint64(l.maxRecordSize)": ("lo_max_record lo", "N"), "recordLen": ("rlen", "N"),
      "math.MaxInt64": ("9223372036854775807%N", "N"), "math.MaxInt32": ("max_int32", "N"), "uint64(cap(p))": ("pcap", "N"),
      "headerLen": ("need", "N"), "uint64(len(l.buf))": ("bufcap", "N"),
      "l.maxDecompressedChunkSize": ("lo_max_chunk lo", "N"), "uint64(l.maxDecompressedChunkSize)": ("lo_max_chunk lo", "N"),
      "uncompressedSize": ("usize", "N"), "uint64(len(l.uncompressedChunk))": ("ubuf", "N"),
      "uncompressedCRC": ("ucrc", "N"), "crc": ("crc", "N"), "n": ("n", "N")}

SITES = {
    "lx_leave_chunk": ("(in_chunk eof ueof : bool)", LX), "lx_magic_end": ("(hd : bytes)", LX),
    "lx_record_too_large": ("(lo : lopts) (rlen : N)", LX), "lx_att_too_long": ("(rlen : N)", LX), "lx_grow_p": ("(pcap rlen : N)", LX),
    "lx_nested": ("(in_chunk : bool)", LX), "lx_complen": ("(rlen need : N)", LX), "lx_scratch_grow": ("(bufcap need : N)", LX),
    "lx_chunk_too_large": ("(lo : lopts) (usize : N)", LX), "lx_ubuf_grow": ("(ubuf usize : N)", LX), "lx_usize_range": ("(usize : N)", LX),
    "lx_crc_mismatch": ("(ucrc crc : N)", LX), "make_safe_ok": ("(n : N)", LX),
    "ci_less_FileOrder": ("(a b : chunkindex)", CI), "ci_less_LogTimeOrder": ("(a b : chunkindex)", CI),
    "ci_less_ReverseLogTimeOrder": ("(a b : chunkindex)", CI),
    "ci_overlap": ("(ro : ropts) (ci : chunkindex)", merged(WIN, {"idx.MessageStartTime": ("ci_start ci", "N"), "idx.MessageEndTime": ("ci_end ci", "N")})),
    "en_less_LogTimeOrder": ("(a b : entry)", EN), "en_less_ReverseLogTimeOrder": ("(a b : entry)", EN),
    "msg_select_indexed": ("(ro : ropts) (chans : list (N * channel)) (is_msg : bool) (m : message)",
                           merged(WIN, {"op == OpMessage": ("is_msg", "bool"), "it.channels.Get(msg.ChannelID)": ("tab_get (m_chan m) chans", "option"),
                                        "msg.LogTime": ("m_log m", "N")})),
    "load_first": ("(ro : ropts) (ci : chunkindex) (e : entry)",
                   merged(ORD, {"it.order": ("ro_order ro", "order"), "chunkIndex.MessageStartTime": ("ci_start ci", "N"),
                                "chunkIndex.MessageEndTime": ("ci_end ci", "N"), "messageIndex.timestamp": ("en_ts e", "N")})),
    "prune_init": ("(ci : chunkindex)", {"len(idx.MessageIndexOffsets)": ("N.of_nat (List.length (ci_mioffsets ci))", "N")}),
    "prune_hit": ("(chans : list (N * channel)) (chanID : N)", {"it.channels.Get(chanID)": ("tab_get chanID chans", "option")}),
    "u_chan_select": ("(ro : ropts) (t : bytes)", {"len(it.topics)": ("N.of_nat (List.length (ro_topics ro))", "N"),
                                                   "it.topics[channelInfo.Topic]": ("mem_bytes t (ro_topics ro)", "bool")}),
    "u_msg_window": ("(ro : ropts) (m : message)", merged(WIN, {"msg.LogTime": ("m_log m", "N")})),
    "opt_After_err": ("(r : ropts) (x : Z)", merged(RO, {"start": ("x", "Z")})),
    "opt_Before_err": ("(r : ropts) (x : Z)", merged(RO, {"end": ("x", "Z")})),
    "opt_AfterNanos_err": ("(r : ropts) (x : N)", merged(RO, {"start": ("x", "N")})),
    "opt_BeforeNanos_err": ("(r : ropts) (x : N)", merged(RO, {"end": ("x", "N")})),
    "opt_InOrder_err": ("(r : ropts) (x : rorder)", merged(RO, {"order": ("x", "order")})),
    "opt_UsingIndex_err": ("(r : ropts) (x : bool)", merged(RO, {"useIndex": ("x", "bool")})),
    "finalize_start": ("(r : ropts)", RO), "finalize_end": ("(r : ropts)", RO),
    "can_use_index": ("(sm : summ)", {"len(i.ChunkIndexes)": ("N.of_nat (List.length (sm_cis sm))", "N"),
                                      "len(i.Channels)": ("N.of_nat (List.length (sm_channels sm))", "N"),
                                      "i.Statistics": ("sm_stats sm", "option"),
                                      "i.Statistics.MessageCount": ("match sm_stats sm with Some st => st_messages st | None => 0%N end", "N")}),
    "w_unknown_channel": ("(s : wstate) (m : message)", WM),
    "w_in_chunk": ("(o : wopts) (s : wstate)", WM),
    "w_cur_end_upd": ("(s : wstate) (m : message)", WM), "w_cur_start_upd": ("(s : wstate) (m : message)", WM),
    "w_flush": ("(o : wopts) (s : wstate)", WM),
    "w_st_end_upd": ("(s : wstate) (m : message)", WM), "w_st_start_upd": ("(s : wstate) (m : message)", WM),
}

CMP = {"N": {"<": "N.ltb %s %s", ">": "N.ltb %s %s", "<=": "N.leb %s %s", ">=": "N.leb %s %s", "==": "N.eqb %s %s", "!=": "negb (N.eqb %s %s)"},
       "Z": {"<": "Z.ltb %s %s", ">": "Z.ltb %s %s", "<=": "Z.leb %s %s", ">=": "Z.leb %s %s", "==": "Z.eqb %s %s", "!=": "negb (Z.eqb %s %s)"},
       "order": {"==": "rorder_eqb %s %s", "!=": "negb (rorder_eqb %s %s)"},
       "bool": {"==": "Bool.eqb %s %s", "!=": "negb (Bool.eqb %s %s)"}}
FLIP = {">", ">="}


def ident(s):
    return "GO_UNMAPPED_" + re.sub(r"[^A-Za-z0-9]+", "_", s).strip("_")


def render(e, leaves):
    """-> (term, type)"""
    k = e.get("k")
    if k == "leaf":
        if e["s"] in leaves:
            return "(%s)" % leaves[e["s"]][0], leaves[e["s"]][1]
        return ident(e["s"]), "?"
    if k == "lit":
        if e["s"] in ("true", "false"):
            return e["s"], "bool"
        return e["s"], "lit"
    if k == "not":
        t, _ = render(e["x"], leaves)
        return "(negb %s)" % t, "bool"
    if k in ("notnil", "isnil"):
        t, _ = render(e["x"], leaves)
        return "(%s %s)" % ("go_notnil" if k == "notnil" else "go_isnil", t), "bool"
    if k == "ite":
        c, _ = render(e["c"], leaves)
        a, ta = render(e["l"], leaves)
        b, _ = render(e["r"], leaves)
        return "(if %s then %s else %s)" % (c, a, b), ta
    if k == "bin":
        # a whole comparison may itself be mapped (e.g. `op == OpMessage`)
        whole = "%s %s %s" % (e["l"].get("s", ""), e["op"], e["r"].get("s", ""))
        if e["l"].get("k") in ("leaf", "lit") and e["r"].get("k") in ("leaf", "lit") and whole in leaves:
            return "(%s)" % leaves[whole][0], leaves[whole][1]
        l, tl = render(e["l"], leaves)
        r, tr = render(e["r"], leaves)
        op = e["op"]
        if op == "+":
            ty = tl if tl not in ("lit", "?") else tr
            if ty == "lit":
                return "(%s + %s)" % (l, r), "lit+"
            ty = "N" if ty == "lit+" else ty
            if ty in ("N", "Z"):
                if tl in ("lit", "lit+"):
                    l = "(%s)%%%s" % (l, ty)
                if tr in ("lit", "lit+"):
                    r = "(%s)%%%s" % (r, ty)
                return "(%s.add %s %s)" % (ty, l, r), ty
            return ident("add_%s" % ty), "?"
        if op == "&&":
            return "(andb %s %s)" % (l, r), "bool"
        if op == "||":
            return "(orb %s %s)" % (l, r), "bool"
        ty = tl if tl not in ("lit", "?") else tr
        if ty in ("N", "Z"):
            if tl == "lit":
                l = "%s%%%s" % (l, ty)
            if tr == "lit":
                r = "%s%%%s" % (r, ty)
        if ty in CMP and op in CMP[ty]:
            x, y = (r, l) if op in FLIP else (l, r)
            return "(" + CMP[ty][op] % (x, y) + ")", "bool"
        return ident("cmp_%s_%s" % (op, ty)), "?"
    return ident(e.get("s", "unknown")), "?"


HEADER = ["(* %s - GENERATED on every run by tools/gen_decisions.py from the Go AST of /repo/go/mcap",
          "   (%s) through tools/gotrans.",
          "   Do not edit. Each definition is one boolean decision of the code, over the model's state. *)",
          "From Coq Require Import List NArith ZArith Bool.",
          "From Mcap Require Import Bytes GoSem Records Lexer Writer Reader.", "Import ListNotations.", "",
          "Definition go_notnil {A} (x : option A) : bool := match x with Some _ => true | None => false end.",
          "Definition go_isnil {A} (x : option A) : bool := match x with Some _ => false | None => true end.", ""]


def write_one(fname, srcs, decisions, pick):
    L = [HEADER[0] % fname, HEADER[1] % srcs] + HEADER[2:]
    seen = set()
    for d in decisions:
        name = d["name"]
        if name not in SITES or name in seen or not pick(name):
            continue
        seen.add(name)
        binders, leaves = SITES[name]
        term, _ = render(d["expr"], leaves)
        L.append("Definition go_%s %s : bool :=\n  %s." % (name, binders, term))
    text = "\n".join(L) + "\n"
    path = os.path.join(VERIF, "coq", "theories", fname)
    old = open(path).read() if os.path.exists(path) else None
    if old != text:
        open(path, "w").write(text)


def write(decisions):
    """reader-side and writer-side decisions go to separate files, so that a change of shape on one side only breaks
    the tie (and with it the properties) of that side"""
    write_one("DecisionsR_gen.v", "indexed_message_iterator.go, unindexed_message_iterator.go, reader_options.go, mcap.go",
              decisions, lambda n: not n.startswith(("w_", "lx_", "make_safe")))
    write_one("DecisionsL_gen.v", "lexer.go, mcap.go", decisions, lambda n: n.startswith(("lx_", "make_safe")))
    write_one("DecisionsW_gen.v", "writer.go", decisions, lambda n: n.startswith("w_"))
