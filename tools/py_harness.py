#!/usr/bin/env python3
"""py_harness.py - run the repository's Python package (python/mcap) on the line-oriented scripts that
the Python model (coq/theories/Py.v, driver ocaml/mpy.ml) executes, printing the same observation lines.
  py_harness.py pyread <script>    readers on given bytes
  py_harness.py pywrite <script>   Writer on given call lists
"""
import io
import os
import struct
import sys

REPO = os.environ.get("VERIF_REPO", "/repo")
sys.path.insert(0, os.path.join(REPO, "python", "mcap"))

from mcap import exceptions as ex  # noqa: E402
from mcap import records as R  # noqa: E402
from mcap.reader import NonSeekingReader, SeekingReader  # noqa: E402
from mcap.stream_reader import CRCValidationError, StreamReader  # noqa: E402
from mcap.writer import CompressionType, IndexType, Writer  # noqa: E402


def hx(b):
    if isinstance(b, str):
        b = b.encode("utf-8", "surrogatepass")
    b = bytes(b)
    return b.hex() if b else "-"


def unhx(s):
    return b"" if s in ("-", "") else bytes.fromhex(s)


def kv(d):
    return ",".join("%s:%s" % (hx(k), hx(v)) for k, v in d.items()) if d else "-"


def nn(d):
    items = d.items() if isinstance(d, dict) else d
    items = list(items)
    return ",".join("%d:%d" % (k, v) for k, v in items) if items else "-"


def show(r):
    if isinstance(r, R.Header):
        return "header p=%s l=%s" % (hx(r.profile), hx(r.library))
    if isinstance(r, R.Footer):
        return "footer ss=%d sos=%d crc=%d" % (r.summary_start, r.summary_offset_start, r.summary_crc)
    if isinstance(r, R.Schema):
        return "schema id=%d name=%s enc=%s data=%s" % (r.id, hx(r.name), hx(r.encoding), hx(r.data))
    if isinstance(r, R.Channel):
        return "channel id=%d schema=%d topic=%s menc=%s meta=%s" % (r.id, r.schema_id, hx(r.topic), hx(r.message_encoding), kv(r.metadata))
    if isinstance(r, R.Message):
        return "message chan=%d seq=%d log=%d pub=%d data=%s" % (r.channel_id, r.sequence, r.log_time, r.publish_time, hx(r.data))
    if isinstance(r, R.Chunk):
        return "chunk start=%d end=%d usize=%d crc=%d comp=%s data=%s" % (r.message_start_time, r.message_end_time, r.uncompressed_size,
                                                                         r.uncompressed_crc, hx(r.compression), hx(r.data))
    if isinstance(r, R.MessageIndex):
        return "msgindex chan=%d recs=%s" % (r.channel_id, nn(r.records))
    if isinstance(r, R.ChunkIndex):
        return "chunkindex start=%d end=%d off=%d len=%d mio=%s milen=%d comp=%s csize=%d usize=%d" % (
            r.message_start_time, r.message_end_time, r.chunk_start_offset, r.chunk_length, nn(r.message_index_offsets),
            r.message_index_length, hx(r.compression), r.compressed_size, r.uncompressed_size)
    if isinstance(r, R.Attachment):
        return "attachment log=%d create=%d name=%s media=%s data=%s" % (r.log_time, r.create_time, hx(r.name), hx(r.media_type), hx(r.data))
    if isinstance(r, R.AttachmentIndex):
        return "attindex off=%d len=%d log=%d create=%d size=%d name=%s media=%s" % (r.offset, r.length, r.log_time, r.create_time,
                                                                                   r.data_size, hx(r.name), hx(r.media_type))
    if isinstance(r, R.Statistics):
        return "statistics mc=%d sc=%d cc=%d ac=%d mdc=%d kc=%d start=%d end=%d counts=%s" % (
            r.message_count, r.schema_count, r.channel_count, r.attachment_count, r.metadata_count, r.chunk_count,
            r.message_start_time, r.message_end_time, nn(r.channel_message_counts))
    if isinstance(r, R.Metadata):
        return "metadata name=%s meta=%s" % (hx(r.name), kv(r.metadata))
    if isinstance(r, R.MetadataIndex):
        return "mdindex off=%d len=%d name=%s" % (r.offset, r.length, hx(r.name))
    if isinstance(r, R.SummaryOffset):
        return "sumoffset op=%d start=%d len=%d" % (r.group_opcode, r.group_start, r.group_length)
    if isinstance(r, R.DataEnd):
        return "dataend crc=%d" % r.data_section_crc
    return "unknown %r" % (r,)


def exc_name(e):
    if isinstance(e, ex.EndOfFile):
        return "EndOfFile"
    if isinstance(e, struct.error):
        return "Struct"
    if isinstance(e, UnicodeDecodeError):
        return "Unicode"
    if isinstance(e, ex.InvalidMagic):
        return "InvalidMagic"
    if isinstance(e, ex.RecordLengthLimitExceeded):
        return "RecordLimit"
    if isinstance(e, CRCValidationError):
        return "Crc"
    if isinstance(e, ex.UnsupportedCompressionError):
        return "Unsupported"
    if isinstance(e, ex.McapError):
        return "Mcap"
    if isinstance(e, KeyError):
        return "Key"
    if isinstance(e, OverflowError):
        return "Overflow"
    if isinstance(e, (StopIteration, RuntimeError)):
        return "StopIter"
    if isinstance(e, ValueError):
        return "Value"
    if isinstance(e, MemoryError):
        return "Memory"
    return "Other:" + type(e).__name__


def opts(fields):
    d = {}
    for f in fields:
        if "=" in f:
            k, v = f.split("=", 1)
            d[k] = v
    return d


def drain(gen, fmt):
    """print every item the iterator yields, then how it ended"""
    try:
        for x in gen:
            print(fmt(x))
        print("end stop")
    except Exception as e:  # noqa: BLE001
        print("end raise " + exc_name(e))


def triple(t):
    s, c, m = t
    return "triple %s | %s | %s" % ("none" if s is None else show(s), show(c), show(m))


def show_summary(fn):
    try:
        su = fn()
    except Exception as e:  # noqa: BLE001
        print("summary raise " + exc_name(e))
        return
    if su is None:
        print("summary none")
        return
    print("summary stats=%s" % ("none" if su.statistics is None else show(su.statistics)))
    for s in su.schemas.values():
        print("ss " + show(s))
    for c in su.channels.values():
        print("sc " + show(c))
    for k in su.chunk_indexes:
        print("sk " + show(k))
    for a in su.attachment_indexes:
        print("sa " + show(a))
    for m in su.metadata_indexes:
        print("sm " + show(m))
    print("summary end")


def mfilter(o):
    topics = None if o.get("topics", "*") == "*" else [unhx(t).decode("utf-8") for t in o["topics"].split(",") if t != ""]
    start = None if o.get("start", "-") == "-" else int(o["start"])
    end = None if o.get("end", "-") == "-" else int(o["end"])
    return topics, start, end


def run_read(lines):
    data = b""
    for line in lines:
        f = line.split(" ")
        if f[0] == "file":
            data = unhx(f[1] if len(f) > 1 else "-")
        elif f[0] == "op":
            o = opts(f[2:])
            val = o.get("validate", "0") == "1"
            op = f[1]
            print("op " + " ".join(f[1:]))
            if op == "stream":
                try:
                    sr = StreamReader(io.BytesIO(data), skip_magic=o.get("skip", "0") == "1", emit_chunks=o.get("emit", "0") == "1",
                                      validate_crcs=val)
                except Exception as e:  # noqa: BLE001
                    print("end raise " + exc_name(e))
                    continue
                drain(sr.records, show)
            elif op in ("ns_messages", "sk_messages"):
                topics, start, end = mfilter(o)
                try:
                    rd = (NonSeekingReader if op[0] == "n" else SeekingReader)(io.BytesIO(data), validate_crcs=val)
                    it = rd.iter_messages(topics, start, end, o.get("order", "log") == "log", o.get("reverse", "0") == "1")
                except Exception as e:  # noqa: BLE001
                    print("end raise " + exc_name(e))
                    continue
                drain(it, triple)
            elif op in ("ns_header", "sk_header"):
                try:
                    rd = (NonSeekingReader if op[0] == "n" else SeekingReader)(io.BytesIO(data), validate_crcs=val)
                    print(show(rd.get_header()))
                except Exception as e:  # noqa: BLE001
                    print("header raise " + exc_name(e))
            elif op in ("ns_summary", "sk_summary"):
                try:
                    rd = (NonSeekingReader if op[0] == "n" else SeekingReader)(io.BytesIO(data), validate_crcs=val)
                except Exception as e:  # noqa: BLE001
                    print("summary raise " + exc_name(e))
                    continue
                show_summary(rd.get_summary)
            elif op in ("ns_attachments", "sk_attachments", "ns_metadata", "sk_metadata"):
                try:
                    rd = (NonSeekingReader if op[0] == "n" else SeekingReader)(io.BytesIO(data), validate_crcs=val)
                    it = rd.iter_attachments() if op.endswith("attachments") else rd.iter_metadata()
                except Exception as e:  # noqa: BLE001
                    print("end raise " + exc_name(e))
                    continue
                drain(it, show)
            else:
                print("unknown op")


def kvd(s):
    d = {}
    if s not in ("-", ""):
        for item in s.split(","):
            k, v = item.split(":")
            d[unhx(k).decode("utf-8")] = unhx(v).decode("utf-8")
    return d


def run_write(lines):
    buf = io.BytesIO()
    w = None
    try:
        for line in lines:
            f = line.split(" ")
            o = opts(f[1:])
            if f[0] == "popts":
                idx = IndexType.NONE
                for name, flag in (("att", IndexType.ATTACHMENT), ("chunk", IndexType.CHUNK), ("msg", IndexType.MESSAGE), ("md", IndexType.METADATA)):
                    if name in o.get("idx", "").split(","):
                        idx |= flag
                w = Writer(buf, chunk_size=int(o["chunk_size"]), compression=CompressionType.NONE, index_types=idx,
                           repeat_channels=o["rc"] == "1", repeat_schemas=o["rs"] == "1", use_chunking=o["chunking"] == "1",
                           use_statistics=o["stats"] == "1", use_summary_offsets=o["so"] == "1", enable_crcs=o["crcs"] == "1",
                           enable_data_crcs=o["dcrcs"] == "1")
            elif f[0] == "start":
                w.start(unhx(o["profile"]).decode("utf-8"), unhx(o["library"]).decode("utf-8"))
            elif f[0] == "schema":
                w.register_schema(unhx(o["name"]).decode("utf-8"), unhx(o["enc"]).decode("utf-8"), unhx(o["data"]))
            elif f[0] == "channel":
                w.register_channel(unhx(o["topic"]).decode("utf-8"), unhx(o["menc"]).decode("utf-8"), int(o["schema"]), kvd(o["meta"]))
            elif f[0] == "message":
                w.add_message(int(o["chan"]), int(o["log"]), unhx(o["data"]), int(o["pub"]), int(o["seq"]))
            elif f[0] == "attachment":
                w.add_attachment(int(o["create"]), int(o["log"]), unhx(o["name"]).decode("utf-8"), unhx(o["media"]).decode("utf-8"), unhx(o["data"]))
            elif f[0] == "metadata":
                w.add_metadata(unhx(o["name"]).decode("utf-8"), kvd(o["meta"]))
            elif f[0] == "finish":
                w.finish()
        print("out " + hx(buf.getvalue()))
    except Exception as e:  # noqa: BLE001
        print("raise " + exc_name(e))


def main():
    mode, path = sys.argv[1], sys.argv[2]
    cur = None
    for line in open(path):
        line = line.rstrip("\n")
        if not line:
            continue
        if line.startswith("case "):
            cur = []
            print(line)
        elif line == "end":
            (run_read if mode == "pyread" else run_write)(cur)
            print("end")
            cur = None
        elif cur is not None:
            cur.append(line)
    sys.stdout.flush()


if __name__ == "__main__":
    main()
