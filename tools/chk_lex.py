"""chk_lex.py - running the lexer (implementation and model) on byte strings; shared by
C01, C07, C09, C10, C11, C12, C15."""
import os

import common as cm
import gen_write as gw
import chk_writer as cw

DEFAULT_LOPTS = {"skipmagic": 0, "validate": 0, "acrc": 1, "emitchunks": 0, "emitinvalid": 0, "maxrecord": 0,
                 "maxchunk": 0, "cb": "full", "custom": 1}
DEFAULT_SRC = {"seek": 1, "frag": "all", "fail": -1}


def lex_lines(c, dec_table=None):
    lo = dict(DEFAULT_LOPTS); lo.update(c.get("lopts", {}))
    src = dict(DEFAULT_SRC); src.update(c.get("src", {}))
    lines = ["lopts " + " ".join("%s=%s" % kv for kv in sorted(lo.items())),
             "src " + " ".join("%s=%s" % kv for kv in sorted(src.items())),
             "file " + cm.hx(c["file"])]
    for key, val in (dec_table or {}).items():
        lines.append("dec %s %s %s %s %s" % (key[0], key[1], key[2], val[0], val[1]))
    return lines


def parse_lex_obs(lines):
    d = {"new": None, "events": [], "end": None, "panic": None, "needs": [], "allocs": None, "other": []}
    for l in lines:
        f = l.split(" ", 1)
        if f[0] == "new":
            d["new"] = f[1]
        elif f[0] in ("tok", "att", "invalidchunk"):
            d["events"].append(l)
        elif f[0] == "endtok":
            d["end"] = f[1]
        elif f[0] in ("panic", "exit", "outoffuel"):
            d["panic"] = l
        elif f[0] == "need":
            d["needs"].append(tuple(f[1].split(" ")))
        elif f[0] == "allocated":
            d["allocated"] = int(f[1])
        elif f[0] == "allocs":
            d["allocs"] = f[1] if len(f) > 1 else ""
        else:
            d["other"].append(l)
    return d


def seed_tables(c, f):
    """Pre-populate the decompression oracle tables of case c from the chunks of written file f
    (payloads cut out of the file by the harness walker, plaintext from the codec called directly)."""
    dec = dict(c.get("_dec") or {})
    dall = dict(c.get("_dall") or {})
    for comp, plain, payload, end in f["g"]["chunks"]:
        if comp != b"" and end == "eof":
            dec[(cm.hx(comp), cm.hx(payload), "eof")] = (cm.hx(plain), "eof")
            dall[(cm.hx(comp), cm.hx(payload), str(len(plain)))] = ("ok", cm.hx(plain))
    c["_dec"], c["_dall"] = dec, dall
    return c


def run_lex(cases, wd, tag="lex", timeout=900, isolated=False, go_env=None):
    """cases: list of dict(id, file, lopts?, src?). Returns (go, model, crashed)."""
    for c in cases:
        if "base" in c and "g" in c["base"] and "_dec" not in c:
            seed_tables(c, c["base"])
    impl = os.path.join(cm.BUILD, "impl")
    model_exe = os.path.join(cm.BUILD, "model")
    if isolated:
        go_raw, culprits = cm.run_isolated(impl, "lex", [(c["id"], lex_lines(c)) for c in cases], wd, tag + "go", timeout=60,
                                           env=go_env, mem_bytes=16 << 30)
        crashed = []
    else:
        go_raw, crashed = cm.run_sharded(impl, "lex", [(c["id"], lex_lines(c)) for c in cases], wd, tag + "go", timeout=timeout, extra_env=go_env)
        culprits = {}
    go = {k: parse_lex_obs(v) for k, v in go_raw.items()}
    for k, why in culprits.items():
        go[k] = {"new": None, "events": [], "end": None, "panic": "process-death: " + why, "needs": [], "allocs": None, "other": []}
    table = {}            # global oracle table: (comp, avail, availend) -> (plain, end)
    pending = list(cases)
    model = {}
    mcrashed = []
    for rnd in range(12):
        if not pending:
            break
        raw, mc = cm.run_sharded(model_exe, "lex", [(c["id"], lex_lines(c, c.get("_dec"))) for c in pending], wd,
                                 "%smodel%d" % (tag, rnd), timeout=timeout)
        mcrashed += mc
        needs = {}
        again = []
        for c in pending:
            m = parse_lex_obs(raw.get(c["id"], []))
            if m["needs"] and rnd < 11:
                for nd in m["needs"]:
                    needs[nd] = None
                again.append((c, m["needs"]))
            else:
                model[c["id"]] = m
        if not again:
            break
        missing = [nd for nd in needs if nd not in table]
        if missing:
            q = [("q%d" % i, ["dec %s %s %s" % nd]) for i, nd in enumerate(missing)]
            draw, dc = cm.run_sharded(impl, "decomp", q, wd, "%sdec%d" % (tag, rnd), timeout=timeout)
            crashed += dc
            for lines in draw.values():
                for l in lines:
                    f = l.split(" ")
                    if f[0] == "dec":
                        table[(f[1], f[2], f[3])] = (f[4], f[5])
        pending = []
        for c, nds in again:
            dec = dict(c.get("_dec") or {})
            for nd in nds:
                if nd in table:
                    dec[nd] = table[nd]
            c["_dec"] = dec
            pending.append(c)
    return go, model, crashed + mcrashed


def diff_lex(g, m):
    if g is None or m is None:
        return "missing output (impl %s, model %s)" % (g is not None, m is not None)
    if g["panic"] or m["panic"]:
        if g["panic"] and not m["panic"]:
            return "impl crashed (%s), model did not" % g["panic"]
        if m["panic"] and not g["panic"]:
            return "model predicts a crash (%s), impl did not" % m["panic"]
        return None
    if g["new"] != m["new"]:
        return "NewLexer: impl %s model %s" % (g["new"], m["new"])
    if g["events"] != m["events"]:
        n = next((i for i in range(min(len(g["events"]), len(m["events"]))) if g["events"][i] != m["events"][i]),
                 min(len(g["events"]), len(m["events"])))
        ge = g["events"][n][:120] if n < len(g["events"]) else "<none>"
        me = m["events"][n][:120] if n < len(m["events"]) else "<none>"
        return "event %d differs (impl %d events, model %d): impl %s | model %s" % (n, len(g["events"]), len(m["events"]), ge, me)
    if g["end"] != m["end"]:
        return "end: impl %s model %s" % (g["end"], m["end"])
    return None


def corner_written_files(tag, wd):
    """the deterministic corner workloads of chk_writer.corner_cases written by the real writer"""
    cases = cw.corner_cases(tag)
    scripts = [(c["id"], gw.script_lines(c["o"], c["calls"], None)) for c in cases]
    raw, crashed = cm.run_sharded(os.path.join(cm.BUILD, "impl"), "write", scripts, wd, tag + "cwr")
    res = []
    for c in cases:
        g = cw.parse_write_obs(raw.get(c["id"], []))
        if g["new"] == "ok" and all(r == "ok" for r in g["calls"]) and not c["o"]["skipmagic"]:
            c["file"] = b"".join(g["writes"])
            c["g"] = g
            res.append(c)
    return res


def lex_replay(c):
    return ["case %s" % c["id"]] + lex_lines(c, c.get("_dec")) + ["end"]


def written_files(seed, n, tag, wd, small=True, **kw):
    """Generate writer workloads, run the real writer, return list of dict(id, o, calls, file, g)."""
    g0 = gw.Gen(seed, utf8_only=kw.get("utf8_only", False))
    cases = []
    for i in range(n):
        o = g0.wopts(**kw.get("force", {}))
        if small:
            o["chunksize"] = g0.r.choice([1, 7, 64, 64, 200, 1048576])
        calls = g0.calls(kw.get("nmin", 2), kw.get("nmax", 12), legal=True)
        cases.append({"id": "%s%d" % (tag, i), "o": o, "calls": calls})
    scripts = [(c["id"], gw.script_lines(c["o"], c["calls"], None)) for c in cases]
    raw, crashed = cm.run_sharded(os.path.join(cm.BUILD, "impl"), "write", scripts, wd, tag + "wr")
    res = []
    for c in cases:
        g = cw.parse_write_obs(raw.get(c["id"], []))
        if g["new"] == "ok" and all(r == "ok" for r in g["calls"]):
            c["file"] = b"".join(g["writes"])
            c["g"] = g
            res.append(c)
    return res, crashed
