#!/usr/bin/env python3
"""mutate.py - mechanical mutants of go/mcap and go/ros as a measure of what the checks notice.
  mutate.py gen  <outdir> [--per-file N] [--seed S]   enumerate operator mutations, keep those that build and leave the
                                                      repository's own tests unchanged (the others are not 'realistic')
  mutate.py run  <outdir> [--jobs N]                   run the checks that cover the mutated file, isolated, record who notices
  mutate.py report <outdir>
Mutants live outside /verif (scratch); the summary is copied to /verif/mutation_report.json by `report`."""
import argparse
import json
import os
import random
import re
import shutil
import subprocess
import sys
import time

VERIF = os.path.dirname(os.path.dirname(os.path.abspath(__file__)))
sys.path.insert(0, os.path.join(VERIF, "tools"))
REPO = "/repo"
ENV = dict(os.environ, GOPROXY="off", GOSUMDB="off", GOTOOLCHAIN="local")
ENV.pop("GOFLAGS", None)

FILES = {
    "go/mcap/writer.go": ["C01", "C05", "C06", "C08", "C13", "C14", "C17"],
    "go/mcap/lexer.go": ["C01", "C07", "C09", "C10", "C11", "C15"],
    "go/mcap/parse.go": ["C01", "C10", "C11", "C17"],
    "go/mcap/indexed_message_iterator.go": ["C02", "C03", "C04", "C12", "C20"],
    "go/mcap/unindexed_message_iterator.go": ["C01", "C02", "C04", "C09"],
    "go/mcap/reader.go": ["C01", "C02", "C04", "C08", "C10"],
    "go/mcap/reader_options.go": ["C04"],
    "go/mcap/mcap.go": ["C02", "C08", "C10"],
    "go/mcap/utils.go": ["C01", "C10", "C15", "C20"],
    "go/mcap/slicemap.go": ["C01", "C02"],
    "go/ros/bag2mcap.go": ["C18"],
    "go/ros/ros2db3_to_mcap.go": ["C18"],
    "go/ros/ros1msg/ros1msg_parser.go": ["C19"],
}
OPS = [(r"(?<![<>=!])<(?![<=])", "<="), (r"<=", "<"), (r"(?<![<>=!-])>(?![>=])", ">="), (r">=", ">"), (r"==", "!="), (r"!=", "=="),
       (r"&&", "||"), (r"\|\|", "&&"), (r"\+ 1\b", "+ 0"), (r"- 1\b", "- 0"), (r"\btrue\b", "false"), (r"\bfalse\b", "true"),
       (r"\+=", "-="), (r"\bcontinue\b", "break")]


def sh(cmd, cwd=None, timeout=900):
    p = subprocess.run(cmd, shell=True, cwd=cwd, env=ENV, stdout=subprocess.PIPE, stderr=subprocess.STDOUT, text=True, timeout=timeout)
    return p.returncode, p.stdout


def sites(path):
    out = []
    for ln, line in enumerate(open(path).read().split("\n")):
        code = line.split("//")[0]
        if not code.strip() or code.strip().startswith(("import", "package", "func ", "type ", "var (", ")")) or '"' in code and "Errorf" in code:
            continue
        for oi, (pat, rep) in enumerate(OPS):
            for m in re.finditer(pat, code):
                # skip generics / channel arrows / struct tags
                if "<-" in code or "`" in code:
                    continue
                out.append((ln, m.start(), m.end(), oi))
    return out


def failing(pkgdir):
    try:
        rc, out = sh("go test -count=1 -timeout 150s ./... 2>&1", cwd=pkgdir, timeout=900)
    except subprocess.TimeoutExpired:
        return ["<timeout>"], True
    return sorted(set(re.findall(r"^--- FAIL: (\S+)", out, re.M))), ("build failed" in out or "[build failed]" in out)


def gen(a):
    r = random.Random(a.seed)
    os.makedirs(a.outdir, exist_ok=True)
    wt = os.path.join(a.outdir, "wt")
    sh("git -C %s worktree remove --force %s" % (REPO, wt))
    shutil.rmtree(wt, ignore_errors=True)
    rc, out = sh("git -C %s worktree add -q --detach %s HEAD" % (REPO, wt))
    assert rc == 0, out
    base = {}
    for pkg in ("go/mcap", "go/ros"):
        base[pkg] = failing(os.path.join(wt, pkg))[0]
    summary = []
    try:
        for rel in FILES:
            path = os.path.join(wt, rel)
            ss = sites(path)
            r.shuffle(ss)
            kept = 0
            tried = 0
            for ln, a0, a1, oi in ss:
                if kept >= a.per_file or tried >= a.per_file * 6:
                    break
                tried += 1
                lines = open(path).read().split("\n")
                orig = lines[ln]
                lines[ln] = orig[:a0] + OPS[oi][1] + orig[a1:]
                open(path, "w").write("\n".join(lines))
                pkg = "go/mcap" if rel.startswith("go/mcap") else "go/ros"
                rcb, outb = sh("go build ./... 2>&1 && go vet ./... 2>&1 | grep -v '^#' | head -3", cwd=os.path.join(wt, pkg), timeout=600)
                status = "build-failed"
                if rcb == 0 and "vet:" not in outb:
                    f, bf = failing(os.path.join(wt, pkg))
                    status = "killed-by-repo-tests" if (f != base[pkg] or bf) else "candidate"
                mid = "m_%s_%d_%d" % (os.path.basename(rel).replace(".go", ""), ln + 1, oi)
                if status == "candidate":
                    d = os.path.join(a.outdir, mid)
                    os.makedirs(d, exist_ok=True)
                    rc, diff = sh("git diff", cwd=wt)
                    open(os.path.join(d, "patch.diff"), "w").write(diff)
                    json.dump({"file": rel, "line": ln + 1, "from": orig.strip(), "to": lines[ln].strip(), "checks": FILES[rel]}, open(os.path.join(d, "meta.json"), "w"), indent=1)
                    kept += 1
                summary.append({"id": mid, "file": rel, "line": ln + 1, "status": status})
                print(mid, status, flush=True)
                sh("git checkout -- .", cwd=wt)
    finally:
        sh("git -C %s worktree remove --force %s" % (REPO, wt))
        json.dump(summary, open(os.path.join(a.outdir, "generated.json"), "w"), indent=1)


def run_one(outdir, mid, tier="quick"):
    d = os.path.join(outdir, mid)
    meta = json.load(open(os.path.join(d, "meta.json")))
    base = "/tmp/mutrun/%s" % mid
    wt, vc = base + "/repo", base + "/verif"
    sh("git -C %s worktree remove --force %s" % (REPO, wt))
    shutil.rmtree(base, ignore_errors=True)
    os.makedirs(base)
    res = {}
    try:
        rc, out = sh("git -C %s worktree add -q --detach %s HEAD" % (REPO, wt))
        assert rc == 0, out
        rc, out = sh("git -C %s apply %s" % (wt, os.path.join(d, "patch.diff")))
        assert rc == 0, out
        sh("rsync -a --exclude .git --exclude .work --exclude replays --exclude seeded --exclude evidence %s/ %s/" % (VERIF, vc))
        for c in meta["checks"]:
            t0 = time.time()
            p = subprocess.run("cd %s && VERIF_REPO=%s ./check %s --tier %s" % (vc, wt, c, tier), shell=True, stdout=subprocess.PIPE, stderr=subprocess.STDOUT, text=True)
            viol = [l for l in p.stdout.splitlines() if l.startswith("VIOLATION")]
            res[c] = {"exit": p.returncode, "concrete": bool(viol) and "no-failing-input-found" not in viol[0], "wall_s": round(time.time() - t0, 1)}
            if res[c]["concrete"]:
                break           # one check with a concrete input is enough
    finally:
        sh("git -C %s worktree remove --force %s" % (REPO, wt))
        shutil.rmtree(base, ignore_errors=True)
    meta["result"] = res
    meta["noticed"] = any(v["exit"] == 1 for v in res.values())
    meta["noticed_with_input"] = any(v["concrete"] for v in res.values())
    json.dump(meta, open(os.path.join(d, "meta.json"), "w"), indent=1)
    return mid, meta


def run(a):
    from concurrent.futures import ThreadPoolExecutor
    mids = sorted(m for m in os.listdir(a.outdir) if m.startswith("m_") and "result" not in json.load(open(os.path.join(a.outdir, m, "meta.json"))))
    with ThreadPoolExecutor(a.jobs) as ex:
        for mid, meta in ex.map(lambda m: run_one(a.outdir, m), mids):
            print(mid, "noticed" if meta["noticed"] else "SURVIVED", "(input)" if meta["noticed_with_input"] else "", meta["from"], "->", meta["to"], flush=True)


def report(a):
    rows = []
    for m in sorted(os.listdir(a.outdir)):
        p = os.path.join(a.outdir, m, "meta.json")
        if m.startswith("m_") and os.path.exists(p):
            x = json.load(open(p))
            if "result" in x:
                rows.append({"id": m, "file": x["file"], "line": x["line"], "from": x["from"], "to": x["to"], "noticed": x["noticed"],
                             "noticed_with_input": x["noticed_with_input"], "by": [c for c, v in x["result"].items() if v["exit"] == 1]})
    gen_ = json.load(open(os.path.join(a.outdir, "generated.json"))) if os.path.exists(os.path.join(a.outdir, "generated.json")) else []
    rep = {"generated": len(gen_), "build_failed": sum(1 for g in gen_ if g["status"] == "build-failed"),
           "killed_by_repo_tests": sum(1 for g in gen_ if g["status"] == "killed-by-repo-tests"), "candidates_run": len(rows),
           "noticed": sum(1 for r in rows if r["noticed"]), "noticed_with_input": sum(1 for r in rows if r["noticed_with_input"]),
           "survivors": [r for r in rows if not r["noticed"]], "rows": rows}
    json.dump(rep, open(os.path.join(VERIF, "mutation_report.json"), "w"), indent=1)
    print(json.dumps({k: v for k, v in rep.items() if k not in ("rows", "survivors")}, indent=1))
    for r in rep["survivors"]:
        print("SURVIVOR", r["id"], r["file"], r["line"], r["from"], "->", r["to"])


if __name__ == "__main__":
    ap = argparse.ArgumentParser()
    ap.add_argument("cmd", choices=["gen", "run", "report"])
    ap.add_argument("outdir")
    ap.add_argument("--per-file", type=int, default=8, dest="per_file")
    ap.add_argument("--seed", type=int, default=1)
    ap.add_argument("--jobs", type=int, default=4)
    a = ap.parse_args()
    {"gen": gen, "run": run, "report": report}[a.cmd](a)
