#!/usr/bin/env python3
"""baseline.py - run the repository's pinned baseline suite (guard OFF: no -tags verif) and compare with
/root/.vp/BASELINE.json stable_pass.  Exit 0 iff every stable test still passes."""
import json
import os
import subprocess
import sys

REPO = os.environ.get("VERIF_REPO", "/repo")
mods = ["go/conformance/test-read-conformance", "go/conformance/test-write-conformance", "go/mcap", "go/ros"]
base = json.load(open("/root/.vp/BASELINE.json"))
stable = set(base["stable_pass"])
passed = set()
env = dict(os.environ, GOPROXY="off", GOSUMDB="off", GOTOOLCHAIN="local")
env.pop("GOFLAGS", None)
for m in mods:
    p = subprocess.run(["go", "test", "-json", "-vet=off", "-count=1", "-timeout", "25m", "./..."], cwd=os.path.join(REPO, m),
                       env=env, stdout=subprocess.PIPE, stderr=subprocess.STDOUT)
    for line in p.stdout.decode(errors="replace").splitlines():
        try:
            ev = json.loads(line)
        except ValueError:
            continue
        if ev.get("Action") == "pass" and ev.get("Test"):
            passed.add("%s::%s" % (ev["Package"], ev["Test"]))
missing = sorted(stable - passed)
print("stable_pass=%d passed_now=%d missing=%d" % (len(stable), len(passed & stable), len(missing)))
for t in missing[:30]:
    print("NOT PASSING:", t)
sys.exit(1 if missing else 0)
